/-
  C01 — Linear-operator algebra has exact matrix semantics.
  Property theorems only; obligations are listed in harness/props/c01.py.
  `Gen.ModeTables` is regenerated from nifty/cl/operators/*.py on every run (translator T1), so the table theorems
  below are re-proved against the literal tables and mode expressions the code contains *now*.
  Trafo index `s < 4`: bit 0 = adjoint, bit 1 = inverse; the mode bit mask of `s` is `1 <<< s`.
-/
import NiftyVerif.Gen.ModeTables
import NiftyVerif.Model.OpAlgebra
import NiftyVerif.Lemmas.OpAlgebra
import NiftyVerif.Lemmas.OpAlgebraCap

namespace NiftyVerif.C01
open NiftyVerif.Gen.ModeTables NiftyVerif.OpAlgebra

/-! ### Part 1 — the mode algebra (complete finite tables, by `decide`) -/

/-- `_ilog` inverts `s ↦ 1 <<< s`, and maps every other index below 9 to "invalid" -/
theorem ilog_spec :
    (∀ s, s < 4 → ilogN (1 <<< s) = s) ∧ ilog.length = 9 ∧
    (∀ m, m < 9 → (ilogN m < 4 ↔ ∃ s, s < 4 ∧ m = 1 <<< s)) := by decide

/-- `_validMode` holds exactly for the four single-bit masks -/
theorem validMode_spec :
    validMode.length = 9 ∧ ∀ m, m < 9 → (validMode.getD m false = true ↔ ∃ s, s < 4 ∧ m = 1 <<< s) := by decide

/-- `_modeTable[t][s]` is the mask of `s xor t`: the modes form the group `{id,adj} × {id,inv}` -/
theorem modeTable_is_xor :
    modeTable.length = 4 ∧ (∀ t, t < 4 → (modeTable.getD t []).length = 4) ∧
    ∀ t, t < 4 → ∀ s, s < 4 → (modeTable.getD t []).getD s 0 = 1 <<< (s ^^^ t) := by decide

/-- an adapter with transformation `t` advertises mode `s` exactly when its operand advertises the mode the adapter
    forwards to (`_capTable` is the permutation of capability bits induced by `_modeTable`) -/
theorem capTable_matches_modeTable :
    capTable.length = 4 ∧ (∀ t, t < 4 → (capTable.getD t []).length = 16) ∧
    ∀ t, t < 4 → ∀ c, c < 16 → ∀ s, s < 4 →
      ((adapterCap t c &&& (1 <<< s)) ≠ 0 ↔ (c &&& adapterApplyMode t (1 <<< s)) ≠ 0) := by decide

/-- `_addInverse[c]` is the closure of `c` under "the inverse of an advertised mode" -/
theorem addInverse_is_closure :
    addInverse.length = 16 ∧
    ∀ c, c < 16 → ∀ s, s < 4 →
      ((invEnablerCap c &&& (1 <<< s)) ≠ 0 ↔ ((c &&& (1 <<< s)) ≠ 0 ∨ (c &&& (1 <<< (s ^^^ INVERSE_BIT))) ≠ 0)) := by decide

/-- `_dom(mode)` is the domain exactly when adjoint-ness and inverse-ness agree (TIMES, ADJOINT_INVERSE_TIMES),
    `_tgt(mode)` is the domain in the two other modes -/
theorem dom_tgt_masks :
    ∀ s, s < 4 → (((1 <<< s) &&& domMask ≠ 0) ↔ (s &&& 1 = (s >>> 1) &&& 1)) ∧
                 (((1 <<< s) &&& tgtMask ≠ 0) ↔ ¬ (s &&& 1 = (s >>> 1) &&& 1)) := by decide

/-- a chain applies its operators in list order (i.e. reverses the matrix product) exactly for ADJOINT_TIMES and
    INVERSE_TIMES; `_flip_modes` reverses the list for the same two transformations and keeps it for adjoint-inverse -/
theorem backwards_spec :
    (∀ s, s < 4 → (chainAppliesListOrder (1 <<< s) = true ↔ ¬ (s &&& 1 = (s >>> 1) &&& 1))) ∧
    chainFlipReversed = [true, true, false] := by decide

/-- the literal capability masks and the scaling masks -/
theorem mask_specs :
    sumCap = TIMES ||| ADJOINT_TIMES ∧ nullCap = TIMES ||| ADJOINT_TIMES ∧ chainCap = 15 ∧ allOps = 15 ∧
    TIMES = 1 <<< 0 ∧ ADJOINT_TIMES = 1 <<< 1 ∧ INVERSE_TIMES = 1 <<< 2 ∧ ADJOINT_INVERSE_TIMES = 1 <<< 3 ∧
    INVERSE_ADJOINT_TIMES = ADJOINT_INVERSE_TIMES ∧ ADJOINT_BIT = 1 ∧ INVERSE_BIT = 2 ∧
    (∀ s, s < 4 → (((1 <<< s) &&& scalingAdjMask ≠ 0) ↔ s &&& 1 = 1) ∧ (((1 <<< s) &&& scalingInvMask ≠ 0) ↔ s &&& 2 = 2)) ∧
    (∀ t, t < 4 → (scalingFlipConj t = true ↔ t &&& 1 = 1) ∧ (scalingFlipInv t = true ↔ t &&& 2 = 2)) ∧
    (∀ c, c < 16 → ∀ m, m < 9 → (checkMode c m = true ↔ ∃ s, s < 4 ∧ m = 1 <<< s ∧ c &&& m ≠ 0)) := by decide

/-- adapters: the mode used for the domain, the forwarded mode, and flipping are all `xor` on trafo indices -/
theorem adapter_table_specs :
    (∀ t, t < 4 → adapterDomMode t = 1 <<< t ∧ adapterTgtMode t = 1 <<< t) ∧
    (∀ t, t < 4 → ∀ s, s < 4 → adapterApplyMode t (1 <<< s) = 1 <<< (s ^^^ t)) ∧
    (∀ a, a < 4 → ∀ b, b < 4 → adapterFlip a b = a ^^^ b ∧ diagFlip a b = a ^^^ b) ∧
    (∀ s, s < 4 → invEnablerInvMode (1 <<< s) = 1 <<< (s ^^^ INVERSE_BIT)) ∧
    (∀ c, c < 16 → ∀ s, s < 4 → (invEnablerDelegates c (1 <<< s) = true ↔ c &&& (1 <<< s) ≠ 0)) := by decide

/-- diagonal operators: the branch taken in mode `s` with pending transformation `t` is `s xor t`;
    branch `b` conjugates iff bit 0 and divides iff bit 1; `_get_actual_diag` does the same for `_trafo` -/
theorem diag_kind_specs :
    (∀ t, t < 4 → ∀ s, s < 4 → diagTrafo t (1 <<< s) = s ^^^ t) ∧
    diagApplyKind.length = 4 ∧ diagActualKind.length = 4 ∧
    (∀ b, b < 4 → diagApplyKind.getD b (false, false) = (decide (b &&& 1 = 1), decide (b &&& 2 = 2))) ∧
    (∀ b, b < 4 → diagActualKind.getD b (false, false) = (decide (b &&& 1 = 1), decide (b &&& 2 = 2))) := by decide


/-! ### Part 1b — capability of composite expressions -/

section capability
variable {K D : Type}

/-- the property's own rule for "mode `s` is advertised": every constituent provides the mode that `s` requires -/
def Requires : Op K D → Nat → Bool
  | .leaf _ c _ _, s => (c &&& (1 <<< s)) != 0
  | .scaling _ _ _, _ => true
  | .diag _ _ _ _, _ => true
  | .idEntry _, _ => true
  | .blockdiag _ ents, s => (ents.map (Requires · s)).all id
  | .null _ _, s => (s &&& 2) == 0
  | .adapter o t, s => Requires o (s ^^^ t)
  | .chain ops, s => (ops.map (Requires · s)).all id
  | .sum ops _, s => ((s &&& 2) == 0) && (ops.map (Requires · s)).all id
  | .sandwich _ _ op, s => Requires op s
  | .invEnabler o, s => Requires o s || Requires o (s ^^^ 2)

/-- **capability = the property's rule**: an expression advertises mode `s` exactly when all of its constituents provide the
    modes that `s` requires (adapters permute by xor, chains/block-diagonals intersect, sums additionally only forward/adjoint,
    InversionEnabler closes under inverse) -/
theorem cap_spec (e : Op K D) (h : WF e = true) (s : Nat) (hs : s < 4) :
    (((cap e) &&& (1 <<< s)) != 0) = Requires e s := by
  induction e using cap.induct generalizing s with
  | case1 id c d t => simp [cap, Requires]
  | case2 => simp [cap, Requires, (consts_bit s hs).1]
  | case3 => simp [cap, Requires, (consts_bit s hs).1]
  | case4 => simp [cap, Requires, (consts_bit s hs).1]
  | case5 dm ents ih =>
    have hwf : ∀ o ∈ ents, WF o = true := by
      simpa [WF, List.all_map, List.all_eq_true] using h
    simp only [cap, Requires]
    rw [foldl_and_bit _ _ _ hs (consts_bit 0 (by decide)).2.2.2.2.1
      (by intro c hc; simp only [List.mem_map] at hc; obtain ⟨o, ho, rfl⟩ := hc; exact cap_lt o (hwf o ho)),
      (consts_bit s hs).1, Bool.true_and, List.all_map]
    rw [show (ents.map (Requires · s)).all id = ents.all (fun o => Requires o s) by simp [List.all_map]]
    apply all_congr_mem
    intro o ho
    exact ih o ho (hwf o ho) s hs
  | case6 d t => simp [cap, Requires, (consts_bit s hs).2.2.2.1]
  | case7 o t ih =>
    simp only [WF, Bool.and_eq_true, decide_eq_true_eq] at h
    simp only [cap, Requires]
    rw [adapterCap_bit t h.1 _ (cap_lt o h.2) s hs]
    exact ih h.2 _ (xor_lt s hs t h.1)
  | case8 ops ih =>
    have hwf : ∀ o ∈ ops, WF o = true := by
      simpa [WF, List.all_map, List.all_eq_true] using h
    simp only [cap, Requires]
    rw [foldl_and_bit _ _ _ hs (consts_bit 0 (by decide)).2.2.2.2.2.1
      (by intro c hc; simp only [List.mem_map] at hc; obtain ⟨o, ho, rfl⟩ := hc; exact cap_lt o (hwf o ho)),
      (consts_bit s hs).2.1, Bool.true_and, List.all_map]
    rw [show (ops.map (Requires · s)).all id = ops.all (fun o => Requires o s) by simp [List.all_map]]
    apply all_congr_mem
    intro o ho
    exact ih o ho (hwf o ho) s hs
  | case9 ops neg ih =>
    have hwf : ∀ o ∈ ops, WF o = true := by
      simpa [WF, List.all_map, List.all_eq_true] using h
    simp only [cap, Requires]
    rw [foldl_and_bit _ _ _ hs (consts_bit 0 (by decide)).2.2.2.2.2.2.1
      (by intro c hc; simp only [List.mem_map] at hc; obtain ⟨o, ho, rfl⟩ := hc; exact cap_lt o (hwf o ho)),
      (consts_bit s hs).2.2.1, List.all_map]
    rw [show (ops.map (Requires · s)).all id = ops.all (fun o => Requires o s) by simp [List.all_map]]
    congr 1
    apply all_congr_mem
    intro o ho
    exact ih o ho (hwf o ho) s hs
  | case10 b c op ih => simp only [cap, Requires]; exact ih (by simpa [WF] using h) s hs
  | case11 o ih =>
    have hw : WF o = true := by simpa [WF] using h
    simp only [cap, Requires]
    rw [invCap_bit _ (cap_lt o hw) s hs, ih hw s hs, ih hw _ (xor_lt s hs 2 (by decide))]

/-- non-vacuity of `cap_spec`: a well-formed expression with a chain, an inverse adapter, a diagonal with pending
    transformation, a difference and an InversionEnabler; its capability (TIMES and INVERSE_TIMES) follows the rule -/
example :
    let e : Op Nat Unit := Op.invEnabler (Op.sum [Op.adapter (Op.chain [Op.leaf 0 5 0 0, Op.scaling 0 2 0]) 2,
      Op.diag 0 () 1 0] [false, true])
    WF e = true ∧ cap e = 5 ∧ Requires e 0 = true ∧ Requires e 2 = true ∧ Requires e 1 = false := by
  simp [WF, cap, Requires, adapterCap, invEnablerCap, capTable, addInverse, sumCap, chainCap, allOps, TIMES, ADJOINT_TIMES]

/-- **sums advertise only forward and adjoint application**, whatever their summands advertise; consequently the inverse adapter
    of a sum advertises at most the two inverse modes -/
theorem sum_no_inverse_modes (ops : List (Op K D)) (neg : List Bool) (h : WF (Op.sum ops neg) = true) (s : Nat) (hs : s < 4)
    (hinv : (s &&& 2) ≠ 0) :
    (((cap (Op.sum ops neg)) &&& (1 <<< s)) != 0) = false ∧
    (((cap (Op.adapter (Op.sum ops neg) INVERSE_BIT)) &&& (1 <<< (s ^^^ 2))) != 0) = false := by
  have hw : WF (Op.adapter (Op.sum ops neg) INVERSE_BIT) = true := by
    simp only [WF, Bool.and_eq_true, decide_eq_true_eq]
    exact ⟨by decide, by simpa [WF] using h⟩
  have hx : s ^^^ 2 < 4 := xor_lt s hs 2 (by decide)
  have hxx : (s ^^^ 2) ^^^ INVERSE_BIT = s := by revert s; decide
  refine ⟨?_, ?_⟩
  · rw [cap_spec _ h s hs]
    simp [Requires, hinv]
  · rw [cap_spec _ hw _ hx]
    simp only [Requires, hxx]
    simp [hinv]

end capability

/-! ### Part 2 — dense action of the operator classes (Mathlib matrices over any star field, any index type)

`S = msem …` interprets every operator in the star algebra `Matrix X X K` (block embedding of all domains into one
index type `X`; the identity of every domain is interpreted as `1`), diagonal data as functions `X → K`.
`modeScalar c s` / `modeDiag d s`: conjugate when bit 0 of `s` is set, reciprocal when bit 1 is set. -/

section matrix
open Matrix
set_option linter.unusedSectionVars false
variable {X K : Type} [Fintype X] [DecidableEq X] [Field K] [StarRing K] [DecidableEq K]
variable (isReal : K → Bool) (re : K → K) (blocks : Nat → List (Matrix X X K) → Matrix X X K)
  (leaf : Nat → Nat → Matrix X X K)

local notation "S" => msem isReal re blocks leaf

/-- ScalingOperator.apply: `c`, conjugated in adjoint modes, inverted in inverse modes (including the `c = 1` and
    `c = 0` shortcuts of the code, which agree with the formula because `star 1 = 1`, `0⁻¹ = 0`) -/
theorem den_scaling (d : Nat) (c : K) (dt s : Nat) (hs : s < 4) :
    den S (Op.scaling d c dt) (1 <<< s) = modeScalar c s • (1 : Matrix X X K) := by
  unfold den scalingFactor
  rw [adjMask_eval s hs, invMask_eval s hs]
  by_cases h1 : c = 1
  · subst h1; interval_cases s <;> simp [msem, modeScalar]
  · by_cases h0 : c = 0
    · subst h0; interval_cases s <;> simp [msem, modeScalar]
    · interval_cases s <;> simp [msem, modeScalar, h1, h0]

/-- DiagonalOperator.apply with pending transformation `t`: branch `s xor t` -/
theorem den_diag (dm : Nat) (d : X → K) (t dt s : Nat) (ht : t < 4) (hs : s < 4) :
    den S (Op.diag dm d t dt) (1 <<< s) = Matrix.diagonal (modeDiag d (s ^^^ t)) := by
  unfold den
  rw [diagTrafo_eval t ht s hs, diagBranch_msem _ _ _ _ _ _ (xor_lt4 s hs t ht)]
  rfl

/-- OperatorAdapter.apply: mode `s` of the adapter is mode `s xor t` of the operand -/
theorem den_adapter (o : Op K (X → K)) (t s : Nat) (ht : t < 4) (hs : s < 4) :
    den S (Op.adapter o t) (1 <<< s) = den S o (1 <<< (s ^^^ t)) := by
  rw [den, adapterApplyMode_eval t ht s hs]

/-- ChainOperator.apply: the matrix product in list order for TIMES and ADJOINT_INVERSE_TIMES, in reversed order
    exactly for ADJOINT_TIMES and INVERSE_TIMES -/
theorem den_chain (ops : List (Op K (X → K))) (s : Nat) (hs : s < 4) (hne : ops ≠ []) :
    den S (Op.chain ops) (1 <<< s) =
      if s &&& 1 = (s >>> 1) &&& 1 then (ops.map (den S · (1 <<< s))).prod
      else (ops.map (den S · (1 <<< s))).reverse.prod := by
  rw [den]
  rw [chainOrder_eval s hs]
  have hne' : ops.map (den S · (1 <<< s)) ≠ [] := by simpa using hne
  by_cases h : s &&& 1 = (s >>> 1) &&& 1
  · simp only [h, decide_true, Bool.not_true, Bool.false_eq_true, if_false, if_true]
    exact prodR_msem _ _ _ _ _ hne'
  · simp only [h, decide_false, Bool.not_false, if_true, if_false]
    exact prodR_msem _ _ _ _ _ (by simpa using hne)

/-- SumOperator.apply: the signed sum of the summands' actions -/
theorem den_sum (ops : List (Op K (X → K))) (neg : List Bool) (m : Nat) (hne : ops ≠ []) (hneg : neg ≠ []) :
    den S (Op.sum ops neg) m = signedSum ((ops.map (den S · m)).zip neg) := by
  rw [den]
  apply sumR_msem
  cases ops with
  | nil => exact absurd rfl hne
  | cons o os => cases neg with
    | nil => exact absurd rfl hneg
    | cons n ns => simp

/-- SandwichOperator.apply delegates to the chain built by `make`; NullOperator is zero; a missing block entry is unity -/
theorem den_sandwich (b c o : Op K (X → K)) (m : Nat) : den S (Op.sandwich b c o) m = den S o m := by rw [den]
theorem den_null (d t m : Nat) : den S (Op.null d t : Op K (X → K)) m = 0 := by
  rw [den]; split <;> rfl
theorem den_idEntry (d m : Nat) : den S (Op.idEntry d : Op K (X → K)) m = 1 := by rw [den]; rfl

/-! ### Part 3 — the rewriting rules of the simplifiers preserve the action -/

/-- `_scale(f)`: every mode of the rescaled diagonal is the mode-scalar times the original (trafo is reset to 0) -/
theorem diagScale_sound (dm : Nat) (d : X → K) (t dt : Nat) (f : K) (s : Nat) (ht : t < 4) (hs : s < 4) :
    den S (diagScale S (Op.diag dm d t dt) f) (1 <<< s) = modeScalar f s • den S (Op.diag dm d t dt) (1 <<< s) := by
  unfold diagScale
  rw [den_diag _ _ _ _ _ _ _ _ _ (by decide) hs, den_diag _ _ _ _ _ _ _ _ _ ht hs, actualDiag_msem _ _ _ _ _ _ ht]
  have : (msem isReal re blocks leaf).dscale (modeDiag d t) f = modeDiag d t * fun _ => f := rfl
  rw [this, Nat.xor_zero, modeDiag_mul _ _ _ hs, modeDiag_modeDiag _ _ _ hs ht, modeDiag_const _ _ hs]
  ext i j
  by_cases hij : i = j <;> simp [Matrix.diagonal, hij, mul_comm]

/-- `_combine_prod`: adjacent diagonals of a chain merge into the product, in every mode (diagonals commute, so the
    order reversal of the adjoint/inverse modes is immaterial) -/
theorem diagCombineProd_sound (dm dm2 : Nat) (d1 d2 : X → K) (t1 t2 dt1 dt2 s : Nat) (h1 : t1 < 4) (h2 : t2 < 4) (hs : s < 4) :
    den S (diagCombineProd S (Op.diag dm d1 t1 dt1) (Op.diag dm2 d2 t2 dt2)) (1 <<< s) =
      den S (Op.diag dm d1 t1 dt1) (1 <<< s) * den S (Op.diag dm2 d2 t2 dt2) (1 <<< s) := by
  unfold diagCombineProd
  rw [den_diag _ _ _ _ _ _ _ _ _ (by decide) hs, den_diag _ _ _ _ _ _ _ _ _ h1 hs, den_diag _ _ _ _ _ _ _ _ _ h2 hs,
    actualDiag_msem _ _ _ _ _ _ h1, actualDiag_msem _ _ _ _ _ _ h2]
  have : (msem isReal re blocks leaf).dmul (modeDiag d1 t1) (modeDiag d2 t2) = modeDiag d1 t1 * modeDiag d2 t2 := rfl
  rw [this, Nat.xor_zero, modeDiag_mul _ _ _ hs, modeDiag_modeDiag _ _ _ hs h1, modeDiag_modeDiag _ _ _ hs h2,
    Matrix.diagonal_mul_diagonal]
  rfl

theorem diagCombineProd_comm (dm dm2 : Nat) (d1 d2 : X → K) (t1 t2 dt1 dt2 s : Nat) (h1 : t1 < 4) (h2 : t2 < 4) (hs : s < 4) :
    den S (Op.diag dm d1 t1 dt1) (1 <<< s) * den S (Op.diag dm2 d2 t2 dt2) (1 <<< s) =
      den S (Op.diag dm2 d2 t2 dt2) (1 <<< s) * den S (Op.diag dm d1 t1 dt1) (1 <<< s) := by
  rw [den_diag _ _ _ _ _ _ _ _ _ h1 hs, den_diag _ _ _ _ _ _ _ _ _ h2 hs, Matrix.diagonal_mul_diagonal,
    Matrix.diagonal_mul_diagonal]
  congr 1; funext i; exact mul_comm _ _

/-- `_add(c)` (scaling absorbed into a diagonal of a sum): in the two modes a sum advertises -/
theorem diagAdd_sound (dm : Nat) (d : X → K) (t dt : Nat) (c : K) (s : Nat) (ht : t < 4) (hs : s < 2) :
    den S (diagAdd S (Op.diag dm d t dt) c) (1 <<< s) =
      den S (Op.diag dm d t dt) (1 <<< s) + modeScalar c s • (1 : Matrix X X K) := by
  have hs4 : s < 4 := by omega
  unfold diagAdd
  rw [den_diag _ _ _ _ _ _ _ _ _ (by decide) hs4, den_diag _ _ _ _ _ _ _ _ _ ht hs4, actualDiag_msem _ _ _ _ _ _ ht]
  have : (msem isReal re blocks leaf).dshift (modeDiag d t) c = modeDiag d t + fun _ => c := rfl
  rw [this, Nat.xor_zero, modeDiag_add _ _ _ hs, modeDiag_modeDiag _ _ _ hs4 ht, modeDiag_const _ _ hs4]
  ext i j
  by_cases hij : i = j <;> simp [Matrix.diagonal, hij]

/-- `_combine_sum`: two diagonals of a sum merge into the signed sum (result sign: plus) -/
theorem diagCombineSum_sound (dm dm2 : Nat) (d1 d2 : X → K) (t1 t2 dt1 dt2 : Nat) (n1 n2 : Bool) (s : Nat)
    (h1 : t1 < 4) (h2 : t2 < 4) (hs : s < 2) :
    den S (diagCombineSum S (Op.diag dm d1 t1 dt1) (Op.diag dm2 d2 t2 dt2) n1 n2) (1 <<< s) =
      (if n1 then - den S (Op.diag dm d1 t1 dt1) (1 <<< s) else den S (Op.diag dm d1 t1 dt1) (1 <<< s)) +
      (if n2 then - den S (Op.diag dm2 d2 t2 dt2) (1 <<< s) else den S (Op.diag dm2 d2 t2 dt2) (1 <<< s)) := by
  have hs4 : s < 4 := by omega
  unfold diagCombineSum
  rw [den_diag _ _ _ _ _ _ _ _ _ (by decide) hs4, den_diag _ _ _ _ _ _ _ _ _ h1 hs4, den_diag _ _ _ _ _ _ _ _ _ h2 hs4,
    actualDiag_msem _ _ _ _ _ _ h1, actualDiag_msem _ _ _ _ _ _ h2, Nat.xor_zero]
  cases n1 <;> cases n2 <;>
    simp only [Bool.false_eq_true, if_false, if_true] <;>
    (show Matrix.diagonal (modeDiag (_ + _) s) = _) <;>
    rw [modeDiag_add _ _ _ hs] <;>
    simp only [show ∀ a : X → K, (msem isReal re blocks leaf).dneg a = -a from fun _ => rfl, modeDiag_neg _ _ hs4,
      modeDiag_modeDiag _ _ _ hs4 h1, modeDiag_modeDiag _ _ _ hs4 h2, Matrix.diagonal_add, Matrix.diagonal_neg] <;>
    rfl

/-- `_flip_modes` of scaling, diagonal and adapter operators and the default wrapping into an OperatorAdapter:
    mode `s` of the flipped operator is mode `s xor t` of the original -/
theorem flip_scaling_sound (d : Nat) (c : K) (dt t s : Nat) (ht : t < 4) (hs : s < 4) :
    den S (OpAlgebra.flip S (Op.scaling d c dt) t) (1 <<< s) = den S (Op.scaling d c dt) (1 <<< (s ^^^ t)) := by
  unfold OpAlgebra.flip scalingFlipFactor
  rw [den_scaling _ _ _ _ _ _ _ _ hs, den_scaling _ _ _ _ _ _ _ _ (xor_lt4 s hs t ht), flipConj_eval t ht, flipInv_eval t ht,
    ← modeScalar_modeScalar c s t hs ht]
  congr 2
  interval_cases t <;> simp [modeScalar, msem]

theorem flip_diag_sound (dm : Nat) (d : X → K) (t0 dt t s : Nat) (ht0 : t0 < 4) (ht : t < 4) (hs : s < 4) :
    den S (OpAlgebra.flip S (Op.diag dm d t0 dt) t) (1 <<< s) = den S (Op.diag dm d t0 dt) (1 <<< (s ^^^ t)) := by
  unfold OpAlgebra.flip
  rw [diagFlip_eval t0 ht0 t ht, den_diag _ _ _ _ _ _ _ _ _ (xor_lt4 t0 ht0 t ht) hs,
    den_diag _ _ _ _ _ _ _ _ _ ht0 (xor_lt4 s hs t ht), xor_assoc4 s hs t0 ht0 t ht]

theorem flip_adapter_sound (o : Op K (X → K)) (t0 t s : Nat) (ht0 : t0 < 4) (ht : t < 4) (hs : s < 4) :
    den S (OpAlgebra.flip S (Op.adapter o t0) t) (1 <<< s) = den S (Op.adapter o t0) (1 <<< (s ^^^ t)) := by
  unfold OpAlgebra.flip
  rw [adapterFlip_eval t0 ht0 t ht, den_adapter _ _ _ _ _ _ _ ht0 (xor_lt4 s hs t ht)]
  by_cases h : t0 ^^^ t = 0
  · have : t0 = t := (xor_eq_zero4 t0 ht0 t ht).mp h
    subst this
    simp only [h, beq_self_eq_true, if_true, xor_self4 s hs t0 ht0]
  · have hb : ((t0 ^^^ t) == 0) = false := by simpa using h
    simp only [hb, Bool.false_eq_true, if_false]
    rw [den_adapter _ _ _ _ _ _ _ (xor_lt4 t0 ht0 t ht) hs]
    rw [xor_assoc4 s hs t0 ht0 t ht]

/-! ### Part 4 — ChainOperator.make / simplify preserve the action (whole pass, all four modes)

`mprod rev l` is the product of `l` in list order (`rev = false`) or reversed order; `revOf s` says which one mode `s` uses.
Hypotheses: the operands contain no block-diagonal operators (`okC`; their merging needs a block structure on `X`), nested
chains are non-empty, diagonal transformations are 0..3, and `re c = c` for scalings the code treats as real. -/

/-- `den (chain ops)` as a mode-ordered product -/
theorem den_chain_mprod (ops : List (Op K (X → K))) (s : Nat) (hs : s < 4) (hne : ops ≠ []) :
    den S (Op.chain ops) (1 <<< s) = mprod (revOf s) (ops.map (den S · (1 <<< s))) := by
  rw [den, chainOrder_eval s hs]
  have hne' : ops.map (den S · (1 <<< s)) ≠ [] := by simpa using hne
  unfold revOf mprod
  by_cases h : s &&& 1 = (s >>> 1) &&& 1
  · simp only [h, decide_true, Bool.not_true, Bool.false_eq_true, if_false]
    exact prodR_msem _ _ _ _ _ hne'
  · simp only [h, decide_false, Bool.not_false, if_true]
    exact prodR_msem _ _ _ _ _ (by simpa using hne)

/-- merging adjacent diagonal operators of a chain preserves the (mode-ordered) product -/
theorem chainMergeDiag_sound (l : List (Op K (X → K))) (s : Nat) (hs : s < 4) (hd : ∀ o ∈ l, okC o = true) :
    mprod (revOf s) ((chainMergeDiag S l).map (den S · (1 <<< s))) = mprod (revOf s) (l.map (den S · (1 <<< s))) ∧
    (∀ o ∈ chainMergeDiag S l, okC o = true) := by
  fun_induction chainMergeDiag S l with
  | case1 a b rest hab ih =>
    simp only [Bool.and_eq_true] at hab
    obtain ⟨dm1, d1, t1, dt1, rfl⟩ := isDiag_cases a hab.1
    obtain ⟨dm2, d2, t2, dt2, rfl⟩ := isDiag_cases b hab.2
    have h1 : t1 < 4 := by simpa [okC, diagOK, isBlock, isChainOp] using hd (Op.diag dm1 d1 t1 dt1) (by simp)
    have h2 : t2 < 4 := by simpa [okC, diagOK, isBlock, isChainOp] using hd (Op.diag dm2 d2 t2 dt2) (by simp)
    have hd' : ∀ o ∈ diagCombineProd S (Op.diag dm1 d1 t1 dt1) (Op.diag dm2 d2 t2 dt2) :: rest, okC o = true := by
      intro o ho
      simp only [List.mem_cons] at ho
      rcases ho with rfl | ho
      · simp [diagCombineProd, okC, diagOK, isBlock, isChainOp]
      · exact hd o (by simp [ho])
    obtain ⟨ih1, ih2⟩ := ih hd'
    refine ⟨?_, ih2⟩
    rw [ih1]
    simp only [List.map_cons]
    rw [mprod_cons, mprod_cons, mprod_cons, diagCombineProd_sound isReal re blocks leaf _ _ _ _ _ _ _ _ _ h1 h2 hs]
    cases revOf s
    · simp [Matrix.mul_assoc]
    · simp only [if_true]
      rw [diagCombineProd_comm isReal re blocks leaf _ _ _ _ _ _ _ _ _ h1 h2 hs, Matrix.mul_assoc]
  | case2 a b rest hab ih =>
    have hd' : ∀ o ∈ b :: rest, okC o = true := fun o ho => hd o (by simp [List.mem_cons] at ho ⊢; tauto)
    obtain ⟨ih1, ih2⟩ := ih hd'
    refine ⟨?_, ?_⟩
    · simp only [List.map_cons] at ih1 ⊢
      rw [mprod_cons, mprod_cons (a := den S a (1 <<< s)), ih1]
    · intro o ho
      simp only [List.mem_cons] at ho
      rcases ho with rfl | ho
      · exact hd _ (by simp)
      · exact ih2 o ho
  | case3 l hl => exact ⟨rfl, hd⟩

/-- collecting the real scalings of a chain: the product of the remaining operators times the collected factor -/
theorem chainCollect_sound (hre : ∀ c, isReal c = true → re c = c) (l : List (Op K (X → K))) (init : K) (s : Nat) (hs : s < 4) :
    modeScalar (l.foldl (chainCollectStep S) init) s •
        mprod (revOf s) ((l.filter (fun o => !isRealScaling S o)).map (den S · (1 <<< s))) =
      modeScalar init s • mprod (revOf s) (l.map (den S · (1 <<< s))) := by
  induction l generalizing init with
  | nil => simp
  | cons o os ih =>
    by_cases hrs : isRealScaling S o = true
    · obtain ⟨d, c, dt, rfl⟩ : ∃ d c dt, o = Op.scaling d c dt := by
        cases o <;> simp [isRealScaling] at hrs
        exact ⟨_, _, _, rfl⟩
      have hc : isReal c = true := by simpa [isRealScaling, msem] using hrs
      simp only [List.foldl_cons, List.filter_cons, hrs, Bool.not_true, Bool.false_eq_true, if_false, List.map_cons]
      have : chainCollectStep S init (Op.scaling d c dt) = init * c := by
        simp [chainCollectStep, msem, hc, hre c hc]
      rw [this, ih, den_scaling isReal re blocks leaf d c dt s hs, mprod_cons_smul, mprod_one_cons,
        modeScalar_mul _ _ _ hs, smul_smul]
    · have hrs' : isRealScaling S o = false := by simpa using hrs
      have hstep : chainCollectStep S init o = init := by
        cases o <;> simp [chainCollectStep]
        rename_i d c dt
        have : isReal c = false := by simpa [isRealScaling, msem] using hrs'
        simp [msem, this]
      simp only [List.foldl_cons, List.filter_cons, hrs', Bool.not_false, if_true, List.map_cons, hstep]
      rw [mprod_cons, mprod_cons]
      have ih' := ih init
      generalize revOf s = r at ih' ⊢
      cases r
      · simp only [Bool.false_eq_true, if_false]
        rw [← Matrix.mul_smul, ih', Matrix.mul_smul]
      · simp only [if_true]
        rw [← Matrix.smul_mul, ih', Matrix.smul_mul]

/-- the collected factor absorbed into the first diagonal operator -/
theorem chainAbsorb_sound (f : K) (l : List (Op K (X → K))) (s : Nat) (hs : s < 4) (hd : ∀ o ∈ l, okC o = true) :
    modeScalar (chainAbsorb S f l).2 s • mprod (revOf s) ((chainAbsorb S f l).1.map (den S · (1 <<< s))) =
      modeScalar f s • mprod (revOf s) (l.map (den S · (1 <<< s))) ∧ (∀ o ∈ (chainAbsorb S f l).1, okC o = true) := by
  induction l with
  | nil => simp [chainAbsorb]
  | cons o os ih =>
    by_cases hdg : isDiag o = true
    · obtain ⟨dm, d, t, dt, rfl⟩ := isDiag_cases o hdg
      have ht : t < 4 := by simpa [okC, diagOK, isBlock, isChainOp] using hd (Op.diag dm d t dt) (by simp)
      simp only [chainAbsorb, hdg, if_true, List.map_cons]
      refine ⟨?_, ?_⟩
      · rw [diagScale_sound isReal re blocks leaf dm d t dt f s ht hs, mprod_cons_smul]
        have : (msem isReal re blocks leaf).kone = (1 : K) := rfl
        rw [this, modeScalar_one s hs, one_smul]
      · intro o ho
        simp only [List.mem_cons] at ho
        rcases ho with rfl | ho
        · simp [diagScale, okC, diagOK, isBlock, isChainOp]
        · exact hd o (by simp [ho])
    · have hdg' : isDiag o = false := by simpa using hdg
      have hd' : ∀ o ∈ os, okC o = true := fun x hx => hd x (by simp [hx])
      obtain ⟨ih1, ih2⟩ := ih hd'
      simp only [chainAbsorb, hdg', Bool.false_eq_true, if_false, List.map_cons]
      refine ⟨?_, ?_⟩
      · rw [mprod_cons, mprod_cons]
        generalize revOf s = r at ih1 ⊢
        cases r
        · simp only [Bool.false_eq_true, if_false]
          rw [← Matrix.mul_smul, ih1, Matrix.mul_smul]
        · simp only [if_true]
          rw [← Matrix.smul_mul, ih1, Matrix.smul_mul]
      · intro x hx
        simp only [List.mem_cons] at hx
        rcases hx with rfl | hx
        · exact hd _ (by simp)
        · exact ih2 x hx

/-- un-nesting chains keeps the mode-ordered product (nested chains are non-empty) -/
theorem chainFlatten_sound (ops : List (Op K (X → K))) (s : Nat) (hs : s < 4)
    (hne : ∀ o ∈ ops, ∀ l, o = Op.chain l → l ≠ []) :
    mprod (revOf s) ((chainFlatten ops).map (den S · (1 <<< s))) =
      mprod (revOf s) (ops.map (den S · (1 <<< s))) := by
  unfold chainFlatten
  induction ops with
  | nil => rfl
  | cons o os ih =>
    have ih' := ih (fun x hx => hne x (by simp [hx]))
    simp only [List.flatMap_cons, List.map_append, List.map_cons]
    rw [mprod_append, mprod_cons, ih']
    cases o with
    | chain l =>
      dsimp only
      rw [den_chain_mprod isReal re blocks leaf l s hs (hne _ (by simp) l rfl)]
    | _ => simp [mprod_singleton]

/-- the leftover factor appended as a ScalingOperator (or nothing when it is 1 and the chain is non-empty) -/
theorem chainAppend_sound (l : List (Op K (X → K))) (f : K) (dom : Nat) (s : Nat) (hs : s < 4) :
    mprod (revOf s) ((if (!(msem isReal re blocks leaf).keq f (msem isReal re blocks leaf).kone || l.isEmpty) then
        l ++ [Op.scaling dom f 0] else l).map (den S · (1 <<< s))) =
      modeScalar f s • mprod (revOf s) (l.map (den S · (1 <<< s))) := by
  have hk : (msem isReal re blocks leaf).keq f (msem isReal re blocks leaf).kone = decide (f = 1) := rfl
  rw [hk]
  by_cases hc : (!decide (f = 1) || l.isEmpty) = true
  · simp only [hc, if_true, List.map_append, List.map_cons, List.map_nil]
    rw [mprod_append, mprod_singleton, den_scaling isReal re blocks leaf dom f 0 s hs]
    cases revOf s <;> simp
  · have hc' : (!decide (f = 1) || l.isEmpty) = false := by simpa using hc
    simp only [hc', Bool.false_eq_true, if_false]
    have hf : f = 1 := by
      simp only [Bool.or_eq_false_iff, Bool.not_eq_false', decide_eq_true_eq] at hc'
      exact hc'.1
    rw [hf, modeScalar_one s hs, one_smul]

theorem chainMergeDiag_sound' (mk : List (Op K (X → K)) → Op K (X → K)) (l : List (Op K (X → K))) (s : Nat) (hs : s < 4)
    (hd : ∀ o ∈ l, okC o = true) :
    mprod (revOf s) ((chainMergeBlock S mk (chainMergeDiag S l)).map (den S · (1 <<< s))) =
      mprod (revOf s) (l.map (den S · (1 <<< s))) ∧ (l ≠ [] → chainMergeBlock S mk (chainMergeDiag S l) ≠ []) ∧
      (∀ o ∈ chainMergeBlock S mk (chainMergeDiag S l), okC o = true) := by
  obtain ⟨h1, h2⟩ := chainMergeDiag_sound isReal re blocks leaf l s hs hd
  have hnb := chainMergeBlock_noblock isReal re blocks leaf mk _ (fun o ho => by
    have := h2 o ho
    simp only [okC, Bool.and_eq_true, Bool.not_eq_true'] at this
    exact this.1.2)
  rw [hnb]
  exact ⟨h1, chainMergeDiag_ne isReal re blocks leaf l, h2⟩

/-- collapsing a chain that contains a NullOperator keeps the product (both are zero) -/
theorem chainNullCollapse_sound (ops1 : List (Op K (X → K))) (s : Nat) (hs : s < 4) (hok : ∀ o ∈ ops1, okC o = true) :
    mprod (revOf s) ((chainNullCollapse ops1).map (den S · (1 <<< s))) = mprod (revOf s) (ops1.map (den S · (1 <<< s))) ∧
    (∀ o ∈ chainNullCollapse ops1, okC o = true) := by
  unfold chainNullCollapse
  by_cases hnull : ops1.any isNull = true
  · simp only [hnull, if_true]
    obtain ⟨o, ho, hon⟩ := List.any_eq_true.mp hnull
    have hz : (0 : Matrix X X K) ∈ ops1.map (den S · (1 <<< s)) := by
      refine List.mem_map.mpr ⟨o, ho, ?_⟩
      cases o <;> simp [isNull] at hon
      exact den_null isReal re blocks leaf _ _ _
    refine ⟨?_, ?_⟩
    · rw [mprod_zero_mem _ _ hz]
      apply mprod_zero_mem
      simp [den_null]
    · intro o ho
      simp only [List.mem_singleton] at ho
      subst ho
      simp [okC, diagOK, isBlock, isChainOp]
  · have hnull' : ops1.any isNull = false := by simpa using hnull
    simp only [hnull', Bool.false_eq_true, if_false]
    constructor
    · first | rfl | trivial
    · exact hok

/-- collect / absorb / merge: the mode-ordered product is preserved -/
theorem chainPost_sound (hre : ∀ c, isReal c = true → re c = c) (mk : List (Op K (X → K)) → Op K (X → K))
    (ops1 : List (Op K (X → K))) (s : Nat) (hs : s < 4) (hok : ∀ o ∈ ops1, okC o = true) :
    mprod (revOf s) ((chainPost S mk ops1).map (den S · (1 <<< s))) = mprod (revOf s) (ops1.map (den S · (1 <<< s))) ∧
    chainPost S mk ops1 ≠ [] ∧ (∀ o ∈ chainPost S mk ops1, okC o = true) := by
  simp only [chainPost]
  have hcol := chainCollect_sound isReal re blocks leaf hre ops1 (msem isReal re blocks leaf).kone s hs
  have hone : modeScalar (msem isReal re blocks leaf).kone s = 1 := modeScalar_one s hs
  rw [hone, one_smul] at hcol
  rw [← hcol]
  generalize ops1.foldl (chainCollectStep S) (msem isReal re blocks leaf).kone = fct
  have hfilt : ∀ o ∈ ops1.filter (fun o => !isRealScaling S o), okC o = true :=
    fun o ho => hok o (List.mem_of_mem_filter ho)
  generalize ops1.filter (fun o => !isRealScaling S o) = opsnew at hfilt ⊢
  have hk : ∀ f : K, (msem isReal re blocks leaf).keq f (msem isReal re blocks leaf).kone = decide (f = 1) := fun _ => rfl
  by_cases hf : fct = 1
  · subst hf
    simp only [hk, decide_true, Bool.not_true, Bool.false_eq_true, if_false]
    have happ := chainAppend_sound isReal re blocks leaf opsnew (1 : K) (lastDom ops1) s hs
    simp only [hk, decide_true, Bool.not_true] at happ
    have hm := chainMergeDiag_sound' isReal re blocks leaf mk
      (if (!decide ((1 : K) = 1) || opsnew.isEmpty) = true then opsnew ++ [Op.scaling (lastDom ops1) 1 0] else opsnew) s hs ?_
    · simp only [decide_true, Bool.not_true] at hm
      exact ⟨hm.1.trans happ, hm.2.1 (appendScaling_ne _ _ _), hm.2.2⟩
    intro o ho
    split at ho
    · simp only [List.mem_append, List.mem_singleton] at ho
      rcases ho with ho | rfl
      · exact hfilt o ho
      · simp [okC, diagOK, isBlock, isChainOp]
    · exact hfilt o ho
  · have hdf : decide (fct = 1) = false := by simpa using hf
    simp only [hk, hdf, Bool.not_false, if_true]
    obtain ⟨ha1, ha2⟩ := chainAbsorb_sound isReal re blocks leaf fct opsnew s hs hfilt
    have happ := chainAppend_sound isReal re blocks leaf (chainAbsorb S fct opsnew).1 (chainAbsorb S fct opsnew).2
      (lastDom ops1) s hs
    simp only [hk] at happ
    have hm := chainMergeDiag_sound' isReal re blocks leaf mk
      (if (!decide ((chainAbsorb S fct opsnew).2 = 1) || (chainAbsorb S fct opsnew).1.isEmpty) = true then
        (chainAbsorb S fct opsnew).1 ++ [Op.scaling (lastDom ops1) (chainAbsorb S fct opsnew).2 0]
      else (chainAbsorb S fct opsnew).1) s hs ?_
    · exact ⟨hm.1.trans (happ.trans ha1), hm.2.1 (appendScaling_ne _ _ _), hm.2.2⟩
    intro o ho
    split at ho
    · simp only [List.mem_append, List.mem_singleton] at ho
      rcases ho with ho | rfl
      · exact ha2 o ho
      · simp [okC, diagOK, isBlock, isChainOp]
    · exact ha2 o ho

/-- **ChainOperator.simplify preserves the action** (lists without block-diagonal operators): the mode-ordered product of the
    simplified list equals that of the original list, in all four modes -/
theorem chainSimplifyCore_sound (hre : ∀ c, isReal c = true → re c = c) (mk : List (Op K (X → K)) → Op K (X → K))
    (ops : List (Op K (X → K))) (s : Nat) (hs : s < 4)
    (hne : ∀ o ∈ ops, ∀ l, o = Op.chain l → l ≠ [])
    (hok : ∀ o ∈ chainFlatten ops, okC o = true) :
    mprod (revOf s) ((chainSimplifyCore S mk ops).map (den S · (1 <<< s))) = mprod (revOf s) (ops.map (den S · (1 <<< s))) ∧
    chainSimplifyCore S mk ops ≠ [] ∧ (∀ o ∈ chainSimplifyCore S mk ops, okC o = true) := by
  unfold chainSimplifyCore
  obtain ⟨hn1, hn2⟩ := chainNullCollapse_sound isReal re blocks leaf (chainFlatten ops) s hs hok
  obtain ⟨hp1, hp2, hp3⟩ := chainPost_sound isReal re blocks leaf hre mk _ s hs hn2
  exact ⟨by rw [hp1, hn1, chainFlatten_sound isReal re blocks leaf ops s hs hne], hp2, hp3⟩

theorem isIdentity_den (o : Op K (X → K)) (h : isIdentity S o = true) (m : Nat) : den S o m = 1 := by
  cases o <;> simp [isIdentity] at h
  rename_i d c dt
  have hc : c = 1 := by simpa [msem] using h
  subst hc
  simp [den, msem]

/-- **ChainOperator.make preserves the action**: for a non-empty list of operators (no block-diagonals, nested chains non-empty),
    every mode of `ChainOperator.make(ops)` is the product of the operands' actions, in list order for TIMES and
    ADJOINT_INVERSE_TIMES and in reversed order for ADJOINT_TIMES and INVERSE_TIMES -/
theorem mkChainU_sound (hre : ∀ c, isReal c = true → re c = c) (fuel : Nat) (ops : List (Op K (X → K))) (s : Nat) (hs : s < 4)
    (hne0 : ops ≠ []) (hne : ∀ o ∈ ops, ∀ l, o = Op.chain l → l ≠ [])
    (hok : ∀ o ∈ chainFlatten ops, okC o = true) :
    den S (mkChainU S (fuel + 1) ops) (1 <<< s) = mprod (revOf s) (ops.map (den S · (1 <<< s))) := by
  have hL : mprod (revOf s) ((chainSimplify S (mkChainU S fuel) ops).map (den S · (1 <<< s))) =
      mprod (revOf s) (ops.map (den S · (1 <<< s))) ∧ chainSimplify S (mkChainU S fuel) ops ≠ [] := by
    unfold chainSimplify
    split
    · exact ⟨rfl, by simp⟩
    · rename_i a b
      split
      · rename_i ha
        refine ⟨?_, by simp⟩
        simp only [List.map_cons, List.map_nil, mprod_cons, mprod_nil, isIdentity_den isReal re blocks leaf a ha]
        cases revOf s <;> simp
      · split
        · rename_i hb
          refine ⟨?_, by simp⟩
          simp only [List.map_cons, List.map_nil, mprod_cons, mprod_nil, isIdentity_den isReal re blocks leaf b hb]
          cases revOf s <;> simp
        · have := chainSimplifyCore_sound isReal re blocks leaf hre (mkChainU S fuel) _ s hs hne hok
          exact ⟨this.1, this.2.1⟩
    · have := chainSimplifyCore_sound isReal re blocks leaf hre (mkChainU S fuel) _ s hs hne hok
      exact ⟨this.1, this.2.1⟩
  obtain ⟨hL1, hL2⟩ := hL
  rw [mkChainU]
  rw [← hL1]
  split
  · rename_i o heq
    rw [heq]; simp [mprod_singleton]
  · rename_i l hl
    exact den_chain_mprod isReal re blocks leaf _ s hs hL2

/-! ### Part 5 — SumOperator.simplify: the sign bookkeeping of its rewriting passes (TIMES and ADJOINT_TIMES)

`ssum l s` is the signed sum of the actions of a list of (operator, negated?) pairs.  Proved: absorbing the summed scalings into
the first diagonal with matching sampling dtype (with its sign), and the diagonal merge (inner and outer loop), preserve it.
Then the whole pass (operands without block-diagonal operators): one (domain, target) group, the grouping (a partition), un-nesting
with sign flips, and `SumOperator.make` including the final `-op`. -/

/-- signed sum of the actions of a list of (operator, negated?) pairs in mode `s` -/
noncomputable def ssum (l : List (Op K (X → K) × Bool)) (s : Nat) : Matrix X X K :=
  signedSum (l.map fun p => (den S p.1 (1 <<< s), p.2))

theorem ssum_nil (s : Nat) : ssum isReal re blocks leaf [] s = 0 := by simp [ssum, signedSum]
theorem ssum_cons (o : Op K (X → K)) (n : Bool) (l : List (Op K (X → K) × Bool)) (s : Nat) :
    ssum isReal re blocks leaf ((o, n) :: l) s =
      (if n then - den S o (1 <<< s) else den S o (1 <<< s)) + ssum isReal re blocks leaf l s := by
  simp [ssum, signedSum]

theorem modeScalar_neg2 (c : K) (s : Nat) (hs : s < 2) : modeScalar (-c) s = - modeScalar c s := by
  interval_cases s <;> simp [modeScalar]
theorem modeScalar_zero2 (s : Nat) (hs : s < 2) : modeScalar (0 : K) s = 0 := by
  interval_cases s <;> simp [modeScalar]
theorem modeScalar_add2 (a b : K) (s : Nat) (hs : s < 2) : modeScalar (a + b) s = modeScalar a s + modeScalar b s := by
  interval_cases s <;> simp [modeScalar]

/-- the summed scalings absorbed into the first diagonal operator with the same sampling dtype, **with its sign** -/
theorem sumAbsorb_sound (c : K) (dt : Nat) (l : List (Op K (X → K) × Bool)) (s : Nat) (hs : s < 2)
    (hd : ∀ p ∈ l, okS p.1 = true) :
    ssum isReal re blocks leaf (sumAbsorb S c dt l).1 s + modeScalar (sumAbsorb S c dt l).2 s • (1 : Matrix X X K) =
      ssum isReal re blocks leaf l s + modeScalar c s • (1 : Matrix X X K) ∧
    (∀ p ∈ (sumAbsorb S c dt l).1, okS p.1 = true) := by
  induction l with
  | nil => simp [sumAbsorb]
  | cons p ps ih =>
    obtain ⟨o, n⟩ := p
    have hd' : ∀ p ∈ ps, okS p.1 = true := fun x hx => hd x (by simp [hx])
    by_cases hc : (isDiag o && dtOf o == dt) = true
    · simp only [sumAbsorb, hc, if_true]
      simp only [Bool.and_eq_true] at hc
      obtain ⟨dm, d, t, dt', rfl⟩ := isDiag_cases o hc.1
      have ht : t < 4 := by simpa [okS, diagOK, isBlock] using hd (Op.diag dm d t dt', n) (by simp)
      have hz : (msem isReal re blocks leaf).kzero = (0 : K) := rfl
      refine ⟨?_, ?_⟩
      · rw [ssum_cons, ssum_cons, hz, modeScalar_zero2 s hs, zero_smul, add_zero,
          diagAdd_sound isReal re blocks leaf dm d t dt' _ s ht hs]
        cases n
        · simp only [Bool.false_eq_true, if_false]; abel
        · simp only [if_true]
          have : (msem isReal re blocks leaf).kneg c = -c := rfl
          rw [this, modeScalar_neg2 c s hs]
          simp only [neg_smul, neg_add, neg_neg]; abel
      · intro p hp
        simp only [List.mem_cons] at hp
        rcases hp with rfl | hp
        · simp [diagAdd, okS, diagOK, isBlock]
        · exact hd' p hp
    · have hc' : (isDiag o && dtOf o == dt) = false := by simpa using hc
      obtain ⟨ih1, ih2⟩ := ih hd'
      simp only [sumAbsorb, hc', Bool.false_eq_true, if_false]
      refine ⟨?_, ?_⟩
      · rw [ssum_cons, ssum_cons, add_assoc, ih1, add_assoc]
      · intro p hp
        simp only [List.mem_cons] at hp
        rcases hp with rfl | hp
        · exact hd (o, n) (by simp)
        · exact ih2 p hp


theorem diagCombineSum_isDiag (a b : Op K (X → K)) (na nb : Bool) (ha : isDiag a = true) (hb : isDiag b = true) :
    isDiag (diagCombineSum S a b na nb) = true ∧ okS (diagCombineSum S a b na nb) = true := by
  obtain ⟨dm, d, t, dt, rfl⟩ := isDiag_cases a ha
  obtain ⟨dm2, d2, t2, dt2, rfl⟩ := isDiag_cases b hb
  simp [diagCombineSum, isDiag, okS, diagOK, isBlock]

/-- inner loop of the diagonal merge of SumOperator.simplify: later diagonals with the same sampling dtype are merged into the
    accumulator with their signs; the accumulator's own sign becomes "+" after the first merge -/
theorem sumAbsorbDiags_sound (dt0 : Nat) (acc : Op K (X → K)) (accneg : Bool) (l : List (Op K (X → K) × Bool)) (s : Nat)
    (hs : s < 2) (hacc : isDiag acc = true) (hokacc : okS acc = true) (hd : ∀ p ∈ l, okS p.1 = true) :
    (if (sumAbsorbDiags S dt0 acc accneg l).2.1 then - den S (sumAbsorbDiags S dt0 acc accneg l).1 (1 <<< s)
      else den S (sumAbsorbDiags S dt0 acc accneg l).1 (1 <<< s)) +
        ssum isReal re blocks leaf (sumAbsorbDiags S dt0 acc accneg l).2.2 s =
      (if accneg then - den S acc (1 <<< s) else den S acc (1 <<< s)) + ssum isReal re blocks leaf l s ∧
    okS (sumAbsorbDiags S dt0 acc accneg l).1 = true ∧
    (∀ p ∈ (sumAbsorbDiags S dt0 acc accneg l).2.2, okS p.1 = true) := by
  induction l generalizing acc accneg with
  | nil =>
    refine ⟨?_, hokacc, by simp [sumAbsorbDiags]⟩
    cases accneg <;> simp [sumAbsorbDiags, ssum_nil]
  | cons p ps ih =>
    obtain ⟨o, n⟩ := p
    have hd' : ∀ p ∈ ps, okS p.1 = true := fun x hx => hd x (by simp [hx])
    by_cases hc : (isDiag o && dtOf o == dt0) = true
    · simp only [sumAbsorbDiags, hc, if_true]
      simp only [Bool.and_eq_true] at hc
      obtain ⟨h1, h2⟩ := diagCombineSum_isDiag isReal re blocks leaf acc o accneg n hacc hc.1
      obtain ⟨ih1, ih2, ih3⟩ := ih (diagCombineSum S acc o accneg n) false h1 h2 hd'
      refine ⟨?_, ih2, ih3⟩
      rw [ih1, ssum_cons]
      obtain ⟨dm, d, t, dt, rfl⟩ := isDiag_cases acc hacc
      obtain ⟨dm2, d2, t2, dt2, rfl⟩ := isDiag_cases o hc.1
      have ht : t < 4 := by simpa [okS, diagOK, isBlock] using hokacc
      have ht2 : t2 < 4 := by simpa [okS, diagOK, isBlock] using hd (Op.diag dm2 d2 t2 dt2, n) (by simp)
      simp only [Bool.false_eq_true, if_false]
      rw [diagCombineSum_sound isReal re blocks leaf dm dm2 d d2 t t2 dt dt2 accneg n s ht ht2 hs, add_assoc]
    · have hc' : (isDiag o && dtOf o == dt0) = false := by simpa using hc
      obtain ⟨ih1, ih2, ih3⟩ := ih acc accneg hacc hokacc hd'
      simp only [sumAbsorbDiags, hc', Bool.false_eq_true, if_false]
      refine ⟨?_, ih2, ?_⟩
      · rw [ssum_cons, ssum_cons, ← add_assoc, add_comm _ (if n = true then _ else _), add_assoc, ih1]
        abel
      · intro p hp
        simp only [List.mem_cons] at hp
        rcases hp with rfl | hp
        · exact hd (o, n) (by simp)
        · exact ih3 p hp

/-- **diagonal merge of SumOperator.simplify preserves the signed sum** (TIMES and ADJOINT_TIMES) -/
theorem sumMergeDiags_sound (l : List (Op K (X → K) × Bool)) (s : Nat) (hs : s < 2) (hd : ∀ p ∈ l, okS p.1 = true) :
    ssum isReal re blocks leaf (sumMergeDiags S l) s = ssum isReal re blocks leaf l s ∧
    (∀ p ∈ sumMergeDiags S l, okS p.1 = true) := by
  fun_induction sumMergeDiags S l with
  | case1 => exact ⟨rfl, hd⟩
  | case2 o n rest ho r ih =>
    have hd' : ∀ p ∈ rest, okS p.1 = true := fun x hx => hd x (by simp [hx])
    obtain ⟨h1, h2, h3⟩ := sumAbsorbDiags_sound isReal re blocks leaf (dtOf o) o n rest s hs ho (hd (o, n) (by simp)) hd'
    obtain ⟨ih1, ih2⟩ := ih h3
    refine ⟨?_, ?_⟩
    · rw [ssum_cons, ih1, h1, ssum_cons]
    · intro p hp
      simp only [List.mem_cons] at hp
      rcases hp with rfl | hp
      · exact h2
      · exact ih2 p hp
  | case3 o n rest ho ih =>
    have hd' : ∀ p ∈ rest, okS p.1 = true := fun x hx => hd x (by simp [hx])
    obtain ⟨ih1, ih2⟩ := ih hd'
    refine ⟨?_, ?_⟩
    · rw [ssum_cons, ssum_cons, ih1]
    · intro p hp
      simp only [List.mem_cons] at hp
      rcases hp with rfl | hp
      · exact hd (o, n) (by simp)
      · exact ih2 p hp


/-! #### the whole pass: one group, grouping, un-nesting, `SumOperator.make` -/

theorem sumMergeBlocks_noblock (fuel : Nat) (mk : List (Op K (X → K)) → List Bool → Op K (X → K))
    (l : List (Op K (X → K) × Bool)) (h : ∀ p ∈ l, isBlock p.1 = false) : sumMergeBlocks S fuel mk l = l := by
  fun_induction sumMergeBlocks S fuel mk l with
  | case1 => rfl
  | case2 o n rest ho r ih =>
    have := h (o, n) (by simp)
    simp [ho] at this
  | case3 o n rest ho ih =>
    rw [ih (fun p hp => h p (by simp [hp]))]

theorem ssum_append (l1 l2 : List (Op K (X → K) × Bool)) (s : Nat) :
    ssum isReal re blocks leaf (l1 ++ l2) s = ssum isReal re blocks leaf l1 s + ssum isReal re blocks leaf l2 s := by
  simp [ssum, signedSum, List.map_append, List.sum_append]

/-- the scalings of a group are summed with their signs; the other operators stay -/
theorem sumScalings_split (l : List (Op K (X → K) × Bool)) (init : K) (s : Nat) (hs : s < 2) :
    ssum isReal re blocks leaf l s + modeScalar init s • (1 : Matrix X X K) =
      ssum isReal re blocks leaf (l.filter fun x => !isScaling x.1) s +
        modeScalar ((l.filter fun x => isScaling x.1).foldl (sumScalStep S) init) s • (1 : Matrix X X K) := by
  induction l generalizing init with
  | nil => simp
  | cons p ps ih =>
    obtain ⟨o, n⟩ := p
    by_cases hsc : isScaling o = true
    · obtain ⟨d, c, dt, rfl⟩ : ∃ d c dt, o = Op.scaling d c dt := by
        cases o <;> simp [isScaling] at hsc
        exact ⟨_, _, _, rfl⟩
      simp only [List.filter_cons, hsc, Bool.not_true, Bool.false_eq_true, if_false, if_true, List.foldl_cons]
      have hstep : sumScalStep S init (Op.scaling d c dt, n) = init + (if n then -c else c) := by
        simp only [sumScalStep, msem]
      rw [hstep, ← ih, ssum_cons, den_scaling isReal re blocks leaf d c dt s (by omega), modeScalar_add2 _ _ s hs]
      cases n
      · simp only [Bool.false_eq_true, if_false, add_smul]; abel
      · simp only [if_true, modeScalar_neg2 c s hs, add_smul, neg_smul]; abel
    · have hsc' : isScaling o = false := by simpa using hsc
      simp only [List.filter_cons, hsc', Bool.not_false, Bool.false_eq_true, if_false, if_true]
      rw [ssum_cons, ssum_cons, add_assoc, ih init, add_assoc]

/-- **one (domain, target) group of SumOperator.simplify preserves the signed sum** (no block-diagonal operators) -/
theorem sumProcessGroup_sound (fuel : Nat) (mk : List (Op K (X → K)) → List Bool → Op K (X → K))
    (opset : List (Op K (X → K) × Bool)) (s : Nat) (hs : s < 2) (hd : ∀ p ∈ opset, okS p.1 = true) :
    ssum isReal re blocks leaf (sumProcessGroup S fuel mk opset) s = ssum isReal re blocks leaf opset s := by
  have hs4 : s < 4 := by omega
  simp only [sumProcessGroup]
  have hsplit := sumScalings_split isReal re blocks leaf opset (msem isReal re blocks leaf).kzero s hs
  have hz : modeScalar (msem isReal re blocks leaf).kzero s = 0 := modeScalar_zero2 s hs
  rw [hz, zero_smul, add_zero] at hsplit
  rw [hsplit]
  generalize (opset.filter fun x => isScaling x.1).foldl (sumScalStep S) (msem isReal re blocks leaf).kzero = sc
  generalize commonDtype ((opset.filter fun x => isScaling x.1).map (fun x => dtOf x.1)) = dtype
  have hfilt : ∀ p ∈ opset.filter (fun x => !isScaling x.1), okS p.1 = true := fun p hp => hd p (List.mem_of_mem_filter hp)
  generalize opset.filter (fun x => !isScaling x.1) = others at hfilt ⊢
  have hk : ∀ f : K, (msem isReal re blocks leaf).keq f (msem isReal re blocks leaf).kzero = decide (f = 0) := fun _ => rfl
  -- the list before the merges and its signed sum
  have key : ∀ (l : List (Op K (X → K) × Bool)) (f : K), (∀ p ∈ l, okS p.1 = true) →
      ssum isReal re blocks leaf (sumMergeBlocks S fuel mk (sumMergeDiags S
        (if (!decide (f = 0) || l.isEmpty) = true then l ++ [(Op.scaling (firstDom opset) f dtype, false)] else l))) s =
      ssum isReal re blocks leaf l s + modeScalar f s • (1 : Matrix X X K) := by
    intro l f hl
    have hok3 : ∀ p ∈ (if (!decide (f = 0) || l.isEmpty) = true then l ++ [(Op.scaling (firstDom opset) f dtype, false)] else l),
        okS p.1 = true := by
      intro p hp
      split at hp
      · simp only [List.mem_append, List.mem_singleton] at hp
        rcases hp with hp | rfl
        · exact hl p hp
        · simp [okS, diagOK, isBlock]
      · exact hl p hp
    obtain ⟨hm1, hm2⟩ := sumMergeDiags_sound isReal re blocks leaf _ s hs hok3
    rw [sumMergeBlocks_noblock isReal re blocks leaf fuel mk _ (fun p hp => by
      have := hm2 p hp
      simp only [okS, Bool.and_eq_true, Bool.not_eq_true'] at this
      exact this.2), hm1]
    by_cases hc : (!decide (f = 0) || l.isEmpty) = true
    · simp only [hc, if_true]
      rw [ssum_append, ssum_cons, ssum_nil, den_scaling isReal re blocks leaf _ f dtype s hs4]
      simp
    · have hc' : (!decide (f = 0) || l.isEmpty) = false := by simpa using hc
      simp only [hc', Bool.false_eq_true, if_false]
      have hf : f = 0 := by
        simp only [Bool.or_eq_false_iff, Bool.not_eq_false', decide_eq_true_eq] at hc'
        exact hc'.1
      rw [hf, modeScalar_zero2 s hs, zero_smul, add_zero]
  by_cases hf : sc = 0
  · subst hf
    simp only [hk, decide_true, Bool.not_true, Bool.false_eq_true, if_false]
    have := key others 0 hfilt
    simp only [decide_true, Bool.not_true] at this
    exact this
  · have hdf : decide (sc = 0) = false := by simpa using hf
    simp only [hk, hdf, Bool.not_false, if_true]
    obtain ⟨ha1, ha2⟩ := sumAbsorb_sound isReal re blocks leaf sc dtype others s hs hfilt
    rw [key _ _ ha2, ha1]

/-- the grouping keys: no duplicates, and every element's key occurs -/
theorem groupKeys_spec (l : List (Op K (X → K) × Bool)) :
    (groupKeys l).Nodup ∧ ∀ x ∈ l, domTgt x.1 ∈ groupKeys l := by
  unfold groupKeys
  have key : ∀ (l : List (Op K (X → K) × Bool)) (ks : List (Nat × Nat)), ks.Nodup →
      (l.foldl (fun ks x => if ks.contains (domTgt x.1) then ks else ks ++ [domTgt x.1]) ks).Nodup ∧
      (∀ k ∈ ks, k ∈ l.foldl (fun ks x => if ks.contains (domTgt x.1) then ks else ks ++ [domTgt x.1]) ks) ∧
      (∀ x ∈ l, domTgt x.1 ∈ l.foldl (fun ks x => if ks.contains (domTgt x.1) then ks else ks ++ [domTgt x.1]) ks) := by
    intro l
    induction l with
    | nil => intro ks h; exact ⟨h, fun k hk => hk, by simp⟩
    | cons x xs ih =>
      intro ks h
      simp only [List.foldl_cons]
      by_cases hc : ks.contains (domTgt x.1) = true
      · simp only [hc, if_true]
        obtain ⟨h1, h2, h3⟩ := ih ks h
        refine ⟨h1, h2, ?_⟩
        intro y hy
        simp only [List.mem_cons] at hy
        rcases hy with rfl | hy
        · exact h2 _ (by simpa using hc)
        · exact h3 y hy
      · have hc' : ks.contains (domTgt x.1) = false := by simpa using hc
        simp only [hc', Bool.false_eq_true, if_false]
        have hnd : (ks ++ [domTgt x.1]).Nodup := by
          rw [List.nodup_append]
          refine ⟨h, by simp, ?_⟩
          intro a ha b hb
          simp only [List.mem_singleton] at hb
          subst hb
          intro hab; subst hab
          simp at hc'
          exact hc' ha
        obtain ⟨h1, h2, h3⟩ := ih _ hnd
        refine ⟨h1, fun k hk => h2 k (by simp [hk]), ?_⟩
        intro y hy
        simp only [List.mem_cons] at hy
        rcases hy with rfl | hy
        · exact h2 _ (by simp)
        · exact h3 y hy
  obtain ⟨h1, _, h3⟩ := key l [] List.nodup_nil
  exact ⟨h1, h3⟩

theorem sum_indicator {α : Type} [DecidableEq α] (keys : List α) (hn : keys.Nodup) (a : α) (ha : a ∈ keys)
    (t : Matrix X X K) : (keys.map fun k => if a = k then t else 0).sum = t := by
  induction keys with
  | nil => simp at ha
  | cons k ks ih =>
    simp only [List.nodup_cons] at hn
    simp only [List.map_cons, List.sum_cons]
    by_cases hak : a = k
    · subst hak
      have : (ks.map fun k => if a = k then t else 0).sum = 0 := by
        apply List.sum_eq_zero
        intro x hx
        simp only [List.mem_map] at hx
        obtain ⟨k', hk', rfl⟩ := hx
        have : a ≠ k' := fun h => hn.1 (h ▸ hk')
        simp [this]
      rw [this]; simp
    · have hmem : a ∈ ks := by
        simp only [List.mem_cons] at ha
        rcases ha with h | h
        · exact absurd h hak
        · exact h
      rw [ih hn.2 hmem]; simp [hak]

/-- grouping by (domain, target) is a partition: the group sums add up to the total -/
theorem ssum_groups (l : List (Op K (X → K) × Bool)) (keys : List (Nat × Nat)) (hn : keys.Nodup)
    (hc : ∀ x ∈ l, domTgt x.1 ∈ keys) (s : Nat) :
    (keys.map fun k => ssum isReal re blocks leaf (l.filter fun x => domTgt x.1 == k) s).sum = ssum isReal re blocks leaf l s := by
  induction l with
  | nil => simp [ssum_nil]
  | cons x xs ih =>
    obtain ⟨o, n⟩ := x
    have hc' : ∀ x ∈ xs, domTgt x.1 ∈ keys := fun y hy => hc y (by simp [hy])
    have hx : domTgt o ∈ keys := hc (o, n) (by simp)
    rw [ssum_cons, ← ih hc', ← sum_indicator keys hn (domTgt o) hx
      (if n then - den S o (1 <<< s) else den S o (1 <<< s)), ← List.sum_map_add]
    congr 1
    apply List.map_congr_left
    intro k _
    by_cases hk : domTgt o = k
    · subst hk
      simp [List.filter_cons, ssum_cons]
    · have hk' : (domTgt o == k) = false := by simpa using hk
      simp only [List.filter_cons, hk', hk, Bool.false_eq_true, if_false, zero_add]

theorem ssum_flatMap {α : Type} (keys : List α) (g : α → List (Op K (X → K) × Bool)) (s : Nat) :
    ssum isReal re blocks leaf (keys.flatMap g) s = (keys.map fun k => ssum isReal re blocks leaf (g k) s).sum := by
  induction keys with
  | nil => simp [ssum_nil]
  | cons k ks ih => simp only [List.flatMap_cons, List.map_cons, List.sum_cons, ← ih]; exact ssum_append isReal re blocks leaf _ _ s


theorem ssum_zip_not (l : List (Op K (X → K))) (ns : List Bool) (s : Nat) :
    ssum isReal re blocks leaf (l.zip (ns.map (!·))) s = - ssum isReal re blocks leaf (l.zip ns) s := by
  induction l generalizing ns with
  | nil => simp [ssum_nil]
  | cons o os ih =>
    cases ns with
    | nil => simp [ssum_nil]
    | cons n ns =>
      simp only [List.map_cons, List.zip_cons_cons, ssum_cons, ih]
      cases n <;> simp <;> abel

theorem den_sum_ssum (l : List (Op K (X → K))) (ns : List Bool) (s : Nat) :
    den S (Op.sum l ns) (1 <<< s) = ssum isReal re blocks leaf (l.zip ns) s := by
  by_cases h : l = [] ∨ ns = []
  · rcases h with rfl | rfl
    · simp [den, sumR, ssum_nil, msem]
    · cases l <;> simp [den, sumR, ssum_nil, msem]
  · have h1 : l ≠ [] := fun h' => h (Or.inl h')
    have h2 : ns ≠ [] := fun h' => h (Or.inr h')
    rw [den_sum isReal re blocks leaf l ns _ h1 h2]
    unfold ssum
    congr 1
    rw [List.zip_map_left]
    exact List.map_congr_left (fun p _ => rfl)

/-- un-nesting sums (a subtracted nested sum flips the signs of its summands) keeps the signed sum -/
theorem sumFlatten_sound (ops : List (Op K (X → K))) (neg : List Bool) (s : Nat) :
    ssum isReal re blocks leaf (sumFlatten ops neg) s = ssum isReal re blocks leaf (ops.zip neg) s := by
  unfold sumFlatten
  induction ops.zip neg with
  | nil => rfl
  | cons x xs ih =>
    obtain ⟨o, n⟩ := x
    simp only [List.flatMap_cons]
    rw [ssum_append, ih, ssum_cons]
    congr 1
    cases o with
    | sum l ns =>
      dsimp only
      rw [den_sum_ssum]
      cases n
      · simp
      · simp only [if_true]; exact ssum_zip_not isReal re blocks leaf l ns s
    | _ => simp [ssum_cons, ssum_nil]

/-- **SumOperator.simplify preserves the signed sum** in the two modes a sum advertises (no block-diagonal operators) -/
theorem sumSimplify_sound (fuel : Nat) (mk : List (Op K (X → K)) → List Bool → Op K (X → K))
    (ops : List (Op K (X → K))) (neg : List Bool) (s : Nat) (hs : s < 2)
    (hd : ∀ p ∈ sumFlatten ops neg, okS p.1 = true) :
    ssum isReal re blocks leaf (sumSimplify S fuel mk ops neg) s = ssum isReal re blocks leaf (ops.zip neg) s := by
  simp only [sumSimplify]
  rw [ssum_flatMap, ← sumFlatten_sound isReal re blocks leaf ops neg s]
  obtain ⟨hn, hc⟩ := groupKeys_spec (sumFlatten ops neg)
  rw [← ssum_groups isReal re blocks leaf (sumFlatten ops neg) (groupKeys (sumFlatten ops neg)) hn hc s]
  congr 1
  apply List.map_congr_left
  intro k _
  exact sumProcessGroup_sound isReal re blocks leaf fuel mk _ s hs (fun p hp => hd p (List.mem_of_mem_filter hp))

/-- **SumOperator.make preserves the action** (TIMES, ADJOINT_TIMES): the result acts as the signed sum of the operands; when a
    single negated operator remains, `-op` is built through `ChainOperator.make` (hypotheses of `mkChainU_sound` on that operator) -/
theorem mkSumU_sound (hre : ∀ c, isReal c = true → re c = c) (fuel : Nat) (ops : List (Op K (X → K))) (neg : List Bool)
    (s : Nat) (hs : s < 2) (hd : ∀ p ∈ sumFlatten ops neg, okS p.1 = true)
    (hsingle : ∀ o, sumSimplify S fuel (mkSumU S fuel) ops neg = [(o, true)] →
      (∀ l, o = Op.chain l → l ≠ []) ∧ (∀ x ∈ chainFlatten [o], okC x = true)) :
    den S (mkSumU S (fuel + 1) ops neg) (1 <<< s) = ssum isReal re blocks leaf (ops.zip neg) s := by
  have hs4 : s < 4 := by omega
  rw [← sumSimplify_sound isReal re blocks leaf fuel (mkSumU S fuel) ops neg s hs hd, mkSumU]
  split
  · rename_i o n heq
    rw [heq, ssum_cons, ssum_nil, add_zero]
    cases n
    · simp
    · simp only [if_true]
      obtain ⟨h1, h2⟩ := hsingle o heq
      unfold negU
      have hF : FUEL = 63 + 1 := rfl
      rw [hF, mkChainU_sound isReal re blocks leaf hre 63 _ s hs4 (by simp)
        (by intro x hx l hl; simp only [List.mem_cons, List.not_mem_nil, or_false] at hx; rcases hx with rfl | rfl
            · cases hl
            · exact h1 l hl)
        (by intro x hx
            simp only [chainFlatten, List.flatMap_cons, List.flatMap_nil, List.append_nil, List.mem_append] at hx h2
            rcases hx with hx | hx
            · simp only [List.mem_singleton] at hx; subst hx; simp [okC, diagOK, isBlock, isChainOp]
            · exact h2 x hx)]
      simp only [List.map_cons, List.map_nil, mprod_cons, mprod_nil]
      rw [den_scaling isReal re blocks leaf _ _ 0 s hs4]
      have hm : modeScalar ((msem isReal re blocks leaf).kneg (msem isReal re blocks leaf).kone) s = -1 := by
        show modeScalar (-(1 : K)) s = -1
        rw [modeScalar_neg2 1 s hs, modeScalar_one s hs4]
      rw [hm]
      cases revOf s <;> simp
  · rename_i l hl
    have hz : ∀ l : List (Op K (X → K) × Bool), (l.map (·.1)).zip (l.map (·.2)) = l := by
      intro l; induction l <;> simp [*]
    rw [den_sum_ssum, hz]


/-! ### Part 6 — `_flip_modes` of every operator (chains included) and InversionEnabler, all four modes -/

/-- shape invariants of operator objects as the constructors produce them: transformations are 0..3, adapters never wrap chains,
    chains are non-empty and flat; block-diagonal operators are excluded as chain members / adapter operands (their merging needs a
    block structure on `X`) -/
def goodF : Op K (X → K) → Bool
  | .diag _ _ t _ => decide (t < 4)
  | .adapter o t => decide (t < 4) && goodF o && !isChainOp o && !isBlock o
  | .chain ops => !ops.isEmpty && (ops.map (fun x => goodF x && !isBlock x && !isChainOp x)).all id
  | _ => true

theorem mprod_reverse (r : Bool) (l : List (Matrix X X K)) : mprod r l.reverse = mprod (!r) l := by
  cases r <;> simp [mprod]

theorem revOf_xor : ∀ s, s < 4 → (revOf (s ^^^ 1) = !revOf s) ∧ (revOf (s ^^^ 2) = !revOf s) ∧ (revOf (s ^^^ 3) = revOf s) := by
  decide

theorem chainFlipReversed_eval : ∀ t, t < 4 → t ≠ 0 →
    (chainFlipReversed.getD (t - 1) false = true ↔ (t = 1 ∨ t = 2)) ∧
    (chainFlipReversed.getD (t - 1) false = false ↔ t = 3) := by decide

theorem chainFlatten_nochain (l : List (Op K (X → K))) (h : ∀ x ∈ l, isChainOp x = false) : chainFlatten l = l := by
  unfold chainFlatten
  induction l with
  | nil => rfl
  | cons x xs ih =>
    simp only [List.flatMap_cons]
    rw [ih (fun y hy => h y (by simp [hy]))]
    have := h x (by simp)
    cases x <;> simp_all [isChainOp]

/-- flipping a non-chain, non-block member of a chain yields a non-chain operator that satisfies `okC` -/
theorem flip_member (x : Op K (X → K)) (t : Nat) (ht : t < 4) (hx : goodF x = true) (hb : isBlock x = false)
    (hc : isChainOp x = false) : isChainOp (OpAlgebra.flip S x t) = false ∧ okC (OpAlgebra.flip S x t) = true := by
  cases x with
  | chain l => simp [isChainOp] at hc
  | blockdiag d es => simp [isBlock] at hb
  | adapter o t0 =>
    simp only [goodF, Bool.and_eq_true, decide_eq_true_eq, Bool.not_eq_true'] at hx
    obtain ⟨⟨⟨ht0, _⟩, hoc⟩, hob⟩ := hx
    unfold OpAlgebra.flip
    by_cases h0 : (adapterFlip t0 t == 0) = true
    · simp only [h0, if_true]
      refine ⟨hoc, ?_⟩
      cases o <;> simp_all [okC, diagOK, isBlock, goodF, isChainOp]
    · simp [h0, isChainOp, okC, diagOK, isBlock]
  | diag dm d t0 dt =>
    have ht0 : t0 < 4 := by simpa [goodF] using hx
    have : diagFlip t0 t < 4 := by rw [diagFlip_eval t0 ht0 t ht]; exact xor_lt4 t0 ht0 t ht
    simp [OpAlgebra.flip, isChainOp, okC, diagOK, isBlock, this]
  | scaling d c dt => simp [OpAlgebra.flip, isChainOp, okC, diagOK, isBlock]
  | leaf a b c d => unfold OpAlgebra.flip; split <;> simp [isChainOp, okC, diagOK, isBlock]
  | idEntry d => unfold OpAlgebra.flip; split <;> simp [isChainOp, okC, diagOK, isBlock]
  | null a b => unfold OpAlgebra.flip; split <;> simp [isChainOp, okC, diagOK, isBlock]
  | sum a b => unfold OpAlgebra.flip; split <;> simp [isChainOp, okC, diagOK, isBlock]
  | sandwich a b c => unfold OpAlgebra.flip; split <;> simp [isChainOp, okC, diagOK, isBlock]
  | invEnabler a => unfold OpAlgebra.flip; split <;> simp [isChainOp, okC, diagOK, isBlock]


theorem goodF_chain (ops : List (Op K (X → K))) (h : goodF (Op.chain ops) = true) :
    ops ≠ [] ∧ ∀ x ∈ ops, goodF x = true ∧ isBlock x = false ∧ isChainOp x = false := by
  simp only [goodF, Bool.and_eq_true, Bool.not_eq_true', List.isEmpty_eq_false_iff, List.all_map, List.all_eq_true,
    Function.comp, id] at h
  refine ⟨h.1, fun x hx => ?_⟩
  have := h.2 x hx
  exact ⟨this.1.1, this.1.2, this.2⟩

/-- **`_flip_modes` preserves the action for every operator, chains included, in all four modes**: mode `s` of
    `op._flip_modes(t)` is mode `s xor t` of `op` (chains: the members are flipped and the list is reversed exactly for the
    adjoint and the inverse, kept for adjoint-inverse, then handed to `ChainOperator.make`) -/
theorem flip_sound (hre : ∀ c, isReal c = true → re c = c) (o : Op K (X → K)) (t : Nat) (ht : t < 4) (hg : goodF o = true)
    (s : Nat) (hs : s < 4) :
    den S (OpAlgebra.flip S o t) (1 <<< s) = den S o (1 <<< (s ^^^ t)) := by
  fun_induction OpAlgebra.flip S o t generalizing s with
  | case1 o t0 t nt h0 =>
    have ht0 : t0 < 4 := by simp only [goodF, Bool.and_eq_true, decide_eq_true_eq] at hg; exact hg.1.1.1
    have := flip_adapter_sound isReal re blocks leaf o t0 t s ht0 ht hs
    unfold OpAlgebra.flip at this
    have h0' : adapterFlip t0 t = 0 := by simpa using h0
    simpa [h0'] using this
  | case2 o t0 t nt h0 =>
    have ht0 : t0 < 4 := by simp only [goodF, Bool.and_eq_true, decide_eq_true_eq] at hg; exact hg.1.1.1
    have := flip_adapter_sound isReal re blocks leaf o t0 t s ht0 ht hs
    unfold OpAlgebra.flip at this
    have h0' : ¬ adapterFlip t0 t = 0 := by simpa using h0
    simpa [h0'] using this
  | case3 d c dt t =>
    have := flip_scaling_sound isReal re blocks leaf d c dt t s ht hs
    unfold OpAlgebra.flip at this
    exact this
  | case4 dm d t0 dt t =>
    have ht0 : t0 < 4 := by simpa [goodF] using hg
    have := flip_diag_sound isReal re blocks leaf dm d t0 dt t s ht0 ht hs
    unfold OpAlgebra.flip at this
    exact this
  | case5 ops t h0 =>
    have : t = 0 := by simpa using h0
    subst this; simp
  | case6 ops t h0 hrev ih =>
    have ht0 : t ≠ 0 := by simpa using h0
    have ht12 : t = 1 ∨ t = 2 := ((chainFlipReversed_eval t ht ht0).1).mp hrev
    obtain ⟨hne, hmem⟩ := goodF_chain ops hg
    have hF : FUEL = 63 + 1 := rfl
    have hL : ∀ y ∈ ops.reverse.map (OpAlgebra.flip S · t), isChainOp y = false ∧ okC y = true := by
      intro y hy
      simp only [List.mem_map, List.mem_reverse] at hy
      obtain ⟨x, hx, rfl⟩ := hy
      exact flip_member isReal re blocks leaf x t ht (hmem x hx).1 (hmem x hx).2.1 (hmem x hx).2.2
    rw [hF, mkChainU_sound isReal re blocks leaf hre 63 _ s hs (by simpa using hne)
      (by intro y hy l hl; have := (hL y hy).1; rw [hl] at this; simp [isChainOp] at this)
      (by rw [chainFlatten_nochain _ (fun y hy => (hL y hy).1)]; exact fun y hy => (hL y hy).2),
      den_chain_mprod isReal re blocks leaf ops (s ^^^ t) (xor_lt4 s hs t ht) hne]
    rw [List.map_map, List.map_reverse, mprod_reverse]
    have hr : revOf (s ^^^ t) = !revOf s := by
      rcases ht12 with rfl | rfl
      · exact (revOf_xor s hs).1
      · exact (revOf_xor s hs).2.1
    rw [hr]
    congr 1
    apply List.map_congr_left
    intro x hx
    exact ih x hx ht (hmem x hx).1 s hs
  | case7 ops t h0 hrev ih =>
    have ht0 : t ≠ 0 := by simpa using h0
    have ht3 : t = 3 := ((chainFlipReversed_eval t ht ht0).2).mp hrev
    obtain ⟨hne, hmem⟩ := goodF_chain ops hg
    have hF : FUEL = 63 + 1 := rfl
    have hL : ∀ y ∈ ops.map (OpAlgebra.flip S · t), isChainOp y = false ∧ okC y = true := by
      intro y hy
      simp only [List.mem_map] at hy
      obtain ⟨x, hx, rfl⟩ := hy
      exact flip_member isReal re blocks leaf x t ht (hmem x hx).1 (hmem x hx).2.1 (hmem x hx).2.2
    rw [hF, mkChainU_sound isReal re blocks leaf hre 63 _ s hs (by simpa using hne)
      (by intro y hy l hl; have := (hL y hy).1; rw [hl] at this; simp [isChainOp] at this)
      (by rw [chainFlatten_nochain _ (fun y hy => (hL y hy).1)]; exact fun y hy => (hL y hy).2),
      den_chain_mprod isReal re blocks leaf ops (s ^^^ t) (xor_lt4 s hs t ht) hne]
    rw [List.map_map]
    have hr : revOf (s ^^^ t) = revOf s := by subst ht3; exact (revOf_xor s hs).2.2
    rw [hr]
    congr 1
    apply List.map_congr_left
    intro x hx
    exact ih x hx ht (hmem x hx).1 s hs
  | case8 o t _ _ _ _ h0 =>
    have : t = 0 := by simpa using h0
    subst this; simp
  | case9 o t _ _ _ _ h0 =>
    exact den_adapter isReal re blocks leaf o t s ht hs


/-- **InversionEnabler**: in a mode the operand does not advertise the code solves `invop · r = x` with
    `invop = op._flip_modes(_ilog[invmode])` applied in mode TIMES; that operator acts as the operand's `invmode`
    (= mode `s xor INVERSE`), which is what the model inverts -/
theorem invEnabler_invop_sound (hre : ∀ c, isReal c = true → re c = c) (o : Op K (X → K)) (hg : goodF o = true)
    (s : Nat) (hs : s < 4) :
    den S (OpAlgebra.flip S o (ilogN (invEnablerInvMode (1 <<< s)))) TIMES = den S o (invEnablerInvMode (1 <<< s)) ∧
    (¬ invEnablerDelegates (cap o) (1 <<< s) = true →
      den S (Op.invEnabler o) (1 <<< s) = (den S o (1 <<< (s ^^^ INVERSE_BIT)))⁻¹) := by
  have h1 : invEnablerInvMode (1 <<< s) = 1 <<< (s ^^^ 2) := by revert s; decide
  have h2 : ilogN (1 <<< (s ^^^ 2)) = s ^^^ 2 := by revert s; decide
  have h3 : s ^^^ 2 < 4 := xor_lt4 s hs 2 (by decide)
  refine ⟨?_, ?_⟩
  · rw [h1, h2]
    have := flip_sound isReal re blocks leaf hre o (s ^^^ 2) h3 hg 0 (by decide)
    simpa [TIMES] using this
  · intro hnd
    rw [den]
    simp only [hnd, if_false, h1]
    rfl

/-! ### Part 7 — operands of `ChainOperator.make`, `@`, `.scale`, and SandwichOperator.make with all its shortcuts -/

/-- an operator that may be handed to `ChainOperator.make`: if it is a chain it is non-empty, and its members (or itself) satisfy `okC` -/
def opnd (x : Op K (X → K)) : Prop := (∀ l, x = Op.chain l → l ≠ []) ∧ ∀ y ∈ chainFlatten [x], okC y = true

theorem chainFlatten_append (l1 l2 : List (Op K (X → K))) : chainFlatten (l1 ++ l2) = chainFlatten l1 ++ chainFlatten l2 := by
  simp [chainFlatten, List.flatMap_append]

theorem chainFlatten_cons (x : Op K (X → K)) (l : List (Op K (X → K))) :
    chainFlatten (x :: l) = chainFlatten [x] ++ chainFlatten l := chainFlatten_append [x] l

theorem opnd_list (ops : List (Op K (X → K))) (h : ∀ x ∈ ops, opnd x) :
    (∀ o ∈ ops, ∀ l, o = Op.chain l → l ≠ []) ∧ ∀ y ∈ chainFlatten ops, okC y = true := by
  refine ⟨fun o ho => (h o ho).1, ?_⟩
  induction ops with
  | nil => simp [chainFlatten]
  | cons x xs ih =>
    intro y hy
    rw [chainFlatten_cons, List.mem_append] at hy
    rcases hy with hy | hy
    · exact (h x (by simp)).2 y hy
    · exact ih (fun z hz => h z (by simp [hz])) y hy

theorem opnd_of_okC (x : Op K (X → K)) (h : okC x = true) : opnd x := by
  have hc : isChainOp x = false := by
    simp only [okC, Bool.and_eq_true, Bool.not_eq_true'] at h; exact h.2
  refine ⟨?_, ?_⟩
  · intro l hl; rw [hl] at hc; simp [isChainOp] at hc
  · rw [chainFlatten_nochain [x] (by intro y hy; simp at hy; rw [hy]; exact hc)]
    intro y hy; simp at hy; rw [hy]; exact h

/-- the result of `ChainOperator.make` can itself be handed to `ChainOperator.make` -/
theorem mkChainU_opnd (hre : ∀ c, isReal c = true → re c = c) (fuel : Nat) (ops : List (Op K (X → K)))
    (hne0 : ops ≠ []) (h : ∀ x ∈ ops, opnd x) : opnd (mkChainU S (fuel + 1) ops) := by
  obtain ⟨hne, hok⟩ := opnd_list ops h
  rw [mkChainU]
  have hcore := chainSimplifyCore_sound isReal re blocks leaf hre (mkChainU S fuel) ops 0 (by decide) hne hok
  have hres : ∀ L, L = chainSimplify S (mkChainU S fuel) ops →
      (∃ x ∈ ops, L = [x]) ∨ (L ≠ [] ∧ ∀ y ∈ L, okC y = true) := by
    intro L hL
    unfold chainSimplify at hL
    split at hL
    · exact Or.inl ⟨_, by simp, hL⟩
    · split at hL
      · exact Or.inl ⟨_, by simp, hL⟩
      · split at hL
        · exact Or.inl ⟨_, by simp, hL⟩
        · exact Or.inr (hL ▸ hcore.2)
    · exact Or.inr (hL ▸ hcore.2)
  rcases hres _ rfl with ⟨x, hx, hL⟩ | ⟨hLne, hLok⟩
  · rw [hL]; exact h x hx
  · split
    · rename_i o heq
      exact opnd_of_okC _ (hLok o (by rw [heq]; simp))
    · rename_i L' hL'
      refine ⟨fun l hl => by injection hl with hl; rw [← hl]; exact hLne, ?_⟩
      have : chainFlatten [Op.chain (chainSimplify S (mkChainU S fuel) ops)] = chainSimplify S (mkChainU S fuel) ops := by
        simp [chainFlatten]
      rw [this]; exact hLok

/-- `a @ b` (LinearOperator.__matmul__): the mode-ordered product of the two operands -/
theorem matmul_sound (hre : ∀ c, isReal c = true → re c = c) (a b r : Op K (X → K)) (h : matmul S a b = .ok r)
    (ha : opnd a) (hb : opnd b) (s : Nat) (hs : s < 4) :
    den S r (1 <<< s) = mprod (revOf s) [den S a (1 <<< s), den S b (1 <<< s)] ∧ opnd r := by
  unfold matmul at h
  split at h
  · rename_i hid
    injection h with h; subst h
    refine ⟨?_, ha⟩
    simp only [mprod_cons, mprod_nil, isIdentity_den isReal re blocks leaf b hid]
    cases revOf s <;> simp
  · unfold mkChain at h
    have hF : FUEL = 63 + 1 := rfl
    have hlist : ∀ x ∈ [a, b], opnd x := by
      intro x hx; simp only [List.mem_cons, List.not_mem_nil, or_false] at hx
      rcases hx with rfl | rfl
      · exact ha
      · exact hb
    obtain ⟨hne, hok⟩ := opnd_list [a, b] hlist
    simp only [List.isEmpty_cons, Bool.false_eq_true, if_false, List.length_cons, List.length_nil] at h
    split at h
    · rename_i hl; simp at hl
    · split at h
      · injection h with h; subst h
        rw [hF]
        exact ⟨mkChainU_sound isReal re blocks leaf hre 63 [a, b] s hs (by simp) hne hok,
          mkChainU_opnd isReal re blocks leaf hre 63 [a, b] (by simp) hlist⟩
      · cases h


theorem goodF_diagOK (y : Op K (X → K)) (h : goodF y = true) : diagOK y = true := by
  cases y <;> simp_all [goodF, diagOK]

/-- a flipped operator can be handed to `ChainOperator.make` -/
theorem flip_opnd (hre : ∀ c, isReal c = true → re c = c) (x : Op K (X → K)) (t : Nat) (ht : t < 4) (hg : goodF x = true)
    (hb : isBlock x = false) : opnd (OpAlgebra.flip S x t) := by
  by_cases hc : isChainOp x = true
  · obtain ⟨l, rfl⟩ : ∃ l, x = Op.chain l := by cases x <;> simp [isChainOp] at hc; exact ⟨_, rfl⟩
    obtain ⟨hne, hmem⟩ := goodF_chain l hg
    unfold OpAlgebra.flip
    have hF : FUEL = 63 + 1 := rfl
    split
    · exact ⟨fun l' hl' => by injection hl' with hl'; rw [← hl']; exact hne, by
        rw [show chainFlatten [Op.chain l] = l by simp [chainFlatten]]
        intro y hy
        obtain ⟨h1, h2, h3⟩ := hmem y hy
        simp [okC, goodF_diagOK y h1, h2, h3]⟩
    · split
      · rw [hF]
        apply mkChainU_opnd isReal re blocks leaf hre 63 _ (by simpa using hne)
        intro y hy
        simp only [List.mem_map, List.mem_reverse] at hy
        obtain ⟨z, hz, rfl⟩ := hy
        exact opnd_of_okC _ (flip_member isReal re blocks leaf z t ht (hmem z hz).1 (hmem z hz).2.1 (hmem z hz).2.2).2
      · rw [hF]
        apply mkChainU_opnd isReal re blocks leaf hre 63 _ (by simpa using hne)
        intro y hy
        simp only [List.mem_map] at hy
        obtain ⟨z, hz, rfl⟩ := hy
        exact opnd_of_okC _ (flip_member isReal re blocks leaf z t ht (hmem z hz).1 (hmem z hz).2.1 (hmem z hz).2.2).2
  · have hc' : isChainOp x = false := by simpa using hc
    exact opnd_of_okC _ (flip_member isReal re blocks leaf x t ht hg hb hc').2

theorem adjointOf_nonsum (x : Op K (X → K)) (h : isSumOp x = false) : adjointOf S x = OpAlgebra.flip S x ADJOINT_BIT := by
  cases x <;> first | (simp [isSumOp] at h; done) | (simp only [adjointOf])

theorem modeScalar_xor1 (c : K) (s : Nat) (hs : s < 4) : modeScalar c (s ^^^ 1) = modeScalar (star c) s := by
  interval_cases s <;> simp [modeScalar]

/-- `op.scale(f)` (Operator.scale): every mode is the mode-scalar of `f` times the operator -/
theorem scale_sound (hre : ∀ c, isReal c = true → re c = c) (o r : Op K (X → K)) (f : K) (h : scale S o f = .ok r) (ho : opnd o)
    (s : Nat) (hs : s < 4) : den S r (1 <<< s) = modeScalar f s • den S o (1 <<< s) := by
  unfold scale at h
  have hk : (msem isReal re blocks leaf).keq f (msem isReal re blocks leaf).kone = decide (f = 1) := rfl
  rw [hk] at h
  by_cases hf : f = 1
  · simp only [hf, decide_true, if_true] at h
    injection h with h; subst h; rw [hf, modeScalar_one s hs, one_smul]
  · have : decide (f = 1) = false := by simpa using hf
    simp only [this, Bool.false_eq_true, if_false] at h
    unfold callOp at h
    have hid : isIdentity S (Op.scaling (tgt o) f 0 : Op K (X → K)) = false := by
      simp [isIdentity, msem, hf]
    simp only [hid, Bool.false_eq_true, if_false] at h
    have hsc : opnd (Op.scaling (tgt o) f 0 : Op K (X → K)) := opnd_of_okC _ (by simp [okC, diagOK, isBlock, isChainOp])
    rw [(matmul_sound isReal re blocks leaf hre _ _ _ h hsc ho s hs).1, den_scaling isReal re blocks leaf _ f 0 s hs]
    simp only [mprod_cons, mprod_nil]
    cases revOf s <;> simp

/-- **SandwichOperator.make** (second part, all shortcuts): the result acts in every mode as the mode-ordered product of
    `bun.adjoint`, `cheese`, `bun` — for a scaling bun `g` that is `|g|²·cheese` (returned as the cheese itself when `|g|² = 1`) -/
theorem sandwichCore_sound (hre : ∀ c, isReal c = true → re c = c) (bun cheese r : Op K (X → K))
    (h : sandwichCore S bun cheese = .ok r) (hg : goodF bun = true) (hb : isBlock bun = false) (hsum : isSumOp bun = false)
    (hbo : opnd bun) (hco : opnd cheese) (s : Nat) (hs : s < 4) :
    den S r (1 <<< s) =
      mprod (revOf s) [den S bun (1 <<< (s ^^^ 1)), den S cheese (1 <<< s), den S bun (1 <<< s)] := by
  have hx : s ^^^ 1 < 4 := xor_lt4 s hs 1 (by decide)
  unfold sandwichCore at h
  split at h
  · rename_i d c dt
    have hk : (msem isReal re blocks leaf).keq ((msem isReal re blocks leaf).kabs2 c) (msem isReal re blocks leaf).kone =
        decide (c * star c = 1) := rfl
    rw [hk] at h
    have hprod : mprod (revOf s) [den S (Op.scaling d c dt) (1 <<< (s ^^^ 1)), den S cheese (1 <<< s),
        den S (Op.scaling d c dt) (1 <<< s)] = modeScalar (c * star c) s • den S cheese (1 <<< s) := by
      rw [den_scaling isReal re blocks leaf d c dt _ hx, den_scaling isReal re blocks leaf d c dt s hs,
        modeScalar_xor1 c s hs, modeScalar_mul _ _ s hs]
      simp only [mprod_cons, mprod_nil]
      cases revOf s <;> simp [smul_smul, mul_comm]
    rw [hprod]
    by_cases hf : c * star c = 1
    · simp only [hf, decide_true, if_true] at h
      injection h with h; subst h
      rw [hf, modeScalar_one s hs, one_smul]
    · have : decide (c * star c = 1) = false := by simpa using hf
      simp only [this, Bool.false_eq_true, if_false] at h
      split at h
      · rename_i op hop
        injection h with h; subst h
        rw [den_sandwich]
        exact scale_sound isReal re blocks leaf hre cheese op _ hop hco s hs
      · cases h
  · rename_i hns
    rw [adjointOf_nonsum isReal re blocks leaf bun hsum] at h
    split at h
    · cases h
    · rename_i t ht
      split at h
      · rename_i op hop
        injection h with h; subst h
        rw [den_sandwich]
        have hadj : opnd (OpAlgebra.flip S bun ADJOINT_BIT) := flip_opnd isReal re blocks leaf hre bun 1 (by decide) hg hb
        obtain ⟨ht1, ht2⟩ := matmul_sound isReal re blocks leaf hre _ _ _ ht hadj hco s hs
        have hfl : den S (OpAlgebra.flip S bun ADJOINT_BIT) (1 <<< s) = den S bun (1 <<< (s ^^^ 1)) :=
          flip_sound isReal re blocks leaf hre bun 1 (by decide) hg s hs
        rw [(matmul_sound isReal re blocks leaf hre _ _ _ hop ht2 hbo s hs).1, ht1, hfl]
        simp only [mprod_cons, mprod_nil]
        cases revOf s <;> simp [Matrix.mul_assoc]
      · cases h


/-- **SandwichOperator.make(bun, cheese)** for a cheese that is not itself a SandwichOperator (`none`: the identity): every
    shortcut included, the result acts in mode `s` as the mode-ordered product of `bun.adjoint`, `cheese`, `bun` -/
theorem mkSandwich_sound (hre : ∀ c, isReal c = true → re c = c) (bun : Op K (X → K)) (cheese : Option (Op K (X → K)))
    (dt : Nat) (r : Op K (X → K)) (h : mkSandwich S bun cheese dt = .ok r)
    (hns : ∀ c, cheese = some c → isSandwichOp c = false ∧ opnd c)
    (hg : goodF bun = true) (hb : isBlock bun = false) (hsum : isSumOp bun = false) (hbo : opnd bun) (s : Nat) (hs : s < 4) :
    den S r (1 <<< s) = mprod (revOf s) [den S bun (1 <<< (s ^^^ 1)),
      (match cheese with | some c => den S c (1 <<< s) | none => 1), den S bun (1 <<< s)] := by
  unfold mkSandwich sandwichArgs at h
  cases cheese with
  | none =>
    simp only at h
    have hco : opnd (Op.scaling (tgt bun) (msem isReal re blocks leaf).kone dt : Op K (X → K)) :=
      opnd_of_okC _ (by simp [okC, diagOK, isBlock, isChainOp])
    rw [sandwichCore_sound isReal re blocks leaf hre bun _ r h hg hb hsum hbo hco s hs]
    have : den S (Op.scaling (tgt bun) (msem isReal re blocks leaf).kone dt : Op K (X → K)) (1 <<< s) = 1 :=
      isIdentity_den isReal re blocks leaf _ (by simp [isIdentity, msem]) _
    rw [this]
  | some c =>
    obtain ⟨hc1, hc2⟩ := hns c rfl
    cases c with
    | sandwich a b o => simp [isSandwichOp] at hc1
    | _ =>
      simp only at h
      exact sandwichCore_sound isReal re blocks leaf hre bun _ r h hg hb hsum hbo hc2 s hs

/-! ### Part 8 — the shape invariant `Inv` of constructed operators and its preservation by every constructor -/

/-- predicates on operators that hold for the fresh operators the simplifiers create -/
structure Fresh (P : Op K (X → K) → Prop) : Prop where
  scaling : ∀ d c dt, P (Op.scaling d c dt)
  diag0 : ∀ dm d dt, P (Op.diag dm d 0 dt)
  null : ∀ d t, P (Op.null d t)

theorem chainAbsorb_pres (P : Op K (X → K) → Prop) (hP : Fresh P) (f : K) (l : List (Op K (X → K))) (h : ∀ y ∈ l, P y) :
    ∀ y ∈ (chainAbsorb S f l).1, P y := by
  induction l with
  | nil => simp [chainAbsorb]
  | cons o os ih =>
    by_cases hd : isDiag o = true
    · obtain ⟨dm, d, t, dt, rfl⟩ := isDiag_cases o hd
      simp only [chainAbsorb, hd, if_true]
      intro y hy
      simp only [List.mem_cons] at hy
      rcases hy with rfl | hy
      · exact hP.diag0 _ _ _
      · exact h y (by simp [hy])
    · have hd' : isDiag o = false := by simpa using hd
      simp only [chainAbsorb, hd', Bool.false_eq_true, if_false]
      intro y hy
      simp only [List.mem_cons] at hy
      rcases hy with rfl | hy
      · exact h _ (by simp)
      · exact ih (fun z hz => h z (by simp [hz])) y hy

theorem chainMergeDiag_pres (P : Op K (X → K) → Prop) (hP : Fresh P) (l : List (Op K (X → K))) (h : ∀ y ∈ l, P y) :
    ∀ y ∈ chainMergeDiag S l, P y := by
  fun_induction chainMergeDiag S l with
  | case1 a b rest hab ih =>
    simp only [Bool.and_eq_true] at hab
    obtain ⟨dm1, d1, t1, dt1, rfl⟩ := isDiag_cases a hab.1
    obtain ⟨dm2, d2, t2, dt2, rfl⟩ := isDiag_cases b hab.2
    apply ih
    intro y hy
    simp only [List.mem_cons] at hy
    rcases hy with rfl | hy
    · exact hP.diag0 _ _ _
    · exact h y (by simp [hy])
  | case2 a b rest hab ih =>
    intro y hy
    simp only [List.mem_cons] at hy
    rcases hy with rfl | hy
    · exact h _ (by simp)
    · exact ih (fun z hz => h z (by simp only [List.mem_cons] at hz ⊢; tauto)) y hy
  | case3 l hl => exact h

theorem chainNullCollapse_pres (P : Op K (X → K) → Prop) (hP : Fresh P) (l : List (Op K (X → K))) (h : ∀ y ∈ l, P y) :
    ∀ y ∈ chainNullCollapse l, P y := by
  unfold chainNullCollapse
  split
  · intro y hy; simp only [List.mem_singleton] at hy; rw [hy]; exact hP.null _ _
  · exact h

theorem chainPost_pres (P : Op K (X → K) → Prop) (hP : Fresh P) (mk : List (Op K (X → K)) → Op K (X → K))
    (l : List (Op K (X → K))) (h : ∀ y ∈ l, P y) (hok : ∀ y ∈ l, okC y = true) : ∀ y ∈ chainPost S mk l, P y := by
  simp only [chainPost]
  -- the list before the merges satisfies P and okC
  have key : ∀ (l3 : List (Op K (X → K))), (∀ y ∈ l3, P y) → (∀ y ∈ l3, okC y = true) →
      ∀ y ∈ chainMergeBlock S mk (chainMergeDiag S l3), P y := by
    intro l3 h3 hok3
    have h2 := (chainMergeDiag_sound isReal re blocks leaf l3 0 (by decide) hok3).2
    rw [chainMergeBlock_noblock isReal re blocks leaf mk _ (fun o ho => by
      have := h2 o ho
      simp only [okC, Bool.and_eq_true, Bool.not_eq_true'] at this
      exact this.1.2)]
    exact chainMergeDiag_pres isReal re blocks leaf P hP l3 h3
  generalize l.foldl (chainCollectStep S) (msem isReal re blocks leaf).kone = fct
  have hf1 : ∀ y ∈ l.filter (fun o => !isRealScaling S o), P y := fun y hy => h y (List.mem_of_mem_filter hy)
  have hf2 : ∀ y ∈ l.filter (fun o => !isRealScaling S o), okC y = true := fun y hy => hok y (List.mem_of_mem_filter hy)
  generalize l.filter (fun o => !isRealScaling S o) = opsnew at hf1 hf2 ⊢
  have hk : ∀ f : K, (msem isReal re blocks leaf).keq f (msem isReal re blocks leaf).kone = decide (f = 1) := fun _ => rfl
  have app : ∀ (l3 : List (Op K (X → K))) (c : Bool) (f : K), (∀ y ∈ l3, P y) → (∀ y ∈ l3, okC y = true) →
      (∀ y ∈ (if (c || l3.isEmpty) = true then l3 ++ [Op.scaling (lastDom l) f 0] else l3), P y) ∧
      (∀ y ∈ (if (c || l3.isEmpty) = true then l3 ++ [Op.scaling (lastDom l) f 0] else l3), okC y = true) := by
    intro l3 c f h3 hok3
    constructor
    · intro y hy
      split at hy
      · simp only [List.mem_append, List.mem_singleton] at hy
        rcases hy with hy | rfl
        · exact h3 y hy
        · exact hP.scaling _ _ _
      · exact h3 y hy
    · intro y hy
      split at hy
      · simp only [List.mem_append, List.mem_singleton] at hy
        rcases hy with hy | rfl
        · exact hok3 y hy
        · simp [okC, diagOK, isBlock, isChainOp]
      · exact hok3 y hy
  by_cases hf : fct = 1
  · subst hf
    simp only [hk, decide_true, Bool.not_true, Bool.false_eq_true, if_false]
    obtain ⟨a1, a2⟩ := app opsnew false 1 hf1 hf2
    exact key _ a1 a2
  · have hdf : decide (fct = 1) = false := by simpa using hf
    simp only [hk, hdf, Bool.not_false, if_true]
    obtain ⟨a1, a2⟩ := app (chainAbsorb S fct opsnew).1 (!decide ((chainAbsorb S fct opsnew).2 = 1)) (chainAbsorb S fct opsnew).2
      (chainAbsorb_pres isReal re blocks leaf P hP fct opsnew hf1)
      (chainAbsorb_sound isReal re blocks leaf fct opsnew 0 (by decide) hf2).2
    exact key _ a1 a2


/-- shape invariant of the operator objects the (modelled) constructors produce from block-free scripts: transformations are 0..3,
    adapters never wrap chains, chains are non-empty and flat, sums are flat, no block-diagonal operators -/
def Inv : Op K (X → K) → Bool
  | .leaf _ _ _ _ => true
  | .scaling _ _ _ => true
  | .null _ _ => true
  | .diag _ _ t _ => decide (t < 4)
  | .idEntry _ => false
  | .blockdiag _ _ => false
  | .adapter o t => decide (t < 4) && Inv o && !isChainOp o
  | .chain l => !l.isEmpty && (l.map fun x => Inv x && !isChainOp x).all id
  | .sum l _ => (l.map fun x => Inv x && !isSumOp x).all id
  | .sandwich _ _ op => Inv op
  | .invEnabler o => Inv o

theorem Inv_notBlock (o : Op K (X → K)) (h : Inv o = true) : isBlock o = false := by
  cases o <;> simp_all [Inv, isBlock]

theorem Inv_chain (l : List (Op K (X → K))) (h : Inv (Op.chain l) = true) :
    l ≠ [] ∧ ∀ x ∈ l, Inv x = true ∧ isChainOp x = false := by
  simp only [Inv, Bool.and_eq_true, Bool.not_eq_true', List.isEmpty_eq_false_iff, List.all_map, List.all_eq_true,
    Function.comp, id] at h
  exact ⟨h.1, fun x hx => h.2 x hx⟩

theorem Inv_chain_mk (l : List (Op K (X → K))) (hne : l ≠ []) (h : ∀ x ∈ l, Inv x = true ∧ isChainOp x = false) :
    Inv (Op.chain l) = true := by
  simp only [Inv, Bool.and_eq_true, Bool.not_eq_true', List.isEmpty_eq_false_iff, List.all_map, List.all_eq_true,
    Function.comp, id]
  exact ⟨hne, fun x hx => h x hx⟩

theorem Inv_goodF (o : Op K (X → K)) (h : Inv o = true) : goodF o = true := by
  induction o using goodF.induct with
  | case1 dm d t dt => simpa [Inv, goodF] using h
  | case2 o t ih =>
    simp only [Inv, Bool.and_eq_true, decide_eq_true_eq, Bool.not_eq_true'] at h
    simp only [goodF, Bool.and_eq_true, decide_eq_true_eq, Bool.not_eq_true']
    exact ⟨⟨⟨h.1.1, ih h.1.2⟩, h.2⟩, Inv_notBlock o h.1.2⟩
  | case3 ops ih =>
    obtain ⟨hne, hm⟩ := Inv_chain ops h
    simp only [goodF, Bool.and_eq_true, Bool.not_eq_true', List.isEmpty_eq_false_iff, List.all_map, List.all_eq_true,
      Function.comp, id]
    exact ⟨hne, fun x hx => ⟨⟨ih x hx (hm x hx).1, Inv_notBlock x (hm x hx).1⟩, (hm x hx).2⟩⟩
  | case4 o h1 h2 h3 => cases o <;> simp_all [goodF, Inv]

theorem Inv_diagOK (o : Op K (X → K)) (h : Inv o = true) : diagOK o = true := by
  cases o <;> simp_all [Inv, diagOK]

theorem Inv_okC (o : Op K (X → K)) (h : Inv o = true) (hc : isChainOp o = false) : okC o = true := by
  simp [okC, Inv_diagOK o h, Inv_notBlock o h, hc]

theorem Inv_okS (o : Op K (X → K)) (h : Inv o = true) : okS o = true := by
  simp [okS, Inv_diagOK o h, Inv_notBlock o h]

theorem Inv_opnd (o : Op K (X → K)) (h : Inv o = true) : opnd o := by
  by_cases hc : isChainOp o = true
  · obtain ⟨l, rfl⟩ : ∃ l, o = Op.chain l := by cases o <;> simp [isChainOp] at hc; exact ⟨_, rfl⟩
    obtain ⟨hne, hm⟩ := Inv_chain l h
    refine ⟨fun l' hl' => by injection hl' with hl'; rw [← hl']; exact hne, ?_⟩
    rw [show chainFlatten [Op.chain l] = l by simp [chainFlatten]]
    exact fun y hy => Inv_okC y (hm y hy).1 (hm y hy).2
  · exact opnd_of_okC _ (Inv_okC o h (by simpa using hc))

theorem chainFlatten_members (P : Op K (X → K) → Prop) (ops : List (Op K (X → K)))
    (h : ∀ x ∈ ops, (isChainOp x = false → P x) ∧ (∀ l, x = Op.chain l → ∀ y ∈ l, P y)) : ∀ y ∈ chainFlatten ops, P y := by
  induction ops with
  | nil => simp [chainFlatten]
  | cons x xs ih =>
    intro y hy
    rw [chainFlatten_cons, List.mem_append] at hy
    rcases hy with hy | hy
    · cases x with
      | chain l =>
        rw [show chainFlatten [Op.chain l] = l by simp [chainFlatten]] at hy
        exact (h _ (by simp)).2 l rfl y hy
      | _ =>
        simp only [chainFlatten, List.flatMap_cons, List.flatMap_nil, List.append_nil, List.mem_singleton] at hy
        rw [hy]; exact (h _ (by simp)).1 (by simp [isChainOp])
    · exact ih (fun z hz => h z (by simp [hz])) y hy

/-- **ChainOperator.make preserves the shape invariant** -/
theorem mkChainU_Inv (hre : ∀ c, isReal c = true → re c = c) (fuel : Nat) (ops : List (Op K (X → K))) (hne0 : ops ≠ [])
    (h : ∀ x ∈ ops, Inv x = true) : Inv (mkChainU S (fuel + 1) ops) = true := by
  let P : Op K (X → K) → Prop := fun y => Inv y = true ∧ isChainOp y = false
  have hP : Fresh P := ⟨fun _ _ _ => by simp [P, Inv, isChainOp], fun _ _ _ => by simp [P, Inv, isChainOp],
    fun _ _ => by simp [P, Inv, isChainOp]⟩
  have hflat : ∀ y ∈ chainFlatten ops, P y := by
    apply chainFlatten_members
    intro x hx
    exact ⟨fun hc => ⟨h x hx, hc⟩, fun l hl y hy => by
      have := h x hx; rw [hl] at this; exact (Inv_chain l this).2 y hy⟩
  have hflatok : ∀ y ∈ chainFlatten ops, okC y = true := fun y hy => Inv_okC y (hflat y hy).1 (hflat y hy).2
  obtain ⟨hne, _⟩ := opnd_list ops (fun x hx => Inv_opnd x (h x hx))
  have hcoreP : ∀ y ∈ chainSimplifyCore S (mkChainU S fuel) ops, P y := by
    unfold chainSimplifyCore
    have h1 := chainNullCollapse_pres P hP _ hflat
    have h2 := (chainNullCollapse_sound isReal re blocks leaf _ 0 (by decide) hflatok).2
    exact chainPost_pres isReal re blocks leaf P hP _ _ h1 h2
  have hcorene := (chainSimplifyCore_sound isReal re blocks leaf hre (mkChainU S fuel) ops 0 (by decide) hne hflatok).2.1
  have hres : ∀ L, L = chainSimplify S (mkChainU S fuel) ops →
      (∃ x ∈ ops, L = [x]) ∨ (L ≠ [] ∧ ∀ y ∈ L, P y) := by
    intro L hL
    unfold chainSimplify at hL
    split at hL
    · exact Or.inl ⟨_, by simp, hL⟩
    · split at hL
      · exact Or.inl ⟨_, by simp, hL⟩
      · split at hL
        · exact Or.inl ⟨_, by simp, hL⟩
        · exact Or.inr (hL ▸ ⟨hcorene, hcoreP⟩)
    · exact Or.inr (hL ▸ ⟨hcorene, hcoreP⟩)
  rw [mkChainU]
  rcases hres _ rfl with ⟨x, hx, hL⟩ | ⟨hLne, hLP⟩
  · rw [hL]; exact h x hx
  · split
    · rename_i o heq
      exact (hLP o (by rw [heq]; simp)).1
    · exact Inv_chain_mk _ hLne hLP


theorem sumAbsorb_pres (P : Op K (X → K) → Prop) (hP : Fresh P) (c : K) (dt : Nat) (l : List (Op K (X → K) × Bool))
    (h : ∀ p ∈ l, P p.1) : ∀ p ∈ (sumAbsorb S c dt l).1, P p.1 := by
  induction l with
  | nil => simp [sumAbsorb]
  | cons p ps ih =>
    obtain ⟨o, n⟩ := p
    by_cases hc : (isDiag o && dtOf o == dt) = true
    · simp only [sumAbsorb, hc, if_true]
      simp only [Bool.and_eq_true] at hc
      obtain ⟨dm, d, t, dt', rfl⟩ := isDiag_cases o hc.1
      intro q hq
      simp only [List.mem_cons] at hq
      rcases hq with rfl | hq
      · exact hP.diag0 _ _ _
      · exact h q (by simp [hq])
    · have hc' : (isDiag o && dtOf o == dt) = false := by simpa using hc
      simp only [sumAbsorb, hc', Bool.false_eq_true, if_false]
      intro q hq
      simp only [List.mem_cons] at hq
      rcases hq with rfl | hq
      · exact h _ (by simp)
      · exact ih (fun z hz => h z (by simp [hz])) q hq

theorem sumAbsorbDiags_pres (P : Op K (X → K) → Prop) (hP : Fresh P) (dt0 : Nat) (acc : Op K (X → K)) (accneg : Bool)
    (l : List (Op K (X → K) × Bool)) (hacc : P acc) (hd : isDiag acc = true) (h : ∀ p ∈ l, P p.1) :
    P (sumAbsorbDiags S dt0 acc accneg l).1 ∧ ∀ p ∈ (sumAbsorbDiags S dt0 acc accneg l).2.2, P p.1 := by
  induction l generalizing acc accneg with
  | nil => simp [sumAbsorbDiags, hacc]
  | cons p ps ih =>
    obtain ⟨o, n⟩ := p
    have h' : ∀ p ∈ ps, P p.1 := fun z hz => h z (by simp [hz])
    by_cases hc : (isDiag o && dtOf o == dt0) = true
    · simp only [sumAbsorbDiags, hc, if_true]
      simp only [Bool.and_eq_true] at hc
      obtain ⟨dm, d, t, dt, rfl⟩ := isDiag_cases acc hd
      obtain ⟨dm2, d2, t2, dt2, rfl⟩ := isDiag_cases o hc.1
      exact ih _ false (hP.diag0 _ _ _) (by simp [diagCombineSum, isDiag]) h'
    · have hc' : (isDiag o && dtOf o == dt0) = false := by simpa using hc
      simp only [sumAbsorbDiags, hc', Bool.false_eq_true, if_false]
      obtain ⟨i1, i2⟩ := ih acc accneg hacc hd h'
      refine ⟨i1, ?_⟩
      intro q hq
      simp only [List.mem_cons] at hq
      rcases hq with rfl | hq
      · exact h _ (by simp)
      · exact i2 q hq

theorem sumMergeDiags_pres (P : Op K (X → K) → Prop) (hP : Fresh P) (l : List (Op K (X → K) × Bool)) (h : ∀ p ∈ l, P p.1) :
    ∀ p ∈ sumMergeDiags S l, P p.1 := by
  fun_induction sumMergeDiags S l with
  | case1 => exact h
  | case2 o n rest ho r ih =>
    obtain ⟨h1, h2⟩ := sumAbsorbDiags_pres isReal re blocks leaf P hP (dtOf o) o n rest (h (o, n) (by simp)) ho
      (fun z hz => h z (by simp [hz]))
    intro q hq
    simp only [List.mem_cons] at hq
    rcases hq with rfl | hq
    · exact h1
    · exact ih h2 q hq
  | case3 o n rest ho ih =>
    intro q hq
    simp only [List.mem_cons] at hq
    rcases hq with rfl | hq
    · exact h _ (by simp)
    · exact ih (fun z hz => h z (by simp [hz])) q hq

theorem sumProcessGroup_pres (P : Op K (X → K) → Prop) (hP : Fresh P) (fuel : Nat)
    (mk : List (Op K (X → K)) → List Bool → Op K (X → K)) (opset : List (Op K (X → K) × Bool))
    (h : ∀ p ∈ opset, P p.1) (hok : ∀ p ∈ opset, okS p.1 = true) : ∀ p ∈ sumProcessGroup S fuel mk opset, P p.1 := by
  simp only [sumProcessGroup]
  generalize (opset.filter fun x => isScaling x.1).foldl (sumScalStep S) (msem isReal re blocks leaf).kzero = sc
  generalize commonDtype ((opset.filter fun x => isScaling x.1).map (fun x => dtOf x.1)) = dtype
  have hf1 : ∀ p ∈ opset.filter (fun x => !isScaling x.1), P p.1 := fun p hp => h p (List.mem_of_mem_filter hp)
  have hf2 : ∀ p ∈ opset.filter (fun x => !isScaling x.1), okS p.1 = true := fun p hp => hok p (List.mem_of_mem_filter hp)
  generalize opset.filter (fun x => !isScaling x.1) = others at hf1 hf2 ⊢
  have hk : ∀ f : K, (msem isReal re blocks leaf).keq f (msem isReal re blocks leaf).kzero = decide (f = 0) := fun _ => rfl
  have key : ∀ (l : List (Op K (X → K) × Bool)) (c : Bool) (f : K), (∀ p ∈ l, P p.1) → (∀ p ∈ l, okS p.1 = true) →
      ∀ p ∈ sumMergeBlocks S fuel mk (sumMergeDiags S
        (if (c || l.isEmpty) = true then l ++ [(Op.scaling (firstDom opset) f dtype, false)] else l)), P p.1 := by
    intro l c f hl hlok
    have hP3 : ∀ p ∈ (if (c || l.isEmpty) = true then l ++ [(Op.scaling (firstDom opset) f dtype, false)] else l), P p.1 := by
      intro p hp
      split at hp
      · simp only [List.mem_append, List.mem_singleton] at hp
        rcases hp with hp | rfl
        · exact hl p hp
        · exact hP.scaling _ _ _
      · exact hl p hp
    have hok3 : ∀ p ∈ (if (c || l.isEmpty) = true then l ++ [(Op.scaling (firstDom opset) f dtype, false)] else l),
        okS p.1 = true := by
      intro p hp
      split at hp
      · simp only [List.mem_append, List.mem_singleton] at hp
        rcases hp with hp | rfl
        · exact hlok p hp
        · simp [okS, diagOK, isBlock]
      · exact hlok p hp
    have hm2 := (sumMergeDiags_sound isReal re blocks leaf _ 0 (by decide) hok3).2
    rw [sumMergeBlocks_noblock isReal re blocks leaf fuel mk _ (fun p hp => by
      have := hm2 p hp
      simp only [okS, Bool.and_eq_true, Bool.not_eq_true'] at this
      exact this.2)]
    exact sumMergeDiags_pres isReal re blocks leaf P hP _ hP3
  by_cases hf : sc = 0
  · subst hf
    simp only [hk, decide_true, Bool.not_true, Bool.false_eq_true, if_false]
    exact key others false 0 hf1 hf2
  · have hdf : decide (sc = 0) = false := by simpa using hf
    simp only [hk, hdf, Bool.not_false, if_true]
    exact key _ _ _ (sumAbsorb_pres isReal re blocks leaf P hP sc dtype others hf1)
      (sumAbsorb_sound isReal re blocks leaf sc dtype others 0 (by decide) hf2).2

theorem sumSimplify_pres (P : Op K (X → K) → Prop) (hP : Fresh P) (fuel : Nat)
    (mk : List (Op K (X → K)) → List Bool → Op K (X → K)) (ops : List (Op K (X → K))) (neg : List Bool)
    (h : ∀ p ∈ sumFlatten ops neg, P p.1 ∧ okS p.1 = true) : ∀ p ∈ sumSimplify S fuel mk ops neg, P p.1 := by
  simp only [sumSimplify]
  intro p hp
  simp only [List.mem_flatMap] at hp
  obtain ⟨k, _, hp⟩ := hp
  exact sumProcessGroup_pres isReal re blocks leaf P hP fuel mk _
    (fun q hq => (h q (List.mem_of_mem_filter hq)).1) (fun q hq => (h q (List.mem_of_mem_filter hq)).2) p hp


theorem sumFlatten_members (P : Op K (X → K) → Prop) (ops : List (Op K (X → K))) (neg : List Bool)
    (h : ∀ x ∈ ops, (isSumOp x = false → P x) ∧ (∀ l ns, x = Op.sum l ns → ∀ y ∈ l, P y)) :
    ∀ p ∈ sumFlatten ops neg, P p.1 := by
  unfold sumFlatten
  intro p hp
  simp only [List.mem_flatMap] at hp
  obtain ⟨x, hx, hp⟩ := hp
  have hx1 : x.1 ∈ ops := (List.of_mem_zip hx).1
  obtain ⟨o, n⟩ := x
  cases o with
  | sum l ns =>
    simp only at hp
    exact (h _ hx1).2 l ns rfl p.1 (List.of_mem_zip hp).1
  | _ =>
    simp only [List.mem_singleton] at hp
    rw [hp]; exact (h _ hx1).1 (by simp [isSumOp])

theorem Inv_sum (l : List (Op K (X → K))) (ns : List Bool) (h : Inv (Op.sum l ns) = true) :
    ∀ x ∈ l, Inv x = true ∧ isSumOp x = false := by
  simp only [Inv, List.all_map, List.all_eq_true, Function.comp, id, Bool.and_eq_true, Bool.not_eq_true'] at h
  exact h

theorem Inv_sum_mk (l : List (Op K (X → K))) (ns : List Bool) (h : ∀ x ∈ l, Inv x = true ∧ isSumOp x = false) :
    Inv (Op.sum l ns) = true := by
  simp only [Inv, List.all_map, List.all_eq_true, Function.comp, id, Bool.and_eq_true, Bool.not_eq_true']
  exact h

/-- **SumOperator.make preserves the shape invariant** -/
theorem mkSumU_Inv (hre : ∀ c, isReal c = true → re c = c) (fuel : Nat) (ops : List (Op K (X → K))) (neg : List Bool)
    (h : ∀ x ∈ ops, Inv x = true) : Inv (mkSumU S (fuel + 1) ops neg) = true := by
  let P : Op K (X → K) → Prop := fun y => Inv y = true ∧ isSumOp y = false
  have hP : Fresh P := ⟨fun _ _ _ => by simp [P, Inv, isSumOp], fun _ _ _ => by simp [P, Inv, isSumOp],
    fun _ _ => by simp [P, Inv, isSumOp]⟩
  have hflat : ∀ p ∈ sumFlatten ops neg, P p.1 := by
    apply sumFlatten_members
    intro x hx
    exact ⟨fun hc => ⟨h x hx, hc⟩, fun l ns hl y hy => by
      have := h x hx; rw [hl] at this; exact Inv_sum l ns this y hy⟩
  have hres := sumSimplify_pres isReal re blocks leaf P hP fuel (mkSumU S fuel) ops neg
    (fun p hp => ⟨hflat p hp, Inv_okS p.1 (hflat p hp).1⟩)
  rw [mkSumU]
  split
  · rename_i o n heq
    have ho := (hres (o, n) (by rw [heq]; simp)).1
    cases n
    · simpa using ho
    · simp only [if_true]
      unfold negU
      have hF : FUEL = 63 + 1 := rfl
      rw [hF]
      apply mkChainU_Inv isReal re blocks leaf hre 63 _ (by simp)
      intro x hx
      simp only [List.mem_cons, List.not_mem_nil, or_false] at hx
      rcases hx with rfl | rfl
      · simp [Inv]
      · exact ho
  · rename_i L hL
    apply Inv_sum_mk
    intro x hx
    obtain ⟨p, hp, rfl⟩ := List.mem_map.mp hx
    exact hres p hp

theorem flip_Inv (hre : ∀ c, isReal c = true → re c = c) (o : Op K (X → K)) (t : Nat) (ht : t < 4) (h : Inv o = true) :
    Inv (OpAlgebra.flip S o t) = true := by
  fun_induction OpAlgebra.flip S o t with
  | case1 o t0 t nt h0 =>
    simp only [Inv, Bool.and_eq_true] at h; exact h.1.2
  | case2 o t0 t nt h0 =>
    simp only [Inv, Bool.and_eq_true, decide_eq_true_eq, Bool.not_eq_true'] at h ⊢
    refine ⟨⟨?_, h.1.2⟩, h.2⟩
    show adapterFlip t0 t < 4
    rw [adapterFlip_eval t0 h.1.1 t ht]; exact xor_lt4 t0 h.1.1 t ht
  | case3 d c dt t => simp [Inv]
  | case4 dm d t0 dt t =>
    have ht0 : t0 < 4 := by simpa [Inv] using h
    simp only [Inv, decide_eq_true_eq]
    rw [diagFlip_eval t0 ht0 t ht]; exact xor_lt4 t0 ht0 t ht
  | case5 ops t h0 => exact h
  | case6 ops t h0 hrev ih =>
    obtain ⟨hne, hm⟩ := Inv_chain ops h
    have hF : FUEL = 63 + 1 := rfl
    rw [hF]
    apply mkChainU_Inv isReal re blocks leaf hre 63 _ (by simpa using hne)
    intro y hy
    simp only [List.mem_map, List.mem_reverse] at hy
    obtain ⟨x, hx, rfl⟩ := hy
    exact ih x hx ht (hm x hx).1
  | case7 ops t h0 hrev ih =>
    obtain ⟨hne, hm⟩ := Inv_chain ops h
    have hF : FUEL = 63 + 1 := rfl
    rw [hF]
    apply mkChainU_Inv isReal re blocks leaf hre 63 _ (by simpa using hne)
    intro y hy
    simp only [List.mem_map] at hy
    obtain ⟨x, hx, rfl⟩ := hy
    exact ih x hx ht (hm x hx).1
  | case8 o t _ _ _ _ h0 => exact h
  | case9 o t h1 h2 h3 h4 h0 =>
    simp only [Inv, Bool.and_eq_true, decide_eq_true_eq, Bool.not_eq_true']
    refine ⟨⟨ht, h⟩, ?_⟩
    cases o <;> simp_all [isChainOp]


/-! ### Part 9 — `.adjoint`, SandwichOperator.make for every bun, and **`tree_sound`**: the statement of C01 for expression trees -/

theorem matmul_Inv (hre : ∀ c, isReal c = true → re c = c) (a b r : Op K (X → K)) (h : matmul S a b = .ok r)
    (ha : Inv a = true) (hb : Inv b = true) : Inv r = true := by
  unfold matmul at h
  split at h
  · injection h with h; subst h; exact ha
  · unfold mkChain at h
    simp only [List.isEmpty_cons, Bool.false_eq_true, if_false, List.length_cons, List.length_nil] at h
    split at h
    · rename_i hl; simp at hl
    · split at h
      · injection h with h; subst h
        have hF : FUEL = 63 + 1 := rfl
        rw [hF]
        apply mkChainU_Inv isReal re blocks leaf hre 63 _ (by simp)
        intro x hx
        simp only [List.mem_cons, List.not_mem_nil, or_false] at hx
        rcases hx with rfl | rfl
        · exact ha
        · exact hb
      · cases h

theorem scale_Inv (hre : ∀ c, isReal c = true → re c = c) (o r : Op K (X → K)) (f : K) (h : scale S o f = .ok r)
    (ho : Inv o = true) : Inv r = true := by
  unfold scale at h
  split at h
  · injection h with h; subst h; exact ho
  · unfold callOp at h
    split at h
    · injection h with h; subst h; exact ho
    · exact matmul_Inv isReal re blocks leaf hre _ _ _ h (by simp [Inv]) ho

theorem ssum_zip_map (f : Op K (X → K) → Op K (X → K)) (l : List (Op K (X → K))) (ns : List Bool) (s s' : Nat)
    (h : ∀ y ∈ l, den S (f y) (1 <<< s) = den S y (1 <<< s')) :
    ssum isReal re blocks leaf ((l.map f).zip ns) s = ssum isReal re blocks leaf (l.zip ns) s' := by
  induction l generalizing ns with
  | nil => simp [ssum_nil]
  | cons y ys ih =>
    cases ns with
    | nil => simp [ssum_nil]
    | cons n ns =>
      simp only [List.map_cons, List.zip_cons_cons, ssum_cons]
      rw [h y (by simp), ih ns (fun z hz => h z (by simp [hz]))]

/-- **the `.adjoint` property** (SumOperator distributes it over its summands and re-simplifies; everything else flips):
    mode `s` of `op.adjoint` is mode `s xor ADJOINT` of `op` — for a sum in the two modes a sum advertises -/
theorem adjointOf_sound (hre : ∀ c, isReal c = true → re c = c) (x : Op K (X → K)) (hx : Inv x = true) (s : Nat) (hs : s < 4)
    (hsum : isSumOp x = true → s < 2) :
    den S (adjointOf S x) (1 <<< s) = den S x (1 <<< (s ^^^ 1)) ∧ Inv (adjointOf S x) = true := by
  by_cases hc : isSumOp x = true
  · obtain ⟨l, ns, rfl⟩ : ∃ l ns, x = Op.sum l ns := by cases x <;> simp [isSumOp] at hc; exact ⟨_, _, rfl⟩
    have hs2 : s < 2 := hsum hc
    have hm := Inv_sum l ns hx
    have hmap : l.map (adjointOf S) = l.map (OpAlgebra.flip S · ADJOINT_BIT) :=
      List.map_congr_left (fun y hy => adjointOf_nonsum isReal re blocks leaf y (hm y hy).2)
    have hInvm : ∀ y ∈ l.map (OpAlgebra.flip S · ADJOINT_BIT), Inv y = true := by
      intro y hy
      obtain ⟨z, hz, rfl⟩ := List.mem_map.mp hy
      exact flip_Inv isReal re blocks leaf hre z 1 (by decide) (hm z hz).1
    have hF : FUEL = 63 + 1 := rfl
    rw [adjointOf, hmap, hF]
    refine ⟨?_, mkSumU_Inv isReal re blocks leaf hre 63 _ ns hInvm⟩
    have hflatInv : ∀ p ∈ sumFlatten (l.map (OpAlgebra.flip S · ADJOINT_BIT)) ns, Inv p.1 = true ∧ isSumOp p.1 = false := by
      apply sumFlatten_members (P := fun y => Inv y = true ∧ isSumOp y = false)
      intro y hy
      exact ⟨fun hns => ⟨hInvm y hy, hns⟩, fun l' ns' hl' z hz => by
        have := hInvm y hy; rw [hl'] at this; exact Inv_sum l' ns' this z hz⟩
    have hP : Fresh (fun y : Op K (X → K) => Inv y = true ∧ isSumOp y = false) :=
      ⟨fun _ _ _ => by simp [Inv, isSumOp], fun _ _ _ => by simp [Inv, isSumOp], fun _ _ => by simp [Inv, isSumOp]⟩
    have hres := sumSimplify_pres isReal re blocks leaf _ hP 63 (mkSumU S 63) (l.map (OpAlgebra.flip S · ADJOINT_BIT)) ns
      (fun p hp => ⟨hflatInv p hp, Inv_okS p.1 (hflatInv p hp).1⟩)
    rw [mkSumU_sound isReal re blocks leaf hre 63 _ ns s hs2 (fun p hp => Inv_okS p.1 (hflatInv p hp).1)
      (fun o heq => Inv_opnd o (hres (o, true) (by rw [heq]; simp)).1),
      den_sum_ssum]
    apply ssum_zip_map
    intro y hy
    exact flip_sound isReal re blocks leaf hre y 1 (by decide) (Inv_goodF y (hm y hy).1) s hs
  · have hc' : isSumOp x = false := by simpa using hc
    rw [adjointOf_nonsum isReal re blocks leaf x hc']
    exact ⟨flip_sound isReal re blocks leaf hre x 1 (by decide) (Inv_goodF x hx) s hs,
      flip_Inv isReal re blocks leaf hre x 1 (by decide) hx⟩


/-- SandwichOperator.make (second part) for any bun satisfying the shape invariant, sums included (then in the two modes a sum
    advertises); the result satisfies the invariant again -/
theorem sandwichCore_sound2 (hre : ∀ c, isReal c = true → re c = c) (bun cheese r : Op K (X → K))
    (h : sandwichCore S bun cheese = .ok r) (hbI : Inv bun = true) (hcI : Inv cheese = true) :
    Inv r = true ∧ ∀ s, s < 4 → (isSumOp bun = true → s < 2) →
      den S r (1 <<< s) = mprod (revOf s) [den S bun (1 <<< (s ^^^ 1)), den S cheese (1 <<< s), den S bun (1 <<< s)] := by
  have hbo := Inv_opnd bun hbI
  have hco := Inv_opnd cheese hcI
  unfold sandwichCore at h
  split at h
  · rename_i d c dt
    have hk : (msem isReal re blocks leaf).keq ((msem isReal re blocks leaf).kabs2 c) (msem isReal re blocks leaf).kone =
        decide (c * star c = 1) := rfl
    rw [hk] at h
    have hprod : ∀ s, s < 4 → mprod (revOf s) [den S (Op.scaling d c dt) (1 <<< (s ^^^ 1)), den S cheese (1 <<< s),
        den S (Op.scaling d c dt) (1 <<< s)] = modeScalar (c * star c) s • den S cheese (1 <<< s) := by
      intro s hs
      rw [den_scaling isReal re blocks leaf d c dt _ (xor_lt4 s hs 1 (by decide)), den_scaling isReal re blocks leaf d c dt s hs,
        modeScalar_xor1 c s hs, modeScalar_mul _ _ s hs]
      simp only [mprod_cons, mprod_nil]
      cases revOf s <;> simp [smul_smul, mul_comm]
    by_cases hf : c * star c = 1
    · simp only [hf, decide_true, if_true] at h
      injection h with h; subst h
      refine ⟨hcI, fun s hs _ => ?_⟩
      rw [hprod s hs, hf, modeScalar_one s hs, one_smul]
    · have : decide (c * star c = 1) = false := by simpa using hf
      simp only [this, Bool.false_eq_true, if_false] at h
      split at h
      · rename_i op hop
        injection h with h; subst h
        refine ⟨by simpa [Inv] using scale_Inv isReal re blocks leaf hre cheese op _ hop hcI, fun s hs _ => ?_⟩
        rw [den_sandwich, hprod s hs]
        exact scale_sound isReal re blocks leaf hre cheese op _ hop hco s hs
      · cases h
  · split at h
    · cases h
    · rename_i t ht
      split at h
      · rename_i op hop
        injection h with h; subst h
        have hadjI : Inv (adjointOf S bun) = true := by
          by_cases hc : isSumOp bun = true
          · exact (adjointOf_sound isReal re blocks leaf hre bun hbI 0 (by decide) (fun _ => by decide)).2
          · exact (adjointOf_sound isReal re blocks leaf hre bun hbI 0 (by decide) (fun h' => absurd h' hc)).2
        have htI := matmul_Inv isReal re blocks leaf hre _ _ _ ht hadjI hcI
        refine ⟨by simpa [Inv] using matmul_Inv isReal re blocks leaf hre _ _ _ hop htI hbI, fun s hs hsum => ?_⟩
        rw [den_sandwich]
        have hadj := (adjointOf_sound isReal re blocks leaf hre bun hbI s hs hsum).1
        obtain ⟨ht1, ht2⟩ := matmul_sound isReal re blocks leaf hre _ _ _ ht (Inv_opnd _ hadjI) hco s hs
        rw [(matmul_sound isReal re blocks leaf hre _ _ _ hop ht2 hbo s hs).1, ht1, hadj]
        simp only [mprod_cons, mprod_nil]
        cases revOf s <;> simp [Matrix.mul_assoc]
      · cases h


/-! #### scripts: the property's rule, the matrix expression, and `tree_sound` -/

/-- the property's own rule for "mode `s` is required/advertised" on construction scripts (sums: forward and adjoint only) -/
def ReqE : Expr K (X → K) → Nat → Bool
  | .leaf _ c _ _, s => (c &&& (1 <<< s)) != 0
  | .scaling _ _ _, _ => true
  | .diag _ _ _, _ => true
  | .null _ _, s => (s &&& 2) == 0
  | .add a b, s => ((s &&& 2) == 0) && ReqE a s && ReqE b s
  | .sub a b, s => ((s &&& 2) == 0) && ReqE a s && ReqE b s
  | .matmul a b, s => ReqE a s && ReqE b s
  | .adjoint a, s => ReqE a (s ^^^ 1)
  | .inverse a, s => ReqE a (s ^^^ 2)
  | .neg a, s => ReqE a s
  | .scale a _, s => ReqE a s
  | .sandwich bun ch _, s => ReqE bun (s ^^^ 1) && ReqE ch s && ReqE bun s
  | .sandwichNone bun _, s => ReqE bun (s ^^^ 1) && ReqE bun s
  | _, _ => false

theorem sumRooted_lt (e : Expr K (X → K)) (h : sumRooted e = true) (s : Nat) (hs : s < 4) (hr : ReqE e s = true) : s < 2 := by
  fun_induction sumRooted e generalizing s with
  | case1 a b =>
    simp only [ReqE, Bool.and_eq_true, beq_iff_eq] at hr
    have h2 : s &&& 2 = 0 := hr.1.1
    clear hr
    interval_cases s <;> simp_all
  | case2 a b =>
    simp only [ReqE, Bool.and_eq_true, beq_iff_eq] at hr
    have h2 : s &&& 2 = 0 := hr.1.1
    clear hr
    interval_cases s <;> simp_all
  | case3 a ih =>
    have := ih h (s ^^^ 1) (xor_lt4 s hs 1 (by decide)) (by simpa [ReqE] using hr)
    clear hr ih h
    interval_cases s <;> simp_all
  | case4 e h1 h2 h3 => simp at h

/-- the matrix expression of a script, mode by mode (`leaf id m`: the given dense action of library leaf `id` in mode `m`) -/
noncomputable def spec : Expr K (X → K) → Nat → Matrix X X K
  | .leaf id _ _ _, s => leaf id (1 <<< s)
  | .scaling _ c _, s => modeScalar c s • (1 : Matrix X X K)
  | .diag _ d _, s => Matrix.diagonal (modeDiag d s)
  | .null _ _, _ => 0
  | .add a b, s => spec a s + spec b s
  | .sub a b, s => spec a s + - spec b s
  | .matmul a b, s => mprod (revOf s) [spec a s, spec b s]
  | .adjoint a, s => spec a (s ^^^ 1)
  | .inverse a, s => spec a (s ^^^ 2)
  | .neg a, s => modeScalar (-1 : K) s • spec a s
  | .scale a c, s => modeScalar c s • spec a s
  | .sandwich bun ch _, s => mprod (revOf s) [spec bun (s ^^^ 1), spec ch s, spec bun s]
  | .sandwichNone bun _, s => mprod (revOf s) [spec bun (s ^^^ 1), 1, spec bun s]
  | _, _ => 0

theorem mkSum_pair (hre : ∀ c, isReal c = true → re c = c) (x y o : Op K (X → K)) (n : Bool)
    (h : mkSum S [x, y] [false, n] = .ok o) (hx : Inv x = true) (hy : Inv y = true) :
    Inv o = true ∧ ∀ s, s < 2 →
      den S o (1 <<< s) = den S x (1 <<< s) + (if n then - den S y (1 <<< s) else den S y (1 <<< s)) := by
  have ho : o = mkSumU S FUEL [x, y] [false, n] := by
    unfold mkSum at h
    simp only [List.isEmpty_cons, Bool.false_eq_true, if_false, List.length_cons, List.length_nil, bne_self_eq_false,
      List.head?_cons] at h
    split at h
    · injection h with h; exact h.symm
    · cases h
  subst ho
  have hF : FUEL = 63 + 1 := rfl
  have hall : ∀ z ∈ [x, y], Inv z = true := by
    intro z hz; simp only [List.mem_cons, List.not_mem_nil, or_false] at hz
    rcases hz with rfl | rfl
    · exact hx
    · exact hy
  rw [hF]
  refine ⟨mkSumU_Inv isReal re blocks leaf hre 63 _ _ hall, fun s hs => ?_⟩
  have hflatInv : ∀ p ∈ sumFlatten [x, y] [false, n], Inv p.1 = true ∧ isSumOp p.1 = false := by
    apply sumFlatten_members (P := fun y => Inv y = true ∧ isSumOp y = false)
    intro z hz
    exact ⟨fun hns => ⟨hall z hz, hns⟩, fun l' ns' hl' w hw => by
      have := hall z hz; rw [hl'] at this; exact Inv_sum l' ns' this w hw⟩
  have hP : Fresh (fun y : Op K (X → K) => Inv y = true ∧ isSumOp y = false) :=
    ⟨fun _ _ _ => by simp [Inv, isSumOp], fun _ _ _ => by simp [Inv, isSumOp], fun _ _ => by simp [Inv, isSumOp]⟩
  have hres := sumSimplify_pres isReal re blocks leaf _ hP 63 (mkSumU S 63) [x, y] [false, n]
    (fun p hp => ⟨hflatInv p hp, Inv_okS p.1 (hflatInv p hp).1⟩)
  rw [mkSumU_sound isReal re blocks leaf hre 63 _ _ s hs (fun p hp => Inv_okS p.1 (hflatInv p hp).1)
    (fun o' heq => Inv_opnd o' (hres (o', true) (by rw [heq]; simp)).1)]
  simp [ssum_cons, ssum_nil]


/-- **C01 for expression trees** (`tree_sound`): every operator that the constructors build from a script of library leaves with
    `+ - @ .adjoint .inverse -x x.scale(c) SandwichOperator.make` (scripts covered by `treeOK`) satisfies the shape invariant, and in
    every mode the script's constituents provide (`ReqE`: the property's rule) it acts exactly as the matrix expression `spec` -/
theorem tree_sound (hre : ∀ c, isReal c = true → re c = c) (e : Expr K (X → K)) :
    ∀ o, build S e = .ok o → treeOK S e = true →
      Inv o = true ∧ ∀ s, s < 4 → ReqE e s = true → den S o (1 <<< s) = spec leaf e s := by
  induction e using treeOK.induct with
  | case1 id cap dom tgt =>
    intro o hb _
    rw [build] at hb; injection hb with hb; subst hb
    exact ⟨by simp [Inv], fun s _ _ => by simp [den, msem, spec]⟩
  | case2 dom c dt =>
    intro o hb _
    rw [build] at hb; injection hb with hb; subst hb
    exact ⟨by simp [Inv], fun s hs _ => by rw [den_scaling isReal re blocks leaf dom c dt s hs]; simp [spec]⟩
  | case3 dom d dt =>
    intro o hb _
    rw [build] at hb; injection hb with hb; subst hb
    exact ⟨by simp [Inv], fun s hs _ => by
      rw [den_diag isReal re blocks leaf dom d 0 dt s (by decide) hs]; simp [spec]⟩
  | case4 dom tgt =>
    intro o hb _
    rw [build] at hb; injection hb with hb; subst hb
    exact ⟨by simp [Inv], fun s _ _ => by rw [den_null]; simp [spec]⟩
  | case5 a b iha ihb =>
    intro o hb hok
    simp only [treeOK, Bool.and_eq_true] at hok
    rw [build] at hb
    split at hb
    · rename_i x y hx hy
      obtain ⟨ix, dx⟩ := iha x hx hok.1
      obtain ⟨iy, dy⟩ := ihb y hy hok.2
      obtain ⟨io, dd⟩ := mkSum_pair isReal re blocks leaf hre x y o false hb ix iy
      refine ⟨io, fun s hs hr => ?_⟩
      simp only [ReqE, Bool.and_eq_true, beq_iff_eq] at hr
      have hs2 : s < 2 := by have h2 := hr.1.1; clear hr dd dx dy; interval_cases s <;> simp_all
      rw [dd s hs2, dx s hs hr.1.2, dy s hs hr.2]
      simp [spec]
    · cases hb
    · cases hb
  | case6 a b iha ihb =>
    intro o hb hok
    simp only [treeOK, Bool.and_eq_true] at hok
    rw [build] at hb
    split at hb
    · rename_i x y hx hy
      obtain ⟨ix, dx⟩ := iha x hx hok.1
      obtain ⟨iy, dy⟩ := ihb y hy hok.2
      obtain ⟨io, dd⟩ := mkSum_pair isReal re blocks leaf hre x y o true hb ix iy
      refine ⟨io, fun s hs hr => ?_⟩
      simp only [ReqE, Bool.and_eq_true, beq_iff_eq] at hr
      have hs2 : s < 2 := by have h2 := hr.1.1; clear hr dd dx dy; interval_cases s <;> simp_all
      rw [dd s hs2, dx s hs hr.1.2, dy s hs hr.2]
      simp [spec]
    · cases hb
    · cases hb
  | case7 a b iha ihb =>
    intro o hb hok
    simp only [treeOK, Bool.and_eq_true] at hok
    rw [build] at hb
    split at hb
    · rename_i x y hx hy
      obtain ⟨ix, dx⟩ := iha x hx hok.1
      obtain ⟨iy, dy⟩ := ihb y hy hok.2
      refine ⟨matmul_Inv isReal re blocks leaf hre x y o hb ix iy, fun s hs hr => ?_⟩
      simp only [ReqE, Bool.and_eq_true] at hr
      rw [(matmul_sound isReal re blocks leaf hre x y o hb (Inv_opnd x ix) (Inv_opnd y iy) s hs).1, dx s hs hr.1, dy s hs hr.2]
      simp [spec]
    · cases hb
    · cases hb
  | case8 a iha =>
    intro o hb hok
    simp only [treeOK, Bool.and_eq_true] at hok
    rw [build] at hb
    split at hb
    · rename_i x hx
      injection hb with hb; subst hb
      obtain ⟨ix, dx⟩ := iha x hx hok.1
      have hcond := hok.2
      rw [hx] at hcond
      simp only [Bool.or_eq_true, Bool.not_eq_true'] at hcond
      refine ⟨(adjointOf_sound isReal re blocks leaf hre x ix 0 (by decide) (fun _ => by decide)).2, fun s hs hr => ?_⟩
      simp only [ReqE] at hr
      have hx1 : s ^^^ 1 < 4 := xor_lt4 s hs 1 (by decide)
      have hsum : isSumOp x = true → s < 2 := by
        intro hsx
        rcases hcond with h | h
        · rw [hsx] at h; cases h
        · have := sumRooted_lt a h (s ^^^ 1) hx1 hr
          clear hr dx; interval_cases s <;> simp_all
      rw [(adjointOf_sound isReal re blocks leaf hre x ix s hs hsum).1, dx (s ^^^ 1) hx1 hr]
      simp [spec]
    · cases hb
  | case9 a iha =>
    intro o hb hok
    simp only [treeOK] at hok
    rw [build] at hb
    split at hb
    · rename_i x hx
      split at hb
      · cases hb
      · injection hb with hb; subst hb
        obtain ⟨ix, dx⟩ := iha x hx hok
        refine ⟨flip_Inv isReal re blocks leaf hre x 2 (by decide) ix, fun s hs hr => ?_⟩
        simp only [ReqE] at hr
        have hx2 : s ^^^ 2 < 4 := xor_lt4 s hs 2 (by decide)
        have := flip_sound isReal re blocks leaf hre x 2 (by decide) (Inv_goodF x ix) s hs
        unfold inverseOf
        rw [show INVERSE_BIT = 2 from rfl, this, dx (s ^^^ 2) hx2 hr]
        simp [spec]
    · cases hb
  | case10 a iha =>
    intro o hb hok
    simp only [treeOK] at hok
    rw [build] at hb
    split at hb
    · rename_i x hx
      obtain ⟨ix, dx⟩ := iha x hx hok
      refine ⟨scale_Inv isReal re blocks leaf hre x o _ hb ix, fun s hs hr => ?_⟩
      simp only [ReqE] at hr
      rw [scale_sound isReal re blocks leaf hre x o _ hb (Inv_opnd x ix) s hs, dx s hs hr]
      rfl
    · cases hb
  | case11 a c iha =>
    intro o hb hok
    simp only [treeOK] at hok
    rw [build] at hb
    split at hb
    · rename_i x hx
      obtain ⟨ix, dx⟩ := iha x hx hok
      refine ⟨scale_Inv isReal re blocks leaf hre x o _ hb ix, fun s hs hr => ?_⟩
      simp only [ReqE] at hr
      rw [scale_sound isReal re blocks leaf hre x o _ hb (Inv_opnd x ix) s hs, dx s hs hr]
      simp [spec]
    · cases hb
  | case12 bun ch dt ihb ihc =>
    intro o hb hok
    simp only [treeOK, Bool.and_eq_true] at hok
    rw [build] at hb
    split at hb
    · rename_i xb xc hxb hxc
      obtain ⟨ib, db⟩ := ihb xb hxb hok.1.1.1
      obtain ⟨ic, dc⟩ := ihc xc hxc hok.1.1.2
      have hcb := hok.1.2
      have hcc := hok.2
      rw [hxb] at hcb
      rw [hxc] at hcc
      simp only [Bool.or_eq_true, Bool.not_eq_true'] at hcb hcc
      have hcore : sandwichCore S xb xc = .ok o := by
        unfold mkSandwich sandwichArgs at hb
        cases xc <;> first | (simp [isSandwichOp] at hcc; done) | (simpa using hb)
      obtain ⟨io, dd⟩ := sandwichCore_sound2 isReal re blocks leaf hre xb xc o hcore ib ic
      refine ⟨io, fun s hs hr => ?_⟩
      simp only [ReqE, Bool.and_eq_true] at hr
      have hx1 : s ^^^ 1 < 4 := xor_lt4 s hs 1 (by decide)
      have hsum : isSumOp xb = true → s < 2 := by
        intro hsx
        rcases hcb with h | h
        · rw [hsx] at h; cases h
        · exact sumRooted_lt bun h s hs hr.2
      rw [dd s hs hsum, db (s ^^^ 1) hx1 hr.1.1, dc s hs hr.1.2, db s hs hr.2]
      simp [spec]
    · cases hb
    · cases hb
  | case13 bun dt ihb =>
    intro o hb hok
    simp only [treeOK, Bool.and_eq_true] at hok
    rw [build] at hb
    split at hb
    · rename_i xb hxb
      obtain ⟨ib, db⟩ := ihb xb hxb hok.1
      have hcb := hok.2
      rw [hxb] at hcb
      simp only [Bool.or_eq_true, Bool.not_eq_true'] at hcb
      have hcore : sandwichCore S xb (Op.scaling (tgt xb) (msem isReal re blocks leaf).kone dt) = .ok o := by
        unfold mkSandwich sandwichArgs at hb
        simpa using hb
      obtain ⟨io, dd⟩ := sandwichCore_sound2 isReal re blocks leaf hre xb _ o hcore ib (by simp [Inv])
      refine ⟨io, fun s hs hr => ?_⟩
      simp only [ReqE, Bool.and_eq_true] at hr
      have hx1 : s ^^^ 1 < 4 := xor_lt4 s hs 1 (by decide)
      have hsum : isSumOp xb = true → s < 2 := by
        intro hsx
        rcases hcb with h | h
        · rw [hsx] at h; cases h
        · exact sumRooted_lt bun h s hs hr.2
      have hone : den S (Op.scaling (tgt xb) (msem isReal re blocks leaf).kone dt : Op K (X → K)) (1 <<< s) = 1 :=
        isIdentity_den isReal re blocks leaf _ (by simp [isIdentity, msem]) _
      rw [dd s hs hsum, db (s ^^^ 1) hx1 hr.1, hone, db s hs hr.2]
      simp [spec]
    · cases hb
  | case14 t h1 h2 h3 h4 h5 h6 h7 h8 h9 h10 h11 h12 h13 =>
    intro o _ hok
    cases t with
    | leaf a b c d => exact (h1 _ _ _ _ rfl).elim
    | scaling a b c => exact (h2 _ _ _ rfl).elim
    | diag a b c => exact (h3 _ _ _ rfl).elim
    | null a b => exact (h4 _ _ rfl).elim
    | add a b => exact (h5 _ _ rfl).elim
    | sub a b => exact (h6 _ _ rfl).elim
    | matmul a b => exact (h7 _ _ rfl).elim
    | adjoint a => exact (h8 _ rfl).elim
    | inverse a => exact (h9 _ rfl).elim
    | neg a => exact (h10 _ rfl).elim
    | scale a c => exact (h11 _ _ rfl).elim
    | sandwich a b c => exact (h12 _ _ _ rfl).elim
    | sandwichNone a b => exact (h13 _ _ rfl).elim
    | invEnabler a => simp [treeOK] at hok
    | block a b c => simp [treeOK] at hok
    | missing => simp [treeOK] at hok

/-- non-vacuity of `tree_sound`: `c·(L₀⁻¹ @ (D − L₁))` is a covered script, and it requires TIMES when `L₀` provides it -/
example (d : X → K) (c : K) :
    let e : Expr K (X → K) := Expr.scale (Expr.matmul (Expr.inverse (Expr.leaf 0 15 0 0))
      (Expr.sub (Expr.diag 0 d 0) (Expr.leaf 1 3 0 0))) c
    treeOK S e = true ∧ ReqE e 0 = true ∧ ReqE e 2 = false := by
  simp [treeOK, ReqE]

/-- non-vacuity of the hypotheses of `mkChainU_sound`: a diagonal with pending adjoint, a nested chain with a scaling, a leaf -/
example : (∀ o ∈ chainFlatten [Op.diag 0 (fun _ : Fin 2 => (2 : ℚ)) 1 0, Op.chain [Op.scaling 0 (3 : ℚ) 0, Op.leaf 7 15 0 0]],
    okC o = true) ∧
    (∀ o ∈ [Op.diag 0 (fun _ : Fin 2 => (2 : ℚ)) 1 0, Op.chain [Op.scaling 0 (3 : ℚ) 0, Op.leaf 7 15 0 0]],
      ∀ l, o = Op.chain l → l ≠ []) := by
  constructor
  · simp [chainFlatten, okC, diagOK, isBlock, isChainOp]
  · intro o ho l hl
    simp only [List.mem_cons, List.not_mem_nil, or_false] at ho
    rcases ho with rfl | rfl
    · cases hl
    · injection hl with hl; subst hl; simp

/-! ### Part 10 — block-diagonal operands (`_combine_sum`, `_combine_chain`) -/

/-- sign of a summand -/
def sg {R : Type} [Neg R] (n : Bool) (x : R) : R := if n then -x else x

/-- the block-diagonal embedding is additive and multiplicative entry by entry.  Every coordinate projection `l ↦ l[i]` satisfies
    this (`blockHom_proj`), and a block-diagonal operator is determined by its projections, so the theorems below say: every block
    of the combined operator is the sum / product of the corresponding blocks. -/
structure BlockHom : Prop where
  add : ∀ dm (a b : List (Matrix X X K)) (na nb : Bool), a.length = b.length →
    blocks dm (List.zipWith (fun x y => sg na x + sg nb y) a b) = sg na (blocks dm a) + sg nb (blocks dm b)
  mul : ∀ dm (a b : List (Matrix X X K)), a.length = b.length →
    blocks dm (List.zipWith (fun x y => x * y) a b) = blocks dm a * blocks dm b

/-- non-vacuity: the projection onto block `i` (zero outside the key list) is a `BlockHom` -/
theorem blockHom_proj (i : Nat) : BlockHom (X := X) (K := K) (fun _ l => l.getD i 0) := by
  constructor
  · intro _ a b na nb h
    simp only [List.getD_eq_getElem?_getD, List.getElem?_zipWith]
    by_cases hi : i < a.length
    · have hi' : i < b.length := h ▸ hi
      simp [List.getElem?_eq_getElem hi, List.getElem?_eq_getElem hi']
    · have hi' : ¬ i < b.length := h ▸ hi
      simp [List.getElem?_eq_none (Nat.le_of_not_lt hi), List.getElem?_eq_none (Nat.le_of_not_lt hi')]
      cases na <;> cases nb <;> simp [sg]
  · intro _ a b h
    simp only [List.getD_eq_getElem?_getD, List.getElem?_zipWith]
    by_cases hi : i < a.length
    · have hi' : i < b.length := h ▸ hi
      simp [List.getElem?_eq_getElem hi, List.getElem?_eq_getElem hi']
    · have hi' : ¬ i < b.length := h ▸ hi
      simp [List.getElem?_eq_none (Nat.le_of_not_lt hi), List.getElem?_eq_none (Nat.le_of_not_lt hi')]

theorem den_blockdiag (dm : Nat) (ents : List (Op K (X → K))) (m : Nat) :
    den S (Op.blockdiag dm ents) m = blocks dm (ents.map (den S · m)) := by
  rw [den]; rfl

/-- the identity entry that `_combine_sum` substitutes for a missing key acts as the identity in every mode -/
theorem den_unitEntry (v : Op K (X → K)) (s : Nat) (hs : s < 4) :
    den S (unitEntry S v) (1 <<< s) = den S v (1 <<< s) := by
  cases v <;> try rfl
  rename_i d
  rw [den_idEntry, unitEntry]
  have : (S).kone = (1 : K) := rfl
  rw [this, den_scaling isReal re blocks leaf d 1 0 s hs]
  have : modeScalar (1 : K) s = 1 := by
    interval_cases s <;> simp [modeScalar]
  rw [this, one_smul]

/-- **`BlockDiagonalOperator._combine_sum` (repaired).**  If the entry-wise `SumOperator.make` is sound on the (unit-completed)
    entry pairs, the combined block operator is the signed sum of the two block operators in mode `s`. -/
theorem combineSum_sound (hB : BlockHom blocks) (mk : List (Op K (X → K)) → List Bool → Op K (X → K))
    (dm : Nat) (e1 e2 : List (Op K (X → K))) (n1 n2 : Bool) (s : Nat) (hs : s < 4) (hlen : e1.length = e2.length)
    (hmk : ∀ p ∈ e1.zip e2, den S (mk [unitEntry S p.1, unitEntry S p.2] [n1, n2]) (1 <<< s) =
      sg n1 (den S (unitEntry S p.1) (1 <<< s)) + sg n2 (den S (unitEntry S p.2) (1 <<< s))) :
    den S (combineSum S mk dm e1 e2 n1 n2) (1 <<< s) =
      sg n1 (den S (Op.blockdiag dm e1) (1 <<< s)) + sg n2 (den S (Op.blockdiag dm e2) (1 <<< s)) := by
  rw [combineSum, den_blockdiag, den_blockdiag, den_blockdiag, ← hB.add dm _ _ n1 n2 (by simpa using hlen)]
  congr 1
  rw [List.map_map, List.zipWith_map, ← List.map_uncurry_zip_eq_zipWith]
  apply List.map_congr_left
  intro p hp
  simp only [Function.comp, Function.uncurry]
  rw [hmk p hp, den_unitEntry isReal re blocks leaf p.1 s hs, den_unitEntry isReal re blocks leaf p.2 s hs]

/-- two-operand `SumOperator.make` on invariant operands, any signs, any fuel -/
theorem mkSumU_pair_sound (hre : ∀ c, isReal c = true → re c = c) (fuel : Nat) (x y : Op K (X → K)) (n1 n2 : Bool)
    (hx : Inv x = true) (hy : Inv y = true) :
    Inv (mkSumU S (fuel + 1) [x, y] [n1, n2]) = true ∧ ∀ s, s < 2 →
      den S (mkSumU S (fuel + 1) [x, y] [n1, n2]) (1 <<< s) = sg n1 (den S x (1 <<< s)) + sg n2 (den S y (1 <<< s)) := by
  have hall : ∀ z ∈ [x, y], Inv z = true := by
    intro z hz; simp only [List.mem_cons, List.not_mem_nil, or_false] at hz
    rcases hz with rfl | rfl
    · exact hx
    · exact hy
  refine ⟨mkSumU_Inv isReal re blocks leaf hre fuel _ _ hall, fun s hs => ?_⟩
  have hflatInv : ∀ p ∈ sumFlatten [x, y] [n1, n2], Inv p.1 = true ∧ isSumOp p.1 = false := by
    apply sumFlatten_members (P := fun y => Inv y = true ∧ isSumOp y = false)
    intro z hz
    exact ⟨fun hns => ⟨hall z hz, hns⟩, fun l' ns' hl' w hw => by
      have := hall z hz; rw [hl'] at this; exact Inv_sum l' ns' this w hw⟩
  have hP : Fresh (fun y : Op K (X → K) => Inv y = true ∧ isSumOp y = false) :=
    ⟨fun _ _ _ => by simp [Inv, isSumOp], fun _ _ _ => by simp [Inv, isSumOp], fun _ _ => by simp [Inv, isSumOp]⟩
  have hres := sumSimplify_pres isReal re blocks leaf _ hP fuel (mkSumU S fuel) [x, y] [n1, n2]
    (fun p hp => ⟨hflatInv p hp, Inv_okS p.1 (hflatInv p hp).1⟩)
  rw [mkSumU_sound isReal re blocks leaf hre fuel _ _ s hs (fun p hp => Inv_okS p.1 (hflatInv p hp).1)
    (fun o' heq => Inv_opnd o' (hres (o', true) (by rw [heq]; simp)).1)]
  cases n1 <;> cases n2 <;> simp [ssum_cons, ssum_nil, sg]

/-- **a key missing in both operands**: the combined entry is `SumOperator.make` of two identity scalings; its action is
    `±1 ± 1` — twice the identity for `P1 + P2`, zero for `P1 − P2`, never "still missing" (= the identity). -/
theorem combineSum_missing_missing (hre : ∀ c, isReal c = true → re c = c) (fuel d1 d2 : Nat) (n1 n2 : Bool) (s : Nat) (hs : s < 2) :
    den S (mkSumU S (fuel + 1) [unitEntry S (Op.idEntry d1), unitEntry S (Op.idEntry d2)] [n1, n2]) (1 <<< s) =
      sg n1 (1 : Matrix X X K) + sg n2 1 := by
  have h := (mkSumU_pair_sound isReal re blocks leaf hre fuel (unitEntry S (Op.idEntry d1)) (unitEntry S (Op.idEntry d2)) n1 n2
    (by simp [unitEntry, Inv]) (by simp [unitEntry, Inv])).2 s hs
  rw [h, den_unitEntry isReal re blocks leaf _ s (by omega), den_unitEntry isReal re blocks leaf _ s (by omega), den_idEntry,
    den_idEntry]

/-- an entry of a block-diagonal operand: a missing key or an invariant (block-free) operator -/
def EInv (v : Op K (X → K)) : Bool := match v with | .idEntry _ => true | v => Inv v

theorem Inv_unitEntry (v : Op K (X → K)) (h : EInv v = true) : Inv (unitEntry S v) = true := by
  cases v <;> simp_all [EInv, unitEntry, Inv]

/-- **`_combine_sum` with the verified `SumOperator.make`**: for block operands whose entries are missing keys or invariant
    operators, over the same key list, the combined operator is the signed sum in both sum modes, and its entries are invariant
    operators again (so that the step can be iterated). -/
theorem combineSum_mkSumU_sound (hB : BlockHom blocks) (hre : ∀ c, isReal c = true → re c = c) (fuel : Nat)
    (dm : Nat) (e1 e2 : List (Op K (X → K))) (n1 n2 : Bool) (hlen : e1.length = e2.length)
    (h1 : ∀ v ∈ e1, EInv v = true) (h2 : ∀ v ∈ e2, EInv v = true) :
    (∃ e, combineSum S (mkSumU S (fuel + 1)) dm e1 e2 n1 n2 = Op.blockdiag dm e ∧ e.length = e1.length ∧ ∀ v ∈ e, Inv v = true) ∧
    ∀ s, s < 2 → den S (combineSum S (mkSumU S (fuel + 1)) dm e1 e2 n1 n2) (1 <<< s) =
      sg n1 (den S (Op.blockdiag dm e1) (1 <<< s)) + sg n2 (den S (Op.blockdiag dm e2) (1 <<< s)) := by
  have hp : ∀ p ∈ e1.zip e2, Inv (unitEntry S p.1) = true ∧ Inv (unitEntry S p.2) = true := fun p hp =>
    ⟨Inv_unitEntry isReal re blocks leaf _ (h1 _ (List.of_mem_zip hp).1), Inv_unitEntry isReal re blocks leaf _ (h2 _ (List.of_mem_zip hp).2)⟩
  refine ⟨⟨_, rfl, by simp [hlen], ?_⟩, fun s hs => ?_⟩
  · intro v hv
    simp only [List.mem_map] at hv
    obtain ⟨p, hpm, rfl⟩ := hv
    exact (mkSumU_pair_sound isReal re blocks leaf hre fuel _ _ n1 n2 (hp p hpm).1 (hp p hpm).2).1
  · exact combineSum_sound isReal re blocks leaf hB _ dm e1 e2 n1 n2 s (by omega) hlen (fun p hpm =>
      (mkSumU_pair_sound isReal re blocks leaf hre fuel _ _ n1 n2 (hp p hpm).1 (hp p hpm).2).2 s hs)

/-- well-formed block operand over a key list of length `L`: entries are missing keys or invariant operators -/
def BlkOK (dm L : Nat) (o : Op K (X → K)) : Prop :=
  ∀ dm' e, o = Op.blockdiag dm' e → dm' = dm ∧ e.length = L ∧ ∀ v ∈ e, EInv v = true

theorem sumMergeBlocksInner_sound (hB : BlockHom blocks) (hre : ∀ c, isReal c = true → re c = c) (fuel f dm0 L : Nat)
    (mk : List (Op K (X → K)) → List Bool → Op K (X → K)) (hmk : mk = mkSumU S (f + 1))
    (acc : Op K (X → K)) (accneg : Bool) (l : List (Op K (X → K) × Bool))
    (hacc : BlkOK dm0 L acc) (hl : ∀ p ∈ l, BlkOK dm0 L p.1) :
    BlkOK dm0 L (sumMergeBlocksInner S fuel mk acc accneg l).1 ∧
    (∀ p ∈ (sumMergeBlocksInner S fuel mk acc accneg l).2.2, p ∈ l) ∧
    ∀ s, s < 2 →
      sg (sumMergeBlocksInner S fuel mk acc accneg l).2.1 (den S (sumMergeBlocksInner S fuel mk acc accneg l).1 (1 <<< s)) +
          ssum isReal re blocks leaf (sumMergeBlocksInner S fuel mk acc accneg l).2.2 s =
        sg accneg (den S acc (1 <<< s)) + ssum isReal re blocks leaf l s := by
  induction l generalizing acc accneg with
  | nil => simp [sumMergeBlocksInner, hacc, ssum_nil]
  | cons hd tl ih =>
    obtain ⟨p, pn⟩ := hd
    unfold sumMergeBlocksInner
    split
    · rename_i dm e1 dm2 e2
      obtain ⟨hd1, hL1, hE1⟩ := hacc dm e1 rfl
      obtain ⟨hd2, hL2, hE2⟩ := hl (Op.blockdiag dm2 e2, pn) (by simp) dm2 e2 rfl
      subst hmk hd1 hd2
      obtain ⟨⟨e, he, helen, heInv⟩, hden⟩ := combineSum_mkSumU_sound isReal re blocks leaf hB hre f dm2 e1 e2 accneg pn
        (hL1.trans hL2.symm) hE1 hE2
      have hacc' : BlkOK dm2 L (combineSum S (mkSumU S (f + 1)) dm2 e1 e2 accneg pn) := by
        intro dm' e' h'
        rw [he] at h'
        injection h' with hdm h'
        subst h'
        refine ⟨hdm.symm, helen.trans hL1, fun v hv => ?_⟩
        have := heInv v hv
        cases v <;> simp_all [EInv]
      obtain ⟨a1, a2, a3⟩ := ih (combineSum S (mkSumU S (f + 1)) dm2 e1 e2 accneg pn) false hacc'
        (fun q hq => hl q (by simp [hq]))
      refine ⟨a1, fun q hq => by simp [a2 q hq], fun s hs => ?_⟩
      rw [a3 s hs, hden s hs, ssum_cons]
      simp only [sg, Bool.false_eq_true, if_false]
      abel
    · obtain ⟨a1, a2, a3⟩ := ih acc accneg hacc (fun q hq => hl q (by simp [hq]))
      refine ⟨a1, fun q hq => ?_, fun s hs => ?_⟩
      · simp only [List.mem_cons] at hq ⊢
        rcases hq with rfl | hq
        · exact Or.inl rfl
        · exact Or.inr (a2 q hq)
      · simp only [ssum_cons]
        have := a3 s hs
        rw [add_left_comm, this, add_left_comm]

/-- **the block-merging pass of `SumOperator.simplify`** (`_combine_sum` applied to every pair of block-diagonal operands):
    the signed sum is unchanged in both sum modes -/
theorem sumMergeBlocks_sound (hB : BlockHom blocks) (hre : ∀ c, isReal c = true → re c = c) (fuel f dm0 L : Nat)
    (mk : List (Op K (X → K)) → List Bool → Op K (X → K)) (hmk : mk = mkSumU S (f + 1))
    (l : List (Op K (X → K) × Bool)) (hl : ∀ p ∈ l, BlkOK dm0 L p.1) (s : Nat) (hs : s < 2) :
    ssum isReal re blocks leaf (sumMergeBlocks S fuel mk l) s = ssum isReal re blocks leaf l s := by
  fun_induction sumMergeBlocks S fuel mk l with
  | case1 => rfl
  | case2 o n rest ho r ih =>
    obtain ⟨a1, a2, a3⟩ := sumMergeBlocksInner_sound isReal re blocks leaf hB hre fuel f dm0 L mk hmk o n rest
      (hl (o, n) (by simp)) (fun q hq => hl q (by simp [hq]))
    rw [ssum_cons, ih (fun q hq => hl q (by simp [a2 q hq])), ssum_cons]
    have := a3 s hs
    simp only [sg] at this
    exact this
  | case3 o n rest ho ih =>
    rw [ssum_cons, ssum_cons, ih (fun q hq => hl q (by simp [hq]))]

theorem Inv_EInv (v : Op K (X → K)) (h : Inv v = true) : EInv v = true := by
  cases v <;> simp_all [EInv, Inv]

/-- one entry of `_combine_chain` (repaired) with the verified `ChainOperator.make`: a missing key is the identity -/
theorem combineChainEntry_sound (hre : ∀ c, isReal c = true → re c = c) (f : Nat) (v1 v2 : Op K (X → K))
    (h1 : EInv v1 = true) (h2 : EInv v2 = true) (s : Nat) (hs : s < 4) :
    EInv (combineChainEntry S (mkChainU S (f + 1)) v1 v2) = true ∧
    den S (combineChainEntry S (mkChainU S (f + 1)) v1 v2) (1 <<< s) =
      mprod (revOf s) [den S v1 (1 <<< s), den S v2 (1 <<< s)] := by
  unfold combineChainEntry
  split
  · refine ⟨h2, ?_⟩
    rw [den_idEntry, mprod_cons, mprod_singleton]; cases revOf s <;> simp
  · refine ⟨h1, ?_⟩
    rw [den_idEntry, mprod_cons, mprod_singleton]; cases revOf s <;> simp
  · rename_i hn1 hn2
    have hI1 : Inv v1 = true := by cases v1 <;> simp_all [EInv]
    have hI2 : Inv v2 = true := by cases v2 <;> simp_all [EInv]
    split
    · rename_i hid
      refine ⟨h2, ?_⟩
      rw [isIdentity_den isReal re blocks leaf v1 hid, mprod_cons, mprod_singleton]; cases revOf s <;> simp
    · split
      · rename_i hid
        refine ⟨h1, ?_⟩
        rw [isIdentity_den isReal re blocks leaf v2 hid, mprod_cons, mprod_singleton]; cases revOf s <;> simp
      · have hall : ∀ x ∈ [v1, v2], Inv x = true := by
          intro x hx; simp only [List.mem_cons, List.not_mem_nil, or_false] at hx
          rcases hx with rfl | rfl
          · exact hI1
          · exact hI2
        obtain ⟨hne, hok⟩ := opnd_list [v1, v2] (fun x hx => Inv_opnd x (hall x hx))
        refine ⟨Inv_EInv _ (mkChainU_Inv isReal re blocks leaf hre f [v1, v2] (by simp) hall), ?_⟩
        rw [mkChainU_sound isReal re blocks leaf hre f [v1, v2] s hs (by simp) hne hok]
        rfl

/-- **`BlockDiagonalOperator._combine_chain` (repaired)**: the combined operator is the product of the two block operators in
    every mode (in reversed order for the two adjoint-like modes), and it is again a well-formed block operand -/
theorem combineChain_sound (hB : BlockHom blocks) (hre : ∀ c, isReal c = true → re c = c) (f dm : Nat)
    (e1 e2 : List (Op K (X → K))) (hlen : e1.length = e2.length)
    (h1 : ∀ v ∈ e1, EInv v = true) (h2 : ∀ v ∈ e2, EInv v = true) :
    BlkOK dm e1.length (combineChain S (mkChainU S (f + 1)) dm e1 e2) ∧
    ∀ s, s < 4 → den S (combineChain S (mkChainU S (f + 1)) dm e1 e2) (1 <<< s) =
      mprod (revOf s) [den S (Op.blockdiag dm e1) (1 <<< s), den S (Op.blockdiag dm e2) (1 <<< s)] := by
  constructor
  · intro dm' e' h'
    rw [combineChain] at h'
    injection h' with hdm h'
    subst h'
    refine ⟨hdm.symm, by simp [hlen], fun v hv => ?_⟩
    simp only [List.mem_map] at hv
    obtain ⟨p, hp, rfl⟩ := hv
    exact (combineChainEntry_sound isReal re blocks leaf hre f p.1 p.2 (h1 _ (List.of_mem_zip hp).1) (h2 _ (List.of_mem_zip hp).2)
      0 (by decide)).1
  · intro s hs
    have hent : (List.map (fun x => den S x (1 <<< s)) ((e1.zip e2).map fun p => combineChainEntry S (mkChainU S (f + 1)) p.1 p.2)) =
        List.zipWith (fun x y => mprod (revOf s) [x, y]) (e1.map (den S · (1 <<< s))) (e2.map (den S · (1 <<< s))) := by
      rw [List.map_map, List.zipWith_map, ← List.map_uncurry_zip_eq_zipWith]
      apply List.map_congr_left
      intro p hp
      simp only [Function.comp, Function.uncurry]
      exact (combineChainEntry_sound isReal re blocks leaf hre f p.1 p.2 (h1 _ (List.of_mem_zip hp).1) (h2 _ (List.of_mem_zip hp).2)
        s hs).2
    rw [combineChain, den_blockdiag, den_blockdiag, den_blockdiag, hent, mprod_cons, mprod_singleton]
    have hfalse : (fun x y : Matrix X X K => mprod false [x, y]) = fun x y => x * y := by
      funext x y; simp [mprod_cons, mprod_nil]
    have htrue : (fun x y : Matrix X X K => mprod true [x, y]) = fun x y => y * x := by
      funext x y; simp [mprod_cons, mprod_nil]
    cases revOf s
    · simp only [Bool.false_eq_true, if_false]
      rw [hfalse]
      exact hB.mul dm _ _ (by simpa using hlen)
    · simp only [if_true]
      rw [htrue, List.zipWith_comm]
      exact hB.mul dm _ _ (by simpa using hlen.symm)

/-- **the block-merging pass of `ChainOperator.simplify`**: adjacent block-diagonal operands over the same keys are combined entry
    by entry; the ordered product is unchanged in all four modes -/
theorem chainMergeBlock_sound (hB : BlockHom blocks) (hre : ∀ c, isReal c = true → re c = c) (f dm0 L : Nat)
    (l : List (Op K (X → K))) (hl : ∀ o ∈ l, BlkOK dm0 L o) (s : Nat) (hs : s < 4) :
    mprod (revOf s) ((chainMergeBlock S (mkChainU S (f + 1)) l).map (den S · (1 <<< s))) =
      mprod (revOf s) (l.map (den S · (1 <<< s))) := by
  have aux : ∀ (l acc : List (Op K (X → K))), (∀ o ∈ acc, BlkOK dm0 L o) → (∀ o ∈ l, BlkOK dm0 L o) →
      mprod (revOf s) (((l.foldl (chainMergeBlockStep S (mkChainU S (f + 1))) acc).reverse).map (den S · (1 <<< s))) =
        mprod (revOf s) ((acc.reverse ++ l).map (den S · (1 <<< s))) := by
    intro l
    induction l with
    | nil => intro acc _ _; simp
    | cons op tl ih =>
      intro acc hacc hl
      rw [List.foldl_cons]
      have hstep : (∀ o ∈ chainMergeBlockStep S (mkChainU S (f + 1)) acc op, BlkOK dm0 L o) ∧
          mprod (revOf s) (((chainMergeBlockStep S (mkChainU S (f + 1)) acc op).reverse ++ tl).map (den S · (1 <<< s))) =
            mprod (revOf s) ((acc.reverse ++ op :: tl).map (den S · (1 <<< s))) := by
        unfold chainMergeBlockStep
        split
        · rename_i dm e1 accs dm2 e2
          obtain ⟨hd1, hL1, hE1⟩ := hacc (Op.blockdiag dm e1) (by simp) dm e1 rfl
          obtain ⟨hd2, hL2, hE2⟩ := hl (Op.blockdiag dm2 e2) (by simp) dm2 e2 rfl
          obtain ⟨hb, hden⟩ := combineChain_sound isReal re blocks leaf hB hre f dm e1 e2 (hL1.trans hL2.symm) hE1 hE2
          constructor
          · intro o ho
            simp only [List.mem_cons] at ho
            rcases ho with rfl | ho
            · rw [hL1] at hb; rw [← hd1]; exact hb
            · exact hacc o (by simp [ho])
          · simp only [List.reverse_cons, List.append_assoc, List.map_append, List.map_cons, List.map_nil,
              List.singleton_append, List.cons_append, List.nil_append]
            rw [hden s hs, hd1, hd2]
            simp only [mprod_append, mprod_cons, mprod_nil]
            cases revOf s <;> simp [mul_assoc]
        · constructor
          · intro o ho
            simp only [List.mem_cons] at ho
            rcases ho with rfl | ho
            · exact hl o (by simp)
            · exact hacc o ho
          · simp
      rw [ih _ hstep.1 (fun o ho => hl o (by simp [ho])), hstep.2]
  unfold chainMergeBlock
  simpa using aux l [] (by simp) hl

/-- non-vacuity: two block operands over two keys in which the SAME key is missing on both sides are well-formed, and the verified
    `_combine_sum` turns that key into `1 + 1` -/
example : BlkOK (X := Fin 2) (K := ℚ) 5 2 (Op.blockdiag 5 [Op.idEntry 0, Op.leaf 3 15 1 1]) ∧
    sg false (1 : Matrix (Fin 2) (Fin 2) ℚ) + sg false 1 = 2 := by
  constructor
  · intro dm' e' h
    injection h with h1 h2
    subst h2
    exact ⟨h1.symm, rfl, by simp [EInv, Inv]⟩
  · simp [sg]; norm_num

end matrix

end NiftyVerif.C01
