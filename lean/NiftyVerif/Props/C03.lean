/-
  C03 (parts ii, iii) — the forward-mode rules of `Linearization` and of `_OpChain/_OpProd/_OpSum`, contractions,
  key insertion/extraction, energies, and the metric, on the executable model `Model/Expr.lean`
  (tied to the code by differential execution on generated operator trees, harness/props/c03.py).

  Obligations (harness/props/c03.py):
    ptw_table_hasDerivAt  every table entry, dispatched as the model dispatches it, has the table's derivative
    lin_val               value carried by the linearization = plain evaluation               (all K, all trees)
    lin_hasDerivAt        along EVERY differentiable curve γ through ρ with velocity h, each entry of `eval e (γ t)`
                          has derivative `((lin e ρ wm).jac h)` at t = 0   (Hadamard/Fréchet derivative, K = ℝ)
    jac_adjoint           ⟨y, J h⟩ = ⟨Jᵀ y, h⟩ for the composed TIMES / ADJOINT_TIMES
    metric_carried        metric (f ∘ g) = Jgᵀ · metric f · Jg ;  metric_sum: metrics of summed energies add
-/
import NiftyVerif.Model.Expr
import NiftyVerif.Props.C03Ptw
import NiftyVerif.Props.C03Sinc
import NiftyVerif.Lemmas.ExprCalc
import NiftyVerif.Lemmas.ExprAdj

set_option linter.unusedSimpArgs false
set_option linter.unusedSectionVars false
namespace NiftyVerif.C03
open NiftyVerif NiftyVerif.Gen.Ptw NiftyVerif.Expr NiftyVerif.TranscReal

/-- valid argument range of a table entry (with its parameters); `False` for ill-formed parameter lists -/
def PtwValid : Fn → List ℝ → ℝ → Prop
  | .sqrt, [], x => 0 < x
  | .sin, [], _ => True
  | .cos, [], _ => True
  | .tan, [], x => Real.cos x ≠ 0
  | .sinc, [], _ => True
  | .exp, [], _ => True
  | .expm1, [], _ => True
  | .log, [], x => 0 < x
  | .log10, [], x => 0 < x
  | .log1p, [], x => -1 < x
  | .sinh, [], _ => True
  | .cosh, [], _ => True
  | .tanh, [], _ => True
  | .sigmoid, [], _ => True
  | .reciprocal, [], x => x ≠ 0
  | .abs, [], x => x ≠ 0
  | .absolute, [], x => x ≠ 0
  | .sign, [], x => x ≠ 0
  | .power, [_], x => 0 < x
  | .clip, [a, b], x => a < b ∧ x ≠ a ∧ x ≠ b
  | .softplus, [], x => x ≠ -33 ∧ x ≠ 33
  | .exponentiate, [b], _ => 0 < b
  | .arctan, [], _ => True
  | .unitstep, [], x => x ≠ 0
  | _, _, _ => False

theorem ptw_hasDerivAt_clip (x a b : ℝ) (h : a < b ∧ x ≠ a ∧ x ≠ b) :
    HasDerivAt (fun v => val_clip v a b) (der_clip x a b) x := by
  obtain ⟨hab, h1, h2⟩ := h
  rcases lt_or_gt_of_ne h1 with h1 | h1
  · exact ptw_hasDerivAt_clip_below x a b hab h1
  · rcases lt_or_gt_of_ne h2 with h2 | h2
    · exact ptw_hasDerivAt_clip_inside x a b h1 h2
    · exact ptw_hasDerivAt_clip_above x a b hab h2

theorem ptw_hasDerivAt_softplus (x : ℝ) (h : x ≠ -33 ∧ x ≠ 33) :
    HasDerivAt (fun v => val_softplus v) (der_softplus x) x := by
  obtain ⟨h1, h2⟩ := h
  rcases lt_or_gt_of_ne h1 with h1 | h1
  · exact ptw_hasDerivAt_softplus_low x h1
  · rcases lt_or_gt_of_ne h2 with h2 | h2
    · exact ptw_hasDerivAt_softplus_mid x h1 h2
    · exact ptw_hasDerivAt_softplus_high x h2

theorem ptw_hasDerivAt_sinc_all (x : ℝ) : HasDerivAt (fun v => val_sinc v) (der_sinc x) x := by
  by_cases h : x = 0
  · subst h; exact ptw_hasDerivAt_sinc_zero
  · exact ptw_hasDerivAt_sinc x h

/-- the table as the model dispatches it (`Fn.val`, `Fn.der`): every entry has the table's derivative on its range -/
theorem ptw_table_hasDerivAt (f : Fn) (p : List ℝ) (x : ℝ) (h : PtwValid f p x) :
    HasDerivAt (fun v => f.val p v) (f.der p x) x := by
  cases f <;> rcases p with _ | ⟨a, _ | ⟨b, _ | ⟨c, l⟩⟩⟩ <;> simp only [PtwValid] at h <;>
    simp only [Fn.val, Fn.der] <;>
    first
    | exact ptw_hasDerivAt_sqrt x h | exact ptw_hasDerivAt_sin x | exact ptw_hasDerivAt_cos x
    | exact ptw_hasDerivAt_tan x h | exact ptw_hasDerivAt_sinc_all x | exact ptw_hasDerivAt_exp x
    | exact ptw_hasDerivAt_expm1 x | exact ptw_hasDerivAt_log x h | exact ptw_hasDerivAt_log10 x h
    | exact ptw_hasDerivAt_log1p x h | exact ptw_hasDerivAt_sinh x | exact ptw_hasDerivAt_cosh x
    | exact ptw_hasDerivAt_tanh x | exact ptw_hasDerivAt_sigmoid x | exact ptw_hasDerivAt_reciprocal x h
    | exact ptw_hasDerivAt_abs x h | exact ptw_hasDerivAt_absolute x h | exact ptw_hasDerivAt_sign x h
    | exact ptw_hasDerivAt_power x a h | exact ptw_hasDerivAt_clip x a b h | exact ptw_hasDerivAt_softplus x h
    | exact ptw_hasDerivAt_exponentiate x a h | exact ptw_hasDerivAt_arctan x | exact ptw_hasDerivAt_unitstep x h

/-! ### value carried by the linearization = plain evaluation -/

section linval
variable {K : Type} [Zero K] [Add K] [Sub K] [Mul K] [Div K] [Neg K] [OfScientific K]
  [LT K] [DecidableLT K] [LE K] [DecidableLE K] [Transc K] [Conj K]

theorem fn_hval_eq_val (f : Fn) (p : List K) (v : K) : f.hval p v = f.val p v := by
  cases f <;> rcases p with _ | ⟨a, _ | ⟨b, _ | ⟨c, l⟩⟩⟩ <;> rfl

/-- evaluating on a linearization returns the same value as plain evaluation: all trees, all inputs, both flags,
    every number type -/
theorem lin_val (e : Ex K) : ∀ (ρ : MVal K) (wm : Bool), (lin e ρ wm).val = eval e ρ := by
  induction e with
  | var k n => intro ρ wm; rfl
  | add a b iha ihb => intro ρ wm; simp only [lin, eval, iha, ihb]
  | sub a b iha ihb => intro ρ wm; simp only [lin, eval, iha, ihb]
  | mul a b iha ihb => intro ρ wm; simp only [lin, eval, iha, ihb]
  | scale c a iha => intro ρ wm; simp only [lin, eval, iha]
  | addc c neg a iha => intro ρ wm; simp only [lin, eval, iha]
  | mulc d a iha => intro ρ wm; simp only [lin, eval, iha]
  | ptw f p a iha => intro ρ wm; simp only [lin, eval, iha, fn_hval_eq_val]
  | lin m n rows a iha => intro ρ wm; simp only [lin, eval, iha]
  | sum a iha => intro ρ wm; simp only [lin, eval, iha]
  | vdot a b iha ihb => intro ρ wm; simp only [lin, eval, iha, ihb]
  | getKey k a iha => intro ρ wm; simp only [lin, eval, iha]
  | putKey k a iha => intro ρ wm; simp only [lin, eval, iha]
  | chain f g ihf ihg => intro ρ wm; simp only [lin, eval, ihf, ihg]
  | sqnorm a iha => intro ρ wm; simp only [lin, eval, iha]
  | quad d a iha => intro ρ wm; simp only [lin, eval, iha]
  | gauss data icov a iha => intro ρ wm; simp only [lin, eval, iha]
  | const en d v => intro ρ wm; rfl
  | bil m na nb T a b iha ihb => intro ρ wm; simp only [lin, eval, iha, ihb]
  | varcov n a b iha ihb => intro ρ wm; simp only [lin, eval, iha, ihb]
end linval

/-! ### the Jacobian is the true derivative -/

/-- every point-wise function in the tree is applied inside its valid range (at the in-domain entries) -/
def Valid : Ex ℝ → MVal ℝ → Prop
  | .var _ _, _ => True
  | .add a b, ρ => Valid a ρ ∧ Valid b ρ
  | .sub a b, ρ => Valid a ρ ∧ Valid b ρ
  | .mul a b, ρ => Valid a ρ ∧ Valid b ρ
  | .scale _ a, ρ => Valid a ρ
  | .addc _ _ a, ρ => Valid a ρ
  | .mulc _ a, ρ => Valid a ρ
  | .ptw f p a, ρ => Valid a ρ ∧ ∀ k i, a.dom.has k i = true → PtwValid f p (eval a ρ k i)
  | .lin _ _ _ a, ρ => Valid a ρ
  | .sum a, ρ => Valid a ρ
  | .vdot a b, ρ => Valid a ρ ∧ Valid b ρ
  | .getKey _ a, ρ => Valid a ρ
  | .putKey _ a, ρ => Valid a ρ
  | .chain f g, ρ => Valid g ρ ∧ Valid f (eval g ρ)
  | .sqnorm a, ρ => Valid a ρ
  | .quad _ a, ρ => Valid a ρ
  | .gauss _ _ a, ρ => Valid a ρ
  | .const _ _ _, _ => True
  | .bil _ _ _ _ a b, ρ => Valid a ρ ∧ Valid b ρ
  | .varcov n a b, ρ => Valid a ρ ∧ Valid b ρ ∧ ∀ j, j < n → 0 < eval b ρ "" j

/-- **Jacobian = true derivative.**  For every expression tree `e`, every differentiable curve `γ` in the input
    space (any multi-domain) with velocity `h` at `t = 0`, and every output entry `(k, i)`, the function
    `t ↦ eval e (γ t) k i` has derivative `((lin e (γ 0) wm).jac h) k i` at 0 — i.e. the composed Jacobian operator
    of the linearization, applied to `h`, is the derivative of plain evaluation along every curve (in particular every
    directional derivative; in finite dimension this is the Fréchet derivative). -/
theorem lin_hasDerivAt (e : Ex ℝ) (wm : Bool) :
    ∀ (γ : ℝ → MVal ℝ) (h : MVal ℝ), (∀ k i, HasDerivAt (fun t => γ t k i) (h k i) 0) → Valid e (γ 0) →
      ∀ k i, HasDerivAt (fun t => eval e (γ t) k i) ((lin e (γ 0) wm).jac h k i) 0 := by
  induction e with
  | var k n =>
    intro γ h hγ _ k' i
    simp only [eval, lin, single]
    by_cases hk : k' = ""
    · simp only [hk, if_true]; exact hγ k i
    · simp only [hk, if_false]; exact hasDerivAt_const _ _
  | add a b iha ihb =>
    intro γ h hγ hv k i
    simp only [eval, lin]
    exact (iha γ h hγ hv.1 k i).add (ihb γ h hγ hv.2 k i)
  | sub a b iha ihb =>
    intro γ h hγ hv k i
    simp only [eval, lin]
    exact (iha γ h hγ hv.1 k i).sub (ihb γ h hγ hv.2 k i)
  | mul a b iha ihb =>
    intro γ h hγ hv k i
    simp only [eval, lin, lin_val]
    refine HasDerivAt.congr_deriv ((iha γ h hγ hv.1 k i).mul (ihb γ h hγ hv.2 k i)) ?_
    ring
  | scale c a iha =>
    intro γ h hγ hv k i
    simp only [eval, lin]
    exact (iha γ h hγ hv k i).const_mul c
  | addc c neg a iha =>
    intro γ h hγ hv k i
    simp only [eval, lin, mask]
    by_cases hd : a.dom.has k i = true
    · simp only [hd, if_true]
      cases neg
      · simpa using (iha γ h hγ hv k i).add_const (ofList c i)
      · simpa using (iha γ h hγ hv k i).sub_const (ofList c i)
    · simp only [hd]; exact hasDerivAt_const _ _
  | mulc d a iha =>
    intro γ h hγ hv k i
    simp only [eval, lin]
    exact (iha γ h hγ hv k i).const_mul (ofList d i)
  | ptw f p a iha =>
    intro γ h hγ hv k i
    simp only [eval, lin, mask, lin_val]
    by_cases hd : a.dom.has k i = true
    · simp only [hd, if_true]
      have h1 := ptw_table_hasDerivAt f p (eval a (γ 0) k i) (hv.2 k i hd)
      have h2 := iha γ h hγ hv.1 k i
      exact HasDerivAt.comp (h₂ := fun v => f.val p v) (h := fun t => eval a (γ t) k i) 0 h1 h2
    · simp only [hd]; exact hasDerivAt_const _ _
  | lin m n rows a iha =>
    intro γ h hγ hv k i
    simp only [eval, lin, single]
    by_cases hk : k = ""
    · simp only [hk, if_true]
      by_cases hi : i < m
      · simp only [hi, if_true]
        exact hasDerivAt_rsum n _ _ 0 (fun j => (iha γ h hγ hv "" j).const_mul (mat rows i j))
      · simp only [hi, if_false]; exact hasDerivAt_const _ _
    · simp only [hk, if_false]; exact hasDerivAt_const _ _
  | sum a iha =>
    intro γ h hγ hv k i
    simp only [eval, lin, single]
    by_cases hk : k = ""
    · simp only [hk, if_true]
      by_cases hi : i = 0
      · simp only [hi, if_true]
        exact hasDerivAt_dsum a.dom _ _ 0 (fun k j => iha γ h hγ hv k j)
      · simp only [hi, if_false]; exact hasDerivAt_const _ _
    · simp only [hk, if_false]; exact hasDerivAt_const _ _
  | vdot a b iha ihb =>
    intro γ h hγ hv k i
    simp only [eval, lin, single, lin_val]
    by_cases hk : k = ""
    · simp only [hk, if_true]
      by_cases hi : i = 0
      · simp only [hi, if_true]
        refine HasDerivAt.congr_deriv (hasDerivAt_dsum a.dom _ _ 0
          (fun k j => (iha γ h hγ hv.1 k j).mul (ihb γ h hγ hv.2 k j))) ?_
        rw [← dsum_add]
        congr 1; funext k j; ring
      · simp only [hi, if_false]; exact hasDerivAt_const _ _
    · simp only [hk, if_false]; exact hasDerivAt_const _ _
  | getKey k0 a iha =>
    intro γ h hγ hv k i
    simp only [eval, lin, single]
    by_cases hk : k = ""
    · simp only [hk, if_true]; exact iha γ h hγ hv k0 i
    · simp only [hk, if_false]; exact hasDerivAt_const _ _
  | putKey k0 a iha =>
    intro γ h hγ hv k i
    simp only [eval, lin]
    by_cases hk : k = k0
    · simp only [hk, if_true]; exact iha γ h hγ hv "" i
    · simp only [hk, if_false]; exact hasDerivAt_const _ _
  | chain f g ihf ihg =>
    intro γ h hγ hv k i
    simp only [eval, lin, lin_val]
    have hg := ihg γ h hγ hv.1
    exact ihf (fun t => eval g (γ t)) ((lin g (γ 0) wm).jac h) hg hv.2 k i
  | sqnorm a iha =>
    intro γ h hγ hv k i
    simp only [eval, lin, single, lin_val]
    by_cases hk : k = ""
    · simp only [hk, if_true]
      by_cases hi : i = 0
      · simp only [hi, if_true]
        refine HasDerivAt.congr_deriv (hasDerivAt_dsum a.dom _ _ 0
          (fun k j => (iha γ h hγ hv k j).mul (iha γ h hγ hv k j))) ?_
        congr 1; funext k j; simp only [sci_2]; ring
      · simp only [hi, if_false]; exact hasDerivAt_const _ _
    · simp only [hk, if_false]; exact hasDerivAt_const _ _
  | quad d a iha =>
    intro γ h hγ hv k i
    simp only [eval, lin, single, lin_val]
    by_cases hk : k = ""
    · simp only [hk, if_true]
      by_cases hi : i = 0
      · simp only [hi, if_true]
        refine HasDerivAt.congr_deriv ((hasDerivAt_dsum a.dom _ _ 0
          (fun k j => (iha γ h hγ hv k j).mul ((iha γ h hγ hv k j).const_mul (ofList d j)))).const_mul (0.5 : ℝ)) ?_
        rw [← dsum_mul_left]
        congr 1; funext k j; simp only [sci_half]; ring
      · simp only [hi, if_false]; exact hasDerivAt_const _ _
    · simp only [hk, if_false]; exact hasDerivAt_const _ _
  | gauss data icov a iha =>
    intro γ h hγ hv k i
    simp only [eval, lin, single, lin_val]
    by_cases hk : k = ""
    · simp only [hk, if_true]
      by_cases hi : i = 0
      · simp only [hi, if_true]
        refine HasDerivAt.congr_deriv ((hasDerivAt_dsum a.dom _ _ 0
          (fun k j => ((iha γ h hγ hv k j).sub_const (ofList data j)).mul
            (((iha γ h hγ hv k j).sub_const (ofList data j)).const_mul (ofList icov j)))).const_mul (0.5 : ℝ)) ?_
        rw [← dsum_mul_left]
        congr 1; funext k j; simp only [sci_half]; ring
      · simp only [hi, if_false]; exact hasDerivAt_const _ _
    · simp only [hk, if_false]; exact hasDerivAt_const _ _
  | const en d v =>
    intro γ h hγ hv k i
    simp only [eval, lin]
    exact hasDerivAt_const _ _
  | bil m na nb T a b iha ihb =>
    intro γ h hγ hv k o
    simp only [eval, lin, single, lin_val]
    by_cases hk : k = ""
    · simp only [hk, if_true]
      by_cases ho : o < m
      · simp only [ho, if_true]
        exact hasDerivAt_rsum na _ _ 0 (fun i => hasDerivAt_rsum nb _ _ 0 (fun j =>
          ((iha γ h hγ hv.1 "" i).mul (ihb γ h hγ hv.2 "" j)).const_mul (ten T o i j)))
      · simp only [ho, if_false]; exact hasDerivAt_const _ _
    · simp only [hk, if_false]; exact hasDerivAt_const _ _
  | varcov n a b iha ihb =>
    intro γ h hγ hv k i
    simp only [eval, lin, single, lin_val, log_eq]
    by_cases hk : k = ""
    · simp only [hk, if_true]
      by_cases hi : i = 0
      · simp only [hi, if_true]
        have hb : ∀ j, j < n → eval b (γ 0) "" j ≠ 0 := fun j hj => (hv.2.2 j hj).ne'
        have h1 := hasDerivAt_rsum n _ _ 0 (fun j =>
          (iha γ h hγ hv.1 "" j).mul ((iha γ h hγ hv.1 "" j).mul (ihb γ h hγ hv.2.1 "" j)))
        have h2 := hasDerivAt_rsum_lt n (fun j t => Real.log (eval b (γ t) "" j)) _ 0
          (fun j hj => (ihb γ h hγ hv.2.1 "" j).log (hb j hj))
        refine HasDerivAt.congr_deriv ((h1.sub h2).const_mul (0.5 : ℝ)) ?_
        rw [← rsum_sub, ← rsum_mul_left]
        refine rsum_congr n _ _ (fun j hj => ?_)
        have := hb j hj
        simp only [sci_half, Pi.mul_apply]
        field_simp
        ring
      · simp only [hi, if_false]; exact hasDerivAt_const _ _
    · simp only [hk, if_false]; exact hasDerivAt_const _ _

/-! ### the metric is carried through -/

/-- `prepend_jac` sandwiches the metric: for `f ∘ g` the metric is `Jgᵀ · M_f(g ρ) · Jg`, with `Jg`, `Jgᵀ` the
    TIMES / ADJOINT_TIMES of the inner Jacobian; it is present exactly when the outer operator produced one -/
theorem metric_carried {K : Type} [Zero K] [Add K] [Sub K] [Mul K] [Div K] [Neg K] [OfScientific K]
    [LT K] [DecidableLT K] [LE K] [DecidableLE K] [Transc K] [Conj K] (f g : Ex K) (ρ : MVal K) (wm : Bool) :
    (lin (.chain f g) ρ wm).metric =
      ((lin f (eval g ρ) wm).metric).map (fun M h => (lin g ρ wm).adj (M ((lin g ρ wm).jac h))) := by
  simp only [lin, lin_val]

/-- a Gaussian energy on top of any expression: metric `Jᵀ N J` when requested, none otherwise -/
theorem metric_gauss {K : Type} [Zero K] [Add K] [Sub K] [Mul K] [Div K] [Neg K] [OfScientific K]
    [LT K] [DecidableLT K] [LE K] [DecidableLE K] [Transc K] [Conj K] (data icov : List K) (a : Ex K) (ρ : MVal K) :
    (lin (.gauss data icov a) ρ true).metric =
      some (fun h => (lin a ρ true).adj (mask a.dom (fun k j => ofList icov j * (lin a ρ true).jac h k j))) ∧
    (lin (.gauss data icov a) ρ false).metric = none := by
  constructor <;> simp [lin]

/-- `_OpSum`: the metrics of summed energies add (and the sum has a metric only if every summand has one) -/
theorem metric_sum {K : Type} [Zero K] [Add K] [Sub K] [Mul K] [Div K] [Neg K] [OfScientific K]
    [LT K] [DecidableLT K] [LE K] [DecidableLE K] [Transc K] [Conj K] (a b : Ex K) (ρ : MVal K) (wm : Bool)
    (ma mb : MVal K → MVal K) (ha : (lin a ρ wm).metric = some ma) (hb : (lin b ρ wm).metric = some mb) :
    (lin (.add a b) ρ wm).metric = some (fun h k i => ma h k i + mb h k i) := by
  simp only [lin, ha, hb]

/-- `ScalingOperator.__call__`: scaling an energy by a non-negative factor scales its metric by the same factor -/
theorem metric_scale {K : Type} [Zero K] [Add K] [Sub K] [Mul K] [Div K] [Neg K] [OfScientific K]
    [LT K] [DecidableLT K] [LE K] [DecidableLE K] [Transc K] [Conj K] (c : K) (hc : (0 : K) ≤ c) (a : Ex K) (ρ : MVal K)
    (wm : Bool) (M : MVal K → MVal K) (ha : (lin a ρ wm).metric = some M) :
    (lin (.scale c a) ρ wm).metric = some (fun h k i => c * M h k i) := by
  simp only [lin, ha, hc, if_true, Option.map]

theorem metric_sum_none {K : Type} [Zero K] [Add K] [Sub K] [Mul K] [Div K] [Neg K] [OfScientific K]
    [LT K] [DecidableLT K] [LE K] [DecidableLE K] [Transc K] [Conj K] (a b : Ex K) (ρ : MVal K) (wm : Bool)
    (h : (lin a ρ wm).metric = none ∨ (lin b ρ wm).metric = none) :
    (lin (.add a b) ρ wm).metric = none := by
  rcases h with h | h
  · simp only [lin, h]
  · simp only [lin, h]; cases (lin a ρ wm).metric <;> rfl

/-! ### non-vacuity: a concrete tree inside the hypotheses -/

/-- `exp(x_a) * x_b` at `x_a = 0, x_b = 2` along the line `t ↦ (t, 2 + 3t)`: derivative `e^0·2·1 + e^0·3 = 5` -/
example : HasDerivAt (fun t : ℝ => Real.exp t * (2 + 3 * t)) 5 0 := by
  have h := (Real.hasDerivAt_exp (0 : ℝ)).mul (((hasDerivAt_id (0 : ℝ)).const_mul 3).const_add 2)
  refine HasDerivAt.congr_deriv h ?_
  norm_num

example : Valid (.ptw .exp [] (.var "a" 1)) (fun _ _ => 0) := by
  refine ⟨trivial, fun k i _ => ?_⟩
  simp [PtwValid]

example : Valid (.ptw .log [] (.var "a" 1)) (fun _ _ => 1) := by
  refine ⟨trivial, fun k i hd => ?_⟩
  have hk : k = "" := by
    simp [Ex.dom, Dom.has] at hd
    first | exact hd.1.symm | exact hd.1
  subst hk
  simp [PtwValid, eval, single]

end NiftyVerif.C03
