/-
  C36 — Fit-quality diagnostics report the documented statistics.
  Property theorems only; model: Model/Minisanity.lean; lemmas: Lemmas/Minisanity.lean.  Obligations: harness/props/c36.py.
  `K` is any field of characteristic zero (the driver uses `Rat`); `none` = NaN; `kept r` = entries neither NaN nor exactly 0.
-/
import NiftyVerif.Lemmas.Minisanity

namespace NiftyVerif.C36
open NiftyVerif.Minisanity

variable {K : Type} [Field K] [DecidableEq K] [CharZero K]

/-- per-sample reduced χ² (classic) = (Σ over kept entries |r|²) / (number of kept entries); 0 when nothing is kept.
    Zeros contribute nothing to the sum, so excluding them from the sum or not is immaterial — only the count matters. -/
theorem redchisq_sample_spec (r : Res K) :
    clRedchisq r = if (kept r).length = 0 then 0 else sumK ((kept r).map Entry.abs2) / ((kept r).length : K) := by
  have hd := decompose r
  unfold clRedchisq
  rw [guardedDiv_spec, lsize_eq, hd.2.1]
  intro h0
  rw [lsize_eq] at h0
  have : kept r = [] := List.length_eq_zero_iff.1 h0
  rw [hd.2.1, this]; rfl

/-- **reported reduced χ² = average over samples of the mean squared normalised residual over the non-ignored entries** -/
theorem redchisq_spec (samples : List (Res K)) :
    (clReport samples).redchisq = average (samples.map fun r =>
      if (kept r).length = 0 then 0 else sumK ((kept r).map Entry.abs2) / ((kept r).length : K)) := by
  simp only [clReport]
  congr 1
  exact List.map_congr_left (fun r _ => redchisq_sample_spec r)

theorem scmean_sample_spec (r : Res K) :
    (clMeanRe r = if (kept r).length = 0 then 0 else sumK ((kept r).map Entry.re) / ((kept r).length : K)) ∧
    (clMeanIm r = if (kept r).length = 0 then 0 else sumK ((kept r).map Entry.im) / ((kept r).length : K)) := by
  have hd := decompose r
  constructor
  · unfold clMeanRe
    rw [guardedDiv_spec, lsize_eq, hd.2.2.1]
    intro h0; rw [lsize_eq] at h0
    rw [hd.2.2.1, List.length_eq_zero_iff.1 h0]; rfl
  · unfold clMeanIm
    rw [guardedDiv_spec, lsize_eq, hd.2.2.2]
    intro h0; rw [lsize_eq] at h0
    rw [hd.2.2.2, List.length_eq_zero_iff.1 h0]; rfl

/-- **reported mean = average over samples of the mean normalised residual over the non-ignored entries** -/
theorem scmean_spec (samples : List (Res K)) :
    (clReport samples).meanRe = average (samples.map fun r =>
      if (kept r).length = 0 then 0 else sumK ((kept r).map Entry.re) / ((kept r).length : K)) ∧
    (clReport samples).meanIm = average (samples.map fun r =>
      if (kept r).length = 0 then 0 else sumK ((kept r).map Entry.im) / ((kept r).length : K)) := by
  simp only [clReport]
  constructor
  · congr 1; exact List.map_congr_left (fun r _ => (scmean_sample_spec r).1)
  · congr 1; exact List.map_congr_left (fun r _ => (scmean_sample_spec r).2)

/-- **the ignored-entry count is reported separately and the two counts add up to the array size** (they are those of the
    LAST sample: the classic code overwrites them per sample) -/
theorem counts_spec (samples : List (Res K)) (r : Res K) (h : samples.getLast? = some r) :
    (clReport samples).ndof + (clReport samples).nigndof = r.length ∧
    (clReport samples).ndof = (kept r).length ∧ (clReport samples).nigndof = nNan r + nZero r := by
  simp only [clReport, h]
  exact ⟨counts r, lsize_eq r, trivial⟩

/-- everything ignored (only NaNs and exact zeros): χ² and mean are reported as 0 with 0 degrees of freedom -/
theorem all_ignored_case (r : Res K) (h : kept r = []) :
    clRedchisq r = 0 ∧ clMeanRe r = 0 ∧ clMeanIm r = 0 ∧ lsize r = 0 := by
  refine ⟨?_, ?_, ?_, ?_⟩
  · rw [redchisq_sample_spec, h]; simp
  · rw [(scmean_sample_spec r).1, h]; simp
  · rw [(scmean_sample_spec r).2, h]; simp
  · rw [lsize_eq, h]; rfl

/-- clean arrays: no NaN, no exact zero -/
def clean (r : ResRe K) : Prop := ∀ e ∈ r, e.isZero = false

omit [CharZero K] in
theorem kept_of_clean (r : ResRe K) (h : clean r) : kept (r.map some) = r := by
  unfold kept
  rw [List.filterMap_map]
  have : (List.filterMap (id ∘ some) r) = r := by simp
  rw [this, List.filter_eq_self]
  intro e he; simp [h e he]

/-- **classic and JAX agree on clean real residuals**: same per-sample χ² and mean (hence the same sample averages) -/
theorem cl_eq_re_on_clean_real (r : ResRe K) (hc : clean r) (hne : r ≠ []) :
    clRedchisq (r.map some) = reRchisq false r ∧ clMeanRe (r.map some) = reMeanRe r ∧
    clMeanIm (r.map some) = reMeanIm r ∧ lsize (r.map some) = reNdof false r := by
  have hk := kept_of_clean r hc
  have hl : r.length ≠ 0 := fun h => hne (List.length_eq_zero_iff.1 h)
  refine ⟨?_, ?_, ?_, ?_⟩
  · rw [redchisq_sample_spec, hk]; simp [hl, reRchisq, reNdof, reSumSq]
  · rw [(scmean_sample_spec _).1, hk]; simp [hl, reMeanRe]
  · rw [(scmean_sample_spec _).2, hk]; simp [hl, reMeanIm]
  · rw [lsize_eq, hk]; simp [reNdof]

theorem cl_eq_re_reports_on_clean_real (samples : List (ResRe K)) (hc : ∀ r ∈ samples, clean r ∧ r ≠ []) :
    (clReport (samples.map (List.map some))).redchisq = (reReport false samples).rchisq ∧
    (clReport (samples.map (List.map some))).meanRe = (reReport false samples).meanRe := by
  simp only [clReport, reReport, List.map_map, average, List.length_map]
  constructor
  · congr 2; exact List.map_congr_left (fun r hr => (cl_eq_re_on_clean_real r (hc r hr).1 (hc r hr).2).1)
  · congr 2; exact List.map_congr_left (fun r hr => (cl_eq_re_on_clean_real r (hc r hr).1 (hc r hr).2).2.1)

/-- what JAX computes for complex residuals: twice the degrees of freedom, half the χ² of the real convention
    (classic divides |r|² sums by the number of entries) — convention difference ⟂ #15 -/
theorem re_complex_ndof (r : ResRe K) :
    reNdof true r = 2 * reNdof false r ∧ reRchisq true r = reRchisq false r / 2 := by
  constructor
  · simp [reNdof]
  · simp only [reRchisq, reNdof, if_true, Bool.false_eq_true, if_false]
    push_cast
    by_cases h : (r.length : K) = 0
    · simp [h]
    · field_simp

/-- what the two compute when exact zeros are present (no NaN): the same sum, divided by different counts -/
theorem zeros_differ_by_count (r : ResRe K) :
    clRedchisq (r.map some) * (lsize (r.map some) : K) = reRchisq false r * (r.length : K) ∨ lsize (r.map some) = 0 := by
  by_cases h0 : lsize (r.map some) = 0
  · exact Or.inr h0
  · left
    have hs : sumSq (r.map some) = reSumSq r := by
      simp [sumSq, reSumSq, List.filterMap_map]
    have hl : (lsize (r.map some) : K) ≠ 0 := by exact_mod_cast h0
    have hlen : r.length ≠ 0 := by
      intro h; apply h0; simp [lsize, List.length_eq_zero_iff.1 h, nNan, nZero]
    have hlenK : (r.length : K) ≠ 0 := by exact_mod_cast hlen
    simp only [clRedchisq, guardedDiv, h0, and_false, if_false, reRchisq, reNdof, Bool.false_eq_true, hs]
    field_simp

/-- **standard deviations**: the classic table shows the UNBIASED sample standard deviation (StatCalculator, 1/(n-1)), the
    JAX statistics the population one (`jnp.std`, 1/n): on the same per-sample values `(n-1)·var_cl = n·var_re` -/
theorem var_ddof_relation (xs : List K) (hn : 2 ≤ xs.length) :
    ((xs.length - 1 : Nat) : K) * variance 1 xs = (xs.length : K) * variance 0 xs := by
  have h1 : ((xs.length - 1 : Nat) : K) ≠ 0 := by
    have : xs.length - 1 ≠ 0 := by omega
    exact_mod_cast this
  have h0 : (xs.length : K) ≠ 0 := by
    have : xs.length ≠ 0 := by omega
    exact_mod_cast this
  simp only [variance, Nat.sub_zero]
  field_simp

/-- with a single sample the classic report has no standard deviation (StatCalculator raises, the table omits "± …") and
    with two or more it is the unbiased variance of the per-sample values -/
theorem cl_var_spec (samples : List (Res K)) :
    (clReport samples).redchisqVar =
      if samples.length < 2 then none else some (variance 1 (samples.map clRedchisq)) := rfl

/-- classic vs JAX variance of the reduced χ² on clean real residuals -/
theorem cl_re_var_on_clean_real (samples : List (ResRe K)) (hc : ∀ r ∈ samples, clean r ∧ r ≠ []) (hn : 2 ≤ samples.length) :
    ∃ v, (clReport (samples.map (List.map some))).redchisqVar = some v ∧
      ((samples.length - 1 : Nat) : K) * v = (samples.length : K) * (reReport false samples).rchisqVar := by
  have hmap : (samples.map (List.map some)).map clRedchisq = samples.map (reRchisq false) := by
    rw [List.map_map]
    exact List.map_congr_left (fun r hr => (cl_eq_re_on_clean_real r (hc r hr).1 (hc r hr).2).1)
  refine ⟨variance 1 (samples.map (reRchisq false)), ?_, ?_⟩
  · simp only [clReport, List.length_map, hmap]
    have : ¬ samples.length < 2 := by omega
    simp [this]
  · have := var_ddof_relation (samples.map (reRchisq false)) (by simpa using hn)
    simpa [reReport] using this

/-- non-vacuity (Rat): a sample with a NaN, an exact zero and two ordinary entries -/
example : clRedchisq (K := Rat) [none, some ⟨0, 0⟩, some ⟨1, 0⟩, some ⟨3, 0⟩] = 5 ∧
    lsize (K := Rat) [none, some ⟨0, 0⟩, some ⟨1, 0⟩, some ⟨3, 0⟩] = 2 ∧
    reRchisq (K := Rat) false [⟨1, 0⟩, ⟨3, 0⟩] = 5 ∧ reRchisq (K := Rat) true [⟨1, 2⟩, ⟨3, 0⟩] = 7 / 2 := by
  refine ⟨by decide +kernel, by decide +kernel, by decide +kernel, by decide +kernel⟩

end NiftyVerif.C36
