/-
  C08 — Domain geometry is self-consistent and domain identity is canonical.
  Property theorems only (models: Model/Domains.lean, Model/Intern.lean; lemmas: Lemmas/Domains.lean, Lemmas/Intern.lean).
  Obligations are listed in harness/props/c08.py.  `K` is any ordered field (the driver runs `Rat`).
-/
import NiftyVerif.Lemmas.Domains
import NiftyVerif.Lemmas.Intern

namespace NiftyVerif.C08
open NiftyVerif.Domains NiftyVerif.Intern

section geometry
variable {K : Type} [Field K] [LinearOrder K] [IsStrictOrderedRing K]

/-- RGSpace: `total_volume = size * dvol` equals the product of the extents `shape_d * distance_d`, in every dimension -/
theorem rg_volume (shape : List Nat) (dist : List K) (h : shape.length = dist.length) :
    totalVolumeScalar (shape.foldl (· * ·) 1) (prodK dist) = (List.zipWith (fun (n : Nat) d => (n : K) * d) shape dist).prod :=
  Domains.rg_volume shape dist h

/-- uniform volumes agree with per-pixel volumes: the sum of `size` copies of `dvol` is `total_volume` -/
theorem uniform_volume_sum (size : Nat) (dvol : K) : (List.replicate size dvol).sum = totalVolumeScalar size dvol :=
  sum_replicate_dvol size dvol

/-- position and harmonic distances are dual: `hdistance * rdistance * shape = 1` -/
theorem rg_dual_distances (n : Nat) (r : K) (hn : 0 < n) (hr : 0 < r) : hdist n r * r * (n : K) = 1 := rg_dual n r hn hr

/-- HEALPix: `12 nside² * (π / (3 nside²)) = 4π` with `π` any number -/
theorem hp_volume (nside : Nat) (hn : 0 < nside) (pi : K) :
    totalVolumeScalar (hpSize nside) (pi / (3 * (nside : K) * (nside : K))) = 4 * pi := by
  unfold totalVolumeScalar hpSize
  have : (nside : K) ≠ 0 := by exact_mod_cast (by omega : nside ≠ 0)
  push_cast
  field_simp
  ring

end geometry

/-- 1-D harmonic grids: the k-length table `min(i, n-i) * h` takes exactly the values `{0..n/2} * h` of `get_unique_k_lengths` -/
theorem rg_klen_1d_unique (n : Nat) (hn : 0 < n) :
    (∀ i, i < n → foldIdx n i ≤ n / 2) ∧ (∀ j, j ≤ n / 2 → ∃ i, i < n ∧ foldIdx n i = j) :=
  Domains.rg_klen_1d_unique n hn

/-- LMSpace: the array built by the loop of `get_k_length_array` is the documented `(l, m)` layout, for all lmax ≥ mmax -/
theorem lm_l_of_index (lmax mmax : Nat) (h : mmax ≤ lmax) : lmK lmax mmax = lmSpec lmax mmax := lm_layout lmax mmax h

/-- … and its length is `LMSpace.size` -/
theorem lm_size (lmax mmax : Nat) (h : mmax ≤ lmax) : (lmK lmax mmax).length = lmSize lmax mmax := by
  rw [lm_layout lmax mmax h]; exact lmSpec_length lmax mmax h

/-- every `l ≤ lmax` occurs (so the natural binning of an LMSpace has no empty bin) -/
theorem lm_all_l_present (lmax mmax l : Nat) (hl : l ≤ lmax) : l ∈ lmK lmax mmax := by
  unfold lmK
  exact List.mem_append_left _ (List.mem_range.mpr (by omega))

section power
variable {K : Type} [Field K] [LinearOrder K] [IsStrictOrderedRing K]

/-- **pindex_partition**: `pindex` maps every pixel to one bin `< nbin`, the bin counts add up to the number of pixels,
    and bins are ordered by k-length -/
theorem pindex_partition (bounds k : List K) :
    (∀ i ∈ k.map (searchsortedLeft bounds), i < bounds.length + 1) ∧
    (bincount (bounds.length + 1) (k.map (searchsortedLeft bounds))).sum = k.length ∧
    (∀ v w : K, v ≤ w → searchsortedLeft bounds v ≤ searchsortedLeft bounds w) :=
  ⟨pindex_lt bounds k, Domains.pindex_partition bounds k, searchsorted_mono bounds⟩

/-- **power_dvol_sum**: `Σ_b ρ_b * dvol = size * dvol` = total volume of the harmonic partner -/
theorem power_dvol_sum (bounds k : List K) (pdvol : K) :
    ((bincount (bounds.length + 1) (k.map (searchsortedLeft bounds))).map fun (r : Nat) => (r : K) * pdvol).sum =
      totalVolumeScalar k.length pdvol := Domains.power_dvol_sum bounds k pdvol

/-- **power_klen_mean**: `k_b = S_b / ρ_b` is the mean of the member k-lengths (`k_b ρ_b = S_b`) for non-empty bins -/
theorem power_klen_mean (s : K) (r : Nat) (hr : 0 < r) : s / (r : K) * (r : K) = s := Domains.power_klen_mean s r hr

/-- **natural_binning_nonempty**: with bounds at the midpoints of the (strictly increasing) unique k-lengths, the `j`-th
    unique value lands in bin `j`; every unique value being attained by a pixel, no bin is empty -/
theorem natural_binning_nonempty (u : List K) (hs : u.Pairwise (· < ·)) (j : Nat) (hj : j < u.length) :
    searchsortedLeft (midpoints u) u[j] = j := midpoints_count u hs j hj

/-- linear bin bounds (`np.linspace(first, last, nbin-1)`) are strictly increasing, start at `first` and end at `last`;
    logarithmic bounds are their image under the strictly increasing `exp` — so for both, `pindex_partition` applies -/
theorem linear_binbounds_sorted (nbin : Nat) (first last : K) (hn : 3 ≤ nbin) (h : first < last) :
    (linearBounds nbin first last).Pairwise (· < ·) ∧
    (linearBounds nbin first last).head? = some first ∧ (linearBounds nbin first last).getLast? = some last :=
  ⟨linear_bounds_sorted nbin first last hn h, linear_bounds_ends nbin first last hn⟩

theorem log_binbounds_sorted (f : K → K) (hf : StrictMono f) (b : List K) (hb : b.Pairwise (· < ·)) :
    (b.map f).Pairwise (· < ·) := mapped_bounds_sorted f hf b hb

/-- DOFSpace / any non-uniform volume: the total volume is the sum of the pixel volumes, and a bin partition preserves it:
    summing the member volumes bin by bin gives the total (used by DOFDistributor's bin weights) -/
theorem dof_volume_partition (nbin : Nat) (idx : List Nat) (w : List K) (hlen : idx.length = w.length)
    (h : ∀ i ∈ idx, i < nbin) : ((List.range nbin).map fun b =>
      (((List.zip idx w).filter fun p => p.1 == b).map (·.2)).sum).sum = w.sum := by
  induction idx generalizing w with
  | nil => cases w <;> simp_all
  | cons i is_ ih =>
    cases w with
    | nil => simp at hlen
    | cons x xs =>
      have hi := h i List.mem_cons_self
      have ih' := ih xs (by simpa using hlen) (fun j hj => h j (List.mem_cons_of_mem _ hj))
      have e : ((List.range nbin).map fun b => (((List.zip (i :: is_) (x :: xs)).filter fun p => p.1 == b).map (·.2)).sum) =
          List.zipWith (· + ·) ((List.range nbin).map fun b => if i = b then x else 0)
            ((List.range nbin).map fun b => (((List.zip is_ xs).filter fun p => p.1 == b).map (·.2)).sum) := by
        rw [List.zipWith_map_left, List.zipWith_map_right]
        simp only [List.zipWith_self, List.map_map]
        apply List.map_congr_left
        intro b _
        by_cases hb : i = b <;> simp [List.filter_cons, hb]
      rw [e]
      have hz : ∀ (l1 l2 : List K), l1.length = l2.length → (List.zipWith (· + ·) l1 l2).sum = l1.sum + l2.sum := by
        intro l1
        induction l1 with
        | nil => intro l2 h; cases l2 <;> simp_all
        | cons a as iha =>
          intro l2 h
          cases l2 with
          | nil => simp at h
          | cons c cs => simp [iha cs (by simpa using h)]; ring
      rw [hz _ _ (by simp), ih', List.sum_cons]
      congr 1
      have : ∀ n, i < n → ((List.range n).map fun b => if i = b then x else 0).sum = x := by
        intro n
        induction n with
        | zero => intro h; omega
        | succ k ihk =>
          intro hk
          rw [List.range_succ, List.map_append, List.sum_append]
          by_cases hik : i = k
          · subst hik
            have : ((List.range i).map fun b => if i = b then x else 0).sum = 0 := by
              apply List.sum_eq_zero
              intro y hy
              rw [List.mem_map] at hy
              obtain ⟨b, hb, rfl⟩ := hy
              have : i ≠ b := by rw [List.mem_range] at hb; omega
              simp [this]
            simp [this]
          · simp [ihk (by omega), hik]
      exact this nbin hi

end power

section identity
variable {D : Type} [DecidableEq D]

/-- **intern_canonical**: in any history of `make` calls, two results are the identical object iff their descriptions
    are equal -/
theorem intern_canonical (t : List D) (hn : t.Nodup) (d1 d2 : D) (mid : List D) :
    (make t d1).2 = (make (makeAll (make t d1).1 mid).1 d2).2 ↔ d1 = d2 :=
  Intern.intern_canonical t hn d1 d2 mid

/-- **pickle_identity** (and idempotence): `make(desc(obj))` is `obj` and creates nothing -/
theorem pickle_identity (t : List D) (hn : t.Nodup) (i : Nat) (d : D) (h : t[i]? = some d) :
    pickleRoundTrip t i = some (t, i) := Intern.pickle_identity t hn i d h

/-- **multidomain_key_order_irrelevant**: the canonical description of a dict does not depend on the order of its items -/
theorem multidomain_key_order_irrelevant {V : Type} (l1 l2 : List (String × V)) (hp : l1.Perm l2)
    (hn : (l1.map (·.1)).Nodup) : canonKV l1 = canonKV l2 := canonKV_order_irrelevant l1 l2 hp hn

end identity

/-! ### non-vacuity -/
example : lmK 3 2 = [0, 1, 2, 3, 1, 1, 2, 2, 3, 3, 2, 2, 3, 3] := by decide
example : lmSize 3 2 = 14 := by decide
example : midpoints [(0 : Rat), 1, 2, 5] = [1 / 2, 3 / 2, 7 / 2] := by decide +kernel
example : (makeAll ([] : List Nat) [5, 7, 5, 9, 7]).2 = [0, 1, 0, 2, 1] := by decide
example : canonKV [("b", 1), ("a", 2)] = canonKV [("a", 2), ("b", 1)] := by decide

end NiftyVerif.C08
