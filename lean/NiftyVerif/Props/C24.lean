/-
  C24 — The JAX VI driver resumes after a crash with identical results.
  Property theorems only; model: Model/CrashRe.lean (+ Model/CrashFS.lean); lemmas: Lemmas/CrashRe.lean, Lemmas/CrashReInplace.lean, Lemmas/CrashFS.lean.
  Obligations are listed in harness/props/c24.py.

  Reading guide.  `S` is the pair (samples, state); `sys.step` one `OptimizeVI.update`; `iter sys.step n s0` the result of
  the uninterrupted `n`-iteration run.  `run sys proto resume s0 n fs` is one call of `optimize_kl(…, odir, resume)`
  started on directory content `fs`: `.error .unpickle` if loading last.pkl raises, otherwise the file operations it
  performs and the (samples, state) it returns.  `crash fs ops k` is the directory left by a kill after `k` operations;
  writes arrive byte by byte, so kills in the middle of a write (partially written files) are among the crash points.
  `Reach … fs`: `fs` arises from the empty directory by any number of runs, each killed anywhere (or not at all).
  The protocol `.atomic` is the repaired code (fixes/C24_atomic_last_pkl.diff); `.inplace` is the code as found.
-/
import NiftyVerif.Lemmas.CrashRe
import NiftyVerif.Lemmas.CrashReInplace

namespace NiftyVerif.C24
open NiftyVerif.CrashFS NiftyVerif.CrashRe

variable {S : Type}

/-- **A crash never leaves the output directory in a state from which resuming is impossible** (repaired protocol):
    from every reachable directory — any number of kills at any points, including in the middle of writes —
    a start with `resume=True` gets past loading. -/
theorem never_unresumable (sys : Sys S) (hl : Lawful sys) (s0 : S) (h0 : sys.nit s0 = 0) (n : Nat) (fs : FS Path)
    (hr : Reach sys .atomic s0 n fs) : ∃ r, run sys .atomic true s0 n fs = .ok r := by
  obtain ⟨i, _, _, h⟩ := run_of_good hl h0 (reach_good hl h0 hr) .atomic true
  exact ⟨_, h⟩

/-- **…restarting it with resume enabled finishes and yields the same samples and optimisation state as an uninterrupted
    run** (repaired protocol): whatever (samples, state) a run started on a reachable directory returns, it is the
    result `step^n s0` of the uninterrupted run (for either value of `resume`). -/
theorem crash_safe (sys : Sys S) (hl : Lawful sys) (s0 : S) (h0 : sys.nit s0 = 0) (n : Nat) (fs : FS Path)
    (hr : Reach sys .atomic s0 n fs) (resume : Bool) (ops : List (Op Path)) (sf : S)
    (hrun : run sys .atomic resume s0 n fs = .ok (ops, sf)) : sf = iter sys.step n s0 := by
  obtain ⟨i, _, _, h⟩ := run_of_good hl h0 (reach_good hl h0 hr) .atomic resume
  rw [h] at hrun; injection hrun with hrun; injection hrun with _ h2; exact h2.symm

/-- the plain single-crash form of the property: run once from the empty directory, kill after `k` operations (any `k`),
    restart with `resume=True`: it returns exactly what the uninterrupted run returns. -/
theorem crash_safe_single (sys : Sys S) (hl : Lawful sys) (s0 : S) (h0 : sys.nit s0 = 0) (n k : Nat) (r0 : Bool) :
    ∃ ops sf, run sys .atomic r0 s0 n FS.empty = .ok (ops, sf) ∧
      ∃ ops', run sys .atomic true s0 n (crash FS.empty ops k) = .ok (ops', sf) := by
  have hg0 : Good sys s0 n (FS.empty : FS Path) := Or.inl rfl
  obtain ⟨i, _, _, h⟩ := run_of_good hl h0 hg0 .atomic r0
  refine ⟨_, _, h, ?_⟩
  have hr : Reach sys .atomic s0 n (crash FS.empty _ k) := Reach.killed _ r0 _ _ k Reach.fresh h
  obtain ⟨j, _, _, h'⟩ := run_of_good hl h0 (reach_good hl h0 hr) .atomic true
  exact ⟨_, h'⟩

/-- files in odir: after a completed run (n ≥ 1) on a reachable directory, last.pkl is the complete pickle of the final
    (samples, state). -/
theorem final_files (sys : Sys S) (hl : Lawful sys) (s0 : S) (h0 : sys.nit s0 = 0) (n : Nat) (hn : 0 < n) (fs : FS Path)
    (hr : Reach sys .atomic s0 n fs) (resume : Bool) (ops : List (Op Path)) (sf : S)
    (hrun : run sys .atomic resume s0 n fs = .ok (ops, sf)) :
    execs fs ops .last = some (sys.enc (iter sys.step n s0)) := by
  have hg := reach_good hl h0 hr
  obtain ⟨i, hi, hsrc, h⟩ := run_of_good hl h0 hg .atomic resume
  rw [h] at hrun; injection hrun with hrun; injection hrun with h1 _; subst h1
  rw [execs_append]
  rcases Nat.lt_or_ge i n with hlt | hge
  · have := loop_full_last sys (n - i) (iter sys.step i s0) (execs fs (preOps resume)) (by omega)
    rw [this, ← iter_add]; congr 3; omega
  · -- nothing left to do: the final state itself was loaded from a complete last.pkl
    have hin : i = n := by omega
    subst hin
    simp only [Nat.sub_self, loop, execs_nil]
    rw [execs_untouched (preOps resume) Path.last (preOps_untouched resume) fs]
    rcases hsrc with h | h
    · omega
    · exact h

/-- non-vacuity: the concrete system of the driver (`natSys`: state = iteration counter, pickle of `i` = `[i,i,i,255]`) is
    lawful, and a directory left by a kill in the middle of the second pickle write is reachable. -/
theorem natSys_lawful : Lawful natSys :=
  ⟨fun _ => rfl, fun s => by simp [natSys]⟩

def natOps (proto : Proto) (resume : Bool) (n : Nat) : List (Op Path) :=
  preOps resume ++ (loop natSys proto n 0).1

example : Reach natSys .atomic 0 3 (crash FS.empty (natOps .atomic false 3) 25) :=
  Reach.killed _ false _ 3 25 Reach.fresh (by simp [run, load, natSys, natOps, loop_snd, iter])

/-- in that directory (kill after 25 operations = 2 bytes of the second pickle have reached last.pkl.tmp) last.pkl still
    holds the complete first pickle, and the partial temp file is there -/
example : crash FS.empty (natOps .atomic false 3) 25 .last = some [1, 1, 1, 255]
    ∧ crash FS.empty (natOps .atomic false 3) 25 .tmp = some [2, 2] := by decide

/-- **The protocol as found in /repo is not crash safe** (documented witness, replayed on the real code by the check):
    for every lawful system whose pickles are non-empty and self-delimiting and every n ≥ 1 there is a crash point —
    right after `open(last_fn, "wb")` has truncated the file — from which `resume=True` raises while loading. -/
theorem inplace_not_crash_safe (sys : Sys S) (hpf : PrefixFree sys) (hne : ∀ s, sys.enc s ≠ [])
    (s0 : S) (h0 : sys.nit s0 = 0) (n : Nat) (hn : 0 < n) (r0 : Bool) :
    ∃ ops sf k, run sys .inplace r0 s0 n FS.empty = .ok (ops, sf) ∧
      run sys .inplace true s0 n (crash FS.empty ops k) = .error .unpickle := by
  obtain ⟨m, rfl⟩ : ∃ m, n = m + 1 := ⟨n - 1, by omega⟩
  have hload : load sys r0 s0 (FS.empty : FS Path) = .ok s0 := by cases r0 <;> simp [load, FS.empty]
  let A : List (Op Path) := preOps r0 ++ appendFile Path.sanity (sys.msg (sys.step s0)) ++ [Op.openW .last]
  let B : List (Op Path) := Op.wbuf .last :: ((sys.enc (sys.step s0)).map (Op.append .last) ++ [Op.close .last]) ++
    (loop sys .inplace m (sys.step s0)).1
  have hops : preOps r0 ++ (loop sys .inplace (m + 1 - sys.nit s0) s0).1 = A ++ B := by
    simp [A, B, h0, loop, iterOps, savePkl, writeFile, List.append_assoc]
  refine ⟨A ++ B, (loop sys .inplace (m + 1 - sys.nit s0) s0).2, A.length, ?_, ?_⟩
  · simp only [run, hload]; rw [hops]
  · have htake : crash (FS.empty : FS Path) (A ++ B) A.length = execs FS.empty A := by
      unfold crash; rw [List.take_left']; rfl
    have hlast : crash (FS.empty : FS Path) (A ++ B) A.length .last = some [] := by
      rw [htake]; simp only [A]; rw [execs_append, execs_cons, execs_nil]; simp [exec, FS.set]
    have hdec : sys.dec [] = none := hpf (sys.step s0) [] List.nil_prefix (fun h => hne _ h.symm)
    simp [run, load, hlast, hdec]

/-- the same witness, concretely, by evaluation (2 iterations, state = counter): killed after 9 operations the first
    save has truncated last.pkl (also after 10: the data is still in the process' buffer); killed after 12, two of its four
    bytes are there; the same for the second save after 21 and 24 operations; `resume=True` cannot load either. -/
def resumeFails (proto : Proto) (n k : Nat) : Bool :=
  match load natSys true 0 (crash FS.empty (natOps proto false n) k) with
  | .error _ => true
  | .ok _ => false

theorem inplace_witness : resumeFails .inplace 2 9 = true ∧ resumeFails .inplace 2 12 = true
    ∧ resumeFails .inplace 2 21 = true ∧ resumeFails .inplace 2 24 = true := by decide

/-- and on the same 25+ crash points the repaired protocol never fails (a *test* of the model on one instance — the
    theorem is `never_unresumable`) -/
example : (List.range 50).all (fun k => !resumeFails .atomic 3 k) = true := by decide

/-- **which crash points of the protocol as found are fatal** (DESIGN: `resume_possible_iff`): a run from the empty
    directory killed after any number of byte-granular operations leaves last.pkl absent or holding a prefix of the pickle of
    one of the states of the run … -/
theorem inplace_crash_states (sys : Sys S) (hl : Lawful sys) (s0 : S) (h0 : sys.nit s0 = 0) (n k : Nat) (r0 : Bool)
    (ops : List (Op Path)) (sf : S) (hrun : run sys .inplace r0 s0 n FS.empty = .ok (ops, sf)) :
    GoodIn sys s0 n (crash FS.empty ops k) :=
  inplace_crash_goodIn hl s0 h0 n k r0 ops sf hrun

/-- … and from such a directory `resume=True` gets past loading **iff** last.pkl is absent or complete (pickles being
    self-delimiting): exactly the crash points strictly between the truncation and the end of the dump are fatal. -/
theorem resume_possible_iff (sys : Sys S) (hl : Lawful sys) (hpf : PrefixFree sys) (s0 : S) (n : Nat) (fs : FS Path)
    (hg : GoodIn sys s0 n fs) :
    (∃ r, run sys .inplace true s0 n fs = .ok r) ↔
      (fs .last = none ∨ ∃ i, i ≤ n ∧ fs .last = some (sys.enc (iter sys.step i s0))) :=
  inplace_resume_iff hl hpf s0 n fs hg

/-- non-vacuity: `natSys` pickles are self-delimiting -/
theorem natSys_prefixFree : PrefixFree natSys := by
  intro s b hb hne
  have hlen : b.length ≠ 4 := by
    intro h
    exact hne (hb.eq_of_length (by simpa [natSys] using h))
  simp only [natSys]
  rcases b with _ | ⟨x, _ | ⟨y, _ | ⟨z, _ | ⟨w, _ | ⟨v, r⟩⟩⟩⟩⟩ <;> simp_all

end NiftyVerif.C24
