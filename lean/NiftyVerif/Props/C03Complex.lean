/-
  C03 — complex inputs inside the model: for the holomorphic part of the expression language (exactly the trees the
  complex mode of the driver accepts, `Holo`), evaluated over ℂ with Mathlib's complex special functions, the composed
  Jacobian of the linearization is the COMPLEX derivative of plain evaluation along every holomorphic curve.
    ptw_c_hasDerivAt_<f>      complex derivative of the holomorphic table entries (exp expm1 sin cos tan sinh cosh tanh
                              sigmoid reciprocal log log10 log1p sqrt power exponentiate) on their domains (principal branch: slit plane)
    ptw_table_hasDerivAt_c    the same through the model's dispatch
    lin_hasDerivAt_c          Jacobian = complex derivative, all holomorphic trees
  (arctan is holomorphic too; their complex statements are not proved — they are covered by
  the correspondence with the real code only.)
-/
import NiftyVerif.Props.C03
import NiftyVerif.Lemmas.TranscComplex
import NiftyVerif.Lemmas.ExprAdjC

set_option linter.unusedSimpArgs false
set_option linter.unusedVariables false
namespace NiftyVerif.C03
open NiftyVerif NiftyVerif.Gen.Ptw NiftyVerif.Expr NiftyVerif.TranscComplex

/-! ### finite sums under complex differentiation -/

theorem hasDerivAt_list_sum_c {ι : Type} (l : List ι) (f : ι → ℂ → ℂ) (f' : ι → ℂ) (x : ℂ)
    (h : ∀ i, HasDerivAt (f i) (f' i) x) :
    HasDerivAt (fun t => (l.map (fun i => f i t)).sum) ((l.map f').sum) x := by
  induction l with
  | nil => simpa using hasDerivAt_const x (0 : ℂ)
  | cons a l ih =>
    simp only [List.map_cons, List.sum_cons]
    exact (h a).add ih

theorem hasDerivAt_rsum_c (n : Nat) (f : Nat → ℂ → ℂ) (f' : Nat → ℂ) (x : ℂ)
    (h : ∀ j, HasDerivAt (f j) (f' j) x) :
    HasDerivAt (fun t => rsum n (fun j => f j t)) (rsum n f') x :=
  hasDerivAt_list_sum_c (List.range n) f f' x h

theorem hasDerivAt_dsum_c (d : Dom) (f : String → Nat → ℂ → ℂ) (f' : String → Nat → ℂ) (x : ℂ)
    (h : ∀ k j, HasDerivAt (f k j) (f' k j) x) :
    HasDerivAt (fun t => dsum d (fun k j => f k j t)) (dsum d f') x :=
  hasDerivAt_list_sum_c d (fun kn t => rsum kn.2 (fun j => f kn.1 j t)) (fun kn => rsum kn.2 (f' kn.1)) x
    (fun kn => hasDerivAt_rsum_c kn.2 (f kn.1) (f' kn.1) x (h kn.1))

/-! ### the holomorphic table entries over ℂ -/

theorem ptw_c_hasDerivAt_exp (x : ℂ) : HasDerivAt (fun v : ℂ => val_exp v) (der_exp x) x := by
  simp only [val_exp, der_exp, exp_eq]; exact Complex.hasDerivAt_exp x

theorem ptw_c_hasDerivAt_expm1 (x : ℂ) : HasDerivAt (fun v : ℂ => val_expm1 v) (der_expm1 x) x := by
  simp only [val_expm1, der_expm1, Np.expm1, exp_eq, csci_1]
  refine HasDerivAt.congr_deriv ((Complex.hasDerivAt_exp x).sub_const (1 : ℂ)) ?_
  ring

theorem ptw_c_hasDerivAt_sin (x : ℂ) : HasDerivAt (fun v : ℂ => val_sin v) (der_sin x) x := by
  simp only [val_sin, der_sin, sin_eq, cos_eq]; exact Complex.hasDerivAt_sin x

theorem ptw_c_hasDerivAt_cos (x : ℂ) : HasDerivAt (fun v : ℂ => val_cos v) (der_cos x) x := by
  simp only [val_cos, der_cos, sin_eq, cos_eq]; exact Complex.hasDerivAt_cos x

theorem ptw_c_hasDerivAt_sinh (x : ℂ) : HasDerivAt (fun v : ℂ => val_sinh v) (der_sinh x) x := by
  simp only [val_sinh, der_sinh, sinh_eq, cosh_eq]; exact Complex.hasDerivAt_sinh x

theorem ptw_c_hasDerivAt_cosh (x : ℂ) : HasDerivAt (fun v : ℂ => val_cosh v) (der_cosh x) x := by
  simp only [val_cosh, der_cosh, sinh_eq, cosh_eq]; exact Complex.hasDerivAt_cosh x

theorem ptw_c_hasDerivAt_tan (x : ℂ) (hx : Complex.cos x ≠ 0) : HasDerivAt (fun v : ℂ => val_tan v) (der_tan x) x := by
  simp only [val_tan, der_tan, tan_eq, cos_eq, csci_1]
  refine HasDerivAt.congr_deriv (Complex.hasDerivAt_tan hx) ?_
  rw [pow_two]

theorem ptw_c_hasDerivAt_tanh (x : ℂ) (hx : Complex.cosh x ≠ 0) :
    HasDerivAt (fun v : ℂ => val_tanh v) (der_tanh x) x := by
  simp only [val_tanh, der_tanh, tanh_eq, csci_1]
  refine HasDerivAt.congr_deriv (TranscComplex.hasDerivAt_tanh x hx) ?_
  ring

theorem ptw_c_hasDerivAt_sigmoid (x : ℂ) (hx : Complex.cosh x ≠ 0) :
    HasDerivAt (fun v : ℂ => val_sigmoid v) (der_sigmoid x) x := by
  simp only [val_sigmoid, der_sigmoid, tanh_eq, csci_half]
  refine HasDerivAt.congr_deriv (((TranscComplex.hasDerivAt_tanh x hx).const_mul (1 / 2 : ℂ)).const_add (1 / 2 : ℂ)) ?_
  ring

theorem ptw_c_hasDerivAt_reciprocal (x : ℂ) (hx : x ≠ 0) :
    HasDerivAt (fun v : ℂ => val_reciprocal v) (der_reciprocal x) x := by
  simp only [val_reciprocal, der_reciprocal, csci_1]
  refine HasDerivAt.congr_deriv ((hasDerivAt_const x (1 : ℂ)).div (hasDerivAt_id x) hx) ?_
  field_simp; ring

theorem ptw_c_hasDerivAt_log (x : ℂ) (hx : x ∈ Complex.slitPlane) :
    HasDerivAt (fun v : ℂ => val_log v) (der_log x) x := by
  simp only [val_log, der_log, log_eq, csci_1]
  refine HasDerivAt.congr_deriv (Complex.hasStrictDerivAt_log hx).hasDerivAt ?_
  rw [one_div]

theorem ptw_c_hasDerivAt_log10 (x : ℂ) (hx : x ∈ Complex.slitPlane) :
    HasDerivAt (fun v : ℂ => val_log10 v) (der_log10 x) x := by
  simp only [val_log10, der_log10, Np.log10, log_eq, csci_1, csci_10]
  refine HasDerivAt.congr_deriv ((Complex.hasStrictDerivAt_log hx).hasDerivAt.div_const (Complex.log (10 : ℂ))) ?_
  ring

theorem ptw_c_hasDerivAt_log1p (x : ℂ) (hx : 1 + x ∈ Complex.slitPlane) :
    HasDerivAt (fun v : ℂ => val_log1p v) (der_log1p x) x := by
  simp only [val_log1p, der_log1p, Np.log1p, log_eq, csci_1]
  refine HasDerivAt.congr_deriv (((hasDerivAt_id x).const_add (1 : ℂ)).clog hx) ?_
  simp only [id_eq]

theorem ptw_c_hasDerivAt_sqrt (x : ℂ) (hx : x ∈ Complex.slitPlane) :
    HasDerivAt (fun v : ℂ => val_sqrt v) (der_sqrt x) x := by
  simp only [val_sqrt, der_sqrt, csci_half]
  show HasDerivAt (fun v : ℂ => v ^ (1 / 2 : ℂ)) ((1 / 2 : ℂ) / x ^ (1 / 2 : ℂ)) x
  refine HasDerivAt.congr_deriv (Complex.hasStrictDerivAt_cpow_const (c := (1 / 2 : ℂ)) hx).hasDerivAt ?_
  have e : (1 / 2 : ℂ) - 1 = -(1 / 2 : ℂ) := by ring
  rw [e, Complex.cpow_neg]
  ring

theorem ptw_c_hasDerivAt_power (x p : ℂ) (hx : x ∈ Complex.slitPlane) :
    HasDerivAt (fun v : ℂ => val_power v p) (der_power x p) x := by
  simp only [val_power, der_power, csci_1]
  exact (Complex.hasStrictDerivAt_cpow_const (c := p) hx).hasDerivAt

theorem ptw_c_hasDerivAt_exponentiate (x b : ℂ) (hb : b ≠ 0) :
    HasDerivAt (fun v : ℂ => val_exponentiate v b) (der_exponentiate x b) x := by
  simp only [val_exponentiate, der_exponentiate, log_eq]
  refine HasDerivAt.congr_deriv (Complex.hasStrictDerivAt_const_cpow (Or.inl hb)).hasDerivAt ?_
  show b ^ x * Complex.log b = Complex.log b * b ^ x
  ring

/-- complex validity of a table entry (principal branches); `False` for entries without a complex statement -/
def PtwValidC : Fn → List ℂ → ℂ → Prop
  | .sin, [], _ => True
  | .cos, [], _ => True
  | .exp, [], _ => True
  | .expm1, [], _ => True
  | .sinh, [], _ => True
  | .cosh, [], _ => True
  | .tan, [], x => Complex.cos x ≠ 0
  | .tanh, [], x => Complex.cosh x ≠ 0
  | .sigmoid, [], x => Complex.cosh x ≠ 0
  | .reciprocal, [], x => x ≠ 0
  | .log, [], x => x ∈ Complex.slitPlane
  | .log10, [], x => x ∈ Complex.slitPlane
  | .log1p, [], x => 1 + x ∈ Complex.slitPlane
  | .power, [_], x => x ∈ Complex.slitPlane
  | .sqrt, [], x => x ∈ Complex.slitPlane
  | .exponentiate, [b], _ => b ≠ 0
  | _, _, _ => False

theorem ptw_table_hasDerivAt_c (f : Fn) (p : List ℂ) (x : ℂ) (h : PtwValidC f p x) :
    HasDerivAt (fun v => f.val p v) (f.der p x) x := by
  cases f <;> rcases p with _ | ⟨a, _ | ⟨b, _ | ⟨c, l⟩⟩⟩ <;> simp only [PtwValidC] at h <;>
    simp only [Fn.val, Fn.der] <;>
    first
    | exact ptw_c_hasDerivAt_sin x | exact ptw_c_hasDerivAt_cos x | exact ptw_c_hasDerivAt_exp x
    | exact ptw_c_hasDerivAt_expm1 x | exact ptw_c_hasDerivAt_sinh x | exact ptw_c_hasDerivAt_cosh x
    | exact ptw_c_hasDerivAt_tan x h | exact ptw_c_hasDerivAt_tanh x h | exact ptw_c_hasDerivAt_sigmoid x h
    | exact ptw_c_hasDerivAt_reciprocal x h | exact ptw_c_hasDerivAt_log x h | exact ptw_c_hasDerivAt_log10 x h
    | exact ptw_c_hasDerivAt_log1p x h | exact ptw_c_hasDerivAt_power x a h | exact ptw_c_hasDerivAt_sqrt x h | exact ptw_c_hasDerivAt_exponentiate x a h

/-! ### holomorphic trees -/

/-- the trees of the complex mode (`holoTree` in Driver/C03.lean), with point-wise functions inside their complex domain -/
def HoloValid : Ex ℂ → MVal ℂ → Prop
  | .var _ _, _ => True
  | .add a b, ρ => HoloValid a ρ ∧ HoloValid b ρ
  | .sub a b, ρ => HoloValid a ρ ∧ HoloValid b ρ
  | .mul a b, ρ => HoloValid a ρ ∧ HoloValid b ρ
  | .bil _ _ _ _ a b, ρ => HoloValid a ρ ∧ HoloValid b ρ
  | .scale _ a, ρ => HoloValid a ρ
  | .addc _ _ a, ρ => HoloValid a ρ
  | .mulc _ a, ρ => HoloValid a ρ
  | .ptw f p a, ρ => HoloValid a ρ ∧ ∀ k i, a.dom.has k i = true → PtwValidC f p (eval a ρ k i)
  | .lin _ _ _ a, ρ => HoloValid a ρ
  | .sum a, ρ => HoloValid a ρ
  | .getKey _ a, ρ => HoloValid a ρ
  | .putKey _ a, ρ => HoloValid a ρ
  | .chain f g, ρ => HoloValid g ρ ∧ HoloValid f (eval g ρ)
  | _, _ => False

/-- **complex inputs**: for every holomorphic tree and every holomorphic curve `γ : ℂ → inputs` with velocity `h` at 0,
    each output entry of `t ↦ eval e (γ t)` has COMPLEX derivative `((lin e (γ 0) wm).jac h)` at 0 -/
theorem lin_hasDerivAt_c (e : Ex ℂ) (wm : Bool) :
    ∀ (γ : ℂ → MVal ℂ) (h : MVal ℂ), (∀ k i, HasDerivAt (fun t => γ t k i) (h k i) 0) → HoloValid e (γ 0) →
      ∀ k i, HasDerivAt (fun t => eval e (γ t) k i) ((lin e (γ 0) wm).jac h k i) 0 := by
  induction e with
  | var k n =>
    intro γ h hγ _ k' i
    simp only [eval, lin, single]
    by_cases hk : k' = ""
    · simp only [hk, if_true]; exact hγ k i
    · simp only [hk, if_false]; exact hasDerivAt_const _ _
  | add a b iha ihb =>
    intro γ h hγ hv k i
    simp only [eval, lin]
    exact (iha γ h hγ hv.1 k i).add (ihb γ h hγ hv.2 k i)
  | sub a b iha ihb =>
    intro γ h hγ hv k i
    simp only [eval, lin]
    exact (iha γ h hγ hv.1 k i).sub (ihb γ h hγ hv.2 k i)
  | mul a b iha ihb =>
    intro γ h hγ hv k i
    simp only [eval, lin, lin_val]
    refine HasDerivAt.congr_deriv ((iha γ h hγ hv.1 k i).mul (ihb γ h hγ hv.2 k i)) ?_
    ring
  | scale c a iha =>
    intro γ h hγ hv k i
    simp only [eval, lin]
    exact (iha γ h hγ hv k i).const_mul c
  | addc c neg a iha =>
    intro γ h hγ hv k i
    simp only [eval, lin, mask]
    by_cases hd : a.dom.has k i = true
    · simp only [hd, if_true]
      cases neg
      · simpa using (iha γ h hγ hv k i).add_const (ofList c i)
      · simpa using (iha γ h hγ hv k i).sub_const (ofList c i)
    · simp only [hd]; exact hasDerivAt_const _ _
  | mulc d a iha =>
    intro γ h hγ hv k i
    simp only [eval, lin]
    exact (iha γ h hγ hv k i).const_mul (ofList d i)
  | ptw f p a iha =>
    intro γ h hγ hv k i
    simp only [eval, lin, mask, lin_val]
    by_cases hd : a.dom.has k i = true
    · simp only [hd, if_true]
      have h1 := ptw_table_hasDerivAt_c f p (eval a (γ 0) k i) (hv.2 k i hd)
      have h2 := iha γ h hγ hv.1 k i
      exact HasDerivAt.comp (h₂ := fun v => f.val p v) (h := fun t => eval a (γ t) k i) 0 h1 h2
    · simp only [hd]; exact hasDerivAt_const _ _
  | lin m n rows a iha =>
    intro γ h hγ hv k i
    simp only [eval, lin, single]
    by_cases hk : k = ""
    · simp only [hk, if_true]
      by_cases hi : i < m
      · simp only [hi, if_true]
        exact hasDerivAt_rsum_c n _ _ 0 (fun j => (iha γ h hγ hv "" j).const_mul (mat rows i j))
      · simp only [hi, if_false]; exact hasDerivAt_const _ _
    · simp only [hk, if_false]; exact hasDerivAt_const _ _
  | sum a iha =>
    intro γ h hγ hv k i
    simp only [eval, lin, single]
    by_cases hk : k = ""
    · simp only [hk, if_true]
      by_cases hi : i = 0
      · simp only [hi, if_true]
        exact hasDerivAt_dsum_c a.dom _ _ 0 (fun k j => iha γ h hγ hv k j)
      · simp only [hi, if_false]; exact hasDerivAt_const _ _
    · simp only [hk, if_false]; exact hasDerivAt_const _ _
  | getKey k0 a iha =>
    intro γ h hγ hv k i
    simp only [eval, lin, single]
    by_cases hk : k = ""
    · simp only [hk, if_true]; exact iha γ h hγ hv k0 i
    · simp only [hk, if_false]; exact hasDerivAt_const _ _
  | putKey k0 a iha =>
    intro γ h hγ hv k i
    simp only [eval, lin]
    by_cases hk : k = k0
    · simp only [hk, if_true]; exact iha γ h hγ hv "" i
    · simp only [hk, if_false]; exact hasDerivAt_const _ _
  | chain f g ihf ihg =>
    intro γ h hγ hv k i
    simp only [eval, lin, lin_val]
    have hg := ihg γ h hγ hv.1
    exact ihf (fun t => eval g (γ t)) ((lin g (γ 0) wm).jac h) hg hv.2 k i
  | bil m na nb T a b iha ihb =>
    intro γ h hγ hv k o
    simp only [eval, lin, single, lin_val]
    by_cases hk : k = ""
    · simp only [hk, if_true]
      by_cases ho : o < m
      · simp only [ho, if_true]
        exact hasDerivAt_rsum_c na _ _ 0 (fun i => hasDerivAt_rsum_c nb _ _ 0 (fun j =>
          ((iha γ h hγ hv.1 "" i).mul (ihb γ h hγ hv.2 "" j)).const_mul (ten T o i j)))
      · simp only [ho, if_false]; exact hasDerivAt_const _ _
    · simp only [hk, if_false]; exact hasDerivAt_const _ _
  | vdot a b _ _ => intro γ h hγ hv; exact hv.elim
  | sqnorm a _ => intro γ h hγ hv; exact hv.elim
  | quad d a _ => intro γ h hγ hv; exact hv.elim
  | gauss data icov a _ => intro γ h hγ hv; exact hv.elim
  | const en d v => intro γ h hγ hv; exact hv.elim
  | varcov n a b _ _ => intro γ h hγ hv; exact hv.elim

/-- non-vacuity: `exp(i·z) * z` at `z = 1 + i` is inside the hypotheses -/
example : HoloValid (.mul (.ptw .exp [] (.scale Complex.I (.var "a" 1))) (.var "a" 1)) (fun _ _ => 1 + Complex.I) := by
  refine ⟨⟨trivial, fun k i _ => ?_⟩, trivial⟩
  simp [PtwValidC]

/-! ### adjoint = conjugate transpose over ℂ -/

open NiftyVerif.ExprC in
/-- holomorphic trees inside the box -/
def WFBC (Ks : List String) (N : Nat) : Ex ℂ → Prop
  | .var k _ => k ∈ Ks ∧ "" ∈ Ks
  | .add a b => WFBC Ks N a ∧ WFBC Ks N b
  | .sub a b => WFBC Ks N a ∧ WFBC Ks N b
  | .mul a b => WFBC Ks N a ∧ WFBC Ks N b
  | .scale _ a => WFBC Ks N a
  | .addc _ _ a => WFBC Ks N a
  | .mulc _ a => WFBC Ks N a
  | .ptw _ _ a => WFBC Ks N a
  | .lin m n _ a => WFBC Ks N a ∧ "" ∈ Ks ∧ m ≤ N ∧ n ≤ N
  | .sum a => WFBC Ks N a ∧ "" ∈ Ks ∧ 0 < N ∧ DomOK a.dom Ks N
  | .getKey k a => WFBC Ks N a ∧ k ∈ Ks ∧ "" ∈ Ks
  | .putKey k a => WFBC Ks N a ∧ k ∈ Ks ∧ "" ∈ Ks
  | .chain f g => WFBC Ks N f ∧ WFBC Ks N g
  | .bil m na nb _ a b => WFBC Ks N a ∧ WFBC Ks N b ∧ "" ∈ Ks ∧ m ≤ N ∧ na ≤ N ∧ nb ≤ N
  | _ => False

theorem conjC_eq (z : ℂ) : Conj.conj z = (starRingEnd ℂ) z := rfl
theorem single_eq_pick_c (v : Nat → ℂ) : single v = fun k i => if k = "" then v i else 0 := rfl

open NiftyVerif.ExprC in
/-- **adjoint = conjugate transpose** (complex inputs, holomorphic trees): `⟨y, J h⟩ = ⟨Jᴴ y, h⟩` for the Hermitian inner
    product `⟨u, v⟩ = Σ conj(u)·v`, all tangents and cotangents -/
theorem jac_adjoint_c (Ks : List String) (N : Nat) (hK : Ks.Nodup) (e : Ex ℂ) (wm : Bool) :
    WFBC Ks N e → ∀ (ρ h y : MVal ℂ),
      ipC Ks N y ((lin e ρ wm).jac h) = ipC Ks N ((lin e ρ wm).adj y) h := by
  induction e with
  | var k n =>
    intro hw ρ h y
    simp only [lin, single_eq_pick_c]
    rw [ipC_pick_right Ks N hK "" hw.2, ipC_pick_left Ks N hK k hw.1]
  | add a b iha ihb =>
    intro hw ρ h y
    simp only [lin]
    rw [ipC_add_right, ipC_add_left, iha hw.1, ihb hw.2]
  | sub a b iha ihb =>
    intro hw ρ h y
    simp only [lin]
    rw [ipC_sub_right, ipC_sub_left, iha hw.1, ihb hw.2]
  | mul a b iha ihb =>
    intro hw ρ h y
    simp only [lin, conjC_eq]
    rw [ipC_add_right, ipC_add_left, ipC_mul, ipC_mul, ihb hw.2, iha hw.1]
  | scale c a iha =>
    intro hw ρ h y
    simp only [lin, conjC_eq]
    rw [ipC_mul Ks N y (fun _ _ => c), iha hw]
  | addc c neg a iha =>
    intro hw ρ h y
    simp only [lin]
    rw [ipC_mask, iha hw]
  | mulc d a iha =>
    intro hw ρ h y
    simp only [lin, conjC_eq]
    rw [ipC_mul Ks N y (fun _ i => ofList d i), iha hw]
  | ptw f p a iha =>
    intro hw ρ h y
    simp only [lin, conjC_eq]
    rw [ipC_mask_mul, iha hw]
  | lin m n rows a iha =>
    intro hw ρ h y
    obtain ⟨hwa, h0, hm, hn⟩ := hw
    simp only [lin, single_eq_pick_c, conjC_eq]
    rw [← iha hwa, ipC_pick_right Ks N hK "" h0, ipC_pick_left Ks N hK "" h0]
    rw [ExprC.rsum_congr N _ (fun i => if i < m then (starRingEnd ℂ) (y "" i) *
        rsum n (fun j => mat rows i j * (lin a ρ wm).jac h "" j) else 0) (fun i _ => by split <;> simp)]
    rw [ExprC.rsum_ite_lt m N hm]
    rw [ExprC.rsum_congr N _ (fun j => if j < n then
        rsum m (fun i => mat rows i j * (starRingEnd ℂ) (y "" i)) * (lin a ρ wm).jac h "" j else 0)
      (fun j _ => by
        split
        · rw [conj_rsum]
          congr 1
          exact ExprC.rsum_congr m _ _ (fun i _ => by rw [map_mul, Complex.conj_conj])
        · simp)]
    rw [ExprC.rsum_ite_lt n N hn]
    rw [ExprC.rsum_congr m _ (fun i => rsum n (fun j => (starRingEnd ℂ) (y "" i) * (mat rows i j * (lin a ρ wm).jac h "" j)))
      (fun i _ => (ExprC.rsum_mul_left n _ _).symm)]
    rw [ExprC.rsum_comm]
    refine ExprC.rsum_congr n _ _ (fun j _ => ?_)
    rw [show rsum m (fun i => mat rows i j * (starRingEnd ℂ) (y "" i)) * (lin a ρ wm).jac h "" j
        = (lin a ρ wm).jac h "" j * rsum m (fun i => mat rows i j * (starRingEnd ℂ) (y "" i)) by ring,
      ← ExprC.rsum_mul_left]
    exact ExprC.rsum_congr m _ _ (fun i _ => by ring)
  | sum a iha =>
    intro hw ρ h y
    obtain ⟨hwa, h0, hN, hd⟩ := hw
    simp only [lin, csci_1]
    rw [← iha hwa, ← contr_adj_one Ks N hK h0 hN a.dom hd]
  | getKey k a iha =>
    intro hw ρ h y
    obtain ⟨hwa, hk, h0⟩ := hw
    simp only [lin, single_eq_pick_c]
    rw [← iha hwa, ipC_pick_right Ks N hK "" h0, ipC_pick_left Ks N hK k hk]
  | putKey k a iha =>
    intro hw ρ h y
    obtain ⟨hwa, hk, h0⟩ := hw
    simp only [lin, single_eq_pick_c]
    rw [← iha hwa, ipC_pick_right Ks N hK k hk, ipC_pick_left Ks N hK "" h0]
  | chain f g ihf ihg =>
    intro hw ρ h y
    simp only [lin]
    rw [ihf hw.1, ihg hw.2]
  | bil m na nb T a b iha ihb =>
    intro hw ρ h y
    obtain ⟨hwa, hwb, h0, hm, hna, hnb⟩ := hw
    simp only [lin, single_eq_pick_c, conjC_eq]
    rw [ipC_add_left, ← iha hwa, ← ihb hwb, ipC_pick_right Ks N hK "" h0, ipC_pick_left Ks N hK "" h0,
      ipC_pick_left Ks N hK "" h0]
    rw [ExprC.rsum_congr N _ (fun o => if o < m then (starRingEnd ℂ) (y "" o) * rsum na (fun i => rsum nb (fun j => ten T o i j *
        ((lin a ρ wm).jac h "" i * (lin b ρ wm).val "" j + (lin a ρ wm).val "" i * (lin b ρ wm).jac h "" j))) else 0)
      (fun o _ => by split <;> simp)]
    rw [ExprC.rsum_ite_lt m N hm]
    rw [ExprC.rsum_congr N _ (fun i => if i < na then
        rsum m (fun o => rsum nb (fun j => ten T o i j * (lin b ρ wm).val "" j * (starRingEnd ℂ) (y "" o)))
          * (lin a ρ wm).jac h "" i else 0)
      (fun i _ => by
        split
        · rw [conj_rsum]
          congr 1
          refine ExprC.rsum_congr m _ _ (fun o _ => ?_)
          rw [conj_rsum]
          exact ExprC.rsum_congr nb _ _ (fun j _ => by rw [map_mul, Complex.conj_conj])
        · simp)]
    rw [ExprC.rsum_ite_lt na N hna]
    rw [ExprC.rsum_congr N _ (fun j => if j < nb then
        rsum m (fun o => rsum na (fun i => ten T o i j * (lin a ρ wm).val "" i * (starRingEnd ℂ) (y "" o)))
          * (lin b ρ wm).jac h "" j else 0)
      (fun j _ => by
        split
        · rw [conj_rsum]
          congr 1
          refine ExprC.rsum_congr m _ _ (fun o _ => ?_)
          rw [conj_rsum]
          exact ExprC.rsum_congr na _ _ (fun i _ => by rw [map_mul, Complex.conj_conj])
        · simp)]
    rw [ExprC.rsum_ite_lt nb N hnb]
    exact ExprC.bil_adj_algebra m na nb (ten T) (fun o => (starRingEnd ℂ) (y "" o)) ((lin a ρ wm).val "")
      ((lin a ρ wm).jac h "") ((lin b ρ wm).val "") ((lin b ρ wm).jac h "")
  | vdot a b _ _ => intro hw; exact hw.elim
  | sqnorm a _ => intro hw; exact hw.elim
  | quad d a _ => intro hw; exact hw.elim
  | gauss data icov a _ => intro hw; exact hw.elim
  | const en d v => intro hw; exact hw.elim
  | varcov n a b _ _ => intro hw; exact hw.elim

end NiftyVerif.C03
