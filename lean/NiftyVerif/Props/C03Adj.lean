/-
  C03 — "The Jacobian's adjoint is its conjugate transpose" on the model (real case): for every expression tree, the
  composed ADJOINT_TIMES of the linearization is the transpose of the composed TIMES with respect to the standard inner
  products:  ⟨y, J h⟩ = ⟨Jᵀ y, h⟩ for all h, y.
  Inner products are taken over an arbitrary finite box `Ks × {0..N-1}` of keys and indices that contains every key and
  index the tree uses (`WFB`); tangents/cotangents are arbitrary functions on the box.
-/
import NiftyVerif.Props.C03
import NiftyVerif.Lemmas.ExprAdj

set_option linter.unusedSimpArgs false
set_option linter.unusedVariables false
namespace NiftyVerif.C03
open NiftyVerif NiftyVerif.Gen.Ptw NiftyVerif.Expr

/-- the tree lives inside the box: every key it reads or writes is in `Ks`, every size is at most `N`, and the domains it
    contracts over have distinct keys (true for every tree the real constructors accept, with `Ks`/`N` large enough) -/
def WFB (Ks : List String) (N : Nat) : Ex ℝ → Prop
  | .var k _ => k ∈ Ks ∧ "" ∈ Ks
  | .add a b => WFB Ks N a ∧ WFB Ks N b
  | .sub a b => WFB Ks N a ∧ WFB Ks N b
  | .mul a b => WFB Ks N a ∧ WFB Ks N b
  | .scale _ a => WFB Ks N a
  | .addc _ _ a => WFB Ks N a
  | .mulc _ a => WFB Ks N a
  | .ptw _ _ a => WFB Ks N a
  | .lin m n _ a => WFB Ks N a ∧ "" ∈ Ks ∧ m ≤ N ∧ n ≤ N
  | .sum a => WFB Ks N a ∧ "" ∈ Ks ∧ 0 < N ∧ DomOK a.dom Ks N
  | .vdot a b => WFB Ks N a ∧ WFB Ks N b ∧ "" ∈ Ks ∧ 0 < N ∧ DomOK a.dom Ks N
  | .getKey k a => WFB Ks N a ∧ k ∈ Ks ∧ "" ∈ Ks
  | .putKey k a => WFB Ks N a ∧ k ∈ Ks ∧ "" ∈ Ks
  | .chain f g => WFB Ks N f ∧ WFB Ks N g
  | .sqnorm a => WFB Ks N a ∧ "" ∈ Ks ∧ 0 < N ∧ DomOK a.dom Ks N
  | .quad _ a => WFB Ks N a ∧ "" ∈ Ks ∧ 0 < N ∧ DomOK a.dom Ks N
  | .gauss _ _ a => WFB Ks N a ∧ "" ∈ Ks ∧ 0 < N ∧ DomOK a.dom Ks N
  | .const _ _ _ => True
  | .bil m na nb _ a b => WFB Ks N a ∧ WFB Ks N b ∧ "" ∈ Ks ∧ m ≤ N ∧ na ≤ N ∧ nb ≤ N
  | .varcov n a b => WFB Ks N a ∧ WFB Ks N b ∧ "" ∈ Ks ∧ 0 < N ∧ n ≤ N

theorem single_eq_pick (v : Nat → ℝ) : single v = fun k i => if k = "" then v i else 0 := rfl

/-- **adjoint = transpose**, for every tree inside the box, every input, both flags, all tangents and cotangents -/
theorem jac_adjoint (Ks : List String) (N : Nat) (hK : Ks.Nodup) (e : Ex ℝ) (wm : Bool) :
    WFB Ks N e → ∀ (ρ h y : MVal ℝ),
      ipB Ks N y ((lin e ρ wm).jac h) = ipB Ks N ((lin e ρ wm).adj y) h := by
  induction e with
  | var k n =>
    intro hw ρ h y
    simp only [lin, single_eq_pick, TranscReal.conj_eq]
    rw [ipB_pick_right Ks N hK "" hw.2, ipB_pick_left Ks N hK k hw.1]
  | add a b iha ihb =>
    intro hw ρ h y
    simp only [lin, TranscReal.conj_eq]
    rw [ipB_add_right, ipB_add_left, iha hw.1, ihb hw.2]
  | sub a b iha ihb =>
    intro hw ρ h y
    simp only [lin, TranscReal.conj_eq]
    rw [ipB_sub_right, ipB_sub_left, iha hw.1, ihb hw.2]
  | mul a b iha ihb =>
    intro hw ρ h y
    simp only [lin, TranscReal.conj_eq]
    rw [ipB_add_right, ipB_add_left, ipB_mul, ipB_mul, ihb hw.2, iha hw.1]
  | scale c a iha =>
    intro hw ρ h y
    simp only [lin, TranscReal.conj_eq]
    rw [ipB_mul Ks N y (fun _ _ => c), iha hw]
  | addc c neg a iha =>
    intro hw ρ h y
    simp only [lin, TranscReal.conj_eq]
    rw [ipB_mask, iha hw]
  | mulc d a iha =>
    intro hw ρ h y
    simp only [lin, TranscReal.conj_eq]
    rw [ipB_mul Ks N y (fun _ i => ofList d i), iha hw]
  | ptw f p a iha =>
    intro hw ρ h y
    simp only [lin, TranscReal.conj_eq]
    rw [ipB_mask_mul, iha hw]
  | lin m n rows a iha =>
    intro hw ρ h y
    obtain ⟨hwa, h0, hm, hn⟩ := hw
    simp only [lin, single_eq_pick, TranscReal.conj_eq]
    rw [← iha hwa, ipB_pick_right Ks N hK "" h0, ipB_pick_left Ks N hK "" h0]
    rw [rsum_congr N _ (fun i => if i < m then y "" i * rsum n (fun j => mat rows i j * (lin a ρ wm).jac h "" j) else 0)
      (fun i _ => by split <;> ring)]
    rw [rsum_ite_lt m N hm]
    rw [rsum_congr N _ (fun j => if j < n then rsum m (fun i => mat rows i j * y "" i) * (lin a ρ wm).jac h "" j else 0)
      (fun j _ => by split <;> ring)]
    rw [rsum_ite_lt n N hn]
    rw [rsum_congr m _ (fun i => rsum n (fun j => y "" i * (mat rows i j * (lin a ρ wm).jac h "" j)))
      (fun i _ => (rsum_mul_left n _ _).symm)]
    rw [rsum_comm]
    refine rsum_congr n _ _ (fun j _ => ?_)
    rw [show rsum m (fun i => mat rows i j * y "" i) * (lin a ρ wm).jac h "" j
        = (lin a ρ wm).jac h "" j * rsum m (fun i => mat rows i j * y "" i) by ring, ← rsum_mul_left]
    exact rsum_congr m _ _ (fun i _ => by ring)
  | sum a iha =>
    intro hw ρ h y
    obtain ⟨hwa, h0, hN, hd⟩ := hw
    simp only [lin, TranscReal.conj_eq]
    rw [← iha hwa, ← contr_adj Ks N hK h0 hN a.dom hd]
    simp only [sci_1, one_mul]
  | vdot a b iha ihb =>
    intro hw ρ h y
    obtain ⟨hwa, hwb, h0, hN, hd⟩ := hw
    simp only [lin, TranscReal.conj_eq]
    rw [ipB_add_left, ← ihb hwb, ← iha hwa, ← contr_adj Ks N hK h0 hN a.dom hd,
      ← contr_adj Ks N hK h0 hN a.dom hd, ← ipB_add_right]
    congr 1
    funext k i
    simp only [single]
    split
    · split <;> ring
    · ring
  | getKey k a iha =>
    intro hw ρ h y
    obtain ⟨hwa, hk, h0⟩ := hw
    simp only [lin, single_eq_pick, TranscReal.conj_eq]
    rw [← iha hwa, ipB_pick_right Ks N hK "" h0, ipB_pick_left Ks N hK k hk]
  | putKey k a iha =>
    intro hw ρ h y
    obtain ⟨hwa, hk, h0⟩ := hw
    simp only [lin, single_eq_pick, TranscReal.conj_eq]
    rw [← iha hwa, ipB_pick_right Ks N hK k hk, ipB_pick_left Ks N hK "" h0]
  | chain f g ihf ihg =>
    intro hw ρ h y
    simp only [lin, TranscReal.conj_eq]
    rw [ihf hw.1, ihg hw.2]
  | sqnorm a iha =>
    intro hw ρ h y
    obtain ⟨hwa, h0, hN, hd⟩ := hw
    simp only [lin, TranscReal.conj_eq]
    rw [← iha hwa, ← contr_adj Ks N hK h0 hN a.dom hd]
  | quad d a iha =>
    intro hw ρ h y
    obtain ⟨hwa, h0, hN, hd⟩ := hw
    simp only [lin, TranscReal.conj_eq]
    rw [← iha hwa, ← contr_adj Ks N hK h0 hN a.dom hd]
  | gauss data icov a iha =>
    intro hw ρ h y
    obtain ⟨hwa, h0, hN, hd⟩ := hw
    simp only [lin, TranscReal.conj_eq]
    rw [← iha hwa, ← contr_adj Ks N hK h0 hN a.dom hd]
  | const en d v =>
    intro hw ρ h y
    simp only [lin, TranscReal.conj_eq]
    rw [ipB_zero_right, ipB_zero_left]
  | bil m na nb T a b iha ihb =>
    intro hw ρ h y
    obtain ⟨hwa, hwb, h0, hm, hna, hnb⟩ := hw
    simp only [lin, single_eq_pick, TranscReal.conj_eq]
    rw [ipB_add_left, ← iha hwa, ← ihb hwb, ipB_pick_right Ks N hK "" h0, ipB_pick_left Ks N hK "" h0,
      ipB_pick_left Ks N hK "" h0]
    rw [rsum_congr N _ (fun o => if o < m then y "" o * rsum na (fun i => rsum nb (fun j => ten T o i j *
        ((lin a ρ wm).jac h "" i * (lin b ρ wm).val "" j + (lin a ρ wm).val "" i * (lin b ρ wm).jac h "" j))) else 0)
      (fun o _ => by split <;> ring)]
    rw [rsum_ite_lt m N hm]
    rw [rsum_congr N _ (fun i => if i < na then
        rsum m (fun o => rsum nb (fun j => ten T o i j * (lin b ρ wm).val "" j * y "" o)) * (lin a ρ wm).jac h "" i else 0)
      (fun i _ => by split <;> ring)]
    rw [rsum_ite_lt na N hna]
    rw [rsum_congr N _ (fun j => if j < nb then
        rsum m (fun o => rsum na (fun i => ten T o i j * (lin a ρ wm).val "" i * y "" o)) * (lin b ρ wm).jac h "" j else 0)
      (fun j _ => by split <;> ring)]
    rw [rsum_ite_lt nb N hnb]
    exact bil_adj_algebra m na nb (ten T) (y "") ((lin a ρ wm).val "") ((lin a ρ wm).jac h "")
      ((lin b ρ wm).val "") ((lin b ρ wm).jac h "")
  | varcov n a b iha ihb =>
    intro hw ρ h y
    obtain ⟨hwa, hwb, h0, hN, hn⟩ := hw
    simp only [lin, single_eq_pick, TranscReal.conj_eq]
    rw [ipB_add_left, ← iha hwa, ← ihb hwb, ipB_pick_right Ks N hK "" h0, ipB_pick_left Ks N hK "" h0,
      ipB_pick_left Ks N hK "" h0]
    rw [rsum_congr N _ (fun i => if i = 0 then y "" i * rsum n (fun j =>
        ((lin a ρ wm).val "" j * (lin b ρ wm).val "" j) * (lin a ρ wm).jac h "" j
        + ((0.5 : ℝ) * ((lin a ρ wm).val "" j * (lin a ρ wm).val "" j) - (0.5 : ℝ) / (lin b ρ wm).val "" j)
          * (lin b ρ wm).jac h "" j) else 0) (fun i _ => by split <;> simp)]
    rw [rsum_ite_zero N hN]
    rw [rsum_congr N _ (fun j => if j < n then
        ((lin a ρ wm).val "" j * (lin b ρ wm).val "" j) * y "" 0 * (lin a ρ wm).jac h "" j else 0)
      (fun j _ => by split <;> ring)]
    rw [rsum_ite_lt n N hn]
    rw [rsum_congr N _ (fun j => if j < n then
        ((0.5 : ℝ) * ((lin a ρ wm).val "" j * (lin a ρ wm).val "" j) - (0.5 : ℝ) / (lin b ρ wm).val "" j) * y "" 0
          * (lin b ρ wm).jac h "" j else 0) (fun j _ => by split <;> ring)]
    rw [rsum_ite_lt n N hn, ← rsum_add, ← rsum_mul_left]
    exact rsum_congr n _ _ (fun j _ => by ring)

/-- non-vacuity: `sum (exp(x_a) * x_b)` over keys a, b of size 2 lives in the box {"", "a", "b"} × {0, 1} -/
example : WFB ["", "a", "b"] 2 (.sum (.mul (.ptw .exp [] (.var "a" 2)) (.var "b" 2))) := by
  simp [WFB, DomOK, Ex.dom]

end NiftyVerif.C03
