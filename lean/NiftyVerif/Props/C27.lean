/-
  C27 — The classic VI driver accepts every documented configuration.
  Property theorems only; model: Model/DriverCfg.lean.  Obligations: harness/props/c27.py.
  `.repaired` = /repo with fixes/C27_rng_stack_balance.diff, C27_sanity_false_unbound.diff, C27_stale_output_directory.diff;
  `.asFound` = /repo as it is.
-/
import NiftyVerif.Model.DriverCfg
import Mathlib.Tactic.Ring
import Mathlib.Tactic.Linarith

namespace NiftyVerif.C27
open NiftyVerif.DriverCfg

/-- the repaired loop pops what it pushed on every exit path: normal end, `dry_run`'s continue, `terminate_callback`'s
    break — for every number of iterations and every termination point -/
theorem loop_balanced (c : Config) : ∀ fuel j, (loopEffect .repaired c fuel j).2 = 0 := by
  intro fuel
  induction fuel with
  | zero => intro j; rfl
  | succ fuel ih =>
    intro j
    simp only [loopEffect]
    split
    · simp [ih]
    · split
      · simp
      · simp [ih]

/-- number of iterations really carried out -/
theorem loop_iterations (v : Version) (c : Config) : ∀ fuel j, (loopEffect v c fuel j).1 =
    if c.dryRun then 0 else
      match c.terminateAt with
      | some t => if j ≤ t ∧ t < j + fuel then t - j + 1 else fuel
      | none => fuel := by
  intro fuel
  induction fuel with
  | zero =>
    intro j
    cases c.dryRun <;> cases c.terminateAt <;> simp [loopEffect]
  | succ fuel ih =>
    intro j
    simp only [loopEffect]
    cases hd : c.dryRun
    · cases ht : c.terminateAt with
      | none => simp [ih, hd, ht]
      | some t =>
        by_cases hjt : t = j
        · subst hjt; simp [hd, ht]
        · have hb : (some t == some j) = false := by simp [hjt]
          simp only [hd, ht, hb, ih, Bool.false_eq_true, if_false]
          by_cases h1 : j + 1 ≤ t ∧ t < j + 1 + fuel
          · have h2 : j ≤ t ∧ t < j + (fuel + 1) := by omega
            simp only [h1, h2, and_self, if_true]; omega
          · have h2 : ¬ (j ≤ t ∧ t < j + (fuel + 1)) := by omega
            simp only [h1, h2, if_false]
    · simp [ih, hd]

/-- the pre-loop checks of the repaired driver accept exactly the valid configurations: complete finite table
    (2^15 Boolean fact combinations), checked by the kernel -/
theorem precheckB_iff_validB : ∀ (a b c d e f g h i j k l m n o : Bool),
    isOk (precheckB .repaired a b c d e f g h i j k l m n o) = validB a b c d e f g h i j k l m n o := by
  decide +kernel

/-! ### seed sequences: `fresh_stochasticity(i) = False` freezes the randomness of iteration i-1, and nothing else does -/

theorem keyOf_le (f : Nat → Bool) : ∀ i, keyOf f i ≤ i := by
  intro i
  induction i with
  | zero => simp [keyOf]
  | succ i ih =>
    simp only [keyOf]
    split
    · exact Nat.le_refl _
    · omega

/-- **iteration i+1 draws with the same seeds as iteration i iff `fresh_stochasticity(i+1)` is False** (the code's
    duplicate-SeedSequence bookkeeping; for every stochasticity pattern and every number of samples) -/
theorem seeds_equal_iff (f : Nat → Bool) (spawns : Nat → Nat) (i : Nat) :
    seedsOf .duplicate f spawns (i + 1) = seedsOf .duplicate f spawns i ↔ f (i + 1) = false := by
  have hle := keyOf_le f i
  have hc : ctrAtPush .duplicate f spawns i = 0 := by cases i <;> rfl
  simp only [seedsOf, keyOf, ctrAtPush, hc]
  cases hf : f (i + 1)
  · simp
  · simp; omega

/-- reusing the previous iteration's OBJECT instead of a duplicate breaks this as soon as that iteration sampled: the
    "frozen" iteration silently gets new seeds (the seeded defect; `decide`d witness: 1 sample pair, not fresh at 1) -/
theorem shared_object_not_frozen :
    seedsOf .shared (fun i => i != 1) (fun _ => 1) 1 ≠ seedsOf .shared (fun i => i != 1) (fun _ => 1) 0 := by decide

theorem seedsRepeatFrom_spec (c : Config) : ∀ len j,
    seedsRepeatFrom .duplicate c j len = (iterList (j + 1) len).map (fun i => !c.fresh i) := by
  intro len
  induction len with
  | zero => intro j; rfl
  | succ len ih =>
    intro j
    have h := seeds_equal_iff c.fresh c.spawns j
    simp only [seedsRepeatFrom, ih, iterList, List.range_succ_eq_map, List.map_cons, List.map_map]
    congr 1
    · simp only [h, Nat.zero_add]
      cases c.fresh (j + 1) <;> simp
    · apply List.map_congr_left
      intro k _
      simp [Nat.add_assoc, Nat.add_comm 1]

theorem precheck_of_valid (c : Config) (h : valid c = true) : precheck .repaired c = .ok () := by
  have := precheckB_iff_validB c.exportIsDict c.exportHasPickle c.initialIndexIsInt c.strategyValid c.outDir c.resume
    (decide (c.initialIndex < c.total)) (c.transitionsArity == 1) (c.inspectArity == 1 || c.inspectArity == 2)
    (c.terminateArity == 1) c.targetScalar c.sanity c.typesOk c.ctrlBad (c.fresh 0)
  unfold valid at h
  rw [h] at this
  unfold precheck
  revert this
  cases precheckB .repaired _ _ _ _ _ _ _ _ _ _ _ _ _ _ _ with
  | ok u => intro _; cases u; rfl
  | error e => intro h; cases h

/-- **every valid configuration runs to completion with the documented shape** (repaired driver) -/
theorem valid_accepted (c : Config) (h : valid c = true) : accepts .repaired c = .ok (expectedShape c) := by
  have hi : c.initialIndex < c.total := by
    simp only [valid, validB, Bool.and_eq_true, decide_eq_true_eq] at h
    exact h.1.1.1.1.1.1.2
  simp only [accepts, precheck_of_valid c h, expectedShape, loop_iterations, loop_balanced, seedsRepeatFrom_spec]
  have e : c.initialIndex + (c.total - c.initialIndex) = c.total := by omega
  have hv : (Version.repaired == Version.asFound) = false := by decide
  cases hd : c.dryRun <;> cases ht : c.terminateAt <;> simp [e, hv]

/-- an invalid configuration is rejected before the loop (with the kind of the first violated constraint, `precheck`) -/
theorem invalid_rejected_kind (c : Config) (h : valid c = false) : ∃ e, accepts .repaired c = .error e := by
  have : precheck .repaired c ≠ .ok () := by
    intro hp
    have := precheckB_iff_validB c.exportIsDict c.exportHasPickle c.initialIndexIsInt c.strategyValid c.outDir c.resume
      (decide (c.initialIndex < c.total)) (c.transitionsArity == 1) (c.inspectArity == 1 || c.inspectArity == 2)
      (c.terminateArity == 1) c.targetScalar c.sanity c.typesOk c.ctrlBad (c.fresh 0)
    unfold precheck at hp
    unfold valid at h
    rw [hp, h] at this
    cases this
  unfold accepts
  cases hp : precheck .repaired c with
  | error e => exact ⟨e, rfl⟩
  | ok u => cases u; exact (this hp).elim

/-- and only invalid configurations are rejected -/
theorem rejected_only_invalid (c : Config) (e : ErrKind) (h : accepts .repaired c = .error e) : valid c = false := by
  cases hv : valid c
  · rfl
  · rw [valid_accepted c hv] at h; cases h

/-- **the global RNG stack is left as it was found** by every call that returns (repaired driver) -/
theorem rng_stack_balanced (c : Config) (s : Shape) (h : accepts .repaired c = .ok s) : s.stackDelta = 0 := by
  unfold accepts at h
  cases hp : precheck .repaired c with
  | error e => rw [hp] at h; cases h
  | ok u =>
    rw [hp] at h
    injection h with h
    rw [← h]; exact loop_balanced c _ _

/-- one field of the shape of an accepted call (none = rejected) -/
def field {α : Type} (f : Shape → α) (v : Version) (c : Config) : Option α :=
  match accepts v c with
  | .ok s => some (f s)
  | .error _ => none

/-- non-vacuity: a valid configuration with output directory, MAP iterations, early termination and final position -/
example :
    let c : Config := { total := 4, initialIndex := 1, outDir := true, nSamplesAt := [3, 2, 0, 1],
                        ctrlNoneAt := [false, false, true, false], terminateAt := some 2, returnFinal := true,
                        inspectArity := 2, hasInspect := true, hasTerminate := true, hasTransitions := true,
                        freshAt := [true, true, false, true] }
    valid c = true ∧ field (·.iterations) .repaired c = some 2 ∧ field (·.nResult) .repaired c = some 1 ∧
      field (·.arity) .repaired c = some 2 ∧ field (·.stackDelta) .repaired c = some 0 ∧
      field (·.seedsRepeat) .repaired c = some [true] ∧ field (·.inspectCalls) .repaired c = some [1, 2] ∧
      field (·.transitionCalls) .repaired c = some [1, 2] := by decide

/-! **The driver as found violates the property** (documented witnesses, replayed on the real code by the check) -/

/-- `dry_run=True`: every iteration pushes a seed sequence and `continue`s past `pop_sseq()` -/
theorem asFound_dry_run_unbalanced :
    field (·.stackDelta) .asFound { total := 2, initialIndex := 0, dryRun := true } = some 2 ∧
    field (·.iterations) .asFound { total := 2, initialIndex := 0, dryRun := true } = some 0 := by decide

/-- `terminate_callback` returning True: `break` skips `pop_sseq()` -/
theorem asFound_terminate_unbalanced :
    field (·.stackDelta) .asFound { total := 3, initialIndex := 0, terminateAt := some 1 } = some 1 ∧
    field (·.iterations) .asFound { total := 3, initialIndex := 0, terminateAt := some 1 } = some 2 := by decide

/-- `sanity_checks=False` with an output directory: the non-resume branch uses the loop variable of the skipped loop -/
theorem asFound_sanity_false_unbound :
    valid { total := 2, initialIndex := 0, outDir := true, sanity := false } = true ∧
    accepts .asFound { total := 2, initialIndex := 0, outDir := true, sanity := false } = .error .unboundLocalError := by
  decide

/-- `output_directory=None` after an earlier call with an output directory: files are still written (into the old one) -/
theorem asFound_stale_output_directory :
    field (·.writesFiles) .asFound { total := 2, initialIndex := 0, prevOutDir := true } = some true ∧
    field (·.writesFiles) .repaired { total := 2, initialIndex := 0, prevOutDir := true } = some false := by decide

end NiftyVerif.C27
