/-
  C27 — The classic VI driver accepts every documented configuration.
  Property theorems only; model: Model/DriverCfg.lean.  Obligations: harness/props/c27.py.
  `.repaired` = /repo with fixes/C27_rng_stack_balance.diff, C27_sanity_false_unbound.diff, C27_stale_output_directory.diff;
  `.asFound` = /repo as it is.
-/
import NiftyVerif.Model.DriverCfg
import Mathlib.Tactic.Ring
import Mathlib.Tactic.Linarith

namespace NiftyVerif.C27
open NiftyVerif.DriverCfg

/-- the repaired loop pops what it pushed on every exit path: normal end, `dry_run`'s continue, `terminate_callback`'s
    break — for every number of iterations and every termination point -/
theorem loop_balanced (c : Config) : ∀ fuel j, (loopEffect .repaired c fuel j).2 = 0 := by
  intro fuel
  induction fuel with
  | zero => intro j; rfl
  | succ fuel ih =>
    intro j
    simp only [loopEffect]
    split
    · simp [ih]
    · split
      · simp
      · simp [ih]

/-- number of iterations really carried out -/
theorem loop_iterations (v : Version) (c : Config) : ∀ fuel j, (loopEffect v c fuel j).1 =
    if c.dryRun then 0 else
      match c.terminateAt with
      | some t => if j ≤ t ∧ t < j + fuel then t - j + 1 else fuel
      | none => fuel := by
  intro fuel
  induction fuel with
  | zero =>
    intro j
    cases c.dryRun <;> cases c.terminateAt <;> simp [loopEffect]
  | succ fuel ih =>
    intro j
    simp only [loopEffect]
    cases hd : c.dryRun
    · cases ht : c.terminateAt with
      | none => simp [ih, hd, ht]
      | some t =>
        by_cases hjt : t = j
        · subst hjt; simp [hd, ht]
        · have hb : (some t == some j) = false := by simp [hjt]
          simp only [hd, ht, hb, ih, Bool.false_eq_true, if_false]
          by_cases h1 : j + 1 ≤ t ∧ t < j + 1 + fuel
          · have h2 : j ≤ t ∧ t < j + (fuel + 1) := by omega
            simp only [h1, h2, and_self, if_true]; omega
          · have h2 : ¬ (j ≤ t ∧ t < j + (fuel + 1)) := by omega
            simp only [h1, h2, if_false]
    · simp [ih, hd]

/-- the pre-loop checks of the repaired driver accept exactly the valid configurations: complete finite table
    (2^15 Boolean fact combinations), checked by the kernel -/
theorem precheckB_iff_validB : ∀ (a b c d e f g h i j k l m n o : Bool),
    isOk (precheckB .repaired a b c d e f g h i j k l m n o) = validB a b c d e f g h i j k l m n o := by
  decide +kernel

theorem precheck_of_valid (c : Config) (h : valid c = true) : precheck .repaired c = .ok () := by
  have := precheckB_iff_validB c.exportIsDict c.exportHasPickle c.initialIndexIsInt c.strategyValid c.outDir c.resume
    (decide (c.initialIndex < c.total)) (c.transitionsArity == 1) (c.inspectArity == 1 || c.inspectArity == 2)
    (c.terminateArity == 1) c.targetScalar c.sanity c.typesOk c.ctrlBad c.fresh0
  unfold valid at h
  rw [h] at this
  unfold precheck
  revert this
  cases precheckB .repaired _ _ _ _ _ _ _ _ _ _ _ _ _ _ _ with
  | ok u => intro _; cases u; rfl
  | error e => intro h; cases h

/-- **every valid configuration runs to completion with the documented shape** (repaired driver) -/
theorem valid_accepted (c : Config) (h : valid c = true) : accepts .repaired c = .ok (expectedShape c) := by
  have hi : c.initialIndex < c.total := by
    simp only [valid, validB, Bool.and_eq_true, decide_eq_true_eq] at h
    exact h.1.1.1.1.1.1.2
  simp only [accepts, precheck_of_valid c h, expectedShape, loop_iterations, loop_balanced]
  have e : c.initialIndex + (c.total - c.initialIndex) = c.total := by omega
  have hv : (Version.repaired == Version.asFound) = false := by decide
  cases hd : c.dryRun <;> cases ht : c.terminateAt <;> simp [e, hv]

/-- an invalid configuration is rejected before the loop (with the kind of the first violated constraint, `precheck`) -/
theorem invalid_rejected_kind (c : Config) (h : valid c = false) : ∃ e, accepts .repaired c = .error e := by
  have : precheck .repaired c ≠ .ok () := by
    intro hp
    have := precheckB_iff_validB c.exportIsDict c.exportHasPickle c.initialIndexIsInt c.strategyValid c.outDir c.resume
      (decide (c.initialIndex < c.total)) (c.transitionsArity == 1) (c.inspectArity == 1 || c.inspectArity == 2)
      (c.terminateArity == 1) c.targetScalar c.sanity c.typesOk c.ctrlBad c.fresh0
    unfold precheck at hp
    unfold valid at h
    rw [hp, h] at this
    cases this
  unfold accepts
  cases hp : precheck .repaired c with
  | error e => exact ⟨e, rfl⟩
  | ok u => cases u; exact (this hp).elim

/-- and only invalid configurations are rejected -/
theorem rejected_only_invalid (c : Config) (e : ErrKind) (h : accepts .repaired c = .error e) : valid c = false := by
  cases hv : valid c
  · rfl
  · rw [valid_accepted c hv] at h; cases h

/-- **the global RNG stack is left as it was found** by every call that returns (repaired driver) -/
theorem rng_stack_balanced (c : Config) (s : Shape) (h : accepts .repaired c = .ok s) : s.stackDelta = 0 := by
  unfold accepts at h
  cases hp : precheck .repaired c with
  | error e => rw [hp] at h; cases h
  | ok u =>
    rw [hp] at h
    injection h with h
    rw [← h]; exact loop_balanced c _ _

/-- non-vacuity: a valid configuration with output directory, MAP iterations, early termination and final position -/
example : valid { total := 4, initialIndex := 1, outDir := true, nSamplesAt := [3, 2, 0, 1],
                  ctrlNoneAt := [false, false, true, false], terminateAt := some 2, returnFinal := true,
                  inspectArity := 2 } = true ∧
    accepts .repaired { total := 4, initialIndex := 1, outDir := true, nSamplesAt := [3, 2, 0, 1],
                        ctrlNoneAt := [false, false, true, false], terminateAt := some 2, returnFinal := true,
                        inspectArity := 2 } =
      .ok { iterations := 2, nResult := 1, arity := 2, writesFiles := true, stackDelta := 0 } := by decide

/-! **The driver as found violates the property** (documented witnesses, replayed on the real code by the check) -/

/-- `dry_run=True`: every iteration pushes a seed sequence and `continue`s past `pop_sseq()` -/
theorem asFound_dry_run_unbalanced :
    accepts .asFound { total := 2, initialIndex := 0, dryRun := true } =
      .ok { iterations := 0, nResult := 1, arity := 1, writesFiles := false, stackDelta := 2 } := by decide

/-- `terminate_callback` returning True: `break` skips `pop_sseq()` -/
theorem asFound_terminate_unbalanced :
    accepts .asFound { total := 3, initialIndex := 0, terminateAt := some 1 } =
      .ok { iterations := 2, nResult := 2, arity := 1, writesFiles := false, stackDelta := 1 } := by decide

/-- `sanity_checks=False` with an output directory: the non-resume branch uses the loop variable of the skipped loop -/
theorem asFound_sanity_false_unbound :
    valid { total := 2, initialIndex := 0, outDir := true, sanity := false } = true ∧
    accepts .asFound { total := 2, initialIndex := 0, outDir := true, sanity := false } = .error .unboundLocalError := by
  decide

/-- `output_directory=None` after an earlier call with an output directory: files are still written (into the old one) -/
theorem asFound_stale_output_directory :
    accepts .asFound { total := 2, initialIndex := 0, prevOutDir := true } =
      .ok { iterations := 2, nResult := 2, arity := 1, writesFiles := true, stackDelta := 0 } := by decide

end NiftyVerif.C27
