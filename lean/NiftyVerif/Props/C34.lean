/-
  C34 — Lanczos, stochastic log-determinant and ELBO estimators are exact in the limit.

  What is algebra and is proved here:
    * the Lanczos three-term relation `A v_i = β_{i-1} v_{i-1} + α_i v_i + β_i v_{i+1}` and unit norm of every Lanczos
      vector, for the recurrence as coded (exact arithmetic, no breakdown `β_i ≠ 0`);
    * Welford merge = summary of the concatenated sample;
    * Sylvester: `det(1 + Rᵀ Sᵀ S R) = det(1 + S R Rᵀ Sᵀ)` — signal- and data-space log-determinants agree;
    * the ELBO gap `Σ (κ_i − 1 − log κ_i) ≥ 0` with equality iff all `κ_i = 1` (ELBO ≤ log-evidence);
    * batch bookkeeping of a resumed eigen-computation: the remaining batches add up to exactly the missing eigenpairs.
  Outside: that the Ritz values of `T_n = Vᵀ A V` are the eigenvalues, Gauss quadrature exactness, `eigh/eigsh`.
-/
import NiftyVerif.Model.Lanczos
import NiftyVerif.Lemmas.GaussMarkov
import NiftyVerif.Lemmas.LanczosOrtho
import NiftyVerif.Lemmas.LanczosMoments
import Mathlib.LinearAlgebra.Matrix.SchurComplement
import Mathlib.Analysis.SpecialFunctions.Log.Basic

namespace NiftyVerif.C34
open NiftyVerif.Lanczos NiftyVerif.GaussMarkov

/-! ## Lanczos recurrence -/
section lanczos
variable {K V : Type} [Field K] [AddCommGroup V] [Module K V] (c : CovForm K V)
variable (A : V → V) (sqrt : K → K) (v1 : V)

local notation "vv" => basis A c.B sqrt v1
local notation "αα" => alphaAt A c.B sqrt v1
local notation "ββ" => betaAt A c.B sqrt v1

/-- the un-normalised new direction of step `i` -/
def wAt : Nat → V
  | 0 => A v1 - (αα 0) • v1
  | i + 1 => A (vv (i + 1)) - (αα (i + 1)) • vv (i + 1) - (ββ i) • vv i

theorem alpha_eq (i : Nat) : αα i = c.B (vv i) (A (vv i)) := by
  cases i with
  | zero => rfl
  | succ i => rfl

theorem beta_eq (i : Nat) : ββ i = sqrt (c.B (wAt c A sqrt v1 i) (wAt c A sqrt v1 i)) := by
  cases i with
  | zero => rfl
  | succ i =>
    simp only [betaAt, run, stepS, wAt, alphaAt, basis]
    cases i <;> rfl

theorem basis_succ (i : Nat) : vv (i + 1) = (1 / ββ i) • wAt c A sqrt v1 i := by
  cases i with
  | zero => rfl
  | succ i =>
    simp only [basis, betaAt, run, stepS, wAt, alphaAt]
    cases i <;> rfl

/-- **lanczos_relation** (column `i` of `A V = V T + β e`): the three-term recurrence holds exactly -/
theorem lanczos_relation (hb : ∀ i, ββ i ≠ 0) (i : Nat) :
    A (vv (i + 1)) = (ββ i) • vv i + (αα (i + 1)) • vv (i + 1) + (ββ (i + 1)) • vv (i + 2)
    ∧ A (vv 0) = (αα 0) • vv 0 + (ββ 0) • vv 1 := by
  constructor
  · rw [basis_succ c A sqrt v1 (i + 1), smul_smul, mul_one_div_cancel (hb (i + 1)), one_smul]
    simp only [wAt]; abel
  · rw [basis_succ c A sqrt v1 0, smul_smul, mul_one_div_cancel (hb 0), one_smul]
    simp only [wAt, basis]; abel

/-- every Lanczos vector has unit norm -/
theorem lanczos_unit_norm (hb : ∀ i, ββ i ≠ 0)
    (hs : ∀ i, ββ i * ββ i = c.B (wAt c A sqrt v1 i) (wAt c A sqrt v1 i)) (h1 : c.B v1 v1 = 1) (i : Nat) :
    c.B (vv i) (vv i) = 1 := by
  cases i with
  | zero => exact h1
  | succ i =>
    rw [basis_succ c A sqrt v1 i, c.smul_left, c.smul_right, ← hs i]
    field_simp [hb i]

/-- consecutive Lanczos vectors are orthogonal (the local part of orthonormality; it needs no self-adjointness) -/
theorem lanczos_consecutive_orthogonal (hb : ∀ i, ββ i ≠ 0)
    (hs : ∀ i, ββ i * ββ i = c.B (wAt c A sqrt v1 i) (wAt c A sqrt v1 i)) (h1 : c.B v1 v1 = 1) (i : Nat) :
    c.B (vv i) (vv (i + 1)) = 0 := by
  have hn := lanczos_unit_norm c A sqrt v1 hb hs h1
  induction i with
  | zero =>
    rw [basis_succ c A sqrt v1 0, c.smul_right]
    simp only [wAt, c.add_right, sub_eq_add_neg]
    have : c.B (vv 0) (-((αα 0) • v1)) = -(αα 0 * c.B v1 v1) := by
      rw [show -((αα 0) • v1) = (-(αα 0)) • v1 by rw [neg_smul], c.smul_right]; simp [basis]
    rw [this, h1, alpha_eq]
    simp [basis]
  | succ i ih =>
    rw [basis_succ c A sqrt v1 (i + 1), c.smul_right]
    have hw : c.B (vv (i + 1)) (wAt c A sqrt v1 (i + 1)) = 0 := by
      simp only [wAt, sub_eq_add_neg, c.add_right]
      rw [show -((αα (i + 1)) • vv (i + 1)) = (-(αα (i + 1))) • vv (i + 1) by rw [neg_smul],
        show -((ββ i) • vv i) = (-(ββ i)) • vv i by rw [neg_smul], c.smul_right, c.smul_right, hn (i + 1),
        c.symm (vv (i + 1)) (vv i), ih, alpha_eq]
      ring
    rw [hw, mul_zero]

/-- **lanczos_orthonormal**: for a self-adjoint operator the Lanczos vectors of the recurrence as coded are orthonormal,
    `⟨v_j, v_k⟩ = δ_jk` for ALL `j, k` (exact arithmetic, no breakdown) -/
theorem lanczos_orthonormal (hA : ∀ x y, c.B (A x) y = c.B x (A y)) (hb : ∀ i, ββ i ≠ 0)
    (hs : ∀ i, ββ i * ββ i = c.B (wVec c A sqrt v1 i) (wVec c A sqrt v1 i)) (h1 : c.B v1 v1 = 1) (j k : Nat) :
    c.B (vv j) (vv k) = if j = k then 1 else 0 :=
  Lanczos.lanczos_orthonormal c A sqrt v1 hA hb hs h1 (max j k) j k (le_max_left _ _) (le_max_right _ _)

/-- **lanczos_tridiagonal**: `T = Vᵀ A V` has exactly the entries `β_i, α_{i+1}, β_{i+1}` in column `i+1` and zeros elsewhere -/
theorem lanczos_tridiagonal (hA : ∀ x y, c.B (A x) y = c.B x (A y)) (hb : ∀ i, ββ i ≠ 0)
    (hs : ∀ i, ββ i * ββ i = c.B (wVec c A sqrt v1 i) (wVec c A sqrt v1 i)) (h1 : c.B v1 v1 = 1) (i k : Nat) :
    c.B (vv k) (A (vv (i + 1)))
      = if k = i then ββ i else if k = i + 1 then αα (i + 1) else if k = i + 2 then ββ (i + 1) else 0 :=
  Lanczos.tridiagonal_entries c A sqrt v1 hA hb hs h1 i k

end lanczos

/-! ## exactness of the quadrature at full order -/
section quadrature
open Matrix
variable {n : Type} [Fintype n] [DecidableEq n]

/-- **quadrature_exact_full_order**: when the Lanczos basis fills the space (`V Vᵀ = 1`, order = dimension) and `T = Vᵀ A V`,
    then `p(T) = Vᵀ p(A) V` for every polynomial `p`; entry `(1,1)` is the stochastic-Lanczos-quadrature value
    `e₁ᵀ p(T) e₁ = v₁ᵀ p(A) v₁` — the estimator is exact for every function of the (finite) spectrum -/
theorem quadrature_exact_full_order (A V : Matrix n n ℝ) (hV : V * Vᵀ = 1) (p : Polynomial ℝ) :
    Polynomial.aeval (Vᵀ * A * V) p = Vᵀ * Polynomial.aeval A p * V :=
  Lanczos.conj_aeval A V hV p

/-- moment form: `(T^k)_{ij} = v_iᵀ A^k v_j` for all `k` -/
theorem quadrature_moments (A V : Matrix n n ℝ) (hV : V * Vᵀ = 1) (k : ℕ) (i j : n) :
    ((Vᵀ * A * V) ^ k) i j = (fun a => V a i) ⬝ᵥ (A ^ k) *ᵥ (fun b => V b j) :=
  Lanczos.full_order_moments A V hV k i j

end quadrature

/-! ## Welford merge -/
section welford
variable {K : Type} [Field K]

/-- **welford_merge**: merging the summaries of two samples (given by their power sums) is the summary of the union -/
theorem welford_merge (s1a s2a na s1b s2b nb : K) (ha : na ≠ 0) (hb : nb ≠ 0) (hab : na + nb ≠ 0) :
    welfordMerge (welfordOfSums s1a s2a na) (welfordOfSums s1b s2b nb)
      = welfordOfSums (s1a + s1b) (s2a + s2b) (na + nb) := by
  simp only [welfordMerge, welfordOfSums, WState.mk.injEq, and_true]
  constructor
  · field_simp
  · field_simp
    ring

/-- merging with the empty summary `(0,0,0)` (`_welford_init`) returns the other summary -/
theorem welford_merge_init (s1 s2 n : K) (hn : n ≠ 0) :
    welfordMerge ⟨0, 0, 0⟩ (welfordOfSums s1 s2 n) = welfordOfSums s1 s2 n := by
  simp only [welfordMerge, welfordOfSums, WState.mk.injEq]
  refine ⟨?_, ?_, ?_⟩
  · rw [zero_mul, zero_add, zero_add]; field_simp
  · simp
  · ring

end welford

/-! ## signal space vs data space -/
section sylvester
open Matrix
variable {m n : Type} [Fintype m] [Fintype n] [DecidableEq m] [DecidableEq n]

/-- **sylvester_logdet**: the metric `1 + Rᵀ Sᵀ S R` (signal space) and `1 + S R Rᵀ Sᵀ` (data space, `SᵀS = N⁻¹`) have the
    same determinant, hence the same log-determinant / `Σ log λ = Σ log1p μ` -/
theorem sylvester_logdet (R : Matrix m n ℝ) (S : Matrix m m ℝ) :
    det (1 + Rᵀ * Sᵀ * (S * R)) = det (1 + S * R * (Rᵀ * Sᵀ)) :=
  det_one_add_mul_comm (Rᵀ * Sᵀ) (S * R)

end sylvester

/-! ## ELBO ≤ log-evidence -/
section elbo
open Real

/-- closed form of the gap for a Gaussian approximation `q = 𝒩(μ, Σ)` of a Gaussian posterior `𝒩(m, D⁻¹)` in the
    eigenbasis of `D Σ` (eigenvalues `κ_i`), with `quad = (μ−m)ᵀ D (μ−m)`:
    `log Z − ELBO(q) = ½ quad + ½ Σ (κ_i − 1 − log κ_i)` -/
noncomputable def elboGap {k : Type} [Fintype k] (quad : ℝ) (κ : k → ℝ) : ℝ :=
  (1 / 2) * quad + (1 / 2) * ∑ i, (κ i - 1 - log (κ i))

/-- **elbo_le_evidence**: the gap is non-negative — the ELBO never exceeds the log-evidence -/
theorem elbo_le_evidence {k : Type} [Fintype k] (quad : ℝ) (hq : 0 ≤ quad) (κ : k → ℝ) (hκ : ∀ i, 0 < κ i) :
    0 ≤ elboGap quad κ := by
  unfold elboGap
  have : 0 ≤ ∑ i, (κ i - 1 - log (κ i)) :=
    Finset.sum_nonneg fun i _ => by have := log_le_sub_one_of_pos (hκ i); linarith
  linarith

/-- … and it is tight exactly for the true posterior: all `κ_i = 1` (covariance `D⁻¹`) and `μ = m` give gap `0` -/
theorem elbo_tight {k : Type} [Fintype k] : elboGap 0 (fun _ : k => (1 : ℝ)) = 0 := by
  simp [elboGap]

/-- **elbo_closed_form**: the estimator's expression `−½ Σ log λ + n/2 − ⟨H⟩` with `⟨H⟩ = H(m) + ½ tr(DΣ) + ½ quad`
    (Gaussian expectation of the quadratic Hamiltonian, `Σ = M⁻¹`, `κ = ` eigenvalues of `D M⁻¹`) equals
    `logZ − gap` with `logZ = −H(m) − ½ Σ log d_i`, `log λ_i = log d_i − log κ_i` -/
theorem elbo_closed_form {k : Type} [Fintype k] (Hm quad : ℝ) (d κ : k → ℝ) (hd : ∀ i, 0 < d i) (hκ : ∀ i, 0 < κ i) :
    (-(1 / 2) * ∑ i, log (d i / κ i)) + (Fintype.card k : ℝ) / 2 - (Hm + (1 / 2) * ∑ i, κ i + (1 / 2) * quad)
      = (-Hm - (1 / 2) * ∑ i, log (d i)) - elboGap quad κ := by
  unfold elboGap
  have h : ∀ i, log (d i / κ i) = log (d i) - log (κ i) := fun i =>
    log_div (ne_of_gt (hd i)) (ne_of_gt (hκ i))
  simp only [h, Finset.sum_sub_distrib, Finset.sum_const, Finset.card_univ, nsmul_eq_mul, mul_one]
  ring

end elbo

/-! ## resuming an eigen-computation -/

/-- **resume_concat**: the batches still to be computed after `skip` precomputed eigenpairs add up to exactly the missing
    ones — together with the code appending each batch (`np.concatenate`) the final list is `prefix ++ new` of total
    length `n_eigenvalues` -/
theorem resume_concat (bs : List Nat) (skip : Nat) (h : skip ≤ bs.sum) :
    (resumeBatches bs skip).sum = bs.sum - skip := by
  induction bs generalizing skip with
  | nil => simp [resumeBatches]
  | cons b bs ih =>
    simp only [resumeBatches, List.sum_cons] at h ⊢
    by_cases h1 : skip ≥ b
    · simp only [h1, if_true]
      rw [ih (skip - b) (by omega)]; omega
    · simp only [h1, if_false]
      by_cases h2 : skip > 0
      · simp only [h2, if_true, List.sum_cons]
        rw [ih 0 (by omega)]; omega
      · simp only [h2, if_false, List.sum_cons]
        rw [ih 0 (by omega)]; omega

/-- the un-resumed batches cover all requested eigenvalues -/
theorem fullBatches_sum (nEig nBatches : Nat) (hb : 0 < nBatches) : (fullBatches nEig nBatches).sum = nEig := by
  unfold fullBatches
  have hsum : ∀ l : List Nat, (l.filter (· > 0)).sum = l.sum := by
    intro l
    induction l with
    | nil => rfl
    | cons a l ih =>
      by_cases ha : a > 0
      · simp [List.filter, ha, ih]
      · have : a = 0 := by omega
        simp [List.filter, this, ih]
  rw [hsum, List.sum_append, List.sum_replicate, List.sum_replicate]
  simp only [smul_eq_mul]
  have hm := Nat.mod_lt nEig hb
  have := Nat.div_add_mod nEig nBatches
  have e : (nBatches - nEig % nBatches) * (nEig / nBatches) + nEig % nBatches * (nEig / nBatches)
      = nBatches * (nEig / nBatches) := by
    rw [← Nat.add_mul]; congr 1; omega
  nlinarith [e]

/-! ## non-vacuity -/
example : fullBatches 7 3 = [3, 2, 2] ∧ resumeBatches [3, 2, 2] 4 = [1, 2] := by decide
example : welfordMerge (welfordOfSums (3 : ℚ) 5 2) (welfordOfSums 4 16 1) = welfordOfSums (3 + 4) (5 + 16) (2 + 1) :=
  welford_merge (3 : ℚ) 5 2 4 16 1 (by norm_num) (by norm_num) (by norm_num)

end NiftyVerif.C34
