/-
  C03 (part i) — the point-wise derivative table.
  `Gen/Pointwise.lean` is regenerated from nifty/cl/pointwise.py::ptw_dict on every run (translator T2):
  `val_f` is what `Field.ptw` evaluates, `(hval_f, der_f)` is the pair the helper hands to `Linearization.ptw`.
  For every entry: `hval_f = val_f` (linearised value = plain value) and `HasDerivAt val_f (der_f x) x` on the
  entry's valid range, over ℝ with Mathlib's special functions (`Lemmas/TranscReal.lean` instance).
  A wrong derivative in the table breaks the corresponding proof.
-/
import NiftyVerif.Gen.Pointwise
import NiftyVerif.Lemmas.TranscReal
import NiftyVerif.Lemmas.SciLit

set_option linter.unusedSimpArgs false
namespace NiftyVerif.C03
open NiftyVerif NiftyVerif.Gen.Ptw NiftyVerif.TranscReal

/-! ### linearised value = plain value, for every entry and every number type -/
section hval
variable {K : Type} [Transc K] [Add K] [Sub K] [Mul K] [Div K] [Neg K] [OfScientific K]
  [LT K] [DecidableLT K] [LE K] [DecidableLE K]

/-- the helper's first component is the plain function, for all 24 entries (all arguments, all `K`) -/
theorem ptw_hval_eq_val (v a b : K) :
    hval_sqrt v = val_sqrt v ∧ hval_sin v = val_sin v ∧ hval_cos v = val_cos v ∧ hval_tan v = val_tan v ∧
    hval_sinc v = val_sinc v ∧ hval_exp v = val_exp v ∧ hval_expm1 v = val_expm1 v ∧ hval_log v = val_log v ∧
    hval_log10 v = val_log10 v ∧ hval_log1p v = val_log1p v ∧ hval_sinh v = val_sinh v ∧
    hval_cosh v = val_cosh v ∧ hval_tanh v = val_tanh v ∧ hval_sigmoid v = val_sigmoid v ∧
    hval_reciprocal v = val_reciprocal v ∧ hval_abs v = val_abs v ∧ hval_absolute v = val_absolute v ∧
    hval_sign v = val_sign v ∧ hval_power v a = val_power v a ∧ hval_clip v a b = val_clip v a b ∧
    hval_softplus v = val_softplus v ∧ hval_exponentiate v a = val_exponentiate v a ∧
    hval_arctan v = val_arctan v ∧ hval_unitstep v = val_unitstep v := by
  refine ⟨rfl, rfl, rfl, rfl, rfl, rfl, rfl, rfl, rfl, rfl, rfl, rfl, rfl, rfl, rfl, rfl, rfl, rfl, rfl, rfl,
    rfl, rfl, rfl, rfl⟩
end hval

/-! ### derivatives over ℝ -/

theorem ptw_hasDerivAt_sqrt (x : ℝ) (hx : 0 < x) : HasDerivAt (fun v => val_sqrt v) (der_sqrt x) x := by
  simp only [val_sqrt, der_sqrt, sqrt_eq]; sci_norm
  refine HasDerivAt.congr_deriv (Real.hasDerivAt_sqrt hx.ne') ?_
  have : Real.sqrt x ≠ 0 := (Real.sqrt_pos.mpr hx).ne'
  field_simp

theorem ptw_hasDerivAt_sin (x : ℝ) : HasDerivAt (fun v => val_sin v) (der_sin x) x := by
  simp only [val_sin, der_sin, sin_eq, cos_eq]; exact Real.hasDerivAt_sin x

theorem ptw_hasDerivAt_cos (x : ℝ) : HasDerivAt (fun v => val_cos v) (der_cos x) x := by
  simp only [val_cos, der_cos, sin_eq, cos_eq]; exact Real.hasDerivAt_cos x

theorem ptw_hasDerivAt_tan (x : ℝ) (hx : Real.cos x ≠ 0) : HasDerivAt (fun v => val_tan v) (der_tan x) x := by
  simp only [val_tan, der_tan, tan_eq, cos_eq]; sci_norm
  refine HasDerivAt.congr_deriv (Real.hasDerivAt_tan hx) ?_
  rw [pow_two]

theorem ptw_hasDerivAt_exp (x : ℝ) : HasDerivAt (fun v => val_exp v) (der_exp x) x := by
  simp only [val_exp, der_exp, exp_eq]; exact Real.hasDerivAt_exp x

theorem ptw_hasDerivAt_expm1 (x : ℝ) : HasDerivAt (fun v => val_expm1 v) (der_expm1 x) x := by
  simp only [val_expm1, der_expm1, Np.expm1, exp_eq]; sci_norm
  refine HasDerivAt.congr_deriv ((Real.hasDerivAt_exp x).sub_const (1 : ℝ)) ?_
  ring

theorem ptw_hasDerivAt_log (x : ℝ) (hx : 0 < x) : HasDerivAt (fun v => val_log v) (der_log x) x := by
  simp only [val_log, der_log, log_eq]; sci_norm
  refine HasDerivAt.congr_deriv (Real.hasDerivAt_log hx.ne') ?_
  rw [one_div]

theorem ptw_hasDerivAt_log10 (x : ℝ) (hx : 0 < x) : HasDerivAt (fun v => val_log10 v) (der_log10 x) x := by
  simp only [val_log10, der_log10, Np.log10, log_eq]; sci_norm
  refine HasDerivAt.congr_deriv ((Real.hasDerivAt_log hx.ne').div_const (Real.log (10 : ℝ))) ?_
  have h10 : Real.log (10 : ℝ) ≠ 0 := (Real.log_pos (by norm_num)).ne'
  field_simp

theorem ptw_hasDerivAt_log1p (x : ℝ) (hx : -1 < x) : HasDerivAt (fun v => val_log1p v) (der_log1p x) x := by
  simp only [val_log1p, der_log1p, Np.log1p, log_eq]; sci_norm
  have h1 : (1 : ℝ) + x ≠ 0 := by linarith
  refine HasDerivAt.congr_deriv (((hasDerivAt_id x).const_add (1 : ℝ)).log h1) ?_
  simp only [id_eq]

theorem ptw_hasDerivAt_sinh (x : ℝ) : HasDerivAt (fun v => val_sinh v) (der_sinh x) x := by
  simp only [val_sinh, der_sinh, sinh_eq, cosh_eq]; exact Real.hasDerivAt_sinh x

theorem ptw_hasDerivAt_cosh (x : ℝ) : HasDerivAt (fun v => val_cosh v) (der_cosh x) x := by
  simp only [val_cosh, der_cosh, sinh_eq, cosh_eq]; exact Real.hasDerivAt_cosh x

theorem ptw_hasDerivAt_tanh (x : ℝ) : HasDerivAt (fun v => val_tanh v) (der_tanh x) x := by
  simp only [val_tanh, der_tanh, tanh_eq]; sci_norm
  refine HasDerivAt.congr_deriv (hasDerivAt_tanh x) ?_
  ring

theorem ptw_hasDerivAt_sigmoid (x : ℝ) : HasDerivAt (fun v => val_sigmoid v) (der_sigmoid x) x := by
  simp only [val_sigmoid, der_sigmoid, tanh_eq]; sci_norm
  refine HasDerivAt.congr_deriv (((hasDerivAt_tanh x).const_mul (1 / 2 : ℝ)).const_add (1 / 2 : ℝ)) ?_
  ring

theorem ptw_hasDerivAt_reciprocal (x : ℝ) (hx : x ≠ 0) :
    HasDerivAt (fun v => val_reciprocal v) (der_reciprocal x) x := by
  simp only [val_reciprocal, der_reciprocal]; sci_norm
  refine HasDerivAt.congr_deriv ((hasDerivAt_const x (1 : ℝ)).div (hasDerivAt_id x) hx) ?_
  field_simp; ring

theorem ptw_hasDerivAt_arctan (x : ℝ) : HasDerivAt (fun v => val_arctan v) (der_arctan x) x := by
  simp only [val_arctan, der_arctan, arctan_eq]; sci_norm
  refine HasDerivAt.congr_deriv (Real.hasDerivAt_arctan x) ?_
  rw [pow_two]

/-- `power`: `v ↦ v ^ p` for `0 < v` (NumPy returns NaN for negative bases and non-integer exponents) -/
theorem ptw_hasDerivAt_power (x p : ℝ) (hx : 0 < x) :
    HasDerivAt (fun v => val_power v p) (der_power x p) x := by
  simp only [val_power, der_power, pow_eq]; sci_norm
  exact Real.hasDerivAt_rpow_const (p := p) (Or.inl hx.ne')

/-- `exponentiate`: `v ↦ base ^ v` for `0 < base` -/
theorem ptw_hasDerivAt_exponentiate (x b : ℝ) (hb : 0 < b) :
    HasDerivAt (fun v => val_exponentiate v b) (der_exponentiate x b) x := by
  simp only [val_exponentiate, der_exponentiate, pow_eq, log_eq]
  refine HasDerivAt.congr_deriv (Real.hasStrictDerivAt_const_rpow hb x).hasDerivAt ?_
  ring

/-! ### piecewise entries: each open piece, and the documented values at the kinks -/

@[simp] theorem nan_real : (Transc.nan : ℝ) = 0 := rfl

theorem ptw_hasDerivAt_abs (x : ℝ) (hx : x ≠ 0) : HasDerivAt (fun v => val_abs v) (der_abs x) x := by
  simp only [val_abs, der_abs, Np.abs, Np.sign]; sci_norm
  rcases lt_or_gt_of_ne hx with h | h
  · have e : (fun v : ℝ => if v < 0 then -v else v) =ᶠ[nhds x] fun v => -v := by
      filter_upwards [gt_mem_nhds h] with v hv; simp [hv]
    refine HasDerivAt.congr_deriv ((hasDerivAt_neg x).congr_of_eventuallyEq e) ?_
    simp [h]
  · have e : (fun v : ℝ => if v < 0 then -v else v) =ᶠ[nhds x] fun v => v := by
      filter_upwards [lt_mem_nhds h] with v hv; simp [not_lt.mpr hv.le]
    refine HasDerivAt.congr_deriv ((hasDerivAt_id' x).congr_of_eventuallyEq e) ?_
    simp [h, not_lt.mpr h.le]

theorem ptw_hasDerivAt_absolute (x : ℝ) (hx : x ≠ 0) :
    HasDerivAt (fun v => val_absolute v) (der_absolute x) x := ptw_hasDerivAt_abs x hx

/-- at the kink NumPy's helper returns NaN ("derivative undefined"), as the docstring of `abs` says -/
theorem ptw_kink_abs {K : Type} [Transc K] [Add K] [Sub K] [Mul K] [Div K] [Neg K] [OfScientific K]
    [LT K] [DecidableLT K] [LE K] [DecidableLE K] (v : K) (h1 : ¬ v < (0.0 : K)) (h2 : ¬ (0.0 : K) < v) :
    der_abs v = Transc.nan ∧ der_sign v = Transc.nan := by
  simp [der_abs, der_sign, h1, h2]

theorem ptw_hasDerivAt_sign (x : ℝ) (hx : x ≠ 0) : HasDerivAt (fun v => val_sign v) (der_sign x) x := by
  simp only [val_sign, der_sign, Np.sign]; sci_norm
  rcases lt_or_gt_of_ne hx with h | h
  · have e : (fun v : ℝ => if v < 0 then (-1 : ℝ) else if 0 < v then 1 else 0) =ᶠ[nhds x] fun _ => (-1 : ℝ) := by
      filter_upwards [gt_mem_nhds h] with v hv; simp [hv]
    refine HasDerivAt.congr_deriv ((hasDerivAt_const x (-1 : ℝ)).congr_of_eventuallyEq e) ?_
    simp [h]
  · have e : (fun v : ℝ => if v < 0 then (-1 : ℝ) else if 0 < v then 1 else 0) =ᶠ[nhds x] fun _ => (1 : ℝ) := by
      filter_upwards [lt_mem_nhds h] with v hv; simp [hv, not_lt.mpr hv.le]
    refine HasDerivAt.congr_deriv ((hasDerivAt_const x (1 : ℝ)).congr_of_eventuallyEq e) ?_
    simp [h, not_lt.mpr h.le]

theorem ptw_hasDerivAt_unitstep (x : ℝ) (hx : x ≠ 0) :
    HasDerivAt (fun v => val_unitstep v) (der_unitstep x) x := by
  simp only [val_unitstep, der_unitstep]; sci_norm
  rcases lt_or_gt_of_ne hx with h | h
  · have e : (fun v : ℝ => if 0 ≤ v then (1 : ℝ) else 0) =ᶠ[nhds x] fun _ => (0 : ℝ) := by
      filter_upwards [gt_mem_nhds h] with v hv; simp [not_le.mpr hv]
    exact (hasDerivAt_const x (0 : ℝ)).congr_of_eventuallyEq e
  · have e : (fun v : ℝ => if 0 ≤ v then (1 : ℝ) else 0) =ᶠ[nhds x] fun _ => (1 : ℝ) := by
      filter_upwards [lt_mem_nhds h] with v hv; simp [hv.le]
    exact (hasDerivAt_const x (1 : ℝ)).congr_of_eventuallyEq e

/-- `clip` below the lower bound: constant `a_min`, derivative 0 -/
theorem ptw_hasDerivAt_clip_below (x a b : ℝ) (hab : a < b) (hx : x < a) :
    HasDerivAt (fun v => val_clip v a b) (der_clip x a b) x := by
  have e : (fun v : ℝ => val_clip v a b) =ᶠ[nhds x] fun _ => a := by
    filter_upwards [gt_mem_nhds hx] with v hv
    simp [val_clip, Np.clip, Np.maximum, Np.minimum, hv, hab]
  refine HasDerivAt.congr_deriv ((hasDerivAt_const x a).congr_of_eventuallyEq e) ?_
  simp [der_clip, Np.clip, Np.maximum, Np.minimum, hx, hab, sci_0]

/-- `clip` strictly inside: identity, derivative 1 -/
theorem ptw_hasDerivAt_clip_inside (x a b : ℝ) (h1 : a < x) (h2 : x < b) :
    HasDerivAt (fun v => val_clip v a b) (der_clip x a b) x := by
  have e : (fun v : ℝ => val_clip v a b) =ᶠ[nhds x] fun v => v := by
    filter_upwards [lt_mem_nhds h1, gt_mem_nhds h2] with v hv1 hv2
    simp [val_clip, Np.clip, Np.maximum, Np.minimum, not_lt.mpr hv1.le, hv2]
  refine HasDerivAt.congr_deriv ((hasDerivAt_id' x).congr_of_eventuallyEq e) ?_
  simp [der_clip, Np.clip, Np.maximum, Np.minimum, not_lt.mpr h1.le, h2, h1, sci_0, sci_1]

/-- `clip` above the upper bound: constant `a_max`, derivative 0 -/
theorem ptw_hasDerivAt_clip_above (x a b : ℝ) (hab : a < b) (hx : b < x) :
    HasDerivAt (fun v => val_clip v a b) (der_clip x a b) x := by
  have e : (fun v : ℝ => val_clip v a b) =ᶠ[nhds x] fun _ => b := by
    filter_upwards [lt_mem_nhds hx] with v hv
    simp [val_clip, Np.clip, Np.maximum, Np.minimum, not_lt.mpr (hab.trans hv).le, not_lt.mpr hv.le]
  refine HasDerivAt.congr_deriv ((hasDerivAt_const x b).congr_of_eventuallyEq e) ?_
  simp [der_clip, Np.clip, Np.maximum, Np.minimum, not_lt.mpr (hab.trans hx).le, not_lt.mpr hx.le, sci_0]

/-- documented values at the kinks of `clip`: the derivative is 0 on both bounds -/
theorem ptw_kink_clip (a b : ℝ) (hab : a < b) : der_clip a a b = 0 ∧ der_clip b a b = 0 := by
  constructor
  · simp [der_clip, Np.clip, Np.maximum, Np.minimum, hab, sci_0]
  · simp [der_clip, Np.clip, Np.maximum, Np.minimum, hab, not_lt.mpr hab.le, sci_0]

/-- `softplus`, lower cut-off `v < -33`: the coded value is the constant 0 -/
theorem ptw_hasDerivAt_softplus_low (x : ℝ) (hx : x < -33) :
    HasDerivAt (fun v => val_softplus v) (der_softplus x) x := by
  have e : (fun v : ℝ => val_softplus v) =ᶠ[nhds x] fun _ => (0 : ℝ) := by
    filter_upwards [gt_mem_nhds hx] with v hv
    simp [val_softplus, sci_33, sci_0, hv]
  refine HasDerivAt.congr_deriv ((hasDerivAt_const x (0 : ℝ)).congr_of_eventuallyEq e) ?_
  simp [der_softplus, sci_33, sci_0, hx]

/-- `softplus`, upper cut-off `33 < v`: the coded value is the identity -/
theorem ptw_hasDerivAt_softplus_high (x : ℝ) (hx : 33 < x) :
    HasDerivAt (fun v => val_softplus v) (der_softplus x) x := by
  have e : (fun v : ℝ => val_softplus v) =ᶠ[nhds x] fun v => v := by
    filter_upwards [lt_mem_nhds hx] with v hv
    have : ¬ v < -33 := by linarith
    simp [val_softplus, sci_33, sci_0, sci_1, hv, this]
  refine HasDerivAt.congr_deriv ((hasDerivAt_id' x).congr_of_eventuallyEq e) ?_
  have : ¬ x < -33 := by linarith
  simp [der_softplus, sci_33, sci_0, sci_1, hx, this]

/-- `softplus`, middle piece `-33 < v < 33`: `log (1 + exp v)` with derivative `1 / (1 + exp (-v))` -/
theorem ptw_hasDerivAt_softplus_mid (x : ℝ) (h1 : -33 < x) (h2 : x < 33) :
    HasDerivAt (fun v => val_softplus v) (der_softplus x) x := by
  have e : (fun v : ℝ => val_softplus v) =ᶠ[nhds x] fun v => Real.log (1 + Real.exp v) := by
    filter_upwards [lt_mem_nhds h1, gt_mem_nhds h2] with v hv1 hv2
    simp [val_softplus, sci_33, sci_0, sci_1, not_lt.mpr hv1.le, not_lt.mpr hv2.le]
  have hpos : (1 : ℝ) + Real.exp x ≠ 0 := by positivity
  have hd := ((Real.hasDerivAt_exp x).const_add (1 : ℝ)).log hpos
  refine HasDerivAt.congr_deriv (hd.congr_of_eventuallyEq e) ?_
  simp only [der_softplus, sci_33, sci_0, sci_1, exp_eq, not_lt.mpr h1.le, not_lt.mpr h2.le, if_false,
    not_or, not_false_eq_true, and_self, if_true]
  rw [Real.exp_neg]
  have : Real.exp x ≠ 0 := (Real.exp_pos x).ne'
  field_simp
  ring

/-- `sinc` away from 0: `np.sinc v = sin(πv)/(πv)` -/
theorem ptw_hasDerivAt_sinc (x : ℝ) (hx : x ≠ 0) : HasDerivAt (fun v => val_sinc v) (der_sinc x) x := by
  have hx' : x < 0 ∨ 0 < x := lt_or_gt_of_ne hx
  have e : (fun v : ℝ => val_sinc v) =ᶠ[nhds x] fun v => Real.sin (Real.pi * v) / (Real.pi * v) := by
    filter_upwards [eventually_ne_nhds hx] with v hv
    have hv' : v < 0 ∨ 0 < v := lt_or_gt_of_ne hv
    simp [val_sinc, Np.sinc, sci_0, sci_1, hv']
  have hpx : Real.pi * x ≠ 0 := mul_ne_zero Real.pi_ne_zero hx
  have hin : HasDerivAt (fun v : ℝ => Real.pi * v) Real.pi x := by
    simpa using (hasDerivAt_id' x).const_mul Real.pi
  have hd := (hin.sin).div hin hpx
  refine HasDerivAt.congr_deriv (hd.congr_of_eventuallyEq e) ?_
  simp only [der_sinc, Np.sinc, sci_0, sci_1, hx', not_true_eq_false, if_false, if_true, cos_eq, sin_eq, pi_eq]
  field_simp

/-- documented value at 0: the helper stores derivative 0 there (the true derivative of sinc at 0) -/
theorem ptw_kink_sinc : der_sinc (0 : ℝ) = 0 := by
  simp [der_sinc, sci_0]

end NiftyVerif.C03
