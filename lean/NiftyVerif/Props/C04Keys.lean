/-
  C04 — "yields an operator on the remaining keys": the simplified operator reads exactly the non-constant keys of the original.
-/
import NiftyVerif.Props.C04Metric

set_option linter.unusedSimpArgs false
set_option linter.unusedVariables false
set_option linter.unusedSectionVars false
namespace NiftyVerif.C04
open NiftyVerif NiftyVerif.Gen.Ptw NiftyVerif.Expr

theorem mem_keys_union_iff {a b : Dom} {k : String} : k ∈ keys (a.union b) ↔ k ∈ keys a ∨ k ∈ keys b := by
  constructor
  · intro h
    obtain ⟨kn, hkn, he⟩ := List.mem_map.mp h
    rcases List.mem_append.mp hkn with h1 | h2
    · exact Or.inl (List.mem_map.mpr ⟨kn, h1, he⟩)
    · exact Or.inr (List.mem_map.mpr ⟨kn, (List.mem_filter.mp h2).1, he⟩)
  · rintro (h | h)
    · exact mem_keys_union_left h
    · exact mem_keys_union_right h

section
variable {K : Type} [Zero K] [Add K] [Sub K] [Mul K] [Div K] [Neg K] [OfScientific K]
  [LT K] [DecidableLT K] [LE K] [DecidableLE K] [Transc K] [Conj K]

/-- **domain**: the keys read by the simplified operator are the keys of the original that are not constant -/
theorem pe_keys (ck : List String) (cs : MVal K) (e : Ex K) :
    ∀ k : String, k ∈ keys (pe ck cs e).inDom ↔ (k ∈ keys e.inDom ∧ ck.contains k = false) := by
  have coll : ∀ (e e' : Ex K),
      (allConst ck e.inDom = false → noneConst ck e.inDom = false →
        ∀ k, k ∈ keys e'.inDom ↔ (k ∈ keys e.inDom ∧ ck.contains k = false)) →
      ∀ k, k ∈ keys (collapse ck cs e e').inDom ↔ (k ∈ keys e.inDom ∧ ck.contains k = false) := by
    intro e e' hyp k
    unfold collapse
    split
    · rename_i he
      have : e.inDom = [] := List.isEmpty_iff.mp he
      simp [keys, this]
    · split
      · rename_i _ ha
        constructor
        · intro h; simp [keys, Ex.inDom] at h
        · rintro ⟨hm, hc⟩
          obtain ⟨kn, hkn, he⟩ := List.mem_map.mp hm
          have := (List.all_eq_true.mp ha) kn hkn
          rw [he, hc] at this
          cases this
      · split
        · rename_i _ _ hn
          constructor
          · intro hm
            refine ⟨hm, ?_⟩
            obtain ⟨kn, hkn, he⟩ := List.mem_map.mp hm
            have := (List.all_eq_true.mp hn) kn hkn
            rw [he] at this
            simpa using this
          · exact fun h => h.1
        · rename_i _ ha hn
          exact hyp (by simpa using ha) (by simpa using hn) k
  have bin : ∀ (a b a' b' : Ex K),
      (∀ k, k ∈ keys a'.inDom ↔ (k ∈ keys a.inDom ∧ ck.contains k = false)) →
      (∀ k, k ∈ keys b'.inDom ↔ (k ∈ keys b.inDom ∧ ck.contains k = false)) →
      ∀ k, k ∈ keys (a'.inDom.union b'.inDom) ↔ (k ∈ keys (a.inDom.union b.inDom) ∧ ck.contains k = false) := by
    intro a b a' b' ha hb k
    rw [mem_keys_union_iff, mem_keys_union_iff, ha k, hb k]
    constructor
    · rintro (⟨h1, h2⟩ | ⟨h1, h2⟩)
      · exact ⟨Or.inl h1, h2⟩
      · exact ⟨Or.inr h1, h2⟩
    · rintro ⟨h1 | h1, h2⟩
      · exact Or.inl ⟨h1, h2⟩
      · exact Or.inr ⟨h1, h2⟩
  induction e with
  | var k0 n =>
    intro k; simp only [pe]
    exact coll (.var k0 n) (.var k0 n) (fun ha hn => (var_dichotomy ck k0 n ha hn).elim) k
  | add a b iha ihb => intro k; simp only [pe]; exact coll (.add a b) (.add (pe ck cs a) (pe ck cs b)) (fun _ _ => bin a b _ _ iha ihb) k
  | sub a b iha ihb => intro k; simp only [pe]; exact coll (.sub a b) (.sub (pe ck cs a) (pe ck cs b)) (fun _ _ => bin a b _ _ iha ihb) k
  | mul a b iha ihb => intro k; simp only [pe]; exact coll (.mul a b) (.mul (pe ck cs a) (pe ck cs b)) (fun _ _ => bin a b _ _ iha ihb) k
  | vdot a b iha ihb => intro k; simp only [pe]; exact coll (.vdot a b) (.vdot (pe ck cs a) (pe ck cs b)) (fun _ _ => bin a b _ _ iha ihb) k
  | scale c a iha => intro k; simp only [pe]; exact coll (.scale c a) (.scale c (pe ck cs a)) (fun _ _ => iha) k
  | addc c neg a iha => intro k; simp only [pe]; exact coll (.addc c neg a) (.addc c neg (pe ck cs a)) (fun _ _ => iha) k
  | mulc d a iha => intro k; simp only [pe]; exact coll (.mulc d a) (.mulc d (pe ck cs a)) (fun _ _ => iha) k
  | ptw f p a iha => intro k; simp only [pe]; exact coll (.ptw f p a) (.ptw f p (pe ck cs a)) (fun _ _ => iha) k
  | lin m n rows a iha => intro k; simp only [pe]; exact coll (.lin m n rows a) (.lin m n rows (pe ck cs a)) (fun _ _ => iha) k
  | sum a iha => intro k; simp only [pe]; exact coll (.sum a) (.sum (pe ck cs a)) (fun _ _ => iha) k
  | getKey k0 a iha => intro k; simp only [pe]; exact coll (.getKey k0 a) (.getKey k0 (pe ck cs a)) (fun _ _ => iha) k
  | putKey k0 a iha => intro k; simp only [pe]; exact coll (.putKey k0 a) (.putKey k0 (pe ck cs a)) (fun _ _ => iha) k
  | chain f g ihf ihg => intro k; simp only [pe]; exact coll (.chain f g) (.chain f (pe ck cs g)) (fun _ _ => ihg) k
  | sqnorm a iha => intro k; simp only [pe]; exact coll (.sqnorm a) (.sqnorm (pe ck cs a)) (fun _ _ => iha) k
  | quad d a iha => intro k; simp only [pe]; exact coll (.quad d a) (.quad d (pe ck cs a)) (fun _ _ => iha) k
  | gauss data icov a iha => intro k; simp only [pe]; exact coll (.gauss data icov a) (.gauss data icov (pe ck cs a)) (fun _ _ => iha) k
  | const en d v => intro k; simp [pe, keys, Ex.inDom]
  | bil m na nb T a b iha ihb =>
    intro k; simp only [pe]
    exact coll (.bil m na nb T a b) (.bil m na nb T (pe ck cs a) (pe ck cs b)) (fun _ _ => bin a b _ _ iha ihb) k
  | varcov n a b iha ihb =>
    intro k; simp only [pe]
    exact coll (.varcov n a b) (.varcov n (pe ck cs a) (pe ck cs b)) (fun _ _ => bin a b _ _ iha ihb) k
end

end NiftyVerif.C04
