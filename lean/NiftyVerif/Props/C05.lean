/-
  C05 — Operator-tree optimisation preserves semantics.
  Property theorems only; obligations are listed in harness/props/c05.py.
  The optimiser's output is validated per instance by the checker `isSharingOf` (translation validation); these theorems
  make a positive verdict mean equality of value and Jacobian at EVERY input, and equality of the domain.
-/
import NiftyVerif.Model.TreeShare

namespace NiftyVerif.C05
open NiftyVerif.TreeShare NiftyVerif.TreeShare.Ex

variable {V : Type} (add mul : V → V → V) (F : Nat → V → V)

theorem subst_letFree (k : Nat) (b e : Ex) (hb : letFree b = true) (he : letFree e = true) :
    letFree (subst k b e) = true := by
  induction e with
  | var j => simp only [subst]; split <;> simp_all [letFree]
  | leaf i a ih => simp_all [subst, letFree]
  | add x y ihx ihy => simp_all [subst, letFree]
  | mul x y ihx ihy => simp_all [subst, letFree]
  | letE j b2 body _ _ => simp [letFree] at he

theorem inlineAll_letFree (e : Ex) : letFree (inlineAll e) = true := by
  induction e with
  | var j => rfl
  | leaf i a ih => simpa [inlineAll, letFree] using ih
  | add x y ihx ihy => simp [inlineAll, letFree, ihx, ihy]
  | mul x y ihx ihy => simp [inlineAll, letFree, ihx, ihy]
  | letE j b body ihb ihbody => exact subst_letFree j _ _ ihb ihbody

/-- substitution = evaluation in the extended environment (value-level statement of `partial_insert`) -/
theorem share_sound (k : Nat) (b e : Ex) (he : letFree e = true) (ρ : Nat → V) :
    eval add mul F (subst k b e) ρ = eval add mul F e (fun j => if j = k then eval add mul F b ρ else ρ j) := by
  induction e with
  | var j => simp only [subst]; split <;> simp_all [eval]
  | leaf i a ih => simp_all [subst, eval, letFree]
  | add x y ihx ihy => simp_all [subst, eval, letFree]
  | mul x y ihx ihy => simp_all [subst, eval, letFree]
  | letE j b2 body _ _ => simp [letFree] at he

/-- expanding all inserted keys does not change the value, in any value domain, at any input -/
theorem inlineAll_sound (e : Ex) (ρ : Nat → V) : eval add mul F (inlineAll e) ρ = eval add mul F e ρ := by
  induction e generalizing ρ with
  | var j => rfl
  | leaf i a ih => simp [inlineAll, eval, ih]
  | add x y ihx ihy => simp [inlineAll, eval, ihx, ihy]
  | mul x y ihx ihy => simp [inlineAll, eval, ihx, ihy]
  | letE j b body ihb ihbody =>
    simp only [inlineAll, eval]
    rw [share_sound add mul F j _ _ (inlineAll_letFree body), ihbody, ihb]

/-- **soundness of the checker (values)**: a positive verdict means the optimised tree `e'` and the original `e` agree
    for every interpretation of the leaves, of `+` and `*`, and every input -/
theorem isSharingOf_sound (e e' : Ex) (h : isSharingOf e e' = true) (ρ : Nat → V) :
    eval add mul F e' ρ = eval add mul F e ρ := by
  simp only [isSharingOf, Bool.and_eq_true, decide_eq_true_eq] at h
  rw [← h.1.1]
  exact (inlineAll_sound add mul F e' ρ).symm

/-! #### Jacobians: evaluation over dual numbers `(value, directional derivative)` -/

/-- dual numbers over a value domain with the sum and product rules -/
def dadd {K : Type} (a : K → K → K) (x y : K × K) : K × K := (a x.1 y.1, a x.2 y.2)
def dmul {K : Type} (a m : K → K → K) (x y : K × K) : K × K := (m x.1 y.1, a (m x.1 y.2) (m x.2 y.1))
/-- a leaf `f` with derivative `f'` (chain rule) -/
def dleaf {K : Type} (m : K → K → K) (f f' : Nat → K → K) (i : Nat) (x : K × K) : K × K := (f i x.1, m (f' i x.1) x.2)

/-- **soundness of the checker (Jacobians)**: value and directional derivative (forward-mode push-forward through the
    tree, which is how `Linearization` computes Jacobians) agree at every input and in every direction -/
theorem isSharingOf_jac {K : Type} (a m : K → K → K) (f f' : Nat → K → K) (e e' : Ex) (h : isSharingOf e e' = true)
    (x dx : Nat → K) :
    eval (dadd a) (dmul a m) (dleaf m f f') e' (fun k => (x k, dx k)) =
    eval (dadd a) (dmul a m) (dleaf m f f') e (fun k => (x k, dx k)) :=
  isSharingOf_sound _ _ _ e e' h _

/-! #### domain -/

theorem mem_keys_subst (k : Nat) (b e : Ex) (he : letFree e = true) (j : Nat) :
    j ∈ keys (subst k b e) ↔ (j ∈ keys e ∧ j ≠ k) ∨ (k ∈ keys e ∧ j ∈ keys b) := by
  induction e with
  | var i =>
    simp only [subst]
    split
    · rename_i h; subst h; simp [keys]
    · rename_i h; simp only [keys, List.mem_singleton]
      constructor
      · intro hj; subst hj; exact Or.inl ⟨rfl, h⟩
      · rintro (⟨h1, _⟩ | ⟨h1, _⟩)
        · exact h1
        · exact absurd h1.symm h
  | leaf i a ih => simp_all [subst, keys, letFree]
  | add x y ihx ihy =>
    simp only [letFree, Bool.and_eq_true] at he
    simp only [subst, keys, List.mem_append, ihx he.1, ihy he.2]
    constructor
    · rintro ((h | h) | (h | h))
      · exact Or.inl ⟨Or.inl h.1, h.2⟩
      · exact Or.inr ⟨Or.inl h.1, h.2⟩
      · exact Or.inl ⟨Or.inr h.1, h.2⟩
      · exact Or.inr ⟨Or.inr h.1, h.2⟩
    · rintro (⟨h1 | h1, h2⟩ | ⟨h1 | h1, h2⟩)
      · exact Or.inl (Or.inl ⟨h1, h2⟩)
      · exact Or.inr (Or.inl ⟨h1, h2⟩)
      · exact Or.inl (Or.inr ⟨h1, h2⟩)
      · exact Or.inr (Or.inr ⟨h1, h2⟩)
  | mul x y ihx ihy =>
    simp only [letFree, Bool.and_eq_true] at he
    simp only [subst, keys, List.mem_append, ihx he.1, ihy he.2]
    constructor
    · rintro ((h | h) | (h | h))
      · exact Or.inl ⟨Or.inl h.1, h.2⟩
      · exact Or.inr ⟨Or.inl h.1, h.2⟩
      · exact Or.inl ⟨Or.inr h.1, h.2⟩
      · exact Or.inr ⟨Or.inr h.1, h.2⟩
    · rintro (⟨h1 | h1, h2⟩ | ⟨h1 | h1, h2⟩)
      · exact Or.inl (Or.inl ⟨h1, h2⟩)
      · exact Or.inr (Or.inl ⟨h1, h2⟩)
      · exact Or.inl (Or.inr ⟨h1, h2⟩)
      · exact Or.inr (Or.inr ⟨h1, h2⟩)
  | letE i b2 body _ _ => simp [letFree] at he

theorem keys_inlineAll (e : Ex) (hu : letsUsed e = true) (j : Nat) : j ∈ keys (inlineAll e) ↔ j ∈ keys e := by
  induction e generalizing j with
  | var i => rfl
  | leaf i a ih => simp_all [inlineAll, keys, letsUsed]
  | add x y ihx ihy => simp_all [inlineAll, keys, letsUsed]
  | mul x y ihx ihy => simp_all [inlineAll, keys, letsUsed]
  | letE k b body ihb ihbody =>
    simp only [letsUsed, Bool.and_eq_true, List.contains_iff_mem] at hu
    obtain ⟨⟨hb, hbody⟩, hk⟩ := hu
    have hk' : k ∈ keys (inlineAll body) := (ihbody hbody k).mpr hk
    simp only [inlineAll, keys, List.mem_append, List.mem_filter, decide_eq_true_eq]
    rw [mem_keys_subst k _ _ (inlineAll_letFree body), ihb hb, ihbody hbody]
    constructor
    · rintro (h | ⟨_, h⟩)
      · exact Or.inr h
      · exact Or.inl h
    · rintro (h | h)
      · exact Or.inr ⟨hk', h⟩
      · exact Or.inl h

/-- **soundness of the checker (domain)**: the optimised operator reads exactly the keys of the original -/
theorem isSharingOf_dom (e e' : Ex) (h : isSharingOf e e' = true) (j : Nat) : j ∈ keys e' ↔ j ∈ keys e := by
  simp only [isSharingOf, Bool.and_eq_true, decide_eq_true_eq] at h
  rw [← h.1.1]
  exact (keys_inlineAll e' h.1.2 j).symm

/-- non-vacuity: `(f(a)·g(b) + f(a)·g(b)) · f(a)` with the product shared under key 7 and `f(a)` under key 8 -/
example : isSharingOf
    (.mul (.add (.mul (.leaf 0 (.var 0)) (.leaf 1 (.var 1))) (.mul (.leaf 0 (.var 0)) (.leaf 1 (.var 1)))) (.leaf 0 (.var 0)))
    (.letE 8 (.leaf 0 (.var 0)) (.letE 7 (.mul (.var 8) (.leaf 1 (.var 1))) (.mul (.add (.var 7) (.var 7)) (.var 8)))) = true := by
  decide

/-- a wrong sharing (the inserted key is bound to `g(b)` instead of `f(a)·g(b)`) is rejected -/
example : isSharingOf
    (.add (.mul (.leaf 0 (.var 0)) (.leaf 1 (.var 1))) (.mul (.leaf 0 (.var 0)) (.leaf 1 (.var 1))))
    (.letE 7 (.leaf 1 (.var 1)) (.add (.var 7) (.var 7))) = false := by
  decide

end NiftyVerif.C05
