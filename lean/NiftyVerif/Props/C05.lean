/-
  C05 — Operator-tree optimisation preserves semantics.
  Property theorems only; obligations are listed in harness/props/c05.py.
  The optimiser's output is validated per instance by the checker `isSharingOf` (translation validation); these theorems
  make a positive verdict mean equality of value and Jacobian at EVERY input, and equality of the domain.
-/
import NiftyVerif.Model.TreeShare

namespace NiftyVerif.C05
open NiftyVerif.TreeShare NiftyVerif.TreeShare.Ex

variable {V : Type} (add mul pr : V → V → V) (F : Nat → V → V)

theorem subst_letFree (k : Nat) (b e : Ex) (hb : letFree b = true) (he : letFree e = true) :
    letFree (subst k b e) = true := by
  induction e with
  | var j => simp only [subst]; split <;> simp_all [letFree]
  | leaf i a ih => simp_all [subst, letFree]
  | add x y ihx ihy => simp_all [subst, letFree]
  | mul x y ihx ihy => simp_all [subst, letFree]
  | pair x y ihx ihy => simp_all [subst, letFree]
  | letE j b2 body _ _ => simp [letFree] at he

theorem inlineAll_letFree (e : Ex) : letFree (inlineAll e) = true := by
  induction e with
  | var j => rfl
  | leaf i a ih => simpa [inlineAll, letFree] using ih
  | add x y ihx ihy => simp [inlineAll, letFree, ihx, ihy]
  | mul x y ihx ihy => simp [inlineAll, letFree, ihx, ihy]
  | pair x y ihx ihy => simp [inlineAll, letFree, ihx, ihy]
  | letE j b body ihb ihbody => exact subst_letFree j _ _ ihb ihbody

/-- substitution = evaluation in the extended environment (value-level statement of `partial_insert`) -/
theorem share_sound (k : Nat) (b e : Ex) (he : letFree e = true) (ρ : Nat → V) :
    eval add mul pr F (subst k b e) ρ = eval add mul pr F e (fun j => if j = k then eval add mul pr F b ρ else ρ j) := by
  induction e with
  | var j => simp only [subst]; split <;> simp_all [eval]
  | leaf i a ih => simp_all [subst, eval, letFree]
  | add x y ihx ihy => simp_all [subst, eval, letFree]
  | mul x y ihx ihy => simp_all [subst, eval, letFree]
  | pair x y ihx ihy => simp_all [subst, eval, letFree]
  | letE j b2 body _ _ => simp [letFree] at he

/-- expanding all inserted keys does not change the value, in any value domain, at any input -/
theorem inlineAll_sound (e : Ex) (ρ : Nat → V) : eval add mul pr F (inlineAll e) ρ = eval add mul pr F e ρ := by
  induction e generalizing ρ with
  | var j => rfl
  | leaf i a ih => simp [inlineAll, eval, ih]
  | add x y ihx ihy => simp [inlineAll, eval, ihx, ihy]
  | mul x y ihx ihy => simp [inlineAll, eval, ihx, ihy]
  | pair x y ihx ihy => simp [inlineAll, eval, ihx, ihy]
  | letE j b body ihb ihbody =>
    simp only [inlineAll, eval]
    rw [share_sound add mul pr F j _ _ (inlineAll_letFree body), ihbody, ihb]

/-- **soundness of the checker (values)**: a positive verdict means the optimised tree `e'` and the original `e` agree
    for every interpretation of the leaves, of `+` and `*`, and every input -/
theorem isSharingOf_sound (e e' : Ex) (h : isSharingOf e e' = true) (ρ : Nat → V) :
    eval add mul pr F e' ρ = eval add mul pr F e ρ := by
  simp only [isSharingOf, Bool.and_eq_true, decide_eq_true_eq] at h
  rw [← h.1.1]
  exact (inlineAll_sound add mul pr F e' ρ).symm

/-! #### Jacobians: evaluation over dual numbers `(value, directional derivative)` -/

/-- dual numbers over a value domain with the sum and product rules -/
def dadd {K : Type} (a : K → K → K) (x y : K × K) : K × K := (a x.1 y.1, a x.2 y.2)
def dmul {K : Type} (a m : K → K → K) (x y : K × K) : K × K := (m x.1 y.1, a (m x.1 y.2) (m x.2 y.1))
/-- tuples of dual numbers -/
def dpair {K : Type} (p : K → K → K) (x y : K × K) : K × K := (p x.1 y.1, p x.2 y.2)
/-- a leaf `f` with derivative `f'` (chain rule) -/
def dleaf {K : Type} (m : K → K → K) (f f' : Nat → K → K) (i : Nat) (x : K × K) : K × K := (f i x.1, m (f' i x.1) x.2)

/-- **soundness of the checker (Jacobians)**: value and directional derivative (forward-mode push-forward through the
    tree, which is how `Linearization` computes Jacobians) agree at every input and in every direction -/
theorem isSharingOf_jac {K : Type} (a m p : K → K → K) (f f' : Nat → K → K) (e e' : Ex) (h : isSharingOf e e' = true)
    (x dx : Nat → K) :
    eval (dadd a) (dmul a m) (dpair p) (dleaf m f f') e' (fun k => (x k, dx k)) =
    eval (dadd a) (dmul a m) (dpair p) (dleaf m f f') e (fun k => (x k, dx k)) :=
  isSharingOf_sound _ _ _ _ e e' h _

/-! #### domain -/

theorem mem_keys_subst (k : Nat) (b e : Ex) (he : letFree e = true) (j : Nat) :
    j ∈ keys (subst k b e) ↔ (j ∈ keys e ∧ j ≠ k) ∨ (k ∈ keys e ∧ j ∈ keys b) := by
  induction e with
  | var i =>
    simp only [subst]
    split
    · rename_i h; subst h; simp [keys]
    · rename_i h; simp only [keys, List.mem_singleton]
      constructor
      · intro hj; subst hj; exact Or.inl ⟨rfl, h⟩
      · rintro (⟨h1, _⟩ | ⟨h1, _⟩)
        · exact h1
        · exact absurd h1.symm h
  | leaf i a ih => simp_all [subst, keys, letFree]
  | add x y ihx ihy =>
    simp only [letFree, Bool.and_eq_true] at he
    simp only [subst, keys, List.mem_append, ihx he.1, ihy he.2]
    constructor
    · rintro ((h | h) | (h | h))
      · exact Or.inl ⟨Or.inl h.1, h.2⟩
      · exact Or.inr ⟨Or.inl h.1, h.2⟩
      · exact Or.inl ⟨Or.inr h.1, h.2⟩
      · exact Or.inr ⟨Or.inr h.1, h.2⟩
    · rintro (⟨h1 | h1, h2⟩ | ⟨h1 | h1, h2⟩)
      · exact Or.inl (Or.inl ⟨h1, h2⟩)
      · exact Or.inr (Or.inl ⟨h1, h2⟩)
      · exact Or.inl (Or.inr ⟨h1, h2⟩)
      · exact Or.inr (Or.inr ⟨h1, h2⟩)
  | mul x y ihx ihy =>
    simp only [letFree, Bool.and_eq_true] at he
    simp only [subst, keys, List.mem_append, ihx he.1, ihy he.2]
    constructor
    · rintro ((h | h) | (h | h))
      · exact Or.inl ⟨Or.inl h.1, h.2⟩
      · exact Or.inr ⟨Or.inl h.1, h.2⟩
      · exact Or.inl ⟨Or.inr h.1, h.2⟩
      · exact Or.inr ⟨Or.inr h.1, h.2⟩
    · rintro (⟨h1 | h1, h2⟩ | ⟨h1 | h1, h2⟩)
      · exact Or.inl (Or.inl ⟨h1, h2⟩)
      · exact Or.inr (Or.inl ⟨h1, h2⟩)
      · exact Or.inl (Or.inr ⟨h1, h2⟩)
      · exact Or.inr (Or.inr ⟨h1, h2⟩)
  | pair x y ihx ihy =>
    simp only [letFree, Bool.and_eq_true] at he
    simp only [subst, keys, List.mem_append, ihx he.1, ihy he.2]
    constructor
    · rintro ((h | h) | (h | h))
      · exact Or.inl ⟨Or.inl h.1, h.2⟩
      · exact Or.inr ⟨Or.inl h.1, h.2⟩
      · exact Or.inl ⟨Or.inr h.1, h.2⟩
      · exact Or.inr ⟨Or.inr h.1, h.2⟩
    · rintro (⟨h1 | h1, h2⟩ | ⟨h1 | h1, h2⟩)
      · exact Or.inl (Or.inl ⟨h1, h2⟩)
      · exact Or.inr (Or.inl ⟨h1, h2⟩)
      · exact Or.inl (Or.inr ⟨h1, h2⟩)
      · exact Or.inr (Or.inr ⟨h1, h2⟩)
  | letE i b2 body _ _ => simp [letFree] at he

theorem keys_inlineAll (e : Ex) (hu : letsUsed e = true) (j : Nat) : j ∈ keys (inlineAll e) ↔ j ∈ keys e := by
  induction e generalizing j with
  | var i => rfl
  | leaf i a ih => simp_all [inlineAll, keys, letsUsed]
  | add x y ihx ihy => simp_all [inlineAll, keys, letsUsed]
  | mul x y ihx ihy => simp_all [inlineAll, keys, letsUsed]
  | pair x y ihx ihy => simp_all [inlineAll, keys, letsUsed]
  | letE k b body ihb ihbody =>
    simp only [letsUsed, Bool.and_eq_true, List.contains_iff_mem] at hu
    obtain ⟨⟨hb, hbody⟩, hk⟩ := hu
    have hk' : k ∈ keys (inlineAll body) := (ihbody hbody k).mpr hk
    simp only [inlineAll, keys, List.mem_append, List.mem_filter, decide_eq_true_eq]
    rw [mem_keys_subst k _ _ (inlineAll_letFree body), ihb hb, ihbody hbody]
    constructor
    · rintro (h | ⟨_, h⟩)
      · exact Or.inr h
      · exact Or.inl h
    · rintro (h | h)
      · exact Or.inr ⟨hk', h⟩
      · exact Or.inl h

/-- **soundness of the checker (domain)**: the optimised operator reads exactly the keys of the original -/
theorem isSharingOf_dom (e e' : Ex) (h : isSharingOf e e' = true) (j : Nat) : j ∈ keys e' ↔ j ∈ keys e := by
  simp only [isSharingOf, Bool.and_eq_true, decide_eq_true_eq] at h
  rw [← h.1.1]
  exact (keys_inlineAll e' h.1.2 j).symm

/-- non-vacuity: `(f(a)·g(b) + f(a)·g(b)) · f(a)` with the product shared under key 7 and `f(a)` under key 8 -/
example : isSharingOf
    (.mul (.add (.mul (.leaf 0 (.var 0)) (.leaf 1 (.var 1))) (.mul (.leaf 0 (.var 0)) (.leaf 1 (.var 1)))) (.leaf 0 (.var 0)))
    (.letE 8 (.leaf 0 (.var 0)) (.letE 7 (.mul (.var 8) (.leaf 1 (.var 1))) (.mul (.add (.var 7) (.var 7)) (.var 8)))) = true := by
  decide

/-- a wrong sharing (the inserted key is bound to `g(b)` instead of `f(a)·g(b)`) is rejected -/
example : isSharingOf
    (.add (.mul (.leaf 0 (.var 0)) (.leaf 1 (.var 1))) (.mul (.leaf 0 (.var 0)) (.leaf 1 (.var 1))))
    (.letE 7 (.leaf 1 (.var 1)) (.add (.var 7) (.var 7))) = false := by
  decide


/-! #### the sharing decision: what is shared are syntactically equal sub-expressions -/

/-- replacing every occurrence of a sub-expression `sub` by a fresh key and substituting `sub` back is the identity: the
    occurrences the optimiser replaces by one inserted key are syntactically the same expression -/
theorem share_inverse (sub : Ex) (k : Nat) (e : Ex) (he : letFree e = true) (hk : k ∉ keys e) :
    subst k sub (shareAll sub k e) = e := by
  induction e with
  | var j =>
    simp only [shareAll]
    split
    · rename_i h; simp [subst, h]
    · have : j ≠ k := by
        intro h; apply hk; simp [keys, h]
      simp [subst, this]
  | leaf i a ih =>
    simp only [shareAll]
    split
    · rename_i h; simp [subst, h]
    · simp only [subst]; rw [ih (by simpa [letFree] using he) (by simpa [keys] using hk)]
  | add x y ihx ihy =>
    simp only [letFree, Bool.and_eq_true] at he
    simp only [keys, List.mem_append, not_or] at hk
    simp only [shareAll]
    split
    · rename_i h; simp [subst, h]
    · simp only [subst]; rw [ihx he.1 hk.1, ihy he.2 hk.2]
  | mul x y ihx ihy =>
    simp only [letFree, Bool.and_eq_true] at he
    simp only [keys, List.mem_append, not_or] at hk
    simp only [shareAll]
    split
    · rename_i h; simp [subst, h]
    · simp only [subst]; rw [ihx he.1 hk.1, ihy he.2 hk.2]
  | pair x y ihx ihy =>
    simp only [letFree, Bool.and_eq_true] at he
    simp only [keys, List.mem_append, not_or] at hk
    simp only [shareAll]
    split
    · rename_i h; simp [subst, h]
    · simp only [subst]; rw [ihx he.1 hk.1, ihy he.2 hk.2]
  | letE j b body _ _ => simp [letFree] at he

theorem shareAll_letFree (sub : Ex) (k : Nat) (e : Ex) (he : letFree e = true) : letFree (shareAll sub k e) = true := by
  induction e with
  | var j => simp only [shareAll]; split <;> simp [letFree]
  | leaf i a ih => simp only [shareAll]; split <;> simp_all [letFree]
  | add x y ihx ihy => simp only [shareAll]; split <;> simp_all [letFree]
  | mul x y ihx ihy => simp only [shareAll]; split <;> simp_all [letFree]
  | pair x y ihx ihy => simp only [shareAll]; split <;> simp_all [letFree]
  | letE j b body _ _ => simp [letFree] at he

theorem mem_keys_shareAll (sub : Ex) (k : Nat) (e : Ex) (he : letFree e = true) (ho : occurs sub e = true) :
    k ∈ keys (shareAll sub k e) := by
  induction e with
  | var j => simp only [occurs, decide_eq_true_eq] at ho; simp [shareAll, ho, keys]
  | leaf i a ih =>
    simp only [shareAll]
    split
    · simp [keys]
    · rename_i h
      simp only [occurs, Bool.or_eq_true, decide_eq_true_eq] at ho
      simp only [keys]
      exact ih (by simpa [letFree] using he) (ho.resolve_left h)
  | add x y ihx ihy =>
    simp only [letFree, Bool.and_eq_true] at he
    simp only [shareAll]
    split
    · simp [keys]
    · rename_i h
      simp only [occurs, Bool.or_eq_true, decide_eq_true_eq] at ho
      simp only [keys, List.mem_append]
      rcases ho with (ho | ho) | ho
      · exact absurd ho h
      · exact Or.inl (ihx he.1 ho)
      · exact Or.inr (ihy he.2 ho)
  | mul x y ihx ihy =>
    simp only [letFree, Bool.and_eq_true] at he
    simp only [shareAll]
    split
    · simp [keys]
    · rename_i h
      simp only [occurs, Bool.or_eq_true, decide_eq_true_eq] at ho
      simp only [keys, List.mem_append]
      rcases ho with (ho | ho) | ho
      · exact absurd ho h
      · exact Or.inl (ihx he.1 ho)
      · exact Or.inr (ihy he.2 ho)
  | pair x y ihx ihy =>
    simp only [letFree, Bool.and_eq_true] at he
    simp only [shareAll]
    split
    · simp [keys]
    · rename_i h
      simp only [occurs, Bool.or_eq_true, decide_eq_true_eq] at ho
      simp only [keys, List.mem_append]
      rcases ho with (ho | ho) | ho
      · exact absurd ho h
      · exact Or.inl (ihx he.1 ho)
      · exact Or.inr (ihy he.2 ho)
  | letE j b body _ _ => simp [letFree] at he

/-- **completeness of the checker for genuine sharing steps**: sharing a let-free sub-expression that occurs in `e` under a fresh
    key is accepted — so a rejection means the optimiser did something other than sharing equal sub-expressions -/
theorem share_step_accepted (sub : Ex) (k : Nat) (e : Ex) (he : letFree e = true) (hs : letFree sub = true)
    (hk : k ∉ keys e) (ho : occurs sub e = true) : isSharingOf e (letE k sub (shareAll sub k e)) = true := by
  have hlf := shareAll_letFree sub k e he
  have h1 : inlineAll (letE k sub (shareAll sub k e)) = e := by
    simp only [inlineAll]
    rw [inlineAll_of_letFree sub hs, inlineAll_of_letFree _ hlf, share_inverse sub k e he hk]
  simp only [isSharingOf, h1, decide_true, Bool.true_and, Bool.and_eq_true, he, and_true]
  simp only [letsUsed, Bool.and_eq_true, List.contains_iff_mem]
  exact ⟨⟨letsUsed_of_letFree sub hs, letsUsed_of_letFree _ hlf⟩, mem_keys_shareAll sub k e he ho⟩
where
  inlineAll_of_letFree (e : Ex) (h : letFree e = true) : inlineAll e = e := by
    induction e with
    | var j => rfl
    | leaf i a ih => simp [inlineAll, ih (by simpa [letFree] using h)]
    | add x y ihx ihy => simp only [letFree, Bool.and_eq_true] at h; simp [inlineAll, ihx h.1, ihy h.2]
    | mul x y ihx ihy => simp only [letFree, Bool.and_eq_true] at h; simp [inlineAll, ihx h.1, ihy h.2]
    | pair x y ihx ihy => simp only [letFree, Bool.and_eq_true] at h; simp [inlineAll, ihx h.1, ihy h.2]
    | letE j b body _ _ => simp [letFree] at h
  letsUsed_of_letFree (e : Ex) (h : letFree e = true) : letsUsed e = true := by
    induction e with
    | var j => rfl
    | leaf i a ih => simpa [letsUsed] using ih (by simpa [letFree] using h)
    | add x y ihx ihy => simp only [letFree, Bool.and_eq_true] at h; simp [letsUsed, ihx h.1, ihy h.2]
    | mul x y ihx ihy => simp only [letFree, Bool.and_eq_true] at h; simp [letsUsed, ihx h.1, ihy h.2]
    | pair x y ihx ihy => simp only [letFree, Bool.and_eq_true] at h; simp [letsUsed, ihx h.1, ihy h.2]
    | letE j b body _ _ => simp [letFree] at h

end NiftyVerif.C05
