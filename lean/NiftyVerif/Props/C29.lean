/-
  C29 — Gauss–Markov processes have the exact continuous-time covariance.

  Setting (DESIGN §2.5): the process values are elements of a `K`-module `W` of random variables with a
  covariance form `c.B = Cov`; the excitations `ξ` are orthonormal in it and uncorrelated with the initial
  state.  The model functions of `Model/GaussMarkov.lean` (the same ones the driver runs with `W = K = ℚ`)
  are evaluated in `W`, and the covariance of their outputs is computed.  `sqrt`/`exp` are abstract:
  only `sqrt x * sqrt x = x` at the arguments that occur and `exp (a+b) = exp a * exp b`, `exp 0 = 1` are used.
  With `W = Fin N → K`, `c = dotForm`, `ξ_k = e_k` the statements read `(A Aᵀ)_{ij} = …` for the Jacobian `A`
  of the process w.r.t. its excitations (that instance is spelled out in `wiener_AAt`).
-/
import NiftyVerif.Lemmas.GaussMarkov
import NiftyVerif.Lemmas.GaussMarkovGeneric

namespace NiftyVerif.C29
open NiftyVerif.GaussMarkov Finset

variable {K W : Type} [Field K] [AddCommGroup W] [Module K W] (c : CovForm K W)

/-! ## Wiener process -/

/-- every excitation enters exactly the later values, with weight `sqrt(dt_l)·σ_l` -/
theorem wiener_excitation_response (sqrt : K → K) (ξ : Nat → W) (x0 : W) (σ dt : Nat → K)
    (hξ : Orthonormal c ξ) (h0 : ∀ l, c.B x0 (ξ l) = 0) (i l : Nat) :
    c.B (wiener sqrt ξ x0 σ dt i) (ξ l) = if l < i then sqrt (dt l) * σ l else 0 :=
  cov_wsum_excitation c ξ x0 (wienerAmp sqrt σ dt) hξ h0 i l

/-- **wiener_cov**: `Cov(x_i, x_j) = Var(x0) + Σ_{k < min i j} σ_k² dt_k` for every step sequence and every
    (time-varying) amplitude; `sqrt` only needs to be a square root at the `dt_k` -/
theorem wiener_cov (sqrt : K → K) (ξ : Nat → W) (x0 : W) (σ dt : Nat → K)
    (hξ : Orthonormal c ξ) (h0 : ∀ l, c.B x0 (ξ l) = 0) (hs : ∀ k, sqrt (dt k) * sqrt (dt k) = dt k)
    (i j : Nat) :
    c.B (wiener sqrt ξ x0 σ dt i) (wiener sqrt ξ x0 σ dt j)
      = c.B x0 x0 + ∑ k ∈ range (min i j), σ k * σ k * dt k := by
  have := cov_wsum c ξ x0 (wienerAmp sqrt σ dt) hξ h0 i j
  simp only [wiener]
  rw [this]
  congr 1
  apply sum_congr rfl
  intro k _
  simp only [wienerAmp]
  linear_combination (σ k * σ k) * hs k

/-- constant amplitude: `Cov(x_i,x_j) = Var(x0) + σ²·t_{min(i,j)}` with `t_i = Σ_{k<i} dt_k` -/
theorem wiener_cov_const (sqrt : K → K) (ξ : Nat → W) (x0 : W) (σ : K) (dt : Nat → K)
    (hξ : Orthonormal c ξ) (h0 : ∀ l, c.B x0 (ξ l) = 0) (hs : ∀ k, sqrt (dt k) * sqrt (dt k) = dt k)
    (i j : Nat) :
    c.B (wiener sqrt ξ x0 (fun _ => σ) dt i) (wiener sqrt ξ x0 (fun _ => σ) dt j)
      = c.B x0 x0 + σ * σ * ∑ k ∈ range (min i j), dt k := by
  rw [wiener_cov c sqrt ξ x0 _ dt hξ h0 hs, mul_sum]

/-! ## integrated Wiener process (state `(X, V)`, `V` the Wiener component) -/

section iwp
variable (sqrt : K → K) (σ dt asp : Nat → K) (ξ0 ξ1 : Nat → W) (x0x x0v : W)

local notation "Xp" => iwpX sqrt σ dt asp ξ0 ξ1 x0x x0v
local notation "Vp" => iwpV sqrt σ dt ξ1 x0v
local notation "N0" => iwpN0 sqrt σ dt asp ξ0 ξ1
local notation "N1" => iwpN1 sqrt σ dt ξ1

/-- **iwp_transition**: one step is `(X,V) ↦ [[1,dt],[0,1]]·(X,V) + (N0,N1)` -/
theorem iwp_transition (k : Nat) :
    Xp (k + 1) = (Xp k + dt k • Vp k) + N0 k ∧ Vp (k + 1) = Vp k + N1 k := by
  constructor
  · simp only [iwpX, cumsumAt_succ]; abel
  · simp only [iwpV, cumsumAt_succ]

/-- **iwp_step_noise**: `G Gᵀ = σ²·[[dt³/3 + dt·asp, dt²/2],[dt²/2, dt]]` -/
theorem iwp_step_noise [CharZero K] (hξ0 : Orthonormal c ξ0) (hξ1 : Orthonormal c ξ1)
    (hξ01 : ∀ k l, c.B (ξ0 k) (ξ1 l) = 0) (k : Nat)
    (hs : sqrt (dt k) * sqrt (dt k) = dt k)
    (ha : sqrt (dt k * dt k / 12 + asp k) * sqrt (dt k * dt k / 12 + asp k) = dt k * dt k / 12 + asp k) :
    c.B (N0 k) (N0 k) = σ k * σ k * (dt k * dt k * dt k / 3 + dt k * asp k)
    ∧ c.B (N0 k) (N1 k) = σ k * σ k * (dt k * dt k / 2)
    ∧ c.B (N1 k) (N1 k) = σ k * σ k * dt k := by
  have h10 : c.B (ξ1 k) (ξ0 k) = 0 := by rw [c.symm]; exact hξ01 k k
  refine ⟨?_, ?_, ?_⟩
  · simp only [iwpN0, iwpN1, c.add_left, c.add_right, c.smul_left, c.smul_right, hξ0 k k, hξ1 k k, hξ01 k k, h10,
      if_true]
    linear_combination (σ k * σ k * (dt k * dt k / 12 + asp k) + dt k * dt k / 4 * (σ k * σ k)) * hs
      + (σ k * σ k * sqrt (dt k) * sqrt (dt k)) * ha
  · simp only [iwpN0, iwpN1, c.add_left, c.smul_left, c.smul_right, hξ1 k k, hξ01 k k, if_true]
    linear_combination (dt k / 2 * (σ k * σ k)) * hs
  · simp only [iwpN1, c.smul_left, c.smul_right, hξ1 k k, if_true]
    linear_combination (σ k * σ k) * hs

/-- the state at step `k` is uncorrelated with every excitation of step `l ≥ k` -/
theorem iwp_state_indep (hξ0 : Orthonormal c ξ0) (hξ1 : Orthonormal c ξ1)
    (hξ01 : ∀ k l, c.B (ξ0 k) (ξ1 l) = 0)
    (h0 : ∀ l, c.B x0x (ξ0 l) = 0 ∧ c.B x0x (ξ1 l) = 0 ∧ c.B x0v (ξ0 l) = 0 ∧ c.B x0v (ξ1 l) = 0)
    (k l : Nat) (hkl : k ≤ l) :
    c.B (Xp k) (ξ0 l) = 0 ∧ c.B (Xp k) (ξ1 l) = 0 ∧ c.B (Vp k) (ξ0 l) = 0 ∧ c.B (Vp k) (ξ1 l) = 0 := by
  have h10 : ∀ a b, c.B (ξ1 a) (ξ0 b) = 0 := fun a b => by rw [c.symm]; exact hξ01 b a
  induction k with
  | zero => simpa [iwpX, iwpV, cumsumAt] using h0 l
  | succ k ih =>
    obtain ⟨i1, i2, i3, i4⟩ := ih (by omega)
    have hne : k ≠ l := by omega
    obtain ⟨tx, tv⟩ := iwp_transition sqrt σ dt asp ξ0 ξ1 x0x x0v k
    rw [tx, tv]
    simp only [c.add_left, c.smul_left, i1, i2, i3, i4, iwpN0, iwpN1, hξ0 k l, hξ1 k l, hξ01 k l, h10 k l, hne,
      if_false]
    simp

/-- **covariance recursion** `P_{k+1} = F P_k Fᵀ + Q_k` for the process as implemented -/
theorem iwp_cov_recursion [CharZero K] (hξ0 : Orthonormal c ξ0) (hξ1 : Orthonormal c ξ1)
    (hξ01 : ∀ k l, c.B (ξ0 k) (ξ1 l) = 0)
    (h0 : ∀ l, c.B x0x (ξ0 l) = 0 ∧ c.B x0x (ξ1 l) = 0 ∧ c.B x0v (ξ0 l) = 0 ∧ c.B x0v (ξ1 l) = 0)
    (hs : ∀ k, sqrt (dt k) * sqrt (dt k) = dt k)
    (ha : ∀ k, sqrt (dt k * dt k / 12 + asp k) * sqrt (dt k * dt k / 12 + asp k) = dt k * dt k / 12 + asp k)
    (k : Nat) :
    c.B (Xp (k+1)) (Xp (k+1)) = c.B (Xp k) (Xp k) + 2 * dt k * c.B (Xp k) (Vp k) + dt k * dt k * c.B (Vp k) (Vp k)
        + σ k * σ k * (dt k * dt k * dt k / 3 + dt k * asp k)
    ∧ c.B (Xp (k+1)) (Vp (k+1)) = c.B (Xp k) (Vp k) + dt k * c.B (Vp k) (Vp k) + σ k * σ k * (dt k * dt k / 2)
    ∧ c.B (Vp (k+1)) (Vp (k+1)) = c.B (Vp k) (Vp k) + σ k * σ k * dt k := by
  obtain ⟨q11, q12, q22⟩ := iwp_step_noise c sqrt σ dt asp ξ0 ξ1 hξ0 hξ1 hξ01 k (hs k) (ha k)
  obtain ⟨i1, i2, i3, i4⟩ := iwp_state_indep c sqrt σ dt asp ξ0 ξ1 x0x x0v hξ0 hξ1 hξ01 h0 k k (le_refl k)
  -- the step noise is uncorrelated with the current state
  have xn0 : c.B (Xp k) (N0 k) = 0 := by
    simp only [iwpN0, iwpN1, c.add_right, c.smul_right, i1, i2]; simp
  have xn1 : c.B (Xp k) (N1 k) = 0 := by
    simp only [iwpN1, c.smul_right, i2]; simp
  have vn0 : c.B (Vp k) (N0 k) = 0 := by
    simp only [iwpN0, iwpN1, c.add_right, c.smul_right, i3, i4]; simp
  have vn1 : c.B (Vp k) (N1 k) = 0 := by
    simp only [iwpN1, c.smul_right, i4]; simp
  have q21 : c.B (N1 k) (N0 k) = σ k * σ k * (dt k * dt k / 2) := by rw [c.symm]; exact q12
  obtain ⟨tx, tv⟩ := iwp_transition sqrt σ dt asp ξ0 ξ1 x0x x0v k
  rw [tx, tv]
  refine ⟨?_, ?_, ?_⟩
  · simp only [c.add_left, c.add_right, c.smul_left, c.smul_right, c.symm (N0 k) (Xp k), c.symm (N0 k) (Vp k),
      c.symm (Vp k) (Xp k), xn0, vn0, q11]
    ring
  · simp only [c.add_left, c.add_right, c.smul_left, c.smul_right, c.symm (N0 k) (Vp k), xn1, vn0, vn1, q12]
    ring
  · simp only [c.add_left, c.add_right, c.symm (N1 k) (Vp k), vn1, q22]
    ring

/-- **iwp_cross_cov** (cross-time covariance `Cov(z_j, z_i) = F(t_j − t_i) P(t_i)` for `i ≤ j`, any grid, any time-varying
    parameters): with `Δ = Σ_{i ≤ k < j} dt_k`
    `Cov(V_j,V_i) = P₂₂(i)`, `Cov(V_j,X_i) = P₁₂(i)`, `Cov(X_j,V_i) = P₁₂(i) + Δ·P₂₂(i)`, `Cov(X_j,X_i) = P₁₁(i) + Δ·P₁₂(i)` -/
theorem iwp_cross_cov (hξ0 : Orthonormal c ξ0) (hξ1 : Orthonormal c ξ1)
    (hξ01 : ∀ k l, c.B (ξ0 k) (ξ1 l) = 0)
    (h0 : ∀ l, c.B x0x (ξ0 l) = 0 ∧ c.B x0x (ξ1 l) = 0 ∧ c.B x0v (ξ0 l) = 0 ∧ c.B x0v (ξ1 l) = 0)
    (i j : Nat) (hij : i ≤ j) :
    c.B (Vp j) (Vp i) = c.B (Vp i) (Vp i) ∧ c.B (Vp j) (Xp i) = c.B (Xp i) (Vp i)
    ∧ c.B (Xp j) (Vp i) = c.B (Xp i) (Vp i) + (∑ k ∈ Ico i j, dt k) * c.B (Vp i) (Vp i)
    ∧ c.B (Xp j) (Xp i) = c.B (Xp i) (Xp i) + (∑ k ∈ Ico i j, dt k) * c.B (Xp i) (Vp i) := by
  induction j, hij using Nat.le_induction with
  | base => simp [c.symm (Vp i) (Xp i)]
  | succ j hij ih =>
    obtain ⟨a1, a2, a3, a4⟩ := ih
    obtain ⟨i1, i2, i3, i4⟩ := iwp_state_indep c sqrt σ dt asp ξ0 ξ1 x0x x0v hξ0 hξ1 hξ01 h0 i j hij
    -- the noise of step j is uncorrelated with the state at i ≤ j
    have n0x : c.B (N0 j) (Xp i) = 0 := by
      rw [c.symm]; simp only [iwpN0, iwpN1, c.add_right, c.smul_right, i1, i2]; simp
    have n0v : c.B (N0 j) (Vp i) = 0 := by
      rw [c.symm]; simp only [iwpN0, iwpN1, c.add_right, c.smul_right, i3, i4]; simp
    have n1x : c.B (N1 j) (Xp i) = 0 := by
      rw [c.symm]; simp only [iwpN1, c.smul_right, i2]; simp
    have n1v : c.B (N1 j) (Vp i) = 0 := by
      rw [c.symm]; simp only [iwpN1, c.smul_right, i4]; simp
    obtain ⟨tx, tv⟩ := iwp_transition sqrt σ dt asp ξ0 ξ1 x0x x0v j
    rw [tx, tv, sum_Ico_succ_top hij]
    refine ⟨?_, ?_, ?_, ?_⟩
    · rw [c.add_left, a1, n1v, add_zero]
    · rw [c.add_left, a2, n1x, add_zero]
    · rw [c.add_left, c.add_left, c.smul_left, a3, a1, n0v]; ring
    · rw [c.add_left, c.add_left, c.smul_left, a4, a2, n0x]; ring

end iwp

/-- **iwp_cov_closed_form**: constant `σ`, asperity `a`, deterministic start: at grid time `t = Σ_{k'<k} dt_k'`
    `Cov(X,X) = σ²(t³/3 + a·t)`, `Cov(X,V) = σ² t²/2`, `Cov(V,V) = σ² t` — the continuous-time integrated
    Wiener process (plus `a`-white-noise in `X`), for every (non-uniform) grid -/
theorem iwp_cov_closed_form [CharZero K] (sqrt : K → K) (σ a : K) (dt : Nat → K) (ξ0 ξ1 : Nat → W) (x0x x0v : W)
    (hξ0 : Orthonormal c ξ0) (hξ1 : Orthonormal c ξ1) (hξ01 : ∀ k l, c.B (ξ0 k) (ξ1 l) = 0)
    (h0 : ∀ l, c.B x0x (ξ0 l) = 0 ∧ c.B x0x (ξ1 l) = 0 ∧ c.B x0v (ξ0 l) = 0 ∧ c.B x0v (ξ1 l) = 0)
    (hP0 : c.B x0x x0x = 0 ∧ c.B x0x x0v = 0 ∧ c.B x0v x0v = 0)
    (hs : ∀ k, sqrt (dt k) * sqrt (dt k) = dt k)
    (ha : ∀ k, sqrt (dt k * dt k / 12 + a) * sqrt (dt k * dt k / 12 + a) = dt k * dt k / 12 + a)
    (k : Nat) :
    let t := ∑ k' ∈ range k, dt k'
    let X := iwpX sqrt (fun _ => σ) dt (fun _ => a) ξ0 ξ1 x0x x0v
    let V := iwpV sqrt (fun _ => σ) dt ξ1 x0v
    c.B (X k) (X k) = σ * σ * (t * t * t / 3 + a * t) ∧ c.B (X k) (V k) = σ * σ * (t * t / 2)
      ∧ c.B (V k) (V k) = σ * σ * t := by
  induction k with
  | zero => simpa [iwpX, iwpV, cumsumAt] using hP0
  | succ k ih =>
    obtain ⟨p11, p12, p22⟩ := ih
    obtain ⟨r11, r12, r22⟩ := iwp_cov_recursion c sqrt (fun _ => σ) dt (fun _ => a) ξ0 ξ1 x0x x0v hξ0 hξ1 hξ01 h0 hs ha k
    simp only [sum_range_succ]
    refine ⟨?_, ?_, ?_⟩
    · rw [r11, p11, p12, p22]; ring
    · rw [r12, p12, p22]; ring
    · rw [r22, p22]; ring

/-! ## scalar Gauss–Markov recursion and the Ornstein–Uhlenbeck process -/

section gm
variable (ξ : Nat → W) (x0 : W) (d a : Nat → K)

theorem scalarGM_indep (hξ : Orthonormal c ξ) (h0 : ∀ l, c.B x0 (ξ l) = 0) (k l : Nat) (hkl : k ≤ l) :
    c.B (scalarGM ξ x0 d a k) (ξ l) = 0 := by
  induction k with
  | zero => simpa [scalarGM] using h0 l
  | succ k ih =>
    have hne : k ≠ l := by omega
    simp only [scalarGM, c.add_left, c.smul_left, ih (by omega), hξ k l, hne, if_false]
    simp

/-- exact one-step variance propagation `Var_{k+1} = d_k² Var_k + a_k²` -/
theorem scalarGM_var_step (hξ : Orthonormal c ξ) (h0 : ∀ l, c.B x0 (ξ l) = 0) (k : Nat) :
    c.B (scalarGM ξ x0 d a (k+1)) (scalarGM ξ x0 d a (k+1))
      = d k * d k * c.B (scalarGM ξ x0 d a k) (scalarGM ξ x0 d a k) + a k * a k := by
  have e := scalarGM_indep c ξ x0 d a hξ h0 k k (le_refl k)
  simp only [scalarGM, c.add_left, c.add_right, c.smul_left, c.smul_right, hξ k k, e,
    c.symm (ξ k) (scalarGM ξ x0 d a k), if_true]
  ring

/-- lagged covariance: `Cov(x_j, x_i) = (Π_{i ≤ k < j} d_k) · Var(x_i)` for `i ≤ j` -/
theorem scalarGM_cov_lag (hξ : Orthonormal c ξ) (h0 : ∀ l, c.B x0 (ξ l) = 0) (i j : Nat) (hij : i ≤ j) :
    c.B (scalarGM ξ x0 d a j) (scalarGM ξ x0 d a i)
      = (∏ k ∈ Ico i j, d k) * c.B (scalarGM ξ x0 d a i) (scalarGM ξ x0 d a i) := by
  induction j, hij using Nat.le_induction with
  | base => simp
  | succ j hij ih =>
    have e := scalarGM_indep c ξ x0 d a hξ h0 i j hij
    rw [prod_Ico_succ_top hij]
    simp only [scalarGM, c.add_left, c.smul_left, ih, c.symm (ξ j) (scalarGM ξ x0 d a i), e]
    ring

end gm

/-- **ou_stationary**: started in the stationary law (`Var(x0) = σ²`, what `OrnsteinUhlenbeckProcess(x0=None)`
    draws), constant `σ`, *any* damping rates and steps: `Var(x_k) = σ²` for all `k` -/
theorem ou_stationary (sqrt exp : K → K) (ξ : Nat → W) (x0 : W) (σ : K) (γ dt : Nat → K)
    (hξ : Orthonormal c ξ) (h0 : ∀ l, c.B x0 (ξ l) = 0) (hx0 : c.B x0 x0 = σ * σ)
    (hs : ∀ k, let d := ouDrift exp γ dt k; sqrt (1 - d * d) * sqrt (1 - d * d) = 1 - d * d) (k : Nat) :
    c.B (ou sqrt exp ξ x0 (fun _ => σ) γ dt k) (ou sqrt exp ξ x0 (fun _ => σ) γ dt k) = σ * σ := by
  induction k with
  | zero => simpa [ou, scalarGM] using hx0
  | succ k ih =>
    simp only [ou] at ih ⊢
    rw [scalarGM_var_step c ξ x0 _ _ hξ h0 k, ih]
    have := hs k
    simp only [ouAmp] at this ⊢
    linear_combination (σ * σ) * this

/-- per-step exact discretisation for time-varying parameters:
    `Var_{k+1} = e^{-2γ_k dt_k} Var_k + σ_k² (1 − e^{-2γ_k dt_k})` -/
theorem ou_var_step (sqrt exp : K → K) (ξ : Nat → W) (x0 : W) (σ γ dt : Nat → K)
    (hξ : Orthonormal c ξ) (h0 : ∀ l, c.B x0 (ξ l) = 0)
    (hs : ∀ k, let d := ouDrift exp γ dt k; sqrt (1 - d * d) * sqrt (1 - d * d) = 1 - d * d) (k : Nat) :
    let d := ouDrift exp γ dt k
    c.B (ou sqrt exp ξ x0 σ γ dt (k+1)) (ou sqrt exp ξ x0 σ γ dt (k+1))
      = d * d * c.B (ou sqrt exp ξ x0 σ γ dt k) (ou sqrt exp ξ x0 σ γ dt k) + σ k * σ k * (1 - d * d) := by
  intro d
  simp only [ou]
  rw [scalarGM_var_step c ξ x0 _ _ hξ h0 k]
  have := hs k
  simp only [ouAmp] at this ⊢
  linear_combination (σ k * σ k) * this

/-- the product of the per-step drifts is the exponential of the accumulated damping `−Σ γ_k dt_k` -/
theorem ouDrift_prod (exp : K → K) (hadd : ∀ x y, exp (x + y) = exp x * exp y) (h1 : exp 0 = 1)
    (γ dt : Nat → K) (i j : Nat) (hij : i ≤ j) :
    ∏ k ∈ Ico i j, ouDrift exp γ dt k = exp (-(∑ k ∈ Ico i j, γ k * dt k)) := by
  induction j, hij using Nat.le_induction with
  | base => simp [h1]
  | succ j hij ih =>
    rw [prod_Ico_succ_top hij, sum_Ico_succ_top hij, ih]
    simp only [ouDrift]
    rw [← hadd]
    congr 1; ring

/-- **ou_cov**: stationary start, constant `σ`: `Cov(x_j, x_i) = σ² exp(−Σ_{i≤k<j} γ_k dt_k)`; for constant `γ`
    this is `σ² e^{−γ|t_j − t_i|}` (`ou_cov_const`) -/
theorem ou_cov (sqrt exp : K → K) (hadd : ∀ x y, exp (x + y) = exp x * exp y) (h1 : exp 0 = 1)
    (ξ : Nat → W) (x0 : W) (σ : K) (γ dt : Nat → K)
    (hξ : Orthonormal c ξ) (h0 : ∀ l, c.B x0 (ξ l) = 0) (hx0 : c.B x0 x0 = σ * σ)
    (hs : ∀ k, let d := ouDrift exp γ dt k; sqrt (1 - d * d) * sqrt (1 - d * d) = 1 - d * d)
    (i j : Nat) (hij : i ≤ j) :
    c.B (ou sqrt exp ξ x0 (fun _ => σ) γ dt j) (ou sqrt exp ξ x0 (fun _ => σ) γ dt i)
      = σ * σ * exp (-(∑ k ∈ Ico i j, γ k * dt k)) := by
  have st := ou_stationary c sqrt exp ξ x0 σ γ dt hξ h0 hx0 hs i
  simp only [ou] at st ⊢
  rw [scalarGM_cov_lag c ξ x0 _ _ hξ h0 i j hij, st, ouDrift_prod exp hadd h1 γ dt i j hij]
  ring

theorem ou_cov_const (sqrt exp : K → K) (hadd : ∀ x y, exp (x + y) = exp x * exp y) (h1 : exp 0 = 1)
    (ξ : Nat → W) (x0 : W) (σ γ : K) (dt : Nat → K)
    (hξ : Orthonormal c ξ) (h0 : ∀ l, c.B x0 (ξ l) = 0) (hx0 : c.B x0 x0 = σ * σ)
    (hs : ∀ k, let d := ouDrift exp (fun _ => γ) dt k; sqrt (1 - d * d) * sqrt (1 - d * d) = 1 - d * d)
    (i j : Nat) (hij : i ≤ j) :
    c.B (ou sqrt exp ξ x0 (fun _ => σ) (fun _ => γ) dt j) (ou sqrt exp ξ x0 (fun _ => σ) (fun _ => γ) dt i)
      = σ * σ * exp (-(γ * ((∑ k ∈ range j, dt k) - ∑ k ∈ range i, dt k))) := by
  rw [ou_cov c sqrt exp hadd h1 ξ x0 σ _ dt hξ h0 hx0 hs i j hij, ← mul_sum, sum_Ico_eq_sub _ hij]

/-! ## the generic generator agrees with the specialised processes -/

/-- **generic_eq_special** (Wiener): drift `1`, diffusion amplitude `sqrt(dt)·σ` -/
theorem generic_eq_wiener (sqrt : K → K) (ξ : Nat → W) (x0 : W) (σ dt : Nat → K) (i : Nat) :
    scalarGM ξ x0 (fun _ => 1) (wienerAmp sqrt σ dt) i = wiener sqrt ξ x0 σ dt i := by
  induction i with
  | zero => rfl
  | succ i ih =>
    simp only [scalarGM, wiener, cumsumAt_succ] at ih ⊢
    rw [ih, one_smul, add_comm]

/-- **generic_eq_special** (scalar): `discrete_gauss_markov_process` with `1×1` matrices is the scalar recursion
    (this is how `ornstein_uhlenbeck_process` reaches the generic generator) -/
theorem generic_eq_scalar (ξ : Nat → W) (x0 : W) (d a : Nat → K) (i : Nat) :
    discreteGM (fun k => [ξ k]) [x0] (fun k => [[d k]]) (fun k => [[a k]]) i = [scalarGM ξ x0 d a i] := by
  induction i with
  | zero => rfl
  | succ i ih => simp [discreteGM, ih, matVec, dotSmul, vecAdd, scalarGM]

/-- **generic_eq_special** (integrated Wiener): the generic generator with `F_k = [[1,dt_k],[0,1]]` and
    `G_k = σ_k√dt_k·[[√(dt_k²/12+asp_k), dt_k/2],[0,1]]` reproduces `integrated_wiener_process` -/
theorem generic_eq_iwp (sqrt : K → K) (σ dt asp : Nat → K) (ξ0 ξ1 : Nat → W) (x0x x0v : W) (i : Nat) :
    discreteGM (fun k => [ξ0 k, ξ1 k]) [x0x, x0v] (iwpDrift dt) (iwpDiffamp sqrt σ dt asp) i
      = [iwpX sqrt σ dt asp ξ0 ξ1 x0x x0v i, iwpV sqrt σ dt ξ1 x0v i] := by
  induction i with
  | zero => rfl
  | succ i ih =>
    obtain ⟨tx, tv⟩ := iwp_transition sqrt σ dt asp ξ0 ξ1 x0x x0v i
    rw [tx, tv]
    simp only [discreteGM, ih, matVec, dotSmul, vecAdd, iwpDrift, iwpDiffamp, List.map, iwpN0, iwpN1,
      one_smul, zero_smul, add_zero, zero_add, mul_smul]
    simp only [List.cons.injEq, and_true]
    constructor <;> abel

/-! ## the generic generator in any state dimension -/

/-- **generic_cov_recursion**: one step `s' = F s + G ξ` of `discrete_gauss_markov_process` (any state dimension, any
    drift and diffusion-amplitude matrices, noise orthonormal and uncorrelated with the state) maps the state covariance
    `P ↦ F P Fᵀ + G Gᵀ` — i.e. `diffamp_i @ diffamp_i.T` is the transition covariance, as the docstring promises -/
theorem generic_cov_recursion {d : Type} [Fintype d] [DecidableEq d] (F G : Matrix d d K) (s ξ : d → W)
    (hξ : ∀ a b, c.B (ξ a) (ξ b) = if a = b then 1 else 0) (hind : ∀ a b, c.B (s a) (ξ b) = 0) :
    covMat c (gmStep F G s ξ) (gmStep F G s ξ) = F * covMat c s s * Matrix.transpose F + G * Matrix.transpose G :=
  gm_cov_step c F G s ξ hξ hind

/-- … and the covariance with any earlier vector is propagated by the drift alone: `Cov(s', t) = F Cov(s, t)` -/
theorem generic_cross_cov {d : Type} [Fintype d] [DecidableEq d] (F G : Matrix d d K) (s ξ t : d → W)
    (hind : ∀ a b, c.B (ξ a) (t b) = 0) :
    covMat c (gmStep F G s ξ) t = F * covMat c s t :=
  gm_cross_cov_step c F G s ξ t hind

/-! ## the "A Aᵀ" reading and non-vacuity -/

/-- With coefficient vectors (`W = Fin n → K`, dot-product form, `ξ_k = e_k`, deterministic start `0`) the
    model's outputs *are* the rows of the Jacobian `A`, and `wiener_cov` reads `(A Aᵀ)_{ij} = Σ_{k<min i j} σ_k² dt_k`
    as long as all excitations that enter are among the `n` coordinates. -/
theorem wiener_AAt (n : Nat) (sqrt : K → K) (σ dt : Nat → K) (hs : ∀ k, sqrt (dt k) * sqrt (dt k) = dt k)
    (i j : Nat) (hi : i ≤ n) (hj : j ≤ n) :
    let e : Nat → (Fin n → K) := fun k => fun m => if m.val = k then 1 else 0
    let A : Nat → (Fin n → K) := wiener sqrt e 0 σ dt
    ∑ m, A i m * A j m = ∑ k ∈ range (min i j), σ k * σ k * dt k := by
  intro e A
  -- the excitations e_k, k < n, are orthonormal; those with k ≥ n vanish and never matter: replace the
  -- covariance argument by a direct induction using the response lemma on the truncated family
  have hA : ∀ i, ∀ m : Fin n, A i m = if m.val < i then sqrt (dt m.val) * σ m.val else 0 := by
    intro i m
    induction i with
    | zero => simp [A, wiener, cumsumAt]
    | succ i ih =>
      have : A (i+1) m = A i m + wienerAmp sqrt σ dt i * e i m := by
        simp [A, wiener, cumsumAt_succ]
      rw [this, ih]
      by_cases h1 : m.val < i
      · have h2 : m.val ≠ i := by omega
        have h3 : m.val < i + 1 := by omega
        simp [h1, h2, h3, e]
      · by_cases h2 : m.val = i
        · simp [h2, e, wienerAmp]
        · have h3 : ¬ m.val < i + 1 := by omega
          simp [h1, h2, h3, e]
  have : ∀ m : Fin n, A i m * A j m = if m.val < min i j then σ m.val * σ m.val * dt m.val else 0 := by
    intro m
    rw [hA, hA]
    by_cases h1 : m.val < i <;> by_cases h2 : m.val < j
    · have : m.val < min i j := lt_min h1 h2
      simp only [h1, h2, this, if_true]
      linear_combination (σ m.val * σ m.val) * hs m.val
    · have : ¬ m.val < min i j := by omega
      simp [h1, h2, this]
    · have : ¬ m.val < min i j := by omega
      simp [h1, h2, this]
    · have : ¬ m.val < min i j := by omega
      simp [h1, h2, this]
  simp only [this]
  rw [Fin.sum_univ_eq_sum_range (fun m => if m < min i j then σ m * σ m * dt m else 0) n]
  have hmin : min i j ≤ n := le_trans (min_le_left _ _) hi
  rw [← sum_filter, ]
  congr 1
  ext k; simp only [mem_filter, mem_range]; omega

/-- non-vacuity of the covariance setting: in `dotForm ℚ 2` the unit vectors are orthonormal excitations -/
example : (dotForm ℚ 2).B (fun m => if m.val = 0 then 1 else 0) (fun m => if m.val = 0 then 1 else 0) = 1
    ∧ (dotForm ℚ 2).B (fun m => if m.val = 0 then 1 else 0) (fun m => if m.val = 1 then 1 else 0) = 0 := by
  constructor <;> simp [dotForm, Fin.sum_univ_two]

/-- non-vacuity of the `sqrt` hypotheses: exact rational roots exist for perfect-square steps
    (the class-E inputs of the tie): dt = 9/4, σ = 1/2 gives amp 3/4 -/
example : wienerAmp (fun x : ℚ => if x = 9/4 then 3/2 else 0) (fun _ => 1/2) (fun _ => 9/4) 0 = 3/4 := by
  norm_num [wienerAmp]

end NiftyVerif.C29
