/-
  C06 — Field arithmetic and contractions follow array semantics with volumes.
  Property theorems only (helper lemmas: Lemmas/Field.lean; executable model: Model/Field.lean, which transcribes
  nifty/cl/field.py, multi_field.py, domain_tuple.py and utilities.parse_spaces — see the header there).
  Obligations are listed in harness/props/c06.py.  All statements hold for every number of sub-domains, every
  shape, every `spaces` value and all data in any field `K` (the driver runs `K = CRat`, exact complex rationals).
-/
import NiftyVerif.Lemmas.Field
import NiftyVerif.Lemmas.FieldCRat
import NiftyVerif.Lemmas.FieldPerm
import NiftyVerif.Lemmas.FieldOps
import Mathlib.Data.Complex.Basic

namespace NiftyVerif.C06
open NiftyVerif.FieldM

variable {K : Type}

/-- Field.weight(power, spaces) multiplies every entry by the `power`-th power of the volume factors of exactly the
    listed sub-domains (scalar `dvol`s and broadcast array `dvol`s alike); domain and identity are unchanged. -/
theorem weight_spec [Field K] [DecidableEq K] (f g : Fld K) (p : Int) (sp : Spaces) (h : weight f p sp = .ok g) :
    ∃ l, parseSpaces sp f.subs.length = .ok l ∧ g.subs = f.subs ∧ g.dom = f.dom ∧
      ∀ idx, g.val idx = f.val idx * prodOver l (fun ind => ipow (dvolAt f.subs ind idx) p) :=
  weight_val f g p sp h

-- non-vacuity: one sub-domain with dvol = [1/2, 2], data [3, 5], power 2 -> [3/4, 20]
example :
    let f : Fld Rat := ⟨0, [⟨[2], .vector #[1/2, 2], none⟩], DT.float, fun i => if i.headD 0 = 0 then 3 else 5⟩
    (match weight f 2 .none with | .ok g => [g.val [0], g.val [1]] | .error _ => []) = [3/4, 20] := by decide +kernel

/-- Field.integrate(spaces), on BOTH code paths (all volume elements scalar: `sum * scalar_weight`; otherwise
    `weight(1).sum`), is the sum over the contracted index fibre of value × volume factors. -/
theorem integrate_eq_sum_weight [Field K] [DecidableEq K] (f g : Fld K) (sp : Spaces)
    (h : integrate f sp = .ok g) :
    ∃ l, parseSpaces sp f.subs.length = .ok l ∧ g.subs = sel false (maskOf f.subs.length l) f.subs ∧
      ∀ o, g.val o = sumOver (allIdx (sel true (maskOf f.subs.length l) f.sizes)) (fun c =>
        f.val (merge (maskOf f.subs.length l) o c) *
          prodOver l (fun ind => dvolAt f.subs ind (merge (maskOf f.subs.length l) o c))) := by
  unfold integrate at h
  cases hsw : scalarWeight f.subs sp with
  | error e => simp only [hsw] at h; cases h
  | ok r =>
    cases r with
    | some swgt =>
      simp only [hsw] at h
      unfold fsum at h
      cases hp : parseSpaces sp f.subs.length with
      | error e => simp only [hp] at h; cases h
      | ok l =>
        simp only [hp, Except.ok.injEq] at h
        subst h
        refine ⟨l, rfl, rfl, fun o => ?_⟩
        simp only [smulFloat, contractFld, contract]
        rw [← sumOver_mul_right]
        apply sumOver_congr
        intro c _
        rw [((scalarWeight_spec f.subs sp l hp _ hsw (merge (maskOf f.subs.length l) o c)).1 swgt rfl).1]
    | none =>
      simp only [hsw] at h
      cases hw : weight f 1 sp with
      | error e => simp only [hw] at h; cases h
      | ok tmp =>
        simp only [hw] at h
        obtain ⟨l, hp, hsubs, _, hval⟩ := weight_val f tmp 1 sp hw
        unfold fsum at h
        rw [hsubs, hp] at h
        simp only [Except.ok.injEq] at h
        subst h
        refine ⟨l, hp, by simp only [contractFld, hsubs], fun o => ?_⟩
        simp only [contractFld, contract, Fld.sizes, hsubs]
        apply sumOver_congr
        intro c _
        rw [hval]
        simp only [ipow_one]

/-- Operands on different domains are rejected, and nothing else is: a binary operation fails (with the error of
    `check_object_identity`) exactly when the two DomainTuple objects differ. -/
theorem domain_mismatch_rejected (op : K → K → K) (dt : DT → DT → DT) (f g : Fld K) :
    (g.dom ≠ f.dom → binop op dt f g = .error "ValueError") ∧
    (g.dom = f.dom → ∃ r, binop op dt f g = .ok r ∧ r.dom = f.dom ∧ r.subs = f.subs ∧
        ∀ i, r.val i = op (f.val i) (g.val i)) := by
  constructor
  · intro h; simp [binop, h]
  · intro h
    exact ⟨{ f with dt := dt f.dt g.dt, val := fun i => op (f.val i) (g.val i) }, by simp [binop, h], rfl, rfl,
      fun _ => rfl⟩

/-- the same for dot products (any `spaces`) and for MultiFields (identity of the MultiDomain objects) -/
theorem domain_mismatch_rejected_vdot [Add K] [Mul K] [OfNat K 0] (conj : K → K) (f g : Fld K) (sp : Spaces)
    (a b : MFld K) (op : Fld K → Fld K → Except String (Fld K)) :
    (g.dom ≠ f.dom → vdot conj f g sp = .error "ValueError" ∧ sVdot conj f g = .error "ValueError") ∧
    (a.dom ≠ b.dom → mbinop op a b = .error "ValueError" ∧ msVdot conj b a = .error "ValueError") := by
  constructor
  · intro h; simp [vdot, sVdot, h]
  · intro h; simp [mbinop, msVdot, h]

example : binop (· + ·) max (⟨0, [], 2, fun _ => (1 : Rat)⟩ : Fld Rat) ⟨1, [], 2, fun _ => 1⟩ = .error "ValueError" := by
  simp [binop]

/-- Field.mean(spaces) on BOTH code paths equals Field.integrate(spaces) divided by the total volume of the
    contracted sub-domains: the uniform path (`np.mean`, i.e. sum / count) because `count · scalar_weight` is the
    total volume of sub-domains whose `total_volume` is the sum of their volume factors (`VolConsistent`: a theorem for
    StructuredDomain's formula, the trusted-base hypothesis `4π = Σ dvol` for GLSpace/HPSpace; used on this path only), the non-uniform path (`weight(1).sum · (1/total_volume)`) by construction. -/
theorem mean_eq_integrate_div_volume [Field K] [DecidableEq K] (f m h : Fld K) (sp : Spaces) (V : K)
    (hm : mean f sp = .ok m) (hi : integrate f sp = .ok h) (hV : totalVolume f.subs sp = .ok V)
    (hvc : ∀ s ∈ f.subs, VolConsistent s) (hV0 : V ≠ 0) :
    ∀ o, m.val o = h.val o * V⁻¹ := by
  have hstd : ∀ i v, (f.subs.getD i default).dvol = .scalar v →
      (f.subs.getD i default).totalVolume = .ok (((f.subs.getD i default).size : K) * v) := by
    intro i v hv
    by_cases hi' : i < f.subs.length
    · have hmem : f.subs.getD i default ∈ f.subs := by
        simp [List.getD_eq_getElem?_getD, List.getElem?_eq_getElem hi']
      exact totalVolume_of_consistent_scalar _ v (hvc _ hmem) hv
    · have : f.subs.getD i default = default := by
        simp [List.getD_eq_getElem?_getD, List.getElem?_eq_none (Nat.le_of_not_lt hi')]
      rw [this] at hv
      cases hv
  unfold mean at hm
  unfold integrate at hi
  cases hsw : scalarWeight f.subs sp with
  | error e => simp only [hsw] at hm; cases hm
  | ok r =>
    cases r with
    | some swgt =>
      simp only [hsw] at hm hi
      unfold fsum at hi
      cases hp : parseSpaces sp f.subs.length with
      | error e => simp only [hp] at hm; cases hm
      | ok l =>
        simp only [hp, Except.ok.injEq] at hm hi
        subst hm; subst hi
        intro o
        obtain ⟨hw, hs⟩ := (scalarWeight_spec f.subs sp l hp _ hsw o).1 swgt rfl
        have hVe := totalVolume_scalar f.subs sp l V o hstd hp hs hV
        rw [← hw] at hVe
        simp only [contractFld, npMean, smulFloat, Fld.sizes]
        have hne : ((countOf (f.subs.map SubDom.size) l : Nat) : K) * swgt ≠ 0 := by rw [← hVe]; exact hV0
        have hc : ((countOf (f.subs.map SubDom.size) l : Nat) : K) ≠ 0 := left_ne_zero_of_mul hne
        have hs0 : swgt ≠ 0 := right_ne_zero_of_mul hne
        rw [hVe]
        field_simp
    | none =>
      simp only [hsw] at hm hi
      cases hw : weight f 1 sp with
      | error e => simp only [hw] at hm; cases hm
      | ok tmp =>
        simp only [hw] at hm hi
        obtain ⟨l, hp, hsubs, _, _⟩ := weight_val f tmp 1 sp hw
        cases hs : fsum tmp sp with
        | error e => simp only [hs] at hm; cases hm
        | ok s =>
          simp only [hs, hsubs, hV, Except.ok.injEq] at hm hi
          subst hm; subst hi
          intro o
          simp [smulFloat]

-- non-vacuity: both paths on a 2-point domain. scalar dvol 1/2: mean [3,5] = 4 = (3/2+5/2)/1;
-- array dvol [1/2, 2]: mean = (3/2 + 10)/(5/2) = 23/5
example :
    let f : Fld Rat := ⟨0, [⟨[2], .scalar (1/2), none⟩], DT.float, fun i => if i.headD 0 = 0 then 3 else 5⟩
    let g : Fld Rat := ⟨0, [⟨[2], .vector #[1/2, 2], none⟩], DT.float, fun i => if i.headD 0 = 0 then 3 else 5⟩
    ((match mean f .none with | .ok m => m.val [] | .error _ => 0),
     (match mean g (.scalar 0) with | .ok m => m.val [] | .error _ => 0)) = (4, 23/5) := by decide +kernel

/-- Field.var(spaces) on BOTH code paths is the (volume-weighted) mean of the squared deviation from the
    (volume-weighted) mean, broadcast back along the contracted sub-domains: population variance, with `|·|²`
    (`nsq`) for complex data and the plain square for real data (`hreal`: on real dtypes `|z|² = z·z`). -/
theorem var_eq_mean_sq_dev [Field K] [DecidableEq K] (nsq : K → K) (f g : Fld K) (sp : Spaces)
    (hreal : f.dt ≠ DT.complex → ∀ z, nsq z = z * z)
    (h : var nsq f sp = .ok g) :
    ∃ m l d g', mean f sp = .ok m ∧ parseSpaces sp f.subs.length = .ok l ∧
      mean { f with dt := d, val := fun i => nsq (f.val i - m.val (sel false (maskOf f.subs.length l) i)) } sp
        = .ok g' ∧
      ∀ o, g.val o = g'.val o := by
  unfold var at h
  cases hsw : scalarWeight f.subs sp with
  | error e => simp only [hsw] at h; cases h
  | ok r =>
    cases r with
    | some swgt =>
      simp only [hsw] at h
      cases hp : parseSpaces sp f.subs.length with
      | error e => simp only [hp] at h; cases h
      | ok l =>
        simp only [hp, Except.ok.injEq] at h
        subst h
        let m := contractFld f l (max f.dt DT.float) (npMean l)
        let sq : Fld K := { f with dt := f.dt, val := fun i => nsq (f.val i - m.val (sel false (maskOf f.subs.length l) i)) }
        refine ⟨m, l, f.dt, contractFld sq l (max f.dt DT.float) (npMean l), ?_, rfl, ?_, ?_⟩
        · simp only [mean, hsw, hp, m]
        · simp only [mean, hsw, hp, sq]
        · intro o
          simp only [contractFld, npVar, npMean, Fld.sizes, sq, m]
    | none =>
      simp only [hsw] at h
      cases hm : mean f sp with
      | error e => simp only [hm] at h; cases h
      | ok m1 =>
        simp only [hm] at h
        cases hp : parseSpaces sp f.subs.length with
        | error e => simp only [hp] at h; cases h
        | ok l =>
          simp only [hp] at h
          by_cases hc : f.dt = DT.complex
          · simp only [hc, if_true, broadcastBack] at h
            exact ⟨m1, l, DT.float, g, rfl, rfl, h, fun _ => rfl⟩
          · simp only [hc, if_false, broadcastBack] at h
            refine ⟨m1, l, max f.dt m1.dt, g, rfl, rfl, ?_, fun _ => rfl⟩
            simp only [hreal hc]
            exact h

-- non-vacuity: array dvol [1/2, 2], data [3, 5]: mean 23/5, var = (1/2·(8/5)² + 2·(2/5)²)/(5/2) = 16/25
example :
    let g : Fld Rat := ⟨0, [⟨[2], .vector #[1/2, 2], none⟩], DT.float, fun i => if i.headD 0 = 0 then 3 else 5⟩
    (match var (fun z => z * z) g .none with | .ok m => m.val [] | .error _ => 0) = 16/25 := by decide +kernel

/-- Field.vdot(x, spaces): with all sub-domains listed it is `Σ_i conj(self_i)·x_i` over the whole array
    (AnyArray.vdot); with a proper subset it is that sum over each index fibre of the listed sub-domains, living on
    the remaining ones (`(self.conjugate()*x).sum(spaces)`; `conjugate()` skips real dtypes, on which `conj` is the
    identity: `hconj`); and the fibre sums add up to the full dot product for every mask (Fubini). -/
theorem vdot_partial_eq_sum [CommRing K] (conj : K → K) (f g r : Fld K) (sp : Spaces)
    (hconj : f.dt ≠ DT.complex → ∀ i, conj (f.val i) = f.val i)
    (h : vdot conj f g sp = .ok r) :
    g.dom = f.dom ∧ ∃ l, parseSpaces sp f.subs.length = .ok l ∧
      (l.length = f.subs.length → ∀ o, r.val o = sumOver (allIdx f.sizes) (fun i => conj (f.val i) * g.val i)) ∧
      (l.length ≠ f.subs.length → r.subs = sel false (maskOf f.subs.length l) f.subs ∧
        ∀ o, r.val o = sumOver (allIdx (sel true (maskOf f.subs.length l) f.sizes)) (fun c =>
          conj (f.val (merge (maskOf f.subs.length l) o c)) * g.val (merge (maskOf f.subs.length l) o c))) ∧
      (∀ mask : List Bool, mask.length = f.sizes.length →
        sumOver (allIdx (sel false mask f.sizes)) (contract mask f.sizes (fun i => conj (f.val i) * g.val i))
          = sumOver (allIdx f.sizes) (fun i => conj (f.val i) * g.val i)) := by
  unfold vdot at h
  by_cases hd : g.dom = f.dom
  · simp only [hd, ne_eq, not_true_eq_false, if_false] at h
    refine ⟨hd, ?_⟩
    cases hp : parseSpaces sp f.subs.length with
    | error e => simp only [hp] at h; cases h
    | ok l =>
      simp only [hp] at h
      refine ⟨l, rfl, ?_, ?_, fun mask hm => contract_total mask f.sizes _ hm⟩
      · intro hl o
        simp only [hl, if_true, Except.ok.injEq] at h
        subst h
        rfl
      · intro hl
        simp only [hl, if_false, Except.ok.injEq] at h
        subst h
        refine ⟨rfl, fun o => ?_⟩
        simp only [contractFld, contract, Fld.sizes]
        apply sumOver_congr
        intro c _
        by_cases hc : f.dt = DT.complex
        · simp only [hc, if_true]
        · simp only [hc, if_false, hconj hc]
  · simp only [ne_eq, hd, not_false_eq_true, if_true] at h
    cases h

/-- s_vdot / vdot over all sub-domains is conjugate-linear in the first argument, linear in the second, and
    Hermitian: `⟨a·x + y, z⟩ = conj(a)·⟨x,z⟩ + ⟨y,z⟩`, `⟨z, a·x + y⟩ = a·⟨z,x⟩ + ⟨z,y⟩`, `⟨x,z⟩ = conj ⟨z,x⟩`
    for every ring involution `conj`. -/
theorem vdot_conj_linear [CommRing K] (conj : K →+* K) (hinv : ∀ a, conj (conj a) = a)
    (x y z : Fld K) (a : K) (hy : y.dom = x.dom) (hz : z.dom = x.dom) (hys : y.subs = x.subs)
    (hzs : z.subs = x.subs) :
    ∃ vxz vyz vzx vzy, sVdot conj x z = .ok vxz ∧ sVdot conj y z = .ok vyz ∧
      sVdot conj z x = .ok vzx ∧ sVdot conj z y = .ok vzy ∧
      sVdot conj { x with val := fun i => a * x.val i + y.val i } z = .ok (conj a * vxz + vyz) ∧
      sVdot conj z { x with val := fun i => a * x.val i + y.val i } = .ok (a * vzx + vzy) ∧
      vxz = conj vzx := by
  have hsz : z.sizes = x.sizes := by simp only [Fld.sizes, hzs]
  have hsy : y.sizes = x.sizes := by simp only [Fld.sizes, hys]
  refine ⟨sumOver (allIdx x.sizes) (fun i => conj (x.val i) * z.val i),
    sumOver (allIdx x.sizes) (fun i => conj (y.val i) * z.val i),
    sumOver (allIdx x.sizes) (fun i => conj (z.val i) * x.val i),
    sumOver (allIdx x.sizes) (fun i => conj (z.val i) * y.val i), ?_, ?_, ?_, ?_, ?_, ?_, ?_⟩
  · simp [sVdot, hz]
  · simp [sVdot, hz, hy, hsy]
  · simp [sVdot, hz, hsz]
  · simp [sVdot, hz, hy, hsz]
  · simp only [sVdot, hz, ne_eq, not_true_eq_false, if_false, Except.ok.injEq, map_add, map_mul, Fld.sizes]
    rw [← sumOver_mul_left, ← sumOver_add]
    apply sumOver_congr
    intro i _
    ring
  · simp only [sVdot, hz, ne_eq, not_true_eq_false, if_false, Except.ok.injEq, hsz]
    rw [← sumOver_mul_left, ← sumOver_add]
    apply sumOver_congr
    intro i _
    ring
  · rw [sumOver_hom conj (map_zero conj) (map_add conj)]
    apply sumOver_congr
    intro i _
    simp only [map_mul, hinv]
    ring

-- non-vacuity: complex conjugation on ℂ is such an involution, so the laws hold for all complex fields
example (x y z : Fld ℂ) (a : ℂ) (hy : y.dom = x.dom) (hz : z.dom = x.dom) (hys : y.subs = x.subs)
    (hzs : z.subs = x.subs) :=
  vdot_conj_linear (starRingEnd ℂ) Complex.conj_conj x y z a hy hz hys hzs

-- non-vacuity (partial dot product): 2×2 field x = [[1,2],[3,4]] with itself over the first sub-domain -> [10, 20]
example :
    let f : Fld Rat := ⟨0, [⟨[2], .none, none⟩, ⟨[2], .none, none⟩], 2, fun i => (2 * i.headD 0 + i.tail.headD 0 + 1 : Nat)⟩
    (match vdot id f f (.scalar 0) with | .ok r => [r.val [0], r.val [1]] | .error _ => []) = [10, 20] ∧
    (match vdot id f f .none with | .ok r => r.val [] | .error _ => 0) = 30 := by decide +kernel

/-- total_volume(spaces) is the product of the sub-domain volumes of the listed sub-domains, and for the whole
    domain (StructuredDomain formula, every sub-domain has volume factors) this product equals the sum over ALL
    multi-indices of the product of the volume factors — the integral of the constant field 1. -/
theorem total_volume_mul [Field K] (subs : List (SubDom K)) (sp : Spaces) (l : List Nat) (V : K)
    (hp : parseSpaces sp subs.length = .ok l) (h : totalVolume subs sp = .ok V) :
    V = prodOver l (fun i => subTV (subs.getD i default)) ∧
    ((∀ s ∈ subs, s.tv = none ∧ s.dvol ≠ .none) →
      prodOver (List.range subs.length) (fun i => subTV (subs.getD i default))
        = sumOver (allIdx (subs.map SubDom.size))
            (fun idx => prodOver (List.range subs.length) (fun k => dvolAt subs k idx))) := by
  constructor
  · obtain ⟨hlt, hints⟩ := parseSpaces_ok hp
    rw [totalVolume_eq_loop, hints] at h
    rw [totalVolumeLoop_prod subs l 1 V hlt h, one_mul]
  · intro hs
    simp only [prod_dvolAt_eq_prodZip]
    rw [sum_prodZip (subs.map subW) (subs.map SubDom.size) (by simp)]
    clear hp h
    induction subs with
    | nil => simp [prodOver]
    | cons s t ih =>
      have hs' : ∀ s' ∈ t, s'.tv = none ∧ s'.dvol ≠ .none := fun s' hs'' => hs s' (by simp [hs''])
      obtain ⟨htv, hdv⟩ := hs s (by simp)
      simp only [List.length_cons, prodOver_range_succ, List.map_cons, List.zip_cons_cons, prodOver,
        List.getD_cons_zero, List.getD_cons_succ]
      rw [ih hs']
      congr 1
      unfold subTV subW
      cases hd : s.dvol with
      | none => exact absurd hd hdv
      | scalar w =>
        simp only [htv]
        clear ih hs hs' hdv htv hd
        induction s.size with
        | zero => simp [sumOver]
        | succ n ihn =>
          rw [List.range_succ, sumOver_append]
          simp only [sumOver, add_zero, ← ihn, Nat.cast_succ]
          ring
      | vector w => simp only [htv]

-- non-vacuity: RGSpace-like (2 points, dvol 1/2) × DOFSpace-like (weights 1/2, 2): 1 · 5/2 = Σ over 4 points
example :
    let subs : List (SubDom Rat) := [⟨[2], .scalar (1/2), none⟩, ⟨[2], .vector #[1/2, 2], none⟩]
    (match totalVolume subs .none with | .ok v => v | .error _ => 0) = 5/2 ∧
    sumOver (allIdx (subs.map SubDom.size)) (fun idx => prodOver (List.range 2) (fun k => dvolAt subs k idx)) = 5/2 := by
  decide +kernel

/-- MultiField binary operations are key-wise: after the identity check of the two MultiDomains, leaf `k` of the
    result is the Field operation applied to the leaves `k` of the operands (keys kept, in order); with a scalar
    operand / for unary operations every leaf is transformed on its own. -/
theorem multifield_op_keywise (op : Fld K → Fld K → Except String (Fld K)) (a b r : MFld K)
    (h : mbinop op a b = .ok r) :
    a.dom = b.dom ∧ r.dom = a.dom ∧
    List.Forall₂ (fun (ab : (String × Fld K) × (String × Fld K)) (c : String × Fld K) =>
      c.1 = ab.1.1 ∧ op ab.1.2 ab.2.2 = .ok c.2) (a.leaves.zip b.leaves) r.leaves ∧
    (∀ u : Fld K → Fld K, (mmap u a).leaves = a.leaves.map (fun kv => (kv.1, u kv.2))) := by
  unfold mbinop at h
  by_cases hd : a.dom = b.dom
  · simp only [hd, ne_eq, not_true_eq_false, if_false] at h
    cases hz : zipLeaves op a.leaves b.leaves with
    | error e => simp only [hz] at h; cases h
    | ok l =>
      simp only [hz, Except.ok.injEq] at h
      subst h
      exact ⟨hd, hd.symm, zipLeaves_spec op _ _ _ hz, fun _ => rfl⟩
  · simp only [ne_eq, hd, not_false_eq_true, if_true] at h
    cases h

example :
    let f : Fld Rat := ⟨0, [], 2, fun _ => 3⟩
    let a : MFld Rat := ⟨7, [("a", f), ("b", f)]⟩
    (match mbinop (binop (· + ·) max) a a with | .ok r => r.leaves.map (fun kv => (kv.1, kv.2.val [])) | .error _ => [])
      = [("a", 6), ("b", 6)] := by decide +kernel

/-- MultiField.norm combines the leaf norms correctly: for p = 1 the sum of the leaf 1-norms is the 1-norm of the
    concatenated entries; for p = ∞ the maximum of the leaf maxima is the maximum over all entries; for p = 2,
    whatever non-negative numbers `nrm k` the leaf 2-norms are (`nrm k ² = Σ |leaf k|²`), a number `r` with
    `r² = Σ_k (nrm k)²` — NIFTy's `(nrm**2).sum()**(1/2)` — satisfies `r² = Σ |all entries|²`. -/
theorem multifield_norm [Field K] [LinearOrder K] (ab nsq : K → K) (a : MFld K) :
    mnorm1 ab a = sumOver (mentries a) ab ∧
    mnormInf max ab a = maxOver max (mentries a) ab ∧
    (∀ (nrm : String × Fld K → K) (r : K), (∀ kv ∈ a.leaves, nrm kv ^ 2 = norm2Sq nsq kv.2) →
      r ^ 2 = sumOver a.leaves (fun kv => nrm kv ^ 2) → r ^ 2 = sumOver (mentries a) nsq) := by
  refine ⟨?_, ?_, ?_⟩
  · simp only [mnorm1, norm1, mentries, sumOver_flatMap, sumOver_map]
  · simp only [mnormInf, normInf, mentries, maxOver_flatMap, maxOver_map]
  · intro nrm r hn hr
    rw [hr, sumOver_congr hn]
    simp only [norm2Sq, mentries, sumOver_flatMap, sumOver_map]

example :
    let f : Fld Rat := ⟨0, [⟨[2], .none, none⟩], 2, fun i => if i.headD 0 = 0 then 3 else -4⟩
    let a : MFld Rat := ⟨7, [("a", f), ("b", f)]⟩
    (mnorm1 (fun z => if z < 0 then -z else z) a, mnorm2Sq (fun z => z * z) a,
     mnormInf (fun x y => if x < y then y else x) (fun z => if z < 0 then -z else z) a) = (14, 50, 4) := by
  decide +kernel

/-- For ANY `spaces` (any subset of sub-domains, given in any order): the total volume of the listed sub-domains is the
    sum over an index fibre of exactly those sub-domains of the product of their volume factors (the integral of the
    constant 1 over `spaces`), when every sub-domain has volume factors and StructuredDomain's `total_volume`. -/
theorem total_volume_fibre [Field K] (subs : List (SubDom K)) (sp : Spaces) (l : List Nat) (V : K)
    (hp : parseSpaces sp subs.length = .ok l) (h : totalVolume subs sp = .ok V)
    (hs : ∀ s ∈ subs, VolConsistent s) (o : Idx) :
    V = sumOver (allIdx (sel true (maskOf subs.length l) (subs.map SubDom.size)))
          (fun c => prodOver l (fun i => dvolAt subs i (merge (maskOf subs.length l) o c))) :=
  totalVolume_eq_fibre_sum subs sp l V hp h hs o

/-- The property itself for means: on both code paths and for any subset of sub-domains, `mean(spaces)` is the
    volume-weighted average over the index fibre, `Σ_c w(c)·x(o,c) / Σ_c w(c)` with `w` the product of the volume
    factors of the listed sub-domains. -/
theorem mean_eq_weighted_average [Field K] [DecidableEq K] (f m h : Fld K) (sp : Spaces) (V : K)
    (hm : mean f sp = .ok m) (hi : integrate f sp = .ok h) (hV : totalVolume f.subs sp = .ok V)
    (hs : ∀ s ∈ f.subs, VolConsistent s) (hV0 : V ≠ 0) :
    ∃ l, parseSpaces sp f.subs.length = .ok l ∧ ∀ o,
      m.val o =
        sumOver (allIdx (sel true (maskOf f.subs.length l) f.sizes)) (fun c =>
          f.val (merge (maskOf f.subs.length l) o c) *
            prodOver l (fun ind => dvolAt f.subs ind (merge (maskOf f.subs.length l) o c))) *
        (sumOver (allIdx (sel true (maskOf f.subs.length l) f.sizes)) (fun c =>
            prodOver l (fun ind => dvolAt f.subs ind (merge (maskOf f.subs.length l) o c))))⁻¹ := by
  obtain ⟨l, hp, _, hval⟩ := integrate_eq_sum_weight f h sp hi
  refine ⟨l, hp, fun o => ?_⟩
  rw [mean_eq_integrate_div_volume f m h sp V hm hi hV hs hV0 o, hval o]
  have hVs := total_volume_fibre f.subs sp l V hp hV hs o
  simp only [Fld.sizes]
  rw [← hVs]

-- non-vacuity: DOF-like weights [1/2, 2] × scalar dvol 1/2 (2 points), data 1..4, mean over the FIRST sub-domain:
-- fibre o=0: (1/2·1 + 2·3)/(5/2) = 13/5, fibre o=1: (1/2·2 + 2·4)/(5/2) = 18/5
example :
    let f : Fld Rat := ⟨0, [⟨[2], .vector #[1/2, 2], none⟩, ⟨[2], .scalar (1/2), none⟩], DT.float,
      fun i => (2 * i.headD 0 + i.tail.headD 0 + 1 : Nat)⟩
    (match mean f (.list [0]) with | .ok m => [m.val [0], m.val [1]] | .error _ => []) = [13/5, 18/5] := by
  decide +kernel

/-- `Σ_c w(c)`: the volume of the index fibre over which `spaces = l` contracts -/
def fibreVolume [Field K] (f : Fld K) (l : List Nat) (o : Idx) : K :=
  sumOver (allIdx (sel true (maskOf f.subs.length l) f.sizes)) (fun c =>
    prodOver l (fun ind => dvolAt f.subs ind (merge (maskOf f.subs.length l) o c)))

/-- `mean` without auxiliary hypotheses: wherever `mean(spaces)` is defined on sub-domains with volume factors and the
    fibre volume is non-zero, it is the volume-weighted average over the fibre (both code paths, any subset). -/
theorem mean_weighted [Field K] [DecidableEq K] (f m : Fld K) (sp : Spaces) (hm : mean f sp = .ok m)
    (hs : ∀ s ∈ f.subs, VolConsistent s)
    (hW : ∀ l o, parseSpaces sp f.subs.length = .ok l → fibreVolume f l o ≠ 0) :
    ∃ l, parseSpaces sp f.subs.length = .ok l ∧ ∀ o,
      m.val o =
        sumOver (allIdx (sel true (maskOf f.subs.length l) f.sizes)) (fun c =>
          f.val (merge (maskOf f.subs.length l) o c) *
            prodOver l (fun ind => dvolAt f.subs ind (merge (maskOf f.subs.length l) o c))) *
        (fibreVolume f l o)⁻¹ := by
  obtain ⟨h, hi⟩ := integrate_of_mean f m sp hm
  obtain ⟨l, hp, _, _⟩ := integrate_eq_sum_weight f h sp hi
  obtain ⟨V, hV⟩ := totalVolume_ok f.subs sp l hp hs
  have hV0 : V ≠ 0 := by
    have e := total_volume_fibre f.subs sp l V hp hV hs []
    have := hW l [] hp
    rw [e]; simpa [fibreVolume, Fld.sizes] using this
  obtain ⟨l', hp', hval⟩ := mean_eq_weighted_average f m h sp V hm hi hV hs hV0
  have : l' = l := by rw [hp] at hp'; injection hp' with e; exact e.symm
  subst this
  exact ⟨l', hp, fun o => by rw [hval o]; rfl⟩

/-- `var(spaces)` is the volume-weighted population variance over the fibre (both code paths, any subset; `o` ranges
    over well-formed multi-indices of the remaining sub-domains). -/
theorem var_eq_weighted_variance [Field K] [DecidableEq K] (nsq : K → K) (f g : Fld K) (sp : Spaces)
    (hreal : f.dt ≠ DT.complex → ∀ z, nsq z = z * z)
    (hs : ∀ s ∈ f.subs, VolConsistent s)
    (hW : ∀ l o, parseSpaces sp f.subs.length = .ok l → fibreVolume f l o ≠ 0)
    (h : var nsq f sp = .ok g) :
    ∃ l m, parseSpaces sp f.subs.length = .ok l ∧ mean f sp = .ok m ∧
      ∀ o, o.length = ((maskOf f.subs.length l).filter (· == false)).length →
        g.val o =
          sumOver (allIdx (sel true (maskOf f.subs.length l) f.sizes)) (fun c =>
            nsq (f.val (merge (maskOf f.subs.length l) o c) - m.val o) *
              prodOver l (fun ind => dvolAt f.subs ind (merge (maskOf f.subs.length l) o c))) *
          (fibreVolume f l o)⁻¹ := by
  obtain ⟨m, l, d, g', hm, hp, hsq, hg⟩ := var_eq_mean_sq_dev nsq f g sp hreal h
  obtain ⟨l', hp', hval⟩ := mean_weighted _ g' sp hsq hs (fun l o hl => hW l o hl)
  have : l' = l := by
    have hp'' : parseSpaces sp f.subs.length = .ok l' := hp'
    rw [hp] at hp''; injection hp'' with e; exact e.symm
  subst this
  refine ⟨l', m, hp, hm, fun o ho => ?_⟩
  rw [hg o, hval o]
  congr 1
  apply sumOver_congr
  intro c _
  simp only [sel_merge _ o c ho]


-- non-vacuity: weights [1/2, 2] × scalar dvol 1/2, data 1..4, variance over the FIRST sub-domain at o = [0]:
-- mean 13/5, var = (1/2·(8/5)² + 2·(2/5)²)/(5/2) = 16/25
example :
    let f : Fld Rat := ⟨0, [⟨[2], .vector #[1/2, 2], none⟩, ⟨[2], .scalar (1/2), none⟩], DT.float,
      fun i => (2 * i.headD 0 + i.tail.headD 0 + 1 : Nat)⟩
    (match var (fun z => z * z) f (.scalar 0) with | .ok m => [m.val [0], m.val [1]] | .error _ => []) = [16/25, 16/25]
    ∧ fibreVolume f [0] [0] = 5/2 := by
  decide +kernel

/-- `VolConsistent` (total volume of a sub-domain = sum of its volume factors), the hypothesis of the weighted-average
    theorems, is a THEOREM for every sub-domain that uses StructuredDomain's `total_volume` (RGSpace, LMSpace,
    PowerSpace, DOFSpace …); for GLSpace / HPSpace (`tv = some …`: `4*np.pi` resp. a float product) it is exactly the
    statement `total_volume = Σ dvol`, listed in the trusted base and checked numerically by the harness. -/
theorem structured_volume_consistent [Field K] (s : SubDom K) (hdv : s.dvol ≠ .none) :
    (s.tv = none → VolConsistent s) ∧
    (∀ T, s.tv = some T → (VolConsistent s ↔ T = sumOver (List.range s.size) (subW s))) := by
  refine ⟨fun htv => volConsistent_of_structured s htv hdv, fun T hT => ?_⟩
  simp only [VolConsistent, subTV, hT]
  exact ⟨fun h => h.2, fun h => ⟨hdv, h⟩⟩

-- non-vacuity: a GLSpace-like sub-domain (weights [1/2, 2], total_volume given as 5/2): mean over it is Σwx/Σw
example :
    let f : Fld Rat := ⟨0, [⟨[2], .vector #[1/2, 2], some (5/2)⟩], DT.float, fun i => if i.headD 0 = 0 then 3 else 5⟩
    (match mean f .none with | .ok m => m.val [] | .error _ => 0) = 23/5 ∧
    subTV (f.subs.headD default) = sumOver (List.range 2) (subW (f.subs.headD default)) := by
  decide +kernel

/-! ### point-wise arithmetic and comparisons: element-wise (Field) and key-wise (MultiField) semantics -/

/-- what each of the twelve operators computes on one pair of entries: ring operations of the field, true division
    as multiplication by the inverse, `**` as repeated multiplication, comparisons / equality as 0-1 indicators -/
theorem evalBin_spec [Field K] [DecidableEq K] (E : ElemOps K) (a b : K) :
    evalBin E .add a b = a + b ∧ evalBin E .sub a b = a - b ∧ evalBin E .mul a b = a * b ∧
    evalBin E .truediv a b = a / b ∧ evalBin E .pow a b = a ^ E.expNat b ∧
    evalBin E .floordiv a b = E.floordiv a b ∧
    (evalBin E .lt a b = if E.lt a b then 1 else 0) ∧ (evalBin E .gt a b = if E.lt b a then 1 else 0) ∧
    (evalBin E .le a b = if E.le a b then 1 else 0) ∧ (evalBin E .ge a b = if E.le b a then 1 else 0) ∧
    (evalBin E .eq a b = if a = b then 1 else 0) ∧ (evalBin E .ne a b = if a = b then 0 else 1) := by
  refine ⟨rfl, rfl, rfl, ?_, ?_, rfl, rfl, rfl, rfl, rfl, ?_, ?_⟩
  · simp only [evalBin, div_eq_mul_inv]
  · simp only [evalBin, FieldM.npow_eq_pow]
  · simp only [evalBin, ofB, decide_eq_true_eq]
  · by_cases h : a = b <;> simp [evalBin, ofB, h]

/-- Field `<op>` Field (and the reflected `__r<op>__`): the operands must live on the very same DomainTuple, the
    result lives there too and entry `i` of the result is the operator applied to the entries `i` of the operands —
    nothing else of the arrays enters (array semantics, no broadcasting between different domains). -/
theorem pointwise_binop_elementwise [Field K] [DecidableEq K] (E : ElemOps K) (o : BinOp) (rev : Bool)
    (f g : Fld K) :
    (g.dom ≠ f.dom → fieldBin E o rev f g = .error "ValueError") ∧
    (∀ r, fieldBin E o rev f g = .ok r →
      g.dom = f.dom ∧ r.dom = f.dom ∧ r.subs = f.subs ∧
      ∀ i, r.val i = if rev then evalBin E o (g.val i) (f.val i) else evalBin E o (f.val i) (g.val i)) := by
  constructor
  · intro h; simp [fieldBin, h]
  · intro r h
    unfold fieldBin at h
    by_cases hd : g.dom = f.dom
    · simp only [hd, ne_eq, not_true_eq_false, if_false] at h
      split at h
      · cases h
      · cases rev with
        | true =>
          simp only [if_true, binop, hd, ne_eq, not_true_eq_false, if_false, Except.ok.injEq] at h
          subst h
          exact ⟨hd, rfl, rfl, fun _ => rfl⟩
        | false =>
          simp only [Bool.false_eq_true, if_false, binop, hd, ne_eq, not_true_eq_false, Except.ok.injEq] at h
          subst h
          exact ⟨hd, rfl, rfl, fun _ => rfl⟩
    · simp only [ne_eq, hd, not_false_eq_true, if_true] at h
      cases h

/-- Field `<op>` Python scalar / Python scalar `<op>` Field: every entry is combined with the scalar -/
theorem pointwise_scalar_elementwise [Field K] [DecidableEq K] (E : ElemOps K) (o : BinOp) (rev : Bool)
    (f r : Fld K) (c : K) (cdt : DT) (h : fieldBinScalar E o rev f c cdt = .ok r) :
    r.dom = f.dom ∧ r.subs = f.subs ∧
    ∀ i, r.val i = if rev then evalBin E o c (f.val i) else evalBin E o (f.val i) c := by
  unfold fieldBinScalar at h
  cases rev with
  | true =>
    simp only [if_true] at h
    split at h
    · cases h
    · simp only [binopScalar, Except.ok.injEq] at h
      subst h
      exact ⟨rfl, rfl, fun _ => rfl⟩
  | false =>
    simp only [Bool.false_eq_true, if_false] at h
    split at h
    · cases h
    · simp only [binopScalar, Except.ok.injEq] at h
      subst h
      exact ⟨rfl, rfl, fun _ => rfl⟩

/-- unary operators act entry by entry: `-x`, `+x`, `conjugate` (identity on real dtypes), `real`, `imag`
    (`imag` of a non-complex Field is rejected) -/
theorem pointwise_unary [Field K] (E : ElemOps K) (o : UnOp) (f : Fld K) :
    (o = .imag ∧ f.dt ≠ DT.complex → fieldUn E o f = .error "ValueError") ∧
    (∀ r, fieldUn E o f = .ok r → r.dom = f.dom ∧ r.subs = f.subs ∧ ∀ i, r.val i =
      match o with
      | .neg => -f.val i
      | .pos => f.val i
      | .conjugate => if f.dt = DT.complex then E.conj (f.val i) else f.val i
      | .real => if f.dt = DT.complex then E.re (f.val i) else f.val i
      | .imag => E.im (f.val i)) := by
  constructor
  · rintro ⟨rfl, hc⟩; simp [fieldUn, hc]
  · intro r h
    cases o with
    | neg => simp only [fieldUn, unop, Except.ok.injEq] at h; subst h; exact ⟨rfl, rfl, fun _ => rfl⟩
    | pos => simp only [fieldUn, Except.ok.injEq] at h; subst h; exact ⟨rfl, rfl, fun _ => rfl⟩
    | conjugate =>
      by_cases hc : f.dt = DT.complex
      · simp only [fieldUn, hc, if_true, unop, Except.ok.injEq] at h; subst h
        exact ⟨rfl, rfl, fun _ => by simp [hc]⟩
      · simp only [fieldUn, hc, if_false, Except.ok.injEq] at h; subst h
        exact ⟨rfl, rfl, fun _ => by simp [hc]⟩
    | real =>
      by_cases hc : f.dt = DT.complex
      · simp only [fieldUn, hc, if_true, unop, Except.ok.injEq] at h; subst h
        exact ⟨rfl, rfl, fun _ => by simp [hc]⟩
      · simp only [fieldUn, hc, if_false, Except.ok.injEq] at h; subst h
        exact ⟨rfl, rfl, fun _ => by simp [hc]⟩
    | imag =>
      by_cases hc : f.dt = DT.complex
      · simp only [fieldUn, hc, if_true, unop, Except.ok.injEq] at h; subst h
        exact ⟨rfl, rfl, fun _ => rfl⟩
      · simp only [fieldUn, hc, if_false] at h; cases h

/-- `clip(a_min, a_max)` is `min(max(x, a_min), a_max)` entry by entry (a missing bound does nothing) on any linearly
    ordered element type whose `<` the element operations implement -/
theorem clip_spec [LinearOrder K] (E : ElemOps K) (hlt : ∀ a b, E.lt a b = decide (a < b))
    (f : Fld K) (lo hi : K) (ldt hdt : DT) (i : Idx) :
    (fieldClip E f (some lo) (some hi) ldt hdt).val i = min (max (f.val i) lo) hi ∧
    (fieldClip E f (some lo) none ldt hdt).val i = max (f.val i) lo ∧
    (fieldClip E f none (some hi) ldt hdt).val i = min (f.val i) hi ∧
    (fieldClip E f none none ldt hdt).val i = f.val i := by
  simp only [fieldClip, clipVal, hlt, decide_eq_true_eq]
  refine ⟨?_, ?_, ?_, by first | trivial | rfl⟩
  · by_cases h1 : f.val i < lo
    · simp only [h1, if_true, max_eq_right (le_of_lt h1)]
      by_cases h2 : hi < lo
      · simp [h2, min_eq_right (le_of_lt h2)]
      · simp [h2, min_eq_left (not_lt.mp h2)]
    · simp only [h1, if_false, max_eq_left (not_lt.mp h1)]
      by_cases h2 : hi < f.val i
      · simp [h2, min_eq_right (le_of_lt h2)]
      · simp [h2, min_eq_left (not_lt.mp h2)]
  · by_cases h1 : f.val i < lo
    · simp [h1, max_eq_right (le_of_lt h1)]
    · simp [h1, max_eq_left (not_lt.mp h1)]
  · by_cases h2 : hi < f.val i
    · simp [h2, min_eq_right (le_of_lt h2)]
    · simp [h2, min_eq_left (not_lt.mp h2)]

/-- MultiField `<op>` MultiField is key-wise AND element-wise: same MultiDomain object required, and entry `i` of
    leaf `k` of the result is the operator applied to entries `i` of the leaves `k` -/
theorem multifield_pointwise [Field K] [DecidableEq K] (E : ElemOps K) (o : BinOp) (rev : Bool)
    (a b r : MFld K) (h : mbinop (fieldBin E o rev) a b = .ok r) :
    a.dom = b.dom ∧
    List.Forall₂ (fun (ab : (String × Fld K) × (String × Fld K)) (c : String × Fld K) =>
      c.1 = ab.1.1 ∧ ab.2.2.dom = ab.1.2.dom ∧ c.2.subs = ab.1.2.subs ∧
      ∀ i, c.2.val i = if rev then evalBin E o (ab.2.2.val i) (ab.1.2.val i)
                       else evalBin E o (ab.1.2.val i) (ab.2.2.val i))
      (a.leaves.zip b.leaves) r.leaves := by
  obtain ⟨hd, _, hf, _⟩ := multifield_op_keywise (fieldBin E o rev) a b r h
  refine ⟨hd, ?_⟩
  refine List.Forall₂.imp ?_ hf
  intro ab c ⟨hk, hop⟩
  obtain ⟨h1, _, h3, h4⟩ := (pointwise_binop_elementwise E o rev ab.1.2 ab.2.2).2 c.2 hop
  exact ⟨hk, h1, h3, h4⟩

-- non-vacuity: [3, 5] ** [2, 0] = [9, 1];  2 - [3, 5] (reflected) = [-1, -3];  [3,5] < [4,5] = [1, 0]; clip
example :
    let E : ElemOps Rat := ⟨fun a b => a < b, fun a b => a ≤ b, fun a b => ((a / b).floor : Int),
      fun b => b.num.toNat, fun b => b < 0, fun b => b.den != 1 || b < 0, id, id, fun _ => 0⟩
    let f : Fld Rat := ⟨0, [⟨[2], .none, none⟩], DT.float, fun i => if i.headD 0 = 0 then 3 else 5⟩
    let e : Fld Rat := ⟨0, [⟨[2], .none, none⟩], DT.float, fun i => if i.headD 0 = 0 then 2 else 0⟩
    let g : Fld Rat := ⟨0, [⟨[2], .none, none⟩], DT.float, fun i => if i.headD 0 = 0 then 4 else 5⟩
    (match fieldBin E .pow false f e with | .ok r => [r.val [0], r.val [1]] | .error _ => []) = [9, 1] ∧
    (match fieldBinScalar E .sub true f 2 DT.int with | .ok r => [r.val [0], r.val [1]] | .error _ => []) = [-1, -3] ∧
    (match fieldBin E .lt false f g with | .ok r => [r.val [0], r.val [1]] | .error _ => []) = [1, 0] ∧
    (fieldClip E f (some 4) (some (9/2)) 1 2).val [1] = 9/2 := by
  decide +kernel

/-! ### all / any / size -/

/-- `s_all` / `s_any` / `all(spaces)` / `any(spaces)` are the quantifiers over the entries (of the index fibre);
    MultiField `s_all` / `s_any` quantify over all entries of all leaves; MultiField `size` counts them. -/
theorem all_any_size_spec [Field K] [DecidableEq K] (f : Fld K) (a : MFld K) (mask : List Bool) (o : Idx) :
    (sAll f = true ↔ ∀ i ∈ allIdx f.sizes, f.val i ≠ 0) ∧
    (sAny f = true ↔ ∃ i ∈ allIdx f.sizes, f.val i ≠ 0) ∧
    (contractAll mask f.sizes f.val o = 1 ↔ ∀ c ∈ allIdx (sel true mask f.sizes), f.val (merge mask o c) ≠ 0) ∧
    (contractAny mask f.sizes f.val o = 1 ↔ ∃ c ∈ allIdx (sel true mask f.sizes), f.val (merge mask o c) ≠ 0) ∧
    (msAll a = true ↔ ∀ z ∈ mentries a, z ≠ 0) ∧
    (msAny a = true ↔ ∃ z ∈ mentries a, z ≠ 0) ∧
    msize a = (mentries a).length := by
  refine ⟨?_, ?_, ?_, ?_, ?_, ?_, ?_⟩
  · simp [sAll]
  · simp [sAny]
  · simp only [contractAll, ofB]
    split
    · rename_i h; simpa using h
    · rename_i h
      constructor
      · intro h0; exact absurd h0.symm one_ne_zero
      · intro hall; exact absurd (by simpa using hall) h
  · simp only [contractAny, ofB]
    split
    · rename_i h; simpa using h
    · rename_i h
      constructor
      · intro h0; exact absurd h0.symm one_ne_zero
      · intro hex; exact absurd (by simpa using hex) h
  · simp only [msAll, sAll, mentries, List.all_eq_true, List.mem_flatMap, List.mem_map, decide_eq_true_eq]
    constructor
    · rintro h z ⟨kv, hkv, i, hi, rfl⟩; exact h kv hkv i hi
    · intro h kv hkv i hi; exact h _ ⟨kv, hkv, i, hi, rfl⟩
  · simp only [msAny, sAny, mentries, List.any_eq_true, List.mem_flatMap, List.mem_map, decide_eq_true_eq]
    constructor
    · rintro ⟨kv, hkv, i, hi, hne⟩; exact ⟨_, ⟨kv, hkv, i, hi, rfl⟩, hne⟩
    · rintro ⟨z, ⟨kv, hkv, i, hi, rfl⟩, hne⟩; exact ⟨kv, hkv, i, hi, hne⟩
  · simp only [msize, mentries, List.length_flatMap, List.length_map, length_allIdx]

example :
    let f : Fld Rat := ⟨0, [⟨[2], .none, none⟩, ⟨[2], .none, none⟩], 2, fun i => (2 * i.headD 0 + i.tail.headD 0 : Nat)⟩
    (sAll f, sAny f, msize ⟨0, [("a", f), ("b", f)]⟩,
     (match fall f (.scalar 0) with | .ok r => [r.val [0], r.val [1]] | .error _ => [])) = (false, true, 8, [0, 1]) := by
  decide +kernel

/-! ### MultiField.vdot -/

/-- MultiField.s_vdot / vdot is the sum of the leaf dot products (after the identity check of the MultiDomains and of
    every pair of leaf domains), i.e. the dot product of the concatenated arrays -/
theorem multifield_vdot [CommRing K] (conj : K → K) (a b : MFld K) :
    (b.dom ≠ a.dom → msVdot conj a b = .error "ValueError") ∧
    (∀ v, msVdot conj a b = .ok v → b.dom = a.dom ∧ (∀ p ∈ a.leaves.zip b.leaves, p.2.2.dom = p.1.2.dom) ∧
      v = sumOver (a.leaves.zip b.leaves)
            (fun p => sumOver (allIdx p.1.2.sizes) (fun i => conj (p.1.2.val i) * p.2.2.val i))) := by
  constructor
  · intro h; simp [msVdot, h]
  · intro v h
    unfold msVdot at h
    by_cases hd : b.dom = a.dom
    · simp only [hd, ne_eq, not_true_eq_false, if_false] at h
      obtain ⟨h1, h2⟩ := sVdotLeaves_spec conj _ _ 0 v h
      exact ⟨hd, h1, by rw [h2, zero_add]⟩
    · simp only [ne_eq, hd, not_false_eq_true, if_true] at h
      cases h

/-- MultiField.vdot is conjugate-linear in the first argument, linear in the second and Hermitian (leaf structure of
    the operands must agree, as the identity check of the MultiDomains guarantees) -/
theorem multifield_vdot_conj_linear [CommRing K] (conj : K →+* K) (hinv : ∀ z, conj (conj z) = z) (α : K)
    (a b c : MFld K)
    (hab : List.Forall₂ (fun x y : String × Fld K => y.2.subs = x.2.subs) a.leaves b.leaves)
    (hac : List.Forall₂ (fun x y : String × Fld K => y.2.subs = x.2.subs) a.leaves c.leaves) :
    mvdVal conj (mlin α a b) c = conj α * mvdVal conj a c + mvdVal conj b c ∧
    mvdVal conj c (mlin α a b) = α * mvdVal conj c a + mvdVal conj c b ∧
    mvdVal conj a c = conj (mvdVal conj c a) := by
  obtain ⟨da, la⟩ := a
  obtain ⟨db, lb⟩ := b
  obtain ⟨dc, lc⟩ := c
  simp only [mvdVal, mlin] at *
  induction hab generalizing lc with
  | nil => simp [sumOver]
  | @cons x y ta tb hxy _ ih =>
    cases hac with
    | @cons _ z _ tc hxz htc =>
      obtain ⟨ih1, ih2, ih3⟩ := ih tc htc
      have sy : y.2.sizes = x.2.sizes := by simp only [Fld.sizes, hxy]
      have sz : z.2.sizes = x.2.sizes := by simp only [Fld.sizes, hxz]
      simp only [List.zipWith_cons_cons, List.zip_cons_cons, sumOver, Fld.sizes] at ih1 ih2 ih3 ⊢
      refine ⟨?_, ?_, ?_⟩
      · rw [ih1, leaf_vd_lin_left conj α]
        simp only [Fld.sizes, hxy] at sy ⊢
        ring
      · rw [ih2]
        simp only [hxz]
        rw [leaf_vd_lin_right conj α]
        ring
      · rw [map_add, ← ih3]
        congr 1
        rw [sumOver_hom conj (map_zero conj) (map_add conj)]
        simp only [hxz]
        apply sumOver_congr
        intro i _
        simp only [map_mul, hinv]
        ring

/-! ### unite / flexible_addsub -/

/-- Field.unite is `+`; Field.flexible_addsub is `-` or `+` (both through Field._binary_op, hence with the identity
    check). MultiField.flexible_addsub / unite: on the same MultiDomain it is the key-wise `-`/`+`; on different
    MultiDomains the result has, key by key, the combined leaf where both operands have the key (the Field operation,
    which checks the leaf domains), the left leaf where only the left has it, and the (negated) right leaf where only
    the right has it — and no other keys. -/
theorem flexible_addsub_spec (add sub : Fld K → Fld K → Except String (Fld K)) (negf : Fld K → Fld K)
    (a b r : MFld K) (neg : Bool) (hkb : (b.leaves.map (·.1)).Nodup)
    (h : mflex add sub negf a b neg = .ok r) :
    (a.dom = b.dom → mbinop (if neg then sub else add) a b = .ok r) ∧
    (a.dom ≠ b.dom → ∀ q,
      match lookupLeaf q a.leaves, lookupLeaf q b.leaves with
      | some x, some y => ∃ z, (if neg then sub else add) x y = .ok z ∧ lookupLeaf q r.leaves = some z
      | some x, none => lookupLeaf q r.leaves = some x
      | none, some y => lookupLeaf q r.leaves = some ((if neg then negf else id) y)
      | none, none => lookupLeaf q r.leaves = none) := by
  unfold mflex at h
  constructor
  · intro hd; simpa [hd] using h
  · intro hd q
    simp only [hd, if_false] at h
    cases hl : mflexLoop (if neg then sub else add) (if neg then negf else id) a.leaves b.leaves with
    | error e => simp only [hl] at h; cases h
    | ok l =>
      simp only [hl, Except.ok.injEq] at h
      subst h
      exact mflexLoop_spec _ _ b.leaves a.leaves l hkb hl q

example :
    let E : ElemOps Rat := ⟨fun a b => a < b, fun a b => a ≤ b, fun a b => ((a / b).floor : Int),
      fun b => b.num.toNat, fun b => b < 0, fun b => b.den != 1 || b < 0, id, id, fun _ => 0⟩
    let f : Fld Rat := ⟨0, [], 2, fun _ => 3⟩
    let g : Fld Rat := ⟨0, [], 2, fun _ => 5⟩
    (match mflex (fieldBin E .add false) (fieldBin E .sub false) (unop (fun x => -x) id)
        ⟨1, [("a", f), ("c", f)]⟩ ⟨2, [("b", g), ("c", g)]⟩ true with
      | .ok r => r.leaves.map (fun kv => (kv.1, kv.2.val [])) | .error _ => []) = [("a", 3), ("b", -5), ("c", -2)] := by
  decide +kernel

/-! ### norms of a Field -/

/-- Field.norm(ord) for ord = 1, 2, ∞ on a linearly ordered field with an absolute value `ab ≥ 0`:
    `norm(2)² = Σ|x_i|² = ⟨x, x⟩` (the dot product of the field with itself); `norm(∞)` is the largest `|x_i|`
    (an upper bound that is attained); `norm(1) = Σ|x_i| ≥ 0` and satisfies the triangle inequality whenever `ab` does. -/
theorem field_norm [Field K] [LinearOrder K] [IsStrictOrderedRing K] (conj : K → K) (ab nsq : K → K) (f g : Fld K)
    (hnsq : ∀ z, nsq z = conj z * z) (hab : ∀ z, 0 ≤ ab z) :
    sVdot conj f f = .ok (norm2Sq nsq f) ∧
    (∀ i ∈ allIdx f.sizes, ab (f.val i) ≤ normInf max ab f) ∧
    (allIdx f.sizes ≠ [] → ∃ i ∈ allIdx f.sizes, normInf max ab f = ab (f.val i)) ∧
    0 ≤ norm1 ab f ∧
    ((∀ x y, ab (x + y) ≤ ab x + ab y) → g.subs = f.subs →
      norm1 ab { f with val := fun i => f.val i + g.val i } ≤ norm1 ab f + norm1 ab g) := by
  refine ⟨?_, ?_, ?_, ?_, ?_⟩
  · simp only [sVdot, ne_eq, not_true_eq_false, if_false, norm2Sq, hnsq]
  · intro i hi
    exact le_maxOver (allIdx f.sizes) (fun i => ab (f.val i)) i hi
  · intro hne
    exact maxOver_attained (allIdx f.sizes) (fun i => ab (f.val i)) (fun _ _ => hab _) hne
  · exact sumOver_nonneg _ _ (fun _ _ => hab _)
  · intro htri hs
    have hsz : g.sizes = f.sizes := by simp only [Fld.sizes, hs]
    simp only [norm1, Fld.sizes] at *
    rw [hs, ← sumOver_add]
    exact sumOver_le_sumOver _ _ _ (fun i _ => htri _ _)

example :
    let f : Fld Rat := ⟨0, [⟨[2], .none, none⟩], 2, fun i => if i.headD 0 = 0 then 3 else -4⟩
    (norm1 (fun z => if z < 0 then -z else z) f, norm2Sq (fun z => z * z) f,
     normInf (fun x y => if x < y then y else x) (fun z => if z < 0 then -z else z) f) = (7, 25, 4) := by
  decide +kernel

/-! ### products over sub-domains, scalar variants -/

/-- `prod(spaces)` is the product over each index fibre, and the fibre products multiply up to the product over the
    whole array for every mask (Fubini for products) -/
theorem prod_partial_total [CommRing K] (f g : Fld K) (sp : Spaces) (h : fprod f sp = .ok g) :
    ∃ l, parseSpaces sp f.subs.length = .ok l ∧
      (∀ o, g.val o = prodOver (allIdx (sel true (maskOf f.subs.length l) f.sizes))
                        (fun c => f.val (merge (maskOf f.subs.length l) o c))) ∧
      (∀ mask : List Bool, mask.length = f.sizes.length →
        prodOver (allIdx (sel false mask f.sizes)) (contractProd mask f.sizes f.val) = sProd f) := by
  unfold fprod at h
  cases hp : parseSpaces sp f.subs.length with
  | error e => simp only [hp] at h; cases h
  | ok l =>
    simp only [hp, Except.ok.injEq] at h
    subst h
    exact ⟨l, rfl, fun _ => rfl, fun mask hm => contractProd_total mask f.sizes f.val hm⟩

/-- the scalar variants: `s_sum` is `sum()` over all sub-domains, `s_integrate` is `integrate()`, `s_mean` is
    `s_integrate / total_volume` and therefore `mean()` — entry `[]` (any output index) of the corresponding Field -/
theorem scalar_variants [Field K] [DecidableEq K] (f : Fld K) (o : Idx) :
    (∃ g, fsum f .none = .ok g ∧ g.val o = sSum f) ∧
    (∀ v, sIntegrate f = .ok v → ∃ g, integrate f .none = .ok g ∧ g.val o = v) ∧
    (∀ v m V, sMean f = .ok v → mean f .none = .ok m → totalVolume f.subs .none = .ok V →
      (∀ s ∈ f.subs, VolConsistent s) → V ≠ 0 → m.val o = v) := by
  have hmask : maskOf f.subs.length (List.range f.subs.length) = List.replicate f.sizes.length true := by
    rw [maskOf_range]; simp [Fld.sizes]
  have hsum : ∀ (g : Fld K), g.subs = f.subs →
      contract (maskOf f.subs.length (List.range f.subs.length)) g.sizes g.val o = sSum g := by
    intro g hg
    have : g.sizes = f.sizes := by simp [Fld.sizes, hg]
    rw [hmask, ← this, contract_all]; rfl
  have hint : ∀ v, sIntegrate f = .ok v → ∃ g, integrate f .none = .ok g ∧ g.val o = v := by
    intro v hv
    unfold sIntegrate at hv
    unfold integrate
    cases hsw : scalarWeight f.subs .none with
    | error e => simp only [hsw] at hv; cases hv
    | ok r =>
      cases r with
      | some swgt =>
        simp only [hsw, Except.ok.injEq] at hv ⊢
        refine ⟨_, rfl, ?_⟩
        simp only [fsum, parseSpaces, smulFloat, contractFld]
        rw [hsum f rfl, hv]
      | none =>
        simp only [hsw] at hv ⊢
        cases hw : weight f 1 .none with
        | error e => simp only [hw] at hv; cases hv
        | ok tmp =>
          simp only [hw, Except.ok.injEq] at hv ⊢
          obtain ⟨l, hp, hsubs, _, _⟩ := weight_val f tmp 1 .none hw
          refine ⟨_, rfl, ?_⟩
          simp only [fsum, parseSpaces, contractFld, hsubs]
          rw [hsum tmp hsubs, hv]
  refine ⟨⟨_, rfl, ?_⟩, hint, ?_⟩
  · simp only [contractFld]
    exact hsum f rfl
  · intro v m V hv hm hV hvc hV0
    unfold sMean at hv
    cases hi : sIntegrate f with
    | error e => simp only [hi] at hv; cases hv
    | ok s =>
      simp only [hi, hV, Except.ok.injEq] at hv
      obtain ⟨g, hg, hgv⟩ := hint s hi
      rw [mean_eq_integrate_div_volume f m g .none V hm hg hV hvc hV0 o, hgv, hv]


example :
    let f : Fld Rat := ⟨0, [⟨[2], .vector #[1/2, 2], none⟩, ⟨[2], .scalar (1/2), none⟩], DT.float,
      fun i => (2 * i.headD 0 + i.tail.headD 0 + 1 : Nat)⟩
    (sSum f, sProd f, (match sIntegrate f with | .ok v => v | .error _ => 0), (match sMean f with | .ok v => v | .error _ => 0),
     (match fprod f (.scalar 1) with | .ok g => [g.val [0], g.val [1]] | .error _ => []))
      = (10, 24, 31/4, 31/10, [2, 12]) := by
  decide +kernel

/-- `s_var` is `var()` over all sub-domains (both code paths; on the volume-weighted path under the hypotheses that
    make `s_mean = mean()`) -/
theorem scalar_var [Field K] [DecidableEq K] (nsq : K → K) (f g : Fld K) (v V : K) (o : Idx)
    (hreal : f.dt ≠ DT.complex → ∀ z, nsq z = z * z)
    (hv : sVar nsq f = .ok v) (hg : var nsq f .none = .ok g)
    (hV : totalVolume f.subs .none = .ok V) (hvc : ∀ s ∈ f.subs, VolConsistent s) (hV0 : V ≠ 0) :
    g.val o = v := by
  have hmask : maskOf f.subs.length (List.range f.subs.length) = List.replicate f.sizes.length true := by
    rw [maskOf_range]; simp [Fld.sizes]
  unfold sVar at hv
  cases hsw : scalarWeight f.subs .none with
  | error e => simp only [hsw] at hv; cases hv
  | ok r =>
    cases r with
    | some swgt =>
      simp only [hsw, Except.ok.injEq] at hv
      unfold var at hg
      simp only [hsw, parseSpaces, Except.ok.injEq] at hg
      subst hg; subst hv
      simp only [contractFld, npVar, npMean, hmask, contract_all]
    | none =>
      simp only [hsw] at hv
      cases hm1 : sMean f with
      | error e => simp only [hm1] at hv; cases hv
      | ok m1 =>
        simp only [hm1] at hv
        obtain ⟨m, l, d, g', hm, hp, hsq, hgg⟩ := var_eq_mean_sq_dev nsq f g .none hreal hg
        simp only [parseSpaces, Except.ok.injEq] at hp
        subst hp
        have hmv : ∀ i, m.val (sel false (maskOf f.subs.length (List.range f.subs.length)) i) = m1 := by
          intro i
          exact (scalar_variants f _).2.2 m1 m V hm1 hm hV hvc hV0
        rw [hgg o]
        -- the squared-deviation field of `var` equals the one of `s_var` up to the dtype tag
        have hval : (fun i => nsq (f.val i - m.val (sel false (maskOf f.subs.length (List.range f.subs.length)) i)))
            = (fun i => nsq (f.val i - m1)) := by funext i; rw [hmv i]
        rw [hval] at hsq
        have hsm : sMean ({ f with dt := d, val := fun i => nsq (f.val i - m1) } : Fld K) = .ok v := by
          by_cases hc : f.dt = DT.complex
          · simp only [hc, if_true] at hv
            exact sMean_dt _ d v hv
          · simp only [hc, if_false] at hv
            have := sMean_dt _ d v hv
            simpa [hreal hc] using this
        exact (scalar_variants _ o).2.2 v g' V hsm hsq hV hvc hV0


example :
    let f : Fld Rat := ⟨0, [⟨[2], .vector #[1/2, 2], none⟩], DT.float, fun i => if i.headD 0 = 0 then 3 else 5⟩
    (match sVar (fun z => z * z) f with | .ok v => v | .error _ => 0) = 16/25 := by decide +kernel

/-! ### the theorems apply to what the driver executes
  `CRat` (exact complex rationals) with the core instances of Model/Field.lean is a field (Lemmas/FieldCRat.lean) and
  `CRat.conj` a ring involution; below the Mathlib instance is switched off, so `weight`, `integrate`, … are
  elaborated with exactly the instances `Driver/C06.lean` runs, and the general theorems still apply. -/
section Driver
attribute [-instance] CRat.instField

theorem weight_spec_driver (f g : Fld CRat) (p : Int) (sp : Spaces) (h : weight f p sp = .ok g) :
    ∃ l, parseSpaces sp f.subs.length = .ok l ∧ g.subs = f.subs ∧ g.dom = f.dom ∧
      ∀ idx, g.val idx = f.val idx * prodOver l (fun ind => ipow (dvolAt f.subs ind idx) p) :=
  @weight_spec CRat CRat.instField _ f g p sp h

theorem integrate_driver (f g : Fld CRat) (sp : Spaces) (h : integrate f sp = .ok g) :
    ∃ l, parseSpaces sp f.subs.length = .ok l ∧ g.subs = sel false (maskOf f.subs.length l) f.subs ∧
      ∀ o, g.val o = sumOver (allIdx (sel true (maskOf f.subs.length l) f.sizes)) (fun c =>
        f.val (merge (maskOf f.subs.length l) o c) *
          prodOver l (fun ind => dvolAt f.subs ind (merge (maskOf f.subs.length l) o c))) :=
  @integrate_eq_sum_weight CRat CRat.instField _ f g sp h

theorem mean_driver (f m h : Fld CRat) (sp : Spaces) (V : CRat)
    (hm : mean f sp = .ok m) (hi : integrate f sp = .ok h) (hV : totalVolume f.subs sp = .ok V)
    (hvc : ∀ s ∈ f.subs, @VolConsistent CRat CRat.instField s) (hV0 : V ≠ 0) :
    ∀ o, m.val o = h.val o * V⁻¹ :=
  @mean_eq_integrate_div_volume CRat CRat.instField _ f m h sp V hm hi hV hvc hV0

theorem var_driver (f g : Fld CRat) (sp : Spaces) (hc : f.dt = DT.complex) (h : var CRat.nsq f sp = .ok g) :
    ∃ m l d g', mean f sp = .ok m ∧ parseSpaces sp f.subs.length = .ok l ∧
      mean { f with dt := d, val := fun i => CRat.nsq (f.val i - m.val (sel false (maskOf f.subs.length l) i)) } sp
        = .ok g' ∧ ∀ o, g.val o = g'.val o :=
  @var_eq_mean_sq_dev CRat CRat.instField _ CRat.nsq f g sp (fun hne => absurd hc hne) h

theorem vdot_driver (f g r : Fld CRat) (hc : f.dt = DT.complex) (h : vdot CRat.conj f g .none = .ok r) :
    g.dom = f.dom ∧ ∀ o, r.val o = sumOver (allIdx f.sizes) (fun i => CRat.conj (f.val i) * g.val i) := by
  obtain ⟨hd, l, hp, hfull, _, _⟩ :=
    @vdot_partial_eq_sum CRat CRat.instField.toCommRing CRat.conj f g r .none (fun hne => absurd hc hne) h
  simp only [parseSpaces, Except.ok.injEq] at hp
  subst hp
  exact ⟨hd, hfull (by simp)⟩

theorem mean_weighted_driver (f m : Fld CRat) (sp : Spaces) (hm : mean f sp = .ok m)
    (hs : ∀ s ∈ f.subs, @VolConsistent CRat CRat.instField s)
    (hW : ∀ l o, parseSpaces sp f.subs.length = .ok l → @fibreVolume CRat CRat.instField f l o ≠ 0) :
    ∃ l, parseSpaces sp f.subs.length = .ok l ∧ ∀ o,
      m.val o =
        sumOver (allIdx (sel true (maskOf f.subs.length l) f.sizes)) (fun c =>
          f.val (merge (maskOf f.subs.length l) o c) *
            prodOver l (fun ind => dvolAt f.subs ind (merge (maskOf f.subs.length l) o c))) *
        (@fibreVolume CRat CRat.instField f l o)⁻¹ :=
  @mean_weighted CRat CRat.instField _ f m sp hm hs hW

theorem var_weighted_driver (f g : Fld CRat) (sp : Spaces) (hc : f.dt = DT.complex)
    (hs : ∀ s ∈ f.subs, @VolConsistent CRat CRat.instField s)
    (hW : ∀ l o, parseSpaces sp f.subs.length = .ok l → @fibreVolume CRat CRat.instField f l o ≠ 0)
    (h : var CRat.nsq f sp = .ok g) :
    ∃ l m, parseSpaces sp f.subs.length = .ok l ∧ mean f sp = .ok m ∧
      ∀ o, o.length = ((maskOf f.subs.length l).filter (· == false)).length →
        g.val o =
          sumOver (allIdx (sel true (maskOf f.subs.length l) f.sizes)) (fun c =>
            CRat.nsq (f.val (merge (maskOf f.subs.length l) o c) - m.val o) *
              prodOver l (fun ind => dvolAt f.subs ind (merge (maskOf f.subs.length l) o c))) *
          (@fibreVolume CRat CRat.instField f l o)⁻¹ :=
  @var_eq_weighted_variance CRat CRat.instField _ CRat.nsq f g sp (fun hne => absurd hc hne) hs hW h

/-- the element operations the driver uses: `<` on exact complex rationals is NumPy's lexicographic order; with them
    the point-wise theorems hold for the driver's `fieldBin` -/
theorem pointwise_driver (o : BinOp) (rev : Bool) (f g r : Fld CRat) (a b : CRat)
    (h : fieldBin CRat.elemOps o rev f g = .ok r) :
    (g.dom = f.dom ∧ r.subs = f.subs ∧
      ∀ i, r.val i = if rev then evalBin CRat.elemOps o (g.val i) (f.val i)
                     else evalBin CRat.elemOps o (f.val i) (g.val i)) ∧
    (CRat.elemOps.lt a b = true ↔ a.re < b.re ∨ (a.re = b.re ∧ a.im < b.im)) ∧
    funite CRat.elemOps f g = fieldBin CRat.elemOps .add false f g ∧
    fflex CRat.elemOps f g true = fieldBin CRat.elemOps .sub false f g := by
  obtain ⟨h1, _, h3, h4⟩ := (@pointwise_binop_elementwise CRat CRat.instField _ CRat.elemOps o rev f g).2 r h
  refine ⟨⟨h1, h3, h4⟩, ?_, rfl, rfl⟩
  simp [CRat.elemOps, CRat.lt]

theorem multifield_vdot_driver (a b : MFld CRat) (v : CRat) (h : msVdot CRat.conj a b = .ok v) :
    b.dom = a.dom ∧ v = mvdVal CRat.conj a b := by
  obtain ⟨h1, _, h3⟩ := (@multifield_vdot CRat CRat.instField.toCommRing CRat.conj a b).2 v h
  exact ⟨h1, h3⟩

theorem all_any_size_driver (f : Fld CRat) (a : MFld CRat) :
    (sAll f = true ↔ ∀ i ∈ allIdx f.sizes, f.val i ≠ 0) ∧ (msAny a = true ↔ ∃ z ∈ mentries a, z ≠ 0) ∧
    msize a = (mentries a).length := by
  obtain ⟨h1, _, _, _, _, h6, h7⟩ := @all_any_size_spec CRat CRat.instField _ f a [] []
  exact ⟨h1, h6, h7⟩

theorem scalar_variants_driver (f : Fld CRat) (v : CRat) (h : sIntegrate f = .ok v) :
    ∃ g, integrate f .none = .ok g ∧ g.val [] = v :=
  (@scalar_variants CRat CRat.instField _ f []).2.1 v h

end Driver

end NiftyVerif.C06
