/-
  C06 — Field arithmetic and contractions follow array semantics with volumes.
  Property theorems only (helper lemmas: Lemmas/Field.lean; executable model: Model/Field.lean, which transcribes
  nifty/cl/field.py, multi_field.py, domain_tuple.py and utilities.parse_spaces — see the header there).
  Obligations are listed in harness/props/c06.py.  All statements hold for every number of sub-domains, every
  shape, every `spaces` value and all data in any field `K` (the driver runs `K = CRat`, exact complex rationals).
-/
import NiftyVerif.Lemmas.Field

namespace NiftyVerif.C06
open NiftyVerif.FieldM

variable {K : Type}

/-- Field.weight(power, spaces) multiplies every entry by the `power`-th power of the volume factors of exactly the
    listed sub-domains (scalar `dvol`s and broadcast array `dvol`s alike); domain and identity are unchanged. -/
theorem weight_spec [Field K] [DecidableEq K] (f g : Fld K) (p : Int) (sp : Spaces) (h : weight f p sp = .ok g) :
    ∃ l, parseSpaces sp f.subs.length = .ok l ∧ g.subs = f.subs ∧ g.dom = f.dom ∧
      ∀ idx, g.val idx = f.val idx * prodOver l (fun ind => ipow (dvolAt f.subs ind idx) p) :=
  weight_val f g p sp h

-- non-vacuity: one sub-domain with dvol = [1/2, 2], data [3, 5], power 2 -> [3/4, 20]
example :
    let f : Fld Rat := ⟨0, [⟨[2], .vector #[1/2, 2], none⟩], DT.float, fun i => if i.headD 0 = 0 then 3 else 5⟩
    (match weight f 2 .none with | .ok g => [g.val [0], g.val [1]] | .error _ => []) = [3/4, 20] := by decide +kernel

/-- Field.integrate(spaces), on BOTH code paths (all volume elements scalar: `sum * scalar_weight`; otherwise
    `weight(1).sum`), is the sum over the contracted index fibre of value × volume factors. -/
theorem integrate_eq_sum_weight [Field K] [DecidableEq K] (f g : Fld K) (sp : Spaces)
    (h : integrate f sp = .ok g) :
    ∃ l, parseSpaces sp f.subs.length = .ok l ∧ g.subs = sel false (maskOf f.subs.length l) f.subs ∧
      ∀ o, g.val o = sumOver (allIdx (sel true (maskOf f.subs.length l) f.sizes)) (fun c =>
        f.val (merge (maskOf f.subs.length l) o c) *
          prodOver l (fun ind => dvolAt f.subs ind (merge (maskOf f.subs.length l) o c))) := by
  unfold integrate at h
  cases hsw : scalarWeight f.subs sp with
  | error e => simp only [hsw] at h; cases h
  | ok r =>
    cases r with
    | some swgt =>
      simp only [hsw] at h
      unfold fsum at h
      cases hp : parseSpaces sp f.subs.length with
      | error e => simp only [hp] at h; cases h
      | ok l =>
        simp only [hp, Except.ok.injEq] at h
        subst h
        refine ⟨l, rfl, rfl, fun o => ?_⟩
        simp only [smulFloat, contractFld, contract]
        rw [← sumOver_mul_right]
        apply sumOver_congr
        intro c _
        rw [((scalarWeight_spec f.subs sp l hp _ hsw (merge (maskOf f.subs.length l) o c)).1 swgt rfl).1]
    | none =>
      simp only [hsw] at h
      cases hw : weight f 1 sp with
      | error e => simp only [hw] at h; cases h
      | ok tmp =>
        simp only [hw] at h
        obtain ⟨l, hp, hsubs, _, hval⟩ := weight_val f tmp 1 sp hw
        unfold fsum at h
        rw [hsubs, hp] at h
        simp only [Except.ok.injEq] at h
        subst h
        refine ⟨l, hp, by simp only [contractFld, hsubs], fun o => ?_⟩
        simp only [contractFld, contract, Fld.sizes, hsubs]
        apply sumOver_congr
        intro c _
        rw [hval]
        simp only [ipow_one]

/-- Operands on different domains are rejected, and nothing else is: a binary operation fails (with the error of
    `check_object_identity`) exactly when the two DomainTuple objects differ. -/
theorem domain_mismatch_rejected (op : K → K → K) (dt : DT → DT → DT) (f g : Fld K) :
    (g.dom ≠ f.dom → binop op dt f g = .error "ValueError") ∧
    (g.dom = f.dom → ∃ r, binop op dt f g = .ok r ∧ r.dom = f.dom ∧ r.subs = f.subs ∧
        ∀ i, r.val i = op (f.val i) (g.val i)) := by
  constructor
  · intro h; simp [binop, h]
  · intro h
    exact ⟨{ f with dt := dt f.dt g.dt, val := fun i => op (f.val i) (g.val i) }, by simp [binop, h], rfl, rfl,
      fun _ => rfl⟩

/-- the same for dot products (any `spaces`) and for MultiFields (identity of the MultiDomain objects) -/
theorem domain_mismatch_rejected_vdot [Add K] [Mul K] [OfNat K 0] (conj : K → K) (f g : Fld K) (sp : Spaces)
    (a b : MFld K) (op : Fld K → Fld K → Except String (Fld K)) :
    (g.dom ≠ f.dom → vdot conj f g sp = .error "ValueError" ∧ sVdot conj f g = .error "ValueError") ∧
    (a.dom ≠ b.dom → mbinop op a b = .error "ValueError" ∧ msVdot conj b a = .error "ValueError") := by
  constructor
  · intro h; simp [vdot, sVdot, h]
  · intro h; simp [mbinop, msVdot, h]

example : binop (· + ·) max (⟨0, [], 2, fun _ => (1 : Rat)⟩ : Fld Rat) ⟨1, [], 2, fun _ => 1⟩ = .error "ValueError" := by
  simp [binop]

/-- Field.mean(spaces) on BOTH code paths equals Field.integrate(spaces) divided by the total volume of the
    contracted sub-domains: the uniform path (`np.mean`, i.e. sum / count) because `count · scalar_weight` is the
    total volume of sub-domains whose `total_volume` follows StructuredDomain's formula (hypothesis `hstd`, used on
    this path only), the non-uniform path (`weight(1).sum · (1/total_volume)`) by construction. -/
theorem mean_eq_integrate_div_volume [Field K] [DecidableEq K] (f m h : Fld K) (sp : Spaces) (V : K)
    (hm : mean f sp = .ok m) (hi : integrate f sp = .ok h) (hV : totalVolume f.subs sp = .ok V)
    (hstd : ∀ i, (f.subs.getD i default).tv = none) (hV0 : V ≠ 0) :
    ∀ o, m.val o = h.val o * V⁻¹ := by
  unfold mean at hm
  unfold integrate at hi
  cases hsw : scalarWeight f.subs sp with
  | error e => simp only [hsw] at hm; cases hm
  | ok r =>
    cases r with
    | some swgt =>
      simp only [hsw] at hm hi
      unfold fsum at hi
      cases hp : parseSpaces sp f.subs.length with
      | error e => simp only [hp] at hm; cases hm
      | ok l =>
        simp only [hp, Except.ok.injEq] at hm hi
        subst hm; subst hi
        intro o
        obtain ⟨hw, hs⟩ := (scalarWeight_spec f.subs sp l hp _ hsw o).1 swgt rfl
        have hVe := totalVolume_scalar f.subs sp l V o hstd hp hs hV
        rw [← hw] at hVe
        simp only [contractFld, npMean, smulFloat, Fld.sizes]
        have hne : ((countOf (f.subs.map SubDom.size) l : Nat) : K) * swgt ≠ 0 := by rw [← hVe]; exact hV0
        have hc : ((countOf (f.subs.map SubDom.size) l : Nat) : K) ≠ 0 := left_ne_zero_of_mul hne
        have hs0 : swgt ≠ 0 := right_ne_zero_of_mul hne
        rw [hVe]
        field_simp
    | none =>
      simp only [hsw] at hm hi
      cases hw : weight f 1 sp with
      | error e => simp only [hw] at hm; cases hm
      | ok tmp =>
        simp only [hw] at hm hi
        obtain ⟨l, hp, hsubs, _, _⟩ := weight_val f tmp 1 sp hw
        cases hs : fsum tmp sp with
        | error e => simp only [hs] at hm; cases hm
        | ok s =>
          simp only [hs, hsubs, hV, Except.ok.injEq] at hm hi
          subst hm; subst hi
          intro o
          simp [smulFloat]

-- non-vacuity: both paths on a 2-point domain. scalar dvol 1/2: mean [3,5] = 4 = (3/2+5/2)/1;
-- array dvol [1/2, 2]: mean = (3/2 + 10)/(5/2) = 23/5
example :
    let f : Fld Rat := ⟨0, [⟨[2], .scalar (1/2), none⟩], DT.float, fun i => if i.headD 0 = 0 then 3 else 5⟩
    let g : Fld Rat := ⟨0, [⟨[2], .vector #[1/2, 2], none⟩], DT.float, fun i => if i.headD 0 = 0 then 3 else 5⟩
    ((match mean f .none with | .ok m => m.val [] | .error _ => 0),
     (match mean g (.scalar 0) with | .ok m => m.val [] | .error _ => 0)) = (4, 23/5) := by decide +kernel

/-- Field.var(spaces) on BOTH code paths is the (volume-weighted) mean of the squared deviation from the
    (volume-weighted) mean, broadcast back along the contracted sub-domains: population variance, with `|·|²`
    (`nsq`) for complex data and the plain square for real data (`hreal`: on real dtypes `|z|² = z·z`). -/
theorem var_eq_mean_sq_dev [Field K] [DecidableEq K] (nsq : K → K) (f g : Fld K) (sp : Spaces)
    (hreal : f.dt ≠ DT.complex → ∀ z, nsq z = z * z)
    (h : var nsq f sp = .ok g) :
    ∃ m l d g', mean f sp = .ok m ∧ parseSpaces sp f.subs.length = .ok l ∧
      mean { f with dt := d, val := fun i => nsq (f.val i - m.val (sel false (maskOf f.subs.length l) i)) } sp
        = .ok g' ∧
      ∀ o, g.val o = g'.val o := by
  unfold var at h
  cases hsw : scalarWeight f.subs sp with
  | error e => simp only [hsw] at h; cases h
  | ok r =>
    cases r with
    | some swgt =>
      simp only [hsw] at h
      cases hp : parseSpaces sp f.subs.length with
      | error e => simp only [hp] at h; cases h
      | ok l =>
        simp only [hp, Except.ok.injEq] at h
        subst h
        let m := contractFld f l (max f.dt DT.float) (npMean l)
        let sq : Fld K := { f with dt := f.dt, val := fun i => nsq (f.val i - m.val (sel false (maskOf f.subs.length l) i)) }
        refine ⟨m, l, f.dt, contractFld sq l (max f.dt DT.float) (npMean l), ?_, rfl, ?_, ?_⟩
        · simp only [mean, hsw, hp, m]
        · simp only [mean, hsw, hp, sq]
        · intro o
          simp only [contractFld, npVar, npMean, Fld.sizes, sq, m]
    | none =>
      simp only [hsw] at h
      cases hm : mean f sp with
      | error e => simp only [hm] at h; cases h
      | ok m1 =>
        simp only [hm] at h
        cases hp : parseSpaces sp f.subs.length with
        | error e => simp only [hp] at h; cases h
        | ok l =>
          simp only [hp] at h
          by_cases hc : f.dt = DT.complex
          · simp only [hc, if_true, broadcastBack] at h
            exact ⟨m1, l, DT.float, g, rfl, rfl, h, fun _ => rfl⟩
          · simp only [hc, if_false, broadcastBack] at h
            refine ⟨m1, l, max f.dt m1.dt, g, rfl, rfl, ?_, fun _ => rfl⟩
            simp only [hreal hc]
            exact h

-- non-vacuity: array dvol [1/2, 2], data [3, 5]: mean 23/5, var = (1/2·(8/5)² + 2·(2/5)²)/(5/2) = 16/25
example :
    let g : Fld Rat := ⟨0, [⟨[2], .vector #[1/2, 2], none⟩], DT.float, fun i => if i.headD 0 = 0 then 3 else 5⟩
    (match var (fun z => z * z) g .none with | .ok m => m.val [] | .error _ => 0) = 16/25 := by decide +kernel

end NiftyVerif.C06
