import NiftyVerif.Model.Field
namespace NiftyVerif.C06
end NiftyVerif.C06
