/-
  C06 — Field arithmetic and contractions follow array semantics with volumes.
  Property theorems only (helper lemmas: Lemmas/Field.lean; executable model: Model/Field.lean, which transcribes
  nifty/cl/field.py, multi_field.py, domain_tuple.py and utilities.parse_spaces — see the header there).
  Obligations are listed in harness/props/c06.py.  All statements hold for every number of sub-domains, every
  shape, every `spaces` value and all data in any field `K` (the driver runs `K = CRat`, exact complex rationals).
-/
import NiftyVerif.Lemmas.Field
import NiftyVerif.Lemmas.FieldCRat
import NiftyVerif.Lemmas.FieldPerm
import Mathlib.Data.Complex.Basic

namespace NiftyVerif.C06
open NiftyVerif.FieldM

variable {K : Type}

/-- Field.weight(power, spaces) multiplies every entry by the `power`-th power of the volume factors of exactly the
    listed sub-domains (scalar `dvol`s and broadcast array `dvol`s alike); domain and identity are unchanged. -/
theorem weight_spec [Field K] [DecidableEq K] (f g : Fld K) (p : Int) (sp : Spaces) (h : weight f p sp = .ok g) :
    ∃ l, parseSpaces sp f.subs.length = .ok l ∧ g.subs = f.subs ∧ g.dom = f.dom ∧
      ∀ idx, g.val idx = f.val idx * prodOver l (fun ind => ipow (dvolAt f.subs ind idx) p) :=
  weight_val f g p sp h

-- non-vacuity: one sub-domain with dvol = [1/2, 2], data [3, 5], power 2 -> [3/4, 20]
example :
    let f : Fld Rat := ⟨0, [⟨[2], .vector #[1/2, 2], none⟩], DT.float, fun i => if i.headD 0 = 0 then 3 else 5⟩
    (match weight f 2 .none with | .ok g => [g.val [0], g.val [1]] | .error _ => []) = [3/4, 20] := by decide +kernel

/-- Field.integrate(spaces), on BOTH code paths (all volume elements scalar: `sum * scalar_weight`; otherwise
    `weight(1).sum`), is the sum over the contracted index fibre of value × volume factors. -/
theorem integrate_eq_sum_weight [Field K] [DecidableEq K] (f g : Fld K) (sp : Spaces)
    (h : integrate f sp = .ok g) :
    ∃ l, parseSpaces sp f.subs.length = .ok l ∧ g.subs = sel false (maskOf f.subs.length l) f.subs ∧
      ∀ o, g.val o = sumOver (allIdx (sel true (maskOf f.subs.length l) f.sizes)) (fun c =>
        f.val (merge (maskOf f.subs.length l) o c) *
          prodOver l (fun ind => dvolAt f.subs ind (merge (maskOf f.subs.length l) o c))) := by
  unfold integrate at h
  cases hsw : scalarWeight f.subs sp with
  | error e => simp only [hsw] at h; cases h
  | ok r =>
    cases r with
    | some swgt =>
      simp only [hsw] at h
      unfold fsum at h
      cases hp : parseSpaces sp f.subs.length with
      | error e => simp only [hp] at h; cases h
      | ok l =>
        simp only [hp, Except.ok.injEq] at h
        subst h
        refine ⟨l, rfl, rfl, fun o => ?_⟩
        simp only [smulFloat, contractFld, contract]
        rw [← sumOver_mul_right]
        apply sumOver_congr
        intro c _
        rw [((scalarWeight_spec f.subs sp l hp _ hsw (merge (maskOf f.subs.length l) o c)).1 swgt rfl).1]
    | none =>
      simp only [hsw] at h
      cases hw : weight f 1 sp with
      | error e => simp only [hw] at h; cases h
      | ok tmp =>
        simp only [hw] at h
        obtain ⟨l, hp, hsubs, _, hval⟩ := weight_val f tmp 1 sp hw
        unfold fsum at h
        rw [hsubs, hp] at h
        simp only [Except.ok.injEq] at h
        subst h
        refine ⟨l, hp, by simp only [contractFld, hsubs], fun o => ?_⟩
        simp only [contractFld, contract, Fld.sizes, hsubs]
        apply sumOver_congr
        intro c _
        rw [hval]
        simp only [ipow_one]

/-- Operands on different domains are rejected, and nothing else is: a binary operation fails (with the error of
    `check_object_identity`) exactly when the two DomainTuple objects differ. -/
theorem domain_mismatch_rejected (op : K → K → K) (dt : DT → DT → DT) (f g : Fld K) :
    (g.dom ≠ f.dom → binop op dt f g = .error "ValueError") ∧
    (g.dom = f.dom → ∃ r, binop op dt f g = .ok r ∧ r.dom = f.dom ∧ r.subs = f.subs ∧
        ∀ i, r.val i = op (f.val i) (g.val i)) := by
  constructor
  · intro h; simp [binop, h]
  · intro h
    exact ⟨{ f with dt := dt f.dt g.dt, val := fun i => op (f.val i) (g.val i) }, by simp [binop, h], rfl, rfl,
      fun _ => rfl⟩

/-- the same for dot products (any `spaces`) and for MultiFields (identity of the MultiDomain objects) -/
theorem domain_mismatch_rejected_vdot [Add K] [Mul K] [OfNat K 0] (conj : K → K) (f g : Fld K) (sp : Spaces)
    (a b : MFld K) (op : Fld K → Fld K → Except String (Fld K)) :
    (g.dom ≠ f.dom → vdot conj f g sp = .error "ValueError" ∧ sVdot conj f g = .error "ValueError") ∧
    (a.dom ≠ b.dom → mbinop op a b = .error "ValueError" ∧ msVdot conj b a = .error "ValueError") := by
  constructor
  · intro h; simp [vdot, sVdot, h]
  · intro h; simp [mbinop, msVdot, h]

example : binop (· + ·) max (⟨0, [], 2, fun _ => (1 : Rat)⟩ : Fld Rat) ⟨1, [], 2, fun _ => 1⟩ = .error "ValueError" := by
  simp [binop]

/-- Field.mean(spaces) on BOTH code paths equals Field.integrate(spaces) divided by the total volume of the
    contracted sub-domains: the uniform path (`np.mean`, i.e. sum / count) because `count · scalar_weight` is the
    total volume of sub-domains whose `total_volume` follows StructuredDomain's formula (hypothesis `hstd`, used on
    this path only), the non-uniform path (`weight(1).sum · (1/total_volume)`) by construction. -/
theorem mean_eq_integrate_div_volume [Field K] [DecidableEq K] (f m h : Fld K) (sp : Spaces) (V : K)
    (hm : mean f sp = .ok m) (hi : integrate f sp = .ok h) (hV : totalVolume f.subs sp = .ok V)
    (hstd : ∀ i, (f.subs.getD i default).tv = none) (hV0 : V ≠ 0) :
    ∀ o, m.val o = h.val o * V⁻¹ := by
  unfold mean at hm
  unfold integrate at hi
  cases hsw : scalarWeight f.subs sp with
  | error e => simp only [hsw] at hm; cases hm
  | ok r =>
    cases r with
    | some swgt =>
      simp only [hsw] at hm hi
      unfold fsum at hi
      cases hp : parseSpaces sp f.subs.length with
      | error e => simp only [hp] at hm; cases hm
      | ok l =>
        simp only [hp, Except.ok.injEq] at hm hi
        subst hm; subst hi
        intro o
        obtain ⟨hw, hs⟩ := (scalarWeight_spec f.subs sp l hp _ hsw o).1 swgt rfl
        have hVe := totalVolume_scalar f.subs sp l V o hstd hp hs hV
        rw [← hw] at hVe
        simp only [contractFld, npMean, smulFloat, Fld.sizes]
        have hne : ((countOf (f.subs.map SubDom.size) l : Nat) : K) * swgt ≠ 0 := by rw [← hVe]; exact hV0
        have hc : ((countOf (f.subs.map SubDom.size) l : Nat) : K) ≠ 0 := left_ne_zero_of_mul hne
        have hs0 : swgt ≠ 0 := right_ne_zero_of_mul hne
        rw [hVe]
        field_simp
    | none =>
      simp only [hsw] at hm hi
      cases hw : weight f 1 sp with
      | error e => simp only [hw] at hm; cases hm
      | ok tmp =>
        simp only [hw] at hm hi
        obtain ⟨l, hp, hsubs, _, _⟩ := weight_val f tmp 1 sp hw
        cases hs : fsum tmp sp with
        | error e => simp only [hs] at hm; cases hm
        | ok s =>
          simp only [hs, hsubs, hV, Except.ok.injEq] at hm hi
          subst hm; subst hi
          intro o
          simp [smulFloat]

-- non-vacuity: both paths on a 2-point domain. scalar dvol 1/2: mean [3,5] = 4 = (3/2+5/2)/1;
-- array dvol [1/2, 2]: mean = (3/2 + 10)/(5/2) = 23/5
example :
    let f : Fld Rat := ⟨0, [⟨[2], .scalar (1/2), none⟩], DT.float, fun i => if i.headD 0 = 0 then 3 else 5⟩
    let g : Fld Rat := ⟨0, [⟨[2], .vector #[1/2, 2], none⟩], DT.float, fun i => if i.headD 0 = 0 then 3 else 5⟩
    ((match mean f .none with | .ok m => m.val [] | .error _ => 0),
     (match mean g (.scalar 0) with | .ok m => m.val [] | .error _ => 0)) = (4, 23/5) := by decide +kernel

/-- Field.var(spaces) on BOTH code paths is the (volume-weighted) mean of the squared deviation from the
    (volume-weighted) mean, broadcast back along the contracted sub-domains: population variance, with `|·|²`
    (`nsq`) for complex data and the plain square for real data (`hreal`: on real dtypes `|z|² = z·z`). -/
theorem var_eq_mean_sq_dev [Field K] [DecidableEq K] (nsq : K → K) (f g : Fld K) (sp : Spaces)
    (hreal : f.dt ≠ DT.complex → ∀ z, nsq z = z * z)
    (h : var nsq f sp = .ok g) :
    ∃ m l d g', mean f sp = .ok m ∧ parseSpaces sp f.subs.length = .ok l ∧
      mean { f with dt := d, val := fun i => nsq (f.val i - m.val (sel false (maskOf f.subs.length l) i)) } sp
        = .ok g' ∧
      ∀ o, g.val o = g'.val o := by
  unfold var at h
  cases hsw : scalarWeight f.subs sp with
  | error e => simp only [hsw] at h; cases h
  | ok r =>
    cases r with
    | some swgt =>
      simp only [hsw] at h
      cases hp : parseSpaces sp f.subs.length with
      | error e => simp only [hp] at h; cases h
      | ok l =>
        simp only [hp, Except.ok.injEq] at h
        subst h
        let m := contractFld f l (max f.dt DT.float) (npMean l)
        let sq : Fld K := { f with dt := f.dt, val := fun i => nsq (f.val i - m.val (sel false (maskOf f.subs.length l) i)) }
        refine ⟨m, l, f.dt, contractFld sq l (max f.dt DT.float) (npMean l), ?_, rfl, ?_, ?_⟩
        · simp only [mean, hsw, hp, m]
        · simp only [mean, hsw, hp, sq]
        · intro o
          simp only [contractFld, npVar, npMean, Fld.sizes, sq, m]
    | none =>
      simp only [hsw] at h
      cases hm : mean f sp with
      | error e => simp only [hm] at h; cases h
      | ok m1 =>
        simp only [hm] at h
        cases hp : parseSpaces sp f.subs.length with
        | error e => simp only [hp] at h; cases h
        | ok l =>
          simp only [hp] at h
          by_cases hc : f.dt = DT.complex
          · simp only [hc, if_true, broadcastBack] at h
            exact ⟨m1, l, DT.float, g, rfl, rfl, h, fun _ => rfl⟩
          · simp only [hc, if_false, broadcastBack] at h
            refine ⟨m1, l, max f.dt m1.dt, g, rfl, rfl, ?_, fun _ => rfl⟩
            simp only [hreal hc]
            exact h

-- non-vacuity: array dvol [1/2, 2], data [3, 5]: mean 23/5, var = (1/2·(8/5)² + 2·(2/5)²)/(5/2) = 16/25
example :
    let g : Fld Rat := ⟨0, [⟨[2], .vector #[1/2, 2], none⟩], DT.float, fun i => if i.headD 0 = 0 then 3 else 5⟩
    (match var (fun z => z * z) g .none with | .ok m => m.val [] | .error _ => 0) = 16/25 := by decide +kernel

/-- Field.vdot(x, spaces): with all sub-domains listed it is `Σ_i conj(self_i)·x_i` over the whole array
    (AnyArray.vdot); with a proper subset it is that sum over each index fibre of the listed sub-domains, living on
    the remaining ones (`(self.conjugate()*x).sum(spaces)`; `conjugate()` skips real dtypes, on which `conj` is the
    identity: `hconj`); and the fibre sums add up to the full dot product for every mask (Fubini). -/
theorem vdot_partial_eq_sum [CommRing K] (conj : K → K) (f g r : Fld K) (sp : Spaces)
    (hconj : f.dt ≠ DT.complex → ∀ i, conj (f.val i) = f.val i)
    (h : vdot conj f g sp = .ok r) :
    g.dom = f.dom ∧ ∃ l, parseSpaces sp f.subs.length = .ok l ∧
      (l.length = f.subs.length → ∀ o, r.val o = sumOver (allIdx f.sizes) (fun i => conj (f.val i) * g.val i)) ∧
      (l.length ≠ f.subs.length → r.subs = sel false (maskOf f.subs.length l) f.subs ∧
        ∀ o, r.val o = sumOver (allIdx (sel true (maskOf f.subs.length l) f.sizes)) (fun c =>
          conj (f.val (merge (maskOf f.subs.length l) o c)) * g.val (merge (maskOf f.subs.length l) o c))) ∧
      (∀ mask : List Bool, mask.length = f.sizes.length →
        sumOver (allIdx (sel false mask f.sizes)) (contract mask f.sizes (fun i => conj (f.val i) * g.val i))
          = sumOver (allIdx f.sizes) (fun i => conj (f.val i) * g.val i)) := by
  unfold vdot at h
  by_cases hd : g.dom = f.dom
  · simp only [hd, ne_eq, not_true_eq_false, if_false] at h
    refine ⟨hd, ?_⟩
    cases hp : parseSpaces sp f.subs.length with
    | error e => simp only [hp] at h; cases h
    | ok l =>
      simp only [hp] at h
      refine ⟨l, rfl, ?_, ?_, fun mask hm => contract_total mask f.sizes _ hm⟩
      · intro hl o
        simp only [hl, if_true, Except.ok.injEq] at h
        subst h
        rfl
      · intro hl
        simp only [hl, if_false, Except.ok.injEq] at h
        subst h
        refine ⟨rfl, fun o => ?_⟩
        simp only [contractFld, contract, Fld.sizes]
        apply sumOver_congr
        intro c _
        by_cases hc : f.dt = DT.complex
        · simp only [hc, if_true]
        · simp only [hc, if_false, hconj hc]
  · simp only [ne_eq, hd, not_false_eq_true, if_true] at h
    cases h

/-- s_vdot / vdot over all sub-domains is conjugate-linear in the first argument, linear in the second, and
    Hermitian: `⟨a·x + y, z⟩ = conj(a)·⟨x,z⟩ + ⟨y,z⟩`, `⟨z, a·x + y⟩ = a·⟨z,x⟩ + ⟨z,y⟩`, `⟨x,z⟩ = conj ⟨z,x⟩`
    for every ring involution `conj`. -/
theorem vdot_conj_linear [CommRing K] (conj : K →+* K) (hinv : ∀ a, conj (conj a) = a)
    (x y z : Fld K) (a : K) (hy : y.dom = x.dom) (hz : z.dom = x.dom) (hys : y.subs = x.subs)
    (hzs : z.subs = x.subs) :
    ∃ vxz vyz vzx vzy, sVdot conj x z = .ok vxz ∧ sVdot conj y z = .ok vyz ∧
      sVdot conj z x = .ok vzx ∧ sVdot conj z y = .ok vzy ∧
      sVdot conj { x with val := fun i => a * x.val i + y.val i } z = .ok (conj a * vxz + vyz) ∧
      sVdot conj z { x with val := fun i => a * x.val i + y.val i } = .ok (a * vzx + vzy) ∧
      vxz = conj vzx := by
  have hsz : z.sizes = x.sizes := by simp only [Fld.sizes, hzs]
  have hsy : y.sizes = x.sizes := by simp only [Fld.sizes, hys]
  refine ⟨sumOver (allIdx x.sizes) (fun i => conj (x.val i) * z.val i),
    sumOver (allIdx x.sizes) (fun i => conj (y.val i) * z.val i),
    sumOver (allIdx x.sizes) (fun i => conj (z.val i) * x.val i),
    sumOver (allIdx x.sizes) (fun i => conj (z.val i) * y.val i), ?_, ?_, ?_, ?_, ?_, ?_, ?_⟩
  · simp [sVdot, hz]
  · simp [sVdot, hz, hy, hsy]
  · simp [sVdot, hz, hsz]
  · simp [sVdot, hz, hy, hsz]
  · simp only [sVdot, hz, ne_eq, not_true_eq_false, if_false, Except.ok.injEq, map_add, map_mul, Fld.sizes]
    rw [← sumOver_mul_left, ← sumOver_add]
    apply sumOver_congr
    intro i _
    ring
  · simp only [sVdot, hz, ne_eq, not_true_eq_false, if_false, Except.ok.injEq, hsz]
    rw [← sumOver_mul_left, ← sumOver_add]
    apply sumOver_congr
    intro i _
    ring
  · rw [sumOver_hom conj (map_zero conj) (map_add conj)]
    apply sumOver_congr
    intro i _
    simp only [map_mul, hinv]
    ring

-- non-vacuity: complex conjugation on ℂ is such an involution, so the laws hold for all complex fields
example (x y z : Fld ℂ) (a : ℂ) (hy : y.dom = x.dom) (hz : z.dom = x.dom) (hys : y.subs = x.subs)
    (hzs : z.subs = x.subs) :=
  vdot_conj_linear (starRingEnd ℂ) Complex.conj_conj x y z a hy hz hys hzs

-- non-vacuity (partial dot product): 2×2 field x = [[1,2],[3,4]] with itself over the first sub-domain -> [10, 20]
example :
    let f : Fld Rat := ⟨0, [⟨[2], .none, none⟩, ⟨[2], .none, none⟩], 2, fun i => (2 * i.headD 0 + i.tail.headD 0 + 1 : Nat)⟩
    (match vdot id f f (.scalar 0) with | .ok r => [r.val [0], r.val [1]] | .error _ => []) = [10, 20] ∧
    (match vdot id f f .none with | .ok r => r.val [] | .error _ => 0) = 30 := by decide +kernel

/-- total_volume(spaces) is the product of the sub-domain volumes of the listed sub-domains, and for the whole
    domain (StructuredDomain formula, every sub-domain has volume factors) this product equals the sum over ALL
    multi-indices of the product of the volume factors — the integral of the constant field 1. -/
theorem total_volume_mul [Field K] (subs : List (SubDom K)) (sp : Spaces) (l : List Nat) (V : K)
    (hp : parseSpaces sp subs.length = .ok l) (h : totalVolume subs sp = .ok V) :
    V = prodOver l (fun i => subTV (subs.getD i default)) ∧
    ((∀ s ∈ subs, s.tv = none ∧ s.dvol ≠ .none) →
      prodOver (List.range subs.length) (fun i => subTV (subs.getD i default))
        = sumOver (allIdx (subs.map SubDom.size))
            (fun idx => prodOver (List.range subs.length) (fun k => dvolAt subs k idx))) := by
  constructor
  · obtain ⟨hlt, hints⟩ := parseSpaces_ok hp
    rw [totalVolume_eq_loop, hints] at h
    rw [totalVolumeLoop_prod subs l 1 V hlt h, one_mul]
  · intro hs
    simp only [prod_dvolAt_eq_prodZip]
    rw [sum_prodZip (subs.map subW) (subs.map SubDom.size) (by simp)]
    clear hp h
    induction subs with
    | nil => simp [prodOver]
    | cons s t ih =>
      have hs' : ∀ s' ∈ t, s'.tv = none ∧ s'.dvol ≠ .none := fun s' hs'' => hs s' (by simp [hs''])
      obtain ⟨htv, hdv⟩ := hs s (by simp)
      simp only [List.length_cons, prodOver_range_succ, List.map_cons, List.zip_cons_cons, prodOver,
        List.getD_cons_zero, List.getD_cons_succ]
      rw [ih hs']
      congr 1
      unfold subTV subW
      cases hd : s.dvol with
      | none => exact absurd hd hdv
      | scalar w =>
        simp only [htv]
        clear ih hs hs' hdv htv hd
        induction s.size with
        | zero => simp [sumOver]
        | succ n ihn =>
          rw [List.range_succ, sumOver_append]
          simp only [sumOver, add_zero, ← ihn, Nat.cast_succ]
          ring
      | vector w => simp only [htv]

-- non-vacuity: RGSpace-like (2 points, dvol 1/2) × DOFSpace-like (weights 1/2, 2): 1 · 5/2 = Σ over 4 points
example :
    let subs : List (SubDom Rat) := [⟨[2], .scalar (1/2), none⟩, ⟨[2], .vector #[1/2, 2], none⟩]
    (match totalVolume subs .none with | .ok v => v | .error _ => 0) = 5/2 ∧
    sumOver (allIdx (subs.map SubDom.size)) (fun idx => prodOver (List.range 2) (fun k => dvolAt subs k idx)) = 5/2 := by
  decide +kernel

/-- MultiField binary operations are key-wise: after the identity check of the two MultiDomains, leaf `k` of the
    result is the Field operation applied to the leaves `k` of the operands (keys kept, in order); with a scalar
    operand / for unary operations every leaf is transformed on its own. -/
theorem multifield_op_keywise (op : Fld K → Fld K → Except String (Fld K)) (a b r : MFld K)
    (h : mbinop op a b = .ok r) :
    a.dom = b.dom ∧ r.dom = a.dom ∧
    List.Forall₂ (fun (ab : (String × Fld K) × (String × Fld K)) (c : String × Fld K) =>
      c.1 = ab.1.1 ∧ op ab.1.2 ab.2.2 = .ok c.2) (a.leaves.zip b.leaves) r.leaves ∧
    (∀ u : Fld K → Fld K, (mmap u a).leaves = a.leaves.map (fun kv => (kv.1, u kv.2))) := by
  unfold mbinop at h
  by_cases hd : a.dom = b.dom
  · simp only [hd, ne_eq, not_true_eq_false, if_false] at h
    cases hz : zipLeaves op a.leaves b.leaves with
    | error e => simp only [hz] at h; cases h
    | ok l =>
      simp only [hz, Except.ok.injEq] at h
      subst h
      exact ⟨hd, hd.symm, zipLeaves_spec op _ _ _ hz, fun _ => rfl⟩
  · simp only [ne_eq, hd, not_false_eq_true, if_true] at h
    cases h

example :
    let f : Fld Rat := ⟨0, [], 2, fun _ => 3⟩
    let a : MFld Rat := ⟨7, [("a", f), ("b", f)]⟩
    (match mbinop (binop (· + ·) max) a a with | .ok r => r.leaves.map (fun kv => (kv.1, kv.2.val [])) | .error _ => [])
      = [("a", 6), ("b", 6)] := by decide +kernel

/-- MultiField.norm combines the leaf norms correctly: for p = 1 the sum of the leaf 1-norms is the 1-norm of the
    concatenated entries; for p = ∞ the maximum of the leaf maxima is the maximum over all entries; for p = 2,
    whatever non-negative numbers `nrm k` the leaf 2-norms are (`nrm k ² = Σ |leaf k|²`), a number `r` with
    `r² = Σ_k (nrm k)²` — NIFTy's `(nrm**2).sum()**(1/2)` — satisfies `r² = Σ |all entries|²`. -/
theorem multifield_norm [Field K] [LinearOrder K] (ab nsq : K → K) (a : MFld K) :
    mnorm1 ab a = sumOver (mentries a) ab ∧
    mnormInf max ab a = maxOver max (mentries a) ab ∧
    (∀ (nrm : String × Fld K → K) (r : K), (∀ kv ∈ a.leaves, nrm kv ^ 2 = norm2Sq nsq kv.2) →
      r ^ 2 = sumOver a.leaves (fun kv => nrm kv ^ 2) → r ^ 2 = sumOver (mentries a) nsq) := by
  refine ⟨?_, ?_, ?_⟩
  · simp only [mnorm1, norm1, mentries, sumOver_flatMap, sumOver_map]
  · simp only [mnormInf, normInf, mentries, maxOver_flatMap, maxOver_map]
  · intro nrm r hn hr
    rw [hr, sumOver_congr hn]
    simp only [norm2Sq, mentries, sumOver_flatMap, sumOver_map]

example :
    let f : Fld Rat := ⟨0, [⟨[2], .none, none⟩], 2, fun i => if i.headD 0 = 0 then 3 else -4⟩
    let a : MFld Rat := ⟨7, [("a", f), ("b", f)]⟩
    (mnorm1 (fun z => if z < 0 then -z else z) a, mnorm2Sq (fun z => z * z) a,
     mnormInf (fun x y => if x < y then y else x) (fun z => if z < 0 then -z else z) a) = (14, 50, 4) := by
  decide +kernel

/-- For ANY `spaces` (any subset of sub-domains, given in any order): the total volume of the listed sub-domains is the
    sum over an index fibre of exactly those sub-domains of the product of their volume factors (the integral of the
    constant 1 over `spaces`), when every sub-domain has volume factors and StructuredDomain's `total_volume`. -/
theorem total_volume_fibre [Field K] (subs : List (SubDom K)) (sp : Spaces) (l : List Nat) (V : K)
    (hp : parseSpaces sp subs.length = .ok l) (h : totalVolume subs sp = .ok V)
    (hs : ∀ s ∈ subs, s.tv = none ∧ s.dvol ≠ .none) (o : Idx) :
    V = sumOver (allIdx (sel true (maskOf subs.length l) (subs.map SubDom.size)))
          (fun c => prodOver l (fun i => dvolAt subs i (merge (maskOf subs.length l) o c))) :=
  totalVolume_eq_fibre_sum subs sp l V hp h hs o

/-- The property itself for means: on both code paths and for any subset of sub-domains, `mean(spaces)` is the
    volume-weighted average over the index fibre, `Σ_c w(c)·x(o,c) / Σ_c w(c)` with `w` the product of the volume
    factors of the listed sub-domains. -/
theorem mean_eq_weighted_average [Field K] [DecidableEq K] (f m h : Fld K) (sp : Spaces) (V : K)
    (hm : mean f sp = .ok m) (hi : integrate f sp = .ok h) (hV : totalVolume f.subs sp = .ok V)
    (hs : ∀ s ∈ f.subs, s.tv = none ∧ s.dvol ≠ .none) (hV0 : V ≠ 0) :
    ∃ l, parseSpaces sp f.subs.length = .ok l ∧ ∀ o,
      m.val o =
        sumOver (allIdx (sel true (maskOf f.subs.length l) f.sizes)) (fun c =>
          f.val (merge (maskOf f.subs.length l) o c) *
            prodOver l (fun ind => dvolAt f.subs ind (merge (maskOf f.subs.length l) o c))) *
        (sumOver (allIdx (sel true (maskOf f.subs.length l) f.sizes)) (fun c =>
            prodOver l (fun ind => dvolAt f.subs ind (merge (maskOf f.subs.length l) o c))))⁻¹ := by
  obtain ⟨l, hp, _, hval⟩ := integrate_eq_sum_weight f h sp hi
  refine ⟨l, hp, fun o => ?_⟩
  have hstd : ∀ i, (f.subs.getD i default).tv = none := by
    intro i
    by_cases hi' : i < f.subs.length
    · have : f.subs.getD i default ∈ f.subs := by
        simp [List.getD_eq_getElem?_getD, List.getElem?_eq_getElem hi']
      exact (hs _ this).1
    · simp [List.getD_eq_getElem?_getD, List.getElem?_eq_none (Nat.le_of_not_lt hi')]
      rfl
  rw [mean_eq_integrate_div_volume f m h sp V hm hi hV hstd hV0 o, hval o]
  have hVs := total_volume_fibre f.subs sp l V hp hV hs o
  simp only [Fld.sizes]
  rw [← hVs]

-- non-vacuity: DOF-like weights [1/2, 2] × scalar dvol 1/2 (2 points), data 1..4, mean over the FIRST sub-domain:
-- fibre o=0: (1/2·1 + 2·3)/(5/2) = 13/5, fibre o=1: (1/2·2 + 2·4)/(5/2) = 18/5
example :
    let f : Fld Rat := ⟨0, [⟨[2], .vector #[1/2, 2], none⟩, ⟨[2], .scalar (1/2), none⟩], DT.float,
      fun i => (2 * i.headD 0 + i.tail.headD 0 + 1 : Nat)⟩
    (match mean f (.list [0]) with | .ok m => [m.val [0], m.val [1]] | .error _ => []) = [13/5, 18/5] := by
  decide +kernel

/-- `Σ_c w(c)`: the volume of the index fibre over which `spaces = l` contracts -/
def fibreVolume [Field K] (f : Fld K) (l : List Nat) (o : Idx) : K :=
  sumOver (allIdx (sel true (maskOf f.subs.length l) f.sizes)) (fun c =>
    prodOver l (fun ind => dvolAt f.subs ind (merge (maskOf f.subs.length l) o c)))

/-- `mean` without auxiliary hypotheses: wherever `mean(spaces)` is defined on sub-domains with volume factors and the
    fibre volume is non-zero, it is the volume-weighted average over the fibre (both code paths, any subset). -/
theorem mean_weighted [Field K] [DecidableEq K] (f m : Fld K) (sp : Spaces) (hm : mean f sp = .ok m)
    (hs : ∀ s ∈ f.subs, s.tv = none ∧ s.dvol ≠ .none)
    (hW : ∀ l o, parseSpaces sp f.subs.length = .ok l → fibreVolume f l o ≠ 0) :
    ∃ l, parseSpaces sp f.subs.length = .ok l ∧ ∀ o,
      m.val o =
        sumOver (allIdx (sel true (maskOf f.subs.length l) f.sizes)) (fun c =>
          f.val (merge (maskOf f.subs.length l) o c) *
            prodOver l (fun ind => dvolAt f.subs ind (merge (maskOf f.subs.length l) o c))) *
        (fibreVolume f l o)⁻¹ := by
  obtain ⟨h, hi⟩ := integrate_of_mean f m sp hm
  obtain ⟨l, hp, _, _⟩ := integrate_eq_sum_weight f h sp hi
  obtain ⟨V, hV⟩ := totalVolume_ok f.subs sp l hp hs
  have hV0 : V ≠ 0 := by
    have e := total_volume_fibre f.subs sp l V hp hV hs []
    have := hW l [] hp
    rw [e]; simpa [fibreVolume, Fld.sizes] using this
  obtain ⟨l', hp', hval⟩ := mean_eq_weighted_average f m h sp V hm hi hV hs hV0
  have : l' = l := by rw [hp] at hp'; injection hp' with e; exact e.symm
  subst this
  exact ⟨l', hp, fun o => by rw [hval o]; rfl⟩

/-- `var(spaces)` is the volume-weighted population variance over the fibre (both code paths, any subset; `o` ranges
    over well-formed multi-indices of the remaining sub-domains). -/
theorem var_eq_weighted_variance [Field K] [DecidableEq K] (nsq : K → K) (f g : Fld K) (sp : Spaces)
    (hreal : f.dt ≠ DT.complex → ∀ z, nsq z = z * z)
    (hs : ∀ s ∈ f.subs, s.tv = none ∧ s.dvol ≠ .none)
    (hW : ∀ l o, parseSpaces sp f.subs.length = .ok l → fibreVolume f l o ≠ 0)
    (h : var nsq f sp = .ok g) :
    ∃ l m, parseSpaces sp f.subs.length = .ok l ∧ mean f sp = .ok m ∧
      ∀ o, o.length = ((maskOf f.subs.length l).filter (· == false)).length →
        g.val o =
          sumOver (allIdx (sel true (maskOf f.subs.length l) f.sizes)) (fun c =>
            nsq (f.val (merge (maskOf f.subs.length l) o c) - m.val o) *
              prodOver l (fun ind => dvolAt f.subs ind (merge (maskOf f.subs.length l) o c))) *
          (fibreVolume f l o)⁻¹ := by
  obtain ⟨m, l, d, g', hm, hp, hsq, hg⟩ := var_eq_mean_sq_dev nsq f g sp hreal h
  obtain ⟨l', hp', hval⟩ := mean_weighted _ g' sp hsq hs (fun l o hl => hW l o hl)
  have : l' = l := by
    have hp'' : parseSpaces sp f.subs.length = .ok l' := hp'
    rw [hp] at hp''; injection hp'' with e; exact e.symm
  subst this
  refine ⟨l', m, hp, hm, fun o ho => ?_⟩
  rw [hg o, hval o]
  congr 1
  apply sumOver_congr
  intro c _
  simp only [sel_merge _ o c ho]


-- non-vacuity: weights [1/2, 2] × scalar dvol 1/2, data 1..4, variance over the FIRST sub-domain at o = [0]:
-- mean 13/5, var = (1/2·(8/5)² + 2·(2/5)²)/(5/2) = 16/25
example :
    let f : Fld Rat := ⟨0, [⟨[2], .vector #[1/2, 2], none⟩, ⟨[2], .scalar (1/2), none⟩], DT.float,
      fun i => (2 * i.headD 0 + i.tail.headD 0 + 1 : Nat)⟩
    (match var (fun z => z * z) f (.scalar 0) with | .ok m => [m.val [0], m.val [1]] | .error _ => []) = [16/25, 16/25]
    ∧ fibreVolume f [0] [0] = 5/2 := by
  decide +kernel

/-! ### the theorems apply to what the driver executes
  `CRat` (exact complex rationals) with the core instances of Model/Field.lean is a field (Lemmas/FieldCRat.lean) and
  `CRat.conj` a ring involution; below the Mathlib instance is switched off, so `weight`, `integrate`, … are
  elaborated with exactly the instances `Driver/C06.lean` runs, and the general theorems still apply. -/
section Driver
attribute [-instance] CRat.instField

theorem weight_spec_driver (f g : Fld CRat) (p : Int) (sp : Spaces) (h : weight f p sp = .ok g) :
    ∃ l, parseSpaces sp f.subs.length = .ok l ∧ g.subs = f.subs ∧ g.dom = f.dom ∧
      ∀ idx, g.val idx = f.val idx * prodOver l (fun ind => ipow (dvolAt f.subs ind idx) p) :=
  @weight_spec CRat CRat.instField _ f g p sp h

theorem integrate_driver (f g : Fld CRat) (sp : Spaces) (h : integrate f sp = .ok g) :
    ∃ l, parseSpaces sp f.subs.length = .ok l ∧ g.subs = sel false (maskOf f.subs.length l) f.subs ∧
      ∀ o, g.val o = sumOver (allIdx (sel true (maskOf f.subs.length l) f.sizes)) (fun c =>
        f.val (merge (maskOf f.subs.length l) o c) *
          prodOver l (fun ind => dvolAt f.subs ind (merge (maskOf f.subs.length l) o c))) :=
  @integrate_eq_sum_weight CRat CRat.instField _ f g sp h

theorem mean_driver (f m h : Fld CRat) (sp : Spaces) (V : CRat)
    (hm : mean f sp = .ok m) (hi : integrate f sp = .ok h) (hV : totalVolume f.subs sp = .ok V)
    (hstd : ∀ i, (f.subs.getD i default).tv = none) (hV0 : V ≠ 0) :
    ∀ o, m.val o = h.val o * V⁻¹ :=
  @mean_eq_integrate_div_volume CRat CRat.instField _ f m h sp V hm hi hV hstd hV0

theorem var_driver (f g : Fld CRat) (sp : Spaces) (hc : f.dt = DT.complex) (h : var CRat.nsq f sp = .ok g) :
    ∃ m l d g', mean f sp = .ok m ∧ parseSpaces sp f.subs.length = .ok l ∧
      mean { f with dt := d, val := fun i => CRat.nsq (f.val i - m.val (sel false (maskOf f.subs.length l) i)) } sp
        = .ok g' ∧ ∀ o, g.val o = g'.val o :=
  @var_eq_mean_sq_dev CRat CRat.instField _ CRat.nsq f g sp (fun hne => absurd hc hne) h

theorem vdot_driver (f g r : Fld CRat) (hc : f.dt = DT.complex) (h : vdot CRat.conj f g .none = .ok r) :
    g.dom = f.dom ∧ ∀ o, r.val o = sumOver (allIdx f.sizes) (fun i => CRat.conj (f.val i) * g.val i) := by
  obtain ⟨hd, l, hp, hfull, _, _⟩ :=
    @vdot_partial_eq_sum CRat CRat.instField.toCommRing CRat.conj f g r .none (fun hne => absurd hc hne) h
  simp only [parseSpaces, Except.ok.injEq] at hp
  subst hp
  exact ⟨hd, hfull (by simp)⟩

theorem mean_weighted_driver (f m : Fld CRat) (sp : Spaces) (hm : mean f sp = .ok m)
    (hs : ∀ s ∈ f.subs, s.tv = none ∧ s.dvol ≠ .none)
    (hW : ∀ l o, parseSpaces sp f.subs.length = .ok l → @fibreVolume CRat CRat.instField f l o ≠ 0) :
    ∃ l, parseSpaces sp f.subs.length = .ok l ∧ ∀ o,
      m.val o =
        sumOver (allIdx (sel true (maskOf f.subs.length l) f.sizes)) (fun c =>
          f.val (merge (maskOf f.subs.length l) o c) *
            prodOver l (fun ind => dvolAt f.subs ind (merge (maskOf f.subs.length l) o c))) *
        (@fibreVolume CRat CRat.instField f l o)⁻¹ :=
  @mean_weighted CRat CRat.instField _ f m sp hm hs hW

theorem var_weighted_driver (f g : Fld CRat) (sp : Spaces) (hc : f.dt = DT.complex)
    (hs : ∀ s ∈ f.subs, s.tv = none ∧ s.dvol ≠ .none)
    (hW : ∀ l o, parseSpaces sp f.subs.length = .ok l → @fibreVolume CRat CRat.instField f l o ≠ 0)
    (h : var CRat.nsq f sp = .ok g) :
    ∃ l m, parseSpaces sp f.subs.length = .ok l ∧ mean f sp = .ok m ∧
      ∀ o, o.length = ((maskOf f.subs.length l).filter (· == false)).length →
        g.val o =
          sumOver (allIdx (sel true (maskOf f.subs.length l) f.sizes)) (fun c =>
            CRat.nsq (f.val (merge (maskOf f.subs.length l) o c) - m.val o) *
              prodOver l (fun ind => dvolAt f.subs ind (merge (maskOf f.subs.length l) o c))) *
          (@fibreVolume CRat CRat.instField f l o)⁻¹ :=
  @var_eq_weighted_variance CRat CRat.instField _ CRat.nsq f g sp (fun hne => absurd hc hne) hs hW h

end Driver

end NiftyVerif.C06
