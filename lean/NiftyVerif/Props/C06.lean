/-
  C06 — Field arithmetic and contractions follow array semantics with volumes.
  Property theorems only (helper lemmas: Lemmas/Field.lean; executable model: Model/Field.lean, which transcribes
  nifty/cl/field.py, multi_field.py, domain_tuple.py and utilities.parse_spaces — see the header there).
  Obligations are listed in harness/props/c06.py.  All statements hold for every number of sub-domains, every
  shape, every `spaces` value and all data in any field `K` (the driver runs `K = CRat`, exact complex rationals).
-/
import NiftyVerif.Lemmas.Field

namespace NiftyVerif.C06
open NiftyVerif.FieldM

variable {K : Type}

/-- Field.weight(power, spaces) multiplies every entry by the `power`-th power of the volume factors of exactly the
    listed sub-domains (scalar `dvol`s and broadcast array `dvol`s alike); domain and identity are unchanged. -/
theorem weight_spec [Field K] [DecidableEq K] (f g : Fld K) (p : Int) (sp : Spaces) (h : weight f p sp = .ok g) :
    ∃ l, parseSpaces sp f.subs.length = .ok l ∧ g.subs = f.subs ∧ g.dom = f.dom ∧
      ∀ idx, g.val idx = f.val idx * prodOver l (fun ind => ipow (dvolAt f.subs ind idx) p) :=
  weight_val f g p sp h

-- non-vacuity: one sub-domain with dvol = [1/2, 2], data [3, 5], power 2 -> [3/4, 20]
example :
    let f : Fld Rat := ⟨0, [⟨[2], .vector #[1/2, 2], none⟩], DT.float, fun i => if i.headD 0 = 0 then 3 else 5⟩
    (match weight f 2 .none with | .ok g => [g.val [0], g.val [1]] | .error _ => []) = [3/4, 20] := by decide +kernel

/-- Field.integrate(spaces), on BOTH code paths (all volume elements scalar: `sum * scalar_weight`; otherwise
    `weight(1).sum`), is the sum over the contracted index fibre of value × volume factors. -/
theorem integrate_eq_sum_weight [Field K] [DecidableEq K] (f g : Fld K) (sp : Spaces)
    (h : integrate f sp = .ok g) :
    ∃ l, parseSpaces sp f.subs.length = .ok l ∧ g.subs = sel false (maskOf f.subs.length l) f.subs ∧
      ∀ o, g.val o = sumOver (allIdx (sel true (maskOf f.subs.length l) f.sizes)) (fun c =>
        f.val (merge (maskOf f.subs.length l) o c) *
          prodOver l (fun ind => dvolAt f.subs ind (merge (maskOf f.subs.length l) o c))) := by
  unfold integrate at h
  cases hsw : scalarWeight f.subs sp with
  | error e => simp only [hsw] at h; cases h
  | ok r =>
    cases r with
    | some swgt =>
      simp only [hsw] at h
      unfold fsum at h
      cases hp : parseSpaces sp f.subs.length with
      | error e => simp only [hp] at h; cases h
      | ok l =>
        simp only [hp, Except.ok.injEq] at h
        subst h
        refine ⟨l, rfl, rfl, fun o => ?_⟩
        simp only [smulFloat, contractFld, contract]
        rw [← sumOver_mul_right]
        apply sumOver_congr
        intro c _
        rw [((scalarWeight_spec f.subs sp l hp _ hsw (merge (maskOf f.subs.length l) o c)).1 swgt rfl).1]
    | none =>
      simp only [hsw] at h
      cases hw : weight f 1 sp with
      | error e => simp only [hw] at h; cases h
      | ok tmp =>
        simp only [hw] at h
        obtain ⟨l, hp, hsubs, _, hval⟩ := weight_val f tmp 1 sp hw
        unfold fsum at h
        rw [hsubs, hp] at h
        simp only [Except.ok.injEq] at h
        subst h
        refine ⟨l, hp, by simp only [contractFld, hsubs], fun o => ?_⟩
        simp only [contractFld, contract, Fld.sizes, hsubs]
        apply sumOver_congr
        intro c _
        rw [hval]
        simp only [ipow_one]

/-- Operands on different domains are rejected, and nothing else is: a binary operation fails (with the error of
    `check_object_identity`) exactly when the two DomainTuple objects differ. -/
theorem domain_mismatch_rejected (op : K → K → K) (dt : DT → DT → DT) (f g : Fld K) :
    (g.dom ≠ f.dom → binop op dt f g = .error "ValueError") ∧
    (g.dom = f.dom → ∃ r, binop op dt f g = .ok r ∧ r.dom = f.dom ∧ r.subs = f.subs ∧
        ∀ i, r.val i = op (f.val i) (g.val i)) := by
  constructor
  · intro h; simp [binop, h]
  · intro h
    exact ⟨{ f with dt := dt f.dt g.dt, val := fun i => op (f.val i) (g.val i) }, by simp [binop, h], rfl, rfl,
      fun _ => rfl⟩

/-- the same for dot products (any `spaces`) and for MultiFields (identity of the MultiDomain objects) -/
theorem domain_mismatch_rejected_vdot [Add K] [Mul K] [OfNat K 0] (conj : K → K) (f g : Fld K) (sp : Spaces)
    (a b : MFld K) (op : Fld K → Fld K → Except String (Fld K)) :
    (g.dom ≠ f.dom → vdot conj f g sp = .error "ValueError" ∧ sVdot conj f g = .error "ValueError") ∧
    (a.dom ≠ b.dom → mbinop op a b = .error "ValueError" ∧ msVdot conj b a = .error "ValueError") := by
  constructor
  · intro h; simp [vdot, sVdot, h]
  · intro h; simp [mbinop, msVdot, h]

example : binop (· + ·) max (⟨0, [], 2, fun _ => (1 : Rat)⟩ : Fld Rat) ⟨1, [], 2, fun _ => 1⟩ = .error "ValueError" := by
  simp [binop]

end NiftyVerif.C06
