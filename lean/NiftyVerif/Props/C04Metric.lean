/-
  C04 (continued) — adjoint Jacobian and metric of the simplified operator.
    adj_support        the adjoint Jacobian only writes to keys the expression reads
    pe_adj             on the variable keys the adjoint of the simplified operator = the original's
    pe_metric_partial  when both the simplified and the original operator carry a metric, the simplified metric is the
                       variable block of the original metric:  M' h = (M (zeroC h)) on the non-constant keys.
  Full statement (kept visible):  pe_metric : metric presence is equal as well.  That part is NOT a theorem of the
  transcribed code: a likelihood scaled by a negative factor has no metric (`ScalingOperator.__call__` drops it) but its
  all-constant collapse is a `ConstantEnergyOperator`, which produces a (null) metric when one is wanted — excluded
  region: all-constant likelihood sub-operators under a negative scaling.  Presence is compared on the real code by
  harness/props/c04.py for every generated case.
-/
import NiftyVerif.Props.C04

set_option linter.unusedSimpArgs false
set_option linter.unusedVariables false
set_option linter.unusedSectionVars false
namespace NiftyVerif.C04
open NiftyVerif NiftyVerif.Gen.Ptw NiftyVerif.Expr

def keys (d : Dom) : List String := d.map (·.1)

theorem mem_keys_union_left {a b : Dom} {k : String} (h : k ∈ keys a) : k ∈ keys (a.union b) := by
  obtain ⟨kn, hkn, he⟩ := List.mem_map.mp h
  exact List.mem_map.mpr ⟨kn, List.mem_append_left _ hkn, he⟩

theorem mem_keys_union_right {a b : Dom} {k : String} (h : k ∈ keys b) : k ∈ keys (a.union b) := by
  obtain ⟨kn, hkn, he⟩ := List.mem_map.mp h
  by_cases hin : a.any (fun kn' => kn'.1 == kn.1) = true
  · obtain ⟨kn', hk', hb⟩ := List.any_eq_true.mp hin
    have : kn'.1 = kn.1 := by simpa using hb
    exact List.mem_map.mpr ⟨kn', List.mem_append_left _ hk', by rw [this, he]⟩
  · refine List.mem_map.mpr ⟨kn, List.mem_append_right _ ?_, he⟩
    simp only [List.mem_filter]
    refine ⟨hkn, ?_⟩
    cases hc : a.any (fun kn' => kn'.1 == kn.1)
    · rfl
    · exact (hin hc).elim

/-- the adjoint Jacobian writes only to keys the expression reads -/
theorem adj_support (e : Ex ℝ) (wm : Bool) :
    ∀ (ρ y : MVal ℝ) (k : String) (i : Nat), k ∉ keys e.inDom → (lin e ρ wm).adj y k i = 0 := by
  induction e with
  | var k0 n =>
    intro ρ y k i hk
    have : k ≠ k0 := fun e => hk (by simp [keys, Ex.inDom, e])
    simp [lin, this]
  | add a b iha ihb =>
    intro ρ y k i hk
    simp only [lin]
    rw [iha _ _ _ _ (fun h => hk (mem_keys_union_left h)), ihb _ _ _ _ (fun h => hk (mem_keys_union_right h))]; ring
  | sub a b iha ihb =>
    intro ρ y k i hk
    simp only [lin]
    rw [iha _ _ _ _ (fun h => hk (mem_keys_union_left h)), ihb _ _ _ _ (fun h => hk (mem_keys_union_right h))]; ring
  | mul a b iha ihb =>
    intro ρ y k i hk
    simp only [lin]
    rw [iha _ _ _ _ (fun h => hk (mem_keys_union_left h)), ihb _ _ _ _ (fun h => hk (mem_keys_union_right h))]; ring
  | scale c a iha => intro ρ y k i hk; simp only [lin]; exact iha _ _ _ _ hk
  | addc c neg a iha => intro ρ y k i hk; simp only [lin]; exact iha _ _ _ _ hk
  | mulc d a iha => intro ρ y k i hk; simp only [lin]; exact iha _ _ _ _ hk
  | ptw f p a iha => intro ρ y k i hk; simp only [lin]; exact iha _ _ _ _ hk
  | lin m n rows a iha => intro ρ y k i hk; simp only [lin]; exact iha _ _ _ _ hk
  | sum a iha => intro ρ y k i hk; simp only [lin]; exact iha _ _ _ _ hk
  | vdot a b iha ihb =>
    intro ρ y k i hk
    simp only [lin]
    rw [iha _ _ _ _ (fun h => hk (mem_keys_union_left h)), ihb _ _ _ _ (fun h => hk (mem_keys_union_right h))]; ring
  | getKey k0 a iha => intro ρ y k i hk; simp only [lin]; exact iha _ _ _ _ hk
  | putKey k0 a iha => intro ρ y k i hk; simp only [lin]; exact iha _ _ _ _ hk
  | chain f g ihf ihg => intro ρ y k i hk; simp only [lin]; exact ihg _ _ _ _ hk
  | sqnorm a iha => intro ρ y k i hk; simp only [lin]; exact iha _ _ _ _ hk
  | quad d a iha => intro ρ y k i hk; simp only [lin]; exact iha _ _ _ _ hk
  | gauss data icov a iha => intro ρ y k i hk; simp only [lin]; exact iha _ _ _ _ hk
  | const en d v => intro ρ y k i hk; rfl
  | bil m na nb T a b iha ihb =>
    intro ρ y k i hk
    simp only [lin]
    rw [iha _ _ _ _ (fun h => hk (mem_keys_union_left h)), ihb _ _ _ _ (fun h => hk (mem_keys_union_right h))]; ring
  | varcov n a b iha ihb =>
    intro ρ y k i hk
    simp only [lin]
    rw [iha _ _ _ _ (fun h => hk (mem_keys_union_left h)), ihb _ _ _ _ (fun h => hk (mem_keys_union_right h))]; ring

theorem not_mem_keys_of_allConst {ck : List String} {d : Dom} (h : allConst ck d = true) {k : String}
    (hk : ck.contains k = false) : k ∉ keys d := by
  intro hm
  obtain ⟨kn, hkn, he⟩ := List.mem_map.mp hm
  have := (List.all_eq_true.mp h) kn hkn
  rw [he] at this
  rw [hk] at this
  cases this

/-- **adjoint**: on every non-constant key the adjoint Jacobian of the simplified operator equals the original's -/
theorem pe_adj (ck : List String) (cs : MVal ℝ) (e : Ex ℝ) :
    ∀ (ρ : MVal ℝ) (wm : Bool) (y : MVal ℝ) (k : String) (i : Nat), ck.contains k = false →
      (lin (pe ck cs e) ρ wm).adj y k i = (lin e (insertC ck cs ρ) wm).adj y k i := by
  have coll : ∀ (e e' : Ex ℝ),
      (allConst ck e.inDom = false → noneConst ck e.inDom = false → ∀ ρ wm y k i, ck.contains k = false →
        (lin e' ρ wm).adj y k i = (lin e (insertC ck cs ρ) wm).adj y k i) →
      ∀ ρ wm y k i, ck.contains k = false →
        (lin (collapse ck cs e e') ρ wm).adj y k i = (lin e (insertC ck cs ρ) wm).adj y k i := by
    intro e e' hyp ρ wm y k i hk
    unfold collapse
    split
    · rename_i he
      rw [lin_congr_env e wm ρ (insertC ck cs ρ) (empty_agree he _ _)]
    · split
      · rename_i _ ha
        rw [adj_support e wm _ _ _ _ (not_mem_keys_of_allConst ha hk)]
        rfl
      · split
        · rename_i _ _ hn
          rw [lin_congr_env e wm (insertC ck cs ρ) ρ (noneConst_agree hn cs ρ)]
        · rename_i _ ha hn
          exact hyp (by simpa using ha) (by simpa using hn) ρ wm y k i hk
  induction e with
  | var k0 n =>
    intro ρ wm y k i hk; simp only [pe]
    exact coll (.var k0 n) (.var k0 n) (fun ha hn => (var_dichotomy ck k0 n ha hn).elim) ρ wm y k i hk
  | add a b iha ihb =>
    intro ρ wm y k i hk; simp only [pe]
    exact coll _ _ (fun _ _ ρ wm y k i hk => by simp only [lin, iha _ _ _ _ _ hk, ihb _ _ _ _ _ hk]) ρ wm y k i hk
  | sub a b iha ihb =>
    intro ρ wm y k i hk; simp only [pe]
    exact coll _ _ (fun _ _ ρ wm y k i hk => by simp only [lin, iha _ _ _ _ _ hk, ihb _ _ _ _ _ hk]) ρ wm y k i hk
  | mul a b iha ihb =>
    intro ρ wm y k i hk; simp only [pe]
    exact coll _ _ (fun _ _ ρ wm y k i hk => by
      simp only [lin, C03.lin_val, pe_sound, iha _ _ _ _ _ hk, ihb _ _ _ _ _ hk]) ρ wm y k i hk
  | scale c a iha =>
    intro ρ wm y k i hk; simp only [pe]
    exact coll _ _ (fun _ _ ρ wm y k i hk => by simp only [lin, iha _ _ _ _ _ hk]) ρ wm y k i hk
  | addc c neg a iha =>
    intro ρ wm y k i hk; simp only [pe]
    exact coll _ _ (fun _ _ ρ wm y k i hk => by simp only [lin, pe_target, iha _ _ _ _ _ hk]) ρ wm y k i hk
  | mulc d a iha =>
    intro ρ wm y k i hk; simp only [pe]
    exact coll _ _ (fun _ _ ρ wm y k i hk => by simp only [lin, iha _ _ _ _ _ hk]) ρ wm y k i hk
  | ptw f p a iha =>
    intro ρ wm y k i hk; simp only [pe]
    exact coll _ _ (fun _ _ ρ wm y k i hk => by
      simp only [lin, C03.lin_val, pe_sound, pe_target, iha _ _ _ _ _ hk]) ρ wm y k i hk
  | lin m n rows a iha =>
    intro ρ wm y k i hk; simp only [pe]
    exact coll _ _ (fun _ _ ρ wm y k i hk => by simp only [lin, iha _ _ _ _ _ hk]) ρ wm y k i hk
  | sum a iha =>
    intro ρ wm y k i hk; simp only [pe]
    exact coll _ _ (fun _ _ ρ wm y k i hk => by simp only [lin, pe_target, iha _ _ _ _ _ hk]) ρ wm y k i hk
  | vdot a b iha ihb =>
    intro ρ wm y k i hk; simp only [pe]
    exact coll _ _ (fun _ _ ρ wm y k i hk => by
      simp only [lin, C03.lin_val, pe_sound, pe_target, iha _ _ _ _ _ hk, ihb _ _ _ _ _ hk]) ρ wm y k i hk
  | getKey k0 a iha =>
    intro ρ wm y k i hk; simp only [pe]
    exact coll _ _ (fun _ _ ρ wm y k i hk => by simp only [lin, iha _ _ _ _ _ hk]) ρ wm y k i hk
  | putKey k0 a iha =>
    intro ρ wm y k i hk; simp only [pe]
    exact coll _ _ (fun _ _ ρ wm y k i hk => by simp only [lin, iha _ _ _ _ _ hk]) ρ wm y k i hk
  | chain f g ihf ihg =>
    intro ρ wm y k i hk; simp only [pe]
    exact coll _ _ (fun _ _ ρ wm y k i hk => by
      simp only [lin, C03.lin_val, pe_sound, ihg _ _ _ _ _ hk]) ρ wm y k i hk
  | sqnorm a iha =>
    intro ρ wm y k i hk; simp only [pe]
    exact coll _ _ (fun _ _ ρ wm y k i hk => by
      simp only [lin, C03.lin_val, pe_sound, pe_target, iha _ _ _ _ _ hk]) ρ wm y k i hk
  | quad d a iha =>
    intro ρ wm y k i hk; simp only [pe]
    exact coll _ _ (fun _ _ ρ wm y k i hk => by
      simp only [lin, C03.lin_val, pe_sound, pe_target, iha _ _ _ _ _ hk]) ρ wm y k i hk
  | gauss data icov a iha =>
    intro ρ wm y k i hk; simp only [pe]
    exact coll _ _ (fun _ _ ρ wm y k i hk => by
      simp only [lin, C03.lin_val, pe_sound, pe_target, iha _ _ _ _ _ hk]) ρ wm y k i hk
  | const en d v => intro ρ wm y k i hk; rfl
  | bil m na nb T a b iha ihb =>
    intro ρ wm y k i hk; simp only [pe]
    exact coll _ _ (fun _ _ ρ wm y k i hk => by
      simp only [lin, C03.lin_val, pe_sound, iha _ _ _ _ _ hk, ihb _ _ _ _ _ hk]) ρ wm y k i hk
  | varcov n a b iha ihb =>
    intro ρ wm y k i hk; simp only [pe]
    exact coll _ _ (fun _ _ ρ wm y k i hk => by
      simp only [lin, C03.lin_val, pe_sound, iha _ _ _ _ _ hk, ihb _ _ _ _ _ hk]) ρ wm y k i hk

/-! ### metric -/

theorem add_metric_some {a b : Ex ℝ} {ρ : MVal ℝ} {wm : Bool} {M : MVal ℝ → MVal ℝ}
    (h : (lin (.add a b) ρ wm).metric = some M) :
    ∃ ma mb, (lin a ρ wm).metric = some ma ∧ (lin b ρ wm).metric = some mb ∧
      M = fun h k i => ma h k i + mb h k i := by
  simp only [lin] at h
  cases ha : (lin a ρ wm).metric with
  | none => simp [ha] at h
  | some ma =>
    cases hb : (lin b ρ wm).metric with
    | none => simp [ha, hb] at h
    | some mb =>
      simp only [ha, hb] at h
      exact ⟨ma, mb, rfl, rfl, (Option.some.inj h).symm⟩

theorem scale_metric_some {c : ℝ} {a : Ex ℝ} {ρ : MVal ℝ} {wm : Bool} {M : MVal ℝ → MVal ℝ}
    (h : (lin (.scale c a) ρ wm).metric = some M) :
    ∃ ma, (lin a ρ wm).metric = some ma ∧ M = fun h k i => c * ma h k i := by
  simp only [lin] at h
  split at h
  · cases ha : (lin a ρ wm).metric
    · simp [ha] at h
    · rename_i ma; simp only [ha, Option.map] at h; exact ⟨ma, rfl, (Option.some.inj h).symm⟩
  · cases h

theorem chain_metric_some {f g : Ex ℝ} {ρ : MVal ℝ} {wm : Bool} {M : MVal ℝ → MVal ℝ}
    (h : (lin (.chain f g) ρ wm).metric = some M) :
    ∃ mf, (lin f (lin g ρ wm).val wm).metric = some mf ∧
      M = fun h => (lin g ρ wm).adj (mf ((lin g ρ wm).jac h)) := by
  simp only [lin] at h
  cases hf : (lin f (lin g ρ wm).val wm).metric
  · simp [hf] at h
  · rename_i mf; simp only [hf, Option.map] at h; exact ⟨mf, rfl, (Option.some.inj h).symm⟩

theorem gauss_metric_some {data icov : List ℝ} {a : Ex ℝ} {ρ : MVal ℝ} {wm : Bool} {M : MVal ℝ → MVal ℝ}
    (h : (lin (.gauss data icov a) ρ wm).metric = some M) :
    M = fun h => (lin a ρ wm).adj (mask a.dom (fun k j => ofList icov j * (lin a ρ wm).jac h k j)) := by
  simp only [lin] at h
  split at h
  · exact (Option.some.inj h).symm
  · cases h

theorem varcov_metric_some {n : Nat} {a b : Ex ℝ} {ρ : MVal ℝ} {wm : Bool} {M : MVal ℝ → MVal ℝ}
    (h : (lin (.varcov n a b) ρ wm).metric = some M) :
    M = fun h k i' =>
      (lin a ρ wm).adj (single (fun j => if j < n then (lin b ρ wm).val "" j * (lin a ρ wm).jac h "" j else 0)) k i'
      + (lin b ρ wm).adj (single (fun j => if j < n then
          ((0.5 : ℝ) / ((lin b ρ wm).val "" j * (lin b ρ wm).val "" j)) * (lin b ρ wm).jac h "" j else 0)) k i' := by
  simp only [lin] at h
  split at h
  · exact (Option.some.inj h).symm
  · cases h

theorem const_metric_some {en : Bool} {d : Dom} {v : MVal ℝ} {ρ : MVal ℝ} {wm : Bool} {M : MVal ℝ → MVal ℝ}
    (h : (lin (.const en d v) ρ wm).metric = some M) : M = fun _ _ _ => 0 := by
  simp only [lin] at h
  split at h
  · exact (Option.some.inj h).symm
  · cases h

/-- a metric reads its tangent only on the keys read -/
theorem metric_congr (e : Ex ℝ) (wm : Bool) :
    ∀ (ρ : MVal ℝ) (M : MVal ℝ → MVal ℝ), (lin e ρ wm).metric = some M →
      ∀ h1 h2 : MVal ℝ, AgreeOn e.inDom h1 h2 → M h1 = M h2 := by
  induction e with
  | add a b iha ihb =>
    intro ρ M hM h1 h2 hh
    obtain ⟨ma, mb, ha, hb, rfl⟩ := add_metric_some hM
    funext k i
    simp only [iha ρ ma ha h1 h2 (agree_union_left hh), ihb ρ mb hb h1 h2 (agree_union_right hh)]
  | scale c a iha =>
    intro ρ M hM h1 h2 hh
    obtain ⟨ma, ha, rfl⟩ := scale_metric_some hM
    funext k i
    simp only [iha ρ ma ha h1 h2 hh]
  | chain f g ihf ihg =>
    intro ρ M hM h1 h2 hh
    obtain ⟨mf, hf, rfl⟩ := chain_metric_some hM
    simp only [jac_congr g wm ρ h1 h2 hh]
  | gauss data icov a iha =>
    intro ρ M hM h1 h2 hh
    rw [gauss_metric_some hM]
    simp only [jac_congr a wm ρ h1 h2 hh]
  | const en d v =>
    intro ρ M hM h1 h2 hh
    rw [const_metric_some hM]
  | varcov n a b iha ihb =>
    intro ρ M hM h1 h2 hh
    rw [varcov_metric_some hM]
    simp only [jac_congr a wm ρ h1 h2 (agree_union_left hh), jac_congr b wm ρ h1 h2 (agree_union_right hh)]
  | bil m na nb T a b _ _ => intro ρ M hM; simp [lin] at hM
  | var k n => intro ρ M hM; simp [lin] at hM
  | sub a b _ _ => intro ρ M hM; simp [lin] at hM
  | mul a b _ _ => intro ρ M hM; simp [lin] at hM
  | addc c neg a _ => intro ρ M hM; simp [lin] at hM
  | mulc d a _ => intro ρ M hM; simp [lin] at hM
  | ptw f p a _ => intro ρ M hM; simp [lin] at hM
  | lin m n rows a _ => intro ρ M hM; simp [lin] at hM
  | sum a _ => intro ρ M hM; simp [lin] at hM
  | vdot a b _ _ => intro ρ M hM; simp [lin] at hM
  | getKey k a _ => intro ρ M hM; simp [lin] at hM
  | putKey k a _ => intro ρ M hM; simp [lin] at hM
  | sqnorm a _ => intro ρ M hM; simp [lin] at hM
  | quad d a _ => intro ρ M hM; simp [lin] at hM

/-- a metric writes only to keys the expression reads -/
theorem metric_support (e : Ex ℝ) (wm : Bool) :
    ∀ (ρ : MVal ℝ) (M : MVal ℝ → MVal ℝ), (lin e ρ wm).metric = some M →
      ∀ (h : MVal ℝ) (k : String) (i : Nat), k ∉ keys e.inDom → M h k i = 0 := by
  induction e with
  | add a b iha ihb =>
    intro ρ M hM h k i hk
    obtain ⟨ma, mb, ha, hb, rfl⟩ := add_metric_some hM
    simp only [iha ρ ma ha h k i (fun hh => hk (mem_keys_union_left hh)),
      ihb ρ mb hb h k i (fun hh => hk (mem_keys_union_right hh))]
    ring
  | scale c a iha =>
    intro ρ M hM h k i hk
    obtain ⟨ma, ha, rfl⟩ := scale_metric_some hM
    simp only [iha ρ ma ha h k i hk]; ring
  | chain f g ihf ihg =>
    intro ρ M hM h k i hk
    obtain ⟨mf, hf, rfl⟩ := chain_metric_some hM
    exact adj_support g wm _ _ _ _ hk
  | gauss data icov a iha =>
    intro ρ M hM h k i hk
    rw [gauss_metric_some hM]
    exact adj_support a wm _ _ _ _ hk
  | const en d v =>
    intro ρ M hM h k i hk
    rw [const_metric_some hM]
  | varcov n a b iha ihb =>
    intro ρ M hM h k i hk
    rw [varcov_metric_some hM]
    simp only [adj_support a wm _ _ _ _ (fun hh => hk (mem_keys_union_left hh)),
      adj_support b wm _ _ _ _ (fun hh => hk (mem_keys_union_right hh))]
    ring
  | bil m na nb T a b _ _ => intro ρ M hM; simp [lin] at hM
  | var k n => intro ρ M hM; simp [lin] at hM
  | sub a b _ _ => intro ρ M hM; simp [lin] at hM
  | mul a b _ _ => intro ρ M hM; simp [lin] at hM
  | addc c neg a _ => intro ρ M hM; simp [lin] at hM
  | mulc d a _ => intro ρ M hM; simp [lin] at hM
  | ptw f p a _ => intro ρ M hM; simp [lin] at hM
  | lin m n rows a _ => intro ρ M hM; simp [lin] at hM
  | sum a _ => intro ρ M hM; simp [lin] at hM
  | vdot a b _ _ => intro ρ M hM; simp [lin] at hM
  | getKey k a _ => intro ρ M hM; simp [lin] at hM
  | putKey k a _ => intro ρ M hM; simp [lin] at hM
  | sqnorm a _ => intro ρ M hM; simp [lin] at hM
  | quad d a _ => intro ρ M hM; simp [lin] at hM

/-- **metric (partial, see the header)**: when both carry a metric, the metric of the simplified operator is the variable
    block of the original metric at the input with the constants inserted -/
theorem pe_metric_partial (ck : List String) (cs : MVal ℝ) (e : Ex ℝ) :
    ∀ (ρ : MVal ℝ) (wm : Bool) (M' M : MVal ℝ → MVal ℝ),
      (lin (pe ck cs e) ρ wm).metric = some M' → (lin e (insertC ck cs ρ) wm).metric = some M →
      ∀ (h : MVal ℝ) (k : String) (i : Nat), ck.contains k = false → M' h k i = M (zeroC ck h) k i := by
  have coll : ∀ (e e' : Ex ℝ),
      (allConst ck e.inDom = false → noneConst ck e.inDom = false → ∀ ρ wm M' M,
        (lin e' ρ wm).metric = some M' → (lin e (insertC ck cs ρ) wm).metric = some M →
        ∀ h k i, ck.contains k = false → M' h k i = M (zeroC ck h) k i) →
      ∀ ρ wm M' M, (lin (collapse ck cs e e') ρ wm).metric = some M' →
        (lin e (insertC ck cs ρ) wm).metric = some M →
        ∀ h k i, ck.contains k = false → M' h k i = M (zeroC ck h) k i := by
    intro e e' hyp ρ wm M' M hM' hM h k i hk
    unfold collapse at hM'
    split at hM'
    · rename_i he
      rw [lin_congr_env e wm ρ (insertC ck cs ρ) (empty_agree he _ _), hM] at hM'
      rw [← Option.some.inj hM', metric_congr e wm _ M hM h (zeroC ck h) (empty_agree he _ _)]
    · split at hM'
      · rename_i _ ha
        rw [const_metric_some hM', metric_support e wm _ M hM _ k i (not_mem_keys_of_allConst ha hk)]
      · split at hM'
        · rename_i _ _ hn
          rw [lin_congr_env e wm ρ (insertC ck cs ρ) (fun kn hkn => ((noneConst_agree hn cs ρ) kn hkn).symm), hM] at hM'
          rw [← Option.some.inj hM', metric_congr e wm _ M hM h (zeroC ck h) (noneConst_agree_zero hn h)]
        · rename_i _ ha hn
          exact hyp (by simpa using ha) (by simpa using hn) ρ wm M' M hM' hM h k i hk
  induction e with
  | add a b iha ihb =>
    intro ρ wm M' M hM' hM h k i hk; simp only [pe] at hM'
    refine coll _ _ (fun _ _ ρ wm M' M hM' hM h k i hk => ?_) ρ wm M' M hM' hM h k i hk
    obtain ⟨ma', mb', ha', hb', rfl⟩ := add_metric_some hM'
    obtain ⟨ma, mb, ha, hb, rfl⟩ := add_metric_some hM
    simp only [iha ρ wm ma' ma ha' ha h k i hk, ihb ρ wm mb' mb hb' hb h k i hk]
  | scale c a iha =>
    intro ρ wm M' M hM' hM h k i hk; simp only [pe] at hM'
    refine coll _ _ (fun _ _ ρ wm M' M hM' hM h k i hk => ?_) ρ wm M' M hM' hM h k i hk
    obtain ⟨ma', ha', rfl⟩ := scale_metric_some hM'
    obtain ⟨ma, ha, rfl⟩ := scale_metric_some hM
    simp only [iha ρ wm ma' ma ha' ha h k i hk]
  | chain f g ihf ihg =>
    intro ρ wm M' M hM' hM h k i hk; simp only [pe] at hM'
    refine coll _ _ (fun _ _ ρ wm M' M hM' hM h k i hk => ?_) ρ wm M' M hM' hM h k i hk
    obtain ⟨mf', hf', rfl⟩ := chain_metric_some hM'
    obtain ⟨mf, hf, rfl⟩ := chain_metric_some hM
    simp only [C03.lin_val, pe_sound] at hf'
    simp only [C03.lin_val] at hf
    rw [hf] at hf'
    rw [← Option.some.inj hf']
    simp only [pe_adj ck cs g ρ wm _ k i hk, pe_jac]
  | gauss data icov a iha =>
    intro ρ wm M' M hM' hM h k i hk; simp only [pe] at hM'
    refine coll _ _ (fun _ _ ρ wm M' M hM' hM h k i hk => ?_) ρ wm M' M hM' hM h k i hk
    rw [gauss_metric_some hM', gauss_metric_some hM]
    simp only [pe_adj ck cs a ρ wm _ k i hk, pe_jac, pe_target]
  | const en d v =>
    intro ρ wm M' M hM' hM h k i hk
    simp only [pe] at hM'
    rw [const_metric_some hM', const_metric_some hM]
  | varcov n a b iha ihb =>
    intro ρ wm M' M hM' hM h k i hk; simp only [pe] at hM'
    refine coll _ _ (fun _ _ ρ wm M' M hM' hM h k i hk => ?_) ρ wm M' M hM' hM h k i hk
    rw [varcov_metric_some hM', varcov_metric_some hM]
    simp only [pe_adj ck cs a ρ wm _ k i hk, pe_adj ck cs b ρ wm _ k i hk, pe_jac, C03.lin_val, pe_sound]
  | bil m na nb T a b _ _ => intro ρ wm M' M hM' hM; simp [lin] at hM
  | var k0 n =>
    intro ρ wm M' M hM' hM; simp [lin] at hM
  | sub a b _ _ => intro ρ wm M' M hM' hM; simp [lin] at hM
  | mul a b _ _ => intro ρ wm M' M hM' hM; simp [lin] at hM
  | addc c neg a _ => intro ρ wm M' M hM' hM; simp [lin] at hM
  | mulc d a _ => intro ρ wm M' M hM' hM; simp [lin] at hM
  | ptw f p a _ => intro ρ wm M' M hM' hM; simp [lin] at hM
  | lin m n rows a _ => intro ρ wm M' M hM' hM; simp [lin] at hM
  | sum a _ => intro ρ wm M' M hM' hM; simp [lin] at hM
  | vdot a b _ _ => intro ρ wm M' M hM' hM; simp [lin] at hM
  | getKey k0 a _ => intro ρ wm M' M hM' hM; simp [lin] at hM
  | putKey k0 a _ => intro ρ wm M' M hM' hM; simp [lin] at hM
  | sqnorm a _ => intro ρ wm M' M hM' hM; simp [lin] at hM
  | quad d a _ => intro ρ wm M' M hM' hM; simp [lin] at hM

end NiftyVerif.C04
