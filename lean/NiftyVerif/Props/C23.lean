/-
  C23 — Distributed summation is partition-independent and cannot deadlock.
  Property theorems only; model in Model/Allreduce.lean (transcription of utilities.py::allreduce_sum,_send,_recv,_bcast),
  helper lemmas in Lemmas/Allreduce.lean (generic in the event list) and Lemmas/AllreduceTree.lean (the concrete loop).
  Obligations are listed in harness/props/c23.py.

  Everything is for EVERY number of summands `n`, EVERY owner map `who : slot → rank` (ordered partitions with or
  without empty ranks are the special case `whoOf counts`), EVERY number `m ≥ 1` of sub-messages per transfer and
  EVERY interleaving (`Reach` quantifies over all schedules), with synchronous sends (`Step.rdv` needs both heads).
-/
import NiftyVerif.Lemmas.AllreduceTree
import NiftyVerif.Lemmas.AllreduceFull
import NiftyVerif.Lemmas.AllreduceMsgs
import NiftyVerif.Lemmas.AllreduceReplay

namespace NiftyVerif.C23
open NiftyVerif.Allreduce

/-- the first `l` sweeps of the loop (pair distances 1,2,…,2^(l-1)) -/
def sweeps (n : Nat) : Nat → List Ev
  | 0 => []
  | l + 1 => sweeps n l ++ round n (2 ^ l)

/-- **owner_invariant**: after the sweeps with distance `< 2^l` the live slots are exactly the multiples of `2^l`
    below `n` (slot `j` lives on rank `who j`), slot `j` holding the level-`l` tree over `j .. j+2^l-1`; every other
    slot is `None` -/
theorem owner_invariant (n l : Nat) (x : Nat) :
    execAll (sweeps n l) (initStore n) x = if x % 2 ^ l = 0 ∧ x < n then some (treeL n l x) else none := by
  have : Live n (2 ^ l) (treeL n l) (execAll (sweeps n l) (initStore n)) := by
    induction l with
    | zero => exact live_init n
    | succ l ih =>
      have h2 := live_round (Nat.pos_of_ne_zero (by positivity)) ih
      rw [treeL_succ] at h2
      have e : 2 * 2 ^ l = 2 ^ (l + 1) := by ring
      rw [e] at h2
      show Live n (2 ^ (l + 1)) (treeL n (l + 1)) (execAll (sweeps n l ++ round n (2 ^ l)) (initStore n))
      rw [execAll_append]; exact h2
  exact this x

/-- **tree_value**: executing the events in loop order (this is literally the `comm=None` path) leaves in slot 0 the
    fixed pairwise tree, and every other slot `None`; in particular no `None` was ever used as a summand -/
theorem tree_value (n : Nat) (hn : 0 < n) (x : Nat) :
    execAll (events n) (initStore n) x = if x = 0 then some (pairwiseTree n) else none := by
  have h0 : Live n (2 ^ 0) (treeL n 0) (initStore n) := live_init n
  obtain ⟨l', h1, h2, h3⟩ := live_loop n n 0 (initStore n) h0 (by
    rw [Nat.zero_add]; exact Nat.le_of_lt Nat.lt_two_pow_self)
  have hx := h3 x
  simp only [Nat.pow_zero] at hx
  unfold events
  rw [hx]
  by_cases hx0 : x = 0
  · subst hx0
    simp only [Nat.zero_mod, hn, and_self, if_true]
    unfold pairwiseTree
    obtain ⟨d, rfl⟩ : ∃ d, n = l' + d := ⟨n - l', by omega⟩
    rw [treeL_stable _ l' h2 d]
  · simp only [hx0, if_false]
    have : ¬ (x % 2 ^ l' = 0 ∧ x < n) := by
      rintro ⟨ha, hb⟩
      have : x < 2 ^ l' := by omega
      rw [Nat.mod_eq_of_lt this] at ha
      exact hx0 ha
    simp [this]

/-- the tree contains every summand exactly once, in the original order (so in exact arithmetic it IS the sum) -/
theorem tree_leaves (n : Nat) (hn : 0 < n) : (pairwiseTree n).leaves = List.range n := by
  unfold pairwiseTree
  rw [treeL_leaves n n 0 hn]
  have : min (2 ^ n) (n - 0) = n := by
    have := @Nat.lt_two_pow_self n
    omega
  rw [this, List.range_eq_range']

/-- in any associative structure the tree evaluates to the ordered sum of the summands -/
theorem tree_eval_sum {α} [AddMonoid α] (x : Nat → α) (n : Nat) (hn : 0 < n) :
    (pairwiseTree n).eval (· + ·) x = ((List.range n).map x).sum := by
  rw [eval_eq_sum, tree_leaves n hn]

/-- **matched_pair_is_one_event**: whenever, in a reachable state, rank `a` waits in `recv from b` and rank `b` in
    `send to a`, the two calls belong to the same event (same slots, same sub-message): matching by peer alone
    (all MPI gives with default tags) never pairs a message with the wrong receive -/
theorem matched_pair_is_one_event {who E init k st a b e e' ra rb} (h : Reach who E init k st)
    (ha : st.prog a = .recv b e :: ra) (hb : st.prog b = .send a e' :: rb) : e = e' := by
  obtain ⟨R, hR, _, _, _⟩ := inv_reach h
  exact (rdv_same_event hR ha hb).1

/-- **projection_deadlock_free**: every reachable state in which some rank has not finished has an enabled
    transition (a local addition, or a send/recv pair whose both sides are at their heads) -/
theorem projection_deadlock_free {who E init k st} (h : Reach who E init k st) (hne : ∃ r, st.prog r ≠ []) :
    ∃ st', Step st st' :=
  inv_progress (inv_reach h) hne

/-- every run has at most `|E|` transitions: no livelock -/
theorem runs_bounded {who E init k st} (h : Reach who E init k st) : k ≤ E.length := by
  obtain ⟨R, _, _, hlen, _⟩ := inv_reach h
  omega

/-- **schedule_independent**: every maximal run (a reachable state without successor) — whatever the interleaving —
    has executed all events, all ranks are finished, and the slots hold exactly the serial result -/
theorem schedule_independent {who E init k st} (h : Reach who E init k st) (hmax : ¬ ∃ st', Step st st') :
    (∀ r, st.prog r = []) ∧ st.store = execAll E init ∧ k = E.length := by
  have hfin : ∀ r, st.prog r = [] := by
    intro r
    by_cases hr : st.prog r = []
    · exact hr
    · exact absurd (projection_deadlock_free h ⟨r, hr⟩) hmax
  exact ⟨hfin, inv_final (inv_reach h) hfin⟩

/-- maximal runs exist (the hypotheses of `schedule_independent` are satisfiable from every reachable state) -/
theorem maximal_run_exists {who E init} : ∀ {k st}, Reach who E init k st →
    ∃ k' st', Reach who E init k' st' ∧ ¬ ∃ st'', Step st' st'' := by
  have key : ∀ d k st, Reach who E init k st → E.length - k = d →
      ∃ k' st', Reach who E init k' st' ∧ ¬ ∃ st'', Step st' st'' := by
    intro d
    induction d with
    | zero =>
      intro k st h hd
      refine ⟨k, st, h, ?_⟩
      rintro ⟨st'', hs⟩
      have := runs_bounded (Reach.succ h hs)
      have := runs_bounded h
      omega
    | succ d ih =>
      intro k st h hd
      by_cases hmax : ∃ st', Step st st'
      · obtain ⟨st', hs⟩ := hmax
        exact ih (k + 1) st' (Reach.succ h hs) (by omega)
      · exact ⟨k, st, h, hmax⟩
  intro k st h
  exact key _ k st h rfl

/-- **allreduce_all_schedules**: the distributed `allreduce_sum` with `n ≥ 1` summands, ANY owner map, transfers split
    into ANY number `m ≥ 1` of sub-messages, under ANY interleaving with synchronous sends, ends with all ranks
    finished and slot 0 (on rank `who 0`, the root of the final broadcast) holding the fixed pairwise tree -/
theorem allreduce_all_schedules (n : Nat) (hn : 0 < n) (who : Nat → Nat) (m : Nat) (hm : 0 < m) {k st}
    (h : Reach who (expand who m (events n)) (initStore n) k st) (hmax : ¬ ∃ st', Step st st') :
    (∀ r, st.prog r = []) ∧ st.store 0 = some (pairwiseTree n) := by
  obtain ⟨h1, h2, _⟩ := schedule_independent h hmax
  refine ⟨h1, ?_⟩
  rw [h2, execAll_expand who m hm _ _ (events_fin n), tree_value n hn 0]
  rfl

/-- **serial_eq_distributed**: the single-process path (`comm=None`: all slots on rank 0, whose program is the event
    list itself, all additions local) and any distributed run end with the same slots -/
theorem serial_eq_distributed (n : Nat) (who : Nat → Nat) (m : Nat) (hm : 0 < m) {k st k' st'}
    (h : Reach who (expand who m (events n)) (initStore n) k st) (hmax : ¬ ∃ s, Step st s)
    (h' : Reach (fun _ => 0) (events n) (initStore n) k' st') (hmax' : ¬ ∃ s, Step st' s) :
    st.store = st'.store := by
  rw [(schedule_independent h hmax).2.1, (schedule_independent h' hmax').2.1,
    execAll_expand who m hm _ _ (events_fin n)]

/-- the serial program really is "all events, in loop order, as local additions" -/
theorem serial_program (E : List Ev) : proj (fun _ => 0) 0 E = E.map Act.loc := by
  induction E with
  | nil => rfl
  | cons e E ih =>
    have : act (fun _ => 0) 0 e = some (.loc e) := by simp [act]
    rw [proj_cons_some this, ih]; rfl

/-- **compound_messages_ordered**: for every payload type, the sequence of point-to-point calls issued by `_send`
    equals (kind by kind, in order) the sequence issued by `_recv`, and is non-empty -/
theorem compound_messages_ordered (t : Ty) : sendSeq t = recvSeq t ∧ 0 < (sendSeq t).length := by
  induction t with
  | plain => exact ⟨rfl, by decide⟩
  | ndarray => exact ⟨rfl, by decide⟩
  | field t ih => exact ⟨by simp [sendSeq, recvSeq, ih.1], by simp [sendSeq]⟩
  | multifield k => exact ⟨rfl, by simp [sendSeq]⟩

/-! ### the complete protocol: leading collectives, point-to-point phase, trailing collectives of `_bcast` -/

/-- the owner map of an ordered partition only names existing ranks -/
theorem whoOf_lt (counts : List Nat) (hp : 0 < counts.length) (j : Nat) : whoOf counts j < counts.length := by
  unfold whoOf
  rcases Nat.lt_or_ge j (whoList counts).length with h | h
  · rw [List.getD_eq_getElem?_getD, List.getElem?_eq_getElem h]
    have hm : (whoList counts)[j] ∈ whoList counts := List.getElem_mem h
    simp only [whoList, List.mem_flatMap, List.mem_range, List.mem_replicate] at hm
    obtain ⟨t, ht, _, heq⟩ := hm
    have heq' : (whoList counts)[j] = t := heq
    simp only [Option.getD_some, heq']
    exact ht
  · rw [List.getD_eq_getElem?_getD, List.getElem?_eq_none h]
    simpa using hp

/-- **full_protocol_deadlock_free**: with the collectives included (a collective completes only when ALL `p` ranks have
    entered it), every reachable state of the complete `allreduce_sum` protocol in which some rank is unfinished can move -/
theorem full_protocol_deadlock_free {p who pre post E init k st} (hw : ∀ e ∈ E, who e.dst < p ∧ who e.src < p)
    (hp : 0 < p) (h : FReach p who pre post E init k st) (hne : ∃ r, st.prog r ≠ []) : ∃ st', FStep p st st' :=
  finv_progress hw hp (finv_reach hw hp h) hne

/-- **full_protocol_schedule_independent**: every maximal run of the complete protocol has finished all ranks, took
    exactly `|pre| + |E| + |post|` transitions and leaves the serial result in the slots -/
theorem full_protocol_schedule_independent {p who pre post E init k st} (hw : ∀ e ∈ E, who e.dst < p ∧ who e.src < p)
    (hp : 0 < p) (h : FReach p who pre post E init k st) (hmax : ¬ ∃ st', FStep p st st') :
    (∀ r, st.prog r = []) ∧ st.store = execAll E init ∧ k = pre.length + E.length + post.length := by
  have hfin : ∀ r, st.prog r = [] := by
    intro r
    by_cases hr : st.prog r = []
    · exact hr
    · exact absurd (full_protocol_deadlock_free hw hp h ⟨r, hr⟩) hmax
  exact ⟨hfin, finv_final hw hp (finv_reach hw hp h) hfin⟩

/-- **full_allreduce_all_schedules**: `allreduce_sum(obj, comm)` on `p = counts.length ≥ 1` ranks holding
    `counts` summands each (any ordered partition, empty ranks allowed, `n ≥ 1` summands in total), compound transfers
    of `m ≥ 1` messages, any leading/trailing collectives: under EVERY interleaving with synchronous sends and
    barrier-like collectives the protocol terminates with every rank finished and slot 0 (on the broadcast root
    `who 0`) holding the fixed pairwise tree -/
theorem full_allreduce_all_schedules (counts : List Nat) (hp : 0 < counts.length) (n : Nat) (hn : 0 < n)
    (m : Nat) (hm : 0 < m) (pre post : List Nat) {k st}
    (h : FReach counts.length (whoOf counts) pre post (expand (whoOf counts) m (events n)) (initStore n) k st)
    (hmax : ¬ ∃ st', FStep counts.length st st') :
    (∀ r, st.prog r = []) ∧ st.store 0 = some (pairwiseTree n) := by
  have hw : ∀ e ∈ expand (whoOf counts) m (events n), whoOf counts e.dst < counts.length ∧ whoOf counts e.src < counts.length :=
    fun e _ => ⟨whoOf_lt counts hp _, whoOf_lt counts hp _⟩
  obtain ⟨h1, h2, _⟩ := full_protocol_schedule_independent hw hp h hmax
  refine ⟨h1, ?_⟩
  rw [h2, execAll_expand _ m hm _ _ (events_fin n), tree_value n hn 0]
  rfl

/-! ### compound messages (ndarray / Field / MultiField payloads) and the type-detection reduction -/

/-- **matched_kinds_agree**: with every cross-rank transfer of a payload of type `ty` split into its
    `(sendSeq ty).length` communicator calls, whenever a `recv`/`Recv` of rank `a` is matched with a `send`/`Send` of rank
    `b` (matching is by peer only), the two calls are the SAME sub-message of the SAME transfer, and its kind on the
    receiving side (`_recv`: pickled object or buffer) equals its kind on the sending side (`_send`) -/
theorem matched_kinds_agree {who E init k st a b e e' ra rb} (ty : Ty)
    (h : Reach who (expand who (sendSeq ty).length E) init k st)
    (ha : st.prog a = .recv b e :: ra) (hb : st.prog b = .send a e' :: rb) :
    e = e' ∧ (recvSeq ty).getD e.part .obj = (sendSeq ty).getD e'.part .obj := by
  have := matched_pair_is_one_event h ha hb
  subst this
  exact ⟨rfl, by rw [sendSeq_eq_recvSeq]⟩

/-- **calls_are_expanded_projection**: the per-rank sequences of point-to-point calls that the tie compares with the
    real runs (`calls`: one `_send`/`_recv` call list per transfer) are exactly the projections of the expanded event list
    about which deadlock-freedom and schedule-independence are proved -/
theorem calls_are_expanded_projection (who : Nat → Nat) (ty : Ty) (r : Nat) (E : List Ev) :
    (proj who r (expand who (sendSeq ty).length E)).filterMap (toCall ty) = (proj who r E).flatMap (actCalls ty) := by
  induction E with
  | nil => rfl
  | cons e E ih =>
    have hL : proj who r (expand who (sendSeq ty).length (e :: E)) =
        proj who r (if who e.dst = who e.src then [e] else parts (sendSeq ty).length e) ++
          proj who r (expand who (sendSeq ty).length E) := by
      simp [expand, proj, List.filterMap_append]
    have hR : (proj who r (e :: E)).flatMap (actCalls ty) =
        (match act who r e with | none => [] | some a => actCalls ty a) ++ (proj who r E).flatMap (actCalls ty) := by
      cases ha : act who r e with
      | none => rw [proj_cons_none ha]; rfl
      | some a => rw [proj_cons_some ha]; rfl
    rw [hL, hR, List.filterMap_append, ih]
    congr 1
    by_cases hloc : who e.dst = who e.src
    · rw [if_pos hloc]
      cases ha : act who r e with
      | none => rw [proj_cons_none ha]; rfl
      | some a =>
        rw [proj_cons_some ha]
        have : a = .loc e := by
          unfold act at ha
          split at ha
          · simp only [hloc, if_true, Option.some.injEq] at ha; exact ha.symm
          · split at ha
            · rename_i h1 h2; exact absurd (h2.trans hloc.symm) h1
            · cases ha
        subst this
        rfl
    · rw [if_neg hloc]
      exact toCall_parts who ty r e hloc

/-- **dtype_detection_order_independent**: `dtype = comm.allreduce([type(x) …])` concatenates the ranks' lists with a
    non-commutative `+` in whatever order the MPI library reduces; since only `list(set(dtype))` with the assertion
    `len == 1` is used, ANY two reduction trees over the same set of ranks give the same answer (same type, or both fail) -/
theorem dtype_detection_order_independent {α} [DecidableEq α] (ls : Nat → List α) (t1 t2 : RTree)
    (hranks : ∀ r, r ∈ t1.leavesOf ↔ r ∈ t2.leavesOf) :
    uniqueType (t1.reduce ls) = uniqueType (t2.reduce ls) := by
  apply uniqueType_congr
  intro x
  rw [mem_reduce, mem_reduce]
  constructor
  · rintro ⟨r, hr, hx⟩; exact ⟨r, (hranks r).mp hr, hx⟩
  · rintro ⟨r, hr, hx⟩; exact ⟨r, (hranks r).mpr hr, hx⟩

/-! ### trace validation: the order of events observed by the communicator in a real run -/

/-- **observed_run_is_model_run**: if the executable replay accepts an observed global order of rendezvous and collectives
    (each must be an enabled transition; local additions are performed silently), the observation is a run of the
    transition system — and if it leaves every rank finished, the slots hold the pairwise tree.  Used by the harness on
    the orders recorded by the fake MPI hub during real `allreduce_sum` runs. -/
theorem observed_run_is_model_run (counts : List Nat) (hp : 0 < counts.length) (n : Nat) (hn : 0 < n)
    (m : Nat) (hm : 0 < m) (pre post : List Nat) (fuel : Nat) (obs : List Obs) (x' : XSt)
    (h : replay counts.length fuel
      (xInit counts.length (whoOf counts) pre post (expand (whoOf counts) m (events n)) (initStore n)) obs = some x') :
    (∃ k, FReach counts.length (whoOf counts) pre post (expand (whoOf counts) m (events n)) (initStore n) k x'.toF) ∧
    ((∀ r, x'.toF.prog r = []) → x'.store 0 = some (pairwiseTree n)) := by
  have hstar := replay_star counts.length fuel obs _ x' (by simp [xInit]) h
  rw [xInit_toF] at hstar
  obtain ⟨k, hk⟩ := freach_of_star FReach.zero hstar
  refine ⟨⟨k, hk⟩, fun hfin => ?_⟩
  exact (full_allreduce_all_schedules counts hp n hn m hm pre post hk (no_step_of_all_nil hp hfin)).2

/-! ### non-vacuity -/

-- 5 summands: ((0+1)+(2+3))+4
example : (pairwiseTree 5).toString = "(((0+1)+(2+3))+4)" := by decide
-- the loop order for 5 summands: distance 1: (0,1) (2,3); distance 2: (0,2); distance 4: (0,4)
example : (events 5).map (fun e => (e.dst, e.src)) = [(0, 1), (2, 3), (0, 2), (0, 4)] := by decide
-- partition [2,0,3] (rank 1 empty): rank 2 adds 2+3 locally, ships slot 2 then slot 4 to rank 0
example : proj (whoOf [2, 0, 3]) 2 (events 5) =
    [.loc ⟨2, 3, 0, true⟩, .send 0 ⟨0, 2, 0, true⟩, .send 0 ⟨0, 4, 0, true⟩] := by decide
example : proj (whoOf [2, 0, 3]) 1 (events 5) = [] := by decide
-- 3 summands on ranks [1,2]: allgather, allreduce, rank 1 ships slot 1 then slot 2 to rank 0, two bcasts: accepted;
-- the same observation with the two collectives first is NOT a run of the model
example : ((replay 2 4 (xInit 2 (whoOf [1, 2]) [0, 1] [2, 3] (events 3) (initStore 3))
    [.coll 0, .coll 1, .p2p 1 0, .p2p 1 0, .coll 2, .coll 3]).map (fun x => (x.progs, (x.store 0).map T.toString))) =
    some ([[], []], some "((0+1)+2)") := by decide
example : (replay 2 4 (xInit 2 (whoOf [1, 2]) [0, 1] [2, 3] (events 3) (initStore 3))
    [.coll 0, .coll 1, .coll 2, .p2p 1 0, .p2p 1 0, .coll 3]).isNone = true := by decide
-- a Field transfer = two pickled messages; an ndarray transfer = a pickled header and a buffer
example : (proj (whoOf [1, 1]) 1 (expand (whoOf [1, 1]) (sendSeq .ndarray).length (events 2))).filterMap (toCall .ndarray)
    = [.send 0 .obj, .send 0 .buf] := by decide
-- rank order 2,0,1 with another tree shape: same detected type; mixed types: both fail
example : uniqueType ((RTree.node (.leaf 2) (.node (.leaf 0) (.leaf 1))).reduce (fun r => [[7], [], [7, 7]].getD r [])) =
    uniqueType ((RTree.node (.node (.leaf 0) (.leaf 1)) (.leaf 2)).reduce (fun r => [[7], [], [7, 7]].getD r [])) := by decide
example : uniqueType ((RTree.node (.leaf 1) (.leaf 0)).reduce (fun r => [[7], [8]].getD r [])) = none := by decide
-- floats are not associative: the tree, not the flat sum, is what is evaluated
example : (pairwiseTree 3).eval (fun a b : Int => a - b) (fun i => [10, 3, 2].getD i 0) = (10 - 3) - 2 := by decide

end NiftyVerif.C23
