/-
  C09 — Harmonic transforms follow the volume convention and all backends agree.
  Property theorems only; helper lemmas and the vocabulary (GridOK, ConjOK, ScalOK, InBox, boxSum, gridSum, IsReal)
  live in Lemmas/Harmonic.lean; the executable model in Model/Harmonic.lean.
  All theorems are for every axis length n1,n2,n3 ≥ 1, every commutative domain K with primitive roots, every
  spectator size — no bounds.
-/
import NiftyVerif.Lemmas.Harmonic

namespace NiftyVerif.C09
open NiftyVerif.Harmonic

variable {K : Type} [CommRing K] [IsDomain K]

/-- F Fᴴ = n·1 for the unnormalised DFT matrix of a primitive n-th root -/
theorem dft_orthogonal (w wb : K) (n : Nat) (hn : 0 < n) (h : IsPrimitiveRoot w n) (hb : w * wb = 1)
    (k l : Nat) (hk : k < n) (hl : l < n) :
    sumTo n (fun j => dftMat w k j * dftMat wb j l) = if k = l then (n : K) else 0 := by
  sorry

/-- the zero mode of the transform of a position-space field is its integral Σ x·dvol
    (TIMES on a position-space domain; INVERSE_TIMES when the operator's domain is the harmonic one) -/
theorem fft_zero_mode_is_integral (g : Grid K) (dvolD dvolT : K) (x : Tensor K) (p q : Nat) :
    fftApply g false dvolD dvolT 1 x ⟨p, 0, 0, 0, q⟩ = gridSum g p q (fun i => x i * dvolD)
    ∧ fftApply g true dvolD dvolT 4 x ⟨p, 0, 0, 0, q⟩ = gridSum g p q (fun i => x i * dvolT) := by
  sorry

/-- the four code formulas are T, Tᴴ, T⁻¹, T⁻ᴴ of ONE T (= mode 1), given dvol_t·dvol_d·ncells = 1 -/
theorem fft_modes_consistent (g : Grid K) (hg : GridOK g) (dh : Bool) (dvolD dvolT : K)
    (hv : dvolT * dvolD * (g.ncells : K) = 1)
    (σ : K →+* K) (hσ : ConjOK σ g) (hσD : σ dvolD = dvolD) (hσT : σ dvolT = dvolT)
    (x y : Tensor K) (P Q : Nat) :
    -- mode 4 is the inverse of mode 1 (both sides)
    (∀ i, InBox g i → fftApply g dh dvolD dvolT 4 (fftApply g dh dvolD dvolT 1 x) i = x i)
    ∧ (∀ i, InBox g i → fftApply g dh dvolD dvolT 1 (fftApply g dh dvolD dvolT 4 x) i = x i)
    -- mode 8 is the inverse of mode 2 (both sides)
    ∧ (∀ i, InBox g i → fftApply g dh dvolD dvolT 8 (fftApply g dh dvolD dvolT 2 x) i = x i)
    ∧ (∀ i, InBox g i → fftApply g dh dvolD dvolT 2 (fftApply g dh dvolD dvolT 8 x) i = x i)
    -- mode 2 is the adjoint of mode 1, mode 8 the adjoint of mode 4:  ⟨y, A x⟩ = ⟨Aᴴ y, x⟩
    ∧ boxSum P g Q (fun i => σ (y i) * fftApply g dh dvolD dvolT 1 x i)
        = boxSum P g Q (fun i => σ (fftApply g dh dvolD dvolT 2 y i) * x i)
    ∧ boxSum P g Q (fun i => σ (y i) * fftApply g dh dvolD dvolT 4 x i)
        = boxSum P g Q (fun i => σ (fftApply g dh dvolD dvolT 8 y i) * x i) := by
  sorry

/-- the Hartley matrix is symmetric and real, both conventions -/
theorem hartley_symmetric (s : Scal K) (σ : K →+* K) (hs : ScalOK s σ) (w wb : K) (hw : σ w = wb) (hwb : σ wb = w)
    (c : Bool) (k j : Nat) :
    hartleyMat s w wb c k j = hartleyMat s w wb c j k ∧ σ (hartleyMat s w wb c k j) = hartleyMat s w wb c k j := by
  sorry

/-- the code's Hartley (Re F ± Im F of the multi-axis FFT, `hartley3`) on real input is the real-linear map
    x ↦ ((1 ∓ i) F x + (1 ± i) F̄ x)/2; in one dimension its matrix is `hartleyMat` -/
theorem hartley_is_matrix (s : Scal K) (σ : K →+* K) (hs : ScalOK s σ) (g : Grid K) (hσ : ConjOK σ g) (c : Bool)
    (x : Tensor K) (hx : IsReal σ x) (i : Idx) (h2 : g.n2 = 1) (h3 : g.n3 = 1) (hi : i.j2 = 0 ∧ i.j3 = 0) :
    hartley3 s g c x i = sumTo g.n1 (fun j => hartleyMat s g.w1 g.wb1 c i.j1 j * x (i.set1 j)) := by
  sorry

/-- H² = n·1 (matrix form, one axis), both sign conventions -/
theorem hartley_involutive_up_to_n (s : Scal K) (σ : K →+* K) (hs : ScalOK s σ) (w wb : K) (n : Nat) (hn : 0 < n)
    (h : IsPrimitiveRoot w n) (hb : w * wb = 1) (c : Bool) (k l : Nat) (hk : k < n) (hl : l < n) :
    sumTo n (fun j => hartleyMat s w wb c k j * hartleyMat s w wb c j l) = if k = l then (n : K) else 0 := by
  sorry

/-- H² = ncells·1 for the code's multi-axis Hartley on real tensors (1-3 axes, any spectators), both conventions -/
theorem hartley3_involutive_up_to_n (s : Scal K) (σ : K →+* K) (hs : ScalOK s σ) (g : Grid K) (hg : GridOK g)
    (hσ : ConjOK σ g) (c : Bool) (x : Tensor K) (hx : IsReal σ x) (i : Idx) (hi : InBox g i) :
    hartley3 s g c (hartley3 s g c x) i = (g.ncells : K) * x i := by
  sorry

/-- HartleyOperator: modes 1,2 coincide (H real symmetric), modes 4,8 coincide, mode 4 inverts mode 1,
    and the operator is self-adjoint w.r.t. the bilinear pairing on real tensors -/
theorem hartley_modes_consistent (s : Scal K) (σ : K →+* K) (hs : ScalOK s σ) (g : Grid K) (hg : GridOK g)
    (hσ : ConjOK σ g) (c : Bool) (dvolD dvolT : K) (hv : dvolT * dvolD * (g.ncells : K) = 1)
    (hσD : σ dvolD = dvolD) (hσT : σ dvolT = dvolT)
    (x y : Tensor K) (hx : IsReal σ x) (hy : IsReal σ y) (P Q : Nat) :
    hartleyCartesian s g c dvolD dvolT 2 x = hartleyCartesian s g c dvolD dvolT 1 x
    ∧ hartleyCartesian s g c dvolD dvolT 8 x = hartleyCartesian s g c dvolD dvolT 4 x
    ∧ (∀ i, InBox g i → hartleyCartesian s g c dvolD dvolT 4 (hartleyCartesian s g c dvolD dvolT 1 x) i = x i)
    ∧ (∀ i, InBox g i → hartleyCartesian s g c dvolD dvolT 1 (hartleyCartesian s g c dvolD dvolT 4 x) i = x i)
    ∧ boxSum P g Q (fun i => y i * hartleyCartesian s g c dvolD dvolT 1 x i)
        = boxSum P g Q (fun i => hartleyCartesian s g c dvolD dvolT 2 y i * x i)
    ∧ boxSum P g Q (fun i => y i * hartleyCartesian s g c dvolD dvolT 4 x i)
        = boxSum P g Q (fun i => hartleyCartesian s g c dvolD dvolT 8 y i * x i) := by
  sorry

/-- complex input: the code's split H(Re x) + i·H(Im x) is the complex-linear extension of the real map:
    it is additive and commutes with multiplication by i -/
theorem hartley_complex_split (s : Scal K) (σ : K →+* K) (hs : ScalOK s σ) (g : Grid K) (c : Bool) (dvolD dvolT : K)
    (mode : Nat) (xr xi : Tensor K) (i : Idx) :
    -- multiplying the input by i (xr + i xi ↦ -xi + i xr) multiplies the output by i
    hartleyApplyComplex s g c dvolD dvolT mode (fun j => -xi j) xr i
      = s.I * hartleyApplyComplex s g c dvolD dvolT mode xr xi i
    -- real input (xi = 0) gives the real transform
    ∧ hartleyApplyComplex s g c dvolD dvolT mode xr (fun _ => 0) i = hartleyCartesian s g c dvolD dvolT mode xr i := by
  sorry

/-- smoothing with σ = 0 is the identity (the code's shortcut), and the general formula H⁻¹ diag(k) H with the
    kernel value exp(0) = 1 everywhere is the identity too (so the shortcut is consistent with the formula) -/
theorem smoothing_sigma0_id (s : Scal K) (σ : K →+* K) (hs : ScalOK s σ) (g : Grid K) (hg : GridOK g)
    (hσ : ConjOK σ g) (c : Bool) (dvolD dvolT : K) (hv : dvolT * dvolD * (g.ncells : K) = 1)
    (hσD : σ dvolD = dvolD) (kern : Tensor K) (x : Tensor K) (hx : IsReal σ x) :
    smoothApply s g c dvolD dvolT true kern x = x
    ∧ (∀ i, InBox g i → smoothApply s g c dvolD dvolT false (fun _ => 1) x i = x i) := by
  sorry

end NiftyVerif.C09
