/-
  C09 — Harmonic transforms follow the volume convention and all backends agree.
  Property theorems only; helper lemmas and the vocabulary (GridOK, ConjOK, ScalOK, InBox, boxSum, gridSum, IsReal)
  live in Lemmas/Harmonic*.lean; the executable model in Model/Harmonic.lean.
  All theorems hold for every axis length n1,n2,n3 ≥ 1, every commutative domain K with primitive roots, every
  spectator size — no bounds.  Obligations are listed in harness/props/c09.py.
-/
import NiftyVerif.Lemmas.HarmonicInstance
import NiftyVerif.Lemmas.HarmonicVolume
import NiftyVerif.Lemmas.HarmonicSmooth
import NiftyVerif.Lemmas.HarmonicCoo
import NiftyVerif.Lemmas.HarmonicSHT

namespace NiftyVerif.C09
open NiftyVerif.Harmonic Finset

variable {K : Type} [CommRing K]

/-- F Fᴴ = n·1 for the unnormalised DFT matrix of a primitive n-th root -/
theorem dft_orthogonal [IsDomain K] (w wb : K) (n : Nat) (h : IsPrimitiveRoot w n) (hb : w * wb = 1)
    (k l : Nat) (hk : k < n) (hl : l < n) :
    sumTo n (fun j => dftMat w k j * dftMat wb j l) = if k = l then (n : K) else 0 := by
  rw [sumTo_eq_sum]; exact dft_orth w wb n h hb k l hk hl

/-- non-vacuity: ω = -i is a primitive 4th root of unity in ℂ; row 1 of F against column 1 of F̄ gives 4 -/
example : sumTo 4 (fun j => dftMat (-Complex.I) 1 j * dftMat Complex.I j 1) = ((4 : ℕ) : ℂ) := by
  have := dft_orthogonal (-Complex.I) Complex.I 4 prim_negI (by simp) 1 1 (by decide) (by decide)
  simpa using this

/-- the zero mode of the transform of a position-space field is its integral Σ x·dvol
    (TIMES on a position-space domain; INVERSE_TIMES when the operator's domain is the harmonic one) -/
theorem fft_zero_mode_is_integral (g : Grid K) (dvolD dvolT : K) (x : Tensor K) (p q : Nat) :
    fftApply g false dvolD dvolT 1 x ⟨p, 0, 0, 0, q⟩ = gridSum g p q (fun i => x i * dvolD)
    ∧ fftApply g true dvolD dvolT 4 x ⟨p, 0, 0, 0, q⟩ = gridSum g p q (fun i => x i * dvolT) := by
  obtain ⟨c1, _, _, _, _, _, c7, _⟩ := fftApply_cases g dvolD dvolT x
  rw [c1, c7]
  exact ⟨posBranch_zero g dvolD x p q, posBranch_zero g dvolT x p q⟩

/-- non-vacuity (no hypotheses): instance on the 4×2×1 grid over ℂ with a non-constant field -/
example : fftApply gridC false (1 / 4) (1 / 2) 1 xC ⟨1, 0, 0, 0, 2⟩ = gridSum gridC 1 2 (fun i => xC i * (1 / 4)) :=
  (fft_zero_mode_is_integral gridC (1 / 4) (1 / 2) xC 1 2).1

/-- the four code formulas are T, Tᴴ, T⁻¹, T⁻ᴴ of ONE T (= mode 1), given dvol_t·dvol_d·ncells = 1 -/
theorem fft_modes_consistent [IsDomain K] (g : Grid K) (hg : GridOK g) (dh : Bool) (dvolD dvolT : K)
    (hv : dvolT * dvolD * (g.ncells : K) = 1)
    (σ : K →+* K) (hσ : ConjOK σ g) (hσD : σ dvolD = dvolD) (hσT : σ dvolT = dvolT)
    (x y : Tensor K) (P Q : Nat) :
    -- mode 4 is the inverse of mode 1 (both sides)
    (∀ i, InBox g i → fftApply g dh dvolD dvolT 4 (fftApply g dh dvolD dvolT 1 x) i = x i)
    ∧ (∀ i, InBox g i → fftApply g dh dvolD dvolT 1 (fftApply g dh dvolD dvolT 4 x) i = x i)
    -- mode 8 is the inverse of mode 2 (both sides)
    ∧ (∀ i, InBox g i → fftApply g dh dvolD dvolT 8 (fftApply g dh dvolD dvolT 2 x) i = x i)
    ∧ (∀ i, InBox g i → fftApply g dh dvolD dvolT 2 (fftApply g dh dvolD dvolT 8 x) i = x i)
    -- mode 2 is the adjoint of mode 1, mode 8 the adjoint of mode 4:  ⟨y, A x⟩ = ⟨Aᴴ y, x⟩
    ∧ boxSum P g Q (fun i => σ (y i) * fftApply g dh dvolD dvolT 1 x i)
        = boxSum P g Q (fun i => σ (fftApply g dh dvolD dvolT 2 y i) * x i)
    ∧ boxSum P g Q (fun i => σ (y i) * fftApply g dh dvolD dvolT 4 x i)
        = boxSum P g Q (fun i => σ (fftApply g dh dvolD dvolT 8 y i) * x i) := by
  have hv' : dvolD * dvolT * (g.ncells : K) = 1 := by rw [mul_comm dvolD dvolT]; exact hv
  have cs := fun z => fftApply_cases g dvolD dvolT z
  simp only [boxSum_eq]
  cases dh
  · refine ⟨fun i hi => ?_, fun i hi => ?_, fun i hi => ?_, fun i hi => ?_, ?_, ?_⟩
    · rw [(cs x).1, (cs _).2.2.1]; exact harm_pos g hg _ _ hv' x i hi
    · rw [(cs x).2.2.1, (cs _).1]; exact pos_harm g hg _ _ hv x i hi
    · rw [(cs x).2.1, (cs _).2.2.2.1]; exact pos_harm g hg _ _ hv' x i hi
    · rw [(cs x).2.2.2.1, (cs _).2.1]; exact harm_pos g hg _ _ hv x i hi
    · rw [(cs x).1, (cs y).2.1]; exact pos_adjoint P Q g hg σ hσ dvolD hσD x y
    · rw [(cs x).2.2.1, (cs y).2.2.2.1]; exact harm_adjoint P Q g hg σ hσ dvolT hσT x y
  · refine ⟨fun i hi => ?_, fun i hi => ?_, fun i hi => ?_, fun i hi => ?_, ?_, ?_⟩
    · rw [(cs x).2.2.2.2.1, (cs _).2.2.2.2.2.2.1]; exact pos_harm g hg _ _ hv' x i hi
    · rw [(cs x).2.2.2.2.2.2.1, (cs _).2.2.2.2.1]; exact harm_pos g hg _ _ hv x i hi
    · rw [(cs x).2.2.2.2.2.1, (cs _).2.2.2.2.2.2.2]; exact harm_pos g hg _ _ hv' x i hi
    · rw [(cs x).2.2.2.2.2.2.2, (cs _).2.2.2.2.2.1]; exact pos_harm g hg _ _ hv x i hi
    · rw [(cs x).2.2.2.2.1, (cs y).2.2.2.2.2.1]; exact harm_adjoint P Q g hg σ hσ dvolD hσD x y
    · rw [(cs x).2.2.2.2.2.2.1, (cs y).2.2.2.2.2.2.2]; exact pos_adjoint P Q g hg σ hσ dvolT hσT x y

/-- non-vacuity: the 4×2×1 grid over ℂ (ω = -i, -1, 1), dvol_d = 1/4, dvol_t = 1/2, 8 cells: 1/2·1/4·8 = 1;
    conjugation = complex conjugation -/
example (x : Tensor ℂ) (i : Idx) (hi : InBox gridC i) :
    fftApply gridC false (1 / 4) (1 / 2) 4 (fftApply gridC false (1 / 4) (1 / 2) 1 x) i = x i :=
  (fft_modes_consistent gridC gridC_ok false (1 / 4) (1 / 2) (by simp [gridC, Grid.ncells]; norm_num)
    (starRingEnd ℂ) gridC_conj (by simp [map_ofNat]) (by simp [map_ofNat]) x x 1 1).1 i hi

/-- the Hartley matrix is symmetric and real, both conventions -/
theorem hartley_symmetric (s : Scal K) (σ : K →+* K) (hs : ScalOK s σ) (w wb : K) (hw : σ w = wb) (hwb : σ wb = w)
    (c : Bool) (k j : Nat) :
    hartleyMat s w wb c k j = hartleyMat s w wb c j k
    ∧ σ (hartleyMat s w wb c k j) = hartleyMat s w wb c k j := by
  constructor
  · unfold hartleyMat; rw [dftMat_symm w k j, dftMat_symm wb k j]
  · unfold hartleyMat
    cases c <;>
      simp only [if_true, if_false, Bool.false_eq_true, map_mul, map_add, map_sub, map_one, map_neg,
        conj_half s σ hs, hs.conjI, conj_dftMat σ w wb hw, conj_dftMat σ wb w hwb] <;> ring

/-- non-vacuity: ℂ with i, 1/2 and complex conjugation -/
example : hartleyMat scalC (-Complex.I) Complex.I true 1 3 = hartleyMat scalC (-Complex.I) Complex.I true 3 1 :=
  (hartley_symmetric scalC (starRingEnd ℂ) scalC_ok (-Complex.I) Complex.I (by simp) (by simp) true 1 3).1

/-- the code's Hartley (Re F ± Im F of the FFT, `hartley3`) on real input is, for a one-axis grid, the product
    with `hartleyMat` (multi-axis: it is a·F + b·F̄ of the multi-axis FFT, see `hartley3_eq` in Lemmas) -/
theorem hartley_is_matrix (s : Scal K) (σ : K →+* K) (hs : ScalOK s σ) (g : Grid K) (hσ : ConjOK σ g) (c : Bool)
    (x : Tensor K) (hx : IsReal σ x) (i : Idx) (h2 : g.n2 = 1) (h3 : g.n3 = 1) (hi : i.j2 = 0 ∧ i.j3 = 0) :
    hartley3 s g c x i = sumTo g.n1 (fun j => hartleyMat s g.w1 g.wb1 c i.j1 j * x (i.set1 j)) := by
  rw [hartley3_eq s σ hs g hσ c x hx, sumTo_eq_sum]
  unfold F3 Fb3
  beta_reduce
  rw [h2, h3, tr3_one_axis g.n1 _ _ _ (dftMat_zero _ _) (dftMat_zero _ _) x i hi.1 hi.2,
    tr3_one_axis g.n1 _ _ _ (dftMat_zero _ _) (dftMat_zero _ _) x i hi.1 hi.2]
  rw [Finset.mul_sum, Finset.mul_sum, ← Finset.sum_add_distrib]
  refine Finset.sum_congr rfl (fun j _ => ?_)
  unfold hartleyMat hA hB
  ring

/-- non-vacuity: a one-axis grid of length 4 over ℂ -/
example : ∃ g : Grid ℂ, ConjOK (starRingEnd ℂ) g ∧ g.n1 = 4 ∧ g.n2 = 1 ∧ g.n3 = 1 :=
  ⟨{ gridC with n2 := 1, w2 := 1, wb2 := 1 },
    ⟨fun z => Complex.conj_conj z, by simp [gridC], by simp, by simp [gridC], by simp [gridC, map_ofNat]⟩, rfl, rfl, rfl⟩

/-- H² = n·1 (matrix form, one axis), both sign conventions -/
theorem hartley_involutive_up_to_n [IsDomain K] (s : Scal K) (σ : K →+* K) (hs : ScalOK s σ) (w wb : K) (n : Nat)
    (h : IsPrimitiveRoot w n) (hb : w * wb = 1) (c : Bool) (k l : Nat) (hk : k < n) (hl : l < n) :
    sumTo n (fun j => hartleyMat s w wb c k j * hartleyMat s w wb c j l) = if k = l then (n : K) else 0 := by
  rw [sumTo_eq_sum]
  have hb' : wb * w = 1 := by rw [mul_comm]; exact hb
  have e : ∀ j, hartleyMat s w wb c k j * hartleyMat s w wb c j l
      = hA s c * hA s c * (dftMat w k j * dftMat w j l) + hB s c * hB s c * (dftMat wb k j * dftMat wb j l)
        + hA s c * hB s c * (dftMat w k j * dftMat wb j l) + hA s c * hB s c * (dftMat wb k j * dftMat w j l) := by
    intro j; unfold hartleyMat hA hB; ring
  simp only [e, Finset.sum_add_distrib, ← Finset.mul_sum]
  rw [dft_sq w n h k l, dft_sq wb n (prim_bar w wb n h hb) k l, dft_orth w wb n h hb k l hk hl,
    dft_orth wb w n (prim_bar w wb n h hb) hb' k l hk hl]
  have h1 := hAB_sq s σ hs c
  have h2 := hAB_two s σ hs c
  by_cases e1 : n ∣ k + l <;> by_cases e2 : k = l
  · rw [if_pos e1, if_pos e2]; linear_combination (n : K) * h1 + (n : K) * h2
  · rw [if_pos e1, if_neg e2]; linear_combination (n : K) * h1
  · rw [if_neg e1, if_pos e2]; linear_combination (n : K) * h2
  · rw [if_neg e1, if_neg e2]; ring

/-- non-vacuity: n = 4, ω = -i in ℂ, canonical convention, diagonal entry -/
example : sumTo 4 (fun j => hartleyMat scalC (-Complex.I) Complex.I false 2 j
    * hartleyMat scalC (-Complex.I) Complex.I false j 2) = ((4 : ℕ) : ℂ) := by
  have := hartley_involutive_up_to_n scalC (starRingEnd ℂ) scalC_ok (-Complex.I) Complex.I 4 prim_negI (by simp)
    false 2 2 (by decide) (by decide)
  simpa using this

/-- H² = ncells·1 for the code's multi-axis Hartley on real tensors (1-3 axes, any spectators), both conventions -/
theorem hartley3_involutive_up_to_n [IsDomain K] (s : Scal K) (σ : K →+* K) (hs : ScalOK s σ) (g : Grid K)
    (hg : GridOK g) (hσ : ConjOK σ g) (c : Bool) (x : Tensor K) (hx : IsReal σ x) (i : Idx) (hi : InBox g i) :
    hartley3 s g c (hartley3 s g c x) i = (g.ncells : K) * x i :=
  hartley3_twice s σ hs g hg hσ c x hx i hi

/-- non-vacuity: 4×2×1 grid over ℂ, a real non-constant tensor, both conventions -/
example (c : Bool) (i : Idx) (hi : InBox gridC i) :
    hartley3 scalC gridC c (hartley3 scalC gridC c xC) i = (gridC.ncells : ℂ) * xC i :=
  hartley3_involutive_up_to_n scalC (starRingEnd ℂ) scalC_ok gridC gridC_ok gridC_conj c xC xC_real i hi

/-- HartleyOperator: modes 1,2 coincide (H real symmetric), modes 4,8 coincide, mode 4 inverts mode 1,
    and the operator is self-adjoint w.r.t. the bilinear pairing on real tensors -/
theorem hartley_modes_consistent [IsDomain K] (s : Scal K) (σ : K →+* K) (hs : ScalOK s σ) (g : Grid K)
    (hg : GridOK g) (hσ : ConjOK σ g) (c : Bool) (dvolD dvolT : K) (hv : dvolT * dvolD * (g.ncells : K) = 1)
    (hσD : σ dvolD = dvolD) (hσT : σ dvolT = dvolT)
    (x y : Tensor K) (hx : IsReal σ x) (hy : IsReal σ y) (P Q : Nat) :
    hartleyCartesian s g c dvolD dvolT 2 x = hartleyCartesian s g c dvolD dvolT 1 x
    ∧ hartleyCartesian s g c dvolD dvolT 8 x = hartleyCartesian s g c dvolD dvolT 4 x
    ∧ (∀ i, InBox g i → hartleyCartesian s g c dvolD dvolT 4 (hartleyCartesian s g c dvolD dvolT 1 x) i = x i)
    ∧ (∀ i, InBox g i → hartleyCartesian s g c dvolD dvolT 1 (hartleyCartesian s g c dvolD dvolT 4 x) i = x i)
    ∧ boxSum P g Q (fun i => y i * hartleyCartesian s g c dvolD dvolT 1 x i)
        = boxSum P g Q (fun i => hartleyCartesian s g c dvolD dvolT 2 y i * x i)
    ∧ boxSum P g Q (fun i => y i * hartleyCartesian s g c dvolD dvolT 4 x i)
        = boxSum P g Q (fun i => hartleyCartesian s g c dvolD dvolT 8 y i * x i) := by
  have m1 : ((1 : Nat) &&& 3 != 0) = true := by decide
  have m2 : ((2 : Nat) &&& 3 != 0) = true := by decide
  have m4 : ((4 : Nat) &&& 3 != 0) = false := by decide
  have m8 : ((8 : Nat) &&& 3 != 0) = false := by decide
  have scal : ∀ (d e : K) (hd : σ d = d) (z : Tensor K), IsReal σ z → ∀ i, InBox g i →
      hartley3 s g c (fun i => hartley3 s g c z i * d) i * e = (d * e * (g.ncells : K)) * z i := by
    intro d e hd z hz i hi
    have hr : IsReal σ (fun i => hartley3 s g c z i * d) := by
      intro i; rw [map_mul, hd, hartley3_real s σ hs g hσ c z hz i]
    rw [hartley3_eq s σ hs g hσ c _ hr, hartley3_eq s σ hs g hσ c z hz]
    have e' : (fun i => (hA s c * F3 g z i + hB s c * Fb3 g z i) * d)
        = fun i => (d * hA s c) * F3 g z i + (d * hB s c) * Fb3 g z i := by funext i; ring
    simp only [e', F3_add, Fb3_add, F3_smul, Fb3_smul]
    rw [F3_F3 g hg z i hi, Fb3_Fb3 g hg z i hi, F3_Fb3 g hg z i hi, Fb3_F3 g hg z i hi]
    linear_combination (d * e * (g.ncells : K) * z (negIdx g i)) * hAB_sq s σ hs c
      + (d * e * (g.ncells : K) * z i) * hAB_two s σ hs c
  simp only [boxSum_eq]
  refine ⟨?_, ?_, fun i hi => ?_, fun i hi => ?_, ?_, ?_⟩
  · unfold hartleyCartesian; simp only [m1, m2]
  · unfold hartleyCartesian; simp only [m4, m8]
  · unfold hartleyCartesian; simp only [m1, m4, if_true, if_false, Bool.false_eq_true]
    rw [scal dvolD dvolT hσD x hx i hi]
    linear_combination (x i) * hv
  · unfold hartleyCartesian; simp only [m1, m4, if_true, if_false, Bool.false_eq_true]
    rw [scal dvolT dvolD hσT x hx i hi]
    linear_combination (x i) * hv
  · unfold hartleyCartesian; simp only [m1, m2, if_true]
    have := hartley3_transpose P Q s σ hs g hσ c x y hx hy
    have l : ∀ i, y i * (hartley3 s g c x i * dvolD) = dvolD * (y i * hartley3 s g c x i) := by intro i; ring
    have r : ∀ i, hartley3 s g c y i * dvolD * x i = dvolD * (hartley3 s g c y i * x i) := by intro i; ring
    simp only [l, r, ← Finset.mul_sum, this]
  · unfold hartleyCartesian; simp only [m4, m8, if_false, Bool.false_eq_true]
    have := hartley3_transpose P Q s σ hs g hσ c x y hx hy
    have l : ∀ i, y i * (hartley3 s g c x i * dvolT) = dvolT * (y i * hartley3 s g c x i) := by intro i; ring
    have r : ∀ i, hartley3 s g c y i * dvolT * x i = dvolT * (hartley3 s g c y i * x i) := by intro i; ring
    simp only [l, r, ← Finset.mul_sum, this]

/-- non-vacuity: same instance, dvol_d = 1/4, dvol_t = 1/2 -/
example (c : Bool) (i : Idx) (hi : InBox gridC i) :
    hartleyCartesian scalC gridC c (1 / 4) (1 / 2) 4 (hartleyCartesian scalC gridC c (1 / 4) (1 / 2) 1 xC) i = xC i :=
  (hartley_modes_consistent scalC (starRingEnd ℂ) scalC_ok gridC gridC_ok gridC_conj c (1 / 4) (1 / 2)
    (by simp [gridC, Grid.ncells]; norm_num) (by simp [map_ofNat]) (by simp [map_ofNat]) xC xC xC_real xC_real 1 1).2.2.1 i hi

/-- complex input: the code's split H(Re x) + i·H(Im x) is the complex-linear extension of the real map:
    multiplying the input by i (xr + i·xi ↦ -xi + i·xr) multiplies the output by i, and input with zero
    imaginary part gives the real transform -/
theorem hartley_complex_split (s : Scal K) (σ : K →+* K) (hs : ScalOK s σ) (g : Grid K) (c : Bool) (dvolD dvolT : K)
    (mode : Nat) (xr xi : Tensor K) (i : Idx) :
    hartleyApplyComplex s g c dvolD dvolT mode (fun j => -xi j) xr i
      = s.I * hartleyApplyComplex s g c dvolD dvolT mode xr xi i
    ∧ hartleyApplyComplex s g c dvolD dvolT mode xr (fun _ => 0) i
      = hartleyCartesian s g c dvolD dvolT mode xr i := by
  have neg : ∀ z : Tensor K, hartley3 s g c (fun j => -z j) i = -hartley3 s g c z i := by
    intro z
    have e : (fun j => -z j) = fun j => (-1 : K) * z j := by funext j; ring
    unfold hartley3 Scal.re Scal.im
    simp only [fftn3_eq, e, F3_smul, hs.conj, map_mul, map_neg, map_one]
    cases c <;> simp only [if_true, if_false, Bool.false_eq_true] <;> ring
  have zero : hartley3 s g c (fun _ => (0 : K)) i = 0 := by
    have hz : F3 g (fun _ => (0 : K)) i = 0 := by
      have := congrFun (F3_smul g 0 (fun _ => (0 : K))) i
      simp only [zero_mul] at this
      exact this
    unfold hartley3 Scal.re Scal.im
    simp only [fftn3_eq, hz, hs.conj, map_zero]
    cases c <;> simp only [if_true, if_false, Bool.false_eq_true] <;> ring
  unfold hartleyApplyComplex hartleyCartesian
  constructor
  · rw [neg xi]
    linear_combination (-(hartley3 s g c xi i * (if mode &&& 3 != 0 then dvolD else dvolT))) * hs.II
  · rw [zero]; ring

/-- non-vacuity: ℂ instance (only ScalOK is needed) -/
example (i : Idx) : hartleyApplyComplex scalC gridC true (1 / 4) (1 / 2) 1 xC (fun _ => 0) i
    = hartleyCartesian scalC gridC true (1 / 4) (1 / 2) 1 xC i :=
  (hartley_complex_split scalC (starRingEnd ℂ) scalC_ok gridC true (1 / 4) (1 / 2) 1 xC (fun _ => 0) i).2

/-- smoothing with σ = 0 is the identity (the code's shortcut), and the general formula H⁻¹ diag(k) H with the
    kernel value exp(0) = 1 everywhere is the identity too (so the shortcut is consistent with the formula) -/
theorem smoothing_sigma0_id [IsDomain K] (s : Scal K) (σ : K →+* K) (hs : ScalOK s σ) (g : Grid K) (hg : GridOK g)
    (hσ : ConjOK σ g) (c : Bool) (dvolD dvolT : K) (hv : dvolT * dvolD * (g.ncells : K) = 1)
    (hσD : σ dvolD = dvolD) (hσT : σ dvolT = dvolT) (kern : Tensor K) (x : Tensor K) (hx : IsReal σ x) :
    smoothApply s g c dvolD dvolT true kern x = x
    ∧ (∀ i, InBox g i → smoothApply s g c dvolD dvolT false (fun _ => 1) x i = x i) := by
  constructor
  · simp only [smoothApply, if_true]
  · intro i hi
    simp only [smoothApply, Bool.false_eq_true, if_false, one_mul]
    exact (hartley_modes_consistent s σ hs g hg hσ c dvolD dvolT hv hσD hσT x x hx hx 0 0).2.2.1 i hi


/-- non-vacuity: ℂ instance -/
example (i : Idx) (hi : InBox gridC i) : smoothApply scalC gridC true (1 / 4) (1 / 2) false (fun _ => 1) xC i = xC i :=
  (smoothing_sigma0_id scalC (starRingEnd ℂ) scalC_ok gridC gridC_ok gridC_conj true (1 / 4) (1 / 2)
    (by simp [gridC, Grid.ncells]; norm_num) (by simp [map_ofNat]) (by simp [map_ofNat]) (fun _ => 1) xC xC_real).2 i hi
/-- the code's volume logic (rg_space.py: distances of the harmonic partner are 1/(n·d), scalar_dvol is the product
    of the distances) discharges the hypothesis `dvol_t·dvol_d·ncells = 1` of the mode theorems, for every RGSpace of
    any dimension with positive axis lengths and non-zero distances -/
theorem rg_dvol_product (dims : List (Nat × Rat)) (h : ∀ nd ∈ dims, 0 < nd.1 ∧ nd.2 ≠ 0) :
    rgDvol true dims * rgDvol false dims * (rgCells dims : Rat) = 1 :=
  rgDvol_product dims h

/-- non-vacuity: a 4×2 grid with distances 1/2, 3/4 -/
example : rgDvol true [(4, 1/2), (2, 3/4)] * rgDvol false [(4, 1/2), (2, 3/4)] * ((4 * (2 * 1) : Nat) : Rat) = 1 :=
  rg_dvol_product [(4, 1/2), (2, 3/4)] (by
    intro nd hnd
    simp only [List.mem_cons, List.not_mem_nil, or_false] at hnd
    rcases hnd with rfl | rfl <;> norm_num)

/-- HarmonicSmoothingOperator is the documented convolution: for every even real kernel k (k(-j) = k(j) on the grid)
    the code's Hartley-based formula H⁻¹ diag(k) H equals F⁻¹ diag(k) F = ifftn(k · fftn(x)), for all axis lengths,
    both Hartley conventions; and every kernel that is a function of the k-length array of the code
    (`get_k_length_array`, e.g. the Gaussian exp(-2π²σ²k²)) is even. -/
theorem smoothing_is_fourier_convolution [IsDomain K] (s : Scal K) (σ : K →+* K) (hs : ScalOK s σ) (g : Grid K)
    (hg : GridOK g) (hσ : ConjOK σ g) (c : Bool) (dvolD dvolT : K) (hv : dvolT * dvolD * (g.ncells : K) = 1)
    (hσD : σ dvolD = dvolD) (x : Tensor K) (hx : IsReal σ x) (i : Idx) :
    (∀ k : Tensor K, IsReal σ k → IsEven g k →
      smoothApply s g c dvolD dvolT false k x i = ifftn3 g (fun j => k j * fftn3 g x j) i)
    ∧ (∀ (h1 h2 h3 : Rat) (f : Rat → K), (∀ r, σ (f r) = f r) →
      smoothApply s g c dvolD dvolT false (fun j => f (kSq g.n1 g.n2 g.n3 h1 h2 h3 j)) x i
        = ifftn3 g (fun j => f (kSq g.n1 g.n2 g.n3 h1 h2 h3 j) * fftn3 g x j) i) := by
  refine ⟨fun k hkr hk => smooth_eq_fourier s σ hs g hg hσ c dvolD dvolT hv hσD k hkr hk x hx i, ?_⟩
  intro h1 h2 h3 f hf
  exact smooth_eq_fourier s σ hs g hg hσ c dvolD dvolT hv hσD _ (fun j => hf _)
    (kernel_of_kSq_even g h1 h2 h3 f) x hx i

/-- non-vacuity: ℂ instance with the kernel 1/(1 + k²) of the k-lengths (harmonic distances 1/2, 1, 1) -/
example (i : Idx) :
    smoothApply scalC gridC true (1 / 4) (1 / 2) false (fun j => ((1 / (1 + kSq 4 2 1 (1/2) 1 1 j) : ℚ) : ℂ)) xC i
      = ifftn3 gridC (fun j => ((1 / (1 + kSq 4 2 1 (1/2) 1 1 j) : ℚ) : ℂ) * fftn3 gridC xC j) i :=
  (smoothing_is_fourier_convolution scalC (starRingEnd ℂ) scalC_ok gridC gridC_ok gridC_conj true (1 / 4) (1 / 2)
    (by simp [gridC, Grid.ncells]; norm_num) (by simp [map_ofNat]) xC xC_real i).2 (1/2) 1 1
    (fun r => ((1 / (1 + r) : ℚ) : ℂ)) (fun r => by simp)

/-- sub-space transforms are Kronecker embeddings (connection to C02's `Coo.onAxis`): on a flat row-major array of a
    product domain with `P` cells before, `Q` cells after the transformed RGSpace (n1×n2×n3), the code's `fftn` over the
    axes of the space is the composition of `onAxis` of the three 1-D DFT matrices; and for a one-axis space the
    code's Hartley transform (real input) is `onAxis P Q` of the Hartley matrix. -/
theorem subspace_transform_onAxis (g : Grid K) (P Q : Nat) (x : Nat → K) (a j1 j2 j3 b : Nat)
    (ha : a < P) (h1 : j1 < g.n1) (h2 : j2 < g.n2) (h3 : j3 < g.n3) (hb : b < Q) :
    fftn3 g (flatTensor g.n1 g.n2 g.n3 Q x) ⟨a, j1, j2, j3, b⟩
      = Coo.apply (Coo.onAxis (P * g.n1 * g.n2) Q (dftCoo g.w3 g.n3))
          (Coo.apply (Coo.onAxis (P * g.n1) (g.n3 * Q) (dftCoo g.w2 g.n2))
            (Coo.apply (Coo.onAxis P (g.n2 * g.n3 * Q) (dftCoo g.w1 g.n1)) x))
          ((((a * g.n1 + j1) * g.n2 + j2) * g.n3 + j3) * Q + b) := by
  rw [fftn3_eq]
  exact tr3_onAxis P g.n1 g.n2 g.n3 Q _ _ _ x a j1 j2 j3 b ha h1 h2 h3 hb

theorem subspace_hartley_onAxis (s : Scal K) (σ : K →+* K) (hs : ScalOK s σ) (g : Grid K) (hσ : ConjOK σ g) (c : Bool)
    (hn2 : g.n2 = 1) (hn3 : g.n3 = 1) (P Q : Nat) (x : Nat → K) (hx : ∀ k, σ (x k) = x k) (a r b : Nat)
    (ha : a < P) (hr : r < g.n1) (hb : b < Q) :
    hartley3 s g c (flatTensor g.n1 1 1 Q x) ⟨a, r, 0, 0, b⟩
      = Coo.apply (Coo.onAxis P Q (hartleyCoo s g.w1 g.wb1 c g.n1)) x ((a * g.n1 + r) * Q + b) := by
  have hreal : IsReal σ (flatTensor g.n1 1 1 Q x) := fun i => hx _
  rw [hartley_is_matrix s σ hs g hσ c (flatTensor g.n1 1 1 Q x) hreal ⟨a, r, 0, 0, b⟩ hn2 hn3 ⟨rfl, rfl⟩, sumTo_eq_sum]
  have := axis1_onAxis P g.n1 1 1 Q (hartleyMat s g.w1 g.wb1 c) x a r 0 0 b ha hr (by decide) (by decide) hb
  simp only [Nat.mul_one, Nat.add_zero, Nat.one_mul] at this
  unfold hartleyCoo
  rw [← this]
  rfl

/-- non-vacuity: the 4×2×1 grid over ℂ inside a product domain with 3 cells before and 5 after -/
example (x : Nat → ℂ) :
    fftn3 gridC (flatTensor 4 2 1 5 x) ⟨2, 3, 1, 0, 4⟩
      = Coo.apply (Coo.onAxis (3 * 4 * 2) 5 (dftCoo 1 1))
          (Coo.apply (Coo.onAxis (3 * 4) (1 * 5) (dftCoo (-1) 2))
            (Coo.apply (Coo.onAxis 3 (2 * 1 * 5) (dftCoo (-Complex.I) 4)) x))
          ((((2 * 4 + 3) * 2 + 1) * 1 + 0) * 5 + 4) :=
  subspace_transform_onAxis gridC 3 5 x 2 3 1 0 4 (by decide) (by decide) (by decide) (by decide) (by decide)

/-- SHTOperator: `adjoint_times` (`_slice_p2h`) is the plain transpose of `times` (`_slice_h2p`), for every lmax, mmax,
    pixelisation and all spherical-harmonic values — it only needs √2 = 2·√½ in the re-packing factors -/
theorem sht_adjoint (cfg : ShtCfg K) (h2 : cfg.r2 = cfg.rh + cfg.rh) (x y : Nat → K) :
    ∑ p ∈ range cfg.npix, y p * sliceH2P cfg x p = ∑ idx ∈ range cfg.nreal, sliceP2H cfg y idx * x idx :=
  sht_adjoint_lemma cfg h2 x y

/-- non-vacuity: lmax = 1, mmax = 1, 4 pixels over ℚ -/
example (x y : Nat → ℚ) : ∑ p ∈ range 4, y p * sliceH2P shtQ x p = ∑ idx ∈ range 4, sliceP2H shtQ y idx * x idx :=
  sht_adjoint shtQ (by norm_num [shtQ]) x y

/-- documented normalisation (nifty_cl_volume.rst): with pixel volumes under which the real harmonics are orthonormal,
    transforming a weighted field forth and back multiplies by c² = 1/(4π); and a unit monopole coefficient
    synthesises a field of integral 1 (Y_00 = c, total volume V with c²V = 1, i.e. V = 4π) -/
theorem sht_normalisation (cfg : ShtCfg K) (h2 : cfg.r2 = cfg.rh + cfg.rh) (vol : Nat → K) :
    ((∀ a b, a < cfg.nreal → b < cfg.nreal →
        ∑ p ∈ range cfg.npix, vol p * cfg.R a p * cfg.R b p = if b = a then 1 else 0) →
      ∀ (x : Nat → K) (idx : Nat), idx < cfg.nreal →
        sliceP2H cfg (fun p => vol p * sliceH2P cfg x p) idx = cfg.c * cfg.c * x idx)
    ∧ (∀ V : K, 0 < cfg.L → (∀ p, p < cfg.npix → cfg.yre 0 p = cfg.c) → ∑ p ∈ range cfg.npix, vol p = V →
        cfg.c * cfg.c * V = 1 →
        ∑ p ∈ range cfg.npix, vol p * sliceH2P cfg (fun idx => if idx = 0 then 1 else 0) p = 1) :=
  ⟨fun horth x idx hidx => sht_roundtrip_lemma cfg h2 vol horth x idx hidx,
   fun V hL hY hV hc => sht_monopole_lemma cfg h2 hL vol V hY hV hc⟩

/-- non-vacuity: the ℚ instance satisfies the orthonormality hypothesis (unit volumes) -/
example (x : Nat → ℚ) : sliceP2H shtQ (fun p => 1 * sliceH2P shtQ x p) 3 = shtQ.c * shtQ.c * x 3 :=
  (sht_normalisation shtQ (by norm_num [shtQ]) (fun _ => 1)).1 shtQ_orth x 3 (by decide)

end NiftyVerif.C09
