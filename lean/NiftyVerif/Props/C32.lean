/-
  C32 — HMC and NUTS: reversible volume-preserving dynamics, invariant target.

  Proved here, for the model of `leapfrog_step` / `generate_hmc_acc_rej` in `Model/Hmc.lean`:
    * time reversibility of the leapfrog integrator for EVERY force field `∇U : V → V`, every step size, every odd
      `∇K` (in the code `∇K(p) = M⁻¹ p`, linear), one step and any number of steps; negative step = inverse
      (what NUTS uses to grow the tree to the left);
    * the factorisation into three shears, each a bijection ⇒ the step is a bijection of phase space;
    * determinant 1 of the product of the three block-triangular Jacobian factors, and, for linear forces, that this
      product *is* the leapfrog map;
    * Metropolis: for an involutive proposal on a finite state space, acceptance `min(1, π(Tz)/π(z))` satisfies
      detailed balance and leaves `π` invariant; the code's `min(1, exp(E(z) − E(Tz)))` is that acceptance for `π = exp(−E)`;
    * NUTS weight bookkeeping: folding `logaddexp` over leaf weights gives `log Σ exp`; progressive sampling keeps each
      leaf with probability proportional to its weight.
  NOT proved: invariance of the full NUTS transition (tested by long chains in the harness, labelled a test).
-/
import NiftyVerif.Lemmas.Hmc
import NiftyVerif.Lemmas.HmcSlots
import NiftyVerif.Lemmas.HmcVolume
import NiftyVerif.Lemmas.HmcProgressive
import NiftyVerif.Lemmas.HmcChain
import Mathlib.MeasureTheory.Measure.Lebesgue.Basic

namespace NiftyVerif.C32
open NiftyVerif.Hmc

section leapfrog
variable {K V : Type} [Field K] [AddCommGroup V] [Module K V]
variable (gradU gradK : V → V) (ε : K)

/-- **leapfrog_shear_factorisation**: the step is kick ∘ drift ∘ kick -/
theorem leapfrog_shear_factorisation (z : QP V) :
    leapfrog gradU gradK ε z = kick gradU ε (drift gradK ε (kick gradU ε z)) := rfl

/-- each shear has an explicit inverse (same shear, negated step) -/
theorem kick_inverse (z : QP V) : kick gradU (-ε) (kick gradU ε z) = z ∧ kick gradU ε (kick gradU (-ε) z) = z :=
  ⟨kick_neg_kick gradU ε z, by simpa using kick_neg_kick gradU (-ε) z⟩

theorem drift_inverse (z : QP V) : drift gradK (-ε) (drift gradK ε z) = z ∧ drift gradK ε (drift gradK (-ε) z) = z :=
  ⟨drift_neg_drift gradK ε z, by simpa using drift_neg_drift gradK (-ε) z⟩

/-- **negative step = inverse** (no assumption on `∇U`, `∇K` at all) -/
theorem leapfrog_neg_step_inverse (z : QP V) :
    leapfrog gradU gradK (-ε) (leapfrog gradU gradK ε z) = z := by
  simp only [leapfrog_shear_factorisation, kick_neg_kick, drift_neg_drift]

/-- hence the step is a bijection of phase space -/
theorem leapfrog_bijective : Function.Bijective (leapfrog gradU gradK ε : QP V → QP V) := by
  refine Function.bijective_iff_has_inverse.mpr ⟨leapfrog gradU gradK (-ε), ?_, ?_⟩
  · intro z; exact leapfrog_neg_step_inverse gradU gradK ε z
  · intro z; simpa using leapfrog_neg_step_inverse gradU gradK (-ε) z

/-- one step, flip, one step = flip (for odd `∇K`) -/
theorem leapfrog_flip_leapfrog (hK : ∀ p, gradK (-p) = -gradK p) (z : QP V) :
    leapfrog gradU gradK ε (flip (leapfrog gradU gradK ε z)) = flip z :=
  leapfrog_flip_leapfrog' gradU gradK ε hK z

/-- **leapfrog_reversible**: `flip (L (flip (L z))) = z` for every `∇U`, step size and odd `∇K` -/
theorem leapfrog_reversible (hK : ∀ p, gradK (-p) = -gradK p) (z : QP V) :
    flip (leapfrog gradU gradK ε (flip (leapfrog gradU gradK ε z))) = z := by
  rw [leapfrog_flip_leapfrog gradU gradK ε hK]; exact flip_flip z

/-- **leapfrog_n_reversible**: the same for any number of steps (the HMC proposal `flip ∘ Lⁿ` is an involution) -/
theorem leapfrog_n_reversible (hK : ∀ p, gradK (-p) = -gradK p) (n : Nat) (z : QP V) :
    flip (leapfrogN gradU gradK ε n (flip (leapfrogN gradU gradK ε n z))) = z := by
  rw [leapfrogN_flip_leapfrogN gradU gradK ε hK n z]; exact flip_flip z

/-- `n` steps backwards undo `n` steps forwards -/
theorem leapfrog_n_neg_step_inverse (n : Nat) (z : QP V) :
    leapfrogN gradU gradK (-ε) n (leapfrogN gradU gradK ε n z) = z := by
  induction n generalizing z with
  | zero => rfl
  | succ n ih =>
    rw [leapfrogN_succ' gradU gradK (-ε) n]
    show leapfrog gradU gradK (-ε) (leapfrogN gradU gradK (-ε) n (leapfrogN gradU gradK ε n (leapfrog gradU gradK ε z))) = z
    rw [ih, leapfrog_neg_step_inverse]

end leapfrog

/-! ## volume preservation: the Jacobian factors -/
section jac
open Matrix
variable {n R : Type} [Fintype n] [DecidableEq n] [CommRing R]

/-- **leapfrog_jacobian_det_one**: with `H₀ = ∇²U(q)`, `H₁ = ∇²U(q')`, `a = ε/2`, the Jacobian of one step is the product
    of three block-triangular matrices with identity diagonal blocks; its determinant is 1 -/
theorem leapfrog_jacobian_det_one (H0 H1 Minv : Matrix n n R) (a ε : R) :
    det (fromBlocks 1 0 (-(a • H1)) 1 * fromBlocks 1 (ε • Minv) 0 1 * fromBlocks 1 0 (-(a • H0)) 1) = 1 := by
  simp [det_mul, det_fromBlocks_zero₁₂, det_fromBlocks_zero₂₁]

/-- for linear forces (`∇U q = H q`, `∇K p = M⁻¹ p`) the leapfrog map IS multiplication with that product, so the block
    matrices above are the Jacobian of what the model computes -/
theorem leapfrog_linear_is_matrix {F : Type} [Field F] (H Minv : Matrix n n F) (ε : F) (q p : n → F) :
    let z' := leapfrog (K := F) (fun q => H *ᵥ q) (fun p => Minv *ᵥ p) ε ⟨q, p⟩
    (fromBlocks 1 0 (-((ε / 2) • H)) 1 * fromBlocks 1 (ε • Minv) 0 1 * fromBlocks 1 0 (-((ε / 2) • H)) 1) *ᵥ Sum.elim q p
      = Sum.elim z'.q z'.p := by
  intro z'
  simp only [z', leapfrog, ← mulVec_mulVec, fromBlocks_mulVec, one_mulVec, zero_mulVec, add_zero, zero_add,
    neg_mulVec, smul_mulVec]
  congr 1 <;> ext i <;> simp [sub_eq_add_neg, add_comm]

end jac

/-! ## volume preservation as a statement about measures -/
section volume
open MeasureTheory
variable {E : Type} [AddCommGroup E] [Module ℝ E] [MeasurableSpace E] [MeasurableAdd₂ E] [MeasurableNeg E]
  [MeasurableConstSMul ℝ E] (μ : Measure E) [SFinite μ] [μ.IsAddRightInvariant]

/-- **leapfrog_volume_preserving**: the leapfrog step (read on the product `E × E`, see `leapfrog_eq_prod`) preserves the
    product of any translation-invariant measure with itself — Lebesgue measure on phase space — for EVERY measurable force
    field `∇U`, every measurable `∇K`, every step size.  No differentiability, no Jacobians. -/
theorem leapfrog_volume_preserving (gradU gradK : E → E) (hU : Measurable gradU) (hK : Measurable gradK) (ε : ℝ) :
    MeasurePreserving (fun z : E × E =>
        let w := leapfrog (K := ℝ) gradU gradK ε ⟨z.1, z.2⟩
        (w.q, w.p)) (μ.prod μ) (μ.prod μ) := by
  have h := leapfrogP_measurePreserving μ gradU gradK hU hK ε
  have e : (fun z : E × E =>
        let w := leapfrog (K := ℝ) gradU gradK ε ⟨z.1, z.2⟩
        (w.q, w.p)) = kickP gradU (ε / 2) ∘ driftP gradK ε ∘ kickP gradU (ε / 2) := by
    funext z
    exact leapfrog_eq_prod gradU gradK ε z.1 z.2
  rw [e]; exact h

/-- the HMC proposal `flip ∘ Lⁿ` preserves the measure as well when it is also invariant under `p ↦ −p` -/
theorem flip_volume_preserving [μ.IsNegInvariant] :
    MeasurePreserving (fun z : E × E => (z.1, -z.2)) (μ.prod μ) (μ.prod μ) :=
  flipP_measurePreserving μ

/-- non-vacuity: Lebesgue measure on ℝ and the quartic force `q ↦ q³` meet all hypotheses -/
example : MeasurePreserving (fun z : ℝ × ℝ =>
        let w := leapfrog (K := ℝ) (fun q : ℝ => q ^ 3) (fun p => p) (1 / 2) ⟨z.1, z.2⟩
        (w.q, w.p)) ((volume : Measure ℝ).prod volume) ((volume : Measure ℝ).prod volume) :=
  leapfrog_volume_preserving volume _ _ (measurable_id.pow_const 3) measurable_id _

end volume

/-! ## Metropolis acceptance -/
section metropolis
variable {S K : Type} [Fintype S] [DecidableEq S] [Field K] [LinearOrder K] [IsStrictOrderedRing K]

/-- **metropolis_detailed_balance**: the probability flux `z → Tz` equals the flux `Tz → z` -/
theorem metropolis_detailed_balance (π : S → K) (hπ : ∀ s, 0 < π s) (T : S → S) (hT : ∀ s, T (T s) = s) (z : S) :
    π z * min 1 (π (T z) / π z) = π (T z) * min 1 (π (T (T z)) / π (T z)) := by
  rw [hT, flux_eq_min π hπ, flux_eq_min π hπ, min_comm]

/-- **metropolis_invariant**: one Metropolis step with an involutive (hence counting-measure preserving) proposal `T`
    and acceptance `a(z) = min(1, π(Tz)/π(z))` leaves `π` invariant: `Σ_z π(z)·P(z → z') = π(z')` -/
theorem metropolis_invariant (π : S → K) (hπ : ∀ s, 0 < π s) (T : S → S) (hT : ∀ s, T (T s) = s) (z' : S) :
    ∑ z, π z * ((if T z = z' then min 1 (π (T z) / π z) else 0)
                + (if z = z' then 1 - min 1 (π (T z) / π z) else 0)) = π z' :=
  metropolis_invariant' π hπ T hT z'

/-- the code's `min(1, exp(E(z) − E(Tz)))` is `min(1, π(Tz)/π(z))` for `π = exp(−E)` -/
theorem transitionProbability_eq (exp : K → K) (hexp : ∀ x y, exp (x - y) = exp x / exp y)
    (E : S → K) (T : S → S) (z : S) :
    transitionProbability exp (E z) (E (T z)) = min 1 (exp (-E (T z)) / exp (-E z)) := by
  have : E z - E (T z) = -E (T z) - -E z := by ring
  simp only [transitionProbability, this, hexp]
  split_ifs with h
  · exact (min_eq_left h).symm
  · exact (min_eq_right (le_of_not_ge h)).symm

end metropolis

/-! ## NUTS weight bookkeeping -/
section weights
open Real

/-- `jnp.logaddexp` -/
noncomputable def logaddexp (a b : ℝ) : ℝ := log (exp a + exp b)

theorem exp_logaddexp (a b : ℝ) : exp (logaddexp a b) = exp a + exp b :=
  exp_log (add_pos (exp_pos a) (exp_pos b))

/-- **logaddexp_weight_total**: adding leaves one by one (`add_single_qp_to_tree`) accumulates `log Σ exp(−H)` -/
theorem logaddexp_weight_total (w0 : ℝ) (ws : List ℝ) :
    exp (ws.foldl logaddexp w0) = exp w0 + (ws.map exp).sum := by
  induction ws generalizing w0 with
  | nil => simp
  | cons w ws ih => rw [List.foldl_cons, ih, exp_logaddexp]; simp [add_assoc]

/-- `merge_trees`: the merged weight is the sum of both sub-tree weights -/
theorem merge_weight (a b : ℝ) : exp (logaddexp b a) = exp a + exp b := by rw [exp_logaddexp, add_comm]

/-- `expit(W − w) = e^W / (e^W + e^w)`: the keep-probability of `add_single_qp_to_tree` -/
theorem expit_keep (W w : ℝ) : 1 / (1 + exp (-(W - w))) = exp W / (exp W + exp w) := by
  have hW := exp_pos W
  have hw := exp_pos w
  rw [neg_sub, exp_sub]
  field_simp

/-- **progressive sampling is multinomial**: if the current candidate is leaf `i` with probability `e^{w_i}/e^{W}`
    (`e^W` the total so far), then after offering a new leaf with weight `w` and keeping with `expit(W − w)`,
    leaf `i` is the candidate with probability `e^{w_i}/(e^W+e^w)` and the new leaf with `e^w/(e^W+e^w)` -/
theorem progressive_sampling_step (W w wi : ℝ) :
    (exp wi / exp W) * (1 / (1 + exp (-(W - w)))) = exp wi / exp (logaddexp W w)
    ∧ 1 - 1 / (1 + exp (-(W - w))) = exp w / exp (logaddexp W w) := by
  have hW := exp_pos W
  have hw := exp_pos w
  rw [expit_keep, exp_logaddexp]
  constructor <;> field_simp
  ring

end weights

/-! ## progressive sampling over a whole sub-tree -/

/-- **progressive_sampling_multinomial**: offering the leaves of a sub-tree one by one with keep-probability
    `expit(W − w)` (`add_single_qp_to_tree`) makes leaf `i` the candidate with probability `e^{w_i}/Σ_j e^{w_j}`, and the
    accumulated log-weight is `log Σ_j e^{w_j}` — for every number of leaves and every weights -/
theorem progressive_sampling_multinomial (w0 : ℝ) (ws : List ℝ) :
    Real.exp (progressive w0 ws).W = ((w0 :: ws).map Real.exp).sum
    ∧ (progressive w0 ws).probs = (w0 :: ws).map (fun wi => Real.exp wi / ((w0 :: ws).map Real.exp).sum) :=
  progressive_multinomial w0 ws

/-- **merge_multinomial** (`bias_transition=False`): merging two multinomially sampled sub-trees keeps the candidate
    multinomial over the union -/
theorem merge_multinomial (Wa Wb wi wj : ℝ) :
    (Real.exp wi / Real.exp Wa) * (1 - 1 / (1 + Real.exp (-(Wb - Wa)))) = Real.exp wi / Real.exp (lae Wa Wb)
    ∧ (Real.exp wj / Real.exp Wb) * (1 / (1 + Real.exp (-(Wb - Wa)))) = Real.exp wj / Real.exp (lae Wa Wb) :=
  merge_unbiased_multinomial Wa Wb wi wj

/-! ## chain statistics -/

/-- **chain_acceptance_is_mean**: the running update `a ← a + (x − a)/(idx+1)` of `update_chain` (HMC: accepted flags,
    NUTS: per-tree acceptance) ends at the arithmetic mean of the per-sample values, for every chain length -/
theorem chain_acceptance_is_mean {K : Type} [Field K] [CharZero K] (xs : List K) (h : xs ≠ []) :
    accRun xs 0 0 = xs.sum / xs.length :=
  Hmc.chain_acceptance_is_mean xs h

/-! ## NUTS slot bookkeeping -/

/-- **nuts_slot_invariant**: in `iterative_build_tree` every even leaf `m` is stored in slot `population_count(m)`; for an
    odd leaf `n` with `l = count_trailing_ones(n)` the slots `i_max_incl - j` (`i_max_incl = population_count(n-1)`, `j < l`)
    that the u-turn loop reads hold — for EVERY `n`, i.e. every tree depth — exactly the left-most leaves
    `n + 1 - 2^(j+1)` of the complete sub-trees of sizes `2, 4, …, 2^l` whose right-most leaf is `n` -/
theorem nuts_slot_invariant (n : Nat) (hn : n % 2 = 1) :
    checkedLeaves n = subtreeLeftLeaves n
    ∧ ∀ j, j < countTrailingOnes n → storeAt (n - 1) (popCount (n - 1) - j) = some (n + 1 - 2 ^ (j + 1)) :=
  ⟨checkedLeaves_eq n hn, slot_invariant n hn⟩

/-- the number of sub-trees checked at leaf `n` is the exponent of the largest power of two dividing `n + 1` -/
theorem nuts_subtree_count (n : Nat) : 2 ^ countTrailingOnes n ∣ n + 1 := pow_cto_dvd n

/-! ## non-vacuity -/

/-- a non-quadratic force on `ℚ` (`U = q⁴/4`), unit mass: two steps forth, flip, two steps, flip returns exactly -/
example : flip (leapfrogN (K := ℚ) (fun q : ℚ => q ^ 3) (fun p => p) (1 / 2) 2
    (flip (leapfrogN (K := ℚ) (fun q : ℚ => q ^ 3) (fun p => p) (1 / 2) 2 ⟨1, 1 / 2⟩))) = ⟨1, 1 / 2⟩ :=
  leapfrog_n_reversible _ _ _ (fun p => by simp) 2 _

/-- and the step really moves: one step from (1, 1/2) with ε = 1/2 -/
example : leapfrog (K := ℚ) (fun q : ℚ => q ^ 3) (fun p => p) (1 / 2) ⟨1, 1 / 2⟩ = ⟨9 / 8, -217 / 2048⟩ := by
  norm_num [leapfrog]

/-- Metropolis hypotheses are satisfiable: two states swapped by `T`, `π = (1, 2)` -/
example : ∑ z : Fin 2, (if z = 0 then (1 : ℚ) else 2) *
      ((if (1 - z) = 0 then min 1 ((if (1 - z) = 0 then (1 : ℚ) else 2) / (if z = 0 then 1 else 2)) else 0)
       + (if z = 0 then 1 - min 1 ((if (1 - z) = 0 then (1 : ℚ) else 2) / (if z = 0 then 1 else 2)) else 0)) = 1 := by
  have := metropolis_invariant (S := Fin 2) (K := ℚ) (fun z => if z = 0 then 1 else 2)
    (fun s => by split_ifs <;> norm_num) (fun z => 1 - z) (fun s => by omega) 0
  simpa using this

end NiftyVerif.C32
