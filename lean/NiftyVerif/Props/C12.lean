/-
  C12 — JAX likelihoods factor their metric and equal the Fisher information.
  Property theorems only (helper lemmas: Lemmas/LikelihoodRe*.lean); obligations are listed in harness/props/c12.py.
  Model: Model/LikelihoodRe.lean (real coordinates; conjugate transpose = transpose of the doubled real matrix).
  `Factor a` is the first half of the property for a dense record: `M = L·R` and `R = Lᴴ`.
-/
import NiftyVerif.Lemmas.LikelihoodReReal
import NiftyVerif.Lemmas.LikelihoodReND
import Mathlib.Tactic.Linarith

namespace NiftyVerif.C12
open NiftyVerif NiftyVerif.LikelihoodRe Matrix

/-- the metric equals the left square root applied after the right one, and the right square root is the
    (conjugate) transpose of the left one -/
def Factor {K : Type} [Add K] [Mul K] [OfNat K 0] {n : Nat} (a : LR K n) : Prop :=
  a.M = mmul a.L a.R ∧ a.R = mT a.L

/-- `Factor` read with Mathlib's matrix product and transpose -/
theorem factor_iff_matrix {K : Type} [CommRing K] {n : Nat} (a : LR K n) :
    Factor a ↔ (Matrix.of a.M = Matrix.of a.L * Matrix.of a.R ∧ Matrix.of a.R = (Matrix.of a.L)ᵀ) := by
  unfold Factor
  rw [← mmul_eq, ← mT_eq]
  exact Iff.rfl

/-! ## defaults of `Likelihood` -/

/-- `right_sqrt_metric` default: the transpose of `left_sqrt_metric` (for every class, overriding or not) -/
theorem R_eq_Lh {K : Type} [CommRing K] {n m : Nat} (M : Fin n → Fin n → K) (L : Fin n → Fin m → K) :
    Matrix.of (LR.ofML M L).R = (Matrix.of L)ᵀ ∧ Matrix.of (LR.ofL L).R = (Matrix.of L)ᵀ := ⟨rfl, rfl⟩

/-- `metric` default `L ∘ R` with the default `R` -/
theorem default_metric_eq_L_R {K : Type} [CommRing K] {n m : Nat} (L : Fin n → Fin m → K) :
    Factor (LR.ofL L) := ⟨rfl, rfl⟩

/-- a class overriding `metric` and `left_sqrt_metric` satisfies the identities iff `M = L Lᵀ` -/
theorem ofML_factor {K : Type} [CommRing K] {n m : Nat} (M : Fin n → Fin n → K) (L : Fin n → Fin m → K)
    (h : Matrix.of M = Matrix.of L * (Matrix.of L)ᵀ) : Factor (LR.ofML M L) := by
  rw [factor_iff_matrix]; exact ⟨h, rfl⟩

/-! ## per implementation: `M = L Lᴴ` for all parameter values -/

/-- Gaussian, diagonal noise operators as derived by the constructor -/
theorem L_Lh_eq_M_gaussian {n : Nat} (cov std : Fin n → Option ℝ) (h : ∀ i, NoiseOk (cov i) (std i)) :
    Factor (LR.ofML (toMat (gaussianM fun i => covStd (cov i) (std i)))
                    (toMat (gaussianL fun i => covStd (cov i) (std i)))) := by
  apply ofML_factor
  exact diag_factor _ _ (fun i => (covStd (cov i) (std i)).1) (fun i => (covStd (cov i) (std i)).2)
    (fun _ _ => rfl) (fun _ _ => rfl) (fun i => covStd_sq _ _ (h i))

example : NoiseOk (some 4) (some 2) ∧ NoiseOk (some 3) none ∧ NoiseOk none (some 5) := by
  refine ⟨?_, ?_, trivial⟩
  · show (4 : ℝ) = 2 * 2; norm_num
  · show (0 : ℝ) ≤ 3; norm_num

theorem studentFac_nonneg {θ : ℝ} (h : 0 < θ) : 0 ≤ studentFac θ := by
  unfold studentFac; exact div_nonneg (by linarith) (by linarith)

/-- StudentT -/
theorem L_Lh_eq_M_studentt {n : Nat} (cov std : Fin n → Option ℝ) (dof : Fin n → ℝ)
    (h : ∀ i, NoiseOk (cov i) (std i)) (hd : ∀ i, 0 < dof i) :
    Factor (LR.ofML (toMat (studentTM (fun i => covStd (cov i) (std i)) dof))
                    (toMat (studentTL (fun i => covStd (cov i) (std i)) dof))) := by
  apply ofML_factor
  refine diag_factor _ _ (fun i => (covStd (cov i) (std i)).1 * studentFac (dof i))
    (fun i => (covStd (cov i) (std i)).2 * Transc.pow (studentFac (dof i)) 0.5) ?_ ?_ ?_
  · intro t i; simp only [studentTM]; ring
  · intro t i; simp only [studentTL]; ring
  · intro i
    have h1 := covStd_sq _ _ (h i)
    have h2 := pow_half_mul_self (studentFac_nonneg (hd i))
    calc _ = ((covStd (cov i) (std i)).2 * (covStd (cov i) (std i)).2)
              * (Transc.pow (studentFac (dof i)) 0.5 * Transc.pow (studentFac (dof i)) 0.5) := by ring
      _ = _ := by rw [h1, h2]

/-- `L_Lh_eq_M_studentt` speaks about the DIAGONAL noise operators the constructor derives.  FULL statement (any
    self-adjoint `noise_std_inv = H`, `noise_cov_inv = H·H`, per-element `dof`, `D = diag((θ+1)/(θ+3))`): does NOT hold
    for the code as it is — it computes `M = H H D`, `L = H D^{1/2}`, so `L Lᴴ = H D H ≠ M` unless `D` commutes with `H`
    (known finding C12-studentt-dense-noise-dof).  Witness, replayed on the real code from
    corpus/C12/studentt_dense_noise_dof.json: `H = [[2,1],[1,2]]`, `θ = (3/2, 4)`, `D = diag(5/9, 5/7)`:
    `(H H D)₀₁ = (2·1 + 1·2)·5/7 = 20/7`, `(H D H)₀₁ = 2·(5/9)·1 + 1·(5/7)·2 = 160/63`, and `M` is not even symmetric:
    `(H H D)₁₀ = (1·2 + 2·1)·5/9 = 20/9`. -/
theorem studentt_dense_noise_witness :
    ((2 * 1 + 1 * 2 : ℚ)) * (5 / 7) ≠ 2 * (5 / 9) * 1 + 1 * (5 / 7) * 2 ∧
    ((2 * 1 + 1 * 2 : ℚ)) * (5 / 7) ≠ (1 * 2 + 2 * 1) * (5 / 9) ∧
    ((3 / 2 + 1 : ℚ) / (3 / 2 + 3) = 5 / 9 ∧ ((4 : ℚ) + 1) / (4 + 3) = 5 / 7) := by
  refine ⟨by norm_num, by norm_num, by norm_num, by norm_num⟩

/-- Poissonian: `M = 1/λ`, `L = 1/λ^0.5` -/
theorem L_Lh_eq_M_poisson {n : Nat} (lam : Fin n → ℝ) (h : ∀ i, 0 < lam i) :
    Factor (LR.ofML (toMat (poissonM lam)) (toMat (poissonL lam))) := by
  apply ofML_factor
  refine diag_factor _ _ (fun i => (lam i)⁻¹) (fun i => (Transc.pow (lam i) 0.5)⁻¹) ?_ ?_ ?_
  · intro t i; simp only [poissonM]; rw [div_eq_inv_mul]
  · intro t i; simp only [poissonL]; rw [div_eq_inv_mul]
  · intro i; rw [← mul_inv, pow_half_mul_self (h i).le]

example : ∃ lam : Fin 2 → ℝ, ∀ i, 0 < lam i := ⟨fun _ => 2, fun _ => by norm_num⟩

theorem vcgFct_sq (cx : Bool) : (vcgFctL cx : ℝ) * vcgFctL cx = vcgFctM cx := by
  have h2 : Real.sqrt 2 * Real.sqrt 2 = 2 := Real.mul_self_sqrt (by norm_num)
  cases cx
  · simp only [vcgFctL, vcgFctM, TranscReal.sqrt_eq, Bool.false_eq_true, if_false]; rw [h2]; ring
  · simp only [vcgFctL, vcgFctM, TranscReal.sqrt_eq, if_true]
    calc Real.sqrt 2 * Real.sqrt 2 * (Real.sqrt 2 * Real.sqrt 2) = 2 * 2 := by rw [h2]
      _ = _ := by ring

/-- VariableCovarianceGaussian, real and complex data (`1 + iscomplex` logic), any pytree (`sOf`, `cxOf`, `nm`) -/
theorem L_Lh_eq_M_vcgauss {k : Nat} (nm : Nat) (sOf : Fin k → ℝ) (cxOf : Fin k → Bool) :
    Factor (LR.ofML (toMat (vcgaussM nm sOf cxOf)) (toMat (vcgaussL nm sOf cxOf))) := by
  apply ofML_factor
  refine diag_factor _ _
    (fun i => if i.val < nm then sOf i * sOf i else vcgFctM (cxOf i) / (sOf i * sOf i))
    (fun i => if i.val < nm then sOf i else vcgFctL (cxOf i) / sOf i) ?_ ?_ ?_
  · intro t i; simp only [vcgaussM, vcgM0, vcgM1]; split_ifs <;> ring
  · intro t i; simp only [vcgaussL, vcgL0, vcgL1]; split_ifs <;> ring
  · intro i; split_ifs
    · rfl
    · rw [div_mul_div_comm, vcgFct_sq]

theorem vcsCov_nonneg {θ σ : ℝ} (h : 0 < θ) : 0 ≤ vcsCov0 θ σ ∧ 0 ≤ vcsCov1 θ σ := by
  unfold vcsCov0 vcsCov1
  exact ⟨div_nonneg (div_nonneg (by linarith) (by linarith)) (mul_self_nonneg σ),
         div_nonneg (div_nonneg (by linarith) (by linarith)) (mul_self_nonneg σ)⟩

/-- VariableCovarianceStudentT -/
theorem L_Lh_eq_M_vcstudt {k : Nat} (ne : Nat) (th sg : Fin k → ℝ) (hth : ∀ i, 0 < th i) :
    Factor (LR.ofML (toMat (vcstudtM ne th sg)) (toMat (vcstudtL ne th sg))) := by
  apply ofML_factor
  refine diag_factor _ _
    (fun i => if i.val < ne then vcsCov0 (th i) (sg i) else vcsCov1 (th i) (sg i))
    (fun i => if i.val < ne then Transc.pow (vcsCov0 (th i) (sg i)) 0.5 else Transc.pow (vcsCov1 (th i) (sg i)) 0.5)
    ?_ ?_ ?_
  · intro t i; simp only [vcstudtM, vcsM0, vcsM1, vcsCov0, vcsCov1]; split_ifs <;> ring
  · intro t i; simp only [vcstudtL, vcsL0, vcsL1]; split_ifs <;> rfl
  · intro i; split_ifs
    · exact pow_half_mul_self (vcsCov_nonneg (hth i)).1
    · exact pow_half_mul_self (vcsCov_nonneg (hth i)).2

/-! ## Categorical -/

/-- `M = diag(p) − p pᵀ` (per group) `= L Lᵀ` with `L = diag(s)(I − s sᵀ)`, `p = s²`, for ANY grouping of the
    coordinates — provided every normalisation sum runs over exactly one distribution (`Σ_{group} p = 1`). -/
theorem categorical_factor {K : Type} [CommRing K] {n : Nat} (grp : Fin n → Nat) (s : Fin n → K)
    (h1 : ∀ i, gsum grp (fun j => s j * s j) i = 1) :
    Matrix.of (toMat (catMp grp fun i => s i * s i))
      = Matrix.of (toMat (catLs grp s)) * (Matrix.of (toMat (catLs grp s)))ᵀ := by
  ext i k
  rw [cat_LLt grp s 1 h1, Matrix.of_apply, toMat_catMp]
  by_cases hik : i = k
  · subst hik; simp only [if_true]; ring
  · simp only [if_neg hik]
    by_cases hg : grp k = grp i
    · simp only [if_pos hg]; ring
    · simp only [if_neg hg]; ring

/-- soft-max over a group sums to one over that group -/
theorem softmax_group_sum {n : Nat} (grp : Fin n → Nat) (z : Fin n → ℝ) (i : Fin n) :
    gsum grp (softmax grp z) i = 1 := gsum_softmax grp z i

/-- Categorical (as repaired: normalisation per category axis = per group), all logits, any batch/pytree layout -/
theorem L_Lh_eq_M_categorical {n : Nat} (grp : Fin n → Nat) (z : Fin n → ℝ) :
    Factor (LR.ofML (toMat (categoricalM grp z)) (toMat (categoricalL grp z))) := by
  apply ofML_factor
  have hs : ∀ i, Transc.pow (softmax grp z i) (0.5 : ℝ) * Transc.pow (softmax grp z i) 0.5 = softmax grp z i :=
    fun i => pow_half_mul_self (softmax_nonneg grp z i)
  have hp : softmax grp z = fun i => Transc.pow (softmax grp z i) (0.5 : ℝ) * Transc.pow (softmax grp z i) 0.5 := by
    funext i; exact (hs i).symm
  have h1 : ∀ i, gsum grp (fun j => Transc.pow (softmax grp z j) (0.5 : ℝ) * Transc.pow (softmax grp z j) 0.5) i = 1 := by
    intro i; rw [← hp]; exact gsum_softmax grp z i
  have := categorical_factor grp (fun i => Transc.pow (softmax grp z i) (0.5 : ℝ)) h1
  beta_reduce at this
  rw [← hp] at this
  unfold categoricalM categoricalL
  exact this

/-- The code in the unrepaired tree: ONE tree-wide normalisation sum (`grp = const`) over `B` stacked distributions
    (`Σ p = B`).  Then `L Lᵀ − M = (B − 1) · p pᵀ`: the factorisation fails for every batch with `B ≠ 1`. -/
theorem categorical_global_sum_defect {K : Type} [CommRing K] {n : Nat} (s : Fin n → K) (B : K)
    (hB : ∀ i, gsum (fun _ => 0) (fun j => s j * s j) i = B) (i k : Fin n) :
    (Matrix.of (toMat (catLs (fun _ => 0) s)) * (Matrix.of (toMat (catLs (fun _ => 0) s)))ᵀ) i k
      - toMat (catMp (fun _ => 0) fun i => s i * s i) i k = (B - 1) * ((s i * s i) * (s k * s k)) := by
  rw [cat_LLt (fun _ => 0) s B hB, toMat_catMp]
  by_cases hik : i = k
  · subst hik; simp only [if_true]; ring
  · simp only [if_neg hik, if_true]; ring

/-- witness of the defect: two stacked one-category "distributions" (`p = (1,1)`, `B = 2`): off-diagonal entry `1 ≠ 0` -/
example : (2 - 1 : ℚ) * (((1 : ℚ) * 1) * (1 * 1)) ≠ 0 := by norm_num

/-! ## NDVariableCovarianceGaussian, one `d × d` block, every `d` -/

/-- `S` = `sqrtm(prim_mat)`, `Si` = what `solve(sqrtm(prim_mat), ·)` applies, `Ai` = what `solve(prim_mat, ·)` applies;
    hypotheses: `S` is a symmetric square root of `A` and `Si` its inverse (what the eigen-decomposition based
    `sqrtm`/`solve` of tree_math/util.py deliver for symmetric positive definite input — executed, not modelled).
    Then: `Ai = A⁻¹`; on the matrix block `L (Lᴴ T) = M T` where `Lᴴ` is the Frobenius adjoint of `L`;
    on the mean block `L Lᴴ = A⁻¹` (covariance parametrisation) resp. `A` (precision parametrisation). -/
theorem L_Lh_eq_M_ndvc {d : Nat} (A Ai S Si : Fin d → Fin d → ℝ)
    (hSS : Matrix.of S * Matrix.of S = Matrix.of A) (hSiS : Matrix.of Si * Matrix.of S = 1)
    (hsymS : (Matrix.of S)ᵀ = Matrix.of S) (hsymSi : (Matrix.of Si)ᵀ = Matrix.of Si)
    (hAi : Matrix.of Ai = Matrix.of Si * Matrix.of Si) :
    Matrix.of Ai * Matrix.of A = 1 ∧
    (∀ T, ndLmat Si (ndLmat (mT Si) T) = ndMmat Ai T) ∧
    (∀ T U : Fin d → Fin d → ℝ,
      ∑ i, ∑ j, ndLmat Si T i j * U i j = ∑ i, ∑ j, T i j * ndLmat (mT Si) U i j) ∧
    (∀ t, ndLmean true S Si (ndLmean true (mT S) (mT Si) t) = ndMmean true A Ai t) ∧
    (∀ t, ndLmean false S Si (ndLmean false (mT S) (mT Si) t) = ndMmean false A Ai t) := by
  have hc : (Real.sqrt 2)⁻¹ * (Real.sqrt 2)⁻¹ = (1 / 2 : ℝ) := by
    rw [← mul_inv, Real.mul_self_sqrt (by norm_num)]; norm_num
  refine ⟨?_, ?_, ?_, ?_, ?_⟩
  · rw [hAi, ← hSS, Matrix.mul_assoc, ← Matrix.mul_assoc (Matrix.of Si) (Matrix.of S) (Matrix.of S), hSiS,
      Matrix.one_mul, hSiS]
  · intro T
    have h : Matrix.of (ndLmat Si (ndLmat (mT Si) T)) = Matrix.of (ndMmat Ai T) := by
      rw [ndLmat_eq, ndLmat_eq, ndMmat_eq, mT_eq, hsymSi, hAi]
      simp only [Matrix.mul_smul, Matrix.smul_mul, smul_smul, Matrix.mul_assoc, hc]
    exact h
  · intro T U
    have key : ∀ X Y Z : Matrix (Fin d) (Fin d) ℝ, Matrix.trace (X * (Y * X) * Z) = Matrix.trace (Y * (X * Z * X)) := by
      intro X Y Z
      rw [Matrix.mul_assoc X (Y * X) Z, Matrix.trace_mul_comm]
      simp only [Matrix.mul_assoc]
    have h1 := frob_eq_trace (Matrix.of (ndLmat Si T)) (Matrix.of U)
    have h2 := frob_eq_trace (Matrix.of T) (Matrix.of (ndLmat (mT Si) U))
    simp only [Matrix.of_apply] at h1 h2
    rw [h1, h2, ndLmat_eq, ndLmat_eq, mT_eq, hsymSi]
    simp only [Matrix.transpose_smul, Matrix.transpose_mul, hsymSi, Matrix.smul_mul, Matrix.mul_smul,
      Matrix.trace_smul]
    rw [key]
  · intro t
    have e1 : ndLmean true (mT S) (mT Si) t = Matrix.mulVec (Matrix.of (mT Si)) t := ndMean_eq (mT Si) t
    have e2 : ∀ v, ndLmean true S Si v = Matrix.mulVec (Matrix.of Si) v := fun v => ndMean_eq Si v
    have e3 : ndMmean true A Ai t = Matrix.mulVec (Matrix.of Ai) t := ndMean_eq Ai t
    rw [e1, e2, e3, mT_eq, hsymSi, Matrix.mulVec_mulVec, ← hAi]
  · intro t
    have e1 : ndLmean false (mT S) (mT Si) t = Matrix.mulVec (Matrix.of (mT S)) t := ndMean_eq (mT S) t
    have e2 : ∀ v, ndLmean false S Si v = Matrix.mulVec (Matrix.of S) v := fun v => ndMean_eq S v
    have e3 : ndMmean false A Ai t = Matrix.mulVec (Matrix.of A) t := ndMean_eq A t
    rw [e1, e2, e3, mT_eq, hsymS, Matrix.mulVec_mulVec, hSS]

/-- non-vacuity: `d = 1`, `A = 4`, `S = 2`, `Si = 1/2`, `Ai = 1/4` -/
example : ∃ A Ai S Si : Fin 1 → Fin 1 → ℝ,
    Matrix.of S * Matrix.of S = Matrix.of A ∧ Matrix.of Si * Matrix.of S = 1 ∧
    (Matrix.of S)ᵀ = Matrix.of S ∧ (Matrix.of Si)ᵀ = Matrix.of Si ∧ Matrix.of Ai = Matrix.of Si * Matrix.of Si := by
  refine ⟨fun _ _ => 4, fun _ _ => 1 / 4, fun _ _ => 2, fun _ _ => 1 / 2, ?_, ?_, ?_, ?_, ?_⟩ <;>
    (ext i j; simp [Matrix.mul_apply, Matrix.one_apply, Subsingleton.elim i j] <;> norm_num)

/-! ## `L` is the pull-back of the transformation -/

/-- Gaussian: `∂T_i/∂y_j = L_{j i}` -/
theorem L_is_pullback_gaussian {n : Nat} (cs : Fin n → ℝ × ℝ) (y : Fin n → ℝ) (i j : Fin n) :
    HasDerivAt (fun x => gaussianT cs (Function.update y j x) i) (toMat (gaussianL cs) j i) (y j) := by
  have h := elementwise_jac (fun i v => (cs i).2 * v) (fun i => (cs i).2) y
    (fun i => by simpa using (hasDerivAt_id (y i)).const_mul (cs i).2) i j
  have e : toMat (gaussianL cs) j i = if i = j then (cs i).2 else 0 := by
    simp only [toMat, gaussianL, unit]
    by_cases hij : i = j
    · subst hij; simp
    · have : ¬ j = i := fun e => hij e.symm
      simp [hij, this]
  rw [e]; exact h

/-- StudentT -/
theorem L_is_pullback_studentt {n : Nat} (cs : Fin n → ℝ × ℝ) (dof y : Fin n → ℝ) (i j : Fin n) :
    HasDerivAt (fun x => studentTT cs dof (Function.update y j x) i) (toMat (studentTL cs dof) j i) (y j) := by
  have h := elementwise_jac (fun i v => (cs i).2 * (Transc.pow (studentFac (dof i)) 0.5 * v))
    (fun i => (cs i).2 * Transc.pow (studentFac (dof i)) 0.5) y
    (fun i => by
      have := ((hasDerivAt_id (y i)).const_mul (Transc.pow (studentFac (dof i)) (0.5 : ℝ))).const_mul (cs i).2
      simpa using this) i j
  have e : toMat (studentTL cs dof) j i = if i = j then (cs i).2 * Transc.pow (studentFac (dof i)) 0.5 else 0 := by
    simp only [toMat, studentTL, unit]
    by_cases hij : i = j
    · subst hij; simp
    · have : ¬ j = i := fun e => hij e.symm
      simp [hij, this]
  rw [e]; exact h

/-- Poissonian: `T = 2 λ^0.5`, `∂T_i/∂λ_j = δ_ij / λ_i^0.5 = L_{j i}` -/
theorem L_is_pullback_poisson {n : Nat} (lam : Fin n → ℝ) (hl : ∀ i, 0 < lam i) (i j : Fin n) :
    HasDerivAt (fun x => poissonT (Function.update lam j x) i) (toMat (poissonL lam) j i) (lam j) := by
  have hg : ∀ i, HasDerivAt (fun v : ℝ => (2.0 : ℝ) * Transc.pow v (0.5 : ℝ)) (1 / Transc.pow (lam i) (0.5 : ℝ)) (lam i) := by
    intro i
    have hs := (Real.hasDerivAt_sqrt (hl i).ne').const_mul (2.0 : ℝ)
    have hf : (fun v : ℝ => (2.0 : ℝ) * Transc.pow v (0.5 : ℝ)) = fun v => (2.0 : ℝ) * Real.sqrt v := by
      funext v; rw [pow_half_eq_sqrt]
    have hv : (2.0 : ℝ) * (1 / (2 * Real.sqrt (lam i))) = 1 / Transc.pow (lam i) (0.5 : ℝ) := by
      rw [pow_half_eq_sqrt]
      have : Real.sqrt (lam i) ≠ 0 := (Real.sqrt_pos.mpr (hl i)).ne'
      field_simp; norm_num
    rw [hf, ← hv]; exact hs
  have h := elementwise_jac (fun _ v => (2.0 : ℝ) * Transc.pow v (0.5 : ℝ)) (fun i => 1 / Transc.pow (lam i) (0.5 : ℝ)) lam hg i j
  have e : toMat (poissonL lam) j i = if i = j then 1 / Transc.pow (lam i) (0.5 : ℝ) else 0 := by
    simp only [toMat, poissonL, unit]
    by_cases hij : i = j
    · subst hij; simp
    · have : ¬ j = i := fun e => hij e.symm
      simp [hij, this]
  rw [e]; exact h

/-- VariableCovarianceGaussian, REAL data, one element with parameters `(m, s)`: the transformation
    `(s (m − d), log s)` is documented as a local approximation.  Its Jacobian is `[[s, m − d], [0, 1/s]]`
    (three `HasDerivAt` facts); the Gram matrix `Jᵀ J = [[s², s r], [s r, r² + 1/s²]]`, `r = m − d`, is a polynomial
    in `r`; in expectation over the data (`E r = μ1 = 0`, `E r² = μ2 = 1/s²`) it equals the metric `diag(s², 2/s²)`.
    FULL statement (also complex data: `E |r|² = 2/s²`, `fct = 2`): does NOT hold for the code as it is —
    `2/s² + 4/s²  ≠ 4/s²`, see `expected_pullback_vcgauss_complex_witness` (known finding C12-vcgauss-complex-trafo). -/
theorem expected_pullback_vcgauss_partial (d m s : ℝ) (hs : 0 < s) :
    HasDerivAt (fun x => vcgT0 d x s) s m ∧ HasDerivAt (fun x => vcgT0 d m x) (m - d) s ∧
    HasDerivAt (fun x => vcgT1 false x) (1 / s) s ∧
    (∀ μ1 μ2 : ℝ, μ1 = 0 → μ2 = 1 / (s * s) →
      s * s = vcgM0 s 1 ∧ s * μ1 = 0 ∧ μ2 + (1 / s) * (1 / s) = vcgM1 false s 1) := by
  refine ⟨?_, ?_, ?_, ?_⟩
  · have := ((hasDerivAt_id m).sub_const d).const_mul s
    simpa [vcgT0] using this
  · have := (hasDerivAt_id s).mul_const (m - d)
    simpa [vcgT0] using this
  · have h := (Real.hasDerivAt_log hs.ne').const_mul (vcgFctT false : ℝ)
    have h3 : HasDerivAt (fun x => vcgT1 false x) (vcgFctT false * s⁻¹) s := h
    exact h3.congr_deriv (by simp only [vcgFctT, Bool.false_eq_true, if_false]; rw [one_div]; ring)
  · intro μ1 μ2 h1 h2
    subst h1; subst h2
    refine ⟨by simp [vcgM0], by simp, ?_⟩
    simp only [vcgM1, vcgFctM, Bool.false_eq_true, if_false]
    field_simp; ring

/-- the excluded point of `expected_pullback_vcgauss_partial`: complex data, `s = 1`:
    `E|r|² + fct²/s² = 2 + 2·2 = 6`, the metric entry is `4` -/
theorem expected_pullback_vcgauss_complex_witness :
    (2 : ℝ) + vcgFctT true * vcgFctT true ≠ vcgM1 true 1 1 := by
  simp only [vcgFctT, vcgM1, vcgFctM, if_true]; norm_num

/-- VariableCovarianceGaussian, COMPLEX data, one element with parameters `(m₁ + i m₂, s)`, data `d₁ + i d₂`: the
    transformation is `(s (m₁ − d₁), s (m₂ − d₂), 2 log s)` (`fct = 1 + iscomplex = 2`).  Its Jacobian (five
    `HasDerivAt` facts) is `[[s, 0, m₁ − d₁], [0, s, m₂ − d₂], [0, 0, 2/s]]`; in expectation over the documented data
    (`E rₖ = 0`, `E rₖ² = 1/s²` for both real components) the Gram matrix is `diag(s², s², 2/s² + 4/s²)`:
    the mean block IS the metric, the inverse-std entry is `6/s²` — exactly `3/2` of the metric entry `4/s²`.
    This is the TRUE statement about the code as it is (known finding C12-vcgauss-complex-trafo).
    FULL statement (does NOT hold, see `expected_pullback_vcgauss_complex_witness`):
      `… μ2 + μ2' + (2 / s) * (2 / s) = vcgM1 true s 1`   (it would hold with `fct = √2` on `log s`: `2/s² + 2/s²`). -/
theorem expected_pullback_vcgauss_complex_factor (d1 d2 m1 m2 s : ℝ) (hs : 0 < s) :
    HasDerivAt (fun x => vcgT0 d1 x s) s m1 ∧ HasDerivAt (fun x => vcgT0 d2 x s) s m2 ∧
    HasDerivAt (fun x => vcgT0 d1 m1 x) (m1 - d1) s ∧ HasDerivAt (fun x => vcgT0 d2 m2 x) (m2 - d2) s ∧
    HasDerivAt (fun x => vcgT1 true x) (2 / s) s ∧
    (∀ μ1 μ1' μ2 μ2' : ℝ, μ1 = 0 → μ1' = 0 → μ2 = 1 / (s * s) → μ2' = 1 / (s * s) →
      s * s = vcgM0 s 1 ∧ s * μ1 = 0 ∧ s * μ1' = 0 ∧
      μ2 + μ2' + (2 / s) * (2 / s) = 6 / (s * s) ∧
      μ2 + μ2' + (2 / s) * (2 / s) = 3 / 2 * vcgM1 true s 1 ∧
      μ2 + μ2' + (2 / s) * (2 / s) ≠ vcgM1 true s 1) := by
  have hs' : s ≠ 0 := hs.ne'
  have dm : ∀ d m : ℝ, HasDerivAt (fun x => vcgT0 d x s) s m := by
    intro d m
    have := ((hasDerivAt_id m).sub_const d).const_mul s
    simpa [vcgT0] using this
  have ds : ∀ d m : ℝ, HasDerivAt (fun x => vcgT0 d m x) (m - d) s := by
    intro d m
    have := (hasDerivAt_id s).mul_const (m - d)
    simpa [vcgT0] using this
  refine ⟨dm d1 m1, dm d2 m2, ds d1 m1, ds d2 m2, ?_, ?_⟩
  · have h := (Real.hasDerivAt_log hs').const_mul (vcgFctT true : ℝ)
    have h3 : HasDerivAt (fun x => vcgT1 true x) (vcgFctT true * s⁻¹) s := h
    exact h3.congr_deriv (by simp only [vcgFctT, if_true]; rw [div_eq_mul_inv]; ring)
  · intro μ1 μ1' μ2 μ2' h1 h1' h2 h2'
    subst h1; subst h1'; subst h2; subst h2'
    have hM : vcgM1 true s 1 = 4 / (s * s) := by
      simp only [vcgM1, vcgFctM, if_true]; ring
    have hss : s * s ≠ 0 := mul_ne_zero hs' hs'
    have e6 : 1 / (s * s) + 1 / (s * s) + (2 / s) * (2 / s) = 6 / (s * s) := by
      field_simp; ring
    refine ⟨by simp [vcgM0], by simp, by simp, e6, ?_, ?_⟩
    · rw [e6, hM]; ring
    · rw [e6, hM]
      intro h
      rw [div_left_inj' hss] at h
      norm_num at h

/-- non-vacuity of `expected_pullback_vcgauss_complex_factor`: `s = 2`: `1/4 + 1/4 + 1 = 6/4` -/
example : (1 : ℝ) / (2 * 2) + 1 / (2 * 2) + (2 / 2) * (2 / 2) = 6 / (2 * 2) := by norm_num

/-! ## the metric is the Fisher information (expected Hessian of the documented negative log-density,
    data moments substituted — DESIGN C11/C12; Student-t closed forms are trusted, see harness self-test) -/

/-- Poisson: `−log p = λ − d log λ (+const)`; `∂²/∂λ² = d/λ²`; with `E d = λ`: `1/λ`, the metric entry -/
theorem M_is_fisher_poisson (d lam : ℝ) (hl : 0 < lam) :
    HasDerivAt (fun x => x - d * Transc.log x) (1 - d / lam) lam ∧
    HasDerivAt (fun x => 1 - d / x) (d / (lam * lam)) lam ∧
    (d = lam → d / (lam * lam) = poissonM (fun _ : Fin 1 => lam) (fun _ => 1) 0) := by
  refine ⟨?_, ?_, ?_⟩
  · have h := (hasDerivAt_id' lam).sub ((Real.hasDerivAt_log hl.ne').const_mul d)
    have h3 : HasDerivAt (fun x => x - d * Transc.log x) (1 - d * lam⁻¹) lam := h
    exact h3.congr_deriv (by rw [div_eq_mul_inv])
  · have e : (fun x : ℝ => 1 - d / x) = fun x => 1 - d * x⁻¹ := by funext x; rw [div_eq_mul_inv]
    rw [e]
    have h := ((hasDerivAt_inv hl.ne').const_mul d).const_sub 1
    exact h.congr_deriv (by rw [div_eq_mul_inv]; ring)
  · intro h; subst h; simp only [poissonM]; field_simp

/-- Gaussian: `−log p = ½ c (d − y)² (+const)`; `∂²/∂y² = c` for every `d` -/
theorem M_is_fisher_gaussian (c d y : ℝ) :
    HasDerivAt (fun x => 1 / 2 * c * ((d - x) * (d - x))) (-(c * (d - y))) y ∧
    HasDerivAt (fun x => -(c * (d - x))) c y := by
  constructor
  · have h1 := (hasDerivAt_id' y).const_sub d
    have h := (h1.mul h1).const_mul (1 / 2 * c)
    exact h.congr_deriv (by ring)
  · have h := (((hasDerivAt_id' y).const_sub d).const_mul c).neg
    exact h.congr_deriv (by ring)

/-- VariableCovarianceGaussian: `−log p = ½ s² |d − m|² − fct log s`, `fct = 1 + iscomplex`.
    Second derivatives: `∂²/∂m² = s²`, `∂²/∂m∂s = −2 s (d − m)` (mean `0`), `∂²/∂s² = |d − m|² + fct/s²`; with
    `E |d − m|² = fct/s²` (one resp. two real components of variance `1/s²`) this is `2 fct / s²`: the metric. -/
theorem M_is_fisher_vcgauss (cx : Bool) (q s : ℝ) (hs : 0 < s) :
    -- q = |d − m|², fixed while differentiating in s
    HasDerivAt (fun x => 1 / 2 * (x * x) * q - vcgFctT cx * Transc.log x) (s * q - vcgFctT cx / s) s ∧
    HasDerivAt (fun x => x * q - vcgFctT cx / x) (q + vcgFctT cx / (s * s)) s ∧
    (q = vcgFctT cx / (s * s) → q + vcgFctT cx / (s * s) = vcgM1 cx s 1) := by
  refine ⟨?_, ?_, ?_⟩
  · have h1 := (((hasDerivAt_id' s).mul (hasDerivAt_id' s)).const_mul (1 / 2 : ℝ)).mul_const q
    have h2 := (Real.hasDerivAt_log hs.ne').const_mul (vcgFctT cx : ℝ)
    have h := h1.sub h2
    exact h.congr_deriv (by rw [div_eq_mul_inv]; ring)
  · have e : (fun x : ℝ => x * q - vcgFctT cx / x) = fun x => x * q - vcgFctT cx * x⁻¹ := by
      funext x; rw [div_eq_mul_inv]
    rw [e]
    have h1 := (hasDerivAt_id' s).mul_const q
    have h2 := (hasDerivAt_inv hs.ne').const_mul (vcgFctT cx : ℝ)
    have h := h1.sub h2
    exact h.congr_deriv (by rw [div_eq_mul_inv]; ring)
  · intro hq; rw [hq]
    cases cx
    · simp only [vcgM1, vcgFctM, vcgFctT, Bool.false_eq_true, if_false]; ring
    · simp only [vcgM1, vcgFctM, vcgFctT, if_true]; ring

/-- Categorical: the score of one draw `c` w.r.t. the logits is `e_c − p`; the Fisher information
    `E_c[(e_c − p)(e_c − p)ᵀ] = Σ_c p_c (δ_ic − p_i)(δ_kc − p_k)` equals the metric `diag p − p pᵀ` (needs `Σ p = 1`) -/
theorem M_is_fisher_categorical {K : Type} [CommRing K] {n : Nat} (p : Fin n → K) (h1 : ∑ c, p c = 1) (i k : Fin n) :
    ∑ c, p c * (((if i = c then 1 else 0) - p i) * ((if k = c then 1 else 0) - p k))
      = toMat (catMp (fun _ => 0) p) i k := by
  rw [toMat_catMp]
  have hterm : ∀ c : Fin n, p c * (((if i = c then 1 else 0) - p i) * ((if k = c then 1 else 0) - p k))
      = (if i = c then (1 : K) else 0) * (p c * (if k = c then 1 else 0))
        - p k * ((if i = c then (1 : K) else 0) * p c) - p i * (p c * (if k = c then (1 : K) else 0))
        + p i * p k * p c := by
    intro c; ring
  simp only [hterm, Finset.sum_add_distrib, Finset.sum_sub_distrib, ← Finset.mul_sum,
    sum_delta_mul, sum_mul_delta, h1, if_true]
  by_cases hik : i = k
  · subst hik; simp only [if_true]; ring
  · have hki : ¬ k = i := fun e => hik e.symm
    simp only [if_neg hik, if_neg hki]; ring

/-- the score used in `M_is_fisher_categorical`: for one distribution with logits `z`, the documented negative
    log-probability of category `c` is `log Σ_j exp z_j − z_c`; its derivative w.r.t. `z_i` is `p_i − δ_ic` -/
theorem categorical_score {n : Nat} (z : Fin n → ℝ) (c i : Fin n) :
    HasDerivAt (fun x => Real.log (∑ j, Real.exp (Function.update z i x j)) - Function.update z i x c)
      (Real.exp (z i) / (∑ j, Real.exp (z j)) - (if i = c then 1 else 0)) (z i) := by
  have hterm : ∀ j, HasDerivAt (fun x => Real.exp (Function.update z i x j))
      (if j = i then Real.exp (z i) else 0) (z i) := by
    intro j
    by_cases h : j = i
    · subst h
      simp only [Function.update_self, if_true]
      exact Real.hasDerivAt_exp (z j)
    · simp only [Function.update_of_ne h, if_neg h]
      exact hasDerivAt_const _ _
  have hsum := HasDerivAt.fun_sum (u := Finset.univ) (fun j _ => hterm j)
  have hval : (∑ j, Real.exp (Function.update z i (z i) j)) = ∑ j, Real.exp (z j) := by
    rw [Function.update_eq_self]
  have hpos : (∑ j, Real.exp (Function.update z i (z i) j)) ≠ 0 := by
    rw [hval]
    exact (Finset.sum_pos (fun j _ => Real.exp_pos (z j)) ⟨i, Finset.mem_univ i⟩).ne'
  have hlog := hsum.log hpos
  have hlin : HasDerivAt (fun x => Function.update z i x c) (if i = c then 1 else 0) (z i) := by
    by_cases h : i = c
    · subst h
      simp only [Function.update_self, if_true]
      exact hasDerivAt_id' (z i)
    · have h' : c ≠ i := fun e => h e.symm
      simp only [Function.update_of_ne h', if_neg h]
      exact hasDerivAt_const _ _
  refine (hlog.sub hlin).congr_deriv ?_
  rw [hval, Finset.sum_ite_eq' Finset.univ i, if_pos (Finset.mem_univ i)]

/-! ## composition preserves the identities -/

/-- `LikelihoodWithModel` / `amend`: `M = Jᴴ M_lh J`, `L = Jᴴ L_lh`, `R = R_lh J` -/
theorem with_model_factor {K : Type} [CommRing K] {k n : Nat} (J : Fin k → Fin n → K) (a : LR K k)
    (h : Factor a) : Factor (LR.withModel J a) := by
  obtain ⟨hM, hR⟩ := h
  constructor
  · show mmul (mT J) (mmul a.M J) = mmul (mmul (mT J) a.L) (mmul a.R J)
    rw [hM, mmul_assoc, mmul_assoc]
  · show mmul a.R J = mT (mmul (mT J) a.L)
    rw [mT_mmul, mT_mT, hR]

/-- the same over any commutative star ring with the conjugate transpose (complex coordinates) -/
theorem with_model_factor_star {K : Type} [CommRing K] [StarRing K] {k n m : Nat}
    (J : Matrix (Fin k) (Fin n) K) (M : Matrix (Fin k) (Fin k) K) (L : Matrix (Fin k) (Fin m) K)
    (R : Matrix (Fin m) (Fin k) K) (hM : M = L * R) (hR : R = Lᴴ) :
    Jᴴ * M * J = (Jᴴ * L) * (R * J) ∧ R * J = (Jᴴ * L)ᴴ := by
  constructor
  · rw [hM]; simp only [Matrix.mul_assoc]
  · rw [hR, Matrix.conjTranspose_mul, Matrix.conjTranspose_conjTranspose]

/-- `LikelihoodSum`: metrics add, `L` block row, `R` block column -/
theorem sum_factor {K : Type} [CommRing K] {n : Nat} (a b : LR K n) (ha : Factor a) (hb : Factor b) :
    Factor (a.add b) := by
  obtain ⟨haM, haR⟩ := ha
  obtain ⟨hbM, hbR⟩ := hb
  constructor
  · show madd a.M b.M = mmul (hcat a.L b.L) (vcat a.R b.R)
    rw [hcat_mul_vcat, haM, hbM]
  · show vcat a.R b.R = mT (hcat a.L b.L)
    rw [mT_hcat, haR, hbR]

/-- `LikelihoodPartial`: selection of the liquid coordinates -/
theorem partial_factor {K : Type} [CommRing K] {n k : Nat} (sel : Fin k → Fin n) (a : LR K n) (h : Factor a) :
    Factor (LR.partial sel a) := by
  obtain ⟨hM, hR⟩ := h
  constructor
  · show (fun i j => a.M (sel i) (sel j)) = mmul (fun i j => a.L (sel i) j) (fun i j => a.R i (sel j))
    rw [hM]; rfl
  · show (fun i j => a.R i (sel j)) = mT (fun i j => a.L (sel i) j)
    rw [hR]; rfl

/-- Fisher information under composition (`F ↦ Jᵀ F J` under reparametrisation, additive over independent data,
    restricted to the liquid block when parameters are frozen — standard facts, trusted base): the metric of the
    composed likelihood is the Fisher information of the composed model whenever the parts' metrics are -/
theorem with_model_fisher {K : Type} [CommRing K] {k n : Nat} (J : Fin k → Fin n → K) (a : LR K k)
    (F : Fin k → Fin k → K) (h : a.M = F) : (LR.withModel J a).M = mmul (mT J) (mmul F J) := by
  rw [← h]; rfl

theorem sum_fisher {K : Type} [CommRing K] {n : Nat} (a b : LR K n) (Fa Fb : Fin n → Fin n → K)
    (ha : a.M = Fa) (hb : b.M = Fb) : (a.add b).M = madd Fa Fb := by
  rw [← ha, ← hb]; rfl

theorem partial_fisher {K : Type} [CommRing K] {n k : Nat} (sel : Fin k → Fin n) (a : LR K n)
    (F : Fin n → Fin n → K) (h : a.M = F) : (LR.partial sel a).M = fun i j => F (sel i) (sel j) := by
  rw [← h]; rfl

end NiftyVerif.C12
