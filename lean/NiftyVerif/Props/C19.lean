/-
  C19 — The sampled KL energy is the sample average of the Hamiltonian.

  `H : E → ℝ` is the Hamiltonian on a normed space `E` (the latent space), `rs` the residual samples, `p` the
  expansion point.  `klValue H rs p = (1/n) Σ_r H(p + r)` is what both implementations compute
  (`sample_list._average_2tuple` resp. `reduce(vmap(value_and_grad(ham))(samples.at(p).samples))`).
-/
import NiftyVerif.Lemmas.Kl
import NiftyVerif.Lemmas.KlMetric
import NiftyVerif.Model.Vi
import Mathlib.Analysis.Calculus.FDeriv.Add
import Mathlib.Analysis.Calculus.FDeriv.Prod
import Mathlib.Analysis.Calculus.FDeriv.Comp
import Mathlib.Analysis.Calculus.FDeriv.Mul
import Mathlib.Tactic.Abel
import Mathlib.Tactic.Ring

namespace NiftyVerif.C19
open NiftyVerif

variable {E : Type} [NormedAddCommGroup E] [NormedSpace ℝ E]

/-- sampled KL value -/
noncomputable def klValue (H : E → ℝ) (rs : List E) (p : E) : ℝ :=
  ((rs.length : ℝ))⁻¹ * (rs.map (fun r => H (p + r))).sum

/-- sampled KL gradient as the code forms it: the average of the per-sample gradients -/
noncomputable def klGrad (H' : E → E →L[ℝ] ℝ) (rs : List E) (p : E) : E →L[ℝ] ℝ :=
  ((rs.length : ℝ))⁻¹ • (rs.map (fun r => H' (p + r))).sum

/-- sampled KL metric applied to a tangent: the average of the per-sample metrics -/
noncomputable def klMetric (M : E → E →L[ℝ] E) (rs : List E) (p : E) : E →L[ℝ] E :=
  ((rs.length : ℝ))⁻¹ • (rs.map (fun r => M (p + r))).sum

omit [NormedSpace ℝ E] in
/-- **kl_value_avg**: `n · KL(p) = Σ_r H(p + r)` -/
theorem kl_value_avg (H : E → ℝ) (rs : List E) (hn : rs ≠ []) (p : E) :
    (rs.length : ℝ) * klValue H rs p = (rs.map (fun r => H (p + r))).sum := by
  have : (rs.length : ℝ) ≠ 0 := by
    have := List.length_pos_iff.mpr hn
    exact_mod_cast (Nat.pos_iff_ne_zero.mp this)
  unfold klValue
  rw [← mul_assoc, mul_inv_cancel₀ this, one_mul]

theorem hasFDerivAt_list_sum (H : E → ℝ) (H' : E → E →L[ℝ] ℝ) (hH : ∀ x, HasFDerivAt H (H' x) x) (rs : List E)
    (p : E) : HasFDerivAt (fun q => (rs.map (fun r => H (q + r))).sum) ((rs.map (fun r => H' (p + r))).sum) p := by
  induction rs with
  | nil => simpa using hasFDerivAt_const (0 : ℝ) p
  | cons r rs ih =>
    simp only [List.map_cons, List.sum_cons]
    have h1 : HasFDerivAt (fun q => H (q + r)) (H' (p + r)) p := by
      have := (hH (p + r)).comp p ((hasFDerivAt_id p).add_const r)
      rw [ContinuousLinearMap.comp_id] at this
      exact this
    exact h1.add ih

/-- **kl_grad_avg**: the derivative of the sampled KL w.r.t. the expansion point IS the average of the Hamiltonian's
    derivatives at the samples (what `gradient` / `kl_value_and_grad` return) -/
theorem kl_grad_avg (H : E → ℝ) (H' : E → E →L[ℝ] ℝ) (hH : ∀ x, HasFDerivAt H (H' x) x) (rs : List E) (p : E) :
    HasFDerivAt (klValue H rs) (klGrad H' rs p) p := by
  unfold klValue klGrad
  exact (hasFDerivAt_list_sum H H' hH rs p).const_smul ((rs.length : ℝ))⁻¹

/-- **kl_metric_avg**: the sampled metric applied to a tangent is the average of the per-sample metric applications -/
theorem kl_metric_avg (M : E → E →L[ℝ] E) (rs : List E) (p t : E) :
    klMetric M rs p t = ((rs.length : ℝ))⁻¹ • (rs.map (fun r => M (p + r) t)).sum := by
  unfold klMetric
  rw [FunLike.coe_smul, Pi.smul_apply]
  congr 1
  induction rs with
  | nil => simp
  | cons r rs ih => simp [ih]

/-- **constants**: with the latent space split into liquid × frozen coordinates, the derivative of the KL w.r.t. the liquid
    part at fixed frozen part is the liquid restriction of the full averaged gradient (what `partial_insert_and_remove` /
    `_reduce_by_keys` hand to the minimiser) -/
theorem kl_grad_constants {E₁ E₂ : Type} [NormedAddCommGroup E₁] [NormedSpace ℝ E₁] [NormedAddCommGroup E₂]
    [NormedSpace ℝ E₂] (H : E₁ × E₂ → ℝ) (H' : E₁ × E₂ → (E₁ × E₂) →L[ℝ] ℝ) (hH : ∀ x, HasFDerivAt H (H' x) x)
    (rs : List (E₁ × E₂)) (x : E₁) (c : E₂) :
    HasFDerivAt (fun y : E₁ => klValue H rs (y, c))
      ((klGrad H' rs (x, c)).comp (ContinuousLinearMap.inl ℝ E₁ E₂)) x := by
  have h := kl_grad_avg H H' hH rs (x, c)
  show HasFDerivAt (klValue H rs ∘ fun y : E₁ => (y, c)) _ x
  exact h.comp x (hasFDerivAt_prodMk_left (𝕜 := ℝ) x c)

/-- **kl_metric_posDef**: the sampled KL metric — the average of the per-sample Hamiltonian metrics `L_i + 1` with positive
    semidefinite likelihood metrics `L_i` — is positive definite for every non-empty sample list (a valid curvature for
    the Newton-CG minimiser; its CG solves are well posed) -/
theorem kl_metric_posDef {n : Type} [Fintype n] [DecidableEq n] (Ls : List (Matrix n n ℝ))
    (hL : ∀ L ∈ Ls, L.PosSemidef) (hne : Ls ≠ []) :
    (((Ls.length : ℝ)⁻¹) • (Ls.map (fun L => L + 1)).sum).PosDef :=
  Kl.avg_metric_posDef Ls hL hne

/-! ### list logic of constants / point estimates (`partial_insert_and_remove`) -/

/-- **insert_remove_inverse** and **constants_removed_and_fixed**: inserting the frozen leaves and removing them again returns
    the liquid leaves; the inserted tree holds the frozen values exactly at the masked leaves, in order — so re-inserting the
    constants after a minimisation over the liquid leaves leaves them bit-identical -/
theorem insert_remove_inverse {α : Type} (mask : List Bool) (x fill : List α)
    (hx : x.length + Kl.countTrue mask = mask.length) (hf : fill.length = Kl.countTrue mask) :
    ∃ y, Kl.insert mask x fill = some y ∧ y.length = mask.length ∧ Kl.remove mask y = x ∧ Kl.select mask y = fill := by
  obtain ⟨y, hy, hl⟩ := Kl.insert_isSome mask x fill hx hf
  exact ⟨y, hy, hl, Kl.remove_insert mask x fill y hy hx, Kl.select_insert mask x fill y hy hf⟩

theorem constants_removed_and_fixed {α : Type} (mask : List Bool) (x x' fill y y' : List α)
    (h : Kl.insert mask x fill = some y) (h' : Kl.insert mask x' fill = some y')
    (hf : fill.length = Kl.countTrue mask) : Kl.select mask y' = Kl.select mask y := by
  rw [Kl.select_insert mask x' fill y' h' hf, Kl.select_insert mask x fill y h hf]

/-! ### moving the expansion point -/

/-- `Samples` of nifty.re.evi: optional position and stored residuals -/
structure Samples (V : Type) where
  pos : Option V
  residuals : List V

/-- `Samples.samples`: `pos + residual` (or the stored values when there is no position) -/
def Samples.samples {V : Type} [Add V] (s : Samples V) : List V :=
  match s.pos with
  | some p => s.residuals.map (fun r => p + r)
  | none => s.residuals

/-- `Samples.at(pos, old_pos)` — the three branches of the code; `none` = the `ValueError` -/
def Samples.at {V : Type} [Add V] [Sub V] (s : Samples V) (pos : V) (oldPos : Option V) : Option (Samples V) :=
  match s.pos, oldPos with
  | some _, none => some ⟨some pos, s.residuals⟩
  | _, some op => some ⟨some pos, s.samples.map (fun x => x - op)⟩
  | none, none => none

/-- **at_keeps_residuals**: moving the expansion point keeps the residuals (both ways the code offers) -/
theorem at_keeps_residuals {V : Type} [AddCommGroup V] (s : Samples V) (p q : V) (hp : s.pos = some p) :
    (s.at q none = some ⟨some q, s.residuals⟩) ∧ (s.at q (some p) = some ⟨some q, s.residuals⟩) := by
  constructor
  · simp [Samples.at, hp]
  · simp only [Samples.at, hp, Samples.samples, List.map_map]
    congr 2
    conv_rhs => rw [← List.map_id s.residuals]
    apply List.map_congr_left
    intro r _
    simp

/-! ### mirrored samples -/

/-- **mirrored_average_symmetric**: over mirrored residuals any per-sample quantity sums to the sum of its symmetrised
    version, so the KL only sees the even part of `r ↦ H(p + r)`; flipping all residual signs changes nothing -/
theorem mirrored_average_symmetric {V : Type} [AddCommGroup V] (g : V → ℝ) (rs : List V) :
    ((Vi.mirror Neg.neg rs).map g).sum = (rs.map (fun r => g r + g (-r))).sum
    ∧ ((Vi.mirror Neg.neg (rs.map Neg.neg)).map g).sum = ((Vi.mirror Neg.neg rs).map g).sum := by
  constructor
  · induction rs with
    | nil => simp [Vi.mirror]
    | cons r rs ih =>
      simp only [Vi.mirror, List.flatMap_cons, List.map_append, List.sum_append] at ih ⊢
      rw [ih]; simp [add_assoc]
  · induction rs with
    | nil => simp [Vi.mirror]
    | cons r rs ih =>
      simp only [Vi.mirror, List.flatMap_cons, List.map_append, List.sum_append, List.map_cons] at ih ⊢
      rw [ih]; simp [add_comm]

/-- the classic list stores `(r, neg)` pairs: `mean.flexible_addsub(r, True) = mean + (−r)` — the same sample the JAX list
    holds as `pos + (−r)` -/
theorem classic_local_item {V : Type} [AddCommGroup V] (mean r : V) :
    Kl.localItem mean r true = mean + -r ∧ Kl.localItem mean r false = mean + r := by
  simp [Kl.localItem, sub_eq_add_neg]

/-! ### non-vacuity -/
example : Kl.insert [true, false, true] [(7 : ℤ)] [1, 2] = some [1, 7, 2]
    ∧ Kl.remove [true, false, true] [(1 : ℤ), 7, 2] = [7] ∧ Kl.select [true, false, true] [(1 : ℤ), 7, 2] = [1, 2] := by
  decide

/-- a differentiable Hamiltonian exists: `H x = x²` on ℝ -/
example : ∀ x : ℝ, ∃ f' : ℝ →L[ℝ] ℝ, HasFDerivAt (fun x : ℝ => x * x) f' x := by
  intro x
  exact ⟨_, (hasFDerivAt_id (𝕜 := ℝ) x).mul (hasFDerivAt_id (𝕜 := ℝ) x)⟩

end NiftyVerif.C19
