/-
  C35 — Response operators compute their documented quantity.
  Property theorems only (helpers in Lemmas/Response.lean, Lemmas/Coo.lean, Lemmas/LinOps.lean).
  Obligations are listed in harness/props/c35.py.
-/
import NiftyVerif.Lemmas.Response
import NiftyVerif.Lemmas.LinOps
import NiftyVerif.Props.C02

namespace NiftyVerif.C35
open NiftyVerif NiftyVerif.Coo NiftyVerif.LinOps NiftyVerif.Response

section ordered
variable {F : Type} [Field F] [LinearOrder F] [IsStrictOrderedRing F]

/-- LinearInterpolator: the `2^d` weights `Π_d |1 − e_d − c_d|` of one sampling point add up to one
    (any dimension `d`, any excess `c ∈ [0,1]^d`) -/
theorem interp_weights_sum_one (c : List F) (h : ∀ ci ∈ c, 0 ≤ ci ∧ ci ≤ 1) :
    sumL ((corners c.length).map (cornerWeight c)) = 1 := weights_sum_one c h

/-- multilinear interpolation reproduces every multi-affine function exactly:
    `Σ_{e ∈ {0,1}^d} w_e · f(p + e) = f(p + c)`  (induction on the dimension) -/
theorem interp_exact_multilinear {d : Nat} (f : MultiAff F d) (p c : List F) (hp : p.length = d) (hc : c.length = d)
    (h : ∀ ci ∈ c, 0 ≤ ci ∧ ci ≤ 1) :
    sumL ((corners d).map fun e => cornerWeight c e * f.eval (addCorner p e)) = f.eval (addVec p c) :=
  exact_multiaffine f p c hp hc h

/-- at a grid point the operator returns the grid value: the base corner has weight 1, all others 0 -/
theorem interp_at_gridpoint (d : Nat) (e : List Nat) (he : e ∈ corners d) :
    cornerWeight (List.replicate d (0 : F)) e = if e = List.replicate d 0 then 1 else 0 :=
  weight_at_gridpoint d e he

/-- the model's matrix row is exactly this weighted corner sum over the (periodically wrapped) nodes -/
theorem interp_row_apply (shape : List Nat) (n : Nat) (pos : Nat → List Int) (exc : Nat → List F) (x : Nat → F)
    (r : Nat) (hr : r < n) :
    apply (ofRows n (prodL shape) fun r => interpRow shape (pos r) (exc r)) x r =
      sumL ((corners shape.length).map fun e => cornerWeight (exc r) e * x (ravel shape (wrapIdx shape (pos r) e))) := by
  rw [apply_ofRows]; simp only [hr, if_true, interpRow, List.map_map]; rfl

/-- RegriddingOperator, one axis: exact on affine data `x[k] = α + β·k`, for every output pixel — also at the
    clamped last interval, where the code extrapolates linearly -/
theorem regrid_exact_affine (n N : Nat) (hn : 2 ≤ n) (hN : 0 < N) (α β : F) (j : Nat) (hj : j < N) :
    apply (regrid1 (fun a b => (a : F) / (b : F)) n N) (fun k => α + β * (k : F)) j
      = α + β * ((j * n : Nat) : F) / (N : F) := by
  have hspec := C02.regrid1_spec (K := F) (fun a b => (a : F) / (b : F)) n N (fun k => α + β * (k : F)) j hj
  simp only at hspec
  rw [hspec]
  have hb1 : min (n - 1) (min (n - 2) (j * n / N) + 1) = min (n - 2) (j * n / N) + 1 := by omega
  rw [hb1]
  have hb : min (n - 2) (j * n / N) * N ≤ j * n :=
    le_trans (Nat.mul_le_mul_right _ (Nat.min_le_right _ _)) (Nat.div_mul_le_self _ _)
  have hNF : (N : F) ≠ 0 := by exact_mod_cast (Nat.pos_iff_ne_zero.mp hN)
  rw [Nat.cast_sub hb]
  push_cast
  field_simp
  ring

end ordered

variable {K : Type} [CommRing K]

/-- FieldZeroPadder, plain, one axis: data first, zeros behind -/
theorem pad_plain_spec (n N : Nat) (x : Nat → K) (i : Nat) :
    apply (pad1 n N false) x i = if i < n then x i else 0 := C02.pad1_plain_spec n N x i

/-- FieldZeroPadder, central, one axis: first `n/2+1` entries in front, last `n/2` entries at the end, zeros between -/
theorem pad_central_spec (n N : Nat) (hn : 0 < n) (hnN : n < N) (x : Nat → K) (i : Nat) (hi : i < N) :
    apply (pad1 n N true) x i =
      (if i ≤ n / 2 then x i else 0) + (if N - n / 2 ≤ i then x (i + n - N) else 0) :=
  C02.pad1_central_spec n N hn hnN x i hi

/-- zero padding never changes the sum of the data when `n` is odd or the padding is plain (the integral is preserved
    up to the volume factor); stated for the plain mode: Σ_i (P x)[i] = Σ_{i<n} x[i] -/
theorem pad_plain_sum (n N : Nat) (hnN : n ≤ N) (x : Nat → K) :
    sumN N (apply (pad1 n N false) x) = sumN n x := by
  have h1 : sumN N (apply (pad1 n N false) x) = sumN N (fun i => if i < n then x i else 0) := by
    apply sumN_congr; intro i _; exact C02.pad1_plain_spec n N x i
  rw [h1]
  obtain ⟨k, rfl⟩ := Nat.exists_eq_add_of_le hnN
  clear h1 hnN
  induction k with
  | zero =>
    apply sumN_congr; intro i hi
    have : i < n := by omega
    simp [this]
  | succ k ih =>
    unfold sumN at *
    rw [show n + (k + 1) = (n + k) + 1 from rfl, List.range_succ, List.map_append, sumL_append, ih]
    simp

/-- MaskOperator selects exactly the unflagged pixels, in raveled order: output `r` is the `r`-th unflagged pixel,
    the list of selected pixels is strictly increasing and contains `i` iff `i` is in range and unflagged -/
theorem mask_selects_unflagged (flags : List Bool) (x : Nat → K) :
    (∀ r, r < (unflagged flags).length → apply (mask flags) x r = x ((unflagged flags).getD r 0)) ∧
    (mask flags : Coo K).rows = (unflagged flags).length ∧
    (unflagged flags).Pairwise (· < ·) ∧
    (∀ i, i ∈ unflagged flags ↔ i < flags.length ∧ flags.getD i true = false) :=
  ⟨fun r hr => C02.mask_spec flags x r hr, (C02.mask_rows (K := K) flags)⟩

/-- … and its adjoint fills the flagged pixels with zeros -/
theorem mask_adjoint_zero_fill {cj : K → K} (hc1 : cj 1 = 1) (flags : List Bool) (y : Nat → K) (c : Nat)
    (hfl : c ∉ unflagged flags) : applyAdj cj (mask flags) y c = 0 := C02.mask_adj_flagged hc1 flags y c hfl

/-- LOSResponse (σ = 0), exact traversal model: the weights of one line add up to the length (in the line parameter)
    of the part of the segment that lies inside the grid -/
theorem los_weights_sum (shape : List Nat) (s e : List Rat) (lo hi : Rat) (h : clipBox shape s e = some (lo, hi)) :
    sumL ((losRow shape s e).map Prod.snd) = hi - lo := by
  unfold losRow
  rw [h]
  simp only [List.map_map]
  generalize List.mergeSort _ _ = X
  have hts : [lo] ++ X ++ [hi] = lo :: (X ++ [hi]) := by simp
  rw [hts]
  have := intervals_sum lo (X ++ [hi])
  have hlast : (lo :: (X ++ [hi])).getLast (List.cons_ne_nil _ _) = hi := by simp
  rw [hlast] at this
  rw [← this]
  apply sumL_map_congr; intro ab _; rfl

/-- a line that misses the grid gets no weights -/
theorem los_outside_empty (shape : List Nat) (s e : List Rat) (h : clipBox shape s e = none) :
    losRow shape s e = [] := by unfold losRow; rw [h]

-- non-vacuity: a concrete 2-D interpolation row and a concrete line of sight
example : interpRow [4, 4] [1, 3] [(1/4 : Rat), 1/2] = [(7, 3/8), (4, 3/8), (11, 1/8), (8, 1/8)] := by decide +kernel
example : clipBox [2, 2] [1/2, 1/2] [3/2, 3/2] = some (0, 1) := by decide +kernel

end NiftyVerif.C35
