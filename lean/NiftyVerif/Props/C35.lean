/-
  C35 — Response operators compute their documented quantity.
  Property theorems only (helpers in Lemmas/Response.lean, Lemmas/Coo.lean, Lemmas/LinOps.lean).
  Obligations are listed in harness/props/c35.py.
-/
import NiftyVerif.Lemmas.Response
import NiftyVerif.Lemmas.ResponseLos7
import NiftyVerif.Lemmas.Nft
import NiftyVerif.Lemmas.ResponseSampling
import NiftyVerif.Lemmas.LinOps
import NiftyVerif.Props.C02

namespace NiftyVerif.C35
open NiftyVerif NiftyVerif.Coo NiftyVerif.LinOps NiftyVerif.Response

section ordered
variable {F : Type} [Field F] [LinearOrder F] [IsStrictOrderedRing F]

/-- LinearInterpolator: the `2^d` weights `Π_d |1 − e_d − c_d|` of one sampling point add up to one
    (any dimension `d`, any excess `c ∈ [0,1]^d`) -/
theorem interp_weights_sum_one (c : List F) (h : ∀ ci ∈ c, 0 ≤ ci ∧ ci ≤ 1) :
    sumL ((corners c.length).map (cornerWeight c)) = 1 := weights_sum_one c h

/-- multilinear interpolation reproduces every multi-affine function exactly:
    `Σ_{e ∈ {0,1}^d} w_e · f(p + e) = f(p + c)`  (induction on the dimension) -/
theorem interp_exact_multilinear {d : Nat} (f : MultiAff F d) (p c : List F) (hp : p.length = d) (hc : c.length = d)
    (h : ∀ ci ∈ c, 0 ≤ ci ∧ ci ≤ 1) :
    sumL ((corners d).map fun e => cornerWeight c e * f.eval (addCorner p e)) = f.eval (addVec p c) :=
  exact_multiaffine f p c hp hc h

/-- at a grid point the operator returns the grid value: the base corner has weight 1, all others 0 -/
theorem interp_at_gridpoint (d : Nat) (e : List Nat) (he : e ∈ corners d) :
    cornerWeight (List.replicate d (0 : F)) e = if e = List.replicate d 0 then 1 else 0 :=
  weight_at_gridpoint d e he

/-- the model's matrix row is exactly this weighted corner sum over the (periodically wrapped) nodes -/
theorem interp_row_apply (shape : List Nat) (n : Nat) (pos : Nat → List Int) (exc : Nat → List F) (x : Nat → F)
    (r : Nat) (hr : r < n) :
    apply (ofRows n (prodL shape) fun r => interpRow shape (pos r) (exc r)) x r =
      sumL ((corners shape.length).map fun e => cornerWeight (exc r) e * x (ravel shape (wrapIdx shape (pos r) e))) := by
  rw [apply_ofRows]; simp only [hr, if_true, interpRow, List.map_map]; rfl

/-- RegriddingOperator, one axis: exact on affine data `x[k] = α + β·k`, for every output pixel — also at the
    clamped last interval, where the code extrapolates linearly -/
theorem regrid_exact_affine (n N : Nat) (hn : 2 ≤ n) (hN : 0 < N) (α β : F) (j : Nat) (hj : j < N) :
    apply (regrid1 (fun a b => (a : F) / (b : F)) n N) (fun k => α + β * (k : F)) j
      = α + β * ((j * n : Nat) : F) / (N : F) := by
  have hspec := C02.regrid1_spec (K := F) (fun a b => (a : F) / (b : F)) n N (fun k => α + β * (k : F)) j hj
  simp only at hspec
  rw [hspec]
  have hb1 : min (n - 1) (min (n - 2) (j * n / N) + 1) = min (n - 2) (j * n / N) + 1 := by omega
  rw [hb1]
  have hb : min (n - 2) (j * n / N) * N ≤ j * n :=
    le_trans (Nat.mul_le_mul_right _ (Nat.min_le_right _ _)) (Nat.div_mul_le_self _ _)
  have hNF : (N : F) ≠ 0 := by exact_mod_cast (Nat.pos_iff_ne_zero.mp hN)
  rw [Nat.cast_sub hb]
  push_cast
  field_simp
  ring

end ordered

variable {K : Type} [CommRing K]

/-- FieldZeroPadder, plain, one axis: data first, zeros behind -/
theorem pad_plain_spec (n N : Nat) (x : Nat → K) (i : Nat) :
    apply (pad1 n N false) x i = if i < n then x i else 0 := C02.pad1_plain_spec n N x i

/-- FieldZeroPadder, central, one axis: first `n/2+1` entries in front, last `n/2` entries at the end, zeros between -/
theorem pad_central_spec (n N : Nat) (hn : 0 < n) (hnN : n < N) (x : Nat → K) (i : Nat) (hi : i < N) :
    apply (pad1 n N true) x i =
      (if i ≤ n / 2 then x i else 0) + (if N - n / 2 ≤ i then x (i + n - N) else 0) :=
  C02.pad1_central_spec n N hn hnN x i hi

/-- zero padding never changes the sum of the data when `n` is odd or the padding is plain (the integral is preserved
    up to the volume factor); stated for the plain mode: Σ_i (P x)[i] = Σ_{i<n} x[i] -/
theorem pad_plain_sum (n N : Nat) (hnN : n ≤ N) (x : Nat → K) :
    sumN N (apply (pad1 n N false) x) = sumN n x := by
  have h1 : sumN N (apply (pad1 n N false) x) = sumN N (fun i => if i < n then x i else 0) := by
    apply sumN_congr; intro i _; exact C02.pad1_plain_spec n N x i
  rw [h1]
  obtain ⟨k, rfl⟩ := Nat.exists_eq_add_of_le hnN
  clear h1 hnN
  induction k with
  | zero =>
    apply sumN_congr; intro i hi
    have : i < n := by omega
    simp [this]
  | succ k ih =>
    unfold sumN at *
    rw [show n + (k + 1) = (n + k) + 1 from rfl, List.range_succ, List.map_append, sumL_append, ih]
    simp

/-- MaskOperator selects exactly the unflagged pixels, in raveled order: output `r` is the `r`-th unflagged pixel,
    the list of selected pixels is strictly increasing and contains `i` iff `i` is in range and unflagged -/
theorem mask_selects_unflagged (flags : List Bool) (x : Nat → K) :
    (∀ r, r < (unflagged flags).length → apply (mask flags) x r = x ((unflagged flags).getD r 0)) ∧
    (mask flags : Coo K).rows = (unflagged flags).length ∧
    (unflagged flags).Pairwise (· < ·) ∧
    (∀ i, i ∈ unflagged flags ↔ i < flags.length ∧ flags.getD i true = false) :=
  ⟨fun r hr => C02.mask_spec flags x r hr, (C02.mask_rows (K := K) flags)⟩

/-- … and its adjoint fills the flagged pixels with zeros -/
theorem mask_adjoint_zero_fill {cj : K → K} (hc1 : cj 1 = 1) (flags : List Bool) (y : Nat → K) (c : Nat)
    (hfl : c ∉ unflagged flags) : applyAdj cj (mask flags) y c = 0 := C02.mask_adj_flagged hc1 flags y c hfl

/-- LOSResponse (σ = 0), exact traversal model: the weights of one line add up to the length (in the line parameter)
    of the part of the segment that lies inside the grid -/
theorem los_weights_sum (shape : List Nat) (s e : List Rat) (lo hi : Rat) (h : clipBox shape s e = some (lo, hi)) :
    sumL ((losRow shape s e).map Prod.snd) = hi - lo := by
  unfold losRow
  rw [h]
  show sumL ((losSeg shape s e lo hi).map Prod.snd) = hi - lo
  unfold losSeg
  simp only [List.map_map]
  generalize List.mergeSort _ _ = X
  have hts : [lo] ++ X ++ [hi] = lo :: (X ++ [hi]) := by simp
  rw [hts]
  have := intervals_sum lo (X ++ [hi])
  have hlast : (lo :: (X ++ [hi])).getLast (List.cons_ne_nil _ _) = hi := by simp
  rw [hlast] at this
  rw [← this]
  apply sumL_map_congr; intro ab _; rfl

/-- a line that misses the grid gets no weights -/
theorem los_outside_empty (shape : List Nat) (s e : List Rat) (h : clipBox shape s e = none) :
    losRow shape s e = [] := by unfold losRow; rw [h]

/-! ### LOSResponse: the transcription of `_comp_traverse` (Model/ResponseLos.lean) against the independent model -/
section los
open NiftyVerif.ResponseLos

/-- **Refinement.**  `traverse eps` is the statement-by-statement transcription of `_comp_traverse` (clipping `d0/d1/dmin/dmax`
    with the `direction == 0` sentinel, the `eps = 1e-7` end-point shrink, `c_first`, `np.arange` crossing parameters per axis,
    the argsort merge, `pos1`, cumulative `±inc` steps, `np.diff`).  For every `eps ≥ 0`, every dimension and shape: if the shrunk
    interval `[dmin+eps, dmax−eps]` is not empty, the point at `dmin+eps` lies on no grid plane of a moving axis, and no two
    crossing parameters coincide (the line passes through no grid edge/corner), then the code's `(pixel, weight)` list IS the list
    of the independent segment model `losSeg` on that parameter interval: the sub-segments between consecutive plane crossings,
    each attributed to the pixel containing its midpoint.  (`eps = 0`: see `los_traverse_refines_zero`; the hypothesis at the entry
    point then excludes lines that start outside the grid — which is exactly why the code needs its `1e-7`.) -/
theorem los_traverse_refines (eps : ℚ) (heps : 0 ≤ eps) (shape : List ℕ) (s e : List ℚ)
    (hl1 : shape.length = s.length) (hl2 : s.length = e.length)
    (hne : (clipT shape s (dirOf s e)).1 + eps < (clipT shape s (dirOf s e)).2 - eps)
    (hgen : ∀ se ∈ s.zip e, se.2 - se.1 ≠ 0 → ¬ Cross se.1 (se.2 - se.1) ((clipT shape s (dirOf s e)).1 + eps))
    (hnd : ((events shape s (dirOf s e) ((clipT shape s (dirOf s e)).1 + eps)
              ((clipT shape s (dirOf s e)).2 - eps)).map Prod.fst).Nodup) :
    ResponseLos.traverse eps shape s e =
      (losSeg shape s e ((clipT shape s (dirOf s e)).1 + eps) ((clipT shape s (dirOf s e)).2 - eps)).map
        fun p => ((p.1 : ℤ), p.2) := by
  have hlt : (clipT shape s (dirOf s e)).1 < (clipT shape s (dirOf s e)).2 := by linarith
  have hnn : ∀ se ∈ s.zip e, 0 ≤ se.1 + ((clipT shape s (dirOf s e)).1 + eps) * (se.2 - se.1) ∧
      0 ≤ se.1 + ((clipT shape s (dirOf s e)).2 - eps) * (se.2 - se.1) := by
    intro se hse
    obtain ⟨a, ha, h1, h2⟩ := boxAxes_zip shape s e hl1 hl2 se hse
    have i1 := clipT_inside shape s (dirOf s e) hlt ((clipT shape s (dirOf s e)).1 + eps) (by linarith) (by linarith) a ha
    have i2 := clipT_inside shape s (dirOf s e) hlt ((clipT shape s (dirOf s e)).2 - eps) (by linarith) (by linarith) a ha
    rw [h1, h2] at i1 i2
    exact ⟨i1.1, i2.1⟩
  have key := traverseFrom_eq_losSeg shape s e _ _ hl1 hl2 hne hnn hgen hnd
  rw [traverse_eq]
  rw [if_neg (not_le.mpr hne)]
  exact key

/-- the `eps = 0` instance: the transcribed traversal equals the independent model on the whole clipped segment -/
theorem los_traverse_refines_zero (shape : List ℕ) (s e : List ℚ)
    (hl1 : shape.length = s.length) (hl2 : s.length = e.length)
    (hne : (clipT shape s (dirOf s e)).1 < (clipT shape s (dirOf s e)).2)
    (hgen : ∀ se ∈ s.zip e, se.2 - se.1 ≠ 0 → ¬ Cross se.1 (se.2 - se.1) (clipT shape s (dirOf s e)).1)
    (hnd : ((events shape s (dirOf s e) (clipT shape s (dirOf s e)).1 (clipT shape s (dirOf s e)).2).map Prod.fst).Nodup) :
    ResponseLos.traverse 0 shape s e =
      (losSeg shape s e (clipT shape s (dirOf s e)).1 (clipT shape s (dirOf s e)).2).map fun p => ((p.1 : ℤ), p.2) := by
  have := los_traverse_refines 0 le_rfl shape s e hl1 hl2 (by simpa using hne) (by simpa using hgen) (by simpa using hnd)
  simpa using this

/-- the weights the code emits for one line add up to the length of the traversed parameter interval — EVERY input, no
    genericity (ties in the argsort, lines through corners, start on a grid plane included) -/
theorem los_traverse_weights_sum (eps : ℚ) (shape : List ℕ) (s e : List ℚ)
    (hne : (clipT shape s (dirOf s e)).1 + eps < (clipT shape s (dirOf s e)).2 - eps) :
    sumL ((ResponseLos.traverse eps shape s e).map Prod.snd) =
      ((clipT shape s (dirOf s e)).2 - eps) - ((clipT shape s (dirOf s e)).1 + eps) := by
  rw [traverse_eq]
  rw [if_neg (not_le.mpr hne)]
  exact traverseFrom_weights_sum shape s _ _ _

/-- … and each of them is non-negative — every input -/
theorem los_traverse_weights_nonneg (eps : ℚ) (shape : List ℕ) (s e : List ℚ) :
    ∀ p ∈ ResponseLos.traverse eps shape s e, 0 ≤ p.2 := by
  rw [traverse_eq]
  split
  · simp
  · rename_i h
    exact traverseFrom_weights_nonneg shape s _ _ _ (le_of_lt (not_le.mp h))

/-- every step of the emitted pixel sequence is `±inc[j]` of one moving axis `j` (consecutive pixels are face neighbours along
    that axis, and the sign is the sign of the direction) — every input -/
theorem los_traverse_steps (eps : ℚ) (shape : List ℕ) (s e : List ℚ) :
    StepsOK (axes shape s (dirOf s e)) ((ResponseLos.traverse eps shape s e).map Prod.fst) := by
  rw [traverse_eq]
  split
  · simp [StepsOK]
  · exact traverseFrom_steps shape s _ _ _

/-- the first emitted pixel is the pixel that contains the (shrunk) entry point `start + (dmin+eps)·direction` -/
theorem los_traverse_first_pixel (eps : ℚ) (heps : 0 ≤ eps) (shape : List ℕ) (s e : List ℚ)
    (hl1 : shape.length = s.length) (hl2 : s.length = e.length)
    (hne : (clipT shape s (dirOf s e)).1 + eps < (clipT shape s (dirOf s e)).2 - eps) :
    ((ResponseLos.traverse eps shape s e).map Prod.fst).head? =
      some (flatF ((clipT shape s (dirOf s e)).1 + eps) (axes shape s (dirOf s e))) := by
  have hlt : (clipT shape s (dirOf s e)).1 < (clipT shape s (dirOf s e)).2 := by linarith
  rw [traverse_eq]
  rw [if_neg (not_le.mpr hne)]
  refine traverseFrom_first shape s _ _ _ ?_
  refine axes_forall (fun s d => 0 ≤ s + ((clipT shape _ _).1 + eps) * d) shape s e ?_
  intro se hse
  obtain ⟨a, ha, h1, h2⟩ := boxAxes_zip shape s e hl1 hl2 se hse
  have i1 := clipT_inside shape s (dirOf s e) hlt ((clipT shape s (dirOf s e)).1 + eps) (by linarith) (by linarith) a ha
  rw [h1, h2] at i1
  exact i1.1

/-- every point of the code's clipped parameter interval lies inside the grid box `[0, shape]` (incl. the `direction == 0`
    sentinel `±5·10¹¹` logic) -/
theorem los_clip_inside (shape : List ℕ) (s dir : List ℚ) (hlt : (clipT shape s dir).1 < (clipT shape s dir).2) (t : ℚ)
    (h1 : (clipT shape s dir).1 ≤ t) (h2 : t ≤ (clipT shape s dir).2) :
    ∀ a ∈ boxAxes shape s dir, 0 ≤ a.2.1 + t * a.2.2 ∧ a.2.1 + t * a.2.2 ≤ (a.1 : ℚ) :=
  clipT_inside shape s dir hlt t h1 h2

/-- every pixel index the code emits for a generic line lies inside the grid `[0, Π shape)` (so `coo_matrix` never sees an
    out-of-range column) — same hypotheses as the refinement theorem, all axis lengths positive -/
theorem los_traverse_in_grid (eps : ℚ) (heps : 0 ≤ eps) (shape : List ℕ) (s e : List ℚ)
    (hl1 : shape.length = s.length) (hl2 : s.length = e.length) (hn : ∀ n ∈ shape, 0 < n)
    (hne : (clipT shape s (dirOf s e)).1 + eps < (clipT shape s (dirOf s e)).2 - eps)
    (hgen : ∀ se ∈ s.zip e, se.2 - se.1 ≠ 0 → ¬ Cross se.1 (se.2 - se.1) ((clipT shape s (dirOf s e)).1 + eps))
    (hnd : ((events shape s (dirOf s e) ((clipT shape s (dirOf s e)).1 + eps)
              ((clipT shape s (dirOf s e)).2 - eps)).map Prod.fst).Nodup) :
    ∀ p ∈ ResponseLos.traverse eps shape s e, 0 ≤ p.1 ∧ p.1 < (prodL shape : ℤ) := by
  have hlt : (clipT shape s (dirOf s e)).1 < (clipT shape s (dirOf s e)).2 := by linarith
  have hnn : ∀ se ∈ s.zip e, 0 ≤ se.1 + ((clipT shape s (dirOf s e)).1 + eps) * (se.2 - se.1) := by
    intro se hse
    obtain ⟨a, ha, h1, h2⟩ := boxAxes_zip shape s e hl1 hl2 se hse
    have i1 := clipT_inside shape s (dirOf s e) hlt ((clipT shape s (dirOf s e)).1 + eps) (by linarith) (by linarith) a ha
    rw [h1, h2] at i1
    exact i1.1
  obtain ⟨L, hLs, hLb, hw⟩ := traverseFrom_is_walk shape s e _ _ hne hnn hgen hnd
  rw [traverse_eq, if_neg (not_le.mpr hne), hw]
  intro p hp
  obtain ⟨m, h1, h2, h3⟩ := walkG_mem _ _ L _ hne hLs hLb p hp
  rw [h3]
  exact flatF_in_grid m shape s (dirOf s e) hn
    (clipT_inside_strict shape s (dirOf s e) hn m (by linarith) (by linarith))

/-- the `generic` flag the driver computes for every generated line (and the harness uses to decide whether the two Lean models
    must agree exactly) is precisely the pair of hypotheses of `los_traverse_refines` -/
theorem los_generic_flag_sound (shape : List ℕ) (s e : List ℚ) (lo hi : ℚ) (h : genericOn shape s (dirOf s e) lo hi = true) :
    ((events shape s (dirOf s e) lo hi).map Prod.fst).Nodup ∧
    ∀ se ∈ s.zip e, se.2 - se.1 ≠ 0 → ¬ Cross se.1 (se.2 - se.1) lo := genericOn_spec shape s e lo hi h

/-- **matrix level** (`LOSResponse.__init__`): if every line either misses the grid (empty shrunk interval) or is generic, the COO
    triples handed to `coo_matrix` are, row by row, the `(pixel, Δt)` lists of the independent segment model on the shrunk
    intervals, and no index is out of range (`losInit` does not return `none` = `ValueError`) -/
theorem los_init_refines (eps : ℚ) (heps : 0 ≤ eps) (shape : List ℕ) (hn : ∀ n ∈ shape, 0 < n) (dist : List ℚ)
    (starts ends : List (List ℚ))
    (hrows : ∀ r, r < starts.length → RowOK eps shape (toPix (starts.getD r []) dist) (toPix (ends.getD r []) dist)) :
    losInit eps shape dist starts ends = some ⟨starts.length, prodL shape,
      (List.range starts.length).flatMap fun r =>
        (segRow eps shape (toPix (starts.getD r []) dist) (toPix (ends.getD r []) dist)).map fun p => (r, p.1, p.2)⟩ :=
  losInit_refines eps heps shape hn dist starts ends hrows

/-- the code's clipping (`d0/d1`, `np.minimum/np.maximum`, the `direction == 0` sentinel `±5·10¹¹`, `max(0,·)`, `min(1,·)`,
    `max(dmin, dmax)`) computes exactly the parameter interval of the independent `clipBox` — every dimension and shape with
    positive axis lengths, every start/end -/
theorem los_clip_eq_clipBox (shape : List ℕ) (s e : List ℚ) (hn : ∀ n ∈ shape, 0 < n) :
    clipBox shape s e =
      if (clipT shape s (dirOf s e)).1 < (clipT shape s (dirOf s e)).2 then some (clipT shape s (dirOf s e)) else none :=
  clipBox_eq_clipT shape s e hn

/-- **`eps = 0`, against `losRow`**: for a generic line that starts inside the grid the transcription of `_comp_traverse`
    emits exactly the `(pixel, Δt)` list of the independent exact traversal model (the one `los_weights_sum` is about) -/
theorem los_traverse_refines_losRow (shape : List ℕ) (s e : List ℚ)
    (hl1 : shape.length = s.length) (hl2 : s.length = e.length) (hn : ∀ n ∈ shape, 0 < n)
    (hne : (clipT shape s (dirOf s e)).1 < (clipT shape s (dirOf s e)).2)
    (hgen : ∀ se ∈ s.zip e, se.2 - se.1 ≠ 0 → ¬ Cross se.1 (se.2 - se.1) (clipT shape s (dirOf s e)).1)
    (hnd : ((events shape s (dirOf s e) (clipT shape s (dirOf s e)).1 (clipT shape s (dirOf s e)).2).map Prod.fst).Nodup) :
    ResponseLos.traverse 0 shape s e = (losRow shape s e).map fun p => ((p.1 : ℤ), p.2) := by
  have hc := clipBox_eq_clipT shape s e hn
  rw [if_pos hne] at hc
  rw [los_traverse_refines_zero shape s e hl1 hl2 hne hgen hnd]
  unfold losRow
  rw [hc]

-- non-vacuity: a 2-D line from inside pixel (0,0) to pixel (2,1) of a 3×2 grid meets every hypothesis of the refinement theorem
-- (`List.mergeSort` is defined by well-founded recursion and does not reduce in the kernel, so the two sides are not evaluated
--  here; the driver evaluates both on every generated line and the harness compares them — `los-refine-compared` in the evidence)
example : ResponseLos.traverse 0 [3, 2] [3/4, 3/4] [13/4, 2] =
    (losSeg [3, 2] [3/4, 3/4] [13/4, 2] (clipT [3, 2] [3/4, 3/4] (dirOf [3/4, 3/4] [13/4, 2])).1
      (clipT [3, 2] [3/4, 3/4] (dirOf [3/4, 3/4] [13/4, 2])).2).map fun p => ((p.1 : ℤ), p.2) :=
  los_traverse_refines_zero [3, 2] [3/4, 3/4] [13/4, 2] rfl rfl (by decide +kernel)
    (genEntryB_spec _ _ _ (by decide +kernel)) (by decide +kernel)
example : clipT [3, 2] [3/4, 3/4] (dirOf [3/4, 3/4] [13/4, 2]) = (0, 9/10) := by decide +kernel
example : clipBox [3, 2] [3/4, 3/4] [13/4, 2] = some (0, 9/10) := by decide +kernel
example : (events [3, 2] [3/4, 3/4] (dirOf [3/4, 3/4] [13/4, 2]) 0 (9/10)).map Prod.fst = [1/10, 1/2, 1/5] := by decide +kernel
-- the point excluded by the `eps = 0` hypothesis `hgen`: a line entering through the low face (entry point ON a grid plane); there
-- the code without its 1e-7 would emit a zero-length first segment and shift every later pixel by one row (driver output for
-- `traverse 0 [3,2] [0,5/6] [4,13/6]`: pixels 0,2,3,5,7 — pixel 7 does not exist), with eps = 1e-7: pixels 0,1,3,5
example : genericOn [3, 2] [3/4, 3/4] (dirOf [3/4, 3/4] [13/4, 2]) 0 (9/10) = true := by decide +kernel
example : RowOK 0 [3, 2] [3/4, 3/4] [13/4, 2] :=
  have h : genericOn [3, 2] [3/4, 3/4] (dirOf [3/4, 3/4] [13/4, 2]) ((clipT [3, 2] [3/4, 3/4] (dirOf [3/4, 3/4] [13/4, 2])).1 + 0)
      ((clipT [3, 2] [3/4, 3/4] (dirOf [3/4, 3/4] [13/4, 2])).2 - 0) = true := by decide +kernel
  Or.inr ⟨rfl, rfl, (genericOn_spec _ _ _ _ _ h).2, (genericOn_spec _ _ _ _ _ h).1⟩
example : genEntryB [0, 5/6] [4, 13/6] 0 = false := by decide +kernel
example : genEntryB [0, 5/6] [4, 13/6] (1/10000000) = true := by decide +kernel

end los

/-! ### nifty.re SamplingCartesianGridLOS (Model/ResponseSampling.lean: transcription of `sampling_los.py::_los`) -/
section sampling
open NiftyVerif.ResponseSampling

/-- the sampled line of sight (`n` midpoint samples, `map_coordinates(order=1)`) is EXACT on affine fields: whenever every sampling
    point lies inside the array (no nan), `_los` returns the field value at the midpoint of the segment (in index coordinates
    `x·(shape−1)/shape/distances`) times `‖end − start‖` (that factor is applied outside the model) — any dimension, shape, `n > 0` -/
theorem sampling_los_exact_affine (shape : List ℕ) (dist : List ℚ) (c0 : ℚ) (cs : List ℚ) (start stop : List ℚ) (n : ℕ)
    (hn : 0 < n)
    (hl1 : (mulV start (l2i shape dist)).length = cs.length) (hl2 : (mulV stop (l2i shape dist)).length = cs.length)
    (hvalid : ∀ k, k < n → validCell shape
      ((samplePoint n k (mulV start (l2i shape dist)) (mulV stop (l2i shape dist))).map Rat.floor) = true) :
    samplingLos shape dist (fun idx => affL c0 cs (idx.map fun i : ℤ => (i : ℚ))) start stop n =
      some (affL c0 cs (midV (mulV start (l2i shape dist)) (mulV stop (l2i shape dist)))) :=
  samplingLos_exact_affine shape dist c0 cs start stop n hn hl1 hl2 hvalid

/-- `map_coordinates(order=1)` reproduces every multi-affine field exactly at every point inside the array -/
theorem sampling_interp_exact_multiaffine {d : ℕ} (f : MultiAff ℚ d) (shape : List ℕ) (p : List ℚ) (hp : p.length = d)
    (hv : validCell shape (p.map Rat.floor) = true) :
    mapCoord1 shape (fun idx => f.eval (idx.map fun i : ℤ => (i : ℚ))) p = some (f.eval p) :=
  mapCoord1_multiaff f shape _ p hp hv (fun _ _ => rfl)

-- non-vacuity: 1-D, three pixels, two samples, field 2 + 3·i: index-space segment [1/3, 5/3], midpoint 1, value 5
example : samplingLos [3] [1] (fun idx => affL 2 [3] (idx.map fun i : ℤ => (i : ℚ))) [1/2] [5/2] 2 = some 5 := by decide +kernel
example : validCell [3] ((samplePoint 2 1 (mulV [1/2] (l2i [3] [1])) (mulV [5/2] (l2i [3] [1]))).map Rat.floor) = true := by
  decide +kernel
-- a sampling point in the last cell row (index ≥ n−1): nan in the code, `none` in the model
example : samplingLos [3] [1] (fun _ => 1) [1/2] [4] 2 = none := by decide +kernel

end sampling

/-! ### Nufft / Gridder / VariablePositionNufft: explicit Fourier sums on a rational lattice (Model/Nft.lean) -/
section nft
open NiftyVerif.Nft

/-- the matrix `E[k, j] = ω^{m_kj}`, `m_kj = Σ_d (k_d − N_d/2)·a_{j,d} mod M`, and the adjoint the operators use
    (`Nufft.adjoint_times`, `Gridder.adjoint_times`, `VariablePositionNufft`) form an adjoint pair; the adjoint entries are the
    conjugates `ω^{(M − m) mod M}` (conjugate transpose, `conj ω = ω⁻¹`) -/
theorem nft_adjoint {cj : K → K} (hc : IsConj cj) {w : K} {M : Nat} (hM : 0 < M) (hw : w ^ M = 1) (hcw : cj w * w = 1)
    (shape : List Nat) (a : List (List Int)) :
    (∀ x y : Nat → K, inner cj (prodL shape) y (apply (nftCoo w M shape a) x)
        = inner cj a.length (applyAdj cj (nftCoo w M shape a) y) x) ∧
    (∀ r j, r < prodL shape → j < a.length →
        dense (adj cj (nftCoo w M shape a)) j r = w ^ ((M - nftExpAt M shape a r j) % M)) :=
  ⟨fun x y => Nft.nft_adjoint hc w M shape a x y, fun r j hr hj => nft_adjoint_dense hc hM hw hcw shape a r j hr hj⟩

/-- what the driver returns (coefficient lists, no ω needed) evaluates to the matrix-vector products `E·x` and `Eᴴ·y` -/
theorem nft_mono_apply_spec {cj : K → K} (hc : IsConj cj) {w : K} {M : Nat} (hM : 0 < M) (hw : w ^ M = 1) (hcw : cj w * w = 1)
    (shape : List Nat) (a : List (List Int)) (x y : Nat → K) :
    (∀ r, r < prodL shape → evalPoly w (monoApply M shape a x r) = apply (nftCoo w M shape a) x r) ∧
    (∀ j, j < a.length → evalPoly w (monoApplyAdj M shape a y j) = applyAdj cj (nftCoo w M shape a) y j) :=
  ⟨fun r hr => nft_mono_apply w hM shape a x r hr, fun j hj => nft_mono_applyAdj hc hM hw hcw shape a y j hj⟩

/-- positions on the FFT grid give the (centred) DFT matrix: 1-D closed form `E[k,j] = ω^{kj}·ω^{(N − N/2) j}` … -/
theorem nft_on_grid_is_dft {w : K} {N : Nat} (hw : w ^ N = 1) (k j : Nat) (hk : k < N) (hj : j < N) :
    dense (nftCoo w N [N] (dftPos N)) k j = w ^ (k * j) * w ^ ((N - N / 2) * j) :=
  Nft.nft_on_grid_is_dft hw k j hk hj

/-- … and in every dimension, for every shape: the entry is the product over the axes of `(ω^{M/N_d})^{(k_d − N_d/2)·j_d}` -/
theorem nft_on_grid_is_dft_nd {u : Kˣ} {M : Nat} (hM : 0 < M) (hu : u ^ M = 1) (shape : List Nat)
    (r c : Nat) (hr : r < prodL shape) (hc : c < prodL shape) :
    dense (nftCoo (u : K) M shape (gridPos M shape)) r c
      = ((dftProd u M shape (unravel shape r) (unravel shape c) : Kˣ) : K) :=
  Nft.nft_on_grid_is_dft_nd hM hu shape r c hr hc

/-- periodicity: shifting any position coordinate by whole periods (`a_{j,d} ↦ a_{j,d} + M·z`, i.e. `pos ↦ pos + z/dst_d`)
    leaves the matrix unchanged -/
theorem nft_shift (w : K) (M : Nat) (z : Nat → Nat → Int) (shape : List Nat) (a : List (List Int)) :
    nftCoo w M shape (shiftPos M z a) = nftCoo w M shape a := Nft.nft_shift w M z shape a

/-- over ℂ with `ω = e^{2πi/M}` the model entry is the documented phase `exp(2πi·Σ_d (k_d − N_d/2)·a_{j,d}/M)` -/
theorem nft_entry_is_phase {M : Nat} (hM : 0 < M) (shape : List Nat) (a : List (List Int)) (r j : Nat)
    (hr : r < prodL shape) (hj : j < a.length) :
    dense (nftCoo (omegaC M) M shape a) r j
      = Complex.exp (2 * Real.pi * Complex.I * ((phase shape (unravel shape r) (a.getD j []) : Int) : ℂ) / M) :=
  nft_entry_complex hM shape a r j hr hj

-- non-vacuity over the Gaussian rationals (M = 4, ω = i): a 1-D table with an odd axis and its coefficient lists
example : (CQ.I : CQ) ^ 4 = 1 ∧ CQ.conj CQ.I * CQ.I = 1 := ⟨cqI_root, cqI_conj⟩
example : nftExp 4 [3] [[1], [-2]] = [(0, 0, 3), (0, 1, 2), (1, 0, 0), (1, 1, 0), (2, 0, 1), (2, 1, 2)] := by decide +kernel

end nft

-- non-vacuity: a concrete 2-D interpolation row and a concrete line of sight
example : interpRow [4, 4] [1, 3] [(1/4 : Rat), 1/2] = [(7, 3/8), (4, 3/8), (11, 1/8), (8, 1/8)] := by decide +kernel
example : clipBox [2, 2] [1/2, 1/2] [3/2, 3/2] = some (0, 1) := by decide +kernel

end NiftyVerif.C35
