/-
  C03 — the point-wise table at the kink of `sinc`: the helper stores derivative 0 at v = 0, and that IS the
  derivative of `np.sinc` there (so `sinc` needs no excluded point).
-/
import NiftyVerif.Props.C03Ptw
import Mathlib.Analysis.SpecialFunctions.Trigonometric.Sinc
import Mathlib.Analysis.Asymptotics.Lemmas

set_option linter.unusedSimpArgs false
namespace NiftyVerif.C03
open NiftyVerif NiftyVerif.Gen.Ptw NiftyVerif.TranscReal

/-- `|sinc x - 1| ≤ x²` for `|x| ≤ 1` -/
theorem abs_sinc_sub_one_le (x : ℝ) (hx : |x| ≤ 1) : |Real.sinc x - 1| ≤ x ^ 2 := by
  by_cases h0 : x = 0
  · subst h0; simp [Real.sinc_zero]
  · have hb := Real.sin_bound hx
    have hxpos : 0 < |x| := abs_pos.mpr h0
    have h1 : |Real.sin x - x| ≤ |x| ^ 3 := by
      have e : Real.sin x - x = (Real.sin x - (x - x ^ 3 / 6)) - x ^ 3 / 6 := by ring
      rw [e]
      have h2 : |x ^ 3 / 6| = |x| ^ 3 / 6 := by rw [abs_div, abs_pow]; norm_num
      have h3 : |x| ^ 5 ≤ |x| ^ 3 := pow_le_pow_of_le_one (abs_nonneg x) hx (by norm_num)
      calc |Real.sin x - (x - x ^ 3 / 6) - x ^ 3 / 6|
          ≤ |Real.sin x - (x - x ^ 3 / 6)| + |x ^ 3 / 6| := abs_sub _ _
        _ ≤ |x| ^ 5 / 100 + |x| ^ 3 / 6 := by rw [h2]; exact add_le_add hb le_rfl
        _ ≤ |x| ^ 3 := by nlinarith [pow_nonneg (abs_nonneg x) 3]
    rw [Real.sinc_of_ne_zero h0]
    have e : Real.sin x / x - 1 = (Real.sin x - x) / x := by field_simp
    rw [e, abs_div]
    rw [div_le_iff₀ hxpos]
    calc |Real.sin x - x| ≤ |x| ^ 3 := h1
      _ = x ^ 2 * |x| := by rw [← sq_abs x]; ring

theorem hasDerivAt_sinc_zero : HasDerivAt Real.sinc 0 0 := by
  rw [hasDerivAt_iff_isLittleO_nhds_zero]
  simp only [zero_add, Real.sinc_zero, smul_zero, sub_zero]
  have hO : (fun h : ℝ => Real.sinc h - 1) =O[nhds 0] fun h => h ^ 2 := by
    apply Asymptotics.IsBigO.of_bound 1
    have : ∀ᶠ h : ℝ in nhds 0, |h| ≤ 1 := by
      have := Metric.ball_mem_nhds (0 : ℝ) one_pos
      filter_upwards [this] with h hh
      simp only [Metric.mem_ball, dist_zero_right, Real.norm_eq_abs] at hh
      exact hh.le
    filter_upwards [this] with h hh
    simp only [Real.norm_eq_abs, one_mul, abs_pow, sq_abs]
    exact abs_sinc_sub_one_le h hh
  exact hO.trans_isLittleO (Asymptotics.isLittleO_pow_id (by norm_num))

theorem val_sinc_eq (v : ℝ) : val_sinc v = Real.sinc (Real.pi * v) := by
  simp only [val_sinc, Np.sinc, sci_0, sci_1, sin_eq, pi_eq, Real.sinc]
  by_cases h : v = 0
  · subst h; simp
  · have hv : v < 0 ∨ 0 < v := lt_or_gt_of_ne h
    have hp : Real.pi * v ≠ 0 := mul_ne_zero Real.pi_ne_zero h
    simp [hv, hp]

/-- `sinc` at its kink: the stored derivative 0 is the true derivative of `np.sinc` at 0 -/
theorem ptw_hasDerivAt_sinc_zero : HasDerivAt (fun v : ℝ => val_sinc v) (der_sinc 0) 0 := by
  rw [ptw_kink_sinc]
  have e : (fun v : ℝ => val_sinc v) = fun v => Real.sinc (Real.pi * v) := by funext v; exact val_sinc_eq v
  rw [e]
  have hin : HasDerivAt (fun v : ℝ => Real.pi * v) Real.pi 0 := by
    simpa using (hasDerivAt_id' (0 : ℝ)).const_mul Real.pi
  have h0 : HasDerivAt Real.sinc 0 (Real.pi * 0) := by simpa using hasDerivAt_sinc_zero
  have := HasDerivAt.comp (h₂ := Real.sinc) (h := fun v : ℝ => Real.pi * v) 0 h0 hin
  exact HasDerivAt.congr_deriv this (zero_mul _)

end NiftyVerif.C03
