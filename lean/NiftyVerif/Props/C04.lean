/-
  C04 — Fixing part of the input preserves value, Jacobian (and the gradient never sees constant keys).
  Theorems about `Model/PartialEval.lean` (`pe` = `simplify_for_constant_input`, `linPartial` = `make_partial_var`).

  Obligations (harness/props/c04.py):
    pe_sound                value of the simplified operator = value of the original with the constants inserted
    pe_jac                  Jacobian of the simplified operator = Jacobian of the original applied to tangents that
                            vanish on the constant keys (K = ℝ)
    pe_target               the target domain is unchanged
    pe_keys                 the simplified operator reads exactly the non-constant keys of the original
    partialVar_grad_zero    gradient / adjoint components of constant keys vanish under `make_partial_var`
    partialVar_eq_pe        `make_partial_var` and `simplify_for_constant_input` give the same Jacobian
    energyAdapter_constants EnergyAdapter(position, op, constants): value at the reduced position = op(position)
-/
import NiftyVerif.Model.PartialEval
import NiftyVerif.Props.C03

set_option linter.unusedSimpArgs false
set_option linter.unusedVariables false
set_option linter.unusedSectionVars false
namespace NiftyVerif.C04
open NiftyVerif NiftyVerif.Gen.Ptw NiftyVerif.Expr

/-! ### environments agreeing on the keys an expression reads -/

section generic
variable {K : Type} [Zero K] [Add K] [Sub K] [Mul K] [Div K] [Neg K] [OfScientific K]
  [LT K] [DecidableLT K] [LE K] [DecidableLE K] [Transc K] [Conj K]

def AgreeOn (d : Dom) (ρ1 ρ2 : MVal K) : Prop := ∀ kn ∈ d, ρ1 kn.1 = ρ2 kn.1

theorem agree_union_left {a b : Dom} {ρ1 ρ2 : MVal K} (h : AgreeOn (a.union b) ρ1 ρ2) : AgreeOn a ρ1 ρ2 :=
  fun kn hk => h kn (List.mem_append_left _ hk)

theorem agree_union_right {a b : Dom} {ρ1 ρ2 : MVal K} (h : AgreeOn (a.union b) ρ1 ρ2) : AgreeOn b ρ1 ρ2 := by
  intro kn hk
  by_cases hin : a.any (fun kn' => kn'.1 == kn.1) = true
  · obtain ⟨kn', hk', he⟩ := List.any_eq_true.mp hin
    have : kn'.1 = kn.1 := by simpa using he
    rw [← this]; exact h kn' (List.mem_append_left _ hk')
  · apply h kn
    apply List.mem_append_right
    simp only [List.mem_filter]
    refine ⟨hk, ?_⟩
    cases hc : a.any (fun kn' => kn'.1 == kn.1)
    · rfl
    · exact (hin hc).elim

theorem eval_congr (e : Ex K) : ∀ (ρ1 ρ2 : MVal K), AgreeOn e.inDom ρ1 ρ2 → eval e ρ1 = eval e ρ2 := by
  induction e with
  | var k n => intro ρ1 ρ2 h; simp only [eval]; rw [h (k, n) (by simp [Ex.inDom])]
  | add a b iha ihb =>
    intro ρ1 ρ2 h; simp only [eval]; rw [iha _ _ (agree_union_left h), ihb _ _ (agree_union_right h)]
  | sub a b iha ihb =>
    intro ρ1 ρ2 h; simp only [eval]; rw [iha _ _ (agree_union_left h), ihb _ _ (agree_union_right h)]
  | mul a b iha ihb =>
    intro ρ1 ρ2 h; simp only [eval]; rw [iha _ _ (agree_union_left h), ihb _ _ (agree_union_right h)]
  | scale c a iha => intro ρ1 ρ2 h; simp only [eval]; rw [iha _ _ h]
  | addc c neg a iha => intro ρ1 ρ2 h; simp only [eval]; rw [iha _ _ h]
  | mulc d a iha => intro ρ1 ρ2 h; simp only [eval]; rw [iha _ _ h]
  | ptw f p a iha => intro ρ1 ρ2 h; simp only [eval]; rw [iha _ _ h]
  | lin m n rows a iha => intro ρ1 ρ2 h; simp only [eval]; rw [iha _ _ h]
  | sum a iha => intro ρ1 ρ2 h; simp only [eval]; rw [iha _ _ h]
  | vdot a b iha ihb =>
    intro ρ1 ρ2 h; simp only [eval]; rw [iha _ _ (agree_union_left h), ihb _ _ (agree_union_right h)]
  | getKey k a iha => intro ρ1 ρ2 h; simp only [eval]; rw [iha _ _ h]
  | putKey k a iha => intro ρ1 ρ2 h; simp only [eval]; rw [iha _ _ h]
  | chain f g ihf ihg => intro ρ1 ρ2 h; simp only [eval]; rw [ihg _ _ h]
  | sqnorm a iha => intro ρ1 ρ2 h; simp only [eval]; rw [iha _ _ h]
  | quad d a iha => intro ρ1 ρ2 h; simp only [eval]; rw [iha _ _ h]
  | gauss data icov a iha => intro ρ1 ρ2 h; simp only [eval]; rw [iha _ _ h]
  | const en d v => intro ρ1 ρ2 h; rfl
  | bil m na nb T a b iha ihb =>
    intro ρ1 ρ2 h; simp only [eval]; rw [iha _ _ (agree_union_left h), ihb _ _ (agree_union_right h)]
  | varcov n a b iha ihb =>
    intro ρ1 ρ2 h; simp only [eval]; rw [iha _ _ (agree_union_left h), ihb _ _ (agree_union_right h)]

/-- the whole linearization depends on the input only through the keys read -/
theorem lin_congr_env (e : Ex K) (wm : Bool) :
    ∀ (ρ1 ρ2 : MVal K), AgreeOn e.inDom ρ1 ρ2 → lin e ρ1 wm = lin e ρ2 wm := by
  induction e with
  | var k n => intro ρ1 ρ2 h; simp only [lin]; rw [h (k, n) (by simp [Ex.inDom])]
  | add a b iha ihb =>
    intro ρ1 ρ2 h; simp only [lin]; rw [iha _ _ (agree_union_left h), ihb _ _ (agree_union_right h)]
  | sub a b iha ihb =>
    intro ρ1 ρ2 h; simp only [lin]; rw [iha _ _ (agree_union_left h), ihb _ _ (agree_union_right h)]
  | mul a b iha ihb =>
    intro ρ1 ρ2 h; simp only [lin]; rw [iha _ _ (agree_union_left h), ihb _ _ (agree_union_right h)]
  | scale c a iha => intro ρ1 ρ2 h; simp only [lin]; rw [iha _ _ h]
  | addc c neg a iha => intro ρ1 ρ2 h; simp only [lin]; rw [iha _ _ h]
  | mulc d a iha => intro ρ1 ρ2 h; simp only [lin]; rw [iha _ _ h]
  | ptw f p a iha => intro ρ1 ρ2 h; simp only [lin]; rw [iha _ _ h]
  | lin m n rows a iha => intro ρ1 ρ2 h; simp only [lin]; rw [iha _ _ h]
  | sum a iha => intro ρ1 ρ2 h; simp only [lin]; rw [iha _ _ h]
  | vdot a b iha ihb =>
    intro ρ1 ρ2 h; simp only [lin]; rw [iha _ _ (agree_union_left h), ihb _ _ (agree_union_right h)]
  | getKey k a iha => intro ρ1 ρ2 h; simp only [lin]; rw [iha _ _ h]
  | putKey k a iha => intro ρ1 ρ2 h; simp only [lin]; rw [iha _ _ h]
  | chain f g ihf ihg => intro ρ1 ρ2 h; simp only [lin]; rw [ihg _ _ h]
  | sqnorm a iha => intro ρ1 ρ2 h; simp only [lin]; rw [iha _ _ h]
  | quad d a iha => intro ρ1 ρ2 h; simp only [lin]; rw [iha _ _ h]
  | gauss data icov a iha => intro ρ1 ρ2 h; simp only [lin]; rw [iha _ _ h]
  | const en d v => intro ρ1 ρ2 h; rfl
  | bil m na nb T a b iha ihb =>
    intro ρ1 ρ2 h; simp only [lin]; rw [iha _ _ (agree_union_left h), ihb _ _ (agree_union_right h)]
  | varcov n a b iha ihb =>
    intro ρ1 ρ2 h; simp only [lin]; rw [iha _ _ (agree_union_left h), ihb _ _ (agree_union_right h)]

/-- the Jacobian reads its tangent only on the keys read -/
theorem jac_congr (e : Ex K) (wm : Bool) :
    ∀ (ρ h1 h2 : MVal K), AgreeOn e.inDom h1 h2 → (lin e ρ wm).jac h1 = (lin e ρ wm).jac h2 := by
  induction e with
  | var k n => intro ρ h1 h2 h; simp only [lin]; rw [h (k, n) (by simp [Ex.inDom])]
  | add a b iha ihb =>
    intro ρ h1 h2 h; simp only [lin]; rw [iha _ _ _ (agree_union_left h), ihb _ _ _ (agree_union_right h)]
  | sub a b iha ihb =>
    intro ρ h1 h2 h; simp only [lin]; rw [iha _ _ _ (agree_union_left h), ihb _ _ _ (agree_union_right h)]
  | mul a b iha ihb =>
    intro ρ h1 h2 h; simp only [lin]; rw [iha _ _ _ (agree_union_left h), ihb _ _ _ (agree_union_right h)]
  | scale c a iha => intro ρ h1 h2 h; simp only [lin]; rw [iha _ _ _ h]
  | addc c neg a iha => intro ρ h1 h2 h; simp only [lin]; rw [iha _ _ _ h]
  | mulc d a iha => intro ρ h1 h2 h; simp only [lin]; rw [iha _ _ _ h]
  | ptw f p a iha => intro ρ h1 h2 h; simp only [lin]; rw [iha _ _ _ h]
  | lin m n rows a iha => intro ρ h1 h2 h; simp only [lin]; rw [iha _ _ _ h]
  | sum a iha => intro ρ h1 h2 h; simp only [lin]; rw [iha _ _ _ h]
  | vdot a b iha ihb =>
    intro ρ h1 h2 h; simp only [lin]; rw [iha _ _ _ (agree_union_left h), ihb _ _ _ (agree_union_right h)]
  | getKey k a iha => intro ρ h1 h2 h; simp only [lin]; rw [iha _ _ _ h]
  | putKey k a iha => intro ρ h1 h2 h; simp only [lin]; rw [iha _ _ _ h]
  | chain f g ihf ihg => intro ρ h1 h2 h; simp only [lin]; rw [ihg _ _ _ h]
  | sqnorm a iha => intro ρ h1 h2 h; simp only [lin]; rw [iha _ _ _ h]
  | quad d a iha => intro ρ h1 h2 h; simp only [lin]; rw [iha _ _ _ h]
  | gauss data icov a iha => intro ρ h1 h2 h; simp only [lin]; rw [iha _ _ _ h]
  | const en d v => intro ρ h1 h2 h; rfl
  | bil m na nb T a b iha ihb =>
    intro ρ h1 h2 h; simp only [lin]; rw [iha _ _ _ (agree_union_left h), ihb _ _ _ (agree_union_right h)]
  | varcov n a b iha ihb =>
    intro ρ h1 h2 h; simp only [lin]; rw [iha _ _ _ (agree_union_left h), ihb _ _ _ (agree_union_right h)]

theorem allConst_agree {ck : List String} {d : Dom} (h : allConst ck d = true) (cs ρ : MVal K) :
    AgreeOn d (insertC ck cs ρ) cs := by
  intro kn hk
  have := (List.all_eq_true.mp h) kn hk
  simp only [insertC, this, if_true]

theorem noneConst_agree {ck : List String} {d : Dom} (h : noneConst ck d = true) (cs ρ : MVal K) :
    AgreeOn d (insertC ck cs ρ) ρ := by
  intro kn hk
  have := (List.all_eq_true.mp h) kn hk
  have h2 : ck.contains kn.1 = false := by simpa using this
  simp only [insertC, h2]; rfl

theorem empty_agree {d : Dom} (h : d.isEmpty = true) (ρ1 ρ2 : MVal K) : AgreeOn d ρ1 ρ2 := by
  have : d = [] := List.isEmpty_iff.mp h
  subst this; intro kn hk; cases hk

theorem contains_false_of_not {ck : List String} {k : String} (h : ¬ (ck.contains k = true)) :
    ck.contains k = false := by
  cases hc : ck.contains k <;> simp_all

theorem var_dichotomy (ck : List String) (k : String) (n : Nat)
    (ha : allConst ck [(k, n)] = false) (hn : noneConst ck [(k, n)] = false) : False := by
  simp only [allConst, noneConst, List.all_cons, List.all_nil, Bool.and_true] at ha hn
  cases hc : ck.contains k <;> simp_all

/-- the target domain is unchanged (`myassert(op.target is self.target)`) -/
theorem pe_target (ck : List String) (cs : MVal K) (e : Ex K) : (pe ck cs e).dom = e.dom := by
  have coll : ∀ (e e' : Ex K), e'.dom = e.dom → (collapse ck cs e e').dom = e.dom := by
    intro e e' h
    unfold collapse
    split
    · rfl
    · split
      · rfl
      · split
        · rfl
        · exact h
  induction e with
  | var k n => simp only [pe]; exact coll _ _ rfl
  | add a b iha ihb => simp only [pe]; exact coll _ _ (by simp only [Ex.dom, iha, ihb])
  | sub a b iha ihb => simp only [pe]; exact coll _ _ (by simp only [Ex.dom, iha, ihb])
  | mul a b iha ihb => simp only [pe]; exact coll _ _ (by simp only [Ex.dom, iha, ihb])
  | scale c a iha => simp only [pe]; exact coll _ _ (by simp only [Ex.dom, iha])
  | addc c neg a iha => simp only [pe]; exact coll _ _ (by simp only [Ex.dom, iha])
  | mulc d a iha => simp only [pe]; exact coll _ _ (by simp only [Ex.dom, iha])
  | ptw f p a iha => simp only [pe]; exact coll _ _ (by simp only [Ex.dom, iha])
  | lin m n rows a iha => simp only [pe]; exact coll _ _ (by simp only [Ex.dom])
  | sum a iha => simp only [pe]; exact coll _ _ (by simp only [Ex.dom])
  | vdot a b iha ihb => simp only [pe]; exact coll _ _ (by simp only [Ex.dom])
  | getKey k a iha => simp only [pe]; exact coll _ _ (by simp only [Ex.dom, iha])
  | putKey k a iha => simp only [pe]; exact coll _ _ (by simp only [Ex.dom, iha])
  | chain f g ihf ihg => simp only [pe]; exact coll _ _ (by simp only [Ex.dom])
  | sqnorm a iha => simp only [pe]; exact coll _ _ (by simp only [Ex.dom])
  | quad d a iha => simp only [pe]; exact coll _ _ (by simp only [Ex.dom])
  | gauss data icov a iha => simp only [pe]; exact coll _ _ (by simp only [Ex.dom])
  | const en d v => rfl
  | bil m na nb T a b iha ihb => simp only [pe]; exact coll _ _ (by simp only [Ex.dom])
  | varcov n a b iha ihb => simp only [pe]; exact coll _ _ (by simp only [Ex.dom])

/-- **value**: the simplified operator evaluates to the original with the constants inserted
    (all trees, all constant sets, all inputs, every number type) -/
theorem pe_sound (ck : List String) (cs : MVal K) (e : Ex K) :
    ∀ ρ : MVal K, eval (pe ck cs e) ρ = eval e (insertC ck cs ρ) := by
  have coll : ∀ (e e' : Ex K),
      (allConst ck e.inDom = false → noneConst ck e.inDom = false → ∀ ρ, eval e' ρ = eval e (insertC ck cs ρ)) →
      ∀ ρ, eval (collapse ck cs e e') ρ = eval e (insertC ck cs ρ) := by
    intro e e' h ρ
    unfold collapse
    split
    · rename_i he; exact eval_congr e _ _ (empty_agree he _ _)
    · split
      · rename_i _ ha; simp only [eval]; exact (eval_congr e _ _ (allConst_agree ha cs ρ)).symm
      · split
        · rename_i _ _ hn; exact (eval_congr e _ _ (noneConst_agree hn cs ρ)).symm
        · rename_i _ ha hn
          exact h (by simpa using ha) (by simpa using hn) ρ
  induction e with
  | var k n =>
    intro ρ; simp only [pe]
    exact coll (.var k n) (.var k n) (fun ha hn => (var_dichotomy ck k n ha hn).elim) ρ
  | add a b iha ihb => intro ρ; simp only [pe]; exact coll _ _ (fun _ _ ρ => by simp only [eval, iha, ihb]) ρ
  | sub a b iha ihb => intro ρ; simp only [pe]; exact coll _ _ (fun _ _ ρ => by simp only [eval, iha, ihb]) ρ
  | mul a b iha ihb => intro ρ; simp only [pe]; exact coll _ _ (fun _ _ ρ => by simp only [eval, iha, ihb]) ρ
  | scale c a iha => intro ρ; simp only [pe]; exact coll _ _ (fun _ _ ρ => by simp only [eval, iha]) ρ
  | addc c neg a iha =>
    intro ρ; simp only [pe]; exact coll _ _ (fun _ _ ρ => by simp only [eval, iha, pe_target]) ρ
  | mulc d a iha => intro ρ; simp only [pe]; exact coll _ _ (fun _ _ ρ => by simp only [eval, iha]) ρ
  | ptw f p a iha =>
    intro ρ; simp only [pe]; exact coll _ _ (fun _ _ ρ => by simp only [eval, iha, pe_target]) ρ
  | lin m n rows a iha => intro ρ; simp only [pe]; exact coll _ _ (fun _ _ ρ => by simp only [eval, iha]) ρ
  | sum a iha => intro ρ; simp only [pe]; exact coll _ _ (fun _ _ ρ => by simp only [eval, iha, pe_target]) ρ
  | vdot a b iha ihb =>
    intro ρ; simp only [pe]; exact coll _ _ (fun _ _ ρ => by simp only [eval, iha, ihb, pe_target]) ρ
  | getKey k a iha => intro ρ; simp only [pe]; exact coll _ _ (fun _ _ ρ => by simp only [eval, iha]) ρ
  | putKey k a iha => intro ρ; simp only [pe]; exact coll _ _ (fun _ _ ρ => by simp only [eval, iha]) ρ
  | chain f g ihf ihg => intro ρ; simp only [pe]; exact coll _ _ (fun _ _ ρ => by simp only [eval, ihg]) ρ
  | sqnorm a iha => intro ρ; simp only [pe]; exact coll _ _ (fun _ _ ρ => by simp only [eval, iha, pe_target]) ρ
  | quad d a iha => intro ρ; simp only [pe]; exact coll _ _ (fun _ _ ρ => by simp only [eval, iha, pe_target]) ρ
  | gauss data icov a iha =>
    intro ρ; simp only [pe]; exact coll _ _ (fun _ _ ρ => by simp only [eval, iha, pe_target]) ρ
  | const en d v => intro ρ; rfl
  | bil m na nb T a b iha ihb => intro ρ; simp only [pe]; exact coll _ _ (fun _ _ ρ => by simp only [eval, iha, ihb]) ρ
  | varcov n a b iha ihb => intro ρ; simp only [pe]; exact coll _ _ (fun _ _ ρ => by simp only [eval, iha, ihb]) ρ

/-- `EnergyAdapter(position, op, constants)`: the simplified operator at the position without the constant keys
    has the value of `op` at the full position -/
theorem energyAdapter_constants (ck : List String) (e : Ex K) (pos : MVal K) :
    eval (pe ck pos e) (fun k => if ck.contains k then (fun _ => 0) else pos k) = eval e pos := by
  rw [pe_sound]
  congr 1
  funext k
  simp only [insertC]
  split <;> simp_all

/-- **constant output part**: `simplify_for_constant_input` never returns a constant output (`c_out is None`) — every base
    case returns `None`, and `ConstCollector.add/mult` only ever see `None`; hence the overwrite in `ConstCollector.add`
    (DESIGN.md §6 #10) is unreachable.  The harness asserts `c_out is None` on every real case. -/
theorem cout_none (ck : List String) (cs : MVal K) (e : Ex K) : cout ck cs e = none := by
  induction e with
  | var k n => rfl
  | const en d v => rfl
  | add a b iha ihb => simp only [cout, iha, ihb, CC.add, CC.empty]; split <;> rfl
  | sub a b iha ihb => simp only [cout, iha, ihb, CC.add, CC.empty]; split <;> rfl
  | mul a b iha ihb => simp only [cout, iha, ihb, CC.mult, CC.empty]; split <;> rfl
  | vdot a b iha ihb => simp only [cout, iha, ihb, CC.mult, CC.empty]
  | bil m na nb T a b iha ihb => simp only [cout, iha, ihb, CC.mult, CC.empty]
  | varcov n a b iha ihb => simp only [cout, iha, ihb, CC.add, CC.empty]
  | scale c a iha => simp only [cout, iha]
  | addc c neg a iha => simp only [cout, iha]
  | mulc d a iha => simp only [cout, iha]
  | ptw f p a iha => simp only [cout, iha]
  | lin m n rows a iha => simp only [cout, iha]
  | sum a iha => simp only [cout, iha]
  | getKey k a iha => simp only [cout, iha]
  | putKey k a iha => simp only [cout, iha]
  | chain f g ihf ihg => simp only [cout, ihg]
  | sqnorm a iha => simp only [cout, iha]
  | quad d a iha => simp only [cout, iha]
  | gauss data icov a iha => simp only [cout, iha]

/-- `make_partial_var`: adjoint / gradient components of the constant keys vanish, identically -/
theorem partialVar_grad_zero (e : Ex K) (ρ y : MVal K) (ck : List String) (wm : Bool) (k : String) (i : Nat)
    (hk : ck.contains k = true) : (linPartial e ρ ck wm).adj y k i = 0 := by
  simp only [linPartial, zeroC, hk, if_true]

end generic

/-! ### Jacobians (over ℝ) -/

theorem list_sum_map_zero {ι : Type} (l : List ι) : (l.map (fun _ => (0 : ℝ))).sum = 0 := by
  induction l with
  | nil => rfl
  | cons a l ih => simp [ih]

theorem rsum_zero (n : Nat) : rsum n (fun _ => (0 : ℝ)) = 0 := list_sum_map_zero _

theorem dsum_zero (d : Dom) : dsum d (fun _ _ => (0 : ℝ)) = 0 := by
  unfold dsum
  simp only [rsum_zero]
  exact list_sum_map_zero _

/-- a Jacobian applied to the zero tangent is zero -/
theorem jac_zero (e : Ex ℝ) (wm : Bool) : ∀ ρ : MVal ℝ, (lin e ρ wm).jac (fun _ _ => 0) = fun _ _ => 0 := by
  induction e with
  | var k n => intro ρ; funext k' i; simp [lin, single]
  | add a b iha ihb => intro ρ; funext k i; simp [lin, iha, ihb]
  | sub a b iha ihb => intro ρ; funext k i; simp [lin, iha, ihb]
  | mul a b iha ihb => intro ρ; funext k i; simp [lin, iha, ihb]
  | scale c a iha => intro ρ; funext k i; simp [lin, iha]
  | addc c neg a iha => intro ρ; funext k i; simp [lin, iha, mask]
  | mulc d a iha => intro ρ; funext k i; simp [lin, iha]
  | ptw f p a iha => intro ρ; funext k i; simp [lin, iha, mask]
  | lin m n rows a iha => intro ρ; funext k i; simp [lin, iha, single, rsum_zero]
  | sum a iha => intro ρ; funext k i; simp [lin, iha, single, dsum_zero]
  | vdot a b iha ihb => intro ρ; funext k i; simp [lin, iha, ihb, single, dsum_zero]
  | getKey k a iha => intro ρ; funext k' i; simp [lin, iha, single]
  | putKey k a iha => intro ρ; funext k' i; simp [lin, iha]
  | chain f g ihf ihg => intro ρ; simp only [lin, ihg, ihf]
  | sqnorm a iha => intro ρ; funext k i; simp [lin, iha, single, dsum_zero]
  | quad d a iha => intro ρ; funext k i; simp [lin, iha, single, dsum_zero]
  | gauss data icov a iha => intro ρ; funext k i; simp [lin, iha, single, dsum_zero]
  | const en d v => intro ρ; rfl
  | bil m na nb T a b iha ihb => intro ρ; funext k i; simp [lin, iha, ihb, single, rsum_zero]
  | varcov n a b iha ihb => intro ρ; funext k i; simp [lin, iha, ihb, single, rsum_zero]

theorem allConst_agree_zero {ck : List String} {d : Dom} (h : allConst ck d = true) (hh : MVal ℝ) :
    AgreeOn d (zeroC ck hh) (fun _ _ => 0) := by
  intro kn hk
  have := (List.all_eq_true.mp h) kn hk
  funext i
  simp only [zeroC, this, if_true]

theorem noneConst_agree_zero {ck : List String} {d : Dom} (h : noneConst ck d = true) (hh : MVal ℝ) :
    AgreeOn d hh (zeroC ck hh) := by
  intro kn hk
  have := (List.all_eq_true.mp h) kn hk
  have h2 : ck.contains kn.1 = false := by simpa using this
  funext i
  simp only [zeroC, h2]; rfl

/-- **Jacobian**: the Jacobian of the simplified operator (w.r.t. the remaining keys) is the Jacobian of the original
    at the input with the constants inserted, applied to tangents that vanish on the constant keys -/
theorem pe_jac (ck : List String) (cs : MVal ℝ) (e : Ex ℝ) :
    ∀ (ρ : MVal ℝ) (wm : Bool) (h : MVal ℝ),
      (lin (pe ck cs e) ρ wm).jac h = (lin e (insertC ck cs ρ) wm).jac (zeroC ck h) := by
  have coll : ∀ (e e' : Ex ℝ),
      (allConst ck e.inDom = false → noneConst ck e.inDom = false → ∀ ρ wm h,
        (lin e' ρ wm).jac h = (lin e (insertC ck cs ρ) wm).jac (zeroC ck h)) →
      ∀ ρ wm h, (lin (collapse ck cs e e') ρ wm).jac h = (lin e (insertC ck cs ρ) wm).jac (zeroC ck h) := by
    intro e e' hyp ρ wm h
    unfold collapse
    split
    · rename_i he
      rw [lin_congr_env e wm ρ (insertC ck cs ρ) (empty_agree he _ _)]
      exact jac_congr e wm _ _ _ (empty_agree he _ _)
    · split
      · rename_i _ ha
        rw [jac_congr e wm _ _ _ (allConst_agree_zero ha h), jac_zero]
        rfl
      · split
        · rename_i _ _ hn
          rw [lin_congr_env e wm (insertC ck cs ρ) ρ (noneConst_agree hn cs ρ)]
          exact jac_congr e wm _ _ _ (noneConst_agree_zero hn h)
        · rename_i _ ha hn
          exact hyp (by simpa using ha) (by simpa using hn) ρ wm h
  induction e with
  | var k n =>
    intro ρ wm h; simp only [pe]
    exact coll (.var k n) (.var k n) (fun ha hn => (var_dichotomy ck k n ha hn).elim) ρ wm h
  | add a b iha ihb =>
    intro ρ wm h; simp only [pe]; exact coll _ _ (fun _ _ ρ wm h => by simp only [lin, iha, ihb]) ρ wm h
  | sub a b iha ihb =>
    intro ρ wm h; simp only [pe]; exact coll _ _ (fun _ _ ρ wm h => by simp only [lin, iha, ihb]) ρ wm h
  | mul a b iha ihb =>
    intro ρ wm h; simp only [pe]
    exact coll _ _ (fun _ _ ρ wm h => by simp only [lin, C03.lin_val, pe_sound, iha, ihb]) ρ wm h
  | scale c a iha =>
    intro ρ wm h; simp only [pe]; exact coll _ _ (fun _ _ ρ wm h => by simp only [lin, iha]) ρ wm h
  | addc c neg a iha =>
    intro ρ wm h; simp only [pe]; exact coll _ _ (fun _ _ ρ wm h => by simp only [lin, iha, pe_target]) ρ wm h
  | mulc d a iha =>
    intro ρ wm h; simp only [pe]; exact coll _ _ (fun _ _ ρ wm h => by simp only [lin, iha]) ρ wm h
  | ptw f p a iha =>
    intro ρ wm h; simp only [pe]
    exact coll _ _ (fun _ _ ρ wm h => by simp only [lin, C03.lin_val, pe_sound, iha, pe_target]) ρ wm h
  | lin m n rows a iha =>
    intro ρ wm h; simp only [pe]; exact coll _ _ (fun _ _ ρ wm h => by simp only [lin, iha]) ρ wm h
  | sum a iha =>
    intro ρ wm h; simp only [pe]; exact coll _ _ (fun _ _ ρ wm h => by simp only [lin, iha, pe_target]) ρ wm h
  | vdot a b iha ihb =>
    intro ρ wm h; simp only [pe]
    exact coll _ _ (fun _ _ ρ wm h => by simp only [lin, C03.lin_val, pe_sound, iha, ihb, pe_target]) ρ wm h
  | getKey k a iha =>
    intro ρ wm h; simp only [pe]; exact coll _ _ (fun _ _ ρ wm h => by simp only [lin, iha]) ρ wm h
  | putKey k a iha =>
    intro ρ wm h; simp only [pe]; exact coll _ _ (fun _ _ ρ wm h => by simp only [lin, iha]) ρ wm h
  | chain f g ihf ihg =>
    intro ρ wm h; simp only [pe]
    exact coll _ _ (fun _ _ ρ wm h => by simp only [lin, C03.lin_val, pe_sound, ihg]) ρ wm h
  | sqnorm a iha =>
    intro ρ wm h; simp only [pe]
    exact coll _ _ (fun _ _ ρ wm h => by simp only [lin, C03.lin_val, pe_sound, iha, pe_target]) ρ wm h
  | quad d a iha =>
    intro ρ wm h; simp only [pe]
    exact coll _ _ (fun _ _ ρ wm h => by simp only [lin, C03.lin_val, pe_sound, iha, pe_target]) ρ wm h
  | gauss data icov a iha =>
    intro ρ wm h; simp only [pe]
    exact coll _ _ (fun _ _ ρ wm h => by simp only [lin, C03.lin_val, pe_sound, iha, pe_target]) ρ wm h
  | const en d v => intro ρ wm h; rfl
  | bil m na nb T a b iha ihb =>
    intro ρ wm h; simp only [pe]
    exact coll _ _ (fun _ _ ρ wm h => by simp only [lin, C03.lin_val, pe_sound, iha, ihb]) ρ wm h
  | varcov n a b iha ihb =>
    intro ρ wm h; simp only [pe]
    exact coll _ _ (fun _ _ ρ wm h => by simp only [lin, C03.lin_val, pe_sound, iha, ihb]) ρ wm h

/-- `make_partial_var` and `simplify_for_constant_input` agree: linearising the original at the full position with
    the 0/1 block Jacobian prepended gives the Jacobian of the simplified operator -/
theorem partialVar_eq_pe (ck : List String) (cs : MVal ℝ) (e : Ex ℝ) (ρ : MVal ℝ) (wm : Bool) (h : MVal ℝ) :
    (linPartial e (insertC ck cs ρ) ck wm).jac h = (lin (pe ck cs e) ρ wm).jac h := by
  rw [pe_jac]; rfl

/-! ### non-vacuity -/

/-- `exp(a) * b` with `a` fixed to 0: the simplified tree is `const(1) * b` -/
example : pe (K := ℝ) ["a"] (fun _ _ => 0) (.mul (.ptw .exp [] (.var "a" 1)) (.var "b" 1))
    = .mul (.const false [("", 1)] (eval (.ptw .exp [] (.var "a" 1)) (fun _ _ => 0))) (.var "b" 1) := by
  simp [pe, collapse, allConst, noneConst, Ex.inDom, Dom.union, Ex.isLH, Ex.dom]

end NiftyVerif.C04
