/-
  C20 — Linear Gaussian problems: Wiener filter and VI give the exact posterior.

  `R : Matrix m n ℝ` arbitrary response (any shape, any rank), `N` positive definite noise covariance, standard-normal
  prior.  `D = Rᵀ N⁻¹ R + 1` (signal-space precision / "metric"), `G = R Rᵀ + N` (data-space covariance).
  Hamiltonian `H(s) = ½ (d − R s)ᵀ N⁻¹ (d − R s) + ½ sᵀ s`.
  Derivative-free formulation: `H(m + h) = H(m) + ½ hᵀ D h` exactly, which says at once that the gradient vanishes at `m`,
  that `m` is the unique minimiser (MAP = posterior mean) and that the posterior precision is `D` (covariance `D⁻¹`).
-/
import NiftyVerif.Lemmas.Wiener

namespace NiftyVerif.C20
open Matrix NiftyVerif.Wiener

variable {m n : Type} [Fintype m] [Fintype n] [DecidableEq m] [DecidableEq n]

/-- the Hamiltonian of the linear Gaussian model -/
noncomputable def H (R : Matrix m n ℝ) (N : Matrix m m ℝ) (d : m → ℝ) (s : n → ℝ) : ℝ :=
  (1 / 2) * ((d - R *ᵥ s) ⬝ᵥ N⁻¹ *ᵥ (d - R *ᵥ s)) + (1 / 2) * (s ⬝ᵥ s)

/-- signal-space Wiener filter mean `(Rᵀ N⁻¹ R + 1)⁻¹ Rᵀ N⁻¹ d` (what `wiener_filter_posterior(signal_space=True)` and
    `WienerFilterCurvature.inverse_times(Rᵀ N⁻¹ d)` solve for) -/
noncomputable def meanSignal (R : Matrix m n ℝ) (N : Matrix m m ℝ) (d : m → ℝ) : n → ℝ :=
  (D R N)⁻¹ *ᵥ (Rᵀ *ᵥ (N⁻¹ *ᵥ d))

/-- data-space Wiener filter mean `Rᵀ (R Rᵀ + N)⁻¹ d` (`signal_space=False`) -/
noncomputable def meanData (R : Matrix m n ℝ) (N : Matrix m m ℝ) (d : m → ℝ) : n → ℝ :=
  Rᵀ *ᵥ ((G R N)⁻¹ *ᵥ d)

/-- both systems the code solves by CG are positive definite, hence uniquely solvable, for EVERY `R` -/
theorem metric_posDef (R : Matrix m n ℝ) {N : Matrix m m ℝ} (hN : N.PosDef) : (D R N).PosDef ∧ (G R N).PosDef :=
  ⟨D_posDef R hN, G_posDef R hN⟩

/-- **push_through**: `(Rᵀ N⁻¹ R + 1)⁻¹ Rᵀ N⁻¹ = Rᵀ (R Rᵀ + N)⁻¹` -/
theorem push_through (R : Matrix m n ℝ) {N : Matrix m m ℝ} (hN : N.PosDef) :
    (D R N)⁻¹ * Rᵀ * N⁻¹ = Rᵀ * (G R N)⁻¹ := by
  have hD := det_isUnit_of_posDef (D_posDef R hN)
  have hG := det_isUnit_of_posDef (G_posDef R hN)
  have core := push_core R (det_isUnit_of_posDef hN)
  calc (D R N)⁻¹ * Rᵀ * N⁻¹
      = (D R N)⁻¹ * (Rᵀ * N⁻¹ * G R N) * (G R N)⁻¹ := by
        rw [Matrix.mul_assoc ((D R N)⁻¹) (Rᵀ * N⁻¹ * G R N), Matrix.mul_assoc (Rᵀ * N⁻¹) (G R N),
          Matrix.mul_nonsing_inv _ hG, Matrix.mul_one, Matrix.mul_assoc]
    _ = (D R N)⁻¹ * (D R N * Rᵀ) * (G R N)⁻¹ := by rw [core]
    _ = Rᵀ * (G R N)⁻¹ := by rw [← Matrix.mul_assoc ((D R N)⁻¹), Matrix.nonsing_inv_mul _ hD, Matrix.one_mul]

/-- **signal space = data space**: the two Wiener filter solutions coincide for every data vector -/
theorem meanSignal_eq_meanData (R : Matrix m n ℝ) {N : Matrix m m ℝ} (hN : N.PosDef) (d : m → ℝ) :
    meanSignal R N d = meanData R N d := by
  unfold meanSignal meanData
  rw [mulVec_mulVec, mulVec_mulVec, mulVec_mulVec, push_through R hN]

/-- `m` solves the normal equations `D m = Rᵀ N⁻¹ d` (the gradient of `H` at `m` is zero) -/
theorem normal_equations (R : Matrix m n ℝ) {N : Matrix m m ℝ} (hN : N.PosDef) (d : m → ℝ) :
    D R N *ᵥ meanSignal R N d = Rᵀ *ᵥ (N⁻¹ *ᵥ d) := by
  unfold meanSignal
  rw [mulVec_mulVec, Matrix.mul_nonsing_inv _ (det_isUnit_of_posDef (D_posDef R hN)), one_mulVec]

/-- exact second-order expansion of the Hamiltonian around an arbitrary point:
    `H(s + h) = H(s) + h·(D s − Rᵀ N⁻¹ d) + ½ h·D h` -/
theorem hamiltonian_expansion (R : Matrix m n ℝ) {N : Matrix m m ℝ} (hN : N.PosDef) (d : m → ℝ) (s h : n → ℝ) :
    H R N d (s + h) = H R N d s + h ⬝ᵥ (D R N *ᵥ s - Rᵀ *ᵥ (N⁻¹ *ᵥ d)) + (1 / 2) * (h ⬝ᵥ D R N *ᵥ h) := by
  have hNs := Ninv_symm hN
  unfold H
  have e1 : d - R *ᵥ (s + h) = (d - R *ᵥ s) - R *ᵥ h := by rw [mulVec_add]; abel
  rw [e1, quad_sub _ hNs]
  have e2 : (s + h) ⬝ᵥ (s + h) = s ⬝ᵥ s + 2 * (h ⬝ᵥ s) + h ⬝ᵥ h := by
    simp only [add_dotProduct, dotProduct_add, dotProduct_comm s h]; ring
  rw [e2]
  -- rewrite the target's D-terms through R
  have t1 : h ⬝ᵥ D R N *ᵥ s = (R *ᵥ h) ⬝ᵥ N⁻¹ *ᵥ (R *ᵥ s) + h ⬝ᵥ s := by
    unfold D
    rw [add_mulVec, one_mulVec, dotProduct_add, ← mulVec_mulVec, ← mulVec_mulVec, dotProduct_mulVec h Rᵀ,
      vecMul_transpose]
  have t2 : h ⬝ᵥ D R N *ᵥ h = (R *ᵥ h) ⬝ᵥ N⁻¹ *ᵥ (R *ᵥ h) + h ⬝ᵥ h := by
    unfold D
    rw [add_mulVec, one_mulVec, dotProduct_add, ← mulVec_mulVec, ← mulVec_mulVec, dotProduct_mulVec h Rᵀ,
      vecMul_transpose]
  have t3 : h ⬝ᵥ Rᵀ *ᵥ (N⁻¹ *ᵥ d) = (R *ᵥ h) ⬝ᵥ N⁻¹ *ᵥ d := by
    rw [dotProduct_mulVec h Rᵀ, vecMul_transpose]
  rw [dotProduct_sub, t1, t2, t3]
  simp only [mulVec_sub, dotProduct_sub]
  ring

/-- **map_eq_mean / posterior_cov**: around the Wiener filter mean the Hamiltonian is EXACTLY `H(m) + ½ hᵀ D h`:
    no linear term (the gradient vanishes at `m`), and the quadratic form is the posterior precision `D`,
    i.e. the posterior is `𝒩(m, D⁻¹)` -/
theorem hamiltonian_at_mean (R : Matrix m n ℝ) {N : Matrix m m ℝ} (hN : N.PosDef) (d : m → ℝ) (h : n → ℝ) :
    H R N d (meanSignal R N d + h) = H R N d (meanSignal R N d) + (1 / 2) * (h ⬝ᵥ D R N *ᵥ h) := by
  rw [hamiltonian_expansion R hN, normal_equations R hN, sub_self, dotProduct_zero, add_zero]

/-- **posterior_mean_minimises**: the Wiener filter mean is the unique minimiser of the Hamiltonian (MAP = mean) -/
theorem posterior_mean_minimises (R : Matrix m n ℝ) {N : Matrix m m ℝ} (hN : N.PosDef) (d : m → ℝ) (s : n → ℝ) :
    H R N d (meanSignal R N d) ≤ H R N d s ∧ (H R N d s = H R N d (meanSignal R N d) → s = meanSignal R N d) := by
  have hs : s = meanSignal R N d + (s - meanSignal R N d) := by abel
  have hpd := D_posDef R hN
  constructor
  · rw [hs, hamiltonian_at_mean R hN]
    have := hpd.posSemidef.dotProduct_mulVec_nonneg (s - meanSignal R N d)
    simp only [star_trivial] at this
    linarith
  · intro heq
    by_contra hne
    have hx : s - meanSignal R N d ≠ 0 := sub_ne_zero.mpr hne
    have hpos := hpd.dotProduct_mulVec_pos hx
    simp only [star_trivial] at hpos
    rw [hs, hamiltonian_at_mean R hN] at heq
    linarith

/-- Woodbury form of the posterior covariance: `D⁻¹ = 1 − Rᵀ (R Rᵀ + N)⁻¹ R` -/
theorem posterior_cov_woodbury (R : Matrix m n ℝ) {N : Matrix m m ℝ} (hN : N.PosDef) :
    (D R N)⁻¹ = 1 - Rᵀ * (G R N)⁻¹ * R := by
  have hD := det_isUnit_of_posDef (D_posDef R hN)
  rw [← push_through R hN]
  -- D⁻¹ = 1 − D⁻¹ Rᵀ N⁻¹ R  ⇐  D⁻¹ (1 + Rᵀ N⁻¹ R) = 1
  have hDdef : D R N = Rᵀ * N⁻¹ * R + 1 := rfl
  have h1 : (D R N)⁻¹ * Rᵀ * N⁻¹ * R = (D R N)⁻¹ * (D R N - 1) := by
    rw [hDdef, add_sub_cancel_right]; simp only [Matrix.mul_assoc]
  rw [h1, Matrix.mul_sub, Matrix.nonsing_inv_mul _ hD, Matrix.mul_one]
  abel

/-! ### MGVI fixed point -/

/-- sampled KL with mirrored residuals `±r_i` around the expansion point `p` (sum instead of average: a positive
    factor does not move the minimiser) -/
noncomputable def klMirrored (R : Matrix m n ℝ) (N : Matrix m m ℝ) (d : m → ℝ) (rs : List (n → ℝ)) (p : n → ℝ) : ℝ :=
  (rs.map (fun r => H R N d (p + r) + H R N d (p + -r))).sum

/-- **mgvi_fixed_point**: with mirrored samples the sampled KL is EXACTLY `KL(m) + (#pairs)·hᵀ D h` around the Wiener
    filter mean, for any residuals whatsoever: its gradient at `m` vanishes, `m` is its minimiser — the MGVI iteration
    has the exact posterior mean as fixed point -/
theorem mgvi_fixed_point (R : Matrix m n ℝ) {N : Matrix m m ℝ} (hN : N.PosDef) (d : m → ℝ) (rs : List (n → ℝ))
    (h : n → ℝ) :
    klMirrored R N d rs (meanSignal R N d + h)
      = klMirrored R N d rs (meanSignal R N d) + rs.length * (h ⬝ᵥ D R N *ᵥ h) := by
  have hDs := D_symm R hN
  induction rs with
  | nil => simp [klMirrored]
  | cons r rs ih =>
    simp only [klMirrored, List.map_cons, List.sum_cons, List.length_cons] at ih ⊢
    rw [ih]
    have a1 : meanSignal R N d + h + r = meanSignal R N d + (h + r) := by abel
    have a2 : meanSignal R N d + h + -r = meanSignal R N d + (h - r) := by abel
    have a3 : meanSignal R N d + -r = meanSignal R N d + (0 - r) := by abel
    have a4 : meanSignal R N d + r = meanSignal R N d + (0 + r) := by abel
    rw [a1, a2, a3, a4, hamiltonian_at_mean R hN, hamiltonian_at_mean R hN, hamiltonian_at_mean R hN,
      hamiltonian_at_mean R hN, quad_add _ hDs, quad_sub _ hDs, quad_add _ hDs, quad_sub _ hDs]
    simp only [mulVec_zero, dotProduct_zero]
    push_cast
    ring

/-! ### non-vacuity: a rank-deficient response with positive definite noise -/

/-- `R = [[1,1]]` (rank 1, two signal pixels), `N = [[2]]` is positive definite -/
example : (Matrix.of ![![(2 : ℝ)]]).PosDef := by
  have : (Matrix.of ![![(2 : ℝ)]]) = (2 : ℝ) • (1 : Matrix (Fin 1) (Fin 1) ℝ) := by
    ext i j; fin_cases i; fin_cases j; simp
  rw [this]
  exact PosDef.smul PosDef.one (by norm_num)

end NiftyVerif.C20
