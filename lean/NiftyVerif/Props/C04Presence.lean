/-
  C04 — metric PRESENCE under partial evaluation.
  `metric_isSome_iff`: under `NoNegScale` (no likelihood is scaled by a negative factor) a linearization carries a metric
  exactly when the tree is a likelihood (`isLH`) and a metric is wanted.
  `pe_metric_presence`: under `NoNegScale` the simplified operator carries a metric iff the original does — together with
  `pe_metric_partial` this is the full `pe_metric` on that class; the excluded region (a negatively scaled likelihood whose
  keys are all constant) is the witness `pe_metric_presence_witness`.
-/
import NiftyVerif.Props.C04Metric

set_option linter.unusedSimpArgs false
set_option linter.unusedVariables false
namespace NiftyVerif.C04
open NiftyVerif NiftyVerif.Gen.Ptw NiftyVerif.Expr

/-- no likelihood energy is multiplied by a negative number -/
def NoNegScale : Ex ℝ → Prop
  | .var _ _ => True
  | .const _ _ _ => True
  | .add a b => NoNegScale a ∧ NoNegScale b
  | .sub a b => NoNegScale a ∧ NoNegScale b
  | .mul a b => NoNegScale a ∧ NoNegScale b
  | .vdot a b => NoNegScale a ∧ NoNegScale b
  | .bil _ _ _ _ a b => NoNegScale a ∧ NoNegScale b
  | .varcov _ a b => NoNegScale a ∧ NoNegScale b
  | .chain f g => NoNegScale f ∧ NoNegScale g
  | .scale c a => NoNegScale a ∧ (a.isLH = true → 0 ≤ c)
  | .addc _ _ a => NoNegScale a
  | .mulc _ a => NoNegScale a
  | .ptw _ _ a => NoNegScale a
  | .lin _ _ _ a => NoNegScale a
  | .sum a => NoNegScale a
  | .getKey _ a => NoNegScale a
  | .putKey _ a => NoNegScale a
  | .sqnorm a => NoNegScale a
  | .quad _ a => NoNegScale a
  | .gauss _ _ a => NoNegScale a

theorem metric_isSome_iff (e : Ex ℝ) (wm : Bool) (hn : NoNegScale e) :
    ∀ ρ : MVal ℝ, ((lin e ρ wm).metric).isSome = (e.isLH && wm) := by
  induction e with
  | var k n => intro ρ; simp [lin, Ex.isLH]
  | const en d v => intro ρ; simp only [lin, Ex.isLH]; split <;> simp_all
  | add a b iha ihb =>
    intro ρ
    have ha := iha hn.1 ρ
    have hb := ihb hn.2 ρ
    simp only [lin, Ex.isLH]
    cases hma : (lin a ρ wm).metric <;> cases hmb : (lin b ρ wm).metric <;>
      simp [hma, hmb] at ha hb ⊢ <;> cases wm <;> simp_all
  | scale c a iha =>
    intro ρ
    have ha := iha hn.1 ρ
    simp only [lin, Ex.isLH]
    by_cases hl : a.isLH = true
    · have hc := hn.2 hl
      simp only [hc, if_true, Option.isSome_map]
      exact ha
    · have hl' : a.isLH = false := by cases h : a.isLH <;> simp_all
      have : (lin a ρ wm).metric = none := by
        cases hm : (lin a ρ wm).metric
        · rfl
        · rw [hm, hl'] at ha; simp at ha
      simp only [this, hl', Bool.false_and]
      split <;> rfl
  | chain f g ihf ihg =>
    intro ρ
    simp only [lin, Ex.isLH, Option.isSome_map]
    exact ihf hn.1 _
  | gauss data icov a iha => intro ρ; simp only [lin, Ex.isLH]; cases wm <;> simp
  | varcov n a b iha ihb => intro ρ; simp only [lin, Ex.isLH]; cases wm <;> simp
  | sub a b _ _ => intro ρ; simp [lin, Ex.isLH]
  | mul a b _ _ => intro ρ; simp [lin, Ex.isLH]
  | vdot a b _ _ => intro ρ; simp [lin, Ex.isLH]
  | bil m na nb T a b _ _ => intro ρ; simp [lin, Ex.isLH]
  | addc c neg a _ => intro ρ; simp [lin, Ex.isLH]
  | mulc d a _ => intro ρ; simp [lin, Ex.isLH]
  | ptw f p a _ => intro ρ; simp [lin, Ex.isLH]
  | lin m n rows a _ => intro ρ; simp [lin, Ex.isLH]
  | sum a _ => intro ρ; simp [lin, Ex.isLH]
  | getKey k a _ => intro ρ; simp [lin, Ex.isLH]
  | putKey k a _ => intro ρ; simp [lin, Ex.isLH]
  | sqnorm a _ => intro ρ; simp [lin, Ex.isLH]
  | quad d a _ => intro ρ; simp [lin, Ex.isLH]

theorem collapse_cases (ck : List String) (cs : MVal ℝ) (e e' : Ex ℝ) :
    collapse ck cs e e' = e ∨ collapse ck cs e e' = .const e.isLH e.dom (eval e cs) ∨ collapse ck cs e e' = e' := by
  unfold collapse
  split
  · exact Or.inl rfl
  · split
    · exact Or.inr (Or.inl rfl)
    · split
      · exact Or.inl rfl
      · exact Or.inr (Or.inr rfl)

/-- partial evaluation keeps the class of the operator (likelihood energy or not) -/
theorem pe_isLH (ck : List String) (cs : MVal ℝ) (e : Ex ℝ) : (pe ck cs e).isLH = e.isLH := by
  have coll : ∀ (e e' : Ex ℝ), e'.isLH = e.isLH → (collapse ck cs e e').isLH = e.isLH := by
    intro e e' h
    rcases collapse_cases ck cs e e' with hc | hc | hc <;> rw [hc]
    · simp [Ex.isLH]
    · exact h
  induction e with
  | var k n => simp only [pe]; exact coll _ _ rfl
  | add a b iha ihb => simp only [pe]; exact coll _ _ (by simp only [Ex.isLH, iha, ihb])
  | scale c a iha => simp only [pe]; exact coll _ _ (by simp only [Ex.isLH, iha])
  | chain f g ihf ihg => simp only [pe]; exact coll _ _ (by simp only [Ex.isLH])
  | gauss data icov a iha => simp only [pe]; exact coll _ _ (by simp only [Ex.isLH])
  | varcov n a b iha ihb => simp only [pe]; exact coll _ _ (by simp only [Ex.isLH])
  | const en d v => rfl
  | sub a b _ _ => simp only [pe]; exact coll _ _ (by simp only [Ex.isLH])
  | mul a b _ _ => simp only [pe]; exact coll _ _ (by simp only [Ex.isLH])
  | vdot a b _ _ => simp only [pe]; exact coll _ _ (by simp only [Ex.isLH])
  | bil m na nb T a b _ _ => simp only [pe]; exact coll _ _ (by simp only [Ex.isLH])
  | addc c neg a _ => simp only [pe]; exact coll _ _ (by simp only [Ex.isLH])
  | mulc d a _ => simp only [pe]; exact coll _ _ (by simp only [Ex.isLH])
  | ptw f p a _ => simp only [pe]; exact coll _ _ (by simp only [Ex.isLH])
  | lin m n rows a _ => simp only [pe]; exact coll _ _ (by simp only [Ex.isLH])
  | sum a _ => simp only [pe]; exact coll _ _ (by simp only [Ex.isLH])
  | getKey k a _ => simp only [pe]; exact coll _ _ (by simp only [Ex.isLH])
  | putKey k a _ => simp only [pe]; exact coll _ _ (by simp only [Ex.isLH])
  | sqnorm a _ => simp only [pe]; exact coll _ _ (by simp only [Ex.isLH])
  | quad d a _ => simp only [pe]; exact coll _ _ (by simp only [Ex.isLH])

theorem pe_noNegScale (ck : List String) (cs : MVal ℝ) (e : Ex ℝ) (hn : NoNegScale e) : NoNegScale (pe ck cs e) := by
  have coll : ∀ (e e' : Ex ℝ), NoNegScale e → NoNegScale e' → NoNegScale (collapse ck cs e e') := by
    intro e e' h h'
    rcases collapse_cases ck cs e e' with hc | hc | hc <;> rw [hc]
    · exact h
    · trivial
    · exact h'
  induction e with
  | var k n => simp only [pe]; exact coll _ _ hn trivial
  | const en d v => trivial
  | add a b iha ihb => simp only [pe]; exact coll _ _ hn ⟨iha hn.1, ihb hn.2⟩
  | sub a b iha ihb => simp only [pe]; exact coll _ _ hn ⟨iha hn.1, ihb hn.2⟩
  | mul a b iha ihb => simp only [pe]; exact coll _ _ hn ⟨iha hn.1, ihb hn.2⟩
  | vdot a b iha ihb => simp only [pe]; exact coll _ _ hn ⟨iha hn.1, ihb hn.2⟩
  | bil m na nb T a b iha ihb => simp only [pe]; exact coll _ _ hn ⟨iha hn.1, ihb hn.2⟩
  | varcov n a b iha ihb => simp only [pe]; exact coll _ _ hn ⟨iha hn.1, ihb hn.2⟩
  | chain f g ihf ihg => simp only [pe]; exact coll _ _ hn ⟨hn.1, ihg hn.2⟩
  | scale c a iha =>
    simp only [pe]
    exact coll _ _ hn ⟨iha hn.1, fun h => hn.2 (by rw [← pe_isLH ck cs a]; exact h)⟩
  | addc c neg a iha => simp only [pe]; exact coll _ _ hn (iha hn)
  | mulc d a iha => simp only [pe]; exact coll _ _ hn (iha hn)
  | ptw f p a iha => simp only [pe]; exact coll _ _ hn (iha hn)
  | lin m n rows a iha => simp only [pe]; exact coll _ _ hn (iha hn)
  | sum a iha => simp only [pe]; exact coll _ _ hn (iha hn)
  | getKey k a iha => simp only [pe]; exact coll _ _ hn (iha hn)
  | putKey k a iha => simp only [pe]; exact coll _ _ hn (iha hn)
  | sqnorm a iha => simp only [pe]; exact coll _ _ hn (iha hn)
  | quad d a iha => simp only [pe]; exact coll _ _ hn (iha hn)
  | gauss data icov a iha => simp only [pe]; exact coll _ _ hn (iha hn)

/-- **metric presence**: when no likelihood is negatively scaled, the simplified operator carries a metric exactly when
    the original (with the constants inserted) does -/
theorem pe_metric_presence (ck : List String) (cs : MVal ℝ) (e : Ex ℝ) (hn : NoNegScale e) (ρ : MVal ℝ) (wm : Bool) :
    ((lin (pe ck cs e) ρ wm).metric).isSome = ((lin e (insertC ck cs ρ) wm).metric).isSome := by
  rw [metric_isSome_iff (pe ck cs e) wm (pe_noNegScale ck cs e hn) ρ, metric_isSome_iff e wm hn _, pe_isLH]

/-- the excluded region: `-2 · GaussianEnergy(a)` with `a` constant — the original has no metric
    (`ScalingOperator.__call__` drops it for a negative factor), the collapsed `ConstantEnergyOperator` produces one -/
theorem pe_metric_presence_witness :
    ((lin (pe ["a"] (fun _ _ => 0) (.scale (-2) (.gauss [0] [1] (.var "a" 1)))) (fun _ _ => 0) true).metric).isSome = true ∧
    ((lin (.scale (-2) (.gauss [0] [1] (.var "a" 1)) : Ex ℝ) (fun _ _ => 0) true).metric).isSome = false := by
  constructor
  · simp [pe, collapse, allConst, Ex.inDom, Ex.isLH, lin]
  · simp [lin]

end NiftyVerif.C04
