/-
  C16 — Classic descent minimisers are monotone and their line search is sound.
  Property theorems only (helper lemmas: Lemmas/Descent.lean, Lemmas/LineSearch.lean, Lemmas/Lbfgs.lean).
  Obligations are listed in harness/props/c16.py. Models: Model/Descent.lean, Model/LineSearch.lean, Model/Lbfgs.lean
  (hand transcriptions of nifty/cl/minimization/descent_minimizers.py and line_search.py, tied by harness/props/c16.py).
-/
import NiftyVerif.Lemmas.Descent
import NiftyVerif.Lemmas.LineSearch

namespace NiftyVerif.C16
open NiftyVerif

/-! ## 1. `DescentMinimizer.__call__`: never accepts a step that increases the energy; reports only convergence or error.
  For **every** line searcher / direction rule / controller / reset (all opaque, stateful oracles), every energy type,
  every totally ordered value type and every run length. -/
section descent
open Descent
variable {K E σ : Type} [LinearOrder K]

/-- every accepted step has a value strictly below the previous accepted one (hence below *all* earlier ones, start
    included), and the returned energy is never above any accepted energy nor above the start -/
theorem descent_monotone (o : Oracles K E σ) (fuel : Nat) (st : σ) (e0 : E) (r : Result E σ)
    (h : minimize o fuel st e0 = some r) :
    (e0 :: r.accepted).Pairwise (fun a b => o.value b < o.value a) ∧
    (∀ a ∈ e0 :: r.accepted, o.value r.energy ≤ o.value a) := by
  simp only [minimize] at h
  split at h
  · have := loop_spec o e0 fuel _ e0 none [] r h (by simp) (by simp)
    exact ⟨this.1, this.2.1⟩
  · cases h; simp

/-- the reported status is CONVERGED or ERROR, never CONTINUE -/
theorem descent_status (o : Oracles K E σ) (fuel : Nat) (st : σ) (e0 : E) (r : Result E σ)
    (h : minimize o fuel st e0 = some r) :
    r.status = .converged ∨ r.status = .error := by
  have hne : r.status ≠ .continue_ := by
    simp only [minimize] at h
    split at h
    · exact (loop_spec o e0 fuel _ e0 none [] r h (by simp) (by simp)).2.2
    · rename_i hs; cases h; exact hs
  cases hr : r.status <;> simp_all

/-- non-vacuity: a three-step run on `ℤ`-valued energies (energy = its value; search subtracts 1; controller stops at 0) -/
example : (minimize (K := Int) (E := Int) (σ := Unit)
    ⟨id, fun _ => false, fun s _ => (s, .continue_), fun s e => (s, if e ≤ 0 then .converged else .continue_),
     fun s e _ => (s, e - 1, true), id⟩ 10 () 3).map (fun r => (r.accepted, r.status, r.energy))
      = some ([2, 1, 0], .converged, 0) := by decide

end descent

/-! ## 2. `LineSearch.perform_line_search` / `_zoom`: success ⇒ strong Wolfe conditions at the returned point.
  For every ordered field, every parameter set, every trace (= every energy, every interpolation result). -/
section linesearch
open LineSearch
variable {K : Type} [Field K] [LinearOrder K] [IsStrictOrderedRing K]

/-- if the checker accepts a recorded run and the run reports success at step length `α`, then `α` is a recorded
    evaluation whose value `f = φ(α)` and slope `d = φ'(α)` satisfy the strong Wolfe conditions relative to the start:
    `φ(α) ≤ φ(0) + c₁ α φ'(0)` and `|φ'(α)| ≤ c₂ |φ'(0)|`; moreover `φ'(0) < 0`. -/
theorem ls_success_wolfe (c : Consts K) (p : Params K) (t : List (Ev K)) (α : K)
    (h : acceptsLS c p t true α = true) :
    p.dphi0 < 0 ∧ ∃ ev ∈ t, ev.α = α ∧ ∃ f d, ev.φ = .num f ∧ ev.dφ = some d ∧
      f ≤ p.phi0 + p.c1 * α * p.dphi0 ∧ |d| ≤ p.c2 * |p.dphi0| := by
  unfold acceptsLS at h
  split at h
  · rename_i s a hrun
    simp only [Bool.and_eq_true, beq_iff_eq, decide_eq_true_eq] at h
    obtain ⟨hs, ha⟩ := h
    subst hs; subst ha
    obtain ⟨hneg, ev, he, hα, f, d, hf, hd, harm, hcurv⟩ := (runLS_ret c p t true a hrun).1 rfl
    refine ⟨hneg, ev, he, hα, f, d, hf, hd, ?_, ?_⟩
    · exact not_lt.mp harm
    · unfold curvatureOk at hcurv
      rw [absK_eq_abs] at hcurv
      rw [abs_of_neg hneg]
      linarith
  · cases h

/-- the same for traces that record an actual line function: if every recorded value/slope is `φ α`/`φ' α`, the
    returned step length satisfies the strong Wolfe conditions for `φ`, `φ'` -/
theorem ls_success_wolfe_fun (c : Consts K) (p : Params K) (t : List (Ev K)) (α : K) (φ φ' : K → K)
    (hφ : ∀ ev ∈ t, ∀ f, ev.φ = .num f → f = φ ev.α) (hφ' : ∀ ev ∈ t, ∀ d, ev.dφ = some d → d = φ' ev.α)
    (h0 : p.phi0 = φ 0) (h0' : p.dphi0 = φ' 0)
    (h : acceptsLS c p t true α = true) :
    φ' 0 < 0 ∧ φ α ≤ φ 0 + p.c1 * α * φ' 0 ∧ |φ' α| ≤ p.c2 * |φ' 0| := by
  obtain ⟨hneg, ev, he, hα, f, d, hf, hd, h1, h2⟩ := ls_success_wolfe c p t α h
  have e1 := hφ ev he f hf
  have e2 := hφ' ev he d hd
  rw [hα] at e1 e2
  rw [← h0, ← h0', ← e1, ← e2]
  exact ⟨hneg, h1, h2⟩

/-- whatever the verdict, the returned energy is the start (`α = 0`) or one that was actually evaluated
    (constructed without `FloatingPointError`) during this search -/
theorem ls_returns_evaluated_point (c : Consts K) (p : Params K) (t : List (Ev K)) (s : Bool) (α : K)
    (h : acceptsLS c p t s α = true) :
    α = 0 ∨ ∃ ev ∈ t, ev.α = α ∧ ev.φ ≠ .fpe := by
  unfold acceptsLS at h
  split at h
  · rename_i s' a hrun
    simp only [Bool.and_eq_true, beq_iff_eq, decide_eq_true_eq] at h
    obtain ⟨hs, ha⟩ := h
    subst hs; subst ha
    exact (runLS_ret c p t s' a hrun).2
  · cases h

end linesearch

end NiftyVerif.C16
