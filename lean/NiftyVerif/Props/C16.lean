/-
  C16 — Classic descent minimisers are monotone and their line search is sound.
  Property theorems only (helper lemmas: Lemmas/Descent.lean, Lemmas/LineSearch.lean, Lemmas/Lbfgs.lean).
  Obligations are listed in harness/props/c16.py. Models: Model/Descent.lean, Model/LineSearch.lean, Model/Lbfgs.lean
  (hand transcriptions of nifty/cl/minimization/descent_minimizers.py and line_search.py, tied by harness/props/c16.py).
-/
import NiftyVerif.Lemmas.Descent
import NiftyVerif.Lemmas.LineSearch
import NiftyVerif.Lemmas.LineSearchInterp
import NiftyVerif.Lemmas.Lbfgs
import NiftyVerif.Lemmas.LbfgsRun
import NiftyVerif.Lemmas.LbfgsRVec

namespace NiftyVerif.C16
open NiftyVerif

/-! ## 1. `DescentMinimizer.__call__`: never accepts a step that increases the energy; reports only convergence or error.
  For **every** line searcher / direction rule / controller / reset (all opaque, stateful oracles), every energy type,
  every totally ordered value type and every run length. -/
section descent
open Descent
variable {K E σ : Type} [LinearOrder K]

/-- every accepted step has a value strictly below the previous accepted one (hence below *all* earlier ones, start
    included), and the returned energy is never above any accepted energy nor above the start -/
theorem descent_monotone (o : Oracles K E σ) (fuel : Nat) (st : σ) (e0 : E) (r : Result E σ)
    (h : minimize o fuel st e0 = some r) :
    (e0 :: r.accepted).Pairwise (fun a b => o.value b < o.value a) ∧
    (∀ a ∈ e0 :: r.accepted, o.value r.energy ≤ o.value a) := by
  simp only [minimize] at h
  split at h
  · have := loop_spec o e0 fuel _ e0 none [] r h (by simp) (by simp)
    exact ⟨this.1, this.2.1⟩
  · cases h; simp

/-- the reported status is CONVERGED or ERROR, never CONTINUE -/
theorem descent_status (o : Oracles K E σ) (fuel : Nat) (st : σ) (e0 : E) (r : Result E σ)
    (h : minimize o fuel st e0 = some r) :
    r.status = .converged ∨ r.status = .error := by
  have hne : r.status ≠ .continue_ := by
    simp only [minimize] at h
    split at h
    · exact (loop_spec o e0 fuel _ e0 none [] r h (by simp) (by simp)).2.2
    · rename_i hs; cases h; exact hs
  cases hr : r.status <;> simp_all

/-- non-vacuity: a three-step run on `ℤ`-valued energies (energy = its value; search subtracts 1; controller stops at 0) -/
example : (minimize (K := Int) (E := Int) (σ := Unit)
    ⟨id, fun _ => false, fun s _ => (s, .continue_), fun s e => (s, if e ≤ 0 then .converged else .continue_),
     fun s e _ => (s, e - 1, true), id⟩ 10 () 3).map (fun r => (r.accepted, r.status, r.energy))
      = some ([2, 1, 0], .converged, 0) := by decide

end descent

/-! ## 2. `LineSearch.perform_line_search` / `_zoom`: success ⇒ strong Wolfe conditions at the returned point.
  For every ordered field, every parameter set, every trace (= every energy, every interpolation result). -/
section linesearch
open LineSearch
variable {K : Type} [Field K] [LinearOrder K] [IsStrictOrderedRing K]

/-- if the checker accepts a recorded run and the run reports success at step length `α`, then `α` is a recorded
    evaluation whose value `f = φ(α)` and slope `d = φ'(α)` satisfy the strong Wolfe conditions relative to the start:
    `φ(α) ≤ φ(0) + c₁ α φ'(0)` and `|φ'(α)| ≤ c₂ |φ'(0)|`; moreover `φ'(0) < 0`. -/
theorem ls_success_wolfe (c : Consts K) (p : Params K) (t : List (Ev K)) (α : K)
    (h : acceptsLS c p t true α = true) :
    p.dphi0 < 0 ∧ ∃ ev ∈ t, ev.α = α ∧ ∃ f d, ev.φ = .num f ∧ ev.dφ = some d ∧
      f ≤ p.phi0 + p.c1 * α * p.dphi0 ∧ |d| ≤ p.c2 * |p.dphi0| := by
  unfold acceptsLS at h
  split at h
  · rename_i s a hrun
    simp only [Bool.and_eq_true, beq_iff_eq, decide_eq_true_eq] at h
    obtain ⟨hs, ha⟩ := h
    subst hs; subst ha
    obtain ⟨hneg, ev, he, hα, f, d, hf, hd, harm, hcurv⟩ := (runLS_ret c p t true a hrun).1 rfl
    refine ⟨hneg, ev, he, hα, f, d, hf, hd, ?_, ?_⟩
    · exact not_lt.mp harm
    · unfold curvatureOk at hcurv
      rw [absK_eq_abs] at hcurv
      rw [abs_of_neg hneg]
      linarith
  · cases h

/-- the same for traces that record an actual line function: if every recorded value/slope is `φ α`/`φ' α`, the
    returned step length satisfies the strong Wolfe conditions for `φ`, `φ'` -/
theorem ls_success_wolfe_fun (c : Consts K) (p : Params K) (t : List (Ev K)) (α : K) (φ φ' : K → K)
    (hφ : ∀ ev ∈ t, ∀ f, ev.φ = .num f → f = φ ev.α) (hφ' : ∀ ev ∈ t, ∀ d, ev.dφ = some d → d = φ' ev.α)
    (h0 : p.phi0 = φ 0) (h0' : p.dphi0 = φ' 0)
    (h : acceptsLS c p t true α = true) :
    φ' 0 < 0 ∧ φ α ≤ φ 0 + p.c1 * α * φ' 0 ∧ |φ' α| ≤ p.c2 * |φ' 0| := by
  obtain ⟨hneg, ev, he, hα, f, d, hf, hd, h1, h2⟩ := ls_success_wolfe c p t α h
  have e1 := hφ ev he f hf
  have e2 := hφ' ev he d hd
  rw [hα] at e1 e2
  rw [← h0, ← h0', ← e1, ← e2]
  exact ⟨hneg, h1, h2⟩

/-- link to the acceptance loop: a successful search with `c₁ > 0` and a positive step returns a *strictly lower* value,
    so `DescentMinimizer.__call__`'s "energy has increased" / "energy has not changed" exits cannot be taken after a
    successful line search whose recorded values are the energy's -/
theorem ls_success_strict_decrease (c : Consts K) (p : Params K) (t : List (Ev K)) (α : K)
    (hc1 : 0 < p.c1) (hα : 0 < α) (h : acceptsLS c p t true α = true) :
    ∃ ev ∈ t, ev.α = α ∧ ∃ f, ev.φ = .num f ∧ f < p.phi0 := by
  obtain ⟨hneg, ev, he, hev, f, d, hf, _, h1, _⟩ := ls_success_wolfe c p t α h
  refine ⟨ev, he, hev, f, hf, ?_⟩
  have : p.c1 * α * p.dphi0 < 0 := mul_neg_of_pos_of_neg (mul_pos hc1 hα) hneg
  linarith

/-- whatever the verdict, the returned energy is the start (`α = 0`) or one that was actually evaluated
    (constructed without `FloatingPointError`) during this search -/
theorem ls_returns_evaluated_point (c : Consts K) (p : Params K) (t : List (Ev K)) (s : Bool) (α : K)
    (h : acceptsLS c p t s α = true) :
    α = 0 ∨ ∃ ev ∈ t, ev.α = α ∧ ev.φ ≠ .fpe := by
  unfold acceptsLS at h
  split at h
  · rename_i s' a hrun
    simp only [Bool.and_eq_true, beq_iff_eq, decide_eq_true_eq] at h
    obtain ⟨hs, ha⟩ := h
    subst hs; subst ha
    exact (runLS_ret c p t s' a hrun).2
  · cases h

/-! ### the interpolated steps of `_zoom` (now recomputed by the checker from the recorded values, see `alphaJOk`) -/

/-- `_quadmin`: the returned step is the stationary point of the quadratic with value `fa`, slope `fpa` at `a` that
    passes through `(b, fb)` -/
theorem quadmin_stationary (a fa fpa b fb q : K) (h : quadmin a fa fpa b fb = some q) :
    ∃ B : K, quadPoly a fa fpa B a = fa ∧ quadPoly a fa fpa B b = fb ∧ fpa + (B + B) * (q - a) = 0 :=
  quadmin_spec a fa fpa b fb q h

/-- `_cubicmin`: the coefficients `A, B` give the cubic (value `fa`, slope `fpa` at `a`) through `(b, fb)`, `(c, fc)` -/
theorem cubicmin_interpolates (a fa fpa b fb cc fc A B : K) (h : cubicAB a fa fpa b fb cc fc = some (A, B)) :
    cubicPoly fa fpa B A (b - a) = fb ∧ cubicPoly fa fpa B A (cc - a) = fc :=
  cubicAB_interpolates a fa fpa b fb cc fc A B h

/-- `_cubicmin`: `t` is a stationary point of that cubic iff `(3At + B)² = B² − 3AC`, i.e. iff
    `t = (−B ± sqrt(B² − 3AC))/(3A)` — the formula of the code; the checker tests `p'(t) ≈ 0` on the `+` branch -/
theorem cubicmin_stationary (A B C t : K) (hA : A ≠ 0) :
    (3 * A * t * t + 2 * B * t + C = 0) ↔ (3 * A * t + B) * (3 * A * t + B) = B * B - 3 * A * C :=
  cubic_stationary_iff A B C t hA

/-- non-vacuity (a test, not a proof): a recorded run with one expansion step, a `_zoom` call and success is accepted.
    φ(α) = (α-3)², φ'(α) = 2(α-3): α = 1 (slope too steep) → α = 2 … here scripted values. -/
example : acceptsLS (K := Rat)
    ⟨1, 1/2, 99/100, 101/50, 1/10, 1/5, 10 ^ 100, 1 / 10 ^ 9, 1 / 2 ^ 42⟩
    ⟨1/10000, 1/10, 1000, none, 100, 100, some 1, none, 1, 9, -6⟩
    [⟨1, .num 4, some (-4)⟩, ⟨2, .num 1, some (-2)⟩, ⟨4, .num 1, none⟩, ⟨3, .num 0, some 0⟩] true 3 = true := by
  decide +kernel

end linesearch

/-! ## 3. The two L-BFGS variants produce the same direction from the same history.
  For every field `K`, every `K`-module `V`, every symmetric bilinear `ip`, every history length, every
  `max_history_length`, every buffer content. -/
section lbfgs
open Lbfgs
variable {K V : Type} [Field K] [AddCommGroup V] [Module K V]

/-- **coefficient form = vector form.** On any matrix `G` that is the Gram matrix of the basis
    `b = [s_0..s_{m-1}, y_0..y_{m-1}, g]` (the corner `[2m,2m]`, where the code stores `‖g‖` instead of `‖g‖²`, exempt),
    the code's `Σ_l delta_l • b_l` *is* the two-loop recursion on the pairs `(s_j, y_j)` applied to `g` — for every
    `m`, without any positivity or non-degeneracy assumption (division by zero is `0` on both sides; in the code both
    variants raise/produce `nan` there). -/
theorem vl_eq_two_loop {ip : V → V → K} (hip : IsIP ip) (b : Nat → V) (m : Nat) (G : Nat → Nat → K)
    (hG : IsGram ip b m G) (h0 : m = 0 → G 0 0 ≠ 0) (al0 : Nat → K) :
    sumV (2 * m) (fun l => delta G m al0 l • b l) =
      twoLoopAbs ip b (fun i => b (m + i)) m (b (2 * m)) al0 :=
  delta_eq_twoLoop hip b m G hG h0 al0

/-- **both use exactly the last `min(k, maxhist)` pairs**, read through the circular buffer at slots
    `(k - m + j) % maxhist`, `j < m` (oldest first): each direction is the abstract two-loop recursion on that window. -/
theorem buffer_window {ip : V → V → K} (hip : IsIP ip) (gg : V → K) (mmax : Nat) (hmm : 0 < mmax)
    (stL : LState V) (x g : V) (alS alL : Nat → K) (stV : VLState K V) (alV : Nat → K)
    (hG : IsGram ip (basis mmax stV) (histLen mmax stV) (bDotB ip gg mmax stV).1)
    (h0 : histLen mmax stV = 0 → gg stV.lastgrad ≠ 0) :
    (let k := stL.k
     let m := min k mmax
     let s := if 0 < k then upd stL.s ((k - 1) % mmax) (x - stL.lastx) else stL.s
     let y := if 0 < k then upd stL.y ((k - 1) % mmax) (g - stL.lastgrad) else stL.y
     (lbfgsDir ip mmax stL x g alS).1 =
       twoLoopAbs ip (fun j => s (slot mmax k m j)) (fun j => y (slot mmax k m j)) m g alL) ∧
    (let m := histLen mmax stV
     (vlDir ip gg mmax stV alV).1 =
       twoLoopAbs ip (fun j => stV.s (slot mmax stV.k m j)) (fun j => stV.y (slot mmax stV.k m j)) m
         stV.lastgrad alV) :=
  ⟨lbfgsDir_eq_twoLoop ip mmax hmm stL x g alS alL, vlDir_eq_twoLoop hip gg mmax stV alV hG h0⟩

/-- **one call of each variant on the same buffers**: if the VL-BFGS store holds the same `k`, the same `s`/`y`
    slots (after this call's write) and the same gradient as `L_BFGS`, and its assembled `b_dot_b` is the Gram matrix
    of its basis, the two directions are equal. -/
theorem vl_eq_lbfgs_direction {ip : V → V → K} (hip : IsIP ip) (gg : V → K) (mmax : Nat) (hmm : 0 < mmax)
    (stL : LState V) (stV : VLState K V) (x g : V) (alL alV : Nat → K)
    (hk : stV.k = stL.k)
    (hs : stV.s = if 0 < stL.k then upd stL.s ((stL.k - 1) % mmax) (x - stL.lastx) else stL.s)
    (hy : stV.y = if 0 < stL.k then upd stL.y ((stL.k - 1) % mmax) (g - stL.lastgrad) else stL.y)
    (hg : stV.lastgrad = g)
    (hG : IsGram ip (basis mmax stV) (histLen mmax stV) (bDotB ip gg mmax stV).1)
    (h0 : min stL.k mmax = 0 → gg g ≠ 0) :
    (vlDir ip gg mmax stV alV).1 = (lbfgsDir ip mmax stL x g alL).1 :=
  vl_eq_lbfgs_call hip gg mmax hmm stL stV x g alL alV hk hs hy hg hG h0

/-- **the persistent stores are sound**: if before `b_dot_b` the `ss/sy/yy` stores are correct on the live window outside
    row/column `(k-1) % mmax` (which is what `add_new_point` leaves behind, `store_invariant_step`), the assembled matrix
    is the Gram matrix of the basis — the hypothesis of `vl_eq_two_loop`/`vl_eq_lbfgs_direction` is discharged. -/
theorem store_gram {ip : V → V → K} (hip : IsIP ip) (gg : V → K) (mmax : Nat) (st : VLState K V)
    (hok : StoreOK ip mmax st) :
    IsGram ip (basis mmax st) (histLen mmax st) (bDotB ip gg mmax st).1 :=
  bDotB_gram hip gg mmax st hok

/-- the invariant is re-established by every call: `b_dot_b` makes the store fully correct on the live window, and
    `add_new_point` then only invalidates the slot that the next `b_dot_b` refreshes -/
theorem store_invariant_step {ip : V → V → K} (hip : IsIP ip) (gg : V → K) (mmax : Nat) (hmm : 0 < mmax)
    (st : VLState K V) (x g : V) (hok : StoreOK ip mmax st) :
    StoreFull ip mmax (bDotB ip gg mmax st).2 ∧
    StoreOK ip mmax (addNewPoint mmax (bDotB ip gg mmax st).2 x g) :=
  ⟨storeFull_after hip gg mmax st hok,
   addNewPoint_ok ip mmax hmm _ x g (storeFull_after hip gg mmax st hok)⟩

/-- **whole minimiser runs, every history**: fed the same sequence of `(position, gradient, reset)` points — any
    length, any `max_history_length ≥ 1`, wrap-around and resets included, arbitrary garbage in the unwritten buffer
    slots / `np.empty` stores / `alpha` scratch arrays — `VL_BFGS` and `L_BFGS` return the same list of directions.
    (`gg p.g ≠ 0`: the gradient norm is non-zero, which `DescentMinimizer.__call__` checks before asking for a direction;
    it is only used at calls with an empty history, where the code divides `‖g‖` by itself.) -/
theorem vl_run_eq_lbfgs_run {ip : V → V → K} (hip : IsIP ip) (gg : V → K) (mmax : Nat) (hmm : 0 < mmax)
    (alL alV : Nat → K) (s0 y0 : Nat → V) (e0 : Nat → Nat → K) (pts : List (Point V))
    (hgg : ∀ p ∈ pts, gg p.g ≠ 0) (stL : LState V) (h0 : stL.k = 0) (hs : stL.s = s0) (hy : stL.y = y0) :
    runVL ip gg mmax alV s0 y0 e0 pts none = runL ip mmax alL s0 y0 pts stL :=
  runVL_eq_runL hip gg mmax hmm alL alV s0 y0 e0 pts hgg stL none ⟨h0, hs, hy⟩

/-- **the driver instance**: exactly the two expressions `Driver/C16.lean` evaluates for an `lbfgs` request (exact
    rational vectors `RVec n`, `RVec.dot`, zero-initialised buffers/stores/scratch, `‖g‖²` in the corner) are equal for
    every dimension, every `max_history_length ≥ 1` and every list of points with non-zero gradients -/
theorem vl_run_eq_lbfgs_run_driver (n m : Nat) (hm : 0 < m) (pts : List (Point (RVec n)))
    (hg : ∀ p ∈ pts, RVec.dot p.g p.g ≠ 0) :
    runVL (K := ℚ) RVec.dot (fun g => RVec.dot g g) m (fun _ => 0) (fun _ => 0) (fun _ => 0) (fun _ _ => 0) pts none =
      runL (K := ℚ) RVec.dot m (fun _ => 0) (fun _ => 0) (fun _ => 0) pts ⟨0, fun _ => 0, fun _ => 0, 0, 0⟩ :=
  vl_run_eq_lbfgs_run (isIP_dot n) (fun g => RVec.dot g g) m hm _ _ _ _ _ pts hg _ rfl rfl rfl

/-- non-vacuity: `V = K = ℚ` with `ip = (· * ·)` is a lawful inner product -/
example : IsIP (K := Rat) (V := Rat) (fun a b => a * b) :=
  ⟨fun u v => mul_comm u v, fun u v w => add_mul u v w, fun c u v => by simp [mul_assoc]⟩

end lbfgs

end NiftyVerif.C16
