/-
  C30 — Prior transforms map a standard normal to the documented distribution.

  Property theorems only; helper lemmas live in Lemmas/PriorsInterp.lean and Lemmas/PriorsReal.lean.
  The obligations are listed in harness/props/c30.py (OBLIGATIONS).  Model: Model/Priors.lean (transcribed from
  nifty/re/num/stats_distributions.py, nifty/cl/library/special_distributions.py, nifty/cl/utilities.py,
  nifty/cl/operators/normal_operators.py).

  `Φ`, `Φinv` (normal cdf / quantile), `logΦ`, `φ` are parameters; what is assumed about them is the structure
  `Priors.StdNormal` (strictly increasing, `Φ(−x) = 1 − Φ(x)`, `0 < Φ`, inverse pair on `(0,1)`) plus, where used,
  `logΦ = log ∘ Φ` and `HasDerivAt Φ (φ x) x`.  Each `quantile_*` theorem says `T(Φinv p) = Q_target(p)` with the textbook
  quantile function in elementary functions; each `cdf_*` theorem says `F_target(T(Φinv p)) = p` with the textbook cdf.
-/
import NiftyVerif.Model.Priors
import NiftyVerif.Lemmas.TranscReal
import NiftyVerif.Lemmas.PriorsInterp
import NiftyVerif.Lemmas.PriorsReal
import NiftyVerif.Lemmas.PriorsGrid

namespace NiftyVerif.C30
open NiftyVerif NiftyVerif.Priors Real

variable {Φ Φinv : ℝ → ℝ}

/-! ## normal (`normal_prior`, `normal_invprior`, `NormalTransform`) -/

/-- `μ + σ·x` is strictly increasing for `σ > 0` -/
theorem strictMono_normal (μ : ℝ) {σ : ℝ} (hσ : 0 < σ) : StrictMono (normal μ σ) := by
  intro a b hab
  have := mul_lt_mul_of_pos_left hab hσ
  simp only [normal]; linarith

/-- the standard-normal `p`-quantile is mapped to the `N(μ,σ²)` `p`-quantile `μ + σ·Φ⁻¹(p)` -/
theorem quantile_normal (μ σ p : ℝ) : normal μ σ (Φinv p) = μ + σ * Φinv p := rfl

/-- … i.e. the target cdf `y ↦ Φ((y−μ)/σ)` takes the value `p` there -/
theorem cdf_normal (h : StdNormal Φ Φinv) (μ : ℝ) {σ p : ℝ} (hσ : σ ≠ 0) (h0 : 0 < p) (h1 : p < 1) :
    Φ ((normal μ σ (Φinv p) - μ) / σ) = p := by
  have : (normal μ σ (Φinv p) - μ) / σ = Φinv p := by
    simp only [normal]; rw [add_sub_cancel_left, mul_div_cancel_left₀ _ hσ]
  rw [this, h.right_inv p h0 h1]

/-- `normal_invprior` undoes `normal_prior` and vice versa -/
theorem inverse_roundtrip_normal (μ : ℝ) {σ : ℝ} (hσ : σ ≠ 0) (x y : ℝ) :
    normalInv μ σ (normal μ σ x) = x ∧ normal μ σ (normalInv μ σ y) = y := by
  simp only [normal, normalInv]; constructor <;> field_simp <;> ring

example : StrictMono (normal (3 / 2 : ℝ) 2) := strictMono_normal _ (by norm_num)

/-! ## log-normal (`lognormal_moments`, `lognormal_prior`, `lognormal_invprior`, `LognormalTransform`) -/

/-- the pair both `lognormal_moments` variants return for `m, s > 0`, with `v = log(1 + (s/m)²)` -/
theorem lognormal_moments_value {m s : ℝ} (hm : 0 < m) (hs : 0 < s) :
    lognormalMomentsRe m s = some (log m - log (1 + s / m * (s / m)) / 2, sqrt (log (1 + s / m * (s / m)))) ∧
    lognormalMomentsCl m s = some (log m - log (1 + s / m * (s / m)) / 2, sqrt (log (1 + s / m * (s / m)))) := by
  obtain ⟨-, hsq, -, -⟩ := lognormal_algebra hm hs
  have e1 : (1.0 : ℝ) = 1 := by norm_num
  have e2 : (0.5 : ℝ) = 1 / 2 := by norm_num
  have hm' : ¬ m ≤ 0 := not_le.mpr hm
  have hs' : ¬ s ≤ 0 := not_le.mpr hs
  constructor
  · simp only [lognormalMomentsRe, lognormalMomentsReWith, hm', hs', if_false, Np.log1p, Priors.sq, TranscReal.sqrt_eq,
      TranscReal.log_eq, e1, e2, hsq]
    congr 2; ring
  · simp only [lognormalMomentsCl, lognormalMomentsClWith, hm, hs, not_true_eq_false, if_false, Np.log1p, Priors.sq, TranscReal.sqrt_eq,
      TranscReal.log_eq, e1, hsq]

/-- JAX variant: for mean `m > 0`, std `s > 0` the returned `(μ_ℓ, σ_ℓ)` have `σ_ℓ > 0` and reproduce the moments of
    `exp(N(μ_ℓ, σ_ℓ²))`: mean `exp(μ_ℓ + σ_ℓ²/2) = m`, variance `(exp(σ_ℓ²) − 1)·exp(2μ_ℓ + σ_ℓ²) = s²` -/
theorem lognormal_moments_spec {m s : ℝ} (hm : 0 < m) (hs : 0 < s) :
    ∃ lm ls, lognormalMomentsRe m s = some (lm, ls) ∧ 0 < ls ∧
      exp (lm + ls ^ 2 / 2) = m ∧ (exp (ls ^ 2) - 1) * exp (2 * lm + ls ^ 2) = s ^ 2 := by
  obtain ⟨hv, hsq, h1, h2⟩ := lognormal_algebra hm hs
  refine ⟨_, _, (lognormal_moments_value hm hs).1, sqrt_pos.mpr hv, ?_, ?_⟩
  · rw [pow_two, hsq]; exact h1
  · rw [pow_two, hsq]; exact h2

/-- classic variant (`nifty.cl.utilities.lognormal_moments`) -/
theorem lognormal_moments_spec_cl {m s : ℝ} (hm : 0 < m) (hs : 0 < s) :
    ∃ lm ls, lognormalMomentsCl m s = some (lm, ls) ∧ 0 < ls ∧
      exp (lm + ls ^ 2 / 2) = m ∧ (exp (ls ^ 2) - 1) * exp (2 * lm + ls ^ 2) = s ^ 2 := by
  obtain ⟨hv, hsq, h1, h2⟩ := lognormal_algebra hm hs
  refine ⟨_, _, (lognormal_moments_value hm hs).2, sqrt_pos.mpr hv, ?_, ?_⟩
  · rw [pow_two, hsq]; exact h1
  · rw [pow_two, hsq]; exact h2

/-- the Kahan-stable evaluation of `log1p` is, over `ℝ`, the textbook `log(1+v)` (all `v`) -/
theorem log1pStable_eq (v : ℝ) : log1pStable v = log (1 + v) := by
  have e1 : (1.0 : ℝ) = 1 := by norm_num
  simp only [log1pStable, TranscReal.log_eq, e1]
  by_cases h : (1 + v < 1 ∨ 1 < 1 + v)
  · rw [if_pos h]
    have hv : v ≠ 0 := by
      rcases h with h | h
      · exact ne_of_lt (by linarith)
      · exact ne_of_gt (by linarith)
    have : (1 + v - 1 : ℝ) = v := by ring
    rw [this, mul_div_assoc, div_self hv, mul_one]
  · rw [if_neg h]
    have hv : v = 0 := by
      have h1 : ¬ (1 + v < 1) := fun hh => h (Or.inl hh)
      have h2 : ¬ (1 < 1 + v) := fun hh => h (Or.inr hh)
      linarith [not_lt.mp h1, not_lt.mp h2]
    rw [hv, add_zero, log_one]

/-- **the stable formula is the specification**: evaluating `lognormal_moments` with the numerically stable `log1p`
    (what `np.log1p`/`jnp.log1p` and the harness' float64 reference `sqrt(log1p((s/m)²))`, `log m − log1p((s/m)²)/2` do) is,
    over `ℝ`, the same function as the textbook evaluation — for *all* arguments, JAX and classic variant. Hence
    `lognormal_moments_value/_spec` hold verbatim for the stable evaluation. -/
theorem lognormal_moments_stable (m s : ℝ) :
    lognormalMomentsReWith log1pStable m s = lognormalMomentsRe m s ∧
    lognormalMomentsClWith log1pStable m s = lognormalMomentsCl m s := by
  have e1 : (1.0 : ℝ) = 1 := by norm_num
  have h : (log1pStable : ℝ → ℝ) = Np.log1p := by
    funext v
    rw [log1pStable_eq]
    simp only [Np.log1p, TranscReal.log_eq, e1]
  simp only [lognormalMomentsRe, lognormalMomentsCl, h, and_self]

/-- the reference the harness uses at the extremes, for `m, s > 0`:
    `(log m − log1p((s/m)²)/2, √(log1p((s/m)²)))` with the stable `log1p` — and its moments are `m`, `s²` -/
theorem lognormal_moments_stable_value {m s : ℝ} (hm : 0 < m) (hs : 0 < s) :
    lognormalMomentsReWith log1pStable m s
      = some (log m - log1pStable (s / m * (s / m)) / 2, sqrt (log1pStable (s / m * (s / m)))) ∧
    exp ((log m - log1pStable (s / m * (s / m)) / 2) + (sqrt (log1pStable (s / m * (s / m)))) ^ 2 / 2) = m ∧
    (exp ((sqrt (log1pStable (s / m * (s / m)))) ^ 2) - 1)
      * exp (2 * (log m - log1pStable (s / m * (s / m)) / 2) + (sqrt (log1pStable (s / m * (s / m)))) ^ 2) = s ^ 2 := by
  obtain ⟨-, hsq, h1, h2⟩ := lognormal_algebra hm hs
  rw [(lognormal_moments_stable m s).1, (lognormal_moments_value hm hs).1, log1pStable_eq]
  refine ⟨rfl, ?_, ?_⟩
  · rw [pow_two, hsq]; exact h1
  · rw [pow_two, hsq]; exact h2

example : log1pStable (1e-18 : ℝ) = log (1 + 1e-18) := log1pStable_eq _

/-- both variants reject non-positive mean or std (the `ValueError`) -/
theorem lognormal_moments_rejects {m s : ℝ} (hbad : m ≤ 0 ∨ s ≤ 0) :
    lognormalMomentsRe m s = none ∧ lognormalMomentsCl m s = none := by
  simp only [lognormalMomentsRe, lognormalMomentsCl, lognormalMomentsReWith, lognormalMomentsClWith]
  rcases hbad with hb | hb
  · simp [hb, not_lt.mpr hb]
  · by_cases hm : 0 < m <;> simp [hm, hb, not_lt.mpr hb, not_le.mpr]

/-- `exp(μ_ℓ + σ_ℓ·x)` is strictly increasing for `σ_ℓ > 0` -/
theorem strictMono_lognormal (lm : ℝ) {ls : ℝ} (hls : 0 < ls) : StrictMono (lognormal lm ls) := by
  intro a b hab
  simp only [lognormal, TranscReal.exp_eq]
  exact exp_strictMono (strictMono_normal lm hls hab)

/-- `lognormal_prior(mean, std)` (moment-matched) is defined and strictly increasing for every `mean, std > 0` -/
theorem strictMono_lognormal_prior {m s : ℝ} (hm : 0 < m) (hs : 0 < s) :
    ∃ T : ℝ → ℝ, (∀ x, lognormalPriorRe m s x = some (T x)) ∧ (∀ x, lognormalTransformCl m s x = some (T x)) ∧
      StrictMono T := by
  obtain ⟨lm, ls, he, hpos, -, -⟩ := lognormal_moments_spec hm hs
  obtain ⟨lm', ls', he', hpos', h1', h2'⟩ := lognormal_moments_spec_cl hm hs
  refine ⟨lognormal lm' ls', ?_, ?_, strictMono_lognormal lm' hpos'⟩
  · -- the two variants compute the same pair
    have : lognormalMomentsRe m s = lognormalMomentsCl m s := by
      rw [(lognormal_moments_value hm hs).1, (lognormal_moments_value hm hs).2]
    intro x; simp only [lognormalPriorRe, this, he', Option.map_some]
  · intro x; simp only [lognormalTransformCl, he', Option.map_some]

/-- the standard-normal `p`-quantile is mapped to the log-normal `p`-quantile `exp(μ_ℓ + σ_ℓ·Φ⁻¹(p))` -/
theorem quantile_lognormal (lm ls p : ℝ) : lognormal lm ls (Φinv p) = exp (lm + ls * Φinv p) := rfl

/-- … i.e. the log-normal cdf `y ↦ Φ((log y − μ_ℓ)/σ_ℓ)` takes the value `p` there -/
theorem cdf_lognormal (h : StdNormal Φ Φinv) (lm : ℝ) {ls p : ℝ} (hls : ls ≠ 0) (h0 : 0 < p) (h1 : p < 1) :
    Φ ((log (lognormal lm ls (Φinv p)) - lm) / ls) = p := by
  have : (log (lognormal lm ls (Φinv p)) - lm) / ls = Φinv p := by
    simp only [lognormal, normal, TranscReal.exp_eq, log_exp]; rw [add_sub_cancel_left, mul_div_cancel_left₀ _ hls]
  rw [this, h.right_inv p h0 h1]

/-- `lognormal_invprior` undoes `lognormal_prior` (all `x`) and vice versa (all `y > 0`) -/
theorem inverse_roundtrip_lognormal (lm : ℝ) {ls : ℝ} (hls : ls ≠ 0) (x : ℝ) {y : ℝ} (hy : 0 < y) :
    lognormalInv lm ls (lognormal lm ls x) = x ∧ lognormal lm ls (lognormalInv lm ls y) = y := by
  simp only [lognormal, lognormalInv, normal, normalInv, TranscReal.exp_eq, TranscReal.log_eq, log_exp]
  constructor
  · field_simp; ring
  · have : lm + ls * ((log y - lm) / ls) = log y := by field_simp; ring
    rw [this, exp_log hy]

example : ∃ lm ls, lognormalMomentsRe (2 : ℝ) 3 = some (lm, ls) ∧ 0 < ls ∧ exp (lm + ls ^ 2 / 2) = 2 ∧
    (exp (ls ^ 2) - 1) * exp (2 * lm + ls ^ 2) = 3 ^ 2 := lognormal_moments_spec (by norm_num) (by norm_num)

/-! ## uniform (`uniform_prior`, `UniformOperator`) -/

/-- `a + (b−a)·Φ(x)` is strictly increasing for `a < b` -/
theorem strictMono_uniform (h : StdNormal Φ Φinv) {a b : ℝ} (hab : a < b) : StrictMono (uniformPriorRe Φ a b) := by
  intro x y hxy
  have := mul_lt_mul_of_pos_left (h.strictMono hxy) (sub_pos.mpr hab)
  simp only [uniformPriorRe, uniformRe]; linarith

/-- classic operator: `scale·Φ(x) + loc` is strictly increasing for `scale > 0` -/
theorem strictMono_uniform_cl (h : StdNormal Φ Φinv) (loc : ℝ) {scale : ℝ} (hs : 0 < scale) :
    StrictMono (uniformCl Φ loc scale) := by
  intro x y hxy
  have := mul_lt_mul_of_pos_left (h.strictMono hxy) hs
  simp only [uniformCl]; linarith

/-- the standard-normal `p`-quantile is mapped to the uniform `p`-quantile `a + (b−a)·p` on `[a,b]`
    (JAX general branch, JAX default branch `a=0, b=1`, classic operator with `b = loc + scale`) -/
theorem quantile_uniform (h : StdNormal Φ Φinv) (a b : ℝ) {p : ℝ} (h0 : 0 < p) (h1 : p < 1) :
    uniformPriorRe Φ a b (Φinv p) = a + (b - a) * p ∧ uniformPriorDefault Φ (Φinv p) = 0 + (1 - 0) * p ∧
      uniformCl Φ a (b - a) (Φinv p) = a + (b - a) * p := by
  refine ⟨?_, ?_, ?_⟩ <;>
    simp only [uniformPriorRe, uniformRe, uniformPriorDefault, uniformCl, h.right_inv p h0 h1] <;> ring

/-- the values lie strictly inside the support -/
theorem range_uniform (h : StdNormal Φ Φinv) {a b : ℝ} (hab : a < b) (x : ℝ) :
    a < uniformPriorRe Φ a b x ∧ uniformPriorRe Φ a b x < b := by
  have hd := sub_pos.mpr hab
  have hp := mul_pos hd (h.pos x)
  have hl := mul_lt_mul_of_pos_left (h.lt_one x) hd
  simp only [uniformPriorRe, uniformRe]; constructor <;> linarith

/-- `UniformOperator.inverse` undoes `UniformOperator.apply` (all `x`) and vice versa (all `y` inside the support) -/
theorem inverse_roundtrip_uniform (h : StdNormal Φ Φinv) (loc : ℝ) {scale : ℝ} (hs : 0 < scale) (x : ℝ) {y : ℝ}
    (hy0 : loc < y) (hy1 : y < loc + scale) :
    uniformClInv Φinv loc scale (uniformCl Φ loc scale x) = x ∧
      uniformCl Φ loc scale (uniformClInv Φinv loc scale y) = y := by
  simp only [uniformClInv, uniformClInvArg, uniformCl]
  constructor
  · have : (scale * Φ x + loc - loc) / scale = Φ x := by
      rw [add_sub_cancel_right, mul_div_cancel_left₀ _ hs.ne']
    rw [this, h.left_inv]
  · have ha : 0 < (y - loc) / scale := div_pos (by linarith) hs
    have hb : (y - loc) / scale < 1 := by rw [div_lt_one hs]; linarith
    rw [h.right_inv _ ha hb]; field_simp; ring

/-- the Jacobian branch of `UniformOperator.apply` is the derivative of its value -/
theorem uniform_jacobian {φ : ℝ → ℝ} (loc scale x : ℝ) (hd : HasDerivAt Φ (φ x) x) :
    HasDerivAt (uniformCl Φ loc scale) (uniformClJac φ scale x) x := by
  have := (hd.const_mul scale).add_const loc
  simp only [uniformClJac]; rw [mul_comm]; exact this

/-! ## Laplace (`laplace_prior`, `LaplaceOperator`) -/

/-- the two-branch `log Φ` code equals `α` times the textbook Laplace quantile of `Φ(x)`; uses `Φ(−x) = 1 − Φ(x)` -/
theorem laplaceRe_eq (h : StdNormal Φ Φinv) {logΦ : ℝ → ℝ} (hlog : ∀ x, logΦ x = log (Φ x)) (α x : ℝ) :
    laplaceRe logΦ α x = α * laplaceQuantile (Φ x) := by
  simp only [laplaceRe, ind, TranscReal.log_eq, hlog, h.symm, laplaceQuantile]
  have hp := h.pos x
  have hq : 0 < 1 - Φ x := by linarith [h.lt_one x]
  rcases lt_trichotomy x 0 with hx | hx | hx
  · have h1 : Φ x < 1 / 2 := (h.lt_half_iff x).mpr hx
    have h2 : ¬ 0 < x := not_lt.mpr hx.le
    simp only [hx, h2, h1, if_true, if_false]
    rw [log_mul (by norm_num) hp.ne']; ring
  · subst hx
    have h1 : ¬ Φ 0 < 1 / 2 := by rw [h.at_zero]; exact lt_irrefl _
    simp only [lt_irrefl, if_false, h.at_zero]
    norm_num
  · have h1 : ¬ Φ x < 1 / 2 := not_lt.mpr ((h.half_lt_iff x).mpr hx).le
    have h2 : ¬ x < 0 := not_lt.mpr hx.le
    simp only [hx, h2, h1, if_true, if_false]
    rw [log_mul (by norm_num) hq.ne']; ring

/-- JAX: the standard-normal `p`-quantile is mapped to the Laplace(0, α) `p`-quantile:
    `α·log(2p)` for `p < ½`, `−α·log(2(1−p))` for `p ≥ ½` -/
theorem quantile_laplace (h : StdNormal Φ Φinv) {logΦ : ℝ → ℝ} (hlog : ∀ x, logΦ x = log (Φ x)) (α : ℝ) {p : ℝ}
    (h0 : 0 < p) (h1 : p < 1) :
    laplaceRe logΦ α (Φinv p) = if p < 1 / 2 then α * log (2 * p) else -(α * log (2 * (1 - p))) := by
  rw [laplaceRe_eq h hlog, h.right_inv p h0 h1, laplaceQuantile]
  split <;> ring

/-- classic: `LaplaceOperator` maps it to the Laplace(loc, scale) `p`-quantile -/
theorem quantile_laplace_cl (h : StdNormal Φ Φinv) (loc scale : ℝ) {p : ℝ} (h0 : 0 < p) (h1 : p < 1) :
    laplaceCl Φ loc scale (Φinv p) = loc + scale * laplaceQuantile p := by
  simp only [laplaceCl, scipyLaplacePpf, TranscReal.log_eq, h.right_inv p h0 h1, laplaceQuantile]
  have e : (0.5 : ℝ) = 1 / 2 := by norm_num
  rw [e]
  rcases lt_trichotomy p (1 / 2) with hp | hp | hp
  · simp only [hp, not_lt.mpr hp.le, if_true, if_false]
  · subst hp; norm_num
  · simp only [hp, not_lt.mpr hp.le, if_true, if_false]

/-- … i.e. the textbook Laplace cdf `y ↦ F((y − loc)/scale)` takes the value `p` at the transformed quantile
    (JAX with `loc = 0, scale = α`; classic) -/
theorem cdf_laplace (h : StdNormal Φ Φinv) {logΦ : ℝ → ℝ} (hlog : ∀ x, logΦ x = log (Φ x)) (loc : ℝ) {scale p : ℝ}
    (hs : scale ≠ 0) (h0 : 0 < p) (h1 : p < 1) :
    laplaceCdf (laplaceRe logΦ scale (Φinv p) / scale) = p ∧
      laplaceCdf ((laplaceCl Φ loc scale (Φinv p) - loc) / scale) = p := by
  rw [laplaceRe_eq h hlog, quantile_laplace_cl h loc scale h0 h1, h.right_inv p h0 h1]
  have e1 : scale * laplaceQuantile p / scale = laplaceQuantile p := by field_simp
  have e2 : (loc + scale * laplaceQuantile p - loc) / scale = laplaceQuantile p := by
    rw [add_sub_cancel_left, mul_div_cancel_left₀ _ hs]
  rw [e1, e2]; exact ⟨laplaceCdf_quantile h0 h1, laplaceCdf_quantile h0 h1⟩

/-- both Laplace transforms are strictly increasing for a positive scale -/
theorem strictMono_laplace (h : StdNormal Φ Φinv) {logΦ : ℝ → ℝ} (hlog : ∀ x, logΦ x = log (Φ x)) (loc : ℝ)
    {scale : ℝ} (hs : 0 < scale) :
    StrictMono (laplaceRe logΦ scale) ∧ StrictMono (laplaceCl Φ loc scale) := by
  have key : ∀ x y, x < y → laplaceQuantile (Φ x) < laplaceQuantile (Φ y) := fun x y hxy =>
    laplaceQuantile_strictMonoOn ⟨h.pos x, h.lt_one x⟩ ⟨h.pos y, h.lt_one y⟩ (h.strictMono hxy)
  constructor
  · intro x y hxy
    rw [laplaceRe_eq h hlog, laplaceRe_eq h hlog]
    exact mul_lt_mul_of_pos_left (key x y hxy) hs
  · intro x y hxy
    have hx := quantile_laplace_cl h loc scale (h.pos x) (h.lt_one x)
    have hy := quantile_laplace_cl h loc scale (h.pos y) (h.lt_one y)
    rw [h.left_inv] at hx hy
    rw [hx, hy]
    have := mul_lt_mul_of_pos_left (key x y hxy) hs
    linarith

/-- `LaplaceOperator.inverse` undoes `LaplaceOperator.apply` (all `x`) and vice versa (all `y`) -/
theorem inverse_roundtrip_laplace (h : StdNormal Φ Φinv) (loc : ℝ) {scale : ℝ} (hs : 0 < scale) (x y : ℝ) :
    laplaceClInv Φinv loc scale (laplaceCl Φ loc scale x) = x ∧
      laplaceCl Φ loc scale (laplaceClInv Φinv loc scale y) = y := by
  have hcdf : ∀ z : ℝ, scipyLaplaceCdf z = laplaceCdf z := by
    intro z
    have e : (0.5 : ℝ) = 1 / 2 := by norm_num
    simp only [scipyLaplaceCdf, laplaceCdf, TranscReal.exp_eq, e]
    split <;> ring
  have hx := quantile_laplace_cl h loc scale (h.pos x) (h.lt_one x)
  rw [h.left_inv] at hx
  constructor
  · simp only [laplaceClInv, laplaceClInvArg, hcdf, hx]
    have : (loc + scale * laplaceQuantile (Φ x) - loc) / scale = laplaceQuantile (Φ x) := by
      rw [add_sub_cancel_left, mul_div_cancel_left₀ _ hs.ne']
    rw [this, laplaceCdf_quantile (h.pos x) (h.lt_one x), h.left_inv]
  · simp only [laplaceClInv, laplaceClInvArg, hcdf]
    set z := (y - loc) / scale with hz
    have hF0 : 0 < laplaceCdf z := by
      unfold laplaceCdf; split
      · rename_i hpos
        have : exp (-z) < 1 := by rw [exp_lt_one_iff]; linarith
        linarith
      · positivity
    have hF1 : laplaceCdf z < 1 := by
      unfold laplaceCdf; split
      · linarith [exp_pos (-z)]
      · rename_i hneg
        have : exp z ≤ 1 := by rw [exp_le_one_iff]; exact not_lt.mp hneg
        linarith
    rw [quantile_laplace_cl h loc scale hF0 hF1, laplaceQuantile_cdf, hz]; field_simp; ring

/-- the Jacobian branch of `LaplaceOperator.apply` (`scale·where(y > ½, 1/(1−y), 1/y)·φ(x)` with `y = Φ(x)`) is the
    derivative of its value — also at `Φ(x) = ½`, where the two branches of the quantile function meet with equal slope -/
theorem laplace_jacobian (h : StdNormal Φ Φinv) {φ : ℝ → ℝ} (loc scale x : ℝ) (hd : HasDerivAt Φ (φ x) x) :
    HasDerivAt (laplaceCl Φ loc scale) (laplaceClJac Φ φ scale x) x := by
  have e : (0.5 : ℝ) = 1 / 2 := by norm_num
  -- derivative of SciPy's Laplace quantile at `q ∈ (0,1)`
  have hq : ∀ q : ℝ, 0 < q → q < 1 →
      HasDerivAt scipyLaplacePpf (if (1 / 2 : ℝ) < q then 1 / (1 - q) else 1 / q) q := by
    intro q q0 q1
    have hL : HasDerivAt (fun t : ℝ => log (2 * t)) (1 / q) q := by
      have h2 := ((hasDerivAt_id' q).const_mul 2).log (mul_pos two_pos q0).ne'
      have e3 : 2 * 1 / (2 * q) = 1 / q := by
        rw [mul_one, ← mul_one (2 : ℝ), mul_assoc, one_mul, mul_div_mul_left _ _ (two_ne_zero)]
      rw [e3] at h2; exact h2
    have hR : HasDerivAt (fun t : ℝ => -log (2 * (1 - t))) (1 / (1 - q)) q := by
      have h1 : HasDerivAt (fun t : ℝ => 2 * (1 - t)) (2 * (0 - 1)) q :=
        ((hasDerivAt_const q (1 : ℝ)).sub (hasDerivAt_id' q)).const_mul 2
      have h2 := (h1.log (mul_pos two_pos (sub_pos.mpr q1)).ne').neg
      have e3 : -(2 * (0 - 1) / (2 * (1 - q))) = 1 / (1 - q) := by
        rw [zero_sub, mul_neg, mul_one, neg_div, neg_neg, ← mul_one (2 : ℝ), mul_assoc, one_mul,
          mul_div_mul_left _ _ (two_ne_zero)]
      rw [e3] at h2; exact h2
    rcases lt_trichotomy q (1 / 2) with hlt | heq | hgt
    · simp only [not_lt.mpr hlt.le, if_false]
      refine hL.congr_of_eventuallyEq ?_
      filter_upwards [Iio_mem_nhds hlt] with t ht
      simp only [scipyLaplacePpf, e, TranscReal.log_eq, not_lt.mpr (le_of_lt (Set.mem_Iio.mp ht)), if_false]
    · subst heq
      simp only [lt_irrefl, if_false]
      -- glue the two one-sided derivatives (both equal `2`)
      have hR' : HasDerivAt (fun t : ℝ => -log (2 * (1 - t))) (1 / (1 / 2 : ℝ)) (1 / 2) := by
        convert hR using 1; norm_num
      have hl : HasDerivWithinAt scipyLaplacePpf (1 / (1 / 2 : ℝ)) (Set.Iic (1 / 2)) (1 / 2) := by
        refine hL.hasDerivWithinAt.congr ?_ ?_
        · intro t ht
          simp only [scipyLaplacePpf, e, TranscReal.log_eq, not_lt.mpr (Set.mem_Iic.mp ht), if_false]
        · simp only [scipyLaplacePpf, e, TranscReal.log_eq, lt_irrefl, if_false]
      have hr : HasDerivWithinAt scipyLaplacePpf (1 / (1 / 2 : ℝ)) (Set.Ici (1 / 2)) (1 / 2) := by
        refine hR'.hasDerivWithinAt.congr ?_ ?_
        · intro t ht
          rcases eq_or_lt_of_le (Set.mem_Ici.mp ht) with heq | hlt
          · subst heq; simp only [scipyLaplacePpf, e, TranscReal.log_eq, lt_irrefl, if_false]; norm_num
          · simp only [scipyLaplacePpf, e, TranscReal.log_eq, hlt, if_true]
        · simp only [scipyLaplacePpf, e, TranscReal.log_eq, lt_irrefl, if_false]; norm_num
      have := hl.union hr
      rwa [Set.Iic_union_Ici, hasDerivWithinAt_univ] at this
    · simp only [hgt, if_true]
      refine hR.congr_of_eventuallyEq ?_
      filter_upwards [Ioi_mem_nhds hgt] with t ht
      simp only [scipyLaplacePpf, e, TranscReal.log_eq, Set.mem_Ioi.mp ht, if_true]
  have hcomp := (hq (Φ x) (h.pos x) (h.lt_one x)).comp x hd
  have := (hcomp.const_mul scale).const_add loc
  have hfun : laplaceCl Φ loc scale = fun x => loc + scale * (scipyLaplacePpf ∘ Φ) x := rfl
  have hval : laplaceClJac Φ φ scale x
      = scale * ((if (1 / 2 : ℝ) < Φ x then 1 / (1 - Φ x) else 1 / Φ x) * φ x) := by
    simp only [laplaceClJac, e]; ring
  rw [hfun, hval]; exact this

/-! ## classic parameter conversions (`InverseGammaOperator(mode, mean)`, `GammaOperator(mean, var)`) -/

/-- for `0 < mode < mean` the computed `(α, q)` have `α > 1` and reproduce the documented mode `q/(α+1)` and mean `q/(α−1)`
    of the inverse-gamma distribution -/
theorem invgamma_mode_mean_spec {mode mean : ℝ} (h0 : 0 < mode) (h1 : mode < mean) :
    ∃ α q, invGammaFromModeMean mode mean = some (α, q) ∧ 1 < α ∧ q / (α + 1) = mode ∧ q / (α - 1) = mean := by
  have hr : 0 < mean / mode - 1 := by rw [sub_pos, one_lt_div h0]; exact h1
  refine ⟨2 / (mean / mode - 1) + 1, mode * (2 / (mean / mode - 1) + 1 + 1), ?_, ?_, ?_, ?_⟩
  · simp only [invGammaFromModeMean, not_lt.mpr h1.le, if_false]
  · have : 0 < 2 / (mean / mode - 1) := by positivity
    linarith
  · have : 0 < 2 / (mean / mode - 1) := by positivity
    have hpos : 0 < 2 / (mean / mode - 1) + 1 + 1 := by linarith
    rw [mul_div_assoc, div_self hpos.ne', mul_one]
  · have hm : mean - mode ≠ 0 := by linarith
    have hmo : mode ≠ 0 := h0.ne'
    have : mean / mode - 1 = (mean - mode) / mode := by field_simp
    rw [this]; field_simp; ring

/-- the documented `ValueError` for `mean < mode` -/
theorem invgamma_mode_mean_rejects {mode mean : ℝ} (h : mean < mode) : invGammaFromModeMean mode mean = none := by
  simp only [invGammaFromModeMean, h, if_true]

/-- for `mean, var > 0` the computed `(α, θ)` reproduce the gamma distribution's mean `αθ` and variance `αθ²` -/
theorem gamma_mean_var_spec {mean var : ℝ} (hm : 0 < mean) (hv : 0 < var) :
    let p := gammaFromMeanVar mean var
    0 < p.1 ∧ 0 < p.2 ∧ p.1 * p.2 = mean ∧ p.1 * p.2 ^ 2 = var := by
  simp only [gammaFromMeanVar]
  refine ⟨by positivity, by positivity, ?_, ?_⟩ <;> field_simp

/-! ## interpolation (`jnp.interp` inside `interpolator`, `invgamma_prior`, `invgamma_invprior`) -/

section Interp
variable {K : Type} [Field K] [LinearOrder K] [IsStrictOrderedRing K]

/-- piecewise-linear interpolation of an increasing table over a strictly increasing grid is monotone on the whole line
    (all table lengths) -/
theorem interp_monotone (n0 : K × K) (rest : List (K × K)) (hinc : Inc n0 rest) :
    Monotone fun x => interp x n0 rest := by
  intro x x' hxx
  simp only [interp]
  by_cases ha : x < n0.1
  · by_cases hb : x' < n0.1
    · simp only [ha, hb, if_true]; exact le_refl _
    · simp only [ha, hb, if_true, if_false]
      exact interpFrom_ge x' n0.1 n0.2 rest hinc (not_lt.mp hb)
  · have hb : ¬ x' < n0.1 := fun hlt => ha (lt_of_le_of_lt hxx hlt)
    simp only [ha, hb, if_false]
    exact interpFrom_mono hxx n0.1 n0.2 rest hinc (not_lt.mp ha)

/-- … and strictly increasing between the first and the last grid point when the table is strictly increasing -/
theorem interp_strictMono (n0 : K × K) (rest : List (K × K)) (hinc : StrictInc n0 rest) {x x' : K}
    (h0 : n0.1 ≤ x) (hxx : x < x') (h1 : x' ≤ (lastNode n0 rest).1) : interp x n0 rest < interp x' n0 rest := by
  have ha : ¬ x < n0.1 := not_lt.mpr h0
  have hb : ¬ x' < n0.1 := not_lt.mpr (le_trans h0 hxx.le)
  simp only [interp, ha, hb, if_false]
  exact interpFrom_strictMono hxx n0.1 n0.2 rest hinc h0 h1

/-- exact at the nodes: at the first grid point, and at the right one of any two neighbouring nodes (hence at every node) -/
theorem interp_nodes (n0 : K × K) (rest : List (K × K)) (hinc : Inc n0 rest) :
    interp n0.1 n0 rest = n0.2 ∧ ∀ a b, Neighbours a b n0 rest → interp b.1 n0 rest = b.2 := by
  constructor
  · simp only [interp, lt_irrefl, if_false]; exact interpFrom_left _ _ rest hinc
  · intro a b hn
    have hge : n0.1 ≤ a.1 := neighbours_left_ge n0 rest hinc hn
    have hlt := (neighbours_inc n0 rest hinc hn).1
    have : ¬ b.1 < n0.1 := not_lt.mpr (le_trans hge hlt.le)
    simp only [interp, this, if_false]
    exact interpFrom_right_node n0.1 n0.2 rest hinc hn

/-- between neighbouring nodes `a, b` the interpolant is the chord, and lies between the two node values -/
theorem interp_between (n0 : K × K) (rest : List (K × K)) (hinc : Inc n0 rest) {a b : K × K}
    (hn : Neighbours a b n0 rest) {x : K} (hax : a.1 ≤ x) (hxb : x ≤ b.1) :
    a.2 ≤ interp x n0 rest ∧ interp x n0 rest ≤ b.2 := by
  obtain ⟨hlt, hle⟩ := neighbours_inc n0 rest hinc hn
  have hge : n0.1 ≤ a.1 := neighbours_left_ge n0 rest hinc hn
  rcases eq_or_lt_of_le hxb with heq | hxb'
  · subst heq; rw [(interp_nodes n0 rest hinc).2 a b hn]; exact ⟨hle, le_refl _⟩
  · have : ¬ x < n0.1 := not_lt.mpr (le_trans hge hax)
    simp only [interp, this, if_false]
    rw [interpFrom_neighbours n0.1 n0.2 rest hinc hn hax hxb']
    exact piece_bounds hlt hle hax hxb'.le

/-- outside the grid the value is clamped: first table entry on the left, never above the last entry on the right -/
theorem interp_range (n0 : K × K) (rest : List (K × K)) (hinc : Inc n0 rest) (x : K) :
    n0.2 ≤ interp x n0 rest ∧ interp x n0 rest ≤ (lastNode n0 rest).2 := by
  simp only [interp]
  by_cases ha : x < n0.1
  · simp only [ha, if_true]
    have h1 := interpFrom_ge n0.1 n0.1 n0.2 rest hinc (le_refl _)
    have h2 := interpFrom_le_last n0.1 n0.1 n0.2 rest hinc (le_refl _)
    exact ⟨le_refl _, le_trans h1 h2⟩
  · simp only [ha, if_false]
    exact ⟨interpFrom_ge x n0.1 n0.2 rest hinc (not_lt.mp ha), interpFrom_le_last x n0.1 n0.2 rest hinc (not_lt.mp ha)⟩

example : interp (3 / 2 : ℚ) (0, 0) [(1, 10), (2, 30)] = 20 := by norm_num [interp, interpFrom]
example : Inc ((0 : ℚ), (0 : ℚ)) [(1, 10), (2, 30)] := by norm_num [Inc]

end Interp

/-- `invgamma_prior` (JAX; table of `log(g(xs))`, `g = Q_invgamma ∘ Φ > 0` increasing on the grid, `scale > 0`):
    the transform is monotone, between neighbouring grid points `a.1 ≤ x ≤ b.1` it lies between `scale·g(a.1)` and
    `scale·g(b.1)` — so it differs from the exact `scale·g(x)` by at most one table step `scale·(g(b.1) − g(a.1))` -/
theorem invgamma_monotone_and_step_error {g : ℝ → ℝ} (hgpos : ∀ x, 0 < g x) (hgmono : Monotone g) {scale : ℝ}
    (hs : 0 < scale) (x0 : ℝ) (xs : List ℝ)
    (hinc : Inc (x0, log (g x0)) (mkTable (fun t => log (g t)) xs)) :
    Monotone (fun x => invgammaRe true scale x (x0, log (g x0)) (mkTable (fun t => log (g t)) xs)) ∧
    ∀ a b : ℝ × ℝ, Neighbours a b (x0, log (g x0)) (mkTable (fun t => log (g t)) xs) →
      a.2 = log (g a.1) → b.2 = log (g b.1) → ∀ x, a.1 ≤ x → x ≤ b.1 →
      |invgammaRe true scale x (x0, log (g x0)) (mkTable (fun t => log (g t)) xs) - g x * scale|
        ≤ (g b.1 - g a.1) * scale := by
  constructor
  · intro x x' hxx
    simp only [invgammaRe, interpolatorApply, if_true, TranscReal.exp_eq]
    exact mul_le_mul_of_nonneg_right (exp_le_exp.mpr (interp_monotone _ _ hinc hxx)) hs.le
  · intro a b hn ha hb x hax hxb
    obtain ⟨h1, h2⟩ := interp_between _ _ hinc hn hax hxb
    rw [ha] at h1; rw [hb] at h2
    have e1 := exp_le_exp.mpr h1
    have e2 := exp_le_exp.mpr h2
    rw [exp_log (hgpos _)] at e1 e2
    have g1 := hgmono hax
    have g2 := hgmono hxb
    simp only [invgammaRe, interpolatorApply, if_true, TranscReal.exp_eq]
    rw [abs_le]; constructor <;> nlinarith

/-- `interpolator(..., return_inverse=True)`: `inverse_interp` undoes `interp` between the first and the last grid point of a
    strictly increasing table (all table lengths) -/
theorem inverse_roundtrip_interp {K : Type} [Field K] [LinearOrder K] [IsStrictOrderedRing K] (n0 : K × K)
    (rest : List (K × K)) (hinc : StrictInc n0 rest) {x : K} (h0 : n0.1 ≤ x) (h1 : x ≤ (lastNode n0 rest).1) :
    interpolatorInverse (fun t => t) (interpolatorApply (fun t => t) x n0 rest) n0 rest = x := by
  have ha : ¬ x < n0.1 := not_lt.mpr h0
  have hv : ¬ interpFrom x n0.1 n0.2 rest < n0.2 := not_lt.mpr (interpFrom_ge x n0.1 n0.2 rest hinc.inc h0)
  simp only [interpolatorInverse, interpolatorApply, interp, ha, hv, if_false]
  exact interpFrom_inverse x n0.1 n0.2 rest hinc h0 h1

/-- `invgamma_invprior` undoes `invgamma_prior` inside the table range: with a location (`loc ≠ 0`, both use the same
    log-table) and without (`loc = 0`: the prior multiplies the unit-scale table by `scale`, the inverse prior's table has
    `scale` inside, i.e. every ordinate shifted by `log scale`) -/
theorem inverse_roundtrip_invgamma (n0 : ℝ × ℝ) (rest : List (ℝ × ℝ)) (hinc : StrictInc n0 rest) {scale : ℝ}
    (hs : 0 < scale) {x : ℝ} (h0 : n0.1 ≤ x) (h1 : x ≤ (lastNode n0 rest).1) :
    invgammaInvRe (invgammaRe false scale x n0 rest) n0 rest = x ∧
      invgammaInvRe (invgammaRe true scale x n0 rest) (n0.1, n0.2 + log scale)
        (rest.map fun p => (p.1, p.2 + log scale)) = x := by
  have ha : ¬ x < n0.1 := not_lt.mpr h0
  constructor
  · have hv : ¬ interpFrom x n0.1 n0.2 rest < n0.2 := not_lt.mpr (interpFrom_ge x n0.1 n0.2 rest hinc.inc h0)
    simp only [invgammaInvRe, invgammaRe, interpolatorInverse, interpolatorApply, interp, ha, if_false,
      TranscReal.exp_eq, TranscReal.log_eq, log_exp, hv, Bool.false_eq_true]
    exact interpFrom_inverse x n0.1 n0.2 rest hinc h0 h1
  · have hsh := hinc.shift (log scale)
    have hl : x ≤ (lastNode (n0.1, n0.2 + log scale) (rest.map fun p => (p.1, p.2 + log scale))).1 := by
      rw [lastNode_shift]; exact h1
    have key := interpFrom_inverse x n0.1 (n0.2 + log scale) _ hsh h0 hl
    rw [interpFrom_shift] at key
    have hv : ¬ interpFrom x n0.1 n0.2 rest + log scale < n0.2 + log scale := by
      have := interpFrom_ge x n0.1 n0.2 rest hinc.inc h0
      exact not_lt.mpr (by linarith)
    simp only [invgammaInvRe, invgammaRe, interpolatorInverse, interpolatorApply, interp, ha, if_false, if_true,
      TranscReal.exp_eq, TranscReal.log_eq, log_mul (exp_pos _).ne' hs.ne', log_exp, hv]
    exact key

/-- the table grid of `interpolator(step=)` (`np.arange(xmin, xmax + step, step)`, exact arithmetic): non-empty, equally
    spaced from `xmin`, and it covers the documented range — the last abscissa lies in `[xmax, xmax + step)` -/
theorem interpolator_grid_covers {xmin xmax step : Rat} (hs : 0 < step) (hx : xmin ≤ xmax) :
    let xs := interpolatorXsStep xmin xmax step
    0 < xs.length ∧ (∀ i (h : i < xs.length), xs[i] = xmin + (i : Rat) * step) ∧
      xmax ≤ xmin + ((xs.length - 1 : Nat) : Rat) * step ∧
      xmin + ((xs.length - 1 : Nat) : Rat) * step < xmax + step := by
  obtain ⟨h1, h2, h3⟩ := arangeLen_bounds hs hx
  simp only [interpolatorXsStep, arange_length]
  set n := arangeLen xmin (xmax + step) step with hn
  have hcast : ((n - 1 : Nat) : Rat) = (n : Rat) - 1 := by
    rw [Nat.cast_sub h1]; simp
  refine ⟨h1, fun i h => arange_get xmin (xmax + step) step i (by rw [arange_length]; exact h), ?_, ?_⟩
  · rw [hcast]
    have := (div_le_iff₀ hs).mp h2
    nlinarith
  · rw [hcast]
    have : (n : Rat) - 1 < (xmax + step - xmin) / step := by linarith
    have := (lt_div_iff₀ hs).mp this
    nlinarith

example : interpolatorXsStep (-1) 1 (1 / 2) = [-1, -1 / 2, 0, 1 / 2, 1] := by decide +kernel

/-- `invgamma_prior` is exact at the grid points: at the first node and at the right one of any two neighbouring nodes the
    value is `g(x_i)·scale` with `g = Q_invgamma ∘ Φ` the tabulated quantile function -/
theorem invgamma_exact_at_nodes {g : ℝ → ℝ} (hgpos : ∀ x, 0 < g x) (scale x0 : ℝ) (xs : List ℝ)
    (hinc : Inc (x0, log (g x0)) (mkTable (fun t => log (g t)) xs)) :
    invgammaRe true scale x0 (x0, log (g x0)) (mkTable (fun t => log (g t)) xs) = g x0 * scale ∧
    ∀ a b : ℝ × ℝ, Neighbours a b (x0, log (g x0)) (mkTable (fun t => log (g t)) xs) → b.2 = log (g b.1) →
      invgammaRe true scale b.1 (x0, log (g x0)) (mkTable (fun t => log (g t)) xs) = g b.1 * scale := by
  obtain ⟨h1, h2⟩ := interp_nodes _ _ hinc
  constructor
  · simp only [invgammaRe, interpolatorApply, if_true, TranscReal.exp_eq]
    have : interp x0 (x0, log (g x0)) (mkTable (fun t => log (g t)) xs) = log (g x0) := h1
    rw [this, exp_log (hgpos _)]
  · intro a b hn hb
    simp only [invgammaRe, interpolatorApply, if_true, TranscReal.exp_eq]
    rw [h2 a b hn, hb, exp_log (hgpos _)]

/-! ## classic tabulated operators: the compositions around the spline (`spline`, `dspline` are SciPy's, parameters here) -/

/-- `InverseGammaOperator`, `GammaOperator`, `LogInverseGammaOperator` are strictly increasing whenever the interpolant of
    their table is, for positive `q`, `θ`.

    PARTIAL (known finding C30-classic_spline_small_shape). Full statement the property asks for — no hypothesis on the
    interpolant, `spline` := SciPy's `CubicSpline` through the documented table on `arange(-8.2, 8.2, delta)`:
      `∀ α θ delta > 0, StrictMono (GammaOperator α θ delta)`, values in the support `(0, ∞)` (same for `BetaOperator`).
    It is FALSE for the real code in the region  shape ≤ 0.2 ∧ delta ≥ 0.02  (linear-space table spanning > 100 orders of
    magnitude: the cubic spline rings): `GammaOperator(alpha=0.1, theta=1, delta=0.05)` has `spline(-6.99) = -1.897e-89`,
    `spline(-5.08) = -1.7485e-67` (replayed on the real code every run: corpus/C30/classic_spline_small_shape.json).
    What is proved is the implication from the monotonicity of the interpolant; the witness below shows that the
    hypothesis cannot be dropped. The JAX transform (piecewise linear, `interp_monotone`) is not affected. -/
theorem strictMono_tabulated_cl_partial {spline : ℝ → ℝ} (hsp : StrictMono spline) {q : ℝ} (hq : 0 < q) :
    StrictMono (invGammaCl spline q) ∧ StrictMono (gammaCl spline q) ∧ StrictMono (logInvGammaCl spline q) := by
  refine ⟨fun a b hab => ?_, fun a b hab => ?_, fun a b hab => ?_⟩
  · simp only [invGammaCl, TranscReal.exp_eq]
    exact mul_lt_mul_of_pos_left (exp_strictMono (hsp hab)) hq
  · simp only [gammaCl]
    exact mul_lt_mul_of_pos_right (hsp hab) hq
  · simp only [logInvGammaCl]
    have := hsp hab
    linarith

/-- witness at the excluded point: an interpolant with `spline(-5.08) < spline(-6.99)` and `spline(-5.08) < 0` (the values the
    real `GammaOperator(alpha=0.1, theta=1, delta=0.05)` produces) makes the operator non-monotone and negative -/
theorem tabulated_cl_witness {spline : ℝ → ℝ} (h : spline (-5.08) < spline (-6.99)) (hneg : spline (-5.08) < 0)
    {θ : ℝ} (hθ : 0 < θ) :
    ¬ StrictMono (gammaCl spline θ) ∧ gammaCl spline θ (-5.08) < 0 := by
  refine ⟨fun hm => ?_, ?_⟩
  · have hlt : gammaCl spline θ (-6.99) < gammaCl spline θ (-5.08) := hm (by norm_num)
    simp only [gammaCl] at hlt
    have := mul_lt_mul_of_pos_right h hθ
    linarith
  · simp only [gammaCl]
    exact mul_neg_of_neg_of_pos hneg hθ

example : ¬ StrictMono (gammaCl (fun x : ℝ => if x = -6.99 then (-1.897e-89 : ℝ) else -1.7485e-67) 1) :=
  (tabulated_cl_witness (spline := fun x : ℝ => if x = -6.99 then (-1.897e-89 : ℝ) else -1.7485e-67)
    (by norm_num) (by norm_num) one_pos).1

/-- where the interpolant reproduces the table (`spline x = log Q(Φ x)`, resp. `Q(Φ x)`), the operators return the target
    quantile: `q·Q_α(p)` is the inverse-gamma(α, q) quantile, `Q_α(p)·θ` the gamma(α, θ) quantile (scale families) -/
theorem quantile_tabulated_cl {spline Q : ℝ → ℝ} (q x : ℝ) (hQ : 0 < Q (Φ x)) :
    (spline x = log (Q (Φ x)) → invGammaCl spline q x = q * Q (Φ x)) ∧
    (spline x = Q (Φ x) → gammaCl spline q x = Q (Φ x) * q) ∧
    (0 < q → spline x = log (Q (Φ x)) → logInvGammaCl spline q x = log (q * Q (Φ x))) := by
  refine ⟨fun h => ?_, fun h => ?_, fun hq h => ?_⟩
  · simp only [invGammaCl, TranscReal.exp_eq, h, exp_log hQ]
  · simp only [gammaCl, h]
  · simp only [logInvGammaCl, TranscReal.log_eq, h, log_mul hq.ne' hQ.ne']

/-- the Jacobian the `Linearization` of `InverseGammaOperator` carries (`q·exp(s)·s'`) is the derivative of its value -/
theorem invgamma_cl_jacobian {spline dspline : ℝ → ℝ} (q x : ℝ) (hd : HasDerivAt spline (dspline x) x) :
    HasDerivAt (invGammaCl spline q) (invGammaClJac spline dspline q x) x := by
  have h2 := (hd.exp).const_mul q
  have hfun : invGammaCl spline q = fun y => q * exp (spline y) := rfl
  have hval : invGammaClJac spline dspline q x = q * (exp (spline x) * dspline x) := rfl
  rw [hfun, hval]; exact h2

/-! ## distribution-level statement: the push-forward of the standard normal has the target cdf -/

/-- For a strictly increasing `T` the events `{X ≤ x}` and `{T(X) ≤ T(x)}` coincide, so `T(X)` with `X ~ N(0,1)` has cdf value
    `Φ(x)` at `t = T(x)`.  This theorem shows that this value is the *documented target cdf* at `t`, for every `x`:
    normal `Φ((t−μ)/σ)`, log-normal `Φ((log t−μ_ℓ)/σ_ℓ)`, uniform `(t−a)/(b−a)`, Laplace `F_Laplace((t−loc)/scale)`
    (JAX two-branch code with `loc = 0`, classic operator). -/
theorem pushforward_cdf (h : StdNormal Φ Φinv) {logΦ : ℝ → ℝ} (hlog : ∀ x, logΦ x = log (Φ x)) (x μ a b loc : ℝ) {σ scale : ℝ}
    (hσ : σ ≠ 0) (hab : a ≠ b) (hs : scale ≠ 0) :
    Φ ((normal μ σ x - μ) / σ) = Φ x ∧
    Φ ((log (lognormal μ σ x) - μ) / σ) = Φ x ∧
    (uniformPriorRe Φ a b x - a) / (b - a) = Φ x ∧ (uniformCl Φ a (b - a) x - a) / (b - a) = Φ x ∧
    laplaceCdf (laplaceRe logΦ scale x / scale) = Φ x ∧
    laplaceCdf ((laplaceCl Φ loc scale x - loc) / scale) = Φ x := by
  have h0 := h.pos x
  have h1 := h.lt_one x
  have e := h.left_inv x
  have hba : b - a ≠ 0 := sub_ne_zero.mpr (Ne.symm hab)
  refine ⟨?_, ?_, ?_, ?_, ?_, ?_⟩
  · have := cdf_normal h μ hσ h0 h1; rwa [e] at this
  · have := cdf_lognormal h μ hσ h0 h1; rwa [e] at this
  · simp only [uniformPriorRe, uniformRe]; field_simp; ring
  · simp only [uniformCl]; field_simp; ring
  · have := (cdf_laplace h hlog loc hs h0 h1).1; rwa [e] at this
  · have := (cdf_laplace h hlog loc hs h0 h1).2; rwa [e] at this

/-- headline for `invgamma_prior` / `invgamma_invprior` with the natural hypotheses: for *any* strictly increasing grid
    `x0 :: xs`, any positive strictly increasing tabulated quantile function `g = Q ∘ Φ` and `scale > 0` the transform is
    monotone on the whole line, strictly increasing inside the grid, and undone there by the inverse prior -/
theorem invgamma_prior_spec {g : ℝ → ℝ} (hgpos : ∀ x, 0 < g x) (hg : StrictMono g) {scale : ℝ} (hs : 0 < scale)
    (x0 : ℝ) (xs : List ℝ) (hsorted : SortedLt x0 xs) :
    Monotone (fun x => invgammaRe true scale x (x0, log (g x0)) (mkTable (fun t => log (g t)) xs)) ∧
    (∀ x x', x0 ≤ x → x < x' → x' ≤ (lastNode (x0, log (g x0)) (mkTable (fun t => log (g t)) xs)).1 →
      invgammaRe true scale x (x0, log (g x0)) (mkTable (fun t => log (g t)) xs)
        < invgammaRe true scale x' (x0, log (g x0)) (mkTable (fun t => log (g t)) xs)) ∧
    (∀ x, x0 ≤ x → x ≤ (lastNode (x0, log (g x0)) (mkTable (fun t => log (g t)) xs)).1 →
      invgammaInvRe (invgammaRe true scale x (x0, log (g x0)) (mkTable (fun t => log (g t)) xs))
        (x0, log (g x0) + log scale) ((mkTable (fun t => log (g t)) xs).map fun p => (p.1, p.2 + log scale)) = x) := by
  have hlog : StrictMono (fun t => log (g t)) := fun a b hab => log_lt_log (hgpos a) (hg hab)
  have hstrict := strictInc_mkTable hlog x0 xs hsorted
  refine ⟨?_, ?_, ?_⟩
  · exact (invgamma_monotone_and_step_error hgpos hg.monotone hs x0 xs hstrict.inc).1
  · intro x x' h0 hxx h1
    simp only [invgammaRe, interpolatorApply, if_true, TranscReal.exp_eq]
    exact mul_lt_mul_of_pos_right (exp_strictMono (interp_strictMono _ _ hstrict h0 hxx h1)) hs
  · intro x h0 h1
    exact (inverse_roundtrip_invgamma (x0, log (g x0)) _ hstrict hs h0 h1).2

/-- the table grid of `interpolator(num=)` (`np.linspace(xmin, xmax, num)`, exact arithmetic) has `num` abscissae, starts at
    `xmin` and ends at `xmax` -/
theorem interpolator_grid_num_covers (xmin xmax : Rat) {num : Nat} (hn : 2 ≤ num) :
    let xs := interpolatorXsNum xmin xmax num
    ∃ hlen : xs.length = num, xs[0]'(by omega) = xmin ∧ xs[num - 1]'(by omega) = xmax := by
  have hlen : (interpolatorXsNum xmin xmax num).length = num := by simp [interpolatorXsNum]
  refine ⟨hlen, ?_, ?_⟩
  · simp [interpolatorXsNum]
  · simp only [interpolatorXsNum, List.getElem_map, List.getElem_range]
    have h1 : ((num - 1 : Nat) : Rat) = (num : Rat) - 1 := by rw [Nat.cast_sub (by omega)]; simp
    have h2 : (num : Rat) - 1 ≠ 0 := by
      have : (2 : Rat) ≤ (num : Rat) := by exact_mod_cast hn
      linarith
    rw [h1]; field_simp; ring

/-- classic and JAX implementations are the same function of `x` (model level): uniform with `scale = b − a`, Laplace with
    `loc = 0`; normal / log-normal share the formula `normal`/`lognormal` and `lognormal_moments` agree (see
    `strictMono_lognormal_prior`) -/
theorem classic_eq_jax (h : StdNormal Φ Φinv) {logΦ : ℝ → ℝ} (hlog : ∀ x, logΦ x = log (Φ x)) (a b α x : ℝ) :
    uniformCl Φ a (b - a) x = uniformPriorRe Φ a b x ∧ laplaceCl Φ 0 α x = laplaceRe logΦ α x := by
  constructor
  · simp only [uniformCl, uniformPriorRe, uniformRe]; ring
  · have hx := quantile_laplace_cl h 0 α (h.pos x) (h.lt_one x)
    rw [h.left_inv] at hx
    rw [hx, laplaceRe_eq h hlog]; ring

end NiftyVerif.C30
