/-
  C33 — Pytree vector arithmetic and custom maps match flat-array semantics.
  Property theorems only (models: Model/Pytree.lean, Model/Smap.lean; lemmas: Lemmas/Pytree.lean, Lemmas/Smap.lean).
  Obligations are listed in harness/props/c33.py.  `flatten` is the concatenated flat array of the property text.
-/
import NiftyVerif.Lemmas.Pytree
import NiftyVerif.Lemmas.Smap

namespace NiftyVerif.C33
open NiftyVerif.Pytree NiftyVerif.Pytree.PTree NiftyVerif.Smap

/-! ### Vector operators (every binary operator of vector.py is `_broadcast_binary_op(op, ·, ·)`) -/

/-- `tree_map(f, a, b)` is the entry-wise `f` on the concatenated flat arrays, for every pair of equally structured trees -/
theorem flatten_map₂ {α β γ : Type} (f : α → β → γ) (a : PTree α) (b : PTree β) (c : PTree γ) (h : map₂ f a b = some c) :
    a.flatten.length = b.flatten.length ∧ c.flatten = List.zipWith f a.flatten b.flatten :=
  Pytree.flatten_map₂ f a b c h

/-- operator with two tree operands: whenever it succeeds, the result is the flat operation -/
theorem binary_flat {α β : Type} (f : α → α → β) (a b : PTree α) (r : PTree β)
    (h : binaryOp f (.tree a) (.tree b) = .ok r) : r.flatten = List.zipWith f a.flatten b.flatten :=
  binaryOp_tree_tree f a b r h

/-- scalar on the left (`__radd__`, `2 - v`, …) / on the right: always succeeds and equals the flat operation with the
    scalar broadcast over the whole flat array -/
theorem flatten_broadcast_scalar {α β : Type} (f : α → α → β) (s : α) (t : PTree α) :
    (∃ r, binaryOp f (.scalar s) (.tree t) = .ok r ∧
      r.flatten = List.zipWith f (List.replicate t.flatten.length s) t.flatten) ∧
    (∃ r, binaryOp f (.tree t) (.scalar s) = .ok r ∧
      r.flatten = List.zipWith f t.flatten (List.replicate t.flatten.length s)) :=
  ⟨binaryOp_scalar_left f s t, binaryOp_scalar_right f s t⟩

/-- unary operators (`-v`, `abs(v)`, `conj`, `real`, …) are `tree_map` -/
theorem unary_flat {α β : Type} (f : α → β) (t : PTree α) : (PTree.map f t).flatten = t.flatten.map f :=
  flatten_map f t

/-! ### reductions, products, norms, size -/

theorem size_flat {α : Type} (t : PTree α) : t.size = t.flatten.length := Pytree.size_flat t

theorem sum_flat {α : Type} [AddCommMonoid α] (t : PTree α) (s : α) (h : sumTree t = some s) : s = t.flatten.sum :=
  Pytree.sum_flat t s h

/-- `max` (and `min`, `any`, `all`: any associative reduction): the tree reduction is the reduction of the flat array -/
theorem max_flat {α : Type} [LinearOrder α] (t : PTree α) (m : α) (h : redTree max t = some m) :
    fold1 max t.flatten = some m :=
  haveI : Std.Associative (max : α → α → α) := ⟨max_assoc⟩
  red_flat max t m h

theorem min_flat {α : Type} [LinearOrder α] (t : PTree α) (m : α) (h : redTree min t = some m) :
    fold1 min t.flatten = some m :=
  haveI : Std.Associative (min : α → α → α) := ⟨min_assoc⟩
  red_flat min t m h

theorem vdot_flat {α : Type} [AddCommMonoid α] [Mul α] (conj : α → α) (a b : PTree α) (v : α)
    (h : vdotTree conj a b = some v) : v = (List.zipWith (fun x y => conj x * y) a.flatten b.flatten).sum :=
  Pytree.vdot_flat conj a b v h

theorem norm_flat_1 {α : Type} [Ring α] [LinearOrder α] [IsStrictOrderedRing α] (t : PTree α) :
    norm1 (fun x => |x|) t = (t.flatten.map fun x => |x|).sum := norm1_flat t

theorem norm_flat_inf {α : Type} [Ring α] [LinearOrder α] [IsStrictOrderedRing α] (t : PTree α) :
    normInf (fun x => |x|) max 0 t = (t.flatten.map fun x => |x|).foldl max 0 := normInf_flat t

theorem norm_flat_2 (t : PTree ℝ) :
    norm2 (fun x => |x|) Real.sqrt t = Real.sqrt ((t.flatten.map fun x => x * x).sum) := norm2_flat t

/-- **where_flat**: `where(c, x, y)` on three trees is `np.where` on the concatenated flat arrays whenever it succeeds -/
theorem where_flat {α : Type} (c : PTree Bool) (x y : PTree α) (r : PTree α)
    (h : whereOp (.tree c) (.tree x) (.tree y) = .ok r) :
    r.flatten = List.zipWith (fun (b : Bool) (q : α × α) => if b then q.1 else q.2) c.flatten
      (List.zipWith (fun a b => (a, b)) x.flatten y.flatten) := whereOp_flat c x y r h

/-- complex leaves (Gaussian integers, what the driver runs): `vdot(a, b) = Σ conj(a_i) b_i` and `sum` on the flat arrays —
    instances of `vdot_flat` / `sum_flat` -/
theorem vdot_flat_complex (a b : PTree GInt) (v : GInt) (h : vdotTree GInt.conj a b = some v) :
    v = (List.zipWith (fun x y => GInt.conj x * y) a.flatten b.flatten).sum := Pytree.vdot_flat GInt.conj a b v h

theorem sum_flat_complex (t : PTree GInt) (s : GInt) (h : sumTree t = some s) : s = t.flatten.sum := Pytree.sum_flat t s h

/-- **mean_flat** (forest helper): `mean(forest)` is `1/n` times the entry-wise sum of the members' flat arrays -/
theorem mean_flat {α : Type} [Add α] [Mul α] (inv : α) (t : PTree α) (ts : List (PTree α)) (r : PTree α)
    (h : meanTrees inv (t :: ts) = some r) :
    r.flatten = (sumFlats t.flatten (ts.map PTree.flatten)).map fun x => inv * x := Pytree.mean_flat inv t ts r h

/-! ### sequential maps -/

/-- scanning over axis 0 of `moveaxis(a, i, 0)` visits the slices of `a` along axis `i` -/
theorem slices_moveaxis {α : Type} [Inhabited α] (a : Arr α) (i t : Nat) :
    slice (moveaxis' a i 0) 0 t = slice a i t := slice_moveaxis'_eq a i t

/-- stacking the scan outputs along axis 0 and moving that axis to `o` is stacking along `o` -/
theorem stack_moveaxis {α : Type} [Inhabited α] (ys : List (Arr α)) (o : Nat) :
    moveaxis' (stack ys 0) 0 o = stack ys o := moveaxis_stack_eq ys o

theorem reord_inverse {α : Type} [Inhabited α] (g : Arr α → Arr α) (inAxes : List (Option Nat)) (xs : List (Arr α)) :
    reassemble inAxes (partition inAxes xs).1 ((partition inAxes xs).2.map g) =
      List.zipWith (fun (ax : Option Nat) x => match ax with | none => x | some i => g (moveaxis' x i 0)) inAxes xs :=
  Smap.reord_inverse g inAxes xs

/-- **smap_eq_vmap** (repaired `out_axes=None` handling): for every function, every specification of mapped input
    and output axes (incl. `None` on either side) and every scan length, `_generic_smap` = `jax.vmap` -/
theorem smap_eq_vmap {α : Type} [Inhabited α] (f : List (Arr α) → List (Arr α)) (nout : Nat)
    (inAxes outAxes : List (Option Nat)) (xs : List (Arr α)) (len : Nat) (hlen : 0 < len) :
    smap fixed f nout inAxes outAxes xs len = vmapSpec f nout inAxes outAxes xs len :=
  Smap.smap_eq_vmap f nout inAxes outAxes xs len hlen

/-- the code as found: an `out_axes=None` entry returns the first *unmapped input* `c`, whatever `f` computes
    (`g(x,c) = (x*c, 7.)`, `in_axes=(0,None)`, `out_axes=(0,None)`: `smap` returns `c`, `jax.vmap` returns `7.`) -/
theorem asFound_none_returns_input {α : Type} [Inhabited α] (f : List (Arr α) → List (Arr α)) (x c : Arr α) (len : Nat) :
    (smap asFound f 2 [some 0, none] [some 0, none] [x, c] len).getD 1 default = c ∧
    (vmapSpec f 2 [some 0, none] [some 0, none] [x, c] len).getD 1 default = (f [slice x 0 0, c]).getD 1 default := by
  constructor
  · simp [smap, assemble, asFound, partition, List.range_succ]
  · simp [vmapSpec, List.range_succ]

/-- the Python-loop scan used by `lmap` computes `lax.scan` -/
theorem lscan_eq_scan {C X Y : Type} (f : C → X → C × Y) (init : C) (xs : List X) (g : Y) :
    lscan f init xs g = scan f init xs := Smap.lscan_eq_scan f init xs g

/-! ### non-vacuity -/

def tA : PTree Int := .node "dict:a,b" [.leaf [3] [0, 1, 2], .node "tuple" [.leaf [2, 2] [1, 1, 1, 1], .leaf [] [4]]]

example : (match binaryOp (· - ·) (.scalar 2) (.tree tA) with | .ok r => r.flatten | .error _ => []) =
    [2, 1, 0, 1, 1, 1, 1, -2] := by decide
example : tA.flatten = [0, 1, 2, 1, 1, 1, 1, 4] := by decide
example : sumTree tA = some 11 ∧ redTree max tA = some 4 ∧ redTree min tA = some 0 ∧ tA.size = 8 := by decide
example : vdotTree id tA tA = some 25 := by decide
example : norm1 (fun x : Int => |x|) tA = 11 := by decide

end NiftyVerif.C33
