/-
  C25 — The classic VI driver resumes after a crash with identical results.
  Property theorems only; model: Model/CrashCl.lean (+ Model/CrashFS.lean); lemmas: Lemmas/CrashCl.lean, Lemmas/CrashClLatest.lean.
  Obligations are listed in harness/props/c25.py.

  Reading guide.  `S` = (sample list, mean); `sys.step j` = global iteration j; `sAfter sys s0 total` = result of the
  uninterrupted run.  `run sys proto strat resume total s0 fs` = one call of `optimize_kl(..., output_directory,
  save_strategy, resume)` on directory content `fs`: the file operations it performs until it returns or raises, and what it
  returns (`.error e` = it raised).  `crash fs ops k` = directory left by a kill after `k` byte-granular operations.
  `Reach … fs`: first run (either `resume` flag) on the empty directory killed anywhere, then any number of `resume=True`
  runs killed anywhere.  Protocol `.repaired` = fixes/C25_atomic_marker_and_files.diff + fixes/C25_latest_invalidate_marker.diff;
  `.atomicOnly` = only the first of the two; `.asFound` = /repo before both.
-/
import NiftyVerif.Lemmas.CrashCl
import NiftyVerif.Lemmas.CrashClLatest

namespace NiftyVerif.C25
open NiftyVerif.CrashFS NiftyVerif.CrashCl

variable {S : Type}

/-- **save strategy `all`, repaired protocol: a crash never leaves the directory unresumable or silently wrong** — from every
    reachable directory a `resume=True` start does not raise and returns exactly the uninterrupted (samples, mean). -/
theorem crash_safe_all (sys : Sys S) (hl : Lawful sys) (s0 : S) (total : Nat) (fs : FS Path)
    (hr : Reach sys .repaired .all total s0 fs) :
    (run sys .repaired .all true total s0 fs).2 = .ok (sAfter sys s0 total) :=
  (run_good hl s0 total true (reach_good hl s0 total hr) (Or.inl rfl)).1

/-- single-crash form: ∀ total k r0 — run, kill after k operations, resume ⇒ the uninterrupted result -/
theorem crash_safe_all_single (sys : Sys S) (hl : Lawful sys) (s0 : S) (total k : Nat) (r0 : Bool) :
    (run sys .repaired .all true total s0
      (crash FS.empty (run sys .repaired .all r0 total s0 FS.empty).1 k)).2 = .ok (sAfter sys s0 total) :=
  crash_safe_all sys hl s0 total _ (Reach.first r0 k)

/-- **the marker implies completeness** (strategy `all`, repaired): whenever `last_finished_iteration` exists in a reachable
    directory it is the complete text of some `i < total`, and every file the resume branch reads for `i` — all sample
    files, no stray next sample, the mean, energy history, minisanity history, random state — is complete and from
    iteration `i`. -/
theorem marker_implies_complete (sys : Sys S) (hl : Lawful sys) (s0 : S) (total : Nat) (fs : FS Path)
    (hr : Reach sys .repaired .all total s0 fs) (t : Bytes) (ht : fs .marker = some t) :
    ∃ i, i < total ∧ t = sys.digits i ∧ GoodAt sys s0 i fs := by
  rcases reach_good hl s0 total hr with h | ⟨i, hi, hg⟩
  · rw [h] at ht; cases ht
  · refine ⟨i, hi, ?_, hg⟩
    have := hg.1; rw [ht] at this; injection this

/-- the uninterrupted run itself (no crash) returns `sAfter total` and ends with marker `total-1` and complete files -/
theorem uninterrupted_all (sys : Sys S) (hl : Lawful sys) (s0 : S) (total : Nat) (r0 : Bool) :
    (run sys .repaired .all r0 total s0 FS.empty).2 = .ok (sAfter sys s0 total) :=
  (run_good hl s0 total r0 (Or.inl rfl) (Or.inr rfl)).1

/-! non-vacuity: the driver's concrete system is lawful; a reachable directory with marker 0 and a half-written sample -/
theorem natSys_lawful (n : Nat) (hn : 0 < n) : Lawful (natSys n) :=
  ⟨hn, fun s => by simp [natSys], fun s h => by simp [natSys] at h, fun _ => by simp [natSys], fun _ => by simp [natSys],
   by simp [natSys], fun i => by simp [natSys]⟩

/-- MAP runs (n_samples = 0: `SampleList`, one sample file, no mean file; a stale mean file is unlinked) are instances of the
    same theorems: the MAP system is lawful, so `crash_safe_all` / `crash_safe_latest` apply to it -/
theorem natSys_map_lawful : Lawful (natSys 1 false) :=
  ⟨by decide, fun s => by simp [natSys], fun _ _ => rfl, fun _ => by simp [natSys], fun _ => by simp [natSys],
   by simp [natSys], fun i => by simp [natSys]⟩

def mapCrash (k : Nat) : FS Path := crash FS.empty (run (natSys 1 false) .repaired .latest false 3 0 FS.empty).1 k
def mapOutcome (k : Nat) : Option Nat :=
  match (run (natSys 1 false) .repaired .latest true 3 0 (mapCrash k)).2 with
  | .ok s => some s
  | .error _ => none

/-- a MAP run with strategy `latest`, killed after the sample of iteration 1 has been moved into place but before the
    marker is written again: no marker (invalidated), no mean file, sample of iteration 1 — the resumed run starts from
    scratch and returns state 3 -/
example : mapCrash 60 .marker = none ∧ mapCrash 60 (.mean .latest) = none ∧
    mapCrash 60 (.sample .latest 0) = some [2, 0, 255] ∧ mapOutcome 60 = some 3 := by decide

def natRun (proto : Proto) (strat : Strategy) (resume : Bool) (total : Nat) (fs : FS Path) :=
  run (natSys 2) proto strat resume total 0 fs

def natCrash (proto : Proto) (strat : Strategy) (total k : Nat) : FS Path :=
  crash FS.empty (natRun proto strat false total FS.empty).1 k

example : Reach (natSys 2) .repaired .all 3 0 (natCrash .repaired .all 3 59) := Reach.first false 59

/-- outcome of `resume=True` on a crashed directory, as a small decidable value: none = raised -/
def resumeOutcome (proto : Proto) (strat : Strategy) (total k : Nat) : Option Nat :=
  match (natRun proto strat true total (natCrash proto strat total k)).2 with
  | .ok s => some s
  | .error _ => none

def resumeError (proto : Proto) (strat : Strategy) (total k : Nat) : Option Err :=
  match (natRun proto strat true total (natCrash proto strat total k)).2 with
  | .ok _ => none
  | .error e => some e

/-- in that directory the marker says 0, a sample temp file of iteration 1 is half written, resume returns state 3 -/
example : natCrash .repaired .all 3 59 .marker = some [48] ∧ resumeOutcome .repaired .all 3 52 = some 3 := by decide

/-! **The protocol as found in /repo is not crash safe** (documented witnesses, replayed on the real code by the check;
    system `natSys 2`, 2 iterations, byte-granular operation indices). -/

/-- (a) the marker is truncated in place: killed right after `open(last_finished_iteration, "w")` of iteration 1,
    `int('')` raises on resume -/
theorem asFound_marker_truncated : ∃ k, natCrash .asFound .all 2 k .marker = some [] ∧
    resumeError .asFound .all 2 k = some .markerParse := ⟨74, by decide⟩

/-- (b) the marker is written BEFORE the energy history: killed after the marker of iteration 1 is complete,
    `energy_history_iteration_1` does not exist, resume raises FileNotFoundError (the last iteration is excluded from this
    window: then the driver returns before reading it) -/
theorem asFound_marker_before_history : ∃ k, natCrash .asFound .all 3 k .marker = some [49] ∧
    natCrash .asFound .all 3 k (.ehist (.iter 1)) = none ∧ resumeError .asFound .all 3 k = some .missing := ⟨77, by decide⟩

/-- (c) and before the minisanity history: the resumed run gets past loading and raises in the middle of iteration 2 -/
theorem asFound_marker_before_minisanity_history : ∃ k,
    natCrash .asFound .all 3 k (.ehist (.iter 1)) = some [1, 253] ∧ natCrash .asFound .all 3 k (.mhist (.iter 1)) = none ∧
    resumeError .asFound .all 3 k = some .missing := ⟨87, by decide⟩

/-- (d) strategy `latest` overwrites the only copy in place: killed inside the save of sample 0 of iteration 1 the set
    `latest.*` cannot be loaded -/
theorem asFound_latest_in_place : ∃ k, natCrash .asFound .latest 2 k .marker = some [48] ∧
    resumeOutcome .asFound .latest 2 k = none := ⟨56, by decide⟩

/-! ### strategy `latest`

    With temp + `os.replace` alone (`Proto.atomicOnly`, the first repair) every single file is replaced atomically but the SET
    `latest.*` is not: between the first move onto a `latest.*` file of iteration j ≥ 1 and the move of the marker the
    directory holds files of iteration j under a marker that says j-1 (`atomicOnly_latest_window_witness`).
    The second repair (`Proto.repaired`, fixes/C25_latest_invalidate_marker.diff) removes the marker before `latest.*` is
    touched: in the window there is no marker, a resumed run starts from scratch and — iterations being deterministic —
    ends with the same result. -/

/-- the window of the first repair: marker 0, mean of iteration 1 already in place, resume returns a wrong state -/
theorem atomicOnly_latest_window_witness : ∃ k, natCrash .atomicOnly .latest 2 k .marker = some [48] ∧
    natCrash .atomicOnly .latest 2 k (.mean .latest) = some [2, 254] ∧
    resumeOutcome .atomicOnly .latest 2 k ≠ some 2 := ⟨80, by decide⟩

/-- **save strategy `latest`, repaired protocol: crash safe at EVERY crash point** — from every reachable directory a
    `resume=True` start does not raise and returns exactly the uninterrupted (samples, mean). -/
theorem crash_safe_latest (sys : Sys S) (hl : Lawful sys) (s0 : S) (total : Nat) (fs : FS Path)
    (hr : Reach sys .repaired .latest total s0 fs) :
    (run sys .repaired .latest true total s0 fs).2 = .ok (sAfter sys s0 total) :=
  (runL_good hl s0 total true (reachL_good hl s0 total hr) (Or.inl rfl)).1

/-- single-crash form for `latest` -/
theorem crash_safe_latest_single (sys : Sys S) (hl : Lawful sys) (s0 : S) (total k : Nat) (r0 : Bool) :
    (run sys .repaired .latest true total s0
      (crash FS.empty (run sys .repaired .latest r0 total s0 FS.empty).1 k)).2 = .ok (sAfter sys s0 total) :=
  crash_safe_latest sys hl s0 total _ (Reach.first r0 k)

/-- the marker implies completeness for `latest` too: if it exists it is `digits i`, and latest.*, both histories and the
    random state are complete and from iteration i -/
theorem marker_implies_complete_latest (sys : Sys S) (hl : Lawful sys) (s0 : S) (total : Nat) (fs : FS Path)
    (hr : Reach sys .repaired .latest total s0 fs) (t : Bytes) (ht : fs .marker = some t) :
    ∃ i, i < total ∧ t = sys.digits i ∧ GoodAtL sys s0 i fs := by
  rcases reachL_good hl s0 total hr with h | ⟨i, hi, hg⟩
  · rw [h] at ht; cases ht
  · refine ⟨i, hi, ?_, hg⟩
    have := hg.1; rw [ht] at this; injection this

/-- non-vacuity: the same kill point that was fatal for the first repair (index shifted by the one `remove` per iteration):
    the marker is gone, the resumed run starts from scratch and returns the right state -/
example : natCrash .repaired .latest 2 82 .marker = none ∧
    natCrash .repaired .latest 2 82 (.mean .latest) = some [2, 254] ∧
    resumeOutcome .repaired .latest 2 82 = some 2 := by decide

end NiftyVerif.C25
