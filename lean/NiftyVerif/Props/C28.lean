/-
  C28 — Correlated-field models: implementations agree and scale correctly.
  Property theorems only; obligations are listed in harness/props/c28.py.

  For fixed hyper-parameters the field is `s = offset + (1/V)·H(A ∘ ξ)` with `A_0 = azm·V` and `A_k = amp_k` (k ≠ 0); the theorems
  are the exact identities behind "the expected spatial variance about the spatial mean equals the square of the reported total
  fluctuation, for every grid and volume": the normalisation of the amplitudes as coded, the variance formula from the column
  properties of the (Hartley) transform, and the product formulas.  All over an arbitrary field `K`.
-/
import NiftyVerif.Model.CorrField
import Mathlib.Algebra.BigOperators.Ring.Finset
import Mathlib.Algebra.BigOperators.Field
import Mathlib.Algebra.BigOperators.Group.Finset.Sigma
import Mathlib.Data.Fintype.BigOperators
import Mathlib.Algebra.BigOperators.Pi
import Mathlib.Algebra.BigOperators.Fin
import Mathlib.Algebra.Field.Basic
import Mathlib.Tactic.Ring
import Mathlib.Tactic.FieldSimp
import Mathlib.Tactic.Linarith

namespace NiftyVerif.C28
open NiftyVerif.CorrField Finset

variable {K : Type} [Field K]

theorem wsum_nil_left (a : List K) : wsum ([] : List K) a = 0 := by simp [wsum]

theorem wsum_cons (w : K) (ws : List K) (a : K) (as : List K) : wsum (w :: ws) (a :: as) = w * a + wsum ws as := by
  simp [wsum]

theorem wsum_map_mul_div (c S : K) (w a : List K) :
    wsum w (a.map fun s => c * s / S) = c / S * wsum w a := by
  induction w generalizing a with
  | nil => simp [wsum]
  | cons x xs ih =>
    cases a with
    | nil => simp [wsum]
    | cons y ys =>
      simp only [List.map_cons, wsum_cons, ih]
      ring

/-- **normalisation as coded, kind "power"** (classic `_Normalization` + `_Amplitude`, JAX `NonParametricAmplitude` kind power and
    renormalised Matern): `Σ_{k≠0} mult_k amp_k² = flu²·V²`, whatever the spectrum shape, multiplicities, volume -/
theorem amp_normalised_power (V flu : K) (mult spec : List K) (hS : wsum mult spec ≠ 0) :
    wsum mult (normPower V flu mult spec) = flu * flu * (V * V) := by
  unfold normPower
  rw [wsum_map_mul_div]
  field_simp

/-- kind "amplitude" (JAX): the same identity with the spectrum entering squared -/
theorem amp_normalised_amplitude (V flu : K) (mult spec : List K) (hS : wsum mult (spec.map fun s => s * s) ≠ 0) :
    wsum mult (normAmplitude V flu mult spec) = flu * flu * (V * V) :=
  amp_normalised_power V flu mult _ hS

/-- hence the modelled spatial variance of a one-space field is `flu²`: resolution- and volume-independent -/
theorem spatialVar_normalised (V flu : K) (mult spec : List K) (hS : wsum mult spec ≠ 0) (hV : V ≠ 0) :
    spatialVar V mult (normPower V flu mult spec) = flu * flu := by
  unfold spatialVar
  rw [amp_normalised_power V flu mult spec hS]
  field_simp

/-- **expected spatial variance from the transform's column properties.**  `X` pixels, `M` harmonic modes, `H` the un-normalised
    transform (`s_x = (1/V) Σ_k H x k · A k · ξ_k`, independent unit-variance `ξ`), zero mode `k0`.  If the zero-mode column is constant
    one, every other column sums to zero and every column has squared norm `N = |X|`, then the pixel-averaged variance of the field
    about its spatial mean, `(1/N) Σ_x Σ_k ((ΠA)_{xk})²`, is `(1/V²) Σ_{k≠k0} A_k²` -/
theorem expected_spatial_variance {X M : Type} [Fintype X] [Fintype M] [DecidableEq M]
    (H : X → M → K) (A : M → K) (V : K) (k0 : M)
    (hN : (Fintype.card X : K) ≠ 0)
    (h0 : ∀ x, H x k0 = 1) (hsum : ∀ k, k ≠ k0 → ∑ x, H x k = 0) (hnorm : ∀ k, ∑ x, H x k * H x k = (Fintype.card X : K)) :
    (1 / (Fintype.card X : K)) * ∑ x, ∑ k, ((A k / V) * (H x k - (1 / (Fintype.card X : K)) * ∑ y, H y k)) ^ 2 =
      (1 / (V * V)) * ∑ k ∈ univ.erase k0, A k * A k := by
  rw [Finset.sum_comm]
  have hcol : ∀ k, ∑ x, ((A k / V) * (H x k - (1 / (Fintype.card X : K)) * ∑ y, H y k)) ^ 2 =
      if k = k0 then 0 else (A k / V) ^ 2 * (Fintype.card X : K) := by
    intro k
    by_cases hk : k = k0
    · subst hk
      simp only [if_true]
      apply Finset.sum_eq_zero
      intro x _
      have : ∑ y, H y k = (Fintype.card X : K) := by simp [h0]
      rw [this, h0 x]
      field_simp
      ring
    · simp only [hk, if_false]
      rw [hsum k hk]
      simp only [mul_zero, sub_zero, mul_pow]
      rw [← Finset.mul_sum]
      congr 1
      simp only [pow_two]
      exact hnorm k
  simp only [hcol]
  rw [Finset.sum_ite, Finset.sum_const_zero, zero_add, Finset.mul_sum, Finset.mul_sum]
  have : (univ.filter fun k => ¬ k = k0) = univ.erase k0 := by
    ext k; simp
  rw [this]
  apply Finset.sum_congr rfl
  intro k _
  field_simp

/-- the zero mode contributes to the spatial mean only: the spatial mean of the field is `A_{k0}·ξ_{k0}/V` -/
theorem zero_mode_only_mean {X M : Type} [Fintype X] [Fintype M] [DecidableEq M]
    (H : X → M → K) (A ξ : M → K) (V : K) (k0 : M) (hN : (Fintype.card X : K) ≠ 0)
    (h0 : ∀ x, H x k0 = 1) (hsum : ∀ k, k ≠ k0 → ∑ x, H x k = 0) :
    (1 / (Fintype.card X : K)) * ∑ x, (1 / V) * ∑ k, H x k * A k * ξ k = A k0 * ξ k0 / V := by
  rw [← Finset.mul_sum, Finset.sum_comm]
  have : ∀ k, ∑ x, H x k * A k * ξ k = if k = k0 then (Fintype.card X : K) * (A k0 * ξ k0) else 0 := by
    intro k
    by_cases hk : k = k0
    · subst hk; simp [h0, mul_assoc]
    · simp only [hk, if_false]
      rw [← Finset.sum_mul, ← Finset.sum_mul, hsum k hk]; ring
  simp only [this, Finset.sum_ite_eq', Finset.mem_univ, if_true]
  field_simp

/-- **product spectra**: the sum over all product modes except the all-zero mode factorises:
    `Σ_{k ≠ z} Π_i b_i(k_i) = Π_i (Σ_{k_i} b_i(k_i)) − Π_i b_i(z_i)` (with `b_i = (amp_i/V_i)²` this is
    `Π_i (1 + f_i²/azm²) − 1` in units of `azm²`) -/
theorem product_mode_sum {ι : Type} [Fintype ι] [DecidableEq ι] {M : ι → Type} [∀ i, Fintype (M i)] [∀ i, DecidableEq (M i)]
    (b : ∀ i, M i → K) (z : ∀ i, M i) :
    ∑ k ∈ (univ : Finset (∀ i, M i)).erase z, ∏ i, b i (k i) = ∏ i, ∑ m, b i m - ∏ i, b i (z i) := by
  rw [Finset.sum_erase_eq_sub (Finset.mem_univ z), Finset.prod_univ_sum, Fintype.piFinset_univ]

/-- two spaces, as documented: `total² = azm²((1+f₁²/azm²)(1+f₂²/azm²) − 1) = f₁² + f₂² + f₁²f₂²/azm²`, the slice fluctuation of
    space 1 is `f₁²(1+f₂²/azm²)`, and the law of total variance `total² = slice₁² + average₂²` holds -/
theorem product_total_fluct (azm2 f1 f2 : K) (hz : azm2 ≠ 0) :
    total2 azm2 [f1, f2] = f1 + f2 + f1 * f2 / azm2 ∧
    slice2 azm2 [f1, f2] 0 = f1 * (1 + f2 / azm2) ∧ slice2 azm2 [f1, f2] 1 = f2 * (1 + f1 / azm2) ∧
    total2 azm2 [f1, f2] = slice2 azm2 [f1, f2] 0 + average2 [f1, f2] 1 ∧
    total2 azm2 [f1, f2] = slice2 azm2 [f1, f2] 1 + average2 [f1, f2] 0 := by
  simp only [total2, slice2, average2, prodSel, List.length_cons, List.length_nil, List.range, List.range.loop,
    List.zip_cons_cons, List.zip_nil_right, List.map_cons, List.map_nil, List.foldl_cons, List.foldl_nil,
    List.getD_cons_zero, List.getD_cons_succ]
  refine ⟨?_, ?_, ?_, ?_, ?_⟩ <;> simp <;> field_simp <;> ring

/-- single space: every reported fluctuation is the fluctuation parameter itself -/
theorem single_space_fluct (azm2 f : K) : total2 azm2 [f] = f ∧ slice2 azm2 [f] 0 = f ∧ average2 [f] 0 = f := by
  simp [total2, slice2, average2]

/-- classic Matern amplitude (known finding C28-matern-reported-fluctuation): the reported `fluctuation_amplitude²` is
    `Σ_k dvol_k op_k²` over all bins with `dvol_k = mult_k / V` and `op_0 = V`; it equals `V·(1 + realised variance)`, not the
    realised variance `(1/V²) Σ_{k≠0} mult_k op_k²` -/
theorem matern_reported_partial (V : K) (mults ops2 : List K) (hV : V ≠ 0) :
    maternReported2 ((1 / V) :: mults.map (fun m => m / V)) ((V * V) :: ops2) =
      V * (1 + spatialVar V mults ops2) := by
  unfold maternReported2 spatialVar
  rw [wsum_cons]
  have : wsum (mults.map fun m => m / V) ops2 = wsum mults ops2 / V := by
    induction mults generalizing ops2 with
    | nil => simp [wsum]
    | cons m ms ih =>
      cases ops2 with
      | nil => simp [wsum]
      | cons o os => simp only [List.map_cons, wsum_cons, ih]; field_simp
  rw [this]
  field_simp

/-- **both Hartley conventions.**  The un-normalised Hartley kernel is `cos + σ·sin`: `σ = −1` for `Re(fft) + Im(fft)`
    (non-canonical: NIFTy classic and the JAX default), `σ = +1` for `Re(fft) − Im(fft)` (canonical).  From the elementary
    trigonometric column sums (`Σ_x cos = Σ_x sin = 0` off the zero mode, `Σ_x cos·sin = 0`, `cos² + sin² = 1`) the three
    hypotheses of `expected_spatial_variance` follow for every `σ` with `σ² = 1`; the harness checks the three conclusions on the
    real kernels of both conventions (`hartley_kernel_check`). -/
theorem hartley_columns {X M : Type} [Fintype X] [Fintype M] [DecidableEq M]
    (c s : X → M → K) (σ : K) (k0 : M) (hσ : σ * σ = 1)
    (hcs : ∀ x k, c x k * c x k + s x k * s x k = 1)
    (hc0 : ∀ x, c x k0 = 1) (hs0 : ∀ x, s x k0 = 0)
    (hc : ∀ k, k ≠ k0 → ∑ x, c x k = 0) (hs : ∀ k, k ≠ k0 → ∑ x, s x k = 0)
    (hx : ∀ k, ∑ x, c x k * s x k = 0) :
    (∀ x, c x k0 + σ * s x k0 = 1) ∧
    (∀ k, k ≠ k0 → ∑ x, (c x k + σ * s x k) = 0) ∧
    (∀ k, ∑ x, (c x k + σ * s x k) * (c x k + σ * s x k) = (Fintype.card X : K)) := by
  refine ⟨fun x => by simp [hc0, hs0], fun k hk => ?_, fun k => ?_⟩
  · rw [Finset.sum_add_distrib, ← Finset.mul_sum, hc k hk, hs k hk]; ring
  · have : ∀ x, (c x k + σ * s x k) * (c x k + σ * s x k) =
        (c x k * c x k + s x k * s x k) + (σ * σ - 1) * (s x k * s x k) + 2 * σ * (c x k * s x k) := by
      intro x; ring
    simp only [this, hcs, hσ, sub_self, zero_mul, add_zero]
    rw [Finset.sum_add_distrib, ← Finset.mul_sum, hx k]
    simp

theorem hartley_variance_both_conventions {X M : Type} [Fintype X] [Fintype M] [DecidableEq M]
    (c s : X → M → K) (σ : K) (A : M → K) (V : K) (k0 : M) (hσ : σ * σ = 1)
    (hN : (Fintype.card X : K) ≠ 0)
    (hcs : ∀ x k, c x k * c x k + s x k * s x k = 1)
    (hc0 : ∀ x, c x k0 = 1) (hs0 : ∀ x, s x k0 = 0)
    (hc : ∀ k, k ≠ k0 → ∑ x, c x k = 0) (hs : ∀ k, k ≠ k0 → ∑ x, s x k = 0)
    (hx : ∀ k, ∑ x, c x k * s x k = 0) :
    (1 / (Fintype.card X : K)) * ∑ x, ∑ k, ((A k / V) * ((c x k + σ * s x k) -
        (1 / (Fintype.card X : K)) * ∑ y, (c y k + σ * s y k))) ^ 2 =
      (1 / (V * V)) * ∑ k ∈ univ.erase k0, A k * A k := by
  obtain ⟨h0, h1, h2⟩ := hartley_columns c s σ k0 hσ hcs hc0 hs0 hc hs hx
  exact expected_spatial_variance (fun x k => c x k + σ * s x k) A V k0 hN h0 h1 h2

/-- amplitudes that are constant on the bins of a power space -/
theorem binned_mode_sum {M B : Type} [Fintype M] [Fintype B] [DecidableEq M] [DecidableEq B]
    (bin : M → B) (a : B → K) (k0 : M) :
    ∑ k ∈ univ.erase k0, a (bin k) * a (bin k) =
      ∑ b, (((univ.erase k0).filter fun k => bin k = b).card : K) * (a b * a b) := by
  rw [← Finset.sum_fiberwise (univ.erase k0) bin]
  apply Finset.sum_congr rfl
  intro b _
  rw [Finset.sum_congr rfl (fun k hk => by rw [(Finset.mem_filter.mp hk).2] : ∀ k ∈ (univ.erase k0).filter (fun k => bin k = b), a (bin k) * a (bin k) = a b * a b)]
  simp

theorem prodSel_false (azm2 : K) (f2 : List K) :
    prodSel azm2 f2 (fun _ => false) = (f2.map fun f => 1 + f / azm2).prod := by
  unfold prodSel
  simp only [Bool.false_eq_true, if_false]
  have h2 : ((List.range f2.length).zip f2).map Prod.snd = f2 := List.map_snd_zip (by simp)
  have : ((List.range f2.length).zip f2).map (fun p => 1 + p.2 / azm2) = f2.map fun f => 1 + f / azm2 := by
    conv_rhs => rw [← h2, List.map_map]
    rfl
  rw [this, List.prod_eq_foldl]

theorem total2_general (azm2 : K) (f2 : List K) (h : f2.length ≠ 1) :
    total2 azm2 f2 = azm2 * ((f2.map fun f => 1 + f / azm2).prod - 1) := by
  unfold total2
  split
  · simp at h
  · rw [prodSel_false]

/-- sum over the product modes that are non-zero in space `j` -/
theorem product_slice_sum {ι : Type} [Fintype ι] [DecidableEq ι] {M : ι → Type} [∀ i, Fintype (M i)] [∀ i, DecidableEq (M i)]
    (b : ∀ i, M i → K) (z : ∀ i, M i) (j : ι) :
    ∑ k ∈ (univ : Finset (∀ i, M i)).filter (fun k => k j ≠ z j), ∏ i, b i (k i) =
      (∑ m ∈ univ.erase (z j), b j m) * ∏ i ∈ univ.erase j, ∑ m, b i m := by
  have hf : (univ : Finset (∀ i, M i)).filter (fun k => k j ≠ z j) =
      Fintype.piFinset (Function.update (fun i => (univ : Finset (M i))) j (univ.erase (z j))) := by
    ext k
    simp only [Finset.mem_filter, Finset.mem_univ, true_and, Fintype.mem_piFinset]
    constructor
    · intro h i
      by_cases hi : i = j
      · subst hi; simp [h]
      · simp [Function.update_of_ne hi]
    · intro h
      have := h j
      simpa using this
  rw [hf, ← Finset.prod_univ_sum, ← Finset.mul_prod_erase univ _ (Finset.mem_univ j)]
  congr 1
  · simp
  · apply Finset.prod_congr rfl
    intro i hi
    rw [Function.update_of_ne (Finset.ne_of_mem_erase hi)]

/-- `slice_fluctuation(j)²` for any number of spaces -/
theorem slice_modes_general {ι : Type} [Fintype ι] [DecidableEq ι] {M : ι → Type} [∀ i, Fintype (M i)] [∀ i, DecidableEq (M i)]
    (b : ∀ i, M i → K) (z : ∀ i, M i) (azm2 : K) (f : ι → K) (j : ι)
    (hz : ∀ i, b i (z i) = 1) (hf : ∀ i, ∑ m ∈ univ.erase (z i), b i m = f i / azm2) :
    azm2 * ∑ k ∈ (univ : Finset (∀ i, M i)).filter (fun k => k j ≠ z j), ∏ i, b i (k i) =
      azm2 * ((f j / azm2) * ∏ i ∈ univ.erase j, (1 + f i / azm2)) := by
  rw [product_slice_sum, hf j]
  congr 2
  apply Finset.prod_congr rfl
  intro i _
  rw [← Finset.add_sum_erase univ _ (Finset.mem_univ (z i)), hz i, hf i]

/-- `total_fluctuation²` for any number of spaces -/
theorem total_modes_general {ι : Type} [Fintype ι] [DecidableEq ι] {M : ι → Type} [∀ i, Fintype (M i)] [∀ i, DecidableEq (M i)]
    (b : ∀ i, M i → K) (z : ∀ i, M i) (azm2 : K) (f : ι → K)
    (hz : ∀ i, b i (z i) = 1) (hf : ∀ i, ∑ m ∈ univ.erase (z i), b i m = f i / azm2) :
    azm2 * ∑ k ∈ (univ : Finset (∀ i, M i)).erase z, ∏ i, b i (k i) = azm2 * (∏ i, (1 + f i / azm2) - 1) := by
  rw [product_mode_sum]
  congr 2
  · apply Finset.prod_congr rfl
    intro i _
    rw [← Finset.add_sum_erase univ _ (Finset.mem_univ (z i)), hz i, hf i]
  · simp [hz]

/-- tie to the list model: `total2` of `n ≠ 1` spaces is the mode sum -/
theorem total2_ofFn {n : Nat} (hn : n ≠ 1) {M : Fin n → Type} [∀ i, Fintype (M i)] [∀ i, DecidableEq (M i)]
    (b : ∀ i, M i → K) (z : ∀ i, M i) (azm2 : K) (f : Fin n → K)
    (hz : ∀ i, b i (z i) = 1) (hf : ∀ i, ∑ m ∈ univ.erase (z i), b i m = f i / azm2) :
    total2 azm2 (List.ofFn f) = azm2 * ∑ k ∈ (univ : Finset (∀ i, M i)).erase z, ∏ i, b i (k i) := by
  rw [total_modes_general b z azm2 f hz hf, total2_general _ _ (by simpa using hn)]
  congr 2
  rw [List.map_ofFn, Fin.prod_ofFn]
  rfl

/-- **Matern (and any other binned amplitude), not renormalised, either Hartley convention**: with amplitudes `a (bin k)` that
    are constant on the bins of the power space, the pixel-averaged variance about the spatial mean is
    `(1/V²) Σ_b mult_b · a_b²` with `mult_b` the number of non-zero modes in bin `b` — `spatialVar` of the list model; the classic
    code reports `maternReported2` instead (`matern_reported_partial`, known finding).  With renormalisation the amplitudes are
    `normPower` of the Matern spectrum and `spatialVar_normalised` gives exactly `flu²`. -/
theorem matern_realised_variance {X M B : Type} [Fintype X] [Fintype M] [Fintype B] [DecidableEq M] [DecidableEq B]
    (c s : X → M → K) (σ : K) (bin : M → B) (a : B → K) (V : K) (k0 : M) (hσ : σ * σ = 1)
    (hN : (Fintype.card X : K) ≠ 0)
    (hcs : ∀ x k, c x k * c x k + s x k * s x k = 1)
    (hc0 : ∀ x, c x k0 = 1) (hs0 : ∀ x, s x k0 = 0)
    (hc : ∀ k, k ≠ k0 → ∑ x, c x k = 0) (hs : ∀ k, k ≠ k0 → ∑ x, s x k = 0)
    (hx : ∀ k, ∑ x, c x k * s x k = 0) :
    (1 / (Fintype.card X : K)) * ∑ x, ∑ k, ((a (bin k) / V) * ((c x k + σ * s x k) -
        (1 / (Fintype.card X : K)) * ∑ y, (c y k + σ * s y k))) ^ 2 =
      (1 / (V * V)) * ∑ b, (((univ.erase k0).filter fun k => bin k = b).card : K) * (a b * a b) := by
  rw [hartley_variance_both_conventions c s σ (fun k => a (bin k)) V k0 hσ hN hcs hc0 hs0 hc hs hx, binned_mode_sum]

/-- non-vacuity of the Hartley hypotheses: two pixels, modes 0 and 1 (`cos πxk = ±1`, `sin = 0`), both conventions -/
example : ∀ σ : ℚ, σ * σ = 1 →
    let c : Fin 2 → Fin 2 → ℚ := fun x k => if x = 1 ∧ k = 1 then -1 else 1
    let s : Fin 2 → Fin 2 → ℚ := fun _ _ => 0
    (∀ x k, c x k * c x k + s x k * s x k = 1) ∧ (∀ x, c x 0 = 1) ∧ (∀ k, k ≠ 0 → ∑ x, c x k = 0) ∧ (∀ k, ∑ x, c x k * s x k = 0) := by
  intro σ _
  simp only [Fin.forall_fin_two, Fin.sum_univ_two]
  norm_num

/-- witness at the excluded point: with `V = 2`, one non-zero bin of multiplicity 2 and `op² = 8` the realised variance is 4 but the
    reported square is 10 -/
example : maternReported2 ((1 / 2 : ℚ) :: [2 / 2]) ((2 * 2) :: [8]) = 10 ∧ spatialVar (2 : ℚ) [2] [8] = 4 := by
  norm_num [maternReported2, spatialVar, wsum]

/-- non-vacuity of `amp_normalised_power`: two bins with multiplicities 2, 1 and spectrum 3, 5 -/
example : wsum [2, 1] (normPower (3 : ℚ) 2 [2, 1] [3, 5]) = 2 * 2 * (3 * 3) := by
  norm_num [normPower, wsum]

end NiftyVerif.C28
