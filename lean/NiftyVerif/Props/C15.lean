/-
  C15 — JAX conjugate gradients: accurate, and eager and compiled variants agree.
  Property theorems only; helper lemmas live in Lemmas/CgReSim.lean, CgReInv.lean, CgReDescent.lean.
  Model: Model/CgRe.lean = `_cg` / `_static_cg` of nifty/re/conjugate_gradient.py with the three repairs
  fixes/C15_*.diff applied.  All theorems hold for every ordered field `K`, every `K`-module `V` (every dimension),
  every configuration; the algebraic hypotheses on `ip`/`mat` are stated per theorem.
-/
import NiftyVerif.Lemmas.CgReSim
import NiftyVerif.Lemmas.CgReInv
import NiftyVerif.Lemmas.CgReDescent
import Mathlib.Tactic.NormNum
import NiftyVerif.Lemmas.RVec
import NiftyVerif.Lemmas.CgReSqrt

namespace NiftyVerif.C15
set_option linter.unusedSectionVars false
set_option linter.unusedSimpArgs false
set_option linter.unusedTactic false
open NiftyVerif.CgRe NiftyVerif.Iter

variable {K V : Type} [Field K] [LinearOrder K] [IsStrictOrderedRing K] [AddCommGroup V] [Module K V]
variable (c : Cfg K) (ip : V → V → K) (nrm : V → K) (mat : V → V) (j : V) (x0 : Option V)

/-- **Program equivalence.** For every configuration that allows at least one iteration (or whose start already
    solves the system), every operator (no linearity needed), every `ip`: the compiled solver returns exactly the
    eager solver's `(x, info, nit)`, and reports `info = −1` exactly where the eager solver raises `ValueError`.
    Guard: `maxiter = 0` with a non-zero initial residual is excluded — there `_cg` returns `info = 0` without
    iterating while `_static_cg` performs one step (witness `maxiter0_disagree` below). -/
theorem static_eq_eager (hG : 0 < maxiterEff c ∨ (init ip mat j x0).gamma = 0) :
    match cgEager c ip nrm mat j x0 with
    | .ok res => (cgStatic c ip nrm mat j x0).obs = res.obs
    | .error _ => (cgStatic c ip nrm mat j x0).info = -1 :=
  static_sim c ip nrm mat j x0 hG

/-- The compiled `while_loop` is decided (`info ≥ −1`) after at most `max maxiter 1` steps — the model's fuel
    `maxiter + 1` is never exhausted; holds for every configuration including `maxiter = 0`. -/
theorem static_terminates : -1 ≤ (cgStatic c ip nrm mat j x0).info := by
  have := static_decided c ip nrm mat j x0; omega

/-- Whenever the eager solver returns, `info ≥ 0` and `nit ≤ maxiter` (so `info = −1` of the compiled solver
    corresponds exactly to a raised error, by `static_eq_eager`). -/
theorem eager_info_range (res : Res K V) (h : cgEager c ip nrm mat j x0 = .ok res) :
    0 ≤ res.info ∧ res.nit ≤ maxiterEff c := by
  unfold cgEager at h
  simp only at h
  split_ifs at h with hz
  · simp only [Except.ok.injEq] at h; subst h; simp
  · have := eagerLoop_range c ip nrm mat j _ 1 _ (le_refl _) res h
    exact ⟨this.1, by omega⟩

/-- **Residual invariant.** For bilinear `ip` and linear `mat` (no symmetry, no definiteness): the residual variable
    the loop stops with is the true residual `A x − j` of the returned point and `γ` its squared norm — except after
    the first-step negative-curvature fallback, which moves `x` without updating `r`. -/
theorem cg_residual_invariant (hip : Bilin ip) (hm : Linear (K := K) mat) (res : Res K V)
    (h : cgEager c ip nrm mat j x0 = .ok res) (hw : res.why ≠ .negCurvFirst) :
    res.r = mat res.x - j ∧ res.gamma = ip res.r res.r :=
  (cgEager_specA c ip nrm mat j hip hm x0 res h).2.1 hw

/-- **Success is reported only if the criterion is met.** `info = 0` (with `maxiter > 0`) implies, at the *true*
    residual / energy of the returned point: the start already solves the system, or `0 ≤ γ ≤ tiny`, or the residual
    criterion (`‖A x − j‖ < resnorm`, resp. `< max(tol‖j‖, atol)`, and `nit ≥ miniter`), or the energy criterion
    (`E(x_prev) − E(x) < absdelta`, no increase beyond `eps|E|`, `nit ≥ miniter`), or a non-positive-curvature
    direction was met and failure was not requested. -/
theorem cg_reports_success_only_if (hip : Bilin ip) (hm : Linear (K := K) mat) (res : Res K V)
    (h : cgEager c ip nrm mat j x0 = .ok res) (hinfo : res.info = 0) (hmax : 0 < maxiterEff c) :
    (res.nit = 0 ∧ trueGamma ip mat j res.x = 0)
    ∨ (0 ≤ trueGamma ip mat j res.x ∧ trueGamma ip mat j res.x ≤ c.tiny)
    ∨ (resActive c = true ∧ normLt c ip nrm j (mat res.x - j) = true ∧ miniterEff c ≤ res.nit)
    ∨ (miniterEff c ≤ res.nit ∧ ∃ a xp, c.absdelta = some a ∧ quadE ip mat j xp - quadE ip mat j res.x < a
        ∧ ¬ (quadE ip mat j xp - quadE ip mat j res.x < -(c.eps * absK (quadE ip mat j res.x))))
    ∨ (c.raiseNPD = false ∧ ∃ d, ip d (mat d) ≤ 0) := by
  have hs := (cgEager_specA c ip nrm mat j hip hm x0 res h).1
  unfold FinalSpec at hs
  cases hw : res.why <;> rw [hw] at hs <;> simp only at hs
  · exact Or.inl ⟨hs.2.1, hs.2.2⟩
  · exact Or.inr (Or.inr (Or.inr (Or.inr ⟨hs.2.1, hs.2.2.choose, le_of_eq hs.2.2.choose_spec⟩)))
  · exact Or.inr (Or.inr (Or.inr (Or.inr ⟨hs.2.1, hs.2.2.choose, le_of_lt hs.2.2.choose_spec⟩)))
  · exact Or.inr (Or.inr (Or.inr (Or.inr ⟨hs.2.1, hs.2.2.2.choose, le_of_lt hs.2.2.2.choose_spec⟩)))
  · exact Or.inr (Or.inl ⟨hs.2.1, hs.2.2⟩)
  · exact Or.inr (Or.inr (Or.inl ⟨hs.2.1, hs.2.2.1, hs.2.2.2⟩))
  · exfalso; have := hs.1; have := hs.2.1; omega
  · exact Or.inr (Or.inr (Or.inr (Or.inl ⟨hs.2.1, hs.2.2⟩)))
  · exfalso; have := hs.1; omega

/-- **Positive definite systems never fail.** For a symmetric form with `0 ≤ ip a a`, a linear self-adjoint positive
    definite operator, `eps, tiny ≥ 0` and every stopping configuration (including `_raise_nonposdef = True`): the eager
    solver never raises and never stops for curvature or energy reasons — it returns with `info = 0` (then
    `cg_reports_success_only_if` gives the criterion at the true residual) or at the iteration limit (`info = maxiter`);
    by `static_eq_eager` the compiled solver returns the same. -/
theorem spd_never_fails (hip : SymmBilin ip) (hm : Linear (K := K) mat) (hsa : SelfAdj ip mat)
    (hnn : ∀ a, 0 ≤ ip a a) (hpd : ∀ v : V, v ≠ 0 → 0 < ip v (mat v)) (heps : 0 ≤ c.eps) (htiny : 0 ≤ c.tiny) :
    ∃ res, cgEager c ip nrm mat j x0 = .ok res ∧ (res.info = 0 ∨ (res.info = (maxiterEff c : Int) ∧ res.nit = maxiterEff c)) := by
  obtain ⟨res, h, hr⟩ := cgEager_spd c ip nrm mat j hip hm hsa hnn hpd heps htiny x0
  refine ⟨res, h, ?_⟩
  rcases hr with h0 | hw
  · exact Or.inl h0
  · have hs := (cgEager_specA c ip nrm mat j hip.toBilin hm x0 res h).1
    unfold FinalSpec at hs
    rw [hw] at hs
    exact Or.inr hs

/-- **Failure is reported when asked to.** With `_raise_nonposdef = True`: if the first search direction (the initial
    residual `g = A x₀ − j ≠ 0`) has non-positive curvature, the eager solver raises and the compiled solver returns
    `info = −1`; and more generally the eager solver never returns from a non-positive-curvature stop. -/
theorem nonposdef_reports_failure (hraise : c.raiseNPD = true) (hmax : 0 < maxiterEff c) :
    (((init ip mat j x0).gamma ≠ 0 ∧ ip (init ip mat j x0).d (mat (init ip mat j x0).d) ≤ 0) →
        (∃ e, cgEager c ip nrm mat j x0 = .error e) ∧ (cgStatic c ip nrm mat j x0).info = -1)
    ∧ (∀ res, cgEager c ip nrm mat j x0 = .ok res →
        res.why ≠ .zeroCurv ∧ res.why ≠ .negCurvLater ∧ res.why ≠ .negCurvFirst) := by
  constructor
  · rintro ⟨hz, hc⟩
    have he : ∃ e, cgEager c ip nrm mat j x0 = .error e := by
      obtain ⟨m, hm1⟩ : ∃ m, maxiterEff c = m + 1 := ⟨maxiterEff c - 1, by omega⟩
      unfold cgEager
      simp only [hz, if_false, hm1, eagerLoop]
      unfold eagerStep
      simp only []
      rcases lt_or_eq_of_le hc with hlt | heq
      · simp [ne_of_lt hlt, hlt, hraise]
      · simp [heq, hraise]
    refine ⟨he, ?_⟩
    obtain ⟨e, he⟩ := he
    have := static_sim c ip nrm mat j x0 (Or.inl hmax)
    rw [he] at this
    exact this
  · intro res h
    have hstop : ∀ (fuel i : Nat) (s : St K V) res, eagerLoop c ip nrm mat j fuel i s = .ok res →
        res.why ≠ .zeroCurv ∧ res.why ≠ .negCurvLater ∧ res.why ≠ .negCurvFirst := by
      intro fuel
      induction fuel with
      | zero => intro i s res h; simp only [eagerLoop, Except.ok.injEq] at h; subst h; simp
      | succ fuel ih =>
        intro i s res h
        rw [eagerLoop] at h
        unfold eagerStep at h
        simp only [hraise, if_true] at h
        split_ifs at h <;> first
          | (simp only [reduceCtorEq] at h; done)
          | (simp only [Except.ok.injEq] at h; subst h; simp; done)
          | exact ih _ _ _ h
    unfold cgEager at h
    simp only at h
    split_ifs at h with hz
    · simp only [Except.ok.injEq] at h; subst h; simp
    · exact hstop _ _ _ _ h

/-- **Energy not above start**, for *every* self-adjoint operator (positive definite, indefinite or negative
    definite), symmetric bilinear `ip` with `0 ≤ ip a a`, every configuration: whatever the eager solver returns has
    quadratic energy `E(x) = ½⟨A x,x⟩ − ⟨j,x⟩` not above `E(x₀)`; by `static_eq_eager` the same holds for the
    compiled solver's result. -/
theorem nonposdef_energy_not_above_start (hip : SymmBilin ip) (hm : Linear (K := K) mat)
    (hsa : SelfAdj ip mat) (hnn : ∀ a, 0 ≤ ip a a) (res : Res K V) (h : cgEager c ip nrm mat j x0 = .ok res) :
    quadE ip mat j res.x ≤ quadE ip mat j (x0.getD 0) :=
  cgEager_energy c ip nrm mat j hip hm hsa hnn x0 res h

/-- **First step is steepest descent.** If failure is not requested and the very first direction `g = ∇E(x₀) = A x₀ − j`
    has negative curvature, the solver returns `x₀ − t·g` with `t = ⟨g,g⟩ / (−⟨g,A g⟩) > 0`, `info = 0`, `nit = 1`,
    and the energy strictly decreases. (With `static_eq_eager`: the compiled solver returns the same.) -/
theorem first_step_steepest_descent (hip : SymmBilin ip) (hm : Linear (K := K) mat) (hsa : SelfAdj ip mat)
    (hnn : ∀ a, 0 ≤ ip a a) (hraise : c.raiseNPD = false) (hmax : 0 < maxiterEff c)
    (g : V) (hg : g = mat (x0.getD 0) - j) (hg0 : ip g g ≠ 0) (hcurv : ip g (mat g) < 0) :
    ∃ res, cgEager c ip nrm mat j x0 = .ok res ∧ res.x = x0.getD 0 - (ip g g / -ip g (mat g)) • g
      ∧ 0 < ip g g / -ip g (mat g) ∧ res.info = 0 ∧ res.nit = 1
      ∧ quadE ip mat j res.x < quadE ip mat j (x0.getD 0)
      ∧ (cgStatic c ip nrm mat j x0).obs = res.obs := by
  obtain ⟨res, h1, h2, h3, h4, h5, h6⟩ := cgEager_first_step c ip nrm mat j hip hm hsa hnn x0 hraise hmax g hg hg0 hcurv
  refine ⟨res, h1, h2, h3, h4, h5, h6, ?_⟩
  have := static_sim c ip nrm mat j x0 (Or.inl hmax)
  rw [h1] at this
  exact this

/-- **The sqrt-free comparisons of the model are exact over ℝ**: `‖r‖₂ < ρ ⇔ 0 < ρ ∧ ⟨r,r⟩ < ρ²`, and for the residual bound
    `_newton_cg` derives, `n < min(1/2, √m)·m ⇔ 0 < m ∧ 2n < m ∧ n² < m³` (`n = ‖r‖ ≥ 0`). -/
theorem normLt_encodings_exact :
    (∀ g rho : ℝ, 0 ≤ g → (Real.sqrt g < rho ↔ (0 < rho ∧ g < rho * rho)))
    ∧ (∀ n m : ℝ, 0 ≤ n → (n < min (1 / 2) (Real.sqrt m) * m ↔ (0 < m ∧ (1 + 1) * n < m ∧ n * n < m * m * m))) :=
  ⟨norm_two_encoding, resnorm_sqrt_encoding⟩

/-! ### Non-vacuity: a concrete lawful instance (K = V = ℚ, ip = multiplication, A = multiplication by a) -/

section witnesses

def cfgQ (maxiter : Option Nat) (raise : Bool) : Cfg ℚ :=
  { absdelta := none, resnorm := none, tol := 1 / 100000, atol := 0, miniter := none, maxiter := maxiter,
    raiseNPD := raise, normTwo := true, resnormSqrt := none, tiny := 1 / 10 ^ 300, eps := 1 / 10 ^ 15, nreset := 20, size := 1 }

def ipQ (a b : ℚ) : ℚ := a * b

theorem ipQ_symmBilin : SymmBilin ipQ :=
  SymmBilin.of_left (fun a b c => by simp [ipQ]; ring) (fun k a b => by simp [ipQ]; ring)
    (fun a b => by simp [ipQ]; ring)

theorem mulQ_linear (a : ℚ) : Linear (K := ℚ) (fun x : ℚ => a * x) :=
  ⟨fun x y => by ring, fun k x => by simp; ring⟩

theorem mulQ_selfAdj (a : ℚ) : SelfAdj ipQ (fun x : ℚ => a * x) := fun x y => by simp [ipQ]; ring

/-- the hypotheses of `first_step_steepest_descent` are satisfiable: A = −1, j = 1, x₀ = 0 -/
example : ∃ res, cgEager (cfgQ none false) ipQ (fun x : ℚ => |x|) (fun x : ℚ => -1 * x) 1 none = .ok res ∧ res.info = 0 ∧ res.nit = 1 := by
  obtain ⟨res, h1, _, _, h4, h5, _⟩ := first_step_steepest_descent (cfgQ none false) ipQ (fun x : ℚ => |x|) (fun x : ℚ => -1 * x) 1 none
    ipQ_symmBilin (mulQ_linear (-1)) (mulQ_selfAdj (-1)) (fun a => by simp [ipQ]; nlinarith [sq_nonneg a]) rfl
    (by decide) (-1) (by simp) (by simp [ipQ]) (by simp [ipQ])
  exact ⟨res, h1, h4, h5⟩

/-- the guard of `static_eq_eager` holds for the default configuration -/
example : 0 < maxiterEff (cfgQ none true) := by decide

/-- the excluded region of `static_eq_eager` is a real disagreement: `maxiter = 0`, A = 2, j = 1 —
    `_cg` returns `(0, info 0, nit 0)`, `_static_cg` performs one step and returns `(1/2, info 0, nit 1)`
    (replayed on the real code by the harness: corpus/C15/maxiter0.json). -/
theorem maxiter0_disagree :
    (cgEager (cfgQ (some 0) true) ipQ (fun x : ℚ => |x|) (fun x : ℚ => 2 * x) 1 none).toOption.map Res.obs
      = some ⟨0, 0, 0⟩ ∧
    (cgStatic (cfgQ (some 0) true) ipQ (fun x : ℚ => |x|) (fun x : ℚ => 2 * x) 1 none).obs = ⟨1 / 2, 0, 1⟩ := by
  constructor
  · simp [cgEager, init, eagerLoop, maxiterEff, cfgQ, ipQ, Res.obs, Except.toOption]
  · simp [cgStatic, staticInit, init, staticLoop, staticStep, staticInfo, staticInfo1, maxiterEff, miniterEff,
      cfgQ, ipQ, SSt.obs, resActive, normLt, energyOf, half, absK, max0]

end witnesses

/-! ### The instance the driver runs (`K = ℚ`, `V = RVec n`, `ip = RVec.dot`, `mat = RVec.matVec m`) is lawful -/

section driver
open NiftyVerif.RVec

/-- the module operations used by the theorems reduce to the model's point-wise array operations -/
example {n : Nat} (a b : RVec n) : (@HAdd.hAdd _ _ _ (@instHAdd _ AddSemigroup.toAdd) a b) = ⟨Vector.zipWith (· + ·) a.v b.v⟩ := rfl
example {n : Nat} (c : ℚ) (a : RVec n) : (@HSMul.hSMul _ _ _ (@instHSMul _ _ Module.toDistribMulAction.toMulAction.toSMul) c a) = ⟨a.v.map (c * ·)⟩ := rfl

/-- residual invariant and success criterion for the driver instance: hypotheses discharged, any dense matrix -/
theorem driver_residual_invariant {n : Nat} (c : Cfg ℚ) (m : Mat n n) (j : RVec n) (x0 : Option (RVec n))
    (res : Res ℚ (RVec n)) (h : cgEager c RVec.dot RVec.norm1 (RVec.matVec m) j x0 = .ok res) (hw : res.why ≠ .negCurvFirst) :
    res.r = RVec.matVec m res.x - j ∧ res.gamma = RVec.dot res.r res.r :=
  cg_residual_invariant c RVec.dot RVec.norm1 (RVec.matVec m) j x0 dot_symmBilin.toBilin (matVec_linear m) res h hw

/-- program equivalence for the driver instance -/
theorem driver_static_eq_eager {n : Nat} (c : Cfg ℚ) (m : Mat n n) (j : RVec n) (x0 : Option (RVec n))
    (hG : 0 < maxiterEff c) (res : Res ℚ (RVec n)) (h : cgEager c RVec.dot RVec.norm1 (RVec.matVec m) j x0 = .ok res) :
    (cgStatic c RVec.dot RVec.norm1 (RVec.matVec m) j x0).obs = res.obs := by
  have hs := static_eq_eager c RVec.dot RVec.norm1 (RVec.matVec m) j x0 (Or.inl hG)
  have h' : cgEager c RVec.dot RVec.norm1 (RVec.matVec m) j x0 = .ok res := h
  rw [h'] at hs
  exact hs

end driver

end NiftyVerif.C15
