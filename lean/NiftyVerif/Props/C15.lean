import NiftyVerif.Model.CgRe
namespace NiftyVerif.C15
end NiftyVerif.C15
