/-
  C18 — Variational samples have the right distribution.

  MGVI residual (both implementations): `r = D⁻¹ (Jᵀ S ξ₁ + ξ₂)`, `D = Jᵀ N⁻¹ J + 1`, `S Sᵀ = N⁻¹`,
  `ξ = (ξ₁, ξ₂)` standard normal (DESIGN §2.5: covariance of `A ξ` is `A Aᵀ`).
  `J` is the Jacobian of the forward model at the expansion point — an arbitrary matrix here.
-/
import NiftyVerif.Lemmas.Wiener
import NiftyVerif.Lemmas.Kl
import NiftyVerif.Model.Vi
import Mathlib.Data.Matrix.ColumnRowPartitioned
import Mathlib.LinearAlgebra.Matrix.DotProduct
import Mathlib.Algebra.Module.Basic
import Mathlib.Tactic.Abel

namespace NiftyVerif.C18
open Matrix NiftyVerif.Wiener

variable {m n : Type} [Fintype m] [Fintype n] [DecidableEq m] [DecidableEq n]

/-- the sampler matrix `A = D⁻¹ [Jᵀ S | 1]` acting on the stacked excitations `(ξ₁, ξ₂)` -/
noncomputable def samplerMatrix (J : Matrix m n ℝ) (N S : Matrix m m ℝ) : Matrix n (m ⊕ n) ℝ :=
  (D J N)⁻¹ * fromCols (Jᵀ * S) 1

/-- **mgvi_cov**: `A Aᵀ = (Jᵀ N⁻¹ J + 1)⁻¹` — the residuals have the inverse posterior metric as covariance, for every
    Jacobian `J`, every positive definite `N` and every square root `S Sᵀ = N⁻¹` -/
theorem mgvi_cov (J : Matrix m n ℝ) {N : Matrix m m ℝ} (hN : N.PosDef) (S : Matrix m m ℝ) (hS : S * Sᵀ = N⁻¹) :
    samplerMatrix J N S * (samplerMatrix J N S)ᵀ = (D J N)⁻¹ := by
  have hD := det_isUnit_of_posDef (D_posDef J hN)
  have hDs : ((D J N)⁻¹)ᵀ = (D J N)⁻¹ := by rw [transpose_nonsing_inv, D_symm J hN]
  unfold samplerMatrix
  rw [transpose_mul, transpose_fromCols, hDs, Matrix.mul_assoc, ← Matrix.mul_assoc (fromCols _ _),
    fromCols_mul_fromRows, transpose_mul, transpose_transpose, transpose_one, Matrix.mul_one,
    Matrix.mul_assoc Jᵀ S, ← Matrix.mul_assoc S, hS]
  have : Jᵀ * (N⁻¹ * J) + 1 = D J N := by unfold D; rw [Matrix.mul_assoc]
  rw [this, ← Matrix.mul_assoc, Matrix.nonsing_inv_mul _ hD, Matrix.one_mul]

/-- the two excitation blocks contribute `D⁻¹ Jᵀ N⁻¹ J D⁻¹` (likelihood) and `D⁻¹ D⁻¹` (prior) -/
theorem mgvi_cov_split (J : Matrix m n ℝ) {N : Matrix m m ℝ} (hN : N.PosDef) (S : Matrix m m ℝ) (_hS : S * Sᵀ = N⁻¹) :
    (D J N)⁻¹ * (Jᵀ * N⁻¹ * J) * (D J N)⁻¹ + (D J N)⁻¹ * (D J N)⁻¹ = (D J N)⁻¹ := by
  have hD := det_isUnit_of_posDef (D_posDef J hN)
  have : (D J N)⁻¹ * (Jᵀ * N⁻¹ * J) * (D J N)⁻¹ + (D J N)⁻¹ * (D J N)⁻¹
      = (D J N)⁻¹ * (D J N) * (D J N)⁻¹ := by
    unfold D; simp only [Matrix.mul_add, Matrix.add_mul, Matrix.mul_one]
  rw [this, Matrix.nonsing_inv_mul _ hD, Matrix.one_mul]

/-! ### mirroring -/
section mirror
open NiftyVerif.Vi
variable {V : Type} [AddCommGroup V]

/-- **mirror_exact_negative**: `concatenate_zip(s, −s)` holds `s_i` at `2i` and exactly `−s_i` at `2i+1` -/
theorem mirror_exact_negative (xs : List V) (i : Nat) (hi : i < xs.length) :
    (mirror Neg.neg xs)[2 * i]? = some xs[i] ∧ (mirror Neg.neg xs)[2 * i + 1]? = some (-xs[i]) := by
  induction xs generalizing i with
  | nil => simp at hi
  | cons x xs ih =>
    cases i with
    | zero => simp [mirror]
    | succ i =>
      have := ih i (by simpa using hi)
      simp only [mirror, List.flatMap_cons] at this ⊢
      have e1 : 2 * (i + 1) = 2 * i + 2 := by ring
      have e2 : 2 * (i + 1) + 1 = 2 * i + 1 + 2 := by ring
      refine ⟨?_, ?_⟩
      · rw [e1]; simpa using this.1
      · rw [e2]; simpa using this.2

theorem mirror_length (xs : List V) : (mirror Neg.neg xs).length = 2 * xs.length := by
  induction xs with
  | nil => rfl
  | cons x xs ih => simp only [mirror, List.flatMap_cons] at ih ⊢; simp [ih]; ring

/-- **mirror_mean_is_expansion_point**: the samples `pos ± r_i` sum to `(2K)·pos` exactly, so their average is `pos` -/
theorem mirror_mean_is_expansion_point (pos : V) (rs : List V) :
    ((mirror Neg.neg rs).map (fun r => pos + r)).sum = (2 * rs.length) • pos := by
  induction rs with
  | nil => simp [mirror]
  | cons r rs ih =>
    simp only [mirror, List.flatMap_cons, List.map_append, List.sum_append] at ih ⊢
    rw [ih]
    simp only [List.map_cons, List.map_nil, List.sum_cons, List.sum_nil, List.length_cons]
    have : 2 * (rs.length + 1) = 2 * rs.length + 2 := by ring
    rw [this, add_smul, two_smul]
    abel

end mirror

/-! ### point estimates -/

/-- **point_estimate_zero_rows**: `_process_point_estimate(…, insert=True)` re-inserts zeros at the point-estimated
    leaves: whatever the liquid residual is, the frozen leaves of the full residual are exactly the zero fill -/
theorem point_estimate_zero_rows {α : Type} (mask : List Bool) (liquid zeros full : List α)
    (h : Kl.insert mask liquid zeros = some full) (hz : zeros.length = Kl.countTrue mask)
    (hl : liquid.length + Kl.countTrue mask = mask.length) :
    Kl.select mask full = zeros ∧ Kl.remove mask full = liquid :=
  ⟨Kl.select_insert mask liquid zeros full h hz, Kl.remove_insert mask liquid zeros full h hl⟩

/-! ### geoVI on linear models -/

/-- the geoVI residual objective for a linear model: `g(x) = (x − e) + Jᵀ N⁻¹ J (x − e) = D (x − e)`,
    objective `½ ‖ms − g(x)‖²` with `ms` the (non-inverted) metric sample -/
noncomputable def geoviObjective (J : Matrix m n ℝ) (N : Matrix m m ℝ) (e ms x : n → ℝ) : ℝ :=
  (1 / 2) * ((ms - D J N *ᵥ (x - e)) ⬝ᵥ (ms - D J N *ᵥ (x - e)))

/-- **geovi_linear_fixed_point**: for linear models the linear sample `e + D⁻¹ ms` is the unique zero — hence the unique
    minimiser — of the non-linear residual objective: the geoVI update leaves linear samples unchanged -/
theorem geovi_linear_fixed_point (J : Matrix m n ℝ) {N : Matrix m m ℝ} (hN : N.PosDef) (e ms : n → ℝ) :
    geoviObjective J N e ms (e + (D J N)⁻¹ *ᵥ ms) = 0
    ∧ (∀ x, 0 ≤ geoviObjective J N e ms x)
    ∧ (∀ x, geoviObjective J N e ms x = 0 → x = e + (D J N)⁻¹ *ᵥ ms) := by
  have hD := det_isUnit_of_posDef (D_posDef J hN)
  refine ⟨?_, ?_, ?_⟩
  · unfold geoviObjective
    rw [add_sub_cancel_left, mulVec_mulVec, Matrix.mul_nonsing_inv _ hD, one_mulVec, sub_self]
    simp
  · intro x
    unfold geoviObjective
    have : 0 ≤ (ms - D J N *ᵥ (x - e)) ⬝ᵥ (ms - D J N *ᵥ (x - e)) :=
      Finset.sum_nonneg fun i _ => mul_self_nonneg _
    linarith
  · intro x hx
    unfold geoviObjective at hx
    have h0 : (ms - D J N *ᵥ (x - e)) ⬝ᵥ (ms - D J N *ᵥ (x - e)) = 0 := by linarith
    have h1 : ms - D J N *ᵥ (x - e) = 0 := dotProduct_self_eq_zero.mp h0
    have h2 : D J N *ᵥ (x - e) = ms := (sub_eq_zero.mp h1).symm
    have h3 : x - e = (D J N)⁻¹ *ᵥ ms := by
      rw [← h2, mulVec_mulVec, Matrix.nonsing_inv_mul _ hD, one_mulVec]
    rw [← h3]; abel

/-! ### non-vacuity -/
example : Vi.mirror (Neg.neg) [(1 : ℤ), 5] = [1, -1, 5, -5] := by decide
example : Kl.insert [false, true, false] [(1 : ℤ), 3] [0] = some [1, 0, 3] := by decide

end NiftyVerif.C18
