/-
  C14 — Classic conjugate gradient solves positive definite systems.
  Property theorems only; helper lemmas are in Lemmas/Controllers.lean, Lemmas/CgClassic.lean, Lemmas/CgClassicIE.lean.
  Obligations are listed in harness/props/c14.py.

  Models (Model/Controllers.lean, Model/CgClassic.lean) transcribe nifty/cl/minimization/{iteration_controllers,
  quadratic_energy,conjugate_gradient}.py and nifty/cl/operators/inversion_enabler.py.  Every theorem below holds for an
  arbitrary ordered field `K` of scalars, an arbitrary `K`-module `V`, an arbitrary linear operator `A : V → V` and an
  arbitrary symmetric bilinear form `ip` (the code's `x.s_vdot(y).real`), hence for every dimension, every matrix and
  — through the doubled real coordinates — every complex Hermitian system.
-/
import NiftyVerif.Lemmas.CgClassic
import NiftyVerif.Lemmas.CgClassicIE
import NiftyVerif.Lemmas.CgClassicExample
import NiftyVerif.Lemmas.ControllersSqrt
import NiftyVerif.Lemmas.CgClassicHist
import NiftyVerif.Lemmas.CgClassicExact
import NiftyVerif.Lemmas.CgClassicLast
import NiftyVerif.Lemmas.CgClassicOptimal
import NiftyVerif.Lemmas.CgClassicKrylov
import NiftyVerif.Lemmas.CgClassicError
import NiftyVerif.Lemmas.CgClassicInstances
import Mathlib.LinearAlgebra.Dimension.Constructions

set_option linter.unusedSectionVars false

namespace NiftyVerif.C14
open NiftyVerif.Ctrl NiftyVerif.CgClassic

variable {K V τ : Type} [Field K] [LinearOrder K] [IsStrictOrderedRing K] [AddCommGroup V] [Module K V]

/-! ## QuadraticEnergy: value and gradient are consistent with the position -/

/-- `energy.at_with_grad(x, g)` carries the gradient `A x − b` and the value `½⟨x,Ax⟩ − ⟨b,x⟩` of its position
    exactly when the gradient it was handed is the true one. -/
theorem qe_consistent (S : Sys V K) (x g : V) :
    (QE.atWithGrad S x g).Consistent S ↔ g = trueGrad S x :=
  atWithGrad_consistent_iff S x g


/-- non-vacuity: on `A = [[2,1],[1,3]]`, `b = (1,2)` the gradient at `x = (1,1)` is `(2,2)`; handing `at_with_grad` this
    gradient gives a consistent object, handing it `(0,0)` does not -/
example : (QE.atWithGrad exSys (1, 1) (2, 2)).Consistent exSys ∧ ¬ (QE.atWithGrad exSys (1, 1) (0, 0)).Consistent exSys := by
  constructor
  · rw [qe_consistent]; simp [trueGrad, exSys]; norm_num
  · rw [qe_consistent]; simp [trueGrad, exSys]

/-- `energy.at(x)` (and the constructor without `_grad`) is always consistent. -/
theorem qe_at_consistent (S : Sys V K) (x : V) :
    (QE.at S x).grad = trueGrad S x ∧ (QE.at S x).value = trueValue S x :=
  at_consistent S x


example : (QE.at exSys (1, 1)).grad = (2, 2) ∧ (QE.at exSys (1, 1)).value = 1 / 2 := by
  rw [(qe_at_consistent exSys (1, 1)).1, (qe_at_consistent exSys (1, 1)).2]
  simp [trueGrad, trueValue, exSys]; norm_num

/-- Every energy object produced by `ConjugateGradient.__call__` — the returned one, every intermediate one, every one
    shown to the controller — carries `grad = A x − b` for its own position `x`.  Needs only linearity of `A`
    (no symmetry, no definiteness), any preconditioner, any controller, any `nreset`. -/
theorem cg_grad_invariant (S : Sys V K) (hA : S.Linear) (c : Ctrl K τ) (nreset : Int) (fuel : Nat) (E : QE V K)
    (hE : E.Consistent S) :
    (cg S c nreset fuel E).energy.grad = trueGrad S (cg S c nreset fuel E).energy.pos ∧
    (∀ E' ∈ (cg S c nreset fuel E).made, E'.grad = trueGrad S E'.pos) ∧
    (∀ E' ∈ (cg S c nreset fuel E).checked, E'.grad = trueGrad S E'.pos) := by
  have h := cg_basic S hA c nreset fuel E hE
  exact ⟨h.energy.1, fun E' h' => (h.made E' h').1, fun E' h' => (h.checkedC E' h').1⟩


/-- non-vacuity (concrete evaluation, one instance): the hypotheses hold for `exSys`, and the run has two iterations -/
example : exSys.Linear ∧ (QE.at exSys (0, 0)).Consistent exSys ∧
    (cg exSys (gradNorm (some (1 / 1000)) none 1 (some 10)) 20 100 (QE.at exSys (0, 0))).made.length = 2 :=
  ⟨exSys_spd.lin, at_consistent _ _, by decide +kernel⟩

/-- ... and the value `½⟨x,Ax⟩ − ⟨b,x⟩` of its own position. -/
theorem cg_value_correct (S : Sys V K) (hA : S.Linear) (c : Ctrl K τ) (nreset : Int) (fuel : Nat) (E : QE V K)
    (hE : E.Consistent S) :
    (cg S c nreset fuel E).energy.value = trueValue S (cg S c nreset fuel E).energy.pos ∧
    (∀ E' ∈ (cg S c nreset fuel E).made, E'.value = trueValue S E'.pos) ∧
    (∀ E' ∈ (cg S c nreset fuel E).checked, E'.value = trueValue S E'.pos) := by
  have h := cg_basic S hA c nreset fuel E hE
  exact ⟨h.energy.2, fun E' h' => (h.made E' h').2, fun E' h' => (h.checkedC E' h').2⟩

/-! ## the controllers -/

/-- A controller that said CONTINUE to everything so far and now says CONVERGED has either reached its iteration
    limit or its criterion holds **in this very call** (`convergence_level ≥ 1`): the counter cannot reach the level
    on a call whose criterion fails. -/
theorem ctrl_converged_criterion (c : Ctrl K τ) (hl : 1 ≤ c.level) (o0 : Obs K) (os : List (Obs K)) (o : Obs K)
    (s s' : St τ) (hprev : c.feed (o0 :: os) = some (s, .continue_))
    (hlast : c.check s o = some (s', .converged)) :
    (∃ l, c.limit = some l ∧ l ≤ (os.length : Int) + 1) ∨
    ∃ aux, c.crit s.aux ((os.length : Int) + 1) o = some (true, aux) := by
  have hi := (feed_inv c o0 os s _ hprev).1
  have hc := feed_continue_ccount c _ s hprev
  have := check_converged_crit hl hc hlast
  rwa [hi] at this

/-- the same for the verdict of `start` -/
theorem ctrl_start_converged_criterion (c : Ctrl K τ) (hl : 1 ≤ c.level) (o : Obs K) (s' : St τ)
    (h : c.start o = some (s', .converged)) :
    (∃ l, c.limit = some l ∧ l ≤ 0) ∨ ∃ aux, c.crit (c.init o) 0 o = some (true, aux) := by
  unfold Ctrl.start at h
  have := check_converged_crit (s := { itcount := -1, ccount := 0, aux := c.init o }) hl (by show (0 : Int) < c.level; omega) h
  simpa using this

/-- `convergence_level`: a history that ends in CONVERGED has either reached the iteration limit or contains at least
    `convergence_level` calls in which the criterion held (the counter goes up only on such calls). -/
theorem ctrl_count_sound (c : Ctrl K τ) (l : List (Obs K)) (s : St τ) (h : c.feed l = some (s, .converged)) :
    (∃ lim, c.limit = some lim ∧ lim ≤ (l.length : Int) - 1) ∨ c.level ≤ (incs c l : Int) := by
  have hcc := feed_ccount_le c l s _ h
  have hv := feed_verdict c l s _ h
  cases l with
  | nil => simp [Ctrl.feed] at h
  | cons o0 os =>
    have hi := (feed_inv c o0 os s _ h).1
    rcases verdict_converged hv.symm with ⟨lim, h1, h2⟩ | h2
    · left; refine ⟨lim, h1, ?_⟩; rw [hi] at h2; simp; omega
    · right; omega


/-- non-vacuity (concrete evaluation): AbsDeltaEnergyController(deltaE = 1/10, convergence_level = 2) on the energies
    5, 4, 3.99, 3.98: CONTINUE, CONTINUE, CONTINUE (counter 1), CONVERGED (counter 2) -/
example : ((absDeltaE (1 / 10 : ℚ) 2 none).feed
      [⟨1, 1, 5⟩, ⟨1, 1, 4⟩, ⟨1, 1, 399 / 100⟩]).map (fun p => (p.1.ccount, p.2)) = some (1, .continue_) ∧
    ((absDeltaE (1 / 10 : ℚ) 2 none).feed
      [⟨1, 1, 5⟩, ⟨1, 1, 4⟩, ⟨1, 1, 399 / 100⟩, ⟨1, 1, 398 / 100⟩]).map (fun p => (p.1.ccount, p.2))
      = some (2, .converged) := by
  decide +kernel

/-- The model compares squared norms; over the reals these are exactly the code's comparisons of norms:
    `‖g‖ ≤ tol_abs`, `‖g‖ ≤ tol_rel·‖g₀‖` (GradientNormController) and `std < deltaE` (Stochastic…Controller). -/
theorem norm_comparisons_sqrt_free (gnsq t ref : ℝ) (href : 0 ≤ ref) :
    (normLe gnsq t = true ↔ Real.sqrt gnsq ≤ t) ∧
    (normLeRel gnsq t ref = true ↔ Real.sqrt gnsq ≤ t * Real.sqrt ref) ∧
    (Real.sqrt gnsq < t ↔ 0 < t ∧ gnsq < t * t) :=
  ⟨normLe_iff gnsq t, normLeRel_iff gnsq t ref href, sqrt_lt_iff_sq gnsq t⟩

/-- non-vacuity: `‖g‖² = 9`, `tol = 3` -/
example : normLe (9 : ℝ) 3 = true ∧ normLeRel (9 : ℝ) (1 / 2) 36 = true := by
  constructor
  · rw [normLe_iff]; rw [show (9 : ℝ) = 3 * 3 by norm_num, Real.sqrt_mul_self (by norm_num)]
  · simp [normLeRel]; norm_num

/-- GradientNormController: CONVERGED (before the limit) means `‖g‖ ≤ tol_abs` or `‖g‖ ≤ tol_rel·‖g₀‖` where `g₀` is
    the gradient **of the start energy** — the relative tolerance is fixed by `start` and not recomputed.
    (`gnsq` is the squared norm; `0 ≤ t ∧ gnsq ≤ t²` is `sqrt gnsq ≤ t`, see `Ctrl.sqrt_le_iff_sq`.) -/
theorem gradnorm_ctrl_sound (ta tr : Option K) (level : Int) (limit : Option Int) (hl : 1 ≤ level)
    (o0 : Obs K) (os : List (Obs K)) (o : Obs K) (s s' : St K)
    (hprev : (gradNorm ta tr level limit).feed (o0 :: os) = some (s, .continue_))
    (hlast : (gradNorm ta tr level limit).check s o = some (s', .converged)) :
    (∃ l, limit = some l ∧ l ≤ (os.length : Int) + 1) ∨
    (∃ t, ta = some t ∧ 0 ≤ t ∧ o.gnsq ≤ t * t) ∨
    (∃ t, tr = some t ∧ (0 ≤ t ∨ o0.gnsq = 0) ∧ o.gnsq ≤ t * t * o0.gnsq) := by
  rcases ctrl_converged_criterion _ hl o0 os o s s' hprev hlast with h | ⟨aux, h⟩
  · exact Or.inl h
  · right
    have haux := feed_aux_const _ (gradNorm_aux_const ta tr level limit) o0 os s _ hprev
    rw [haux] at h
    exact gradNorm_crit_true h


/-- non-vacuity (concrete evaluation): tol_rel = 1/4 refers to the start norm 4 (squared 16): norm 2 → CONTINUE,
    norm 1 → CONVERGED -/
example : ((gradNorm (none : Option ℚ) (some (1 / 4)) 1 none).feed [⟨16, 16, 0⟩, ⟨4, 4, 0⟩]).map (·.2) = some .continue_ ∧
    ((gradNorm (none : Option ℚ) (some (1 / 4)) 1 none).feed [⟨16, 16, 0⟩, ⟨4, 4, 0⟩, ⟨1, 1, 0⟩]).map (·.2)
      = some .converged := by
  decide +kernel

/-- GradInfNormController: CONVERGED (before the limit) means `‖g‖∞ ≤ tol·|E|` with `E ≠ 0`. -/
theorem gradinf_ctrl_sound (tol : Option K) (level : Int) (limit : Option Int) (hl : 1 ≤ level)
    (o0 : Obs K) (os : List (Obs K)) (o : Obs K) (s s' : St Unit)
    (hprev : (gradInf tol level limit).feed (o0 :: os) = some (s, .continue_))
    (hlast : (gradInf tol level limit).check s o = some (s', .converged)) :
    (∃ l, limit = some l ∧ l ≤ (os.length : Int) + 1) ∨
    (∃ t, tol = some t ∧ o.value ≠ 0 ∧ 0 ≤ t ∧ o.ginfsq ≤ t * t * (o.value * o.value)) := by
  rcases ctrl_converged_criterion _ hl o0 os o s s' hprev hlast with h | ⟨aux, h⟩
  · exact Or.inl h
  · exact Or.inr (gradInf_crit_true h)

/-- DeltaEnergyController: CONVERGED (before the limit) means `|E_prev − E| < tol·max(|E_prev|,|E|)` where `E_prev` is
    the energy of the **previous** call. -/
theorem deltaE_ctrl_sound (tol : K) (level : Int) (limit : Option Int) (hl : 1 ≤ level)
    (o0 : Obs K) (os : List (Obs K)) (o : Obs K) (s s' : St K)
    (hprev : (deltaE tol level limit).feed (o0 :: os) = some (s, .continue_))
    (hlast : (deltaE tol level limit).check s o = some (s', .converged)) :
    (∃ l, limit = some l ∧ l ≤ (os.length : Int) + 1) ∨
    (0 < max |((o0 :: os).getLast (by simp)).value| |o.value| ∧
     |((o0 :: os).getLast (by simp)).value - o.value| <
       tol * max |((o0 :: os).getLast (by simp)).value| |o.value|) := by
  rcases ctrl_converged_criterion _ hl o0 os o s s' hprev hlast with h | ⟨aux, h⟩
  · exact Or.inl h
  · right
    have haux := feed_aux_last _ (fun o => o.value) (deltaE_aux tol level limit) o0 os s _ hprev
    rw [haux] at h
    exact (deltaE_crit_true h).2

/-- AbsDeltaEnergyController: CONVERGED (before the limit) means `|E_prev − E| < deltaE`. -/
theorem absdeltaE_ctrl_sound (dE : K) (level : Int) (limit : Option Int) (hl : 1 ≤ level)
    (o0 : Obs K) (os : List (Obs K)) (o : Obs K) (s s' : St K)
    (hprev : (absDeltaE dE level limit).feed (o0 :: os) = some (s, .continue_))
    (hlast : (absDeltaE dE level limit).check s o = some (s', .converged)) :
    (∃ l, limit = some l ∧ l ≤ (os.length : Int) + 1) ∨
    |((o0 :: os).getLast (by simp)).value - o.value| < dE := by
  rcases ctrl_converged_criterion _ hl o0 os o s s' hprev hlast with h | ⟨aux, h⟩
  · exact Or.inl h
  · right
    have haux := feed_aux_last _ (fun o => o.value) (absDeltaE_aux dE level limit) o0 os s _ hprev
    rw [haux] at h
    exact (absDeltaE_crit_true h).2

/-- StochasticAbsDeltaEnergyController: CONVERGED (before the limit) means that the population variance of the
    energies of the last `memory_length` calls (this one included) is below `deltaE²`, with `deltaE > 0`
    (`np.std(memory) < deltaE`).  `lastN memLen vals` are the last `memLen` elements of the energy history. -/
theorem stochastic_ctrl_sound (dE : K) (level : Int) (limit : Option Int) (memLen : Int) (hl : 1 ≤ level)
    (o0 : Obs K) (os : List (Obs K)) (o : Obs K) (s s' : St (List K))
    (hprev : (stochastic dE level limit memLen).feed (o0 :: os) = some (s, .continue_))
    (hlast : (stochastic dE level limit memLen).check s o = some (s', .converged)) :
    (∃ l, limit = some l ∧ l ≤ (os.length : Int) + 1) ∨
    (lastN memLen (((o0 :: os) ++ [o]).map (·.value)) ≠ [] ∧ 0 < dE ∧
     varK (lastN memLen (((o0 :: os) ++ [o]).map (·.value))) < dE * dE) := by
  rcases ctrl_converged_criterion _ hl o0 os o s s' hprev hlast with h | ⟨aux, h⟩
  · exact Or.inl h
  · right
    have haux := stochastic_feed_aux dE level limit memLen o0 os s _ hprev
    have := (stochastic_crit_true h).2
    have e : ((o0 :: os) ++ [o]).map (·.value) = (o0 :: os).map (·.value) ++ [o.value] := by simp
    rw [haux, stochMem_lastN, ← e] at this
    exact this


/-- non-vacuity (concrete evaluation): memory_length 2, deltaE 1/2: energies 5, 4, 4 → CONVERGED at the third call -/
example : ((stochastic (1 / 2 : ℚ) 1 none 2).feed [⟨1, 1, 5⟩, ⟨1, 1, 4⟩]).map (·.2) = some .continue_ ∧
    ((stochastic (1 / 2 : ℚ) 1 none 2).feed [⟨1, 1, 5⟩, ⟨1, 1, 4⟩, ⟨1, 1, 4⟩]).map (fun p => (p.1.aux, p.2))
      = some ([4, 4], .converged) := by
  decide +kernel

/-! ## the CG loop and its verdict -/

/-- When `ConjugateGradient` returns through the controller, the status it returns is exactly the verdict of
    `controller.check` on the returned energy, after `start` on the start energy and `check` on every energy in
    between (each consistent with its position) all said CONTINUE. -/
theorem cg_controller_replay (S : Sys V K) (hA : S.Linear) (c : Ctrl K τ) (nreset : Int) (fuel : Nat) (E : QE V K)
    (hE : E.Consistent S) (h : (cg S c nreset fuel E).reason = .ctrlCheck) :
    ∃ os s0 s1, (cg S c nreset fuel E).checked = E :: (os ++ [(cg S c nreset fuel E).energy]) ∧
      (∀ E' ∈ os, E'.Consistent S) ∧
      c.feed ((E :: os).map (obs S)) = some (s0, .continue_) ∧
      c.check s0 (obs S (cg S c nreset fuel E).energy) = some (s1, (cg S c nreset fuel E).status) ∧
      (cg S c nreset fuel E).ctrl = some s1 := by
  have hp := cg_basic S hA c nreset fuel E hE
  obtain ⟨os, s0, s1, h1, h2, h3, h4⟩ := hp.chk h
  refine ⟨os, s0, s1, h1, ?_, h2, h3, h4⟩
  intro E' hE'
  apply hp.checkedC
  rw [h1]; simp [hE']

/-- **CONVERGED is reported only** (a) by `controller.start` on the start energy, or (b) when `⟨r, P r⟩ = 0` for the
    true residual `r = A x − b` of the returned position (so `r = 0` for a definite preconditioner), or (c) by
    `controller.check` on the returned energy — whose gradient and value are the true ones — after a history of
    CONTINUEs.  What (a)/(c) imply for each controller class is `*_ctrl_sound` above. -/
theorem cg_verdict_sound (S : Sys V K) (hA : S.Linear) (c : Ctrl K τ) (nreset : Int) (fuel : Nat) (E : QE V K)
    (hE : E.Consistent S) (h : (cg S c nreset fuel E).status = .converged) :
    ((cg S c nreset fuel E).energy = E ∧ ∃ s1, c.start (obs S E) = some (s1, .converged)) ∨
    S.ip (trueGrad S (cg S c nreset fuel E).energy.pos) (precond S (trueGrad S (cg S c nreset fuel E).energy.pos)) = 0 ∨
    ∃ os s0 s1, (∀ E' ∈ os, E'.Consistent S) ∧ (cg S c nreset fuel E).energy.Consistent S ∧
      c.feed ((E :: os).map (obs S)) = some (s0, .continue_) ∧
      c.check s0 (obs S (cg S c nreset fuel E).energy) = some (s1, .converged) := by
  have hp := cg_basic S hA c nreset fuel E hE
  rcases hp.conv h with h1 | h1 | h1 | h1
  · left
    obtain ⟨he, s1, hs, _⟩ := hp.start h1
    rw [h] at hs
    exact ⟨he, s1, hs⟩
  · right; left; rw [← hp.energy.1]; exact hp.gz (Or.inl h1)
  · right; left; rw [← hp.energy.1]; exact hp.gz (Or.inr h1)
  · right; right
    obtain ⟨os, s0, s1, _, h3, h4, h5, _⟩ := cg_controller_replay S hA c nreset fuel E hE h1
    rw [h] at h5
    exact ⟨os, s0, s1, h3, hp.energy, h4, h5⟩

/-- End to end for `GradientNormController(tol_abs, tol_rel, convergence_level ≥ 1, iteration_limit)` and a definite
    preconditioner: if CG reports CONVERGED at position `x` then the **true** residual `g = A x − b` satisfies
    `g = 0`, or the iteration limit was reached, or `‖g‖ ≤ tol_abs`, or `‖g‖ ≤ tol_rel·‖A x₀ − b‖`. -/
theorem cg_gradnorm_sound (S : Sys V K) (hA : S.Linear) (hP : ∀ v, S.ip v (precond S v) = 0 → v = 0)
    (ta tr : Option K) (level : Int) (limit : Option Int) (hl : 1 ≤ level) (nreset : Int) (fuel : Nat)
    (E : QE V K) (hE : E.Consistent S)
    (h : (cg S (gradNorm ta tr level limit) nreset fuel E).status = .converged) :
    let x := (cg S (gradNorm ta tr level limit) nreset fuel E).energy.pos
    let g := trueGrad S x
    let g0 := trueGrad S E.pos
    g = 0 ∨
    (∃ l s1, limit = some l ∧ (cg S (gradNorm ta tr level limit) nreset fuel E).ctrl = some s1 ∧ l ≤ s1.itcount) ∨
    (∃ t, ta = some t ∧ 0 ≤ t ∧ S.ip g g ≤ t * t) ∨
    (∃ t, tr = some t ∧ (0 ≤ t ∨ S.ip g0 g0 = 0) ∧ S.ip g g ≤ t * t * S.ip g0 g0) := by
  intro x g g0
  have hp := cg_basic S hA (gradNorm ta tr level limit) nreset fuel E hE
  have hg : (cg S (gradNorm ta tr level limit) nreset fuel E).energy.grad = g := hp.energy.1
  rcases hp.conv h with h1 | h1 | h1 | h1
  · -- verdict of `start`
    obtain ⟨he, s1, hs, hc⟩ := hp.start h1
    rw [h] at hs
    have hx : g = g0 := by simp only [g, g0, x, he]
    rcases ctrl_start_converged_criterion _ hl _ _ hs with ⟨l, hl1, hl2⟩ | ⟨aux, hcrit⟩
    · right; left
      exact ⟨l, s1, hl1, hc, by rw [(start_inv _ _ _ _ hs).1]; exact hl2⟩
    · right; right
      have := gradNorm_crit_true hcrit
      simp only [gradNorm, obs, hE.1] at this
      rw [hx]
      exact this
  · left; exact hP _ (by rw [← hg]; exact hp.gz (Or.inl h1))
  · left; exact hP _ (by rw [← hg]; exact hp.gz (Or.inr h1))
  · obtain ⟨os, s0, s1, _, _, h4, h5, h6⟩ := cg_controller_replay S hA _ nreset fuel E hE h1
    rw [h] at h5
    have := gradnorm_ctrl_sound ta tr level limit hl (obs S E) (os.map (obs S)) _ s0 s1 (by simpa using h4) h5
    rcases this with ⟨l, hl1, hl2⟩ | h7
    · right; left
      refine ⟨l, s1, hl1, h6, ?_⟩
      have hi := (feed_inv _ _ _ _ _ (show (gradNorm ta tr level limit).feed (obs S E :: os.map (obs S)) = _ by
        simpa using h4)).1
      rw [check_itcount h5, hi]; simpa using hl2
    · right; right
      simp only [obs, hg, hE.1] at h7
      exact h7


/-- non-vacuity (concrete evaluation, one instance): all hypotheses of `cg_gradnorm_sound` hold for `exSys` with
    `GradientNormController(tol_abs_gradnorm = 1/5, iteration_limit = 10)`; the run returns CONVERGED through the
    controller after one iteration -/
example : exSys.Linear ∧ (∀ v, exSys.ip v (precond exSys v) = 0 → v = 0) ∧ (QE.at exSys (0, 0)).Consistent exSys ∧
    (cg exSys (gradNorm (some (1 / 5)) none 1 (some 10)) 20 100 (QE.at exSys (0, 0))).status = .converged ∧
    (cg exSys (gradNorm (some (1 / 5)) none 1 (some 10)) 20 100 (QE.at exSys (0, 0))).reason = .ctrlCheck :=
  ⟨exSys_spd.lin, exSys_definite, at_consistent _ _, by decide +kernel, by decide +kernel⟩

/-- End to end for **any** controller with `convergence_level ≥ 1` and a definite preconditioner: if CG reports CONVERGED
    then the true residual at the returned position is 0, or the iteration limit was reached, or the controller's
    criterion returned `inclvl = True` on the returned energy object (whose gradient and value are the true ones of the
    returned position) with the memory the controller had built from the energies it was shown before
    (`checked = E :: os ++ [returned]`, all consistent). -/
theorem cg_ctrl_sound (S : Sys V K) (hA : S.Linear) (hP : ∀ v, S.ip v (precond S v) = 0 → v = 0)
    (c : Ctrl K τ) (hl : 1 ≤ c.level) (nreset : Int) (fuel : Nat) (E : QE V K) (hE : E.Consistent S)
    (h : (cg S c nreset fuel E).status = .converged) :
    trueGrad S (cg S c nreset fuel E).energy.pos = 0 ∨
    (∃ l s1, c.limit = some l ∧ (cg S c nreset fuel E).ctrl = some s1 ∧ l ≤ s1.itcount) ∨
    ((cg S c nreset fuel E).energy = E ∧ ∃ aux, c.crit (c.init (obs S E)) 0 (obs S E) = some (true, aux)) ∨
    (∃ os s0 aux, (cg S c nreset fuel E).checked = E :: (os ++ [(cg S c nreset fuel E).energy]) ∧
      (∀ E' ∈ os, E'.Consistent S) ∧ (cg S c nreset fuel E).energy.Consistent S ∧
      c.feed ((E :: os).map (obs S)) = some (s0, .continue_) ∧
      c.crit s0.aux ((os.length : Int) + 1) (obs S (cg S c nreset fuel E).energy) = some (true, aux)) := by
  have hp := cg_basic S hA c nreset fuel E hE
  rcases hp.conv h with h1 | h1 | h1 | h1
  · obtain ⟨he, s1, hs, hc⟩ := hp.start h1
    rw [h] at hs
    rcases ctrl_start_converged_criterion _ hl _ _ hs with ⟨l, hl1, hl2⟩ | hcrit
    · right; left; exact ⟨l, s1, hl1, hc, by rw [(start_inv _ _ _ _ hs).1]; exact hl2⟩
    · right; right; left; exact ⟨he, hcrit⟩
  · left; exact hP _ (by rw [← hp.energy.1]; exact hp.gz (Or.inl h1))
  · left; exact hP _ (by rw [← hp.energy.1]; exact hp.gz (Or.inr h1))
  · obtain ⟨os, s0, s1, h2, h3, h4, h5, h6⟩ := cg_controller_replay S hA _ nreset fuel E hE h1
    rw [h] at h5
    have h4' : c.feed (obs S E :: os.map (obs S)) = some (s0, .continue_) := by simpa using h4
    rcases ctrl_converged_criterion c hl (obs S E) (os.map (obs S)) _ s0 s1 h4' h5 with ⟨l, hl1, hl2⟩ | ⟨aux, hcrit⟩
    · right; left
      refine ⟨l, s1, hl1, h6, ?_⟩
      rw [check_itcount h5, (feed_inv _ _ _ _ _ h4').1]; simpa using hl2
    · right; right; right
      refine ⟨os, s0, aux, h2, h3, hp.energy, h4, ?_⟩
      simpa using hcrit

/-- GradInfNormController end to end: CONVERGED ⇒ residual 0, or limit reached, or `‖g‖∞ ≤ tol·|E(x)|` with the
    true residual `g` and the true energy `E(x) ≠ 0` at the returned position. -/
theorem cg_gradinf_sound (S : Sys V K) (hA : S.Linear) (hP : ∀ v, S.ip v (precond S v) = 0 → v = 0)
    (tol : Option K) (level : Int) (limit : Option Int) (hl : 1 ≤ level) (nreset : Int) (fuel : Nat)
    (E : QE V K) (hE : E.Consistent S) (h : (cg S (gradInf tol level limit) nreset fuel E).status = .converged) :
    let x := (cg S (gradInf tol level limit) nreset fuel E).energy.pos
    trueGrad S x = 0 ∨
    (∃ l s1, limit = some l ∧ (cg S (gradInf tol level limit) nreset fuel E).ctrl = some s1 ∧ l ≤ s1.itcount) ∨
    (∃ t, tol = some t ∧ trueValue S x ≠ 0 ∧ 0 ≤ t ∧
      S.ninfsq (trueGrad S x) ≤ t * t * (trueValue S x * trueValue S x)) := by
  intro x
  rcases cg_ctrl_sound S hA hP _ hl nreset fuel E hE h with h1 | h1 | ⟨he, aux, hc⟩ | ⟨os, s0, aux, _, _, hcons, _, hc⟩
  · exact Or.inl h1
  · exact Or.inr (Or.inl h1)
  · right; right
    have := gradInf_crit_true hc
    simp only [obs, hE.1, hE.2] at this
    have hx : x = E.pos := by simp only [x, he]
    rw [hx]; exact this
  · right; right
    have := gradInf_crit_true hc
    simp only [obs, hcons.1, hcons.2] at this
    exact this

/-- DeltaEnergyController end to end: CONVERGED ⇒ residual 0, or limit reached, or the **true** energies of the returned
    position and of the position checked just before differ by less than `tol·max(|·|,|·|)`. -/
theorem cg_deltaE_sound (S : Sys V K) (hA : S.Linear) (hP : ∀ v, S.ip v (precond S v) = 0 → v = 0)
    (tol : K) (level : Int) (limit : Option Int) (hl : 1 ≤ level) (nreset : Int) (fuel : Nat)
    (E : QE V K) (hE : E.Consistent S) (h : (cg S (deltaE tol level limit) nreset fuel E).status = .converged) :
    let out := cg S (deltaE tol level limit) nreset fuel E
    trueGrad S out.energy.pos = 0 ∨
    (∃ l s1, limit = some l ∧ out.ctrl = some s1 ∧ l ≤ s1.itcount) ∨
    (∃ os, out.checked = E :: (os ++ [out.energy]) ∧
      0 < max |trueValue S ((E :: os).getLast (by simp)).pos| |trueValue S out.energy.pos| ∧
      |trueValue S ((E :: os).getLast (by simp)).pos - trueValue S out.energy.pos| <
        tol * max |trueValue S ((E :: os).getLast (by simp)).pos| |trueValue S out.energy.pos|) := by
  intro out
  rcases cg_ctrl_sound S hA hP _ hl nreset fuel E hE h with h1 | h1 | ⟨he, aux, hc⟩ | ⟨os, s0, aux, hch, hos, hcons, hfeed, hc⟩
  · exact Or.inl h1
  · exact Or.inr (Or.inl h1)
  · exact absurd (deltaE_crit_true hc).1 (lt_irrefl _)
  · right; right
    refine ⟨os, hch, ?_⟩
    have hfeed' : (deltaE tol level limit).feed (obs S E :: os.map (obs S)) = some (s0, .continue_) := by
      simpa using hfeed
    have haux := feed_aux_last _ (fun o => o.value) (deltaE_aux tol level limit) _ _ s0 _ hfeed'
    rw [haux] at hc
    have hlast := getLast_obs_trueValue S E os hE hos
    have := (deltaE_crit_true hc).2
    simp only [hlast] at this
    simp only [obs, hcons.2] at this
    exact this

/-- AbsDeltaEnergyController end to end: CONVERGED ⇒ residual 0, or limit reached, or the true energies of the returned
    position and of the position checked just before differ by less than `deltaE`. -/
theorem cg_absdeltaE_sound (S : Sys V K) (hA : S.Linear) (hP : ∀ v, S.ip v (precond S v) = 0 → v = 0)
    (dE : K) (level : Int) (limit : Option Int) (hl : 1 ≤ level) (nreset : Int) (fuel : Nat)
    (E : QE V K) (hE : E.Consistent S) (h : (cg S (absDeltaE dE level limit) nreset fuel E).status = .converged) :
    let out := cg S (absDeltaE dE level limit) nreset fuel E
    trueGrad S out.energy.pos = 0 ∨
    (∃ l s1, limit = some l ∧ out.ctrl = some s1 ∧ l ≤ s1.itcount) ∨
    (∃ os, out.checked = E :: (os ++ [out.energy]) ∧
      |trueValue S ((E :: os).getLast (by simp)).pos - trueValue S out.energy.pos| < dE) := by
  intro out
  rcases cg_ctrl_sound S hA hP _ hl nreset fuel E hE h with h1 | h1 | ⟨he, aux, hc⟩ | ⟨os, s0, aux, hch, hos, hcons, hfeed, hc⟩
  · exact Or.inl h1
  · exact Or.inr (Or.inl h1)
  · exact absurd (absDeltaE_crit_true hc).1 (lt_irrefl _)
  · right; right
    refine ⟨os, hch, ?_⟩
    have hfeed' : (absDeltaE dE level limit).feed (obs S E :: os.map (obs S)) = some (s0, .continue_) := by
      simpa using hfeed
    have haux := feed_aux_last _ (fun o => o.value) (absDeltaE_aux dE level limit) _ _ s0 _ hfeed'
    rw [haux] at hc
    have hlast := getLast_obs_trueValue S E os hE hos
    have := (absDeltaE_crit_true hc).2
    simp only [hlast] at this
    simp only [obs, hcons.2] at this
    exact this

/-- StochasticAbsDeltaEnergyController end to end: CONVERGED ⇒ residual 0, or limit reached, or the population variance
    of the **true** energies of the last `memory_length` checked positions (the returned one included) is below `deltaE²`. -/
theorem cg_stochastic_sound (S : Sys V K) (hA : S.Linear) (hP : ∀ v, S.ip v (precond S v) = 0 → v = 0)
    (dE : K) (level : Int) (limit : Option Int) (memLen : Int) (hl : 1 ≤ level) (nreset : Int) (fuel : Nat)
    (E : QE V K) (hE : E.Consistent S)
    (h : (cg S (stochastic dE level limit memLen) nreset fuel E).status = .converged) :
    let out := cg S (stochastic dE level limit memLen) nreset fuel E
    trueGrad S out.energy.pos = 0 ∨
    (∃ l s1, limit = some l ∧ out.ctrl = some s1 ∧ l ≤ s1.itcount) ∨
    (∃ os, out.checked = E :: (os ++ [out.energy]) ∧
      lastN memLen (((E :: os) ++ [out.energy]).map fun E' => trueValue S E'.pos) ≠ [] ∧ 0 < dE ∧
      varK (lastN memLen (((E :: os) ++ [out.energy]).map fun E' => trueValue S E'.pos)) < dE * dE) := by
  intro out
  rcases cg_ctrl_sound S hA hP _ hl nreset fuel E hE h with h1 | h1 | ⟨he, aux, hc⟩ | ⟨os, s0, aux, hch, hos, hcons, hfeed, hc⟩
  · exact Or.inl h1
  · exact Or.inr (Or.inl h1)
  · exact absurd (stochastic_crit_true hc).1 (lt_irrefl _)
  · right; right
    refine ⟨os, hch, ?_⟩
    have hfeed' : (stochastic dE level limit memLen).feed (obs S E :: os.map (obs S)) = some (s0, .continue_) := by
      simpa using hfeed
    have haux := stochastic_feed_aux dE level limit memLen _ _ s0 _ hfeed'
    have hall : ∀ E' ∈ E :: os, E'.Consistent S := by
      intro E' h'
      rcases List.mem_cons.1 h' with h0 | h0
      · rw [h0]; exact hE
      · exact hos _ h0
    have hvals : (obs S E :: os.map (obs S)).map (·.value) = (E :: os).map fun E' => trueValue S E'.pos := by
      have := map_value_consistent S (E :: os) hall
      simpa using this
    have := (stochastic_crit_true hc).2
    rw [haux, stochMem_lastN, hvals] at this
    have e : ((E :: os).map fun E' => trueValue S E'.pos) ++ [(obs S (cg S (stochastic dE level limit memLen) nreset fuel E).energy).value]
        = ((E :: os) ++ [(cg S (stochastic dE level limit memLen) nreset fuel E).energy]).map fun E' => trueValue S E'.pos := by
      simp [obs, hcons.2]
    rw [e] at this
    exact this

/-- **From the verdict to the distance to the solution.**  `A` coercive (`m·⟨v,v⟩ ≤ ⟨v,Av⟩`, `m > 0`; for a matrix: `m` = smallest
    eigenvalue), `ip` positive semidefinite, `x*` a solution of `A x* = b`.  If CG with
    `GradientNormController(tol_abs_gradnorm = t, convergence_level ≥ 1)` reports CONVERGED before its iteration limit, the
    returned position satisfies `m·‖x − x*‖ ≤ t` (squared: `m²⟨e,e⟩ ≤ t²`). -/
theorem cg_gradnorm_error_bound (S : Sys V K) (hA : S.Linear) (hb : S.Bilinear) (hpos : ∀ v, 0 ≤ S.ip v v)
    (m : K) (hm : 0 < m) (hco : ∀ v, m * S.ip v v ≤ S.ip v (S.A v))
    (hP : ∀ v, S.ip v (precond S v) = 0 → v = 0) (t : K) (level : Int) (limit : Option Int) (hl : 1 ≤ level)
    (nreset : Int) (fuel : Nat) (E : QE V K) (hE : E.Consistent S) (xs : V) (hxs : trueGrad S xs = 0)
    (h : (cg S (gradNorm (some t) none level limit) nreset fuel E).status = .converged) :
    (∃ l s1, limit = some l ∧ (cg S (gradNorm (some t) none level limit) nreset fuel E).ctrl = some s1 ∧
      l ≤ s1.itcount) ∨
    m * m * S.ip ((cg S (gradNorm (some t) none level limit) nreset fuel E).energy.pos - xs)
      ((cg S (gradNorm (some t) none level limit) nreset fuel E).energy.pos - xs) ≤ t * t := by
  have hb' := residual_bounds_error hA hb hpos m hm hco
    (cg S (gradNorm (some t) none level limit) nreset fuel E).energy.pos xs hxs
  rcases cg_gradnorm_sound S hA hP (some t) none level limit hl nreset fuel E hE h with h0 | h1 | ⟨t', ht', _, h2⟩ |
    ⟨t', ht', _⟩
  · right
    rw [h0, ip_zero_left hb] at hb'
    exact le_trans hb' (mul_self_nonneg t)
  · exact Or.inl h1
  · right
    cases ht'
    exact le_trans hb' h2
  · cases ht'

/-- The energy gap to the solution is half the squared `A`-norm of the error, so `cg_energy_monotone` says: the `A`-norm of
    the error decreases strictly from iterate to iterate. -/
theorem cg_energy_gap_is_error (S : Sys V K) (hS : S.SPD) (x xs : V) (hxs : trueGrad S xs = 0) :
    trueValue S x - trueValue S xs = S.ip (x - xs) (S.A (x - xs)) / 2 :=
  energy_gap hS x xs hxs

/-- non-vacuity: `exSys` is coercive with `m = 1` (`2x² + 2xy + 3y² ≥ x² + y²`) and has the solution `(1/5, 3/5)` -/
example : (∀ v, (1 : ℚ) * exSys.ip v v ≤ exSys.ip v (exSys.A v)) ∧ trueGrad exSys (1 / 5, 3 / 5) = 0 := by
  constructor
  · intro v
    simp only [exSys]
    nlinarith [mul_self_nonneg (v.1 + v.2), mul_self_nonneg v.2]
  · simp [trueGrad, exSys]; norm_num

/-- Every step CG takes has a non-negative length; CG reports ERROR only through its give-up exits
    (`curv == 0`, `alpha < 0`, `gamma < 0`) or because the controller raised. -/
theorem cg_alpha_positive_or_error (S : Sys V K) (hA : S.Linear) (c : Ctrl K τ) (nreset : Int) (fuel : Nat)
    (E : QE V K) (hE : E.Consistent S) :
    (∀ it ∈ (cg S c nreset fuel E).iters, 0 ≤ it.alpha) ∧
    ((cg S c nreset fuel E).status = .error →
      (cg S c nreset fuel E).reason = .curvZero ∨ (cg S c nreset fuel E).reason = .alphaNeg ∨
      (cg S c nreset fuel E).reason = .gammaNeg ∨ (cg S c nreset fuel E).reason = .raised) := by
  have hp := cg_basic S hA c nreset fuel E hE
  exact ⟨hp.alpha, hp.err⟩

/-- On a symmetric positive definite system with a positive definite preconditioner CG never gives up: the curvature
    and the step length of every iteration are strictly positive, ERROR can only come from a raising controller, and the
    `gamma == 0` exits are taken only at the exact solution `A x = b`. -/
theorem cg_no_error_spd (S : Sys V K) (hS : S.SPD) (c : Ctrl K τ) (nreset : Int) (fuel : Nat)
    (E : QE V K) (hE : E.Consistent S) :
    (∀ it ∈ (cg S c nreset fuel E).iters, 0 < it.alpha ∧ 0 < it.curv) ∧
    ((cg S c nreset fuel E).status = .error → (cg S c nreset fuel E).reason = .raised) ∧
    ((cg S c nreset fuel E).reason = .gammaZero0 ∨ (cg S c nreset fuel E).reason = .gammaZero →
      trueGrad S (cg S c nreset fuel E).energy.pos = 0) := by
  have hp := cg_basic S hS.lin c nreset fuel E hE
  have hs := cg_spd S hS c nreset fuel E hE
  refine ⟨hs.steps, ?_, ?_⟩
  · intro he
    rcases hp.err he with h | h | h | h
    · exact absurd h hs.noGiveUp.1
    · exact absurd h hs.noGiveUp.2.1
    · exact absurd h hs.noGiveUp.2.2
    · exact h
  · intro h
    rw [← hp.energy.1]
    by_contra h0
    exact absurd (hp.gz h) (ne_of_gt (hS.P_pos _ h0))


/-- non-vacuity: `exSys` is symmetric positive definite (`2x² + 2xy + 3y² > 0`) -/
example : exSys.SPD := exSys_spd

/-- On a symmetric positive definite system the quadratic energy `½⟨x,Ax⟩ − ⟨b,x⟩` decreases strictly from each energy
    object to the next (start energy first). -/
theorem cg_energy_monotone (S : Sys V K) (hS : S.SPD) (c : Ctrl K τ) (nreset : Int) (fuel : Nat)
    (E : QE V K) (hE : E.Consistent S) :
    List.Pairwise (fun a b : QE V K => trueValue S b.pos < trueValue S a.pos) (E :: (cg S c nreset fuel E).made) := by
  have hp := cg_basic S hS.lin c nreset fuel E hE
  have hs := cg_spd S hS c nreset fuel E hE
  have hall : ∀ E' ∈ E :: (cg S c nreset fuel E).made, E'.Consistent S := by
    intro E' h'
    rcases List.mem_cons.1 h' with h1 | h1
    · rw [h1]; exact hE
    · exact hp.made E' h1
  refine List.Pairwise.imp_of_mem ?_ hs.mono
  intro a b ha hb hab
  rw [← (hall a ha).2, ← (hall b hb).2]
  exact hab


/-- non-vacuity (concrete evaluation): the energies of the run on `exSys` are 0 > −25/36 > −7/10 -/
example : (cg exSys (gradNorm (some (1 / 1000)) none 1 (some 10)) 20 100 (QE.at exSys (0, 0))).made.map (·.value)
    = [-25 / 36, -7 / 10] := by
  decide +kernel

/-- `ConjugateGradient.__call__` never returns CONTINUE: unless the model ran out of fuel (the Python loop would still be
    running) the returned status is CONVERGED or ERROR.  No hypothesis on the system. -/
theorem cg_status_final (S : Sys V K) (c : Ctrl K τ) (nreset : Int) (fuel : Nat) (E : QE V K)
    (h : (cg S c nreset fuel E).reason ≠ .fuel) :
    (cg S c nreset fuel E).status = .converged ∨ (cg S c nreset fuel E).status = .error :=
  (cg_last S c nreset fuel E).2 h

/-- On an SPD system the returned position is never worse than the start: `E(x_out) ≤ E(x₀)`, strictly better as soon as
    the returned energy object is not the start object (at least one step was taken). -/
theorem cg_result_not_worse (S : Sys V K) (hS : S.SPD) (c : Ctrl K τ) (nreset : Int) (fuel : Nat)
    (E : QE V K) (hE : E.Consistent S) :
    trueValue S (cg S c nreset fuel E).energy.pos ≤ trueValue S E.pos ∧
    ((cg S c nreset fuel E).energy ≠ E → trueValue S (cg S c nreset fuel E).energy.pos < trueValue S E.pos) := by
  have hm := cg_energy_monotone S hS c nreset fuel E hE
  have hmem := (cg_last S c nreset fuel E).1
  rcases List.mem_cons.1 hmem with h | h
  · exact ⟨by rw [h], fun hne => absurd h hne⟩
  · have := (List.pairwise_cons.1 hm).1 _ h
    exact ⟨le_of_lt this, fun _ => this⟩

/-- non-vacuity (concrete evaluation): on `exSys` the run returns CONVERGED, not out of fuel -/
example : (cg exSys (gradNorm (some (1 / 5)) none 1 (some 10)) 20 100 (QE.at exSys (0, 0))).status = .converged := by
  decide +kernel

/-! ## exact termination -/

/-- **Orthogonality / conjugacy invariants of CG** (SPD `A`, linear self-adjoint definite preconditioner `P`).  Let `W` be
    the span of the search directions of the earlier iterations.  If the residual `r` is orthogonal to `W`, the direction
    `d` is `A`-conjugate to `W`, `P r ∈ W + K·d` and `P A W ⊆ W + K·d`, then after one CG step
    (`r' = r − α A d`, `d' = (γ'/γ) d + P r'`) the same holds for `W + K·d`: the new residual is orthogonal to all
    directions so far (hence `⟨r', P rᵢ⟩ = 0` for every earlier residual), the new direction is `A`-conjugate to all
    directions so far. -/
theorem cg_conjugacy_invariants (S : Sys V K) (hS : S.SPDP) (W : Submodule K V) (r d r' : V) (pg : K)
    (hI : ExactInv S W r d) (hpg : pg = S.ip r d) (hpos : 0 < pg)
    (hr' : r' = r - (pg / S.ip d (S.A d)) • S.A d) :
    ExactInv S (W ⊔ Submodule.span K {d}) r' ((S.ip r' (precond S r') / pg) • d + precond S r') :=
  exact_step hS hI hpg hpos hr'

/-- **Exact CG terminates within `n` iterations.**  On an SPD system with a linear self-adjoint definite preconditioner in
    a space of dimension `n`, `ConjugateGradient.__call__` performs at most `n` passes through its loop whatever the
    controller says: with `n` units of fuel the model never runs out of fuel.  (Together with `cg_no_error_spd`: it leaves
    through the controller or through `gamma == 0`, i.e. at the exact solution.) -/
theorem cg_exact_in_n_steps (S : Sys V K) (hS : S.SPDP) [FiniteDimensional K V] (c : Ctrl K τ) (nreset : Int)
    (fuel : Nat) (hfuel : Module.finrank K V ≤ fuel) (E : QE V K) (hE : E.Consistent S) :
    (cg S c nreset fuel E).reason ≠ .fuel ∧ (cg S c nreset fuel E).iters.length ≤ Module.finrank K V :=
  cg_exact S hS c nreset fuel hfuel E hE

/-- **Optimality of what CG returns** (SPD `A`, linear self-adjoint definite `P`, finite dimension): after its `k` passes
    through the loop the returned position `x` satisfies `x − x₀ ∈ W` for a subspace `W` of dimension exactly `k` (the span
    of the search directions) and minimises the quadratic energy over `x₀ + W`:  `E(x) ≤ E(x + v)` for all `v ∈ W`. -/
theorem cg_optimal_on_subspace (S : Sys V K) (hS : S.SPDP) [FiniteDimensional K V] (c : Ctrl K τ) (nreset : Int)
    (fuel : Nat) (E : QE V K) (hE : E.Consistent S) :
    ∃ W : Submodule K V, Module.finrank K W = (cg S c nreset fuel E).iters.length ∧
      (cg S c nreset fuel E).energy.pos - E.pos ∈ W ∧
      ∀ v ∈ W, trueValue S (cg S c nreset fuel E).energy.pos ≤ trueValue S ((cg S c nreset fuel E).energy.pos + v) :=
  cg_optimal S hS c nreset fuel E hE

/-- **Textbook optimality**: the subspace is the Krylov space of the preconditioned operator.  After `k` passes CG returns
    the minimiser of the energy over `x₀ + K_k(P A, P r₀)`, `K_k = span{(P A)^j P r₀ : j < k}`, and `dim K_k = k`
    (`r₀ = A x₀ − b`). -/
theorem cg_optimal_on_krylov (S : Sys V K) (hS : S.SPDP) [FiniteDimensional K V] (c : Ctrl K τ) (nreset : Int)
    (fuel : Nat) (E : QE V K) (hE : E.Consistent S) :
    ∃ k, k = (cg S c nreset fuel E).iters.length ∧
      Module.finrank K (krylov S (precond S (trueGrad S E.pos)) k) = k ∧
      (cg S c nreset fuel E).energy.pos - E.pos ∈ krylov S (precond S (trueGrad S E.pos)) k ∧
      ∀ v ∈ krylov S (precond S (trueGrad S E.pos)) k,
        trueValue S (cg S c nreset fuel E).energy.pos ≤ trueValue S ((cg S c nreset fuel E).energy.pos + v) := by
  rw [← hE.1]
  exact cg_krylov S hS c nreset fuel E hE

/-- With a compatible complex structure `J` (`J² = −1`, isometry of `ip`, commuting with `A` and the preconditioner —
    multiplication by `i` for a complex Hermitian system) CG makes at most `dim_K V / 2` passes through its loop. -/
theorem cg_exact_hermitian (S : Sys V K) (J : V → V) (hS : S.Hermitian J) [FiniteDimensional K V] (c : Ctrl K τ)
    (nreset : Int) (fuel : Nat) (hfuel : Module.finrank K V ≤ 2 * fuel) (E : QE V K) (hE : E.Consistent S) :
    (cg S c nreset fuel E).reason ≠ .fuel ∧ 2 * (cg S c nreset fuel E).iters.length ≤ Module.finrank K V :=
  cg_exact_J S J hS c nreset fuel hfuel E hE

/-- ... and if the controller never stops it (never raises), the position returned after those at most `n` iterations is
    the exact solution `A x = b`, reported as CONVERGED. -/
theorem cg_exact_solution (S : Sys V K) (hS : S.SPDP) [FiniteDimensional K V] (c : Ctrl K τ) (nreset : Int)
    (fuel : Nat) (hfuel : Module.finrank K V ≤ fuel) (E : QE V K) (hE : E.Consistent S)
    (hc : (cg S c nreset fuel E).reason ≠ .ctrlStart ∧ (cg S c nreset fuel E).reason ≠ .ctrlCheck ∧
      (cg S c nreset fuel E).reason ≠ .raised) :
    trueGrad S (cg S c nreset fuel E).energy.pos = 0 ∧ (cg S c nreset fuel E).iters.length ≤ Module.finrank K V := by
  obtain ⟨hf, hn⟩ := cg_exact_in_n_steps S hS c nreset fuel hfuel E hE
  have hs := cg_spd S hS.toSPD c nreset fuel E hE
  refine ⟨?_, hn⟩
  apply (cg_no_error_spd S hS.toSPD c nreset fuel E hE).2.2
  obtain ⟨h1, h2, h3⟩ := hs.noGiveUp
  obtain ⟨hc1, hc2, hc3⟩ := hc
  clear hs hn
  revert hf h1 h2 h3 hc1 hc2 hc3
  generalize (cg S c nreset fuel E).reason = rs
  intro hf h1 h2 h3 hc1 hc2 hc3
  cases rs <;> simp_all

/-- non-vacuity: `exSys` (no preconditioner) satisfies the hypotheses in dimension 2; its run has 2 iterations -/
example : exSys.SPDP ∧ Module.finrank ℚ (ℚ × ℚ) = 2 ∧
    (cg exSys (gradNorm (some (1 / 1000)) none 1 (some 10)) 20 100 (QE.at exSys (0, 0))).iters.length = 2 :=
  ⟨{ exSys_spd with
      P_add := by intro x y; rfl
      P_smul := by intro a x; rfl
      P_selfAdj := by intro x y; rfl },
   by simp, by decide +kernel⟩

/-! ## InversionEnabler -/

/-- Mode bookkeeping of `InversionEnabler.apply` (whole finite tables evaluated): whenever a valid mode `2^i` is
    offered (`_addInverse`) but not supported by the operator, the operator supports the inverse mode `invmode`, and the
    adapter `op._flip_modes(_ilog[invmode])` passes its `_check_mode` for `TIMES` and applies the operator in exactly
    `invmode` — so the CG run never hits `NotImplementedError` in the operator and solves the right system. -/
theorem ie_modes_available (op : LinOp V) (hcap : op.capability < 16) (i : Nat) (hi : i < 4)
    (hoff : (2 ^ i) &&& addInverse op.capability ≠ 0) (hnot : op.capability &&& (2 ^ i) = 0) (v : V) :
    op.capability &&& ieInvMode (2 ^ i) ≠ 0 ∧
    (op.flip ((ilog (ieInvMode (2 ^ i))).getD 0)).call v TIMES = some (op.apply v (ieInvMode (2 ^ i))) := by
  refine ⟨ie_table_cap _ hcap i hi hoff hnot, ?_⟩
  have h1 := ie_table_times _ hcap i hi hoff hnot
  have h2 := ie_table_fwd i hi
  unfold LinOp.call
  rw [flip_capability, flip_apply, h2]
  have : (validMode TIMES && (TIMES &&& flipCap ((ilog (ieInvMode (2 ^ i))).getD 0) op.capability != 0)) = true := by
    simp only [Bool.and_eq_true, bne_iff_ne]
    exact ⟨by decide, h1⟩
  rw [if_pos this]


/-- non-vacuity: capability TIMES|ADJOINT_TIMES (3), requested INVERSE_TIMES (2^2): offered, not supported, so CG runs -/
example : (2 ^ 2) &&& addInverse exOp.capability ≠ 0 ∧ exOp.capability &&& (2 ^ 2) = 0 ∧ ieInvMode (2 ^ 2) = TIMES := by
  decide

/-- `InversionEnabler.apply(x, mode)` in a mode the operator supports is the operator itself. -/
theorem inversion_enabler_direct (op : LinOp V) (approx : Option (LinOp V)) (c : Ctrl K τ) (ip : V → V → K)
    (ninfsq : V → K) (fuel : Nat) (x : V) (mode : Nat) (y : V)
    (h : inversionEnabler op approx c ip ninfsq (0 : V) fuel x mode = .direct y) :
    op.capability &&& mode ≠ 0 ∧ y = op.apply x mode := by
  unfold inversionEnabler at h
  split at h
  · cases h
  · rename_i lm _
    split at h
    · cases h
    · split at h
      · rename_i hs
        simp only [IEResult.direct.injEq] at h
        exact ⟨hs, h.symm⟩
      · exfalso
        let S0 : Sys V K :=
          { A := fun v => (op.flip ((ilog (modeTable INVERSE_BIT lm)).getD 0)).apply v TIMES, b := some x,
            P := (approx.map fun p => p.flip lm).map fun p => fun v => p.apply v TIMES, ip := ip, ninfsq := ninfsq }
        have key : ∀ (R : Out V K τ) (r : IEResult V K τ),
            (r = .solved R.energy.pos R ∨ r = .notImplemented ∨ r = .raised) → r ≠ .direct y := by
          intro R r hr
          rcases hr with rfl | rfl | rfl <;> simp
        refine key (cg S0 c 20 fuel (QE.make S0 0 none)) _ ?_ h
        dsimp only
        repeat' split
        all_goals first | exact Or.inl rfl | exact Or.inr (Or.inl rfl) | exact Or.inr (Or.inr rfl)

/-- **Numerical inversion returns the solution of the corresponding linear system.**  If
    `InversionEnabler(op, GradientNormController(tol_abs, tol_rel, level ≥ 1, limit), approximation).apply(x, mode)`
    goes through CG (the operator lacks `mode`) and the CG run reports CONVERGED, the returned `y` satisfies, for the
    operator applied in the **inverse** of `mode`  (`g = op(y) − x`):  `g = 0`, or the iteration limit was reached, or
    `‖g‖ ≤ tol_abs`, or `‖g‖ ≤ tol_rel·‖op(0) − x‖`.
    Hypotheses: the operator is linear in that mode, `approximation` in `mode` is definite w.r.t. `ip`. -/
theorem inversion_enabler_solves (op : LinOp V) (approx : Option (LinOp V)) (hcap : op.capability < 16)
    (ip : V → V → K) (ninfsq : V → K) (ta tr : Option K) (level : Int) (limit : Option Int) (hl : 1 ≤ level)
    (fuel : Nat) (x : V) (mode : Nat) (y : V) (run : Out V K K)
    (h : inversionEnabler op approx (gradNorm ta tr level limit) ip ninfsq (0 : V) fuel x mode = .solved y run)
    (hA : (ieSys op approx ip ninfsq x mode).Linear)
    (hP : ∀ v, ip v (precond (ieSys op approx ip ninfsq x mode) v) = 0 → v = 0)
    (hconv : run.status = .converged) :
    let g := op.apply y (ieInvMode mode) - x
    let g0 := op.apply 0 (ieInvMode mode) - x
    op.capability &&& ieInvMode mode ≠ 0 ∧
    (g = 0 ∨
     (∃ l s1, limit = some l ∧ run.ctrl = some s1 ∧ l ≤ s1.itcount) ∨
     (∃ t, ta = some t ∧ 0 ≤ t ∧ ip g g ≤ t * t) ∨
     (∃ t, tr = some t ∧ (0 ≤ t ∨ ip g0 g0 = 0) ∧ ip g g ≤ t * t * ip g0 g0)) := by
  intro g g0
  obtain ⟨_, _, hsup, hrun, hy⟩ := ie_solved op approx (gradNorm ta tr level limit) ip ninfsq fuel x mode y run hcap h
  refine ⟨hsup, ?_⟩
  have hE : (QE.at (ieSys op approx ip ninfsq x mode) (0 : V)).Consistent (ieSys op approx ip ninfsq x mode) :=
    at_consistent _ _
  rw [hrun] at hconv
  have := cg_gradnorm_sound (ieSys op approx ip ninfsq x mode) hA hP ta tr level limit hl 20 fuel _ hE hconv
  rw [← hrun, ← hy] at this
  exact this


/-- non-vacuity (concrete evaluation, one instance): `InversionEnabler(exOp, GradientNormController(tol_abs=1/5,
    iteration_limit=10)).inverse_times((1,2))` goes through CG, which reports CONVERGED -/
example : (match inversionEnabler exOp none (gradNorm (some (1 / 5 : ℚ)) none 1 (some 10)) exIp exNinf 0 100 (1, 2) 4 with
    | .solved _ run => decide (run.status = .converged)
    | _ => false) = true ∧
    (exOp.capability < 16) ∧ (ieSys exOp none exIp exNinf (1, 2) 4).Linear ∧
    (∀ v, exIp v (precond (ieSys exOp none exIp exNinf (1, 2) 4) v) = 0 → v = 0) :=
  ⟨by decide +kernel, by decide, exOp_linear _ _, exOp_definite _ _⟩

/-- The CG run behind `InversionEnabler.apply(x, mode)` for **any** controller: the operator supports the inverse mode,
    the run is `ConjugateGradient(ic, nreset=20)` on the system `op^{inverse mode} · = x` started at 0, the returned
    field is the position it returns, and the true gradient of that system is the residual `op^{inverse mode} v − x`. -/
theorem inversion_enabler_run (op : LinOp V) (approx : Option (LinOp V)) (hcap : op.capability < 16)
    (c : Ctrl K τ) (ip : V → V → K) (ninfsq : V → K) (fuel : Nat) (x : V) (mode : Nat) (y : V) (run : Out V K τ)
    (h : inversionEnabler op approx c ip ninfsq (0 : V) fuel x mode = .solved y run) :
    op.capability &&& ieInvMode mode ≠ 0 ∧
    run = cg (ieSys op approx ip ninfsq x mode) c 20 fuel (QE.at (ieSys op approx ip ninfsq x mode) 0) ∧
    y = run.energy.pos ∧
    ∀ v, trueGrad (ieSys op approx ip ninfsq x mode) v = op.apply v (ieInvMode mode) - x := by
  obtain ⟨_, _, hsup, hrun, hy⟩ := ie_solved op approx c ip ninfsq fuel x mode y run hcap h
  exact ⟨hsup, hrun, hy, fun v => rfl⟩

/-- InversionEnabler with **GradInfNormController**: CONVERGED ⇒ the residual `g = op^{inv}(y) − x` is 0, or the limit
    was reached, or `‖g‖∞ ≤ tol·|E(y)|` for the true quadratic energy `E(y) ≠ 0` of the returned field. -/
theorem inversion_enabler_solves_gradinf (op : LinOp V) (approx : Option (LinOp V)) (hcap : op.capability < 16)
    (ip : V → V → K) (ninfsq : V → K) (tol : Option K) (level : Int) (limit : Option Int) (hl : 1 ≤ level)
    (fuel : Nat) (x : V) (mode : Nat) (y : V) (run : Out V K Unit)
    (h : inversionEnabler op approx (gradInf tol level limit) ip ninfsq (0 : V) fuel x mode = .solved y run)
    (hA : (ieSys op approx ip ninfsq x mode).Linear)
    (hP : ∀ v, ip v (precond (ieSys op approx ip ninfsq x mode) v) = 0 → v = 0)
    (hconv : run.status = .converged) :
    let S := ieSys op approx ip ninfsq x mode
    op.apply y (ieInvMode mode) - x = 0 ∨
    (∃ l s1, limit = some l ∧ run.ctrl = some s1 ∧ l ≤ s1.itcount) ∨
    (∃ t, tol = some t ∧ trueValue S y ≠ 0 ∧ 0 ≤ t ∧
      ninfsq (op.apply y (ieInvMode mode) - x) ≤ t * t * (trueValue S y * trueValue S y)) := by
  intro S
  obtain ⟨_, hrun, hy, _⟩ := inversion_enabler_run op approx hcap _ ip ninfsq fuel x mode y run h
  subst hrun
  subst hy
  exact cg_gradinf_sound S hA hP tol level limit hl 20 fuel _ (at_consistent _ _) hconv

/-- InversionEnabler with **DeltaEnergyController**: CONVERGED ⇒ residual 0, or limit reached, or the true energies of
    the returned field and of the position checked just before differ by less than `tol·max(|·|,|·|)`. -/
theorem inversion_enabler_solves_deltaE (op : LinOp V) (approx : Option (LinOp V)) (hcap : op.capability < 16)
    (ip : V → V → K) (ninfsq : V → K) (tol : K) (level : Int) (limit : Option Int) (hl : 1 ≤ level)
    (fuel : Nat) (x : V) (mode : Nat) (y : V) (run : Out V K K)
    (h : inversionEnabler op approx (deltaE tol level limit) ip ninfsq (0 : V) fuel x mode = .solved y run)
    (hA : (ieSys op approx ip ninfsq x mode).Linear)
    (hP : ∀ v, ip v (precond (ieSys op approx ip ninfsq x mode) v) = 0 → v = 0)
    (hconv : run.status = .converged) :
    let S := ieSys op approx ip ninfsq x mode
    op.apply y (ieInvMode mode) - x = 0 ∨
    (∃ l s1, limit = some l ∧ run.ctrl = some s1 ∧ l ≤ s1.itcount) ∨
    (∃ os, run.checked = QE.at S 0 :: (os ++ [run.energy]) ∧
      0 < max |trueValue S ((QE.at S 0 :: os).getLast (by simp)).pos| |trueValue S y| ∧
      |trueValue S ((QE.at S 0 :: os).getLast (by simp)).pos - trueValue S y| <
        tol * max |trueValue S ((QE.at S 0 :: os).getLast (by simp)).pos| |trueValue S y|) := by
  intro S
  obtain ⟨_, hrun, hy, _⟩ := inversion_enabler_run op approx hcap _ ip ninfsq fuel x mode y run h
  subst hrun
  subst hy
  exact cg_deltaE_sound S hA hP tol level limit hl 20 fuel _ (at_consistent _ _) hconv

/-- InversionEnabler with **AbsDeltaEnergyController**: CONVERGED ⇒ residual 0, or limit reached, or the true energies
    of the returned field and of the position checked just before differ by less than `deltaE`. -/
theorem inversion_enabler_solves_absdeltaE (op : LinOp V) (approx : Option (LinOp V)) (hcap : op.capability < 16)
    (ip : V → V → K) (ninfsq : V → K) (dE : K) (level : Int) (limit : Option Int) (hl : 1 ≤ level)
    (fuel : Nat) (x : V) (mode : Nat) (y : V) (run : Out V K K)
    (h : inversionEnabler op approx (absDeltaE dE level limit) ip ninfsq (0 : V) fuel x mode = .solved y run)
    (hA : (ieSys op approx ip ninfsq x mode).Linear)
    (hP : ∀ v, ip v (precond (ieSys op approx ip ninfsq x mode) v) = 0 → v = 0)
    (hconv : run.status = .converged) :
    let S := ieSys op approx ip ninfsq x mode
    op.apply y (ieInvMode mode) - x = 0 ∨
    (∃ l s1, limit = some l ∧ run.ctrl = some s1 ∧ l ≤ s1.itcount) ∨
    (∃ os, run.checked = QE.at S 0 :: (os ++ [run.energy]) ∧
      |trueValue S ((QE.at S 0 :: os).getLast (by simp)).pos - trueValue S y| < dE) := by
  intro S
  obtain ⟨_, hrun, hy, _⟩ := inversion_enabler_run op approx hcap _ ip ninfsq fuel x mode y run h
  subst hrun
  subst hy
  exact cg_absdeltaE_sound S hA hP dE level limit hl 20 fuel _ (at_consistent _ _) hconv

/-- InversionEnabler with **StochasticAbsDeltaEnergyController**: CONVERGED ⇒ residual 0, or limit reached, or the
    variance of the true energies of the last `memory_length` checked positions (returned field included) is `< deltaE²`. -/
theorem inversion_enabler_solves_stochastic (op : LinOp V) (approx : Option (LinOp V)) (hcap : op.capability < 16)
    (ip : V → V → K) (ninfsq : V → K) (dE : K) (level : Int) (limit : Option Int) (memLen : Int) (hl : 1 ≤ level)
    (fuel : Nat) (x : V) (mode : Nat) (y : V) (run : Out V K (List K))
    (h : inversionEnabler op approx (stochastic dE level limit memLen) ip ninfsq (0 : V) fuel x mode = .solved y run)
    (hA : (ieSys op approx ip ninfsq x mode).Linear)
    (hP : ∀ v, ip v (precond (ieSys op approx ip ninfsq x mode) v) = 0 → v = 0)
    (hconv : run.status = .converged) :
    let S := ieSys op approx ip ninfsq x mode
    op.apply y (ieInvMode mode) - x = 0 ∨
    (∃ l s1, limit = some l ∧ run.ctrl = some s1 ∧ l ≤ s1.itcount) ∨
    (∃ os, run.checked = QE.at S 0 :: (os ++ [run.energy]) ∧
      lastN memLen (((QE.at S 0 :: os) ++ [run.energy]).map fun E' => trueValue S E'.pos) ≠ [] ∧ 0 < dE ∧
      varK (lastN memLen (((QE.at S 0 :: os) ++ [run.energy]).map fun E' => trueValue S E'.pos)) < dE * dE) := by
  intro S
  obtain ⟨_, hrun, hy, _⟩ := inversion_enabler_run op approx hcap _ ip ninfsq fuel x mode y run h
  subst hrun
  subst hy
  exact cg_stochastic_sound S hA hP dE level limit memLen hl 20 fuel _ (at_consistent _ _) hconv

/-- **Numerical inversion returns the solution, in terms of the error**: with a coercive operator (constant `m`) in the
    inverse mode, an exact solution `ys` of `op^{inv} ys = x`, and `GradientNormController(tol_abs_gradnorm = t)`:
    a CONVERGED inversion that did not stop at the iteration limit returns `y` with `m·‖y − ys‖ ≤ t`. -/
theorem inversion_enabler_error_bound (op : LinOp V) (approx : Option (LinOp V)) (hcap : op.capability < 16)
    (ip : V → V → K) (ninfsq : V → K) (t : K) (level : Int) (limit : Option Int) (hl : 1 ≤ level)
    (fuel : Nat) (x : V) (mode : Nat) (y : V) (run : Out V K K)
    (h : inversionEnabler op approx (gradNorm (some t) none level limit) ip ninfsq (0 : V) fuel x mode = .solved y run)
    (hA : (ieSys op approx ip ninfsq x mode).Linear) (hb : (ieSys op approx ip ninfsq x mode).Bilinear)
    (hpos : ∀ v, 0 ≤ ip v v) (m : K) (hm : 0 < m) (hco : ∀ v, m * ip v v ≤ ip v (op.apply v (ieInvMode mode)))
    (hP : ∀ v, ip v (precond (ieSys op approx ip ninfsq x mode) v) = 0 → v = 0)
    (ys : V) (hys : op.apply ys (ieInvMode mode) = x) (hconv : run.status = .converged) :
    (∃ l s1, limit = some l ∧ run.ctrl = some s1 ∧ l ≤ s1.itcount) ∨ m * m * ip (y - ys) (y - ys) ≤ t * t := by
  obtain ⟨_, hrun, hy, _⟩ := inversion_enabler_run op approx hcap _ ip ninfsq fuel x mode y run h
  subst hrun
  subst hy
  have hxs : trueGrad (ieSys op approx ip ninfsq x mode) ys = 0 := by
    show op.apply ys (ieInvMode mode) - x = 0
    rw [hys]; simp
  exact cg_gradnorm_error_bound (ieSys op approx ip ninfsq x mode) hA hb hpos m hm hco hP t level limit hl 20 fuel _
    (at_consistent _ _) ys hxs hconv

/-- non-vacuity (concrete evaluation, one instance): `InversionEnabler(exOp, AbsDeltaEnergyController(deltaE=1/4,
    iteration_limit=10)).inverse_times((1,2))` goes through CG, which reports CONVERGED -/
example : (match inversionEnabler exOp none (absDeltaE (1 / 4 : ℚ) 1 (some 10)) exIp exNinf 0 100 (1, 2) 4 with
    | .solved _ run => decide (run.status = .converged)
    | _ => false) = true := by
  decide +kernel

/-! ## the instances the theorems are meant for -/

/-- **Complex Hermitian positive definite systems are covered.**  `V = n → ℂ` as a real vector space with
    `ip u v = Re (uᴴ v)` (the code's `u.s_vdot(v).real`; all scalars CG multiplies with are real), `A = M ·` with `M`
    Hermitian and `Re (xᴴ M x) > 0`, preconditioner none or `N ·` with `N` of the same kind: all hypotheses used by the
    theorems above (`Sys.Linear`, `Sys.Bilinear`, `Sys.SPD`, `Sys.SPDP`, definiteness of the preconditioner) hold. -/
theorem complex_hermitian_covered {n : Type} [Fintype n] (M : Matrix n n ℂ) (b : Option (n → ℂ))
    (N : Option (Matrix n n ℂ)) (ninfsq : (n → ℂ) → ℝ) (hM : M.conjTranspose = M)
    (hMpos : ∀ x : n → ℂ, x ≠ 0 → 0 < (star x ⬝ᵥ M.mulVec x).re)
    (hN : ∀ N', N = some N' → N'.conjTranspose = N' ∧ ∀ x : n → ℂ, x ≠ 0 → 0 < (star x ⬝ᵥ N'.mulVec x).re) :
    (complexSys M b N ninfsq).SPDP ∧ (complexSys M b N ninfsq).SPD ∧ (complexSys M b N ninfsq).Linear ∧
    (complexSys M b N ninfsq).Bilinear ∧
    (∀ v, (complexSys M b N ninfsq).ip v (precond (complexSys M b N ninfsq) v) = 0 → v = 0) := by
  have h := complexSys_spdp M b N ninfsq hM hMpos hN
  refine ⟨h, h.toSPD, h.lin, h.bil, ?_⟩
  intro v hv
  by_contra h0
  exact absurd hv (ne_of_gt (h.P_pos v h0))

/-- **Exact termination for complex Hermitian positive definite `n × n` systems** (optional Hermitian positive definite
    preconditioner): CG makes at most `n` passes through its loop — the classical bound, although the model only sees the
    real structure (`2n` real dimensions): multiplication by `i` is a compatible complex structure
    (`complexSys_hermitian`), the span of the directions is closed under it and grows by two real dimensions per
    iteration (`cg_exact_hermitian`). -/
theorem cg_exact_complex {τ : Type} {n : ℕ} (M : Matrix (Fin n) (Fin n) ℂ) (b : Option (Fin n → ℂ))
    (N : Option (Matrix (Fin n) (Fin n) ℂ)) (ninfsq : (Fin n → ℂ) → ℝ) (hM : M.conjTranspose = M)
    (hMpos : ∀ x : Fin n → ℂ, x ≠ 0 → 0 < (star x ⬝ᵥ M.mulVec x).re)
    (hN : ∀ N', N = some N' → N'.conjTranspose = N' ∧ ∀ x : Fin n → ℂ, x ≠ 0 → 0 < (star x ⬝ᵥ N'.mulVec x).re)
    (c : Ctrl ℝ τ) (nreset : Int) (fuel : Nat) (hfuel : n ≤ fuel) (x0 : Fin n → ℂ) :
    (cg (complexSys M b N ninfsq) c nreset fuel (QE.at (complexSys M b N ninfsq) x0)).reason ≠ .fuel ∧
    (cg (complexSys M b N ninfsq) c nreset fuel (QE.at (complexSys M b N ninfsq) x0)).iters.length ≤ n :=
  cg_exact_complexSys_sharp M b N ninfsq hM hMpos hN c nreset fuel hfuel x0

/-- non-vacuity: `M = 2·1` on `ℂ²`, no preconditioner -/
example : (complexSys ((2 : ℂ) • (1 : Matrix (Fin 2) (Fin 2) ℂ)) none none (fun _ => 0)).SPDP := by
  refine (complex_hermitian_covered _ none none _ ?_ ?_ ?_).1
  · rw [Matrix.conjTranspose_smul, Matrix.conjTranspose_one]; simp
  · intro x hx
    rw [Matrix.smul_mulVec, Matrix.one_mulVec, dotProduct_smul, smul_eq_mul, Complex.mul_re]
    have := reDot_self_pos hx
    unfold reDot at this
    have h2re : (2 : ℂ).re = 2 := by simp
    have h2im : (2 : ℂ).im = 0 := by simp
    rw [h2re, h2im]
    linarith
  · intro N' h; cases h

/-- **The driver instance is lawful**: the system `Driver/C14.lean` builds from a request (`C14Driver.sysOf`: exact
    rational vectors `RVec N`, `RVec.matVec`, `RVec.dot`) has a linear operator and a symmetric bilinear `ip`, and the
    module structure on `RVec N` consists of the model's own point-wise operations — so e.g. every energy object of every
    driver run is consistent (instance of `cg_grad_invariant`/`cg_value_correct`). -/
theorem driver_instance_lawful {N : Nat} {τ : Type} (cplx : Bool) (A : RVec.Mat N N) (b : Option (RVec N))
    (P : Option (RVec.Mat N N)) (c : Ctrl ℚ τ) (nreset : Int) (fuel : Nat) (x : RVec N) :
    (C14Driver.sysOf cplx A b P).Linear ∧ (C14Driver.sysOf cplx A b P).Bilinear ∧
    (cg (C14Driver.sysOf cplx A b P) c nreset fuel (QE.make (C14Driver.sysOf cplx A b P) x none)).energy.Consistent
      (C14Driver.sysOf cplx A b P) :=
  ⟨sysOf_linear cplx A b P, sysOf_bilinear cplx A b P, driver_cg_consistent cplx A b P c nreset fuel x⟩

end NiftyVerif.C14
