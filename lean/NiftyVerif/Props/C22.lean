/-
  C22 — Classic VI results do not depend on the number of MPI tasks.
  Property theorems only (helper lemmas live in Lemmas/). Obligations are listed in harness/props/c22.py.
  `Gen.shareRange` is regenerated from nifty/cl/utilities.py on every run (translator T3).
-/
import NiftyVerif.Gen.ShareRange
import Mathlib.Tactic.Ring
import Mathlib.Tactic.Linarith

namespace NiftyVerif.C22
open NiftyVerif.Gen

/-- lower end of share `r` -/
def lo (n p r : Nat) : Nat := (shareRange n p r).1
/-- upper end (exclusive) of share `r` -/
def hi (n p r : Nat) : Nat := (shareRange n p r).2

/-- the first share starts at 0 -/
theorem shareRange_starts_at_zero (n p : Nat) : lo n p 0 = 0 := by
  simp [lo, shareRange]

/-- consecutive shares are adjacent: nothing is skipped and nothing is shared -/
theorem shareRange_consecutive (n p r : Nat) : hi n p r = lo n p (r + 1) := by
  simp only [lo, hi, shareRange]
  by_cases h : r < n % p
  · have h1 : min r (n % p) = r := Nat.min_eq_left (Nat.le_of_lt h)
    have h2 : min (r + 1) (n % p) = r + 1 := Nat.min_eq_left h
    simp only [h, if_true, h1, h2]; ring
  · have h' : n % p ≤ r := Nat.le_of_not_lt h
    have h1 : min r (n % p) = n % p := Nat.min_eq_right h'
    have h2 : min (r + 1) (n % p) = n % p := Nat.min_eq_right (Nat.le_succ_of_le h')
    simp only [h, if_false, h1, h2]; ring

/-- the last share ends at `n`: together with `consecutive` the shares cover `[0,n)` exactly -/
theorem shareRange_ends_at_n (n p : Nat) (hp : 0 < p) : lo n p p = n := by
  simp only [lo, shareRange]
  have h1 : min p (n % p) = n % p := Nat.min_eq_right (Nat.le_of_lt (Nat.mod_lt n hp))
  rw [h1]
  have := Nat.div_add_mod n p
  linarith [Nat.mul_comm p (n / p)]

/-- each share is a (possibly empty) range, sizes are `⌊n/p⌋` or `⌊n/p⌋+1`: they differ by at most one -/
theorem shareRange_size (n p r : Nat) :
    hi n p r = lo n p r + n / p + (if r < n % p then 1 else 0) := by
  simp [lo, hi, shareRange]

/-- ordered: `lo` is monotone in the share index, so ranges of different ranks are disjoint and in rank order -/
theorem shareRange_monotone (n p : Nat) : ∀ r s, r ≤ s → lo n p r ≤ lo n p s := by
  intro r s hrs
  induction s with
  | zero => simp_all
  | succ s ih =>
    rcases Nat.lt_or_ge r (s + 1) with h | h
    · have := ih (Nat.lt_succ_iff.mp h)
      have h2 : lo n p s ≤ hi n p s := by rw [shareRange_size]; exact Nat.le_trans (Nat.le_add_right _ _) (Nat.le_add_right _ _)
      rw [← shareRange_consecutive]; omega
    · have : r = s + 1 := by omega
      subst this; exact Nat.le_refl _

/-- every work item `i < n` belongs to exactly one share `r < p` (existence) -/
theorem shareRange_covers (n p : Nat) (hp : 0 < p) (i : Nat) (hi' : i < n) :
    ∃ r, r < p ∧ lo n p r ≤ i ∧ i < hi n p r := by
  -- the largest r with lo r ≤ i
  have key : ∀ k, k ≤ p → lo n p k ≤ i ∨ ∃ r, r < k ∧ lo n p r ≤ i ∧ i < hi n p r := by
    intro k
    induction k with
    | zero => intro _; left; rw [shareRange_starts_at_zero]; omega
    | succ k ih =>
      intro hk
      rcases ih (by omega) with h | ⟨r, hr, h1, h2⟩
      · by_cases hh : lo n p (k + 1) ≤ i
        · left; exact hh
        · right; exact ⟨k, by omega, h, by rw [shareRange_consecutive]; omega⟩
      · right; exact ⟨r, by omega, h1, h2⟩
  rcases key p (Nat.le_refl p) with h | ⟨r, hr, h1, h2⟩
  · rw [shareRange_ends_at_n n p hp] at h; omega
  · exact ⟨r, hr, h1, h2⟩

/-- ... and uniqueness: two shares containing the same item are the same share -/
theorem shareRange_disjoint (n p r s i : Nat)
    (hr : lo n p r ≤ i ∧ i < hi n p r) (hs : lo n p s ≤ i ∧ i < hi n p s) : r = s := by
  rcases Nat.lt_trichotomy r s with h | h | h
  · have := shareRange_monotone n p (r + 1) s h
    rw [← shareRange_consecutive] at this; omega
  · exact h
  · have := shareRange_monotone n p (s + 1) r h
    rw [← shareRange_consecutive] at this; omega

-- non-vacuity: 7 items over 3 shares are [0,3) [3,5) [5,7)
example : (shareRange 7 3 0, shareRange 7 3 1, shareRange 7 3 2) = ((0, 3), (3, 5), (5, 7)) := by decide
-- more shares than items: empty shares at the end
example : (shareRange 2 4 1, shareRange 2 4 2, shareRange 2 4 3) = ((1, 2), (2, 2), (2, 2)) := by decide

end NiftyVerif.C22
