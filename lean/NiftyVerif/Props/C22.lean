/-
  C22 — Classic VI results do not depend on the number of MPI tasks.
  Property theorems only (helper lemmas live in Lemmas/). Obligations are listed in harness/props/c22.py.
  `Gen.shareRange` is regenerated from nifty/cl/utilities.py on every run (translator T3).
  Part 1: shareRange is an ordered exact fair partition.  Part 2 (Model/Distributed.lean = draw_samples' loop,
  _compute_local_indices): every task computes, for each of its global indices, exactly what the serial loop computes
  for that index; the tasks' results in rank order are the serial list; averages go through C23's fixed tree.
-/
import NiftyVerif.Gen.ShareRange
import NiftyVerif.Lemmas.Distributed
import NiftyVerif.Props.C23
import Mathlib.Tactic.Ring
import Mathlib.Tactic.Linarith

namespace NiftyVerif.C22
open NiftyVerif.Gen

/-- lower end of share `r` -/
def lo (n p r : Nat) : Nat := (shareRange n p r).1
/-- upper end (exclusive) of share `r` -/
def hi (n p r : Nat) : Nat := (shareRange n p r).2

/-- the first share starts at 0 -/
theorem shareRange_starts_at_zero (n p : Nat) : lo n p 0 = 0 := by
  simp [lo, shareRange]

/-- consecutive shares are adjacent: nothing is skipped and nothing is shared -/
theorem shareRange_consecutive (n p r : Nat) : hi n p r = lo n p (r + 1) := by
  simp only [lo, hi, shareRange]
  by_cases h : r < n % p
  · have h1 : min r (n % p) = r := Nat.min_eq_left (Nat.le_of_lt h)
    have h2 : min (r + 1) (n % p) = r + 1 := Nat.min_eq_left h
    simp only [h, if_true, h1, h2]; ring
  · have h' : n % p ≤ r := Nat.le_of_not_lt h
    have h1 : min r (n % p) = n % p := Nat.min_eq_right h'
    have h2 : min (r + 1) (n % p) = n % p := Nat.min_eq_right (Nat.le_succ_of_le h')
    simp only [h, if_false, h1, h2]; ring

/-- the last share ends at `n`: together with `consecutive` the shares cover `[0,n)` exactly -/
theorem shareRange_ends_at_n (n p : Nat) (hp : 0 < p) : lo n p p = n := by
  simp only [lo, shareRange]
  have h1 : min p (n % p) = n % p := Nat.min_eq_right (Nat.le_of_lt (Nat.mod_lt n hp))
  rw [h1]
  have := Nat.div_add_mod n p
  linarith [Nat.mul_comm p (n / p)]

/-- each share is a (possibly empty) range, sizes are `⌊n/p⌋` or `⌊n/p⌋+1`: they differ by at most one -/
theorem shareRange_size (n p r : Nat) :
    hi n p r = lo n p r + n / p + (if r < n % p then 1 else 0) := by
  simp [lo, hi, shareRange]

/-- ordered: `lo` is monotone in the share index, so ranges of different ranks are disjoint and in rank order -/
theorem shareRange_monotone (n p : Nat) : ∀ r s, r ≤ s → lo n p r ≤ lo n p s := by
  intro r s hrs
  induction s with
  | zero => simp_all
  | succ s ih =>
    rcases Nat.lt_or_ge r (s + 1) with h | h
    · have := ih (Nat.lt_succ_iff.mp h)
      have h2 : lo n p s ≤ hi n p s := by rw [shareRange_size]; exact Nat.le_trans (Nat.le_add_right _ _) (Nat.le_add_right _ _)
      rw [← shareRange_consecutive]; omega
    · have : r = s + 1 := by omega
      subst this; exact Nat.le_refl _

/-- every work item `i < n` belongs to exactly one share `r < p` (existence) -/
theorem shareRange_covers (n p : Nat) (hp : 0 < p) (i : Nat) (hi' : i < n) :
    ∃ r, r < p ∧ lo n p r ≤ i ∧ i < hi n p r := by
  -- the largest r with lo r ≤ i
  have key : ∀ k, k ≤ p → lo n p k ≤ i ∨ ∃ r, r < k ∧ lo n p r ≤ i ∧ i < hi n p r := by
    intro k
    induction k with
    | zero => intro _; left; rw [shareRange_starts_at_zero]; omega
    | succ k ih =>
      intro hk
      rcases ih (by omega) with h | ⟨r, hr, h1, h2⟩
      · by_cases hh : lo n p (k + 1) ≤ i
        · left; exact hh
        · right; exact ⟨k, by omega, h, by rw [shareRange_consecutive]; omega⟩
      · right; exact ⟨r, by omega, h1, h2⟩
  rcases key p (Nat.le_refl p) with h | ⟨r, hr, h1, h2⟩
  · rw [shareRange_ends_at_n n p hp] at h; omega
  · exact ⟨r, hr, h1, h2⟩

/-- ... and uniqueness: two shares containing the same item are the same share -/
theorem shareRange_disjoint (n p r s i : Nat)
    (hr : lo n p r ≤ i ∧ i < hi n p r) (hs : lo n p s ≤ i ∧ i < hi n p s) : r = s := by
  rcases Nat.lt_trichotomy r s with h | h | h
  · have := shareRange_monotone n p (r + 1) s h
    rw [← shareRange_consecutive] at this; omega
  · exact h
  · have := shareRange_monotone n p (s + 1) r h
    rw [← shareRange_consecutive] at this; omega

-- non-vacuity: 7 items over 3 shares are [0,3) [3,5) [5,7)
example : (shareRange 7 3 0, shareRange 7 3 1, shareRange 7 3 2) = ((0, 3), (3, 5), (5, 7)) := by decide
-- more shares than items: empty shares at the end
example : (shareRange 2 4 1, shareRange 2 4 2, shareRange 2 4 3) = ((1, 2), (2, 2), (2, 2)) := by decide

/-! ### Part 2: the per-sample work and its reduction do not depend on the partition -/

open NiftyVerif.Distributed NiftyVerif.Allreduce

/-- **mirror_pair_same_seed**: with mirrored samples the work items `2k` and `2k+1` use the same seed sequence
    (index `k` of the spawned list), and exactly the odd one is negated -/
theorem mirror_pair_same_seed (k : Nat) :
    seedIdx true (2 * k) = k ∧ seedIdx true (2 * k + 1) = k ∧ isNeg true (2 * k) = false ∧ isNeg true (2 * k + 1) = true := by
  refine ⟨?_, ?_, ?_, ?_⟩
  · simp [seedIdx]
  · simp only [seedIdx, if_true]; omega
  · simp [isNeg]
  · simp [isNeg, Nat.add_mod]

/-- **odd_start_redraws_same_y**: a task whose range starts at an odd (negated) index has `y = None`, draws, and
    obtains exactly the `y` its even partner got on the other task — for any continuation of its range -/
theorem odd_start_redraws_same_y {Y} (draw : Nat → Y) (k : Nat) (rest : List Nat) :
    (localLoop draw true ((2 * k + 1) :: rest) none).head? = some (draw k, true) ∧
    (localLoop draw true [2 * k] none).head? = some (draw k, false) := by
  obtain ⟨h0, h1, h2, h3⟩ := mirror_pair_same_seed k
  constructor
  · simp [localLoop, nextY, h1, h3]
  · simp [localLoop, nextY, h0, h2]

theorem localIndices_eq (n p k : Nat) :
    localIndices n p k = List.range' (lo n p k) (lo n p (k + 1) - lo n p k) := by
  simp only [localIndices, lo]
  rw [show (shareRange n p (k + 1)).1 = (shareRange n p k).2 from (shareRange_consecutive n p k).symm]

/-- the index ranges of the tasks, concatenated in rank order, are `0, 1, …, n-1` -/
theorem localIndices_concat (n p : Nat) (hp : 0 < p) :
    (List.range p).flatMap (localIndices n p) = List.range n := by
  have key : ∀ k, (List.range k).flatMap (localIndices n p) = List.range' 0 (lo n p k) := by
    intro k
    induction k with
    | zero => simp [shareRange_starts_at_zero]
    | succ k ih =>
      rw [List.range_succ, List.flatMap_append, ih]
      simp only [List.flatMap_cons, List.flatMap_nil, List.append_nil]
      have h1 := localIndices_eq n p k
      have h2 : lo n p k ≤ lo n p (k + 1) := shareRange_monotone n p k (k + 1) (Nat.le_succ k)
      rw [h1]
      have := @List.range'_append_1 0 (lo n p k) (lo n p (k + 1) - lo n p k)
      simp only [Nat.zero_add] at this
      rw [this]
      congr 1; omega
  rw [key p, shareRange_ends_at_n n p hp, List.range_eq_range']

/-- **local_results_independent_of_partition**: for every number of tasks `p ≥ 1` (also `p` larger than the number
    of samples: empty tasks), mirrored or not, the `(y, neg)` pairs of all tasks in rank order are exactly
    `(draw (seedIdx i), isNeg i)` for `i = 0, 1, …` — the list the single-process loop produces -/
theorem local_results_independent_of_partition {Y} (draw : Nat → Y) (mirror : Bool) (nSamples p : Nat) (hp : 0 < p) :
    allSamples draw mirror nSamples p = (List.range (nWork mirror nSamples)).map (spec draw mirror) := by
  unfold allSamples
  have : localSamples draw mirror nSamples p =
      fun r => (localIndices (nWork mirror nSamples) p r).map (spec draw mirror) := by
    funext r
    unfold localSamples localIndices
    exact loop_spec draw mirror _ _ none (Or.inl rfl)
  rw [this, ← List.map_flatMap, localIndices_concat _ p hp]

/-- in particular any two task counts give the same list -/
theorem samples_same_for_all_task_counts {Y} (draw : Nat → Y) (mirror : Bool) (nSamples p q : Nat)
    (hp : 0 < p) (hq : 0 < q) : allSamples draw mirror nSamples p = allSamples draw mirror nSamples q := by
  rw [local_results_independent_of_partition draw mirror nSamples p hp,
    local_results_independent_of_partition draw mirror nSamples q hq]

/-- **local_indices_eq_shareRange**: the global indices a sample list assigns to its local samples
    (`_compute_local_indices`: prefix sum over the allgathered local counts) are the shareRange indices again -/
theorem local_indices_eq_shareRange (n p r : Nat) (hr : r < p) :
    computeLocalIndices ((List.range p).map (fun t => (localIndices n p t).length)) r = localIndices n p r := by
  have hlen : ∀ t, (localIndices n p t).length = lo n p (t + 1) - lo n p t := by
    intro t; rw [localIndices_eq, List.length_range']
  have hsum : ∀ k, ((List.range k).map (fun t => (localIndices n p t).length)).foldl (· + ·) 0 = lo n p k := by
    intro k
    induction k with
    | zero => simp [shareRange_starts_at_zero]
    | succ k ih =>
      rw [List.range_succ, List.map_append, List.foldl_append, ih]
      have h2 : lo n p k ≤ lo n p (k + 1) := shareRange_monotone n p k (k + 1) (Nat.le_succ k)
      simp only [List.map_cons, List.map_nil, List.foldl_cons, List.foldl_nil, hlen]
      omega
  unfold computeLocalIndices
  rw [← List.map_take, List.take_range, Nat.min_eq_left (Nat.le_of_lt hr), hsum]
  have : ((List.range p).map (fun t => (localIndices n p t).length)).getD r 0 = (localIndices n p r).length := by
    simp [List.getD, hr]
  rw [this, hlen, localIndices_eq]

/-- **distributed_average_eq_serial**: the per-sample results `f (y, neg)` of all tasks, reduced by the distributed
    `allreduce_sum` under ANY interleaving (synchronous sends, any split of transfers into sub-messages) with the
    ordered partition induced by the tasks' local counts, give exactly the value the single-process code computes:
    the same fixed tree over the same leaves — so the same floating-point bits, whatever `add` is -/
theorem distributed_average_eq_serial {Y α} (add : α → α → α) (f : Y × Bool → α) (d : Y × Bool)
    (draw : Nat → Y) (mirror : Bool) (nSamples p : Nat) (hp : 0 < p) (hn : 0 < nWork mirror nSamples)
    (who : Nat → Nat) (m : Nat) (hm : 0 < m) {k st}
    (h : Reach who (expand who m (events (nWork mirror nSamples))) (initStore (nWork mirror nSamples)) k st)
    (hmax : ¬ ∃ st', Step st st') :
    (st.store 0).map (T.eval add (fun i => f ((allSamples draw mirror nSamples p).getD i d))) =
      some ((pairwiseTree (nWork mirror nSamples)).eval add
        (fun i => f ((allSamples draw mirror nSamples 1).getD i d))) := by
  rw [(NiftyVerif.C23.allreduce_all_schedules _ hn who m hm h hmax).2,
    samples_same_for_all_task_counts draw mirror nSamples p 1 hp (by decide)]
  rfl

-- non-vacuity: 3 mirrored samples (6 work items) over 4 tasks: ranges [0,2) [2,4) [4,5) [5,6); task 3 starts at the
-- odd index 5 and redraws seed 2
example : (List.range 4).map (localIndices 6 4) = [[0, 1], [2, 3], [4], [5]] := by decide
example : allSamples (fun s => 10 * s) true 3 4 =
    [(0, false), (0, true), (10, false), (10, true), (20, false), (20, true)] := by decide
example : localSamples (fun s => 10 * s) true 3 4 3 = [(20, true)] := by decide

/-! ### Part 3: the MAP path, `_single_value_sample_list` and the sync checks -/

section Sync
variable {V R : Type} [DecidableEq V] [DecidableEq R]

theorem synced_iff (w : World V R) :
    synced w = true ↔ ∀ s ∈ w.others, pickleForm s.mean = pickleForm w.master.mean ∧ s.rng = w.master.rng := by
  simp [synced, List.all_eq_true]

/-- one iteration with mpi4py's broadcast keeps all tasks in sync and its internal check passes -/
theorem iterate_keeps_sync (mapStep klStep : V → V) (tick : R → R) (m : Mode) (w : World V R) (h : synced w = true) :
    synced (iterate bcastCopy mapStep klStep tick m w).1 = true ∧ (iterate bcastCopy mapStep klStep tick m w).2 = true := by
  rw [synced_iff] at h
  cases m with
  | sampled =>
    refine ⟨?_, rfl⟩
    rw [synced_iff]
    intro s hs
    simp only [iterate, List.mem_map] at hs
    obtain ⟨s0, hs0, rfl⟩ := hs
    obtain ⟨h1, h2⟩ := h s0 hs0
    have hv : s0.mean.val = w.master.mean.val := congrArg Prod.fst h1
    simp [iterate, pickleForm, hv, h2]
  | map =>
    have key : synced (iterate bcastCopy mapStep klStep tick .map w).1 = true := by
      rw [synced_iff]
      intro s hs
      simp only [iterate, List.mem_map] at hs
      obtain ⟨s0, hs0, rfl⟩ := hs
      simp [iterate, bcastCopy, (h s0 hs0).2]
    exact ⟨key, key⟩

/-- **sync_checks_never_fire**: for ANY number of tasks (`w.others` arbitrary: one task, two, more tasks than samples…)
    and ANY sequence of MAP and sampled iterations, starting in sync, none of `check_MPI_equality`,
    `check_MPI_synced_random_state` and the check inside `_single_value_sample_list` ever raises -/
theorem sync_checks_never_fire (mapStep klStep : V → V) (tick : R → R) :
    ∀ (modes : List Mode) (w : World V R), synced w = true → checksPass bcastCopy mapStep klStep tick modes w = true := by
  intro modes
  induction modes with
  | nil => intro w _; rfl
  | cons m ms ih =>
    intro w h
    obtain ⟨h1, h2⟩ := iterate_keeps_sync mapStep klStep tick m w h
    simp only [checksPass, h, h2, Bool.true_and]
    exact ih _ h1

/-- **root_keeps_object_breaks_sync**: with a communicator whose `bcast` leaves the root's own object in place (NOT what
    mpi4py or `mpi4py.util.pkl5` do), the MAP branch fails its own "MPI tasks are not in sync" check as soon as there is
    a second task — the root holds a freshly built mean, everybody else an unpickled copy, and their pickles differ.
    This is the failure a seeding agent observed with an emulated 2-task communicator: an artefact of that emulation. -/
theorem root_keeps_object_breaks_sync (mapStep klStep : V → V) (tick : R → R) (w : World V R) (s : RankSt V R)
    (rest : List (RankSt V R)) (hw : w.others = s :: rest) :
    (iterate bcastRootKeeps mapStep klStep tick .map w).2 = false := by
  simp [iterate, synced, hw, bcastRootKeeps, pickleForm, roundTrip]

end Sync

/-- **single_value_list**: `_single_value_sample_list` on `p ≥ 1` tasks is a sample list with exactly one sample: the
    local counts sum to 1, the master's local index list is `[0]`, every other task's is empty (more tasks than samples) -/
theorem single_value_list (p : Nat) (hp : 0 < p) :
    (singleValueCounts p).foldl (· + ·) 0 = 1 ∧ computeLocalIndices (singleValueCounts p) 0 = [0] ∧
    ∀ r, 0 < r → r < p → computeLocalIndices (singleValueCounts p) r = [] := by
  obtain ⟨q, rfl⟩ : ∃ q, p = q + 1 := ⟨p - 1, by omega⟩
  have hcounts : singleValueCounts (q + 1) = 1 :: List.replicate q 0 := by
    unfold singleValueCounts
    rw [List.range_succ_eq_map]
    simp only [List.map_cons, List.map_map, if_true]
    congr 1
    rw [List.eq_replicate_iff]
    exact ⟨by simp, by intro b hb; simp only [List.mem_map, List.mem_range, Function.comp] at hb; obtain ⟨a, _, rfl⟩ := hb; simp⟩
  have hfold : ∀ (l : List Nat) (a : Nat), (∀ x ∈ l, x = 0) → l.foldl (· + ·) a = a := by
    intro l
    induction l with
    | nil => intro a _; rfl
    | cons x l ih => intro a h; simp only [List.foldl_cons]; rw [h x (List.mem_cons_self ..)]; exact ih a (fun y hy => h y (List.mem_cons_of_mem _ hy))
  refine ⟨?_, ?_, ?_⟩
  · rw [hcounts]; simp only [List.foldl_cons]; exact hfold _ _ (fun x hx => List.eq_of_mem_replicate hx)
  · rw [hcounts]; simp [computeLocalIndices]
  · intro r hr hrp
    rw [hcounts]
    obtain ⟨r', rfl⟩ : ∃ r', r = r' + 1 := ⟨r - 1, by omega⟩
    simp only [computeLocalIndices, List.getD_cons_succ]
    have : (List.replicate q 0).getD r' 0 = 0 := by
      simp only [List.getD_eq_getElem?_getD, List.getElem?_replicate]
      split <;> rfl
    rw [this]; rfl

-- non-vacuity: two tasks, MAP then sampled then MAP: all checks pass with mpi4py's broadcast, the first one fails otherwise
example : checksPass (V := Nat) (R := Nat) bcastCopy (· + 1) (· * 2) (· + 1) [.map, .sampled, .map]
    ⟨⟨⟨5, .fresh⟩, 0⟩, [⟨⟨5, .fresh⟩, 0⟩]⟩ = true := by decide
example : checksPass (V := Nat) (R := Nat) bcastRootKeeps (· + 1) (· * 2) (· + 1) [.map]
    ⟨⟨⟨5, .fresh⟩, 0⟩, [⟨⟨5, .fresh⟩, 0⟩]⟩ = false := by decide
example : singleValueCounts 4 = [1, 0, 0, 0] := by decide

end NiftyVerif.C22
