/-
  C21 — Runs are reproducible and independent of execution strategy (the part that is logic: the RNG stack discipline
  of nifty/cl/random.py).  Property theorems only; model in Model/Rng.lean, helper lemmas in Lemmas/Rng.lean.
  Obligations are listed in harness/props/c21.py.  Bit-reproducibility across processes and JAX map/JIT independence
  are observations of the runtime (tests in the harness), not theorems.
-/
import NiftyVerif.Lemmas.Rng
import NiftyVerif.Lemmas.RngEmbed
import Mathlib.Data.List.Nodup

namespace NiftyVerif.C21
open NiftyVerif.Rng

/-- **context_restores**: `with Context(s): body` where the body never pops a frame it did not push (`low` stays above
    the entry depth) and ends — by returning OR by raising — at the depth it started with: after `__exit__` the stack is
    EXACTLY the stack before `__enter__` (same seed-sequence objects, same generators including how much has been
    drawn from them); a normal end continues with `k`, an exception propagates unchanged -/
theorem context_restores (s : SeedSpec) (body k : Prog) (st st1 : St) (r : Nat)
    (hres : resolve st s = some (st1, r))
    (hlow : depth st1 + 1 ≤ (exec body (pushRef st1 r)).low)
    (hbal : depth (exec body (pushRef st1 r)).st = depth st1 + 1) :
    let rb := exec body (pushRef st1 r)
    let st4 := setStack rb.st st.stack
    (rb.out = .ok → (exec (.ctx s body k) st).st = (exec k st4).st ∧ (exec (.ctx s body k) st).out = (exec k st4).out) ∧
    (∀ e, rb.out = .exc e → (exec (.ctx s body k) st).st = st4 ∧ (exec (.ctx s body k) st).out = .exc e) := by
  intro rb st4
  have hst := (resolve_stack hres).1
  obtain ⟨top', ht⟩ := frame body (pushRef st1 r) [⟨r, mkGen (st1.heap.getD r ⟨0, [], 0⟩)⟩] st1.stack
    (by simp [pushRef]) (by simp only [depth] at hlow; omega)
  have hlen : top'.length = 1 := by
    have := congrArg List.length ht
    simp only [depth] at hbal
    rw [hbal, List.length_append] at this
    omega
  obtain ⟨f, rfl⟩ : ∃ f, top' = [f] := by
    cases top' with
    | nil => simp at hlen
    | cons f t => cases t with
      | nil => exact ⟨f, rfl⟩
      | cons _ _ => simp at hlen
  simp only [List.singleton_append] at ht
  have hrest : ¬ (st1.stack.length ≠ depth st1) := by simp [depth]
  constructor
  · intro hok
    have key : exec (.ctx s body k) st = ⟨(exec k st4).st, (exec k st4).out,
        min (min (min (depth st) rb.low) st1.stack.length) (exec k st4).low⟩ := by
      conv_lhs => unfold exec
      simp only [hres, ht]
      rw [if_neg hrest]
      simp only [show (exec body (pushRef st1 r)).out = Outcome.ok from hok]
      simp only [st4, rb, hst]
    rw [key]
    exact ⟨rfl, rfl⟩
  · intro e he
    have key : exec (.ctx s body k) st = ⟨st4, .exc e, min (min (depth st) rb.low) st1.stack.length⟩ := by
      conv_lhs => unfold exec
      simp only [hres, ht]
      rw [if_neg hrest]
      simp only [show (exec body (pushRef st1 r)).out = Outcome.exc e from he]
      simp only [st4, rb, hst]
    rw [key]
    exact ⟨rfl, rfl⟩

/-- **unbalanced_body_raises**: if the body leaves the stack at another depth (after `__exit__`'s own pop the depth
    differs from the recorded one), the ONLY outcome is `RuntimeError("inconsistent RNG usage detected")` — also when
    the body itself raised something else — and the stack is what the body left minus one frame; with an empty stack
    the pop itself raises IndexError.  Never a silent continuation. -/
theorem unbalanced_body_raises (s : SeedSpec) (body k : Prog) (st st1 : St) (r : Nat)
    (hres : resolve st s = some (st1, r)) :
    (∀ f rest, (exec body (pushRef st1 r)).st.stack = f :: rest → rest.length ≠ depth st1 →
      (exec (.ctx s body k) st).out = .exc .runtimeError ∧ (exec (.ctx s body k) st).st.stack = rest) ∧
    ((exec body (pushRef st1 r)).st.stack = [] → (exec (.ctx s body k) st).out = .exc .indexError) := by
  constructor
  · intro f rest hs hne
    unfold exec
    simp only [hres, hs]
    rw [if_pos hne]
    exact ⟨rfl, rfl⟩
  · intro hs
    unfold exec
    simp only [hres, hs]

/-- **ctx_only_balanced**: programs that manage the stack through `Context` only (arbitrarily nested, with draws,
    spawns and raised exceptions anywhere) never pop below their entry depth and end at their entry depth — whether
    they return or raise.  So the hypotheses of `context_restores` hold for every such body. -/
theorem ctx_only_balanced (p : Prog) (st : St) (h : ctxOnly p = true) :
    (exec p st).low = depth st ∧ depth (exec p st).st = depth st := ctxOnly_balanced p st h

/-- **nested_contexts_restore**: consequently, for ANY body built from draws, spawns, raises and nested Contexts,
    `with Context(s): body` restores the previous stack exactly, whether the body returns or raises -/
theorem nested_contexts_restore (s : SeedSpec) (body : Prog) (st st1 : St) (r : Nat)
    (hres : resolve st s = some (st1, r)) (hb : ctxOnly body = true) :
    (exec (.ctx s body .done) st).st.stack = st.stack ∧
    (exec (.ctx s body .done) st).out = (exec body (pushRef st1 r)).out := by
  have h := ctx_only_balanced body (pushRef st1 r) hb
  rw [depth_pushRef] at h
  have hc := context_restores s body .done st st1 r hres (by omega) h.2
  simp only at hc
  cases ho : (exec body (pushRef st1 r)).out with
  | ok =>
    have := hc.1 ho
    rw [this.1, this.2]
    simp [exec, setStack]
  | exc e =>
    have := hc.2 e ho
    rw [this.1, this.2]
    simp [setStack]

/-- tokens of a draws-only program running on top frame `f` -/
theorem draws_out : ∀ (rs : List Nat) (st : St) (f : Frame) (rest : List Frame), st.stack = f :: rest →
    (exec (draws rs) st).st.out = st.out ++ tokens f.gen.entropy f.gen.key f.gen.hist rs := by
  intro rs
  induction rs with
  | nil => intro st f rest _; simp [draws, exec, tokens]
  | cons r rs ih =>
    intro st f rest hs
    simp only [draws]
    unfold exec
    simp only [hs]
    rw [ih (drawSt st f rest r) _ rest (drawSt_stack st f rest r)]
    simp [drawSt, tokens, List.append_assoc]

/-- **draws_depend_only_on_seed** (for bodies that draw; nested contexts inside do not disturb the sequence by
    `nested_contexts_restore`): the values drawn inside `with Context(seed)` are the tokens of a FRESH generator for
    `(seed, ())` — a function of the seed and the requests alone, whatever the state `st` (stack contents, earlier
    draws, earlier spawns, heap) the context is entered from -/
theorem draws_depend_only_on_seed (n : Nat) (rs : List Nat) (st : St) :
    (exec (.ctx (.seed n) (draws rs) .done) st).st.out = st.out ++ tokens n [] [] rs := by
  have hres : resolve st (.seed n) = some ({ st with heap := st.heap ++ [(⟨n, [], 0⟩ : SeqObj)] }, st.heap.length) := rfl
  have hb : ctxOnly (draws rs) = true := by
    induction rs with
    | nil => rfl
    | cons r rs ih => simpa [draws, ctxOnly] using ih
  have h := ctx_only_balanced (draws rs) (pushRef { st with heap := st.heap ++ [(⟨n, [], 0⟩ : SeqObj)] } st.heap.length) hb
  rw [depth_pushRef] at h
  have hc := context_restores (.seed n) (draws rs) .done st _ _ hres (by omega) h.2
  simp only at hc
  have hout := draws_out rs (pushRef { st with heap := st.heap ++ [(⟨n, [], 0⟩ : SeqObj)] } st.heap.length)
    (⟨st.heap.length, mkGen ((st.heap ++ [(⟨n, [], 0⟩ : SeqObj)]).getD st.heap.length (⟨0, [], 0⟩ : SeqObj))⟩ : Frame) st.stack rfl
  have hg : (st.heap ++ [(⟨n, [], 0⟩ : SeqObj)]).getD st.heap.length ⟨0, [], 0⟩ = ⟨n, [], 0⟩ := by
    simp [List.getD]
  rw [hg] at hout
  cases ho : (exec (draws rs) (pushRef { st with heap := st.heap ++ [(⟨n, [], 0⟩ : SeqObj)] } st.heap.length)).out with
  | ok =>
    rw [(hc.1 ho).1]
    simp only [exec, setStack]
    rw [hout]; rfl
  | exc e =>
    rw [(hc.2 e ho).1]
    simp only [setStack]
    rw [hout]; rfl

/-- output and outcome of `with Context(s): body` are those of the body (for bodies that use Contexts only) -/
theorem ctx_out (s : SeedSpec) (body : Prog) (st st1 : St) (r : Nat)
    (hres : resolve st s = some (st1, r)) (hb : ctxOnly body = true) :
    (exec (.ctx s body .done) st).st.out = (exec body (pushRef st1 r)).st.out ∧
    (exec (.ctx s body .done) st).out = (exec body (pushRef st1 r)).out := by
  have h := ctx_only_balanced body (pushRef st1 r) hb
  rw [depth_pushRef] at h
  have hc := context_restores s body .done st st1 r hres (by omega) h.2
  simp only at hc
  cases ho : (exec body (pushRef st1 r)).out with
  | ok =>
    have := hc.1 ho
    rw [this.1, this.2]
    simp [exec, setStack]
  | exc e =>
    have := hc.2 e ho
    rw [this.1, this.2]
    simp [setStack]

/-- the canonical entry state: nothing on the stack, empty heap, no earlier output -/
def canon : St := ⟨[], [], [], []⟩

/-- **draws_depend_only_on_seed_full**: for EVERY body built from draws, spawns, raises and nested Contexts whose
    nested contexts use fresh seeds or seed sequences spawned inside the body (`closedFrom false body`), the values drawn
    anywhere inside `with Context(seed): body` — at any nesting depth, from spawned children too — and the way the body
    ends are the same from every entry state: they equal what the canonical (empty) state produces.  History before the
    context (stack contents, earlier draws and spawns, other seed sequences) has no influence. -/
theorem draws_depend_only_on_seed_full (n : Nat) (body : Prog) (sp' : Bool)
    (hb : ctxOnly body = true) (hc : closedFrom false body = some sp') (st : St) :
    (exec (.ctx (.seed n) body .done) st).st.out = st.out ++ (exec (.ctx (.seed n) body .done) canon).st.out ∧
    (exec (.ctx (.seed n) body .done) st).out = (exec (.ctx (.seed n) body .done) canon).out := by
  have hres : resolve st (.seed n) = some ({ st with heap := st.heap ++ [(⟨n, [], 0⟩ : SeqObj)] }, st.heap.length) := rfl
  have hresc : resolve canon (.seed n) = some ({ canon with heap := canon.heap ++ [(⟨n, [], 0⟩ : SeqObj)] }, canon.heap.length) := rfl
  obtain ⟨h1, h2⟩ := ctx_out (.seed n) body st _ _ hres hb
  obtain ⟨c1, c2⟩ := ctx_out (.seed n) body canon _ _ hresc hb
  -- the state after entering is the canonical entered state embedded in the surroundings
  let x0 : St := ⟨[⟨n, [], 0⟩], [⟨0, ⟨n, [], []⟩⟩], [], []⟩
  let env : Env := ⟨st.heap, st.stack, st.out, st.lastSpawn⟩
  have hcan : pushRef { canon with heap := canon.heap ++ [(⟨n, [], 0⟩ : SeqObj)] } canon.heap.length = x0 := by
    simp [pushRef, canon, mkGen, x0]
  have hemb : pushRef { st with heap := st.heap ++ [(⟨n, [], 0⟩ : SeqObj)] } st.heap.length = embed env false x0 := by
    have hg : (st.heap ++ [(⟨n, [], 0⟩ : SeqObj)]).getD st.heap.length ⟨0, [], 0⟩ = ⟨n, [], 0⟩ := by simp [List.getD]
    simp only [pushRef, hg, mkGen, embed, x0, env, shiftFrame, List.map_cons, List.map_nil, List.cons_append,
      List.nil_append, List.append_nil, Nat.add_zero, Bool.false_eq_true, if_false]
  obtain ⟨sp'', e1, e2, _⟩ := exec_embed body env false x0 sp' hb hc (by simp [x0])
  rw [h1, h2, c1, c2, hcan, hemb, e1, e2]
  exact ⟨rfl, rfl⟩

/-- tokens and outcome of `with Context(s): body` in terms of the body's run, for ANY body that leaves a non-empty stack -/
theorem ctx_result (s : SeedSpec) (body : Prog) (st st1 : St) (r : Nat) (f : Frame) (rest : List Frame)
    (hres : resolve st s = some (st1, r)) (hst : (exec body (pushRef st1 r)).st.stack = f :: rest) :
    (exec (.ctx s body .done) st).st.out = (exec body (pushRef st1 r)).st.out ∧
    (exec (.ctx s body .done) st).out =
      (if rest.length ≠ depth st1 then .exc .runtimeError else (exec body (pushRef st1 r)).out) := by
  have key : exec (.ctx s body .done) st =
      (if rest.length ≠ depth st1 then
         ⟨setStack (exec body (pushRef st1 r)).st rest, .exc .runtimeError,
           min (min (depth st) (exec body (pushRef st1 r)).low) rest.length⟩
       else match (exec body (pushRef st1 r)).out with
        | .exc e => ⟨setStack (exec body (pushRef st1 r)).st rest, .exc e,
            min (min (depth st) (exec body (pushRef st1 r)).low) rest.length⟩
        | .ok =>
          let rk := exec .done (setStack (exec body (pushRef st1 r)).st rest)
          ⟨rk.st, rk.out, min (min (min (depth st) (exec body (pushRef st1 r)).low) rest.length) rk.low⟩) := by
    conv_lhs => unfold exec
    simp only [hres, hst]
    try rfl
  rw [key]
  by_cases hne : rest.length ≠ depth st1
  · rw [if_pos hne, if_pos hne]; exact ⟨rfl, rfl⟩
  · rw [if_neg hne, if_neg hne]
    cases ho : (exec body (pushRef st1 r)).out with
    | exc e => exact ⟨rfl, rfl⟩
    | ok => simp [exec, setStack]

/-- the state right after entering `Context(n)` from the canonical (empty) state -/
def entered (n : Nat) : St := ⟨[⟨n, [], 0⟩], [⟨0, ⟨n, [], []⟩⟩], [], []⟩

/-- **draws_depend_only_on_seed_general**: the same statement for bodies WITH raw `push_sseq` / `pop_sseq` calls,
    balanced or not, as long as the body never pops the context's own frame (its canonical run stays at depth ≥ 1) and
    uses only seed sequences created inside: all tokens and the outcome (including `RuntimeError` for an unbalanced body)
    are the same from every entry state -/
theorem draws_depend_only_on_seed_general (n : Nat) (body : Prog) (sp' : Bool)
    (hc : closedFrom false body = some sp') (hl : 1 ≤ (exec body (entered n)).low) (st : St) :
    (exec (.ctx (.seed n) body .done) st).st.out = st.out ++ (exec (.ctx (.seed n) body .done) canon).st.out ∧
    (exec (.ctx (.seed n) body .done) st).out = (exec (.ctx (.seed n) body .done) canon).out := by
  have hres : resolve st (.seed n) = some ({ st with heap := st.heap ++ [(⟨n, [], 0⟩ : SeqObj)] }, st.heap.length) := rfl
  have hresc : resolve canon (.seed n) = some ({ canon with heap := canon.heap ++ [(⟨n, [], 0⟩ : SeqObj)] }, canon.heap.length) := rfl
  let env : Env := ⟨st.heap, st.stack, st.out, st.lastSpawn⟩
  have hcan : pushRef { canon with heap := canon.heap ++ [(⟨n, [], 0⟩ : SeqObj)] } canon.heap.length = entered n := by
    simp [pushRef, canon, mkGen, entered]
  have hemb : pushRef { st with heap := st.heap ++ [(⟨n, [], 0⟩ : SeqObj)] } st.heap.length = embed env false (entered n) := by
    have hg : (st.heap ++ [(⟨n, [], 0⟩ : SeqObj)]).getD st.heap.length ⟨0, [], 0⟩ = ⟨n, [], 0⟩ := by simp [List.getD]
    simp only [pushRef, hg, mkGen, embed, entered, env, shiftFrame, List.map_cons, List.map_nil, List.cons_append,
      List.nil_append, List.append_nil, Nat.add_zero, Bool.false_eq_true, if_false]
  obtain ⟨sp'', e1, e2, _⟩ := exec_embed_nodip body env false (entered n) sp' hc hl
  -- the canonical body leaves a non-empty stack
  have hne := (low_le body (entered n)).2
  cases hst : (exec body (entered n)).st.stack with
  | nil => simp only [depth, hst, List.length_nil] at hne; omega
  | cons f rest =>
    have hstE : (exec body (embed env false (entered n))).st.stack =
        shiftFrame env.pre.length f :: (rest.map (shiftFrame env.pre.length) ++ env.base) := by
      rw [e1, embed_stack, hst]; rfl
    obtain ⟨c1, c2⟩ := ctx_result (.seed n) body canon _ _ f rest hresc (by rw [hcan]; exact hst)
    obtain ⟨h1, h2⟩ := ctx_result (.seed n) body st _ _ _ _ hres (by rw [hemb]; exact hstE)
    rw [h1, h2, c1, c2, hcan, hemb, e1, e2]
    refine ⟨rfl, ?_⟩
    have : ((rest.map (shiftFrame env.pre.length) ++ env.base).length ≠
        depth ({ st with heap := st.heap ++ [(⟨n, [], 0⟩ : SeqObj)] } : St)) ↔
        (rest.length ≠ depth ({ canon with heap := canon.heap ++ [(⟨n, [], 0⟩ : SeqObj)] } : St)) := by
      simp [depth, env, canon]
    by_cases hh : rest.length ≠ depth ({ canon with heap := canon.heap ++ [(⟨n, [], 0⟩ : SeqObj)] } : St)
    · rw [if_pos hh, if_pos (this.mpr hh)]
    · rw [if_neg hh, if_neg (fun x => hh (this.mp x))]

/-! #### why the two remaining restrictions cannot be dropped (witnesses, checked by evaluation) -/

/-- a body that pops the context's own frame and then draws reads the generator BELOW the context: what it draws is
    decided by the history before the context -/
theorem dipping_body_depends_on_history :
    let body := Prog.pop (.draw 0 (.push (.seed 9) .done))
    let st1 := (exec (.draw 0 .done) initSt).st        -- the outer generator has served one request
    (exec (.ctx (.seed 7) body .done) initSt).st.out.drop initSt.out.length ≠
      (exec (.ctx (.seed 7) body .done) st1).st.out.drop st1.out.length := by
  decide

/-- a nested context on a seed sequence that was spawned OUTSIDE depends on that outer object's spawn counter: spawning
    from it inside the body gives different children, hence different draws, depending on earlier spawns -/
theorem outer_spawn_depends_on_history :
    let body := Prog.ctx (.last 0) (.spawn 1 (.ctx (.last 0) (.draw 0 .done) .done)) .done
    let stA := (exec (.spawn 1 .done) initSt).st
    let stB := (exec (.spawn 1 (.ctx (.last 0) (.spawn 2 .done) .done)) initSt).st   -- child 0 has already spawned twice
    (exec (.ctx (.seed 7) body .done) stA).st.out.drop stA.out.length ≠
      (exec (.ctx (.seed 7) body .done) stB).st.out.drop stB.out.length := by
  decide

/-- in particular two arbitrary entry states see the same new draws -/
theorem draws_same_from_any_two_states (n : Nat) (body : Prog) (sp' : Bool)
    (hb : ctxOnly body = true) (hc : closedFrom false body = some sp') (st st' : St) :
    (exec (.ctx (.seed n) body .done) st).st.out.drop st.out.length =
      (exec (.ctx (.seed n) body .done) st').st.out.drop st'.out.length ∧
    (exec (.ctx (.seed n) body .done) st).out = (exec (.ctx (.seed n) body .done) st').out := by
  obtain ⟨a1, a2⟩ := draws_depend_only_on_seed_full n body sp' hb hc st
  obtain ⟨b1, b2⟩ := draws_depend_only_on_seed_full n body sp' hb hc st'
  rw [a1, b1, a2, b2]
  simp

/-- **spawn_children_distinct**: the children of one `spawn(n)` have pairwise different spawn keys, all different from
    the parent's, and different from the keys of every later `spawn` of the same object (the counter advances) -/
theorem spawn_children_distinct (o : SeqObj) (n m : Nat) :
    ((children o n).map (·.key)).Nodup ∧ (∀ c ∈ children o n, c.key ≠ o.key ∧ c.entropy = o.entropy) ∧
    (∀ c ∈ children o n, ∀ c' ∈ children { o with nSpawned := o.nSpawned + n } m, c.key ≠ c'.key) := by
  refine ⟨?_, ?_, ?_⟩
  · unfold children
    rw [List.map_map]
    apply List.Nodup.map (f := fun i => o.key ++ [o.nSpawned + i]) _ List.nodup_range
    intro i j h
    simp only [Function.comp] at h
    have := List.append_cancel_left h
    simp at this; omega
  · intro c hc
    simp only [children, List.mem_map, List.mem_range] at hc
    obtain ⟨i, _, rfl⟩ := hc
    refine ⟨?_, rfl⟩
    intro h
    have := congrArg List.length h
    simp at this
  · intro c hc c' hc' h
    simp only [children, List.mem_map, List.mem_range] at hc hc'
    obtain ⟨i, hi, rfl⟩ := hc
    obtain ⟨j, _, rfl⟩ := hc'
    simp only at h
    have := List.append_cancel_left h
    simp at this; omega

/-- **vi_key_schedule**: in the JAX VI driver the key after `i` updates and the sampling key of iteration `i` are
    functions of the initial key and `i` only — not of the sample modes chosen in earlier iterations -/
theorem vi_key_schedule {Key Mode} (split : Key → Key × Key) (k0 : Key) (modes : List Mode) :
    (runKeys split k0 modes).1 = keyAt split k0 modes.length ∧
    (runKeys split k0 modes).2 = (List.range modes.length).map (fun i => (split (keyAt split k0 i)).2) := by
  have key : ∀ (ms : List Mode) (k : Key) (j : Nat), k = keyAt split k0 j →
      (runKeys split k ms).1 = keyAt split k0 (j + ms.length) ∧
      (runKeys split k ms).2 = (List.range' j ms.length).map (fun i => (split (keyAt split k0 i)).2) := by
    intro ms
    induction ms with
    | nil => intro k j h; simp [runKeys, h]
    | cons m ms ih =>
      intro k j h
      have := ih (split k).1 (j + 1) (by rw [h]; rfl)
      simp only [runKeys, updateKey, List.length_cons, List.range'_succ, List.map_cons]
      refine ⟨?_, ?_⟩
      · rw [this.1]; congr 1; omega
      · rw [this.2, h]
  have := key modes k0 0 rfl
  simpa [List.range_eq_range'] using this

/-! ### non-vacuity -/

-- with Context(7): draw; with Context(8): draw; raise  — stack restored, exception propagates, tokens as expected
example : let r := exec (.ctx (.seed 7) (.draw 1 (.ctx (.seed 8) (.draw 2 (.raise 5)) .done)) .done) initSt
    (r.st.stack = initSt.stack ∧ r.out = .exc (.user 5) ∧ r.st.out = [⟨7, [], [1]⟩, ⟨8, [], [2]⟩]) := by decide
-- an unbalanced body (raw push inside the context) is detected
example : (exec (.ctx (.seed 7) (.push (.seed 9) .done) .done) initSt).out = .exc .runtimeError := by decide
-- a body that pops the context's own frame and the one below, then pushes two: same depth, but NOT restored
-- (this is why `context_restores` needs the "never pops below" hypothesis)
example : let r := exec (.push (.seed 1) (.ctx (.seed 7) (.pop (.pop (.push (.seed 3) (.push (.seed 4) .done)))) .done)) initSt
    (r.out = .ok ∧ r.st.stack.map (·.gen.entropy) = [3, 42]) := by decide
example : (children ⟨42, [3], 2⟩ 2).map (·.key) = [[3, 2], [3, 3]] := by decide
-- a closed body with a spawned child context: accepted by `closedFrom`; a body using an OUTER spawn result is not
example : closedFrom false (.spawn 2 (.ctx (.last 1) (.draw 0 .done) (.draw 1 .done))) = some true := by decide
example : closedFrom false (.ctx (.last 0) (.draw 0 .done) .done) = none := by decide
-- an unbalanced but non-dipping body with raw pushes: covered by the general theorem
example : closedFrom false (.push (.seed 3) (.draw 1 (.pop (.push (.seed 4) .done)))) = some false ∧
    1 ≤ (exec (.push (.seed 3) (.draw 1 (.pop (.push (.seed 4) .done)))) (entered 7)).low := by decide

end NiftyVerif.C21
