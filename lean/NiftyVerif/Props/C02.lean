/-
  C02 — Every library linear operator is adjoint/inverse consistent and correct.
  Property theorems only; helper lemmas live in Lemmas/Coo.lean, Lemmas/LinOps.lean, Lemmas/CQ.lean.
  Obligations are listed in harness/props/c02.py.

  Part 1 (generic, all operators): every operator of the library in scope is modelled as a `Coo` (weighted index
  map, Model/LinOps.lean); for EVERY well-formed `Coo`, all sizes, all vectors, every commutative ring with an
  involutive conjugation: adjointness, linearity, dense(adj) = denseᴴ, dense(M∘N) = dense M · dense N,
  apply = dense · x, Kronecker embedding acts fibre-wise and commutes with adj, ravel/unravel are mutually inverse.
  Part 2 (per operator): the documented definition as a closed formula of the model's `apply` / `applyAdj`.
  The tie to nifty/cl/operators/* is the exact dense-matrix comparison of harness/props/c02.py.
-/
import NiftyVerif.Lemmas.Coo
import NiftyVerif.Lemmas.LinOps
import NiftyVerif.Lemmas.LinOpsWf
import NiftyVerif.Lemmas.Transpose
import NiftyVerif.Lemmas.LinOpsMore
import NiftyVerif.Lemmas.HarmonicCoo
import NiftyVerif.Lemmas.CQ

namespace NiftyVerif.C02
open NiftyVerif NiftyVerif.Coo NiftyVerif.LinOps

variable {K : Type} [CommRing K]

/-! ## Part 1 — generic -/

/-- adjointness for EVERY well-formed COO operator: `⟨y, M x⟩ = ⟨Mᴴ y, x⟩`, all sizes, all vectors -/
theorem coo_adjoint {cj : K → K} (hc : IsConj cj) (M : Coo K) (hwf : M.wf = true) (x y : Nat → K) :
    inner cj M.rows y (apply M x) = inner cj M.cols (applyAdj cj M y) x :=
  Coo.coo_adjoint hc M hwf x y

/-- linearity -/
theorem coo_linear (M : Coo K) (a b : K) (x y : Nat → K) (r : Nat) :
    apply M (fun i => a * x i + b * y i) r = a * apply M x r + b * apply M y r :=
  Coo.coo_linear M a b x y r

/-- the dense matrix of the adjoint is the conjugate transpose -/
theorem coo_dense_adj {cj : K → K} (hc : IsConj cj) (M : Coo K) (r c : Nat) :
    dense (adj cj M) c r = cj (dense M r c) := Coo.coo_dense_adj hc M r c

/-- the dense matrix of a composition is the matrix product -/
theorem coo_comp (M N : Coo K) (hN : N.wf = true) (hdim : N.rows = M.cols) (r c : Nat) :
    dense (comp M N) r c = sumN M.cols fun k => dense M r k * dense N k c := Coo.coo_comp M N hN hdim r c

/-- applying is multiplying by the dense matrix -/
theorem coo_apply_dense (M : Coo K) (hwf : M.wf = true) (x : Nat → K) (r : Nat) :
    apply M x r = sumN M.cols fun c => dense M r c * x c := Coo.apply_eq_dense M hwf x r

/-- operators acting on one sub-domain of a product domain (`onAxis`) act fibre by fibre … -/
theorem onAxis_spec (pre post : Nat) (M : Coo K) (hwf : M.wf = true) (x : Nat → K)
    (a r b : Nat) (ha : a < pre) (hr : r < M.rows) (hb : b < post) :
    apply (onAxis pre post M) x ((a * M.rows + r) * post + b)
      = apply M (fun c => x ((a * M.cols + c) * post + b)) r := apply_onAxis pre post M hwf x a r b ha hr hb

/-- … and taking the adjoint commutes with the embedding -/
theorem onAxis_adjoint (cj : K → K) (pre post : Nat) (M : Coo K) :
    adj cj (onAxis pre post M) = onAxis pre post (adj cj M) := adj_onAxis cj pre post M

theorem onAxis_wellformed (pre post : Nat) (M : Coo K) (hwf : M.wf = true) : (onAxis pre post M).wf = true :=
  onAxis_wf pre post M hwf

/-- row-major ravel / unravel are mutually inverse, with bounds -/
theorem unravel_ravel_id (sh idx : List Nat) (h : inShape sh idx = true) :
    unravel sh (ravel sh idx) = idx ∧ ravel sh idx < prodL sh := ⟨unravel_ravel sh idx h, ravel_lt sh idx h⟩

theorem ravel_unravel_id (sh : List Nat) (k : Nat) (h : k < prodL sh) :
    ravel sh (unravel sh k) = k ∧ inShape sh (unravel sh k) = true := ⟨ravel_unravel sh k h, unravel_inShape sh k h⟩

/-- the scalars the driver computes with satisfy the hypotheses of the generic theorems -/
theorem cq_isConj : IsConj CQ.conj := CQ.conj_isConj

/-- … and the ring structure used in the theorems is definitionally the arithmetic of Model/CQ.lean -/
example (M : Coo CQ) (x : Nat → CQ) (r : Nat) :
    @Coo.apply CQ CQ.instCommRing.toAdd CQ.instCommRing.toMul Zero.toOfNat0 M x r
      = @Coo.apply CQ CQ.addI CQ.mulI CQ.zeroI M x r := rfl

-- non-vacuity of the generic part: a concrete complex 2×3 operator with a repeated entry
example : (⟨2, 3, [(0, 1, (⟨1, 2⟩ : CQ)), (1, 2, ⟨0, 1⟩), (0, 1, ⟨3, 0⟩)]⟩ : Coo CQ).wf = true := by decide

/-! ## Part 2 — per operator -/

/-- pure gather: `y r = x (src r)` -/
theorem gather_spec (rows cols : Nat) (src : Nat → Nat) (x : Nat → K) (r : Nat) (hr : r < rows) :
    apply (gather rows cols src) x r = x (src r) := by
  rw [apply_gather]; simp [hr]

/-- adjoint of a gather: scatter-add -/
theorem gather_adj_spec {cj : K → K} (hc1 : cj 1 = 1) (rows cols : Nat) (src : Nat → Nat) (y : Nat → K) (c : Nat) :
    applyAdj cj (gather rows cols src) y c = sumN rows fun r => if src r = c then y r else 0 :=
  applyAdj_gather hc1 rows cols src y c

/-- permutation-type gathers (TransposeOperator, FFTShiftOperator): the adjoint is the inverse, both ways -/
theorem gather_perm_unitary {cj : K → K} (hc1 : cj 1 = 1) (N : Nat) (src inv : Nat → Nat)
    (hinv : ∀ r, r < N → ∀ c, c < N → (src r = c ↔ r = inv c)) (hsrclt : ∀ r, r < N → src r < N)
    (hinvlt : ∀ c, c < N → inv c < N) (x : Nat → K) (i : Nat) (hi : i < N) :
    applyAdj cj (gather N N src) (apply (gather N N src) x) i = x i ∧
    apply (gather N N src) (applyAdj cj (gather N N src) x) i = x i :=
  ⟨gather_perm_inverse hc1 N src inv hinv hinvlt x i hi, gather_perm_inverse' hc1 N src inv hinv hsrclt hinvlt x i hi⟩

section field
variable {F : Type} [Field F]

/-- ContractionOperator / IntegrationOperator: `y[r] = Σ_{c : kept part of c is r} w(c) · x[c]` with
    `w(c) = Π_{s ∈ spaces} dvol_s[c_s]^power` (1 when power = 0) -/
theorem contraction_spec (doms : List (SubDom F)) (spaces : List Nat) (power : Int) (x : Nat → F) (r : Nat) :
    let sizes := doms.map SubDom.size
    let kept := (List.range doms.length).filter fun i => !spaces.contains i
    let rowOf := fun c => ravel (kept.map fun i => sizes.getD i 1) (kept.map fun i => (unravel sizes c).getD i 0)
    apply (contraction doms spaces power) x r =
      sumN (prodL sizes) fun c =>
        if rowOf c = r then (if power = 0 then 1 else weightAt doms spaces power c) * x c else 0 := by
  intro sizes kept rowOf
  unfold contraction
  rw [apply_ofCols]
  apply sumN_congr; intro c _
  simp only [List.map_cons, List.map_nil, sumL_cons, sumL_nil, add_zero]
  rfl

/-- its adjoint broadcasts and weights: `(Aᴴ y)[c] = conj(w(c)) · y[kept part of c]` -/
theorem contraction_adj_spec (cj : F → F) (doms : List (SubDom F)) (spaces : List Nat) (power : Int) (y : Nat → F)
    (c : Nat) (hc : c < prodL (doms.map SubDom.size)) :
    let sizes := doms.map SubDom.size
    let kept := (List.range doms.length).filter fun i => !spaces.contains i
    let rowOf := fun c => ravel (kept.map fun i => sizes.getD i 1) (kept.map fun i => (unravel sizes c).getD i 0)
    applyAdj cj (contraction doms spaces power) y c =
      cj (if power = 0 then 1 else weightAt doms spaces power c) * y (rowOf c) := by
  intro sizes kept rowOf
  unfold applyAdj contraction
  rw [adj_ofCols, apply_ofRows]
  simp only [hc, if_true, List.map_cons, List.map_nil, sumL_cons, sumL_nil, add_zero]
  rfl

/-- WeightApplier: diagonal with the volume factor -/
theorem weightApplier_spec (doms : List (SubDom F)) (spaces : List Nat) (power : Int) (x : Nat → F) (c : Nat)
    (hc : c < prodL (doms.map SubDom.size)) :
    apply (weightApplier doms spaces power) x c = weightAt doms spaces power c * x c := by
  unfold weightApplier; rw [apply_diag]; simp [hc]

/-- WeightApplier modes: `power` on modes 1,2 and `−power` on modes 4,8 are mutual inverses whenever the
    volume elements involved are non-zero -/
theorem weightApplier_modes (doms : List (SubDom F)) (spaces : List Nat) (power : Int) (x : Nat → F) (c : Nat)
    (hc : c < prodL (doms.map SubDom.size))
    (hvol : ∀ s ∈ spaces, ∀ d, doms[s]? = some d → d.w ((unravel (doms.map SubDom.size) c).getD s 0) ≠ 0) :
    apply (weightApplier doms spaces (-power)) (apply (weightApplier doms spaces power) x) c = x c := by
  rw [weightApplier_spec _ _ _ _ _ hc, weightApplier_spec _ _ _ _ _ hc, ← mul_assoc]
  have : weightAt doms spaces (-power) c * weightAt doms spaces power c = 1 := by
    unfold weightAt
    simp only
    rw [mul_comm]
    apply prodK_mul_map
    intro s hs
    cases hd : doms[s]? with
    | none => simp
    | some d => simp only; exact powI_neg _ (hvol s hs d hd) power
  rw [this, one_mul]

end field

/-- one fibre of DOFDistributor / PowerDistributor (the full operator is `onAxis pre post` of it, see `onAxis_spec`):
    `y[p] = x[dofdex[p]]` -/
theorem distributor1_spec (nbin : Nat) (dofdex : List Nat) (x : Nat → K) (p : Nat) (hp : p < dofdex.length) :
    apply (gather dofdex.length nbin fun p => dofdex.getD p 0) x p = x (dofdex.getD p 0) :=
  gather_spec _ _ _ x p hp

/-- … and the adjoint sums a bin: `(Aᴴ y)[b] = Σ_{p : dofdex[p] = b} y[p]` -/
theorem distributor1_adj_spec {cj : K → K} (hc1 : cj 1 = 1) (nbin : Nat) (dofdex : List Nat) (y : Nat → K) (b : Nat) :
    applyAdj cj (gather dofdex.length nbin fun p => dofdex.getD p 0) y b
      = sumN dofdex.length fun p => if dofdex.getD p 0 = b then y p else 0 :=
  gather_adj_spec hc1 _ _ _ y b

/-- the full distributor on a `(pre, n, post)` target: `y[a, p, b] = x[a, dofdex[p], b]` -/
theorem distributor_spec (pre post nbin : Nat) (dofdex : List Nat) (hdof : ∀ p, p < dofdex.length → dofdex.getD p 0 < nbin)
    (x : Nat → K) (a p b : Nat) (ha : a < pre) (hp : p < dofdex.length) (hb : b < post) :
    apply (distributor pre post nbin dofdex) x ((a * dofdex.length + p) * post + b)
      = x ((a * nbin + dofdex.getD p 0) * post + b) := by
  unfold distributor
  have hwf : (gather dofdex.length nbin fun p => dofdex.getD p 0 : Coo K).wf = true := gather_wf _ _ _ hdof
  have := apply_onAxis pre post (gather dofdex.length nbin fun p => dofdex.getD p 0 : Coo K) hwf x a p b ha hp hb
  simp only [gather, ofRows] at this ⊢
  rw [this]
  have h2 := gather_spec (K := K) dofdex.length nbin (fun p => dofdex.getD p 0)
    (fun c => x ((a * nbin + c) * post + b)) p hp
  simpa [gather, ofRows] using h2

/-- MaskOperator: output `r` is the `r`-th unflagged pixel (in raveled order) -/
theorem mask_spec (flags : List Bool) (x : Nat → K) (r : Nat) (hr : r < (unflagged flags).length) :
    apply (mask flags) x r = x ((unflagged flags).getD r 0) := by
  unfold mask; exact gather_spec _ _ _ x r hr

/-- the mask has one row per unflagged pixel, the selected pixels are exactly the unflagged ones, in order -/
theorem mask_rows (flags : List Bool) :
    (mask flags : Coo K).rows = (unflagged flags).length ∧
    (unflagged flags).Pairwise (· < ·) ∧
    (∀ i, i ∈ unflagged flags ↔ i < flags.length ∧ flags.getD i true = false) :=
  ⟨rfl, unflagged_sorted flags, mem_unflagged flags⟩

/-- adjoint of the mask: scatter back (flagged pixels receive nothing) -/
theorem mask_adj_spec {cj : K → K} (hc1 : cj 1 = 1) (flags : List Bool) (y : Nat → K) (c : Nat) :
    applyAdj cj (mask flags) y c =
      sumN (unflagged flags).length fun r => if (unflagged flags).getD r 0 = c then y r else 0 := by
  unfold mask; exact gather_adj_spec hc1 _ _ _ y c

/-- flagged pixels get zero from the adjoint -/
theorem mask_adj_flagged {cj : K → K} (hc1 : cj 1 = 1) (flags : List Bool) (y : Nat → K) (c : Nat)
    (hfl : c ∉ unflagged flags) : applyAdj cj (mask flags) y c = 0 := by
  rw [mask_adj_spec hc1]
  apply sumL_map_eq_zero; intro r hr
  have hr' := List.mem_range.mp hr
  have : (unflagged flags).getD r 0 ≠ c := by
    intro h; apply hfl; rw [← h, List.getD_eq_getElem?_getD, List.getElem?_eq_getElem hr', Option.getD_some]
    exact List.getElem_mem hr'
  exact if_neg this

/-- FieldZeroPadder, one axis, plain: `y[i] = x[i]` for `i < n`, zero behind -/
theorem pad1_plain_spec (n N : Nat) (x : Nat → K) (i : Nat) :
    apply (pad1 n N false) x i = if i < n then x i else 0 := by
  unfold pad1; simp only [Bool.false_eq_true, if_false]
  rw [apply_ofCols]
  by_cases h : i < n
  · simp only [h, if_true]
    rw [← sumN_ite_eq' n i h (fun c => x c)]
    apply sumN_congr; intro c _
    simp only [List.map_cons, List.map_nil, sumL_cons, sumL_nil, add_zero, one_mul]
    by_cases h2 : c = i
    · subst h2; simp
    · have h3 : ¬ i = c := fun hh => h2 hh.symm
      simp [h2, h3]
  · simp only [h, if_false]
    apply sumL_map_eq_zero; intro c hc
    have := List.mem_range.mp hc
    have : ¬ c = i := by omega
    simp [this]

/-- FieldZeroPadder, one axis, central (`n < N`): the first `n/2 + 1` entries stay in front, the last `n/2`
    entries move to the end, zeros in between (the Nyquist entry of an even axis appears on both sides) -/
theorem pad1_central_spec (n N : Nat) (hn : 0 < n) (hnN : n < N) (x : Nat → K) (i : Nat) (hi : i < N) :
    apply (pad1 n N true) x i =
      (if i ≤ n / 2 then x i else 0) + (if N - n / 2 ≤ i then x (i + n - N) else 0) := by
  unfold pad1; simp only [if_true]
  rw [apply_ofCols]
  have hsplit : ∀ c, sumL (((if c ≤ n / 2 then [(c, (1 : K))] else []) ++
        (if n - n / 2 ≤ c then [(N - n + c, (1 : K))] else [])).map
        fun rw => if rw.1 = i then rw.2 * x c else 0)
      = (if c = i then (if c ≤ n / 2 then x c else 0) else 0)
        + (if c = i + n - N then (if N - n / 2 ≤ i then x c else 0) else 0) := by
    intro c
    rw [List.map_append, sumL_append]
    congr 1
    · by_cases h1 : c ≤ n / 2
      · rw [if_pos h1]
        simp only [List.map_cons, List.map_nil, sumL_cons, sumL_nil, add_zero, one_mul]
        by_cases h2 : c = i
        · rw [if_pos h2, if_pos h2, if_pos h1]
        · rw [if_neg h2, if_neg h2]
      · rw [if_neg h1]
        simp only [List.map_nil, sumL_nil]
        by_cases h2 : c = i
        · rw [if_pos h2, if_neg h1]
        · rw [if_neg h2]
    · by_cases h1 : n - n / 2 ≤ c
      · rw [if_pos h1]
        simp only [List.map_cons, List.map_nil, sumL_cons, sumL_nil, add_zero, one_mul]
        by_cases h2 : N - n + c = i
        · have h3 : c = i + n - N := by omega
          have h4 : N - n / 2 ≤ i := by omega
          rw [if_pos h2, if_pos h3, if_pos h4]
        · by_cases h3 : c = i + n - N
          · by_cases h4 : N - n / 2 ≤ i
            · exfalso; apply h2; omega
            · rw [if_neg h2, if_pos h3, if_neg h4]
          · rw [if_neg h2, if_neg h3]
      · rw [if_neg h1]
        simp only [List.map_nil, sumL_nil]
        by_cases h3 : c = i + n - N
        · by_cases h4 : N - n / 2 ≤ i
          · exfalso; apply h1; omega
          · rw [if_pos h3, if_neg h4]
        · rw [if_neg h3]
  have : sumN n (fun c => sumL (((if c ≤ n / 2 then [(c, (1 : K))] else []) ++
        (if n - n / 2 ≤ c then [(N - n + c, (1 : K))] else [])).map
        fun rw => if rw.1 = i then rw.2 * x c else 0))
      = sumN n (fun c => if c = i then (if c ≤ n / 2 then x c else 0) else 0)
        + sumN n (fun c => if c = i + n - N then (if N - n / 2 ≤ i then x c else 0) else 0) := by
    rw [← sumN_add]; apply sumN_congr; intro c _; exact hsplit c
  rw [this]
  congr 1
  · by_cases h : i < n
    · rw [sumN_ite_eq n i h (fun c => if c ≤ n / 2 then x c else 0)]
    · rw [sumN_ite_ge n i (by omega)]
      have : ¬ i ≤ n / 2 := by omega
      simp [this]
  · by_cases h : N - n / 2 ≤ i
    · have h2 : i + n - N < n := by omega
      rw [sumN_ite_eq n (i + n - N) h2 (fun c => if N - n / 2 ≤ i then x c else 0)]
    · simp only [h, if_false]
      apply sumL_map_eq_zero; intro c _; simp

/-- ValueInserter: zero except at the index -/
theorem valueInserter_spec (shape index : List Nat) (x : Nat → K) (r : Nat) :
    apply (valueInserter shape index) x r = if ravel shape index = r then x 0 else 0 := by
  simp [valueInserter, apply, applyE]

/-- OuterProduct: `y[i·n + j] = f[i] · x[j]` -/
theorem outerProduct_spec (n : Nat) (f : List K) (x : Nat → K) (r : Nat) (hr : r < f.length * n) :
    apply (outerProduct n f) x r = f.getD (r / n) 0 * x (r % n) := by
  unfold outerProduct; rw [apply_ofRows]; simp [hr]

/-- VdotOperator: `y = Σ_c conj(f[c]) · x[c]` -/
theorem vdot_spec (cj : K → K) (f : List K) (x : Nat → K) :
    apply (vdot cj f) x 0 = sumN f.length fun c => cj (f.getD c 0) * x c := by
  unfold vdot; rw [apply_ofRows]
  simp only [Nat.lt_one_iff, if_true, List.map_map]
  rfl

/-- and its adjoint multiplies the field with the scalar: `(Aᴴ s)[c] = f[c] · s` -/
theorem vdot_adj_spec {cj : K → K} (hc : IsConj cj) (f : List K) (s : Nat → K) (c : Nat) (hc' : c < f.length) :
    applyAdj cj (vdot cj f) s c = f.getD c 0 * s 0 := by
  unfold applyAdj vdot; rw [adj_ofRows, apply_ofCols]
  simp only [sumN, List.range_one, List.map_cons, List.map_nil, sumL_cons, sumL_nil, add_zero, List.map_map]
  have := sumN_ite_eq (K := K) f.length c hc' (fun c' => f.getD c' 0 * s 0)
  unfold sumN at this
  rw [← this]
  apply sumL_map_congr; intro a _
  simp only [Function.comp]
  by_cases h : a = c
  · subst h; simp [hc.invol]
  · simp [h]

/-- diagonal operators (DiagonalOperator-like, WeightApplier, conjugation on doubled coordinates) -/
theorem diag_spec (n : Nat) (d : Nat → K) (x : Nat → K) (r : Nat) (hr : r < n) :
    apply (diag n d) x r = d r * x r := by rw [apply_diag]; simp [hr]

/-- DiagonalOperator(diagonal, domain, spaces): pixel-wise product with the diagonal entry found at the sub-index of
    `c` on `spaces`, where `spaces[i]` carries the diagonal's i-th sub-domain — in ANY order of `spaces`
    (finding C02-diagonal_permuted_spaces) -/
theorem diagonalOp_spec (sizes spaces : List Nat) (d : List K) (x : Nat → K) (c : Nat) (hc : c < prodL sizes) :
    apply (diagonalOp sizes spaces d) x c =
      d.getD (ravel (spaces.map fun s => sizes.getD s 1) (spaces.map fun s => (unravel sizes c).getD s 0)) 0 * x c := by
  unfold diagonalOp; rw [diag_spec _ _ _ _ hc]

/-- ConjugationOperator (real-doubled coordinates) is an involution: all four modes coincide -/
theorem conjugation_involutive (n : Nat) (x : Nat → K) (r : Nat) (hr : r < 2 * n) :
    apply (conjugation n) (apply (conjugation n) x) r = x r := by
  unfold conjugation
  rw [diag_spec _ _ _ _ hr, diag_spec _ _ _ _ hr]
  by_cases h : r % 2 = 0 <;> simp [h]

/-- conjugation really conjugates: real part kept, imaginary part negated -/
theorem conjugation_spec (n : Nat) (x : Nat → K) (k : Nat) (hk : k < n) :
    apply (conjugation n) x (2 * k) = x (2 * k) ∧ apply (conjugation n) x (2 * k + 1) = - x (2 * k + 1) := by
  unfold conjugation
  rw [diag_spec _ _ _ _ (by omega), diag_spec _ _ _ _ (by omega)]
  constructor
  · simp
  · have : (2 * k + 1) % 2 = 1 := by omega
    simp [this]

/-- Realizer is a projection, and is its own adjoint (symmetric on doubled coordinates) -/
theorem realizer_idempotent (n : Nat) (x : Nat → K) (r : Nat) :
    apply (realizer n) (apply (realizer n) x) r = apply (realizer n) x r := by
  unfold realizer
  rw [apply_ofRows, apply_ofRows]
  by_cases hr : r < 2 * n
  · by_cases h : r % 2 = 0
    · simp [hr, h, apply_ofRows]
    · simp [hr, h]
  · simp [hr]

/-- one axis of RegriddingOperator: linear interpolation between the clamped base pixel and its neighbour -/
theorem regrid1_spec (q : Nat → Nat → K) (n N : Nat) (x : Nat → K) (j : Nat) (hj : j < N) :
    let b := min (n - 2) (j * n / N)
    let t := q (j * n - b * N) N
    apply (regrid1 q n N) x j = (1 - t) * x b + t * x (min (n - 1) (b + 1)) := by
  intro b t
  unfold regrid1; rw [apply_ofRows]
  simp only [hj, if_true, List.map_cons, List.map_nil, sumL_cons, sumL_nil, add_zero]
  rfl

/-- the regridding axis operator is well-formed for every non-empty axis (so `coo_adjoint` applies), including
    the axis of length 1 on which the unrepaired code indexed pixel −1 -/
theorem regrid1_wf (q : Nat → Nat → K) (n N : Nat) (hn : 1 ≤ n) : (regrid1 q n N).wf = true :=
  regrid1_wf' q n N hn

/-- one fibre of MatrixProductOperator: `y[i] = Σ_j m[i,j] x[j]` -/
theorem matrixProduct1_spec (n : Nat) (m : List K) (x : Nat → K) (i : Nat) (hi : i < n) :
    apply (ofRows n n fun i => (List.range n).map fun j => (j, m.getD (i * n + j) 0)) x i
      = sumN n fun j => m.getD (i * n + j) 0 * x j := by
  rw [apply_ofRows]; simp only [hi, if_true, List.map_map]; rfl


/-- SliceOperator / SplitOperator / ExtractAtIndices core: `y[k] = x[sel_0[k_0], sel_1[k_1], …]` in raveled form -/
theorem axisSelect_spec (sh : List Nat) (sel : List (List Nat)) (x : Nat → K) (r : Nat)
    (hr : r < prodL (sel.map List.length)) :
    apply (axisSelect sh sel) x r =
      x (ravel sh ((List.range sh.length).map fun d =>
        (sel.getD d []).getD ((unravel (sel.map List.length) r).getD d 0) 0)) := by
  unfold axisSelect; exact gather_spec _ _ _ x r hr

/-- SliceOperator, one axis: the selected pixels are `npix` consecutive in-range pixels; centred slices leave
    `floor((n−npix)/2)` pixels in front and the remaining `ceil` behind -/
theorem sliceSel_spec (n npix : Nat) (center : Bool) (h : npix ≤ n) :
    (sliceSel n npix center).length = npix ∧
    (∀ k, k < npix → (sliceSel n npix center).getD k 0 = (if center then (n - npix) / 2 else 0) + k) ∧
    (∀ i ∈ sliceSel n npix center, i < n) := by
  refine ⟨by simp [sliceSel], ?_, ?_⟩
  · intro k hk
    unfold sliceSel
    rw [getD_map_range _ _ _ _ hk]
  · intro i hi
    simp only [sliceSel, List.mem_map, List.mem_range] at hi
    obtain ⟨k, hk, rfl⟩ := hi
    split <;> omega

/-- `utilities.parse_spaces`: `None` means all sub-domains; an accepted tuple is returned unchanged and is in range -/
theorem parseSpaces_ok (n : Nat) :
    parseSpaces none n = .ok (List.range n) ∧
    ∀ l' l, parseSpaces (some l') n = .ok l → l = l' ∧ ∀ s ∈ l, s < n := by
  refine ⟨rfl, ?_⟩
  intro l' l h
  simp only [parseSpaces] at h
  split at h
  · rename_i he
    simp only [Except.ok.injEq] at h; subst h
    simp only [List.isEmpty_iff] at he; subst he
    exact ⟨rfl, fun s hs => by simp at hs⟩
  · split at h
    · cases h
    · rename_i hany
      split at h
      · cases h
      · simp only [Except.ok.injEq] at h; subst h
        refine ⟨rfl, ?_⟩
        intro s hs
        by_contra hge
        apply hany
        simp only [List.any_eq_true, decide_eq_true_eq]
        exact ⟨s, hs, by omega⟩

/-- the indices a (repaired) SplitOperator selects for `start:stop:step` are exactly NumPy's: all
    `start + k·step` below `min stop n` — in particular their number is the ceiling, not the floor, of
    `(stop − start)/step` (finding C02-split_strided_length) -/
theorem sliceIdx_spec (start stop step n : Nat) (hstep : 0 < step) (i : Nat) :
    i ∈ sliceIdx start stop step n ↔ ∃ k, i = start + k * step ∧ i < min stop n := by
  unfold sliceIdx
  have hs : step ≠ 0 := by omega
  simp only [hs, if_false, List.mem_map, List.mem_range]
  have key : ∀ k, k < (min stop n - start + step - 1) / step ↔ start + k * step < min stop n := by
    intro k
    rw [Nat.lt_iff_add_one_le, Nat.le_div_iff_mul_le hstep]
    constructor
    · intro h
      have : (k + 1) * step = k * step + step := by ring
      omega
    · intro h
      have : (k + 1) * step = k * step + step := by ring
      omega
  constructor
  · rintro ⟨k, hk, rfl⟩; exact ⟨k, rfl, (key k).mp hk⟩
  · rintro ⟨k, rfl, hk⟩; exact ⟨k, (key k).mpr hk, rfl⟩

/-- e.g. `0:5:2` on an axis of length 5 selects three elements -/
example : sliceIdx 0 5 2 5 = [0, 2, 4] := by decide

/-- FFTShiftOperator, one axis: `ifftshift ∘ fftshift = id` (modes 1/8 and 2/4 are mutually inverse permutations) -/
theorem shift1_inverse (n : Nat) (x : Nat → K) (i : Nat) (hi : i < n) :
    apply (shift1 n true) (apply (shift1 n false) x) i = x i := by
  unfold shift1
  have hmod : ∀ a k, a < n → k ≤ n → (a + k) % n = if a + k < n then a + k else a + k - n := by
    intro a k ha hk
    by_cases h : a + k < n
    · simp [h, Nat.mod_eq_of_lt h]
    · simp only [h, if_false]
      rw [Nat.mod_eq_sub_mod (by omega), Nat.mod_eq_of_lt (by omega)]
  simp only [Bool.false_eq_true, if_false, if_true]
  have h1 : (i + n / 2) % n < n := Nat.mod_lt _ (by omega)
  rw [gather_spec _ _ _ _ i hi, gather_spec _ _ _ _ _ h1]
  congr 1
  rw [hmod i (n / 2) hi (Nat.div_le_self n 2)]
  by_cases h : i + n / 2 < n
  · simp only [h, if_true]
    rw [hmod _ _ h (by omega)]
    have : ¬ (i + n / 2 + (n - n / 2) < n) := by omega
    simp only [this, if_false]; omega
  · simp only [h, if_false]
    rw [hmod _ _ (by omega) (by omega)]
    have : i + n / 2 - n + (n - n / 2) < n := by omega
    simp only [this, if_true]; omega

/-- DomainTupleFieldInserter on a `(pre, n, post)` target: the input lands at position `p` of the new space, zeros elsewhere -/
theorem fieldInserter_spec (pre n post p : Nat) (hp : p < n) (x : Nat → K) (a r b : Nat)
    (ha : a < pre) (hr : r < n) (hb : b < post) :
    apply (fieldInserter pre n post p) x ((a * n + r) * post + b) = if p = r then x ((a * 1 + 0) * post + b) else 0 := by
  unfold fieldInserter
  have hwf : (⟨n, 1, [(p, 0, (1 : K))]⟩ : Coo K).wf = true := by
    rw [wf_iff]; intro e he; simp only [List.mem_singleton] at he; subst he; exact ⟨hp, Nat.zero_lt_one⟩
  have := apply_onAxis pre post (⟨n, 1, [(p, 0, (1 : K))]⟩ : Coo K) hwf x a r b ha hr hb
  simp only at this
  rw [this]
  simp [apply, applyE]

/-- ExtractAtIndices on a `(pre, n, post)` domain: `y[a, k, b] = x[a, idx[k], b]` (repeated indices allowed) -/
theorem extractAt_spec (pre n post : Nat) (idx : List Nat) (hidx : ∀ k, k < idx.length → idx.getD k 0 < n)
    (x : Nat → K) (a k b : Nat) (ha : a < pre) (hk : k < idx.length) (hb : b < post) :
    apply (extractAt pre n post idx) x ((a * idx.length + k) * post + b) = x ((a * n + idx.getD k 0) * post + b) := by
  unfold extractAt
  have hwf : (gather idx.length n fun k => idx.getD k 0 : Coo K).wf = true := gather_wf _ _ _ hidx
  have := apply_onAxis pre post (gather idx.length n fun k => idx.getD k 0 : Coo K) hwf x a k b ha hk hb
  simp only [gather, ofRows] at this ⊢
  rw [this]
  have h2 := gather_spec (K := K) idx.length n (fun k => idx.getD k 0) (fun c => x ((a * n + c) * post + b)) k hk
  simpa [gather, ofRows] using h2

/-- MatrixProductOperator on the middle block of a `(pre, n, post)` domain: `y[a, i, b] = Σ_j m[i, j] · x[a, j, b]` -/
theorem matrixProduct_spec (pre n post : Nat) (m : List K) (x : Nat → K) (a i b : Nat)
    (ha : a < pre) (hi : i < n) (hb : b < post) :
    apply (matrixProduct pre n post m) x ((a * n + i) * post + b)
      = sumN n fun j => m.getD (i * n + j) 0 * x ((a * n + j) * post + b) := by
  unfold matrixProduct
  have hwf : (ofRows n n fun i => (List.range n).map fun j => (j, m.getD (i * n + j) 0) : Coo K).wf = true := by
    apply ofRows_wf; intro r _ cw hcw
    simp only [List.mem_map, List.mem_range] at hcw
    obtain ⟨c, hc, rfl⟩ := hcw; exact hc
  have := apply_onAxis pre post (ofRows n n fun i => (List.range n).map fun j => (j, m.getD (i * n + j) 0) : Coo K)
    hwf x a i b ha hi hb
  simp only [ofRows] at this ⊢
  rw [this]
  have h2 := matrixProduct1_spec (K := K) n m (fun c => x ((a * n + c) * post + b)) i hi
  simpa [ofRows] using h2

/-- every row-wise operator with in-range columns satisfies the adjoint identity (instance of `coo_adjoint`) -/
theorem ofRows_adjoint {cj : K → K} (hc : IsConj cj) (rows cols : Nat) (f : Nat → List (Nat × K))
    (h : ∀ r, r < rows → ∀ cw ∈ f r, cw.1 < cols) (x y : Nat → K) :
    inner cj rows y (apply (ofRows rows cols f) x) = inner cj cols (applyAdj cj (ofRows rows cols f) y) x :=
  Coo.coo_adjoint hc (ofRows rows cols f) (ofRows_wf rows cols f h) x y

/-- **TransposeOperator, any number of sub-domains**: for every permutation `perm` of the sub-domain indices the
    operator is a permutation matrix — well-formed, and its adjoint is its inverse on both sides (so the four
    modes TIMES / ADJOINT_INVERSE and ADJOINT / INVERSE coincide pairwise, as the code advertises) -/
theorem transpose_inverse {cj : K → K} (hc1 : cj 1 = 1) (sizes perm : List Nat)
    (hperm : perm.Perm (List.range sizes.length)) (x : Nat → K) (i : Nat) (hi : i < prodL sizes) :
    (transpose sizes perm : Coo K).wf = true ∧
    applyAdj cj (transpose sizes perm) (apply (transpose sizes perm) x) i = x i ∧
    apply (transpose sizes perm) (applyAdj cj (transpose sizes perm) x) i = x i := by
  rw [transpose_eq_gather, prodL_tsizes hperm]
  have hsrc : ∀ r, r < prodL sizes → tSrc sizes perm r < prodL sizes := fun r hr =>
    tSrc_lt hperm r (by rw [prodL_tsizes hperm]; exact hr)
  have hinvlt : ∀ c, c < prodL sizes → tInv sizes perm c < prodL sizes := fun c hc => by
    have := tInv_lt hperm c hc; rwa [prodL_tsizes hperm] at this
  have hinv : ∀ r, r < prodL sizes → ∀ c, c < prodL sizes → (tSrc sizes perm r = c ↔ r = tInv sizes perm c) := by
    intro r hr c hc
    constructor
    · intro h; rw [← h, tInv_tSrc hperm r (by rw [prodL_tsizes hperm]; exact hr)]
    · intro h; rw [h, tSrc_tInv hperm c hc]
  exact ⟨gather_wf _ _ _ hsrc,
    gather_perm_unitary hc1 (prodL sizes) (tSrc sizes perm) (tInv sizes perm) hinv hsrc hinvlt x i hi⟩

-- non-vacuity: a 3-cycle of three sub-domains
example : ([2, 0, 1] : List Nat).Perm (List.range [2, 3, 4].length) := by decide

/-- TransposeOperator on two sub-domains of sizes `a`, `b` (indices (1,0)), in explicit index arithmetic
    (The general n-sub-domain statement follows from `gather_perm_unitary` once the source map is shown
    bijective; proved here for the 2-sub-domain case, all sizes.) -/
theorem transpose2_inverse_partial {cj : K → K} (hc1 : cj 1 = 1) (a b : Nat) (x : Nat → K) (i : Nat) (hi : i < a * b) :
    let T : Coo K := gather (b * a) (a * b) fun r => (r % a) * b + r / a
    applyAdj cj T (apply T x) i = x i := by
  intro T
  have hN : b * a = a * b := Nat.mul_comm b a
  have ha : 0 < a := by
    rcases Nat.eq_zero_or_pos a with h | h
    · subst h; simp at hi
    · exact h
  have hb : 0 < b := by
    rcases Nat.eq_zero_or_pos b with h | h
    · subst h; simp at hi
    · exact h
  show applyAdj cj (gather (b * a) (a * b) fun r => (r % a) * b + r / a) (apply (gather (b * a) (a * b) fun r => (r % a) * b + r / a) x) i = x i
  rw [hN]
  apply gather_perm_inverse hc1 (a * b) (fun r => (r % a) * b + r / a) (fun c => (c % b) * a + c / b)
  · intro r hr c hc
    have hra : r / a < b := Nat.div_lt_of_lt_mul hr
    have hcb : c / b < a := Nat.div_lt_of_lt_mul (by rw [Nat.mul_comm]; exact hc)
    constructor
    · intro h
      subst h
      have h1 : (r % a * b + r / a) % b = r / a := by
        rw [Nat.add_comm, Nat.add_mul_mod_self_right, Nat.mod_eq_of_lt hra]
      have h2 : (r % a * b + r / a) / b = r % a := by
        rw [Nat.add_comm, Nat.add_mul_div_right _ _ hb, Nat.div_eq_of_lt hra]; simp
      rw [h1, h2]; exact (Nat.div_add_mod' r a).symm
    · intro h
      subst h
      have h1 : (c % b * a + c / b) % a = c / b := by
        rw [Nat.add_comm, Nat.add_mul_mod_self_right, Nat.mod_eq_of_lt hcb]
      have h2 : (c % b * a + c / b) / a = c % b := by
        rw [Nat.add_comm, Nat.add_mul_div_right _ _ ha, Nat.div_eq_of_lt hcb]; simp
      rw [h1, h2]; exact Nat.div_add_mod' c b
  · intro c hc
    have hcb : c / b < a := Nat.div_lt_of_lt_mul (by rw [Nat.mul_comm]; exact hc)
    have hmod : c % b < b := Nat.mod_lt _ hb
    calc c % b * a + c / b < c % b * a + a := by omega
      _ = (c % b + 1) * a := by ring
      _ ≤ b * a := Nat.mul_le_mul_right _ hmod
      _ = a * b := Nat.mul_comm _ _
  · exact hi


/-- **chains**: applying a composed COO operator is applying one after the other (well-formed factors, matching sizes) -/
theorem coo_comp_apply (M N : Coo K) (hM : M.wf = true) (hN : N.wf = true) (hdim : N.rows = M.cols)
    (x : Nat → K) (r : Nat) : apply (comp M N) x r = apply M (apply N x) r := apply_comp M N hM hN hdim x r

/-- **per-axis loops** (FieldZeroPadder, RegriddingOperator, FFTShiftOperator): the composed operator acts like the
    successive 1-D operators on the evolving array, each embedded with `onAxis` (whose fibre-wise action is
    `onAxis_spec` and whose 1-D specs are `pad1_*_spec`, `regrid1_spec`, `shift1_inverse`) -/
theorem alongAxes_spec (sh : List Nat) (d0 : Nat) (ops : List (Option (Coo K))) (hok : alongOk sh d0 ops)
    (x : Nat → K) (r : Nat) (hr : r < (alongAxes sh d0 ops).rows) :
    apply (alongAxes sh d0 ops) x r = alongAxesFn sh d0 ops x r := alongAxes_apply sh d0 ops hok x r hr

-- non-vacuity: the side condition holds for a concrete 2-axis central padder (3,2) → (5,2) → (5,4)
example : alongOk (K := CQ) [3, 2] 0 [some (pad1 3 5 true), some (pad1 2 4 true)] :=
  ⟨by decide, by decide, by decide, by decide, by decide, by decide, trivial⟩

/-! ### identity-type and block-type operators, einsum -/

/-- fields on a DomainTuple may be indexed at sub-domain granularity: raveling all axes = raveling the per-sub-domain
    flat indices over the sub-domain sizes (justifies the `sizes`-level models of contraction, distributor, transpose, …) -/
theorem subdomain_granularity (shapes idxs : List (List Nat)) (hl : shapes.length = idxs.length)
    (h : ∀ p ∈ shapes.zip idxs, p.2.length = p.1.length) :
    ravel shapes.flatten idxs.flatten = ravel (shapes.map prodL) ((shapes.zip idxs).map fun p => ravel p.1 p.2) :=
  ravel_grouped shapes idxs hl h

/-- SqueezeOperator / `expand_dims`: removing or inserting a unit axis does not move any pixel in the raveled data -/
theorem squeeze_is_identity (a i b j : List Nat) (h : i.length = a.length) :
    ravel (a ++ 1 :: b) (i ++ 0 :: j) = ravel (a ++ b) (i ++ j) := ravel_unit_axis a i b j h

/-- SqueezeOperator, GeometryRemover, DomainChangerAndReshaper, FieldAdapter, Multifield2Vector (model `ident n`):
    `y = x` on raveled data; the operator is its own adjoint (hence its own inverse where all modes are advertised) -/
theorem identity_ops_spec {cj : K → K} (hc1 : cj 1 = 1) (n : Nat) (x : Nat → K) (r : Nat) (hr : r < n) :
    apply (ident n) x r = x r ∧ adj cj (ident n : Coo K) = ident n ∧ (ident n : Coo K).wf = true :=
  ⟨ident_apply n x r hr, ident_adj hc1 n, ident_wf n⟩

/-- _SlowFieldAdapter, PartialExtractor, PrependKey (model `blockOps`): every target block copies its domain block -/
theorem block_ops_spec (rows cols : Nat) (bs : List (Nat × Nat × Nat)) (x : Nat → K) (r : Nat) :
    apply (blockOps rows cols bs) x r =
      sumL (bs.map fun b => if b.1 ≤ r ∧ r < b.1 + b.2.2 then x (b.2.1 + (r - b.1)) else 0) :=
  blockOps_apply rows cols bs x r

theorem block_ops_wellformed (rows cols : Nat) (bs : List (Nat × Nat × Nat))
    (h : ∀ b ∈ bs, b.1 + b.2.2 ≤ rows ∧ b.2.1 + b.2.2 ≤ cols) : (blockOps rows cols bs : Coo K).wf = true :=
  blockOps_wf rows cols bs h

/-- LinearEinsum: `y[os] = Σ_{assignments a of all letters with os(a) = r} Π_k mf_k[letters_k(a)] · x[xs(a)]` -/
theorem einsum_spec (letters : List Char) (sz : Char → Nat) (ops : List (List Char × List K)) (xs os : List Char)
    (x : Nat → K) (r : Nat) :
    apply (einsum letters sz ops xs os) x r =
      sumN (prodL (letters.map sz)) fun t =>
        let a := unravel (letters.map sz) t
        let flat := fun (ls : List Char) => ravel (ls.map sz) (ls.map fun c => a.getD (letters.idxOf c) 0)
        if flat os = r then prodK (ops.map fun o => o.2.getD (flat o.1) 0) * x (flat xs) else 0 := by
  unfold apply applyE einsum sumN
  simp only [List.map_map]
  rfl

/-- … and its adjoint is the einsum with input/output subscripts exchanged and conjugated static operands —
    what `LinearEinsum.apply` computes in ADJOINT_TIMES mode (`_adj_sscr`, `mf.conjugate()`) -/
theorem einsum_adjoint {cj : K → K} (hc : IsConj cj) (hc1 : cj 1 = 1) (letters : List Char) (sz : Char → Nat)
    (ops : List (List Char × List K)) (xs os : List Char) :
    adj cj (einsum letters sz ops xs os) = einsum letters sz (ops.map fun o => (o.1, o.2.map cj)) os xs :=
  einsum_adj hc hc1 letters sz ops xs os

/-- hence the adjoint identity for every LinearEinsum whose subscripts are consistent (all letters known) -/
theorem einsum_adjoint_identity {cj : K → K} (hc : IsConj cj) (letters : List Char) (sz : Char → Nat)
    (ops : List (List Char × List K)) (xs os : List Char)
    (hxs : ∀ c ∈ xs, c ∈ letters) (hos : ∀ c ∈ os, c ∈ letters) (x y : Nat → K) :
    inner cj (einsum letters sz ops xs os).rows y (apply (einsum letters sz ops xs os) x)
      = inner cj (einsum letters sz ops xs os).cols (applyAdj cj (einsum letters sz ops xs os) y) x :=
  Coo.coo_adjoint hc _ (einsum_wf letters sz ops xs os hxs hos) x y

/-! ### harmonic operators through C09's model -/

/-- FFTOperator / HartleyOperator on one sub-space of a product domain, as COO operators (C09's `dftCoo` /
    `hartleyCoo`, embedded with `onAxis`): well-formed, hence `⟨y, A x⟩ = ⟨Aᴴ y, x⟩` with `Aᴴ` the conjugate
    transpose — for every axis length, every spectator sizes `pre`, `post`, every root `w` -/
theorem harmonic_coo_adjoint {cj : K → K} (hc : IsConj cj) (pre post n : Nat) (A : Nat → Nat → K) (x y : Nat → K) :
    (onAxis pre post (Harmonic.matCoo n A)).wf = true ∧
    inner cj (onAxis pre post (Harmonic.matCoo n A)).rows y (apply (onAxis pre post (Harmonic.matCoo n A)) x)
      = inner cj (onAxis pre post (Harmonic.matCoo n A)).cols
          (applyAdj cj (onAxis pre post (Harmonic.matCoo n A)) y) x :=
  ⟨onAxis_wf _ _ _ (Harmonic.matCoo_wf n A),
   Coo.coo_adjoint hc _ (onAxis_wf _ _ _ (Harmonic.matCoo_wf n A)) x y⟩

/-! ## Part 3 — the adjoint identity for each modelled operator class, every configuration
    (`coo_adjoint` + well-formedness of the class model, Lemmas/LinOpsWf.lean) -/

section part3
variable {cj : K → K}

/-- well-formedness of the class models, for every configuration (side conditions = what the constructors check) -/
theorem models_wellformed :
    (∀ flags : List Bool, (mask flags : Coo K).wf = true) ∧
    (∀ n N central, n ≤ N → (pad1 n N central : Coo K).wf = true) ∧
    (∀ sh d0 ns central, (∀ k, k < ns.length → sh.getD (d0 + k) 0 ≤ ns.getD k 0) → (padder sh d0 ns central : Coo K).wf = true) ∧
    (∀ (q : Nat → Nat → K) sh d0 ns, (∀ k, k < ns.length → 1 ≤ sh.getD (d0 + k) 0) → (regridding q sh d0 ns).wf = true) ∧
    (∀ pre post nbin dofdex, (∀ p, p < dofdex.length → dofdex.getD p 0 < nbin) → (distributor pre post nbin dofdex : Coo K).wf = true) ∧
    (∀ pre n post idx, (∀ k, k < idx.length → idx.getD k 0 < n) → (extractAt pre n post idx : Coo K).wf = true) ∧
    (∀ pre n post p, p < n → (fieldInserter pre n post p : Coo K).wf = true) ∧
    (∀ shape index, inShape shape index = true → (valueInserter shape index : Coo K).wf = true) ∧
    (∀ n (f : List K), (outerProduct n f).wf = true) ∧
    (∀ (f : List K), (vdot cj f).wf = true) ∧
    (∀ pre n post (m : List K), (matrixProduct pre n post m).wf = true) ∧
    (∀ sizes spaces (d : List K), (diagonalOp sizes spaces d).wf = true) ∧
    (∀ sh axes inv, (fftshift sh axes inv : Coo K).wf = true) ∧
    (∀ n, (conjugation n : Coo K).wf = true ∧ (realizer n : Coo K).wf = true ∧ (imaginizer n : Coo K).wf = true) ∧
    (∀ n r, (partialConj n r : Coo K).wf = true) :=
  ⟨mask_wf, fun n N c h => pad1_wf n N h c, padder_wf, regridding_wf, distributor_wf, extractAt_wf, fieldInserter_wf,
   valueInserter_wf, outerProduct_wf, vdot_wf cj, matrixProduct_wf, diagonalOp_wf,
   fftshift_wf,
   fun n => ⟨conjugation_wf n, realizer_wf n, imaginizer_wf n⟩, partialConj_wf⟩

/-- hence `⟨y, A x⟩ = ⟨Aᴴ y, x⟩` for each of them; spelled out for the response-type operators -/
theorem mask_adjoint (hc : IsConj cj) (flags : List Bool) (x y : Nat → K) :
    inner cj (mask flags : Coo K).rows y (apply (mask flags) x) = inner cj flags.length (applyAdj cj (mask flags) y) x :=
  Coo.coo_adjoint hc _ (mask_wf flags) x y

theorem padder_adjoint (hc : IsConj cj) (sh : List Nat) (d0 : Nat) (ns : List Nat) (central : Bool)
    (hge : ∀ k, k < ns.length → sh.getD (d0 + k) 0 ≤ ns.getD k 0) (x y : Nat → K) :
    inner cj (padder sh d0 ns central : Coo K).rows y (apply (padder sh d0 ns central) x)
      = inner cj (padder sh d0 ns central : Coo K).cols (applyAdj cj (padder sh d0 ns central) y) x :=
  Coo.coo_adjoint hc _ (padder_wf sh d0 ns central hge) x y

theorem regridding_adjoint (hc : IsConj cj) (q : Nat → Nat → K) (sh : List Nat) (d0 : Nat) (ns : List Nat)
    (hpos : ∀ k, k < ns.length → 1 ≤ sh.getD (d0 + k) 0) (x y : Nat → K) :
    inner cj (regridding q sh d0 ns).rows y (apply (regridding q sh d0 ns) x)
      = inner cj (regridding q sh d0 ns).cols (applyAdj cj (regridding q sh d0 ns) y) x :=
  Coo.coo_adjoint hc _ (regridding_wf q sh d0 ns hpos) x y

theorem distributor_adjoint (hc : IsConj cj) (pre post nbin : Nat) (dofdex : List Nat)
    (h : ∀ p, p < dofdex.length → dofdex.getD p 0 < nbin) (x y : Nat → K) :
    inner cj (distributor pre post nbin dofdex : Coo K).rows y (apply (distributor pre post nbin dofdex) x)
      = inner cj (distributor pre post nbin dofdex : Coo K).cols (applyAdj cj (distributor pre post nbin dofdex) y) x :=
  Coo.coo_adjoint hc _ (distributor_wf pre post nbin dofdex h) x y

end part3

-- non-vacuity examples (concrete instances over the driver's scalars)
example : (unflagged [true, false, false, true, false]) = [1, 2, 4] := by decide
example : ((pad1 3 5 true : Coo CQ).ent.map fun e => (e.1, e.2.1)) = [(0, 0), (1, 1), (4, 2)] := by decide
example : ((contraction [⟨[2], .scalar (⟨1/2, 0⟩ : CQ)⟩, ⟨[3], .vec [1, 1, 1]⟩] [1] 1).ent.map fun e => (e.1, e.2.1))
    = [(0, 0), (0, 1), (0, 2), (1, 3), (1, 4), (1, 5)] := by decide

end NiftyVerif.C02
