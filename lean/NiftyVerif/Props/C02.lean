/-
  C02 — Every library linear operator is adjoint/inverse consistent and correct.
  Property theorems only; helper lemmas live in Lemmas/Coo.lean, Lemmas/LinOps.lean.
-/
import NiftyVerif.Lemmas.Coo

namespace NiftyVerif.C02
open NiftyVerif NiftyVerif.Coo

variable {K : Type} [CommRing K]

/-- adjointness for EVERY well-formed COO operator: `⟨y, M x⟩ = ⟨Mᴴ y, x⟩`, all sizes, all vectors -/
theorem coo_adjoint {cj : K → K} (hc : IsConj cj) (M : Coo K) (hwf : M.wf = true) (x y : Nat → K) :
    inner cj M.rows y (apply M x) = inner cj M.cols (applyAdj cj M y) x :=
  Coo.coo_adjoint hc M hwf x y

end NiftyVerif.C02
