/-
  C04 — `StandardHamiltonian._simplify_for_constant_input_nontrivial` (energy_operators.py): the simplified Hamiltonian is
  `StandardHamiltonian(lh1)` over the REMAINING keys, i.e. its Gaussian prior term ½|x|² is rebuilt on the variable keys only.

  Full statement of the property (NOT true for the code as it is; kept visible):
      hamiltonian_pe_sound : value (simplified H) ρ = value H (ρ ∪ c)
  Proved instead: `hamiltonian_pe_offset_partial` — the two differ by exactly the prior energy of the constant keys,
  `½ Σ_{k ∈ constants} |c_k|²`, a term that does not depend on the remaining input (so gradient, Jacobian and metric are
  unaffected; those are checked on the real code).  Witness below; the same input is replayed on the real code
  (corpus/C04/hamiltonian_prior_offset.json, known finding C04-hamiltonian-prior-offset).
-/
import NiftyVerif.Props.C04

set_option linter.unusedSimpArgs false
set_option linter.unusedVariables false
namespace NiftyVerif.C04
open NiftyVerif NiftyVerif.Gen.Ptw NiftyVerif.Expr

/-- `GaussianEnergy(data=None, domain=D)`: ½ Σ x² over the keys of `D` (the prior of a StandardHamiltonian) -/
noncomputable def priorE (D : Dom) (ρ : MVal ℝ) : ℝ := (1 / 2) * dsum D (fun k i => ρ k i * ρ k i)

/-- `StandardHamiltonian(lh).apply` on plain fields: `lh(x) + prior(x)` -/
noncomputable def hamVal (lh : Ex ℝ) (D : Dom) (ρ : MVal ℝ) : ℝ := eval lh ρ "" 0 + priorE D ρ

theorem dsum_append (a b : Dom) (f : String → Nat → ℝ) : dsum (a ++ b) f = dsum a f + dsum b f := by
  simp [dsum, List.map_append, List.sum_append]

theorem dsum_congr_mem (d : Dom) (f g : String → Nat → ℝ) (h : ∀ kn ∈ d, ∀ i, f kn.1 i = g kn.1 i) :
    dsum d f = dsum d g := by
  unfold dsum
  congr 1
  apply List.map_congr_left
  intro kn hkn
  have : f kn.1 = g kn.1 := by funext i; exact h kn hkn i
  rw [this]

/-- value of the original Hamiltonian at the full input = value of the simplified Hamiltonian at the variable part
    **plus** the prior energy of the constants -/
theorem hamiltonian_pe_offset_partial (ck : List String) (cs : MVal ℝ) (lh : Ex ℝ) (Dv Dc : Dom)
    (hv : ∀ kn ∈ Dv, ck.contains kn.1 = false) (hc : ∀ kn ∈ Dc, ck.contains kn.1 = true) (ρ : MVal ℝ) :
    hamVal lh (Dv ++ Dc) (insertC ck cs ρ) = hamVal (pe ck cs lh) Dv ρ + priorE Dc cs := by
  unfold hamVal priorE
  rw [pe_sound, dsum_append]
  have e1 : dsum Dv (fun k i => insertC ck cs ρ k i * insertC ck cs ρ k i) = dsum Dv (fun k i => ρ k i * ρ k i) :=
    dsum_congr_mem _ _ _ (fun kn hkn i => by
      have h := hv kn hkn; simp only [insertC, h, Bool.false_eq_true, if_false])
  have e2 : dsum Dc (fun k i => insertC ck cs ρ k i * insertC ck cs ρ k i) = dsum Dc (fun k i => cs k i * cs k i) :=
    dsum_congr_mem _ _ _ (fun kn hkn i => by
      have h := hc kn hkn; simp only [insertC, h, if_true])
  rw [e1, e2]; ring

/-- witness at the excluded point: one variable key `a`, one constant key `b` with value 1 — the values differ by ½ -/
example : priorE [("b", 1)] (fun _ _ => (1 : ℝ)) = 1 / 2 := by
  simp [priorE, dsum, rsum]

end NiftyVerif.C04
