/-
  C07 — Fields are immutable once constructed.
  Property theorems only; the model is Model/Heap.lean (`Heap.fixed` = the repaired `AnyArray.lock`,
  `Heap.asFound` = the code as found in /repo), helper lemmas are in Lemmas/Heap.lean.
  Obligations are listed in harness/props/c07.py.

  The history alphabet `Heap.Op` covers every public constructor (Field(dom, ·), from_raw, makeField, full,
  cast_domain, arithmetic results, operator applications), writes through the source ndarray, through views
  of it, through `.val/.raw/.asnumpy()` handles, `__setitem__`, in-place operators, `out=` ufunc calls,
  `lock()`, `flags.writeable = …`, copies (`val_rw/asnumpy_rw/copy`), `makeOp(f)`, `Adder(f)`.

  `Heap.guard` states what the code cannot guarantee and the property cannot demand:
   (1) the ndarray a field is built on has no *other writable* ndarray alias made before the construction
       (NumPy fixes a view's flag at view creation; locking the array later does not reach it);
   (2) nobody sets `flags.writeable = True` on an alias of a field's buffer.
-/
import NiftyVerif.Lemmas.Heap

namespace NiftyVerif.C07
open NiftyVerif.Heap

/-- the full invariant carried along a history -/
structure Good (s : State) : Prop where
  wf : WF s
  inv : Inv s
  ops : OpInv s

/-- the empty heap is good -/
theorem inv_init : Good ({} : State) := by
  refine ⟨⟨?_, ?_, ?_⟩, ?_, ?_⟩
  · intro i o h; simp at h
  · intro i w h; simp at h
  · intro i w h; simp at h
  · intro f w wo ao h; simp [getField] at h
  · intro o ob h; simp at h

/-- every constructor path of the repaired code leaves the new field on a buffer all of whose ndarray
    aliases are read-only (public constructors: `fieldFromArr`, `fieldFromWrap`, `fieldFull`, `fieldCast`,
    `fieldAdd`, `fieldScale`, `applyOp`) -/
theorem inv_construct (s : State) (hg : Good s) (op : Op) (hgd : guard s op = true)
    (w : Nat) (wo : Wrap) (ao : Arr)
    (h : getField (step fixed s op) s.fields.length = some (w, wo, ao)) :
    Prot (step fixed s op) ao.buf :=
  prot_of_shape s hg.wf _ (eff_shape s hg.inv op hgd) w wo ao h

/-- every guarded operation of the alphabet preserves the invariant -/
theorem inv_step (s : State) (hg : Good s) (op : Op) (hgd : guard s op = true) : Good (step fixed s op) :=
  ⟨step_wf fixed s hg.wf op, inv_step' s hg.wf hg.inv op hgd, step_opInv fixed s hg.wf hg.ops op⟩

/-- … hence every guarded history does -/
theorem inv_run (s : State) (hg : Good s) (ops : List Op) (hgd : guards fixed s ops = true) :
    Good (run fixed s ops) := by
  induction ops generalizing s with
  | nil => exact hg
  | cons op rest ih =>
    simp only [guards, Bool.and_eq_true] at hgd
    exact ih (step fixed s op) (inv_step s hg op hgd.1) hgd.2

/-- no single operation changes the value of an existing field (any `cfg`: what protects is the invariant) -/
theorem field_constant_step (cfg : Cfg) (s : State) (hg : Good s) (op : Op) (f : Nat) (hf : f < s.fields.length) :
    fieldVals (step cfg s op) f = fieldVals s f :=
  step_fieldVals cfg s hg.wf hg.inv op f hf

theorem fields_length_step (cfg : Cfg) (s : State) (op : Op) : s.fields.length ≤ (step cfg s op).fields.length := by
  simp [step, apply]

/-- **field_constant**: for every guarded history, the value of every existing field never changes -/
theorem field_constant (s : State) (hg : Good s) (ops : List Op) (hgd : guards fixed s ops = true)
    (f : Nat) (hf : f < s.fields.length) : fieldVals (run fixed s ops) f = fieldVals s f := by
  induction ops generalizing s with
  | nil => rfl
  | cons op rest ih =>
    simp only [guards, Bool.and_eq_true] at hgd
    have h1 := ih (step fixed s op) (inv_step s hg op hgd.1) hgd.2
      (Nat.lt_of_lt_of_le hf (fields_length_step fixed s op))
    simp only [run]
    rw [h1]
    exact field_constant_step fixed s hg op f hf

theorem run_append (cfg : Cfg) (s : State) (a b : List Op) : run cfg s (a ++ b) = run cfg (run cfg s a) b := by
  induction a generalizing s with
  | nil => rfl
  | cons op rest ih => simp only [List.cons_append, run]; exact ih _

theorem guards_append (cfg : Cfg) (s : State) (a b : List Op) :
    guards cfg s (a ++ b) = (guards cfg s a && guards cfg (run cfg s a) b) := by
  induction a generalizing s with
  | nil => simp [guards, run]
  | cons op rest ih => simp only [List.cons_append, guards, run, ih, Bool.and_assoc]

/-- the property as stated: start from nothing, run any guarded history `pre`, then any guarded history
    `post`: every field that exists after `pre` has the same value after `pre ++ post` -/
theorem field_constant_from_start (pre post : List Op) (hgd : guards fixed {} (pre ++ post) = true)
    (f : Nat) (hf : f < (run fixed {} pre).fields.length) :
    fieldVals (run fixed {} (pre ++ post)) f = fieldVals (run fixed {} pre) f := by
  rw [guards_append, Bool.and_eq_true] at hgd
  rw [run_append]
  exact field_constant _ (inv_run {} inv_init pre hgd.1) post hgd.2 f hf

/-- one step keeps the meaning of every operator built from a field -/
theorem ops_step (s : State) (hg : Good s) (op : Op) (o : Nat) (ho : o < s.ops.length) :
    opVals (step fixed s op) o = opVals s o := by
  obtain ⟨ob, hob⟩ : ∃ ob, s.ops[o]? = some ob := ⟨s.ops[o], by simp [ho]⟩
  have hob' : (step fixed s op).ops[o]? = some ob := by rw [← hob]; exact apply_ops_old s _ o ho
  have hwf' := step_wf fixed s hg.wf op
  cases ob with
  | diag w =>
    obtain ⟨f, hf⟩ := hg.ops o _ hob
    have hf' : (step fixed s op).fields[f]? = some w := by
      rw [← hf]; exact apply_fields_old s _ f (lt_of_getElem? hf)
    rw [opVals_diag hob' hwf' hf', opVals_diag hob hg.wf hf]
    exact field_constant_step fixed s hg op f (lt_of_getElem? hf)
  | adder f =>
    have hf := hg.ops o _ hob
    rw [opVals_adder hob', opVals_adder hob]
    exact field_constant_step fixed s hg op f hf

/-- **ops_from_field_constant**: a diagonal / adder built from a field denotes the same map after any
    guarded history -/
theorem ops_from_field_constant (s : State) (hg : Good s) (ops : List Op) (hgd : guards fixed s ops = true)
    (o : Nat) (ho : o < s.ops.length) : opVals (run fixed s ops) o = opVals s o := by
  induction ops generalizing s with
  | nil => rfl
  | cons op rest ih =>
    simp only [guards, Bool.and_eq_true] at hgd
    have hlen : s.ops.length ≤ (step fixed s op).ops.length := by simp [step, apply]
    have h1 := ih (step fixed s op) (inv_step s hg op hgd.1) hgd.2 (Nat.lt_of_lt_of_le ho hlen)
    simp only [run]
    rw [h1]
    exact ops_step s hg op o ho

/-! ### non-vacuity, and witnesses for what is excluded -/

/-- a guarded history that builds fields on user arrays, then attacks them through every handle kind -/
def demo : List Op :=
  [.newArr [0, 1, 2, 3], .wrap 0, .fieldFromWrap 0 4,      -- a; aa = AnyArray(a); f0 = Field(dom, aa)
   .writeArr 0 0 99,                                        -- a[0] = 99            (raises)
   .fieldVal 0, .wrapGetitem 0 1 3, .wrapSetitem 1 0 7,     -- f0.val[1:3][0] = 7   (raises)
   .fieldAsnumpy 0, .ufuncOut 0 0 0,                        -- np.add(.., out=f0.val) (raises)
   .newArr [5, 6, 7, 8], .fieldFromArr 2 4,                 -- f1 = Field.from_raw(dom, b)
   .writeArr 2 1 42, .fieldAdd 0 1, .mkDiag 0, .applyOp 0 1]

example : guards fixed {} demo = true := by decide
example : (run fixed {} demo).fields.length = 4 := by decide
example : fieldVals (run fixed {} demo) 0 = [0, 1, 2, 3] := by decide
example : fieldVals (run fixed {} demo) 3 = [0, 6, 14, 24] := by decide

/-- the code as found does not have the property: the very same attack changes the field
    (`AnyArray.lock` tests `isinstance(self, np.ndarray)` and never touches the ndarray flag).
    This history is replayed on the real code by the harness (corpus/C07/lock_wrapper_isinstance.json). -/
def attack : List Op := [.newArr [0, 1, 2, 3], .wrap 0, .fieldFromWrap 0 4, .writeArr 0 0 99]

theorem asFound_violates :
    guards asFound {} attack = true ∧
    fieldVals (run asFound {} (attack.take 3)) 0 = [0, 1, 2, 3] ∧
    fieldVals (run asFound {} attack) 0 = [99, 1, 2, 3] := by decide

example : fieldVals (run fixed {} attack) 0 = [0, 1, 2, 3] := by decide

/-- second hole of the code as found: `Field.full` / `from_raw(dom, scalar)` / `makeField(dom, scalar)` broadcast a WRITABLE 0-d
    array which stays reachable as `f.raw.base`; writing through it changes the field (in NumPy: all entries at once, the model
    keeps one copy per entry and shows the first).  The repaired `AnyArray.full` makes that array read-only. -/
def baseAttack : List Op := [.fieldFull 4 3, .fieldRaw 0, .arrBase 1, .writeArr 0 0 99]

theorem asFound_base_escapes :
    guards asFound {} baseAttack = true ∧
    fieldVals (run asFound {} (baseAttack.take 3)) 0 = [3, 3, 3, 3] ∧
    fieldVals (run asFound {} baseAttack) 0 ≠ [3, 3, 3, 3] ∧
    fieldVals (run fixed {} baseAttack) 0 = [3, 3, 3, 3] := by decide

/-- guard (1) is necessary even for the repaired code: a view made BEFORE the construction stays writable -/
theorem prior_view_escapes :
    guards fixed {} [.newArr [0, 1, 2, 3], .sliceArr 0 0 4, .fieldFromArr 0 4, .writeArr 1 0 99] = false ∧
    fieldVals (run fixed {} [.newArr [0, 1, 2, 3], .sliceArr 0 0 4, .fieldFromArr 0 4, .writeArr 1 0 99]) 0
      = [99, 1, 2, 3] := by decide

/-- guard (2) is necessary: re-enabling the flag on the source array reopens the field -/
theorem reenabled_flag_escapes :
    guards fixed {} [.newArr [0, 1], .fieldFromArr 0 2, .setFlag 0 true, .writeArr 0 0 5] = false ∧
    fieldVals (run fixed {} [.newArr [0, 1], .fieldFromArr 0 2, .setFlag 0 true, .writeArr 0 0 5]) 0 = [5, 1] := by
  decide

/-- `np.asarray` is the identity on exact ndarrays: the same object, nothing allocated -/
theorem asarray_exact_identity (cfg : Cfg) (s : State) (a : Nat) (ao : Arr) (h : s.arrs[a]? = some ao)
    (he : ao.exact = true) : eff cfg s (.asArray a) = { ret := Ref.arr a } := by
  simp [eff, h, he]

/-- on an instance of an ndarray subclass `np.asarray` allocates a NEW base-class view: same buffer, same window, the flag of the
    source at that moment, `.base` = the source -/
theorem asarray_subclass_view (cfg : Cfg) (s : State) (a : Nat) (ao : Arr) (h : s.arrs[a]? = some ao)
    (he : ao.exact = false) :
    (eff cfg s (.asArray a)).newArr = some { buf := ao.buf, off := ao.off, len := ao.len, writeable := ao.writeable,
                                              base := Base.view a, exact := true } := by
  simp [eff, h, he]

/-- why a constructor must lock the object it was handed and not `np.asarray` of it: for a subclass source (np.memmap, a user
    subclass) the view is another object, locking it leaves the caller's handle writable (the history is unguarded: a writable
    alias exists at construction) and a write through the source changes the field; constructing from the source itself is
    guarded and protects the field, also against views made afterwards -/
def asarrayAttack : List Op := [.newSub [0, 1, 2, 3], .asArray 0, .fieldFromArr 1 4, .writeArr 0 0 99]
def subclassSource : List Op := [.newSub [0, 1, 2, 3], .fieldFromArr 0 4, .writeArr 0 0 99, .asArray 0, .writeArr 1 0 98]

theorem asarray_view_escapes :
    guards fixed {} asarrayAttack = false ∧
    fieldVals (run fixed {} asarrayAttack) 0 = [99, 1, 2, 3] ∧
    guards fixed {} subclassSource = true ∧
    fieldVals (run fixed {} subclassSource) 0 = [0, 1, 2, 3] := by decide

end NiftyVerif.C07
