/-
  C11, round 2 — metrics of likelihoods composed with *complex* models.

  `Linearization.prepend_jac` attaches `SandwichOperator.make(J, M_lh)` = `Jᴴ M_lh J` (conjugate transpose).  For a
  bun that is exactly `ScalingOperator(g)` the code short-cuts to `cheese.scale(|g|²)`.

  * `metric_chain_star`      — pull-back through `T ∘ J` is `Jᴴ (Tᴴ T) J` over any commutative star ring, all sizes.
  * `sandwich_scaling_star`  — `(g•1)ᴴ M (g•1) = (star g * g) • M`.
  * `sandwich_scaling_complex` — over ℂ the factor is the *real* number `‖g‖²` (what `abs(bun._factor)**2` computes),
  * `sq_ne_normSq_witness`   — and it differs from `g * g` (the seeded defect) e.g. at `g = i`.
  * `metric_chain_real_coords` (with `c2r`, `c2r_mul`, `c2r_conjTranspose` of `Lemmas/LikelihoodComplex.lean`) — the real-coordinate form (real block, imaginary
    block) the executable list model and the harness use: `c2r (Jᴴ M J) = (c2r J)ᵀ (c2r M) (c2r J)`, i.e. a complex
    model enters the list model's `lin` node through its real-coordinate matrix.
  * `scaling_real_coords`    — the 2×2 instance the driver evaluates for a complex scaling:
    `Rgᵀ (w•1) Rg = ((a²+b²) w) • 1`.
-/
import NiftyVerif.Lemmas.LikelihoodComplex
import Mathlib.LinearAlgebra.Matrix.ConjTranspose
import Mathlib.Data.Matrix.Block
import Mathlib.Data.Complex.BigOperators
import Mathlib.Data.Complex.Basic
import Mathlib.LinearAlgebra.Matrix.Notation
import Mathlib.Tactic.Ring
import Mathlib.Tactic.FinCases
import Mathlib.Tactic.NormNum
import Mathlib.Tactic.Linarith

namespace NiftyVerif.C11
open Matrix

section Star
variable {R : Type*} [CommRing R] [StarRing R] {m n k : Type*}

/-- `_LikelihoodChain` / `prepend_jac` with complex Jacobians: `(T J)ᴴ (T J) = Jᴴ (Tᴴ T) J` -/
theorem metric_chain_star [Fintype m] [Fintype k] (T : Matrix m k R) (J : Matrix k n R) :
    (T * J)ᴴ * (T * J) = Jᴴ * (Tᴴ * T) * J := by
  rw [conjTranspose_mul]; simp only [Matrix.mul_assoc]

/-- bun = `ScalingOperator(g)`: the sandwich is the cheese scaled by `star g * g` -/
theorem sandwich_scaling_star [Fintype n] [DecidableEq n] (g : R) (M : Matrix n n R) :
    (g • (1 : Matrix n n R))ᴴ * M * (g • (1 : Matrix n n R)) = (star g * g) • M := by
  rw [conjTranspose_smul, conjTranspose_one, Matrix.smul_mul, Matrix.one_mul, Matrix.mul_smul, Matrix.mul_one,
    smul_smul, mul_comm]

end Star

/-- over ℂ: `star g * g` is the real number `‖g‖²` = `Complex.normSq g` -/
theorem sandwich_scaling_complex {n : Type*} [Fintype n] [DecidableEq n] (g : ℂ) (M : Matrix n n ℂ) :
    (g • (1 : Matrix n n ℂ))ᴴ * M * (g • (1 : Matrix n n ℂ)) = ((Complex.normSq g : ℝ) : ℂ) • M := by
  rw [sandwich_scaling_star, Complex.normSq_eq_conj_mul_self]; rfl

/-- `g * g` (the seeded defect) is not `|g|²`: witness `g = i` (`-1 ≠ 1`) -/
theorem sq_ne_normSq_witness : Complex.I * Complex.I ≠ ((Complex.normSq Complex.I : ℝ) : ℂ) := by
  rw [Complex.I_mul_I, Complex.normSq_I]
  intro h
  have h2 : (-1 : ℝ) = 1 := by simpa using congrArg Complex.re h
  linarith

/-- non-vacuity / concrete instance: `g = 3 + 4i` scales the metric by `25` -/
example : Complex.normSq ⟨3, 4⟩ = 25 := by
  rw [Complex.normSq_mk]; norm_num

section RealCoords
variable {m n k : Type*}
open NiftyVerif.Likelihood

/-- the metric of a likelihood behind a complex-linear model, in the real coordinates of the list model:
    `Jᴴ M J` becomes `(c2r J)ᵀ (c2r M) (c2r J)` (the `lin` node of `Node.eval`) -/
theorem metric_chain_real_coords [Fintype k] (J : Matrix k n ℂ) (M : Matrix k k ℂ) :
    c2r (Jᴴ * M * J) = (c2r J)ᵀ * c2r M * c2r J := by
  rw [c2r_mul, c2r_mul, c2r_conjTranspose]

end RealCoords

/-- the instance the driver evaluates for `lh @ ScalingOperator(a + i b)` on one complex pixel with inverse variance `w`:
    `Rgᵀ (w•1) Rg = ((a² + b²) w) • 1`, with `Rg` the real-coordinate matrix of the multiplication by `a + i b` -/
theorem scaling_real_coords (a b w : ℝ) :
    (!![a, -b; b, a] : Matrix (Fin 2) (Fin 2) ℝ)ᵀ * (w • (1 : Matrix (Fin 2) (Fin 2) ℝ)) * !![a, -b; b, a]
      = ((a * a + b * b) * w) • (1 : Matrix (Fin 2) (Fin 2) ℝ) := by
  ext i j
  fin_cases i <;> fin_cases j <;>
    simp [Matrix.mul_apply, Fin.sum_univ_two] <;> ring

/-- … whereas the seeded `g²` would give the non-symmetric `w • !![a²-b², -2ab; 2ab, a²-b²]`: witness `a = 0, b = 1` -/
example : ((0 * 0 + 1 * 1 : ℝ) * 2) ≠ ((0 * 0 - 1 * 1 : ℝ) * 2) := by norm_num

end NiftyVerif.C11
