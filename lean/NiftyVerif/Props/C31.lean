/-
  C31 — Multi-grid index maps are consistent at every level.
  Property theorems only; the model is Model/Grid.lean, helper lemmas are in Lemmas/Grid.lean, obligations are
  listed in harness/props/c31.py.  All statements hold for every shape, split, padding, depth and dimension
  (index vectors are `List Nat`, a grid level is a `List Axis`; regular axes have `pad = sh = 0`, a HEALPix grid is
  one axis with `s = 4`; an MGrid is the concatenation of the axes of its factors).
-/
import NiftyVerif.Lemmas.Grid
import NiftyVerif.Lemmas.GridNest
import NiftyVerif.Lemmas.GridWeights

namespace NiftyVerif.C31
open NiftyVerif.Grid

/-! ### one axis -/

/-- regular grids: the parent of child `c < s` of `i` is `i` -/
theorem parent_child (s i c : Nat) (hc : c < s) : parent s (child s i c) = i := child_div s i c hc

/-- open (padded) grids: for a refined index `pad ≤ i < n - pad` -/
theorem parent_child_open (n pad s i c : Nat) (hc : c < s) (h1 : pad ≤ i) (h2 : i + pad < n) :
    openParent s pad (openChild n pad s i c) = i := Grid.parent_child_open n pad s i c hc h1 h2

/-- every index `j` of the next level is the child of exactly one `(i, c)`, namely `(j / s, j % s)`;
    and `i` is on the coarse level when `j` is on the fine one -/
theorem children_partition (s n j : Nat) (hs : 0 < s) (hj : j < s * n) :
    (j / s < n ∧ j % s < s ∧ child s (j / s) (j % s) = j) ∧
    ∀ i c, c < s → child s i c = j → i = j / s ∧ c = j % s := by
  refine ⟨⟨Nat.div_lt_of_lt_mul hj, Nat.mod_lt _ hs, child_div_mod s j⟩, ?_⟩
  intro i c hc h
  subst h
  exact ⟨(child_div s i c hc).symm, (child_mod s i c hc).symm⟩

/-- open grids: every index of the next level (shape `s (n - 2 pad)`) is the child of exactly one *refined* index -/
theorem children_partition_open (n pad s j : Nat) (hs : 0 < s) (hj : j < s * (n - 2 * pad)) :
    (isRefined n pad (j / s + pad) = true ∧ j % s < s ∧ openChild n pad s (j / s + pad) (j % s) = j) ∧
    ∀ i c, isRefined n pad i = true → c < s → openChild n pad s i c = j → i = j / s + pad ∧ c = j % s := by
  have hq : j / s < n - 2 * pad := Nat.div_lt_of_lt_mul hj
  obtain ⟨r1, r2⟩ := refined_of_lt _ _ _ hq
  refine ⟨⟨by simp [isRefined, r1, r2], Nat.mod_lt _ hs, ?_⟩, ?_⟩
  · unfold openChild
    rw [openBase_refined n pad _ r1 r2, Nat.add_sub_cancel, child_div_mod]
  · intro i c hi hc h
    simp only [isRefined, Bool.and_eq_true, decide_eq_true_eq] at hi
    unfold openChild at h
    rw [openBase_refined n pad i hi.1 hi.2] at h
    subst h
    rw [child_div s _ c hc, child_mod s _ c hc]
    omega

/-- HEALPix (nested): children `4 i + c`, parent `j / 4`; the parent of a pixel of `nside' = 2 nside` is a pixel of `nside` -/
theorem healpix_parent_child (nside i c j : Nat) (hc : c < 4) (hj : j < 12 * (2 * nside) ^ 2) :
    parent 4 (child 4 i c) = i ∧ parent 4 j < 12 * nside ^ 2 := by
  refine ⟨child_div 4 i c hc, ?_⟩
  unfold parent
  have : 12 * (2 * nside) ^ 2 = 4 * (12 * nside ^ 2) := by ring
  omega

/-! ### index vectors: regular, open, HEALPix and product grids at once -/

/-- **parent_child**: on the next level (`Refines`), the parent of every child of a refined index vector is that vector -/
theorem parent_child_vec {ax ax' : List Axis} {idx ch : List Nat} (hr : List.Forall₂ Refines ax ax')
    (hi : List.Forall₂ RefinedAt ax idx) (hc : ch ∈ children ax idx) : parentVec ax' ch = idx :=
  Grid.parent_child_vec hr hi hc

/-- **children_partition**: every index vector `j` of the next level is a child of the refined vector `j / s + pad`,
    children of refined vectors lie on the next level, and (by `parent_child_vec`) no other refined vector has `j` as child -/
theorem children_cover_vec {ax ax' : List Axis} {j : List Nat} (hr : List.Forall₂ Refines ax ax')
    (hs : ∀ a ∈ ax, 0 < a.s) (hj : List.Forall₂ (fun j (a' : Axis) => j < a'.n) j ax') :
    (List.Forall₂ RefinedAt ax (List.zipWith (fun (a : Axis) j => j / a.s + a.pad) ax j) ∧
      j ∈ children ax (List.zipWith (fun (a : Axis) j => j / a.s + a.pad) ax j)) ∧
    (∀ idx, List.Forall₂ RefinedAt ax idx → j ∈ children ax idx → idx = parentVec ax' j) ∧
    (∀ idx ch, List.Forall₂ RefinedAt ax idx → ch ∈ children ax idx → List.Forall₂ (fun c (a' : Axis) => c < a'.n) ch ax') := by
  refine ⟨?_, fun idx hi hc => (Grid.parent_child_vec hr hi hc).symm, fun idx ch hi hc => children_in_range hr hi hc⟩
  exact Grid.children_cover_vec (cover_hyp hr hs hj)

/-- **mgrid_componentwise**: children, parents and neighbourhoods of a product grid are the products of those of
    its factors (in `mgrid` order) -/
theorem mgrid_componentwise (ax1 ax2 : List Axis) (i1 i2 w1 w2 : List Nat) (h : ax1.length = i1.length)
    (hw : ax1.length = w1.length) :
    children (ax1 ++ ax2) (i1 ++ i2) = ((children ax1 i1).flatMap fun c1 => (children ax2 i2).map (c1 ++ ·)) ∧
    parentVec (ax1 ++ ax2) (i1 ++ i2) = parentVec ax1 i1 ++ parentVec ax2 i2 ∧
    neighborhood (ax1 ++ ax2) (w1 ++ w2) (i1 ++ i2) =
      ((neighborhood ax1 w1 i1).flatMap fun c1 => (neighborhood ax2 w2 i2).map (c1 ++ ·)) :=
  ⟨children_append ax1 ax2 i1 i2 h, parentVec_append ax1 ax2 i1 i2 h, neighborhood_append ax1 ax2 w1 w2 i1 i2 h hw⟩

/-- the per-level recursion of `OpenGrid.at` (`shp = s (shp - 2 pad)`, `shifts = s (shifts + pad)`) yields axis records
    related by `Refines`, for every depth -/
theorem open_shape_shift_step (n0 : Nat) (l : List (Nat × Nat)) (s pd : Nat) (a a' : Axis)
    (ha : a.n = (openShapeShift n0 0 l).1 ∧ a.sh = (openShapeShift n0 0 l).2 ∧ a.s = s ∧ a.pad = pd)
    (ha' : a'.n = (openShapeShift n0 0 (l ++ [(s, pd)])).1 ∧ a'.sh = (openShapeShift n0 0 (l ++ [(s, pd)])).2 ∧
           a'.ps = s ∧ a'.ppad = pd) : Refines a a' := open_at_refines n0 l s pd a a' ha ha'

/-! ### flattened grids, serial ordering -/

theorem ravelSerial_lt {shape idx : List Nat} (h : List.Forall₂ (· < ·) idx shape) :
    ravelSerial shape idx < shape.prod := Grid.ravelSerial_lt h

/-- `flatindex2index(index2flatindex(i)) = i` for every index vector below `shape` (any dimension) -/
theorem flat_roundtrip_serial {shape idx : List Nat} (h : List.Forall₂ (· < ·) idx shape) :
    unravelSerial shape (ravelSerial shape idx) = idx := Grid.flat_roundtrip_serial h

/-- `index2flatindex(flatindex2index(f)) = f` and the result is a valid index vector, for every `f < size` -/
theorem flat_roundtrip_serial_inv (shape : List Nat) (f : Nat) (hf : f < shape.prod) :
    ravelSerial shape (unravelSerial shape f) = f ∧ List.Forall₂ (· < ·) (unravelSerial shape f) shape :=
  Grid.flat_roundtrip_serial_inv shape f hf

/-- **flat_parent_commutes** (any ordering whose ravel/unravel round-trip): the parent of the flat index of `idx`
    is the flat index of the parent of `idx` -/
theorem flat_parent_commutes (g : FlatLevel) (idx : List Nat)
    (hrt : unravel g.o g.shape g.bases (ravel g.o g.shape g.bases idx) = idx) :
    flatParent g (ravel g.o g.shape g.bases idx) = ravel g.o g.parentShape g.bases.dropLast (parentVec g.ax idx) := by
  unfold flatParent
  rw [hrt]

/-- … and likewise the flat children are the flat indices of the children -/
theorem flat_children_commute (g : FlatLevel) (idx : List Nat)
    (hrt : unravel g.o g.shape g.bases (ravel g.o g.shape g.bases idx) = idx) :
    flatChildren g (ravel g.o g.shape g.bases idx) =
      (children g.ax idx).map (ravel g.o g.childShape (g.bases ++ [g.ax.map (·.s)])) := by
  unfold flatChildren
  rw [hrt]

/-- instance for the serial ordering: the hypothesis is `flat_roundtrip_serial` -/
theorem flat_parent_commutes_serial (g : FlatLevel) (ho : g.o = FlatOrd.serial) (idx : List Nat)
    (h : List.Forall₂ (· < ·) idx g.shape) :
    flatParent g (ravelSerial g.shape idx) = ravelSerial g.parentShape (parentVec g.ax idx) := by
  have := flat_parent_commutes g idx (by rw [ho]; exact Grid.flat_roundtrip_serial h)
  rw [ho] at this
  exact this

/-- the serial weights AS WRITTEN IN THE SOURCE (`Gen.weightsSerialGen`, regenerated from `_weights_serial` on every run
    by translators/t_gridweights.py) are the model's row-major strides, for every non-empty shape: a change of that
    expression breaks this proof -/
theorem weights_serial_translated (n : Nat) (t : List Nat) :
    NiftyVerif.Gen.weightsSerialGen (n :: t) = weightsSerial (n :: t) := weightsSerialGen_eq n t

/-! ### flattened grids, nest (level-interleaved) ordering -/

/-- **flat_roundtrip_nest**: `flatindex2index(index2flatindex(idx)) = idx` for the nest ordering, for every number of
    levels and dimensions; `rows = _weights_nest` = `(base_shape,) + splits of all coarser levels` -/
theorem flat_roundtrip_nest (shape : List Nat) (bases : List (List Nat)) (idx : List Nat)
    (hidx : idx.length = shape.length) (hr : Rows shape.length (weightsNest shape bases))
    (hp : PosRows (weightsNest shape bases))
    (hlt : ∀ ax, ax < shape.length → idx.getD ax 0 < colAt ax (weightsNest shape bases)) :
    unravelNest shape bases (ravelNest shape bases idx) = idx := by
  unfold unravelNest ravelNest
  exact nest_roundtrip_rows shape.length (weightsNest shape bases) idx hidx hr hp hlt

/-- on grids whose shape is `base_shape * prod(splits)` (every regular / HEALPix / product grid) the bound above is
    `idx < shape` -/
theorem nest_bound_is_shape (shape : List Nat) (bases : List (List Nat)) (hb : Rows shape.length bases) (ax : Nat)
    (hax : ax < shape.length) (hdvd : colAt ax bases ∣ shape.getD ax 1) :
    colAt ax (weightsNest shape bases) = shape.getD ax 1 := colAt_weightsNest shape bases hb ax hax hdvd

/-- **flat_roundtrip_nest_inv**: `index2flatindex(flatindex2index(f)) = f` for every flat index below the size
    `prod over all rows`, and `flatindex2index(f)` is a valid index vector of the level -/
theorem flat_roundtrip_nest_inv (shape : List Nat) (bases : List (List Nat)) (f : Nat)
    (hr : Rows shape.length (weightsNest shape bases)) (hp : PosRows (weightsNest shape bases))
    (hf : f < PP (weightsNest shape bases)) :
    ravelNest shape bases (unravelNest shape bases f) = f ∧ (unravelNest shape bases f).length = shape.length ∧
    ∀ ax, ax < shape.length → (unravelNest shape bases f).getD ax 0 < colAt ax (weightsNest shape bases) := by
  unfold unravelNest ravelNest
  exact nest_roundtrip_inv_rows shape.length (weightsNest shape bases) f hr hp hf

/-- **nest_children_contiguous**: in nest ordering the flat parent is the flat child divided by the number of children
    (`rows ++ [parent_splits]` are the child's weight rows, `rows` the parent's); hence the children of flat index `p`
    are exactly `p * prod(splits) + (0 .. prod(splits)-1)` -/
theorem nest_children_contiguous (ndim : Nat) (rows : List (List Nat)) (splits idx : List Nat) (hidx : idx.length = ndim)
    (hsl : splits.length = ndim) (hr : Rows ndim rows) (hpos : ∀ w ∈ splits, 0 < w) :
    ravelNestGo ndim idx (rows ++ [splits]) 0 / splits.prod =
      ravelNestGo ndim (List.zipWith (· / ·) idx splits) rows 0 :=
  nest_parent_is_div_rows ndim rows splits idx hidx hsl hr hpos

/-- instance of `flat_parent_commutes` for the nest ordering -/
theorem flat_parent_commutes_nest (g : FlatLevel) (ho : g.o = FlatOrd.nest) (idx : List Nat)
    (hidx : idx.length = g.shape.length) (hr : Rows g.shape.length (weightsNest g.shape g.bases))
    (hp : PosRows (weightsNest g.shape g.bases))
    (hlt : ∀ ax, ax < g.shape.length → idx.getD ax 0 < colAt ax (weightsNest g.shape g.bases)) :
    flatParent g (ravelNest g.shape g.bases idx) = ravelNest g.parentShape g.bases.dropLast (parentVec g.ax idx) := by
  have := flat_parent_commutes g idx (by rw [ho]; exact flat_roundtrip_nest g.shape g.bases idx hidx hr hp hlt)
  rw [ho] at this
  exact this

/-! ### coordinates and volumes (exact) -/

/-- `coord2index` before rounding inverts `index2coord` exactly, in every field of characteristic zero -/
theorem coord_roundtrip {K : Type} [Field K] [CharZero K] (n sh : Nat) (i : K) (h : 0 < n + 2 * sh) :
    coord2indexRaw n sh (index2coord n sh i) = i := Grid.coord_roundtrip n sh i h

/-- with `np.rint`: `coord2index(index2coord(i)) = i` for every integer `i` (exact arithmetic) -/
theorem coord_roundtrip_rint (n sh : Nat) (i : Int) (h : 0 < n + 2 * sh) :
    coord2index n sh (index2coord n sh (i : Rat)) = i := Grid.coord_roundtrip_rint n sh i h

/-- one axis: `shape' + 2 shifts' = s (shape + 2 shifts)` — the padded extent is refined exactly -/
theorem volume_conserved_axis (a a' : Axis) (h : Refines a a') (hp : 2 * a.pad ≤ a.n) :
    a'.n + 2 * a'.sh = a.s * (a.n + 2 * a.sh) := refines_total a a' h hp

/-- **volume_conserved**: the `prod(splits)` children of a refined pixel together have exactly the pixel's volume
    (regular, open, product grids; HEALPix up to the constant 4π); in particular refinement never creates volume -/
theorem volume_conserved {K : Type} [Field K] [CharZero K] {ax ax' : List Axis} (hr : List.Forall₂ Refines ax ax')
    (hp : ∀ a ∈ ax, 2 * a.pad ≤ a.n) (hs : ∀ a ∈ ax, 0 < a.s) :
    (((ax.map (·.s)).prod : Nat) : K) * volume (K := K) ax' = volume (K := K) ax :=
  Grid.volume_conserved hr hp hs

/-- **volume_conserved for radial maps** (LogGrid, BrokenLogGrid, HPLogRGrid radii): pixel edges refine exactly —
    edge `c` of the children of `i` is the parent's lower edge plus `c/s` of the parent's width; with `c = 0` and `c = s`
    the children tile the parent's interval, so `sum_children (f(upper) - f(lower)) = f(upper_i) - f(lower_i)` for every
    radial map `f` of the unit coordinate -/
theorem edges_refine {K : Type} [Field K] [CharZero K] (a a' : Axis) (h : Refines a a') (hs : 0 < a.s)
    (hp : 2 * a.pad ≤ a.n) (i : Nat) (hi : a.pad ≤ i) (c : Nat) (hpos : 0 < a.n + 2 * a.sh) :
    edge (K := K) a'.n a'.sh (((a.s * (i - a.pad) + c : Nat) : K)) =
      edge (K := K) a.n a.sh (i : K) + (c : K) / ((a.s : K) * ((a.n : K) + 2 * (a.sh : K))) :=
  Grid.edges_refine a a' h hs hp i hi c hpos

/-- `SimpleOpenGridAtLevel` coordinates `(i + shifts + 1/2) * distances` (real-valued shifts) round-trip exactly -/
theorem simple_coord_roundtrip {K : Type} [Field K] [CharZero K] (n sh dist i : K) (hd : (n + 2 * sh) * dist ≠ 0) :
    (((i + sh + 1 / 2) / (n + 2 * sh)) * ((n + 2 * sh) * dist)) / ((n + 2 * sh) * dist) * (n + 2 * sh) - sh - 1 / 2 = i :=
  Grid.simple_coord_roundtrip n sh dist i hd

/-! ### neighbourhoods -/

theorem neighbourhood_in_range (n w i c : Nat) (hn : 0 < n) : neighbor n w i c < n := neighbor_lt n w i c hn

/-- the centre is the neighbour with offset `c = w / 2` (which is `< w` for every `w ≥ 1`) -/
theorem neighbourhood_centre (n w i : Nat) (hi : i < n) (hw : 0 < w) :
    w / 2 < w ∧ neighbor n w i (w / 2) = i := ⟨by omega, neighbor_centre n w i hi⟩

/-- neighbours are `i + c - w/2` modulo `n`, and periodic images are identified: moving the centre by one pixel
    (mod n) moves every neighbour by one pixel (mod n) -/
theorem neighbourhood_wraps (n w i c : Nat) (hn : 0 < n) :
    ((neighbor n w i c : Nat) : Int) % (n : Int) = ((i : Int) + (c : Int) - ((w / 2 : Nat) : Int)) % (n : Int) ∧
    neighbor n w ((i + 1) % n) c = (neighbor n w i c + 1) % n :=
  ⟨neighbor_modEq n w i c hn, neighbor_shift n w i c hn⟩

/-- `OpenGridAtLevel.neighborhood` clips the wrapped result to `[0, n-1]`: that is the identity -/
theorem open_neighbourhood_eq (n w i c : Nat) (hn : 0 < n) : openNeighbor n w i c = neighbor n w i c :=
  openNeighbor_eq n w i c hn

/-! ### non-vacuity -/

def ax0 : List Axis := [{ n := 5, s := 2, ps := 0, pad := 1, ppad := 0, sh := 0 }, { n := 3, s := 3, ps := 0, pad := 0, ppad := 0, sh := 0 }]
def ax1 : List Axis := [{ n := 6, s := 2, ps := 2, pad := 1, ppad := 1, sh := 2 }, { n := 9, s := 1, ps := 3, pad := 0, ppad := 0, sh := 0 }]

example : List.Forall₂ Refines ax0 ax1 := by
  refine List.Forall₂.cons ⟨rfl, rfl, rfl, rfl⟩ (List.Forall₂.cons ⟨rfl, rfl, rfl, rfl⟩ List.Forall₂.nil)
example : children ax0 [2, 1] = [[2, 3], [2, 4], [2, 5], [3, 3], [3, 4], [3, 5]] := by decide
example : parentVec ax1 [3, 5] = [2, 1] := by decide
example : isRefinedVec ax0 [2, 1] = true ∧ isRefinedVec ax0 [0, 1] = false := by decide
example : unravelSerial [3, 4, 5] (ravelSerial [3, 4, 5] [2, 3, 1]) = [2, 3, 1] := by decide
example : unravelNest [12, 12] [[2, 3], [2, 2]] (ravelNest [12, 12] [[2, 3], [2, 2]] [7, 5]) = [7, 5] := by decide
example : neighbor 5 3 0 0 = 4 ∧ neighbor 5 3 4 2 = 0 := by decide
example : index2coord (K := Rat) 6 2 (3 : Rat) = 11 / 20 := by decide +kernel

end NiftyVerif.C31
