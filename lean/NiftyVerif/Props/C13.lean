/-
  C13 — Gaussian sampling from covariance operators has the right covariance.
  Property theorems only; obligations are listed in harness/props/c13.py.

  Every sampler is `s = Σ_k A_k ξ_k` with independent standard-normal excitation fields `ξ_k` (trusted: an affine image of
  a Gaussian is Gaussian with covariance `Σ_k A_k A_kᴴ`).  `sampler` (Model/Sampling.lean) returns the `A_k` in drawing order
  or the exception kind.  Theorems are over Mathlib matrices on any star field `K` and index type `X`, with an abstract
  square root `sqrt` that is only assumed correct on the values the refusal logic lets through (`hsqrt`).
-/
import NiftyVerif.Model.Sampling
import NiftyVerif.Lemmas.OpAlgebra

namespace NiftyVerif.C13
open NiftyVerif.OpAlgebra NiftyVerif.Sampling NiftyVerif.Gen.ModeTables Matrix

set_option linter.unusedSectionVars false

variable {X K : Type} [Fintype X] [DecidableEq X] [Field K] [StarRing K] [DecidableEq K]

/-- covariance of `Σ_k A_k ξ_k` for independent unit-variance excitations -/
def cov (l : List (Matrix X X K × Nat)) : Matrix X X K := (l.map fun p => p.1 * p.1ᴴ).sum

/-- covariance of a sampler outcome (refusal: nothing is drawn) -/
def covE (r : Except String (List (Matrix X X K × Nat))) : Matrix X X K :=
  match r with
  | .ok l => cov l
  | .error _ => 0

variable (isReal : K → Bool) (re : K → K) (blocks : Nat → List (Matrix X X K) → Matrix X X K)
  (leaf : Nat → Nat → Matrix X X K)
  (sqrt : K → K) (kneg : K → Bool) (dcomplex dminneg dminzero : (X → K) → Bool)
  (blockRow : Nat → Nat → Matrix X X K → Matrix X X K) (mkeys : Nat → List Nat)

/-- the Mathlib instantiation of the sampling model -/
noncomputable def mssem : SSem K (X → K) (Matrix X X K) :=
  { msem isReal re blocks leaf with
    ksqrt := sqrt
    kNeg := kneg
    dsqrt := fun d x => sqrt (d x)
    dIsComplex := dcomplex
    dMinNeg := dminneg
    dMinZero := dminzero
    blockRow := blockRow
    multiKeys := mkeys }

local notation "SS" => mssem isReal re blocks leaf sqrt kneg dcomplex dminneg dminzero blockRow mkeys
local notation "S0" => msem isReal re blocks leaf

/-- independent draws add their covariances -/
theorem cov_append (l1 l2 : List (Matrix X X K × Nat)) : cov (l1 ++ l2) = cov l1 + cov l2 := by
  simp [cov, List.map_append, List.sum_append]

/-- mapping every draw through `M` conjugates the covariance: `M C Mᴴ` -/
theorem cov_map_mul (M : Matrix X X K) (l : List (Matrix X X K × Nat)) :
    cov (l.map fun p => (M * p.1, p.2)) = M * cov l * Mᴴ := by
  induction l with
  | nil => simp [cov]
  | cons p ps ih =>
    simp only [cov, List.map_cons, List.sum_cons] at ih ⊢
    rw [ih, Matrix.conjTranspose_mul]
    simp only [Matrix.mul_add, Matrix.add_mul, Matrix.mul_assoc]

/-- what the refusal logic guarantees about a scalar that is square-rooted: it is real and not negative -/
def Admissible (c : K) : Prop := isReal c = true ∧ kneg c = false

/-- ScalingOperator, forward draw: `A Aᴴ = c · 1` -/
theorem scaling_cov (hsqrt : ∀ c, Admissible isReal kneg c → sqrt c * sqrt c = c ∧ star (sqrt c) = sqrt c)
    (d : Nat) (c : K) (dt : Nat) (l : List (Matrix X X K × Nat)) (hmk : mkeys d = [])
    (h : sampler SS (Op.scaling d c dt) false = .ok l) : cov l = c • (1 : Matrix X X K) := by
  simp only [sampler, mssem, msem, hmk] at h
  split at h
  · cases h
  · split at h
    · cases h
    · rename_i h2
      simp only [Bool.or_eq_true, Bool.not_eq_true', Bool.and_eq_true, not_or] at h2
      obtain ⟨⟨hr, hn⟩, _⟩ := h2
      have hadm : Admissible isReal kneg c := ⟨by simpa using hr, by simpa using hn⟩
      obtain ⟨hs, hst⟩ := hsqrt c hadm
      injection h with h
      subst h
      simp [cov, Matrix.conjTranspose_smul, hst, smul_smul, hs]

/-- ScalingOperator, inverse draw: `A Aᴴ = c⁻¹ · 1` (and `c = 0` is refused) -/
theorem scaling_inv_cov (hsqrt : ∀ c, Admissible isReal kneg c → sqrt c * sqrt c = c ∧ star (sqrt c) = sqrt c)
    (d : Nat) (c : K) (dt : Nat) (l : List (Matrix X X K × Nat)) (hmk : mkeys d = [])
    (h : sampler SS (Op.scaling d c dt) true = .ok l) : cov l = c⁻¹ • (1 : Matrix X X K) ∧ c ≠ 0 := by
  simp only [sampler, mssem, msem, hmk] at h
  split at h
  · cases h
  · split at h
    · cases h
    · rename_i h2
      simp only [Bool.or_eq_true, Bool.not_eq_true', Bool.and_eq_true, not_or, not_and] at h2
      obtain ⟨⟨hr, hn⟩, hz⟩ := h2
      have hadm : Admissible isReal kneg c := ⟨by simpa using hr, by simpa using hn⟩
      obtain ⟨hs, hst⟩ := hsqrt c hadm
      have hc : c ≠ 0 := by
        intro h0; apply hz
        · simpa using h0
        · trivial
      injection h with h
      subst h
      refine ⟨?_, hc⟩
      have : (sqrt c)⁻¹ * (sqrt c)⁻¹ = c⁻¹ := by rw [← mul_inv, hs]
      simp [cov, Matrix.conjTranspose_smul, hst, smul_smul, this, star_inv₀]

/-- DiagonalOperator with any pending transformation `t`: the covariance of the draw is the operator's own action
    (TIMES for a forward draw, INVERSE_TIMES for an inverse draw) -/
theorem diag_cov
    (hD : ∀ d : X → K, dcomplex d = false → dminneg d = false →
        ∀ x, sqrt (d x) * sqrt (d x) = d x ∧ star (sqrt (d x)) = sqrt (d x) ∧ star (d x) = d x)
    (dm : Nat) (d : X → K) (t dt : Nat) (fi : Bool) (ht : t < 4) (l : List (Matrix X X K × Nat))
    (h : sampler SS (Op.diag dm d t dt) fi = .ok l) :
    cov l = den S0 (Op.diag dm d t dt) (1 <<< (if fi then 2 else 0)) := by
  simp only [sampler, mssem, msem] at h
  split at h
  · cases h
  · split at h
    · cases h
    · rename_i h2
      simp only [Bool.or_eq_true, not_or, Bool.not_eq_true] at h2
      obtain ⟨⟨hc, hn⟩, _⟩ := h2
      have hd := hD d hc hn
      injection h with h
      subst h
      rw [den_diag' isReal re blocks leaf dm d t dt _ ht (by split <;> decide)]
      simp only [cov, List.map_cons, List.map_nil, List.sum_cons, List.sum_nil, add_zero,
        Matrix.diagonal_conjTranspose, Matrix.diagonal_mul_diagonal]
      congr 1
      funext x
      obtain ⟨h1, h2', h3⟩ := hd x
      have hinv : (sqrt (d x))⁻¹ * (sqrt (d x))⁻¹ = (d x)⁻¹ := by rw [← mul_inv, h1]
      interval_cases t <;> cases fi <;> simp [modeDiag, h1, h2', h3, hinv, star_inv₀]
where
  den_diag' (isReal : K → Bool) (re : K → K) (blocks : Nat → List (Matrix X X K) → Matrix X X K)
      (leaf : Nat → Nat → Matrix X X K) (dm : Nat) (d : X → K) (t dt s : Nat) (ht : t < 4) (hs : s < 4) :
      den (msem isReal re blocks leaf) (Op.diag dm d t dt) (1 <<< s) = Matrix.diagonal (modeDiag d (s ^^^ t)) := by
    unfold den
    rw [diagTrafo_eval t ht s hs, diagBranch_msem _ _ _ _ _ _ (xor_lt4 s hs t ht)]
    rfl

/-- SandwichOperator, forward draw: the cheese's draws mapped through the bun's ADJOINT_TIMES: `A Aᴴ = Bᴴ C B` when the
    bun's adjoint action is the conjugate transpose of its action -/
theorem sandwich_cov (bun cheese op : Op K (X → K)) (l : List (Matrix X X K × Nat))
    (h : sampler SS (Op.sandwich bun cheese op) false = .ok l) :
    ∃ lc, sampler SS cheese false = .ok lc ∧
      cov l = den S0 bun ADJOINT_TIMES * cov lc * (den S0 bun ADJOINT_TIMES)ᴴ ∧
      (den S0 bun ADJOINT_TIMES = (den S0 bun TIMES)ᴴ → cov l = (den S0 bun TIMES)ᴴ * cov lc * den S0 bun TIMES) := by
  rw [sampler] at h
  simp only [Bool.false_eq_true, if_false] at h
  split at h
  · cases h
  · rename_i lc hc
    split at h
    · cases h
    · injection h with h
      subst h
      refine ⟨lc, hc, ?_, ?_⟩
      · exact cov_map_mul _ lc
      · intro hadj
        refine (cov_map_mul (den S0 bun ADJOINT_TIMES) lc).trans ?_
        rw [hadj, Matrix.conjTranspose_conjTranspose]

/-- SandwichOperator, inverse draw (bun advertises INVERSE_TIMES): `A Aᴴ = B⁻¹ C⁻¹ B⁻ᴴ` -/
theorem sandwich_inv_cov (bun cheese op : Op K (X → K)) (l : List (Matrix X X K × Nat))
    (h : sampler SS (Op.sandwich bun cheese op) true = .ok l) :
    (cap bun &&& INVERSE_TIMES) ≠ 0 ∧ ∃ lc, sampler SS cheese true = .ok lc ∧
      cov l = den S0 bun INVERSE_TIMES * cov lc * (den S0 bun INVERSE_TIMES)ᴴ := by
  rw [sampler] at h
  simp only [if_true] at h
  split at h
  · rename_i hcap
    split at h
    · rename_i lc hc
      injection h with h
      subst h
      exact ⟨by simpa using hcap, lc, hc, cov_map_mul _ lc⟩
    · cases h
  · cases h

theorem seqAll_cov (rs : List (Except String (List (Matrix X X K × Nat)))) (l : List (Matrix X X K × Nat))
    (h : seqAll rs = .ok l) : cov l = (rs.map covE).sum := by
  induction rs generalizing l with
  | nil => simp only [seqAll] at h; injection h with h; subst h; simp [cov]
  | cons r rs ih =>
    cases r with
    | error e => simp [seqAll] at h
    | ok l1 =>
      simp only [seqAll] at h
      split at h
      · rename_i l2 h2
        injection h with h
        subst h
        rw [cov_append, ih l2 h2]
        simp [covE]
      · cases h

/-- SumOperator, forward draw: independent draws of the (non-null) summands, covariances add; a sum with a subtracted
    summand is refused (repaired code) -/
theorem sum_cov (ops : List (Op K (X → K))) (neg : List Bool) (l : List (Matrix X X K × Nat))
    (h : sampler SS (Op.sum ops neg) false = .ok l) :
    cov l = (ops.map fun o => if isNull o then 0 else covE (sampler SS o false)).sum ∧
    ((ops.zip neg).filter (fun p => !isNull p.1)).any (·.2) = false := by
  rw [sampler] at h
  simp only [Bool.false_eq_true, if_false] at h
  split at h
  · cases h
  · rename_i hneg
    refine ⟨?_, by simpa using hneg⟩
    rw [seqAll_cov _ _ h, List.map_map]
    congr 1
    apply List.map_congr_left
    intro o _
    simp only [Function.comp]
    split <;> simp [covE, cov]

/-- OperatorAdapter: an inverse adapter swaps forward and inverse draws, an adjoint adapter changes nothing -/
theorem adapter_sampler (o : Op K (X → K)) (t : Nat) (fi : Bool) (ht : t < 4) :
    sampler SS (Op.adapter o t) fi = sampler SS o (if t &&& 2 = 2 then !fi else fi) := by
  rw [sampler]
  have : ((t &&& INVERSE_BIT) != 0) = decide (t &&& 2 = 2) := by
    revert t; decide
  rw [this]
  by_cases h : t &&& 2 = 2 <;> simp [h]

/-- SamplingEnabler, inverse draw through the numerical inversion: `x = M⁻¹ (P s + n)` with `cov s = P⁻¹`, `cov n = L`
    has covariance `M⁻¹` for `M = P + L` (Hermitian, `Minv` its inverse) -/
theorem enabler_cov (lik prior op : Op K (X → K)) (l ls ln : List (Matrix X X K × Nat))
    (hop : sampler SS op true = .error "NotImplementedError")
    (hs : sampler SS prior true = .ok ls) (hn : sampler SS lik false = .ok ln)
    (h : samplerSE SS lik prior op false true = .ok l)
    (hcapP : checkMode (cap prior) TIMES = true) (hcapL : checkMode (cap lik) TIMES = true)
    (hcapO : checkMode (cap op) TIMES = true)
    (Pinv : Matrix X X K) (hcs : cov ls = Pinv) (hcn : cov ln = den S0 lik TIMES)
    (hP : den S0 prior TIMES * Pinv * (den S0 prior TIMES)ᴴ = den S0 prior TIMES)
    (hM : den S0 op TIMES = den S0 lik TIMES + den S0 prior TIMES)
    (hMinv : (den S0 op TIMES)⁻¹ * den S0 op TIMES = 1) (hMh : ((den S0 op TIMES)⁻¹)ᴴ = (den S0 op TIMES)⁻¹) :
    cov l = (den S0 op TIMES)⁻¹ := by
  simp only [samplerSE, hop, hs, hn, hcapP, hcapL, hcapO, Bool.not_true, Bool.false_eq_true, if_false, Bool.or_self] at h
  injection h with h
  subst h
  rw [cov_append]
  refine (congrArg₂ (· + ·) (cov_map_mul2 _ _ ls) (cov_map_mul _ ln)).trans ?_
  show (den S0 op TIMES)⁻¹ * (den S0 prior TIMES * cov ls * (den S0 prior TIMES)ᴴ) * ((den S0 op TIMES)⁻¹)ᴴ +
      (den S0 op TIMES)⁻¹ * cov ln * ((den S0 op TIMES)⁻¹)ᴴ = (den S0 op TIMES)⁻¹
  rw [hcs, hcn, hP, hMh, ← Matrix.add_mul, ← Matrix.mul_add, add_comm, ← hM, hMinv, Matrix.one_mul]
where
  cov_map_mul2 (M P : Matrix X X K) (l : List (Matrix X X K × Nat)) :
      cov (l.map fun p => (M * (P * p.1), p.2)) = M * (P * cov l * Pᴴ) * Mᴴ := by
    have := cov_map_mul M (l.map fun p => (P * p.1, p.2))
    rw [List.map_map, cov_map_mul] at this
    exact this

/-- refusal logic of ScalingOperator.draw_sample -/
theorem scaling_refuses_iff (d : Nat) (c : K) (dt : Nat) (fi : Bool) :
    (∃ e, sampler SS (Op.scaling d c dt) fi = .error e) ↔
      (dt = 0 ∨ isReal c = false ∨ kneg c = true ∨ (c = 0 ∧ fi = true)) := by
  cases hm : mkeys d <;> simp only [sampler, mssem, msem, hm] <;>
  (by_cases h1 : dt = 0
   · simp [h1]
   · by_cases h2 : isReal c = false
     · simp [h1, h2]
     · by_cases h3 : kneg c = true
       · simp [h1, h3]
       · by_cases h4 : c = 0 <;> cases fi <;> simp_all)

/-- refusal logic of DiagonalOperator.draw_sample / process_sample -/
theorem diag_refuses_iff (dm : Nat) (d : X → K) (t dt : Nat) (fi : Bool) :
    (∃ e, sampler SS (Op.diag dm d t dt) fi = .error e) ↔
      (dt = 0 ∨ dcomplex d = true ∨ dminneg d = true ∨ (dminzero d = true ∧ (fi != decide (t ≥ 2)) = true)) := by
  simp only [sampler, mssem, msem]
  by_cases h1 : dt = 0
  · simp [h1]
  · by_cases h2 : dcomplex d = true
    · simp [h1, h2]
    · by_cases h3 : dminneg d = true
      · simp [h1, h3]
      · by_cases h4 : dminzero d = true <;> by_cases h5 : (fi != decide (t ≥ 2)) = true <;> simp_all

/-- a sum never samples from its inverse -/
theorem sum_refuses_iff (ops : List (Op K (X → K))) (neg : List Bool) :
    sampler SS (Op.sum ops neg) true = .error "NotImplementedError" := by
  rw [sampler]; rfl


/-! ### block-diagonal operators, scalings on multi-domains, complex sampling dtypes -/

section blocks
variable (E : Nat → Nat → Matrix X X K)

/-- block-diagonal assembly through embeddings `E dm k` of the sub-domains of multi-domain `dm`: `Σ_k E_k A_k E_kᴴ` -/
def blocksE (dm : Nat) (l : List (Matrix X X K)) : Matrix X X K :=
  (((List.range l.length).zip l).map fun p => E dm p.1 * p.2 * (E dm p.1)ᴴ).sum

local notation "SB" => mssem isReal re (blocksE E) leaf sqrt kneg dcomplex dminneg dminzero (fun dm k A => E dm k * A) mkeys

theorem seqAll_map_cov (dm : Nat) (f : Nat × Except String (List (Matrix X X K × Nat)) → Except String (List (Matrix X X K × Nat)))
    (hf1 : ∀ k l, f (k, .ok l) = .ok (l.map fun q => (E dm k * q.1, q.2))) (hf2 : ∀ k e, f (k, .error e) = .error e)
    (rs : List (Except String (List (Matrix X X K × Nat)))) (off : Nat) (l : List (Matrix X X K × Nat))
    (h : seqAll (((List.range' off rs.length).zip rs).map f) = .ok l) :
    cov l = (((List.range' off rs.length).zip (rs.map covE)).map fun p => E dm p.1 * p.2 * (E dm p.1)ᴴ).sum := by
  induction rs generalizing off l with
  | nil => simp only [List.length_nil, List.range'_zero, List.zip_nil_left, List.map_nil, seqAll] at h
           injection h with h; subst h; simp [cov]
  | cons r rs ih =>
    simp only [List.length_cons, List.range'_succ, List.zip_cons_cons, List.map_cons] at h ⊢
    cases r with
    | error e => rw [hf2] at h; simp [seqAll] at h
    | ok l1 =>
      rw [hf1] at h
      simp only [seqAll] at h
      split at h
      · rename_i l2 h2
        injection h with h; subst h
        rw [cov_append, ih (off + 1) l2 h2, cov_map_mul]
        simp [covE]
      · cases h

/-- **BlockDiagonalOperator.draw_sample**: the entries are drawn independently in key order and placed into the multi-field;
    the covariance is the block-diagonal assembly of the entries' covariances (a missing entry refuses) -/
theorem blockdiag_cov (dm : Nat) (ents : List (Op K (X → K))) (fi : Bool) (l : List (Matrix X X K × Nat))
    (h : sampler SB (Op.blockdiag dm ents) fi = .ok l) :
    cov l = blocksE E dm (ents.map fun e => covE (sampler SB e fi)) := by
  rw [sampler] at h
  rw [List.range_eq_range'] at h
  have h' := seqAll_map_cov E dm _ (fun k l => rfl) (fun k e => rfl) (ents.map fun e => sampler SB e fi) 0 l h
  rw [h']
  simp only [blocksE, List.range_eq_range', List.map_map, List.length_map]
  rfl

/-- **ScalingOperator on a multi-domain**: one independent draw per key; when the embeddings resolve the identity
    (`Σ_k E_k E_kᴴ = 1`) the covariance is `c·1` (forward) -/
theorem scaling_multi_cov (hsqrt : ∀ c, Admissible isReal kneg c → sqrt c * sqrt c = c ∧ star (sqrt c) = sqrt c)
    (d : Nat) (c : K) (dt : Nat) (l : List (Matrix X X K × Nat)) (hmk : mkeys d ≠ [])
    (hE : (((List.range (mkeys d).length).zip (mkeys d)).map fun p => E d p.1 * (E d p.1)ᴴ).sum = 1)
    (h : sampler SB (Op.scaling d c dt) false = .ok l) : cov l = c • (1 : Matrix X X K) := by
  cases hm : mkeys d with
  | nil => exact absurd hm hmk
  | cons k0 ks =>
    rw [hm] at hE
    simp only [sampler, mssem, msem, hm] at h
    split at h
    · cases h
    · split at h
      · cases h
      · rename_i h2
        simp only [Bool.or_eq_true, Bool.not_eq_true', Bool.and_eq_true, not_or] at h2
        obtain ⟨⟨hr, hn⟩, _⟩ := h2
        obtain ⟨hs, hst⟩ := hsqrt c ⟨by simpa using hr, by simpa using hn⟩
        injection h with h; subst h
        have hterm : ∀ p : Nat × Nat, E d p.1 * (sqrt c • (1 : Matrix X X K)) * (E d p.1 * (sqrt c • (1 : Matrix X X K)))ᴴ =
            c • (E d p.1 * (E d p.1)ᴴ) := by
          intro p
          rw [Matrix.conjTranspose_mul, Matrix.conjTranspose_smul, Matrix.conjTranspose_one, hst]
          simp only [Matrix.mul_smul, Matrix.smul_mul, Matrix.mul_one, Matrix.one_mul, smul_smul, hs]
        have key : cov (List.map (fun x : Nat × Nat => (E d x.1 * (sqrt c • (1 : Matrix X X K)), dt))
            ((List.range (k0 :: ks).length).zip (k0 :: ks))) =
            c • (List.map (fun p : Nat × Nat => E d p.1 * (E d p.1)ᴴ) ((List.range (k0 :: ks).length).zip (k0 :: ks))).sum := by
          rw [List.smul_sum, List.map_map]
          unfold cov
          rw [List.map_map]
          congr 1
          apply List.map_congr_left
          intro p _
          exact hterm p
        simp only [Bool.false_eq_true, if_false] at key ⊢
        rw [hE] at key
        exact key

/-! #### complex sampling dtypes: `E[s sᴴ] = Σ_k κ_k A_k A_kᴴ` with `κ = 2` for a complex draw (unit variance per real and imaginary part),
and the pseudo-covariance `E[s sᵀ] = Σ_{real draws} A_k A_kᵀ` (a circular complex draw contributes 0) -/

def covC (l : List (Matrix X X K × Nat)) : Matrix X X K :=
  (l.map fun p => (if p.2 = 2 then (2 : K) else 1) • (p.1 * p.1ᴴ)).sum
def pcov (l : List (Matrix X X K × Nat)) : Matrix X X K :=
  (l.map fun p => if p.2 = 2 then 0 else p.1 * p.1ᵀ).sum

theorem covC_uniform (l : List (Matrix X X K × Nat)) (dt : Nat) (h : ∀ p ∈ l, p.2 = dt) :
    covC l = (if dt = 2 then (2 : K) else 1) • cov l ∧ (dt = 2 → pcov l = 0) := by
  induction l with
  | nil => simp [covC, pcov, cov]
  | cons p ps ih =>
    obtain ⟨i1, i2⟩ := ih (fun q hq => h q (by simp [hq]))
    have hp := h p (by simp)
    constructor
    · simp only [covC, cov, List.map_cons, List.sum_cons] at i1 ⊢
      rw [i1, hp, smul_add]
    · intro h2
      simp only [pcov, List.map_cons, List.sum_cons] at i2 ⊢
      rw [i2 h2, hp, h2]; simp


end blocks

end NiftyVerif.C13
