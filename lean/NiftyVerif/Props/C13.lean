/-
  C13 — Gaussian sampling from covariance operators has the right covariance.
  Property theorems only; obligations are listed in harness/props/c13.py.

  Every sampler is `s = Σ_k A_k ξ_k` with independent standard-normal excitation fields `ξ_k` (trusted: an affine image of
  a Gaussian is Gaussian with covariance `Σ_k A_k A_kᴴ`).  `sampler` (Model/Sampling.lean) returns the `A_k` in drawing order
  or the exception kind.  Theorems are over Mathlib matrices on any star field `K` and index type `X`, with an abstract
  square root `sqrt` that is only assumed correct on the values the refusal logic lets through (`hsqrt`).
-/
import NiftyVerif.Model.Sampling
import NiftyVerif.Lemmas.OpAlgebra

namespace NiftyVerif.C13
open NiftyVerif.OpAlgebra NiftyVerif.Sampling NiftyVerif.Gen.ModeTables Matrix

set_option linter.unusedSectionVars false

variable {X K : Type} [Fintype X] [DecidableEq X] [Field K] [StarRing K] [DecidableEq K]

/-- covariance of `Σ_k A_k ξ_k` for independent unit-variance excitations -/
def cov (l : List (Matrix X X K × Nat)) : Matrix X X K := (l.map fun p => p.1 * p.1ᴴ).sum

/-- covariance of a sampler outcome (refusal: nothing is drawn) -/
def covE (r : Except String (List (Matrix X X K × Nat))) : Matrix X X K :=
  match r with
  | .ok l => cov l
  | .error _ => 0

variable (isReal : K → Bool) (re : K → K) (blocks : Nat → List (Matrix X X K) → Matrix X X K)
  (leaf : Nat → Nat → Matrix X X K)
  (sqrt : K → K) (kneg : K → Bool) (dcomplex dminneg dminzero : (X → K) → Bool)
  (blockRow : Nat → Nat → Matrix X X K → Matrix X X K) (mkeys : Nat → List Nat)

/-- the Mathlib instantiation of the sampling model -/
noncomputable def mssem : SSem K (X → K) (Matrix X X K) :=
  { msem isReal re blocks leaf with
    ksqrt := sqrt
    kNeg := kneg
    dsqrt := fun d x => sqrt (d x)
    dIsComplex := dcomplex
    dMinNeg := dminneg
    dMinZero := dminzero
    blockRow := blockRow
    multiKeys := mkeys }

local notation "SS" => mssem isReal re blocks leaf sqrt kneg dcomplex dminneg dminzero blockRow mkeys
local notation "S0" => msem isReal re blocks leaf

/-- independent draws add their covariances -/
theorem cov_append (l1 l2 : List (Matrix X X K × Nat)) : cov (l1 ++ l2) = cov l1 + cov l2 := by
  simp [cov, List.map_append, List.sum_append]

/-- mapping every draw through `M` conjugates the covariance: `M C Mᴴ` -/
theorem cov_map_mul (M : Matrix X X K) (l : List (Matrix X X K × Nat)) :
    cov (l.map fun p => (M * p.1, p.2)) = M * cov l * Mᴴ := by
  induction l with
  | nil => simp [cov]
  | cons p ps ih =>
    simp only [cov, List.map_cons, List.sum_cons] at ih ⊢
    rw [ih, Matrix.conjTranspose_mul]
    simp only [Matrix.mul_add, Matrix.add_mul, Matrix.mul_assoc]

/-- what the refusal logic guarantees about a scalar that is square-rooted: it is real and not negative -/
def Admissible (c : K) : Prop := isReal c = true ∧ kneg c = false

/-- ScalingOperator, forward draw: `A Aᴴ = c · 1` -/
theorem scaling_cov (hsqrt : ∀ c, Admissible isReal kneg c → sqrt c * sqrt c = c ∧ star (sqrt c) = sqrt c)
    (d : Nat) (c : K) (dt : Nat) (l : List (Matrix X X K × Nat)) (hmk : mkeys d = [])
    (h : sampler SS (Op.scaling d c dt) false = .ok l) : cov l = c • (1 : Matrix X X K) := by
  simp only [sampler, mssem, msem, hmk] at h
  split at h
  · cases h
  · split at h
    · cases h
    · rename_i h2
      simp only [Bool.or_eq_true, Bool.not_eq_true', Bool.and_eq_true, not_or] at h2
      obtain ⟨⟨hr, hn⟩, _⟩ := h2
      have hadm : Admissible isReal kneg c := ⟨by simpa using hr, by simpa using hn⟩
      obtain ⟨hs, hst⟩ := hsqrt c hadm
      injection h with h
      subst h
      simp [cov, Matrix.conjTranspose_smul, hst, smul_smul, hs]

/-- ScalingOperator, inverse draw: `A Aᴴ = c⁻¹ · 1` (and `c = 0` is refused) -/
theorem scaling_inv_cov (hsqrt : ∀ c, Admissible isReal kneg c → sqrt c * sqrt c = c ∧ star (sqrt c) = sqrt c)
    (d : Nat) (c : K) (dt : Nat) (l : List (Matrix X X K × Nat)) (hmk : mkeys d = [])
    (h : sampler SS (Op.scaling d c dt) true = .ok l) : cov l = c⁻¹ • (1 : Matrix X X K) ∧ c ≠ 0 := by
  simp only [sampler, mssem, msem, hmk] at h
  split at h
  · cases h
  · split at h
    · cases h
    · rename_i h2
      simp only [Bool.or_eq_true, Bool.not_eq_true', Bool.and_eq_true, not_or, not_and] at h2
      obtain ⟨⟨hr, hn⟩, hz⟩ := h2
      have hadm : Admissible isReal kneg c := ⟨by simpa using hr, by simpa using hn⟩
      obtain ⟨hs, hst⟩ := hsqrt c hadm
      have hc : c ≠ 0 := by
        intro h0; apply hz
        · simpa using h0
        · trivial
      injection h with h
      subst h
      refine ⟨?_, hc⟩
      have : (sqrt c)⁻¹ * (sqrt c)⁻¹ = c⁻¹ := by rw [← mul_inv, hs]
      simp [cov, Matrix.conjTranspose_smul, hst, smul_smul, this, star_inv₀]

/-- DiagonalOperator with any pending transformation `t`: the covariance of the draw is the operator's own action
    (TIMES for a forward draw, INVERSE_TIMES for an inverse draw) -/
theorem diag_cov
    (hD : ∀ d : X → K, dcomplex d = false → dminneg d = false →
        ∀ x, sqrt (d x) * sqrt (d x) = d x ∧ star (sqrt (d x)) = sqrt (d x) ∧ star (d x) = d x)
    (dm : Nat) (d : X → K) (t dt : Nat) (fi : Bool) (ht : t < 4) (l : List (Matrix X X K × Nat))
    (h : sampler SS (Op.diag dm d t dt) fi = .ok l) :
    cov l = den S0 (Op.diag dm d t dt) (1 <<< (if fi then 2 else 0)) := by
  simp only [sampler, mssem, msem] at h
  split at h
  · cases h
  · split at h
    · cases h
    · rename_i h2
      simp only [Bool.or_eq_true, not_or, Bool.not_eq_true] at h2
      obtain ⟨⟨hc, hn⟩, _⟩ := h2
      have hd := hD d hc hn
      injection h with h
      subst h
      rw [den_diag' isReal re blocks leaf dm d t dt _ ht (by split <;> decide)]
      simp only [cov, List.map_cons, List.map_nil, List.sum_cons, List.sum_nil, add_zero,
        Matrix.diagonal_conjTranspose, Matrix.diagonal_mul_diagonal]
      congr 1
      funext x
      obtain ⟨h1, h2', h3⟩ := hd x
      have hinv : (sqrt (d x))⁻¹ * (sqrt (d x))⁻¹ = (d x)⁻¹ := by rw [← mul_inv, h1]
      interval_cases t <;> cases fi <;> simp [modeDiag, h1, h2', h3, hinv, star_inv₀]
where
  den_diag' (isReal : K → Bool) (re : K → K) (blocks : Nat → List (Matrix X X K) → Matrix X X K)
      (leaf : Nat → Nat → Matrix X X K) (dm : Nat) (d : X → K) (t dt s : Nat) (ht : t < 4) (hs : s < 4) :
      den (msem isReal re blocks leaf) (Op.diag dm d t dt) (1 <<< s) = Matrix.diagonal (modeDiag d (s ^^^ t)) := by
    unfold den
    rw [diagTrafo_eval t ht s hs, diagBranch_msem _ _ _ _ _ _ (xor_lt4 s hs t ht)]
    rfl

/-- SandwichOperator, forward draw: the cheese's draws mapped through the bun's ADJOINT_TIMES: `A Aᴴ = Bᴴ C B` when the
    bun's adjoint action is the conjugate transpose of its action -/
theorem sandwich_cov (bun cheese op : Op K (X → K)) (l : List (Matrix X X K × Nat))
    (h : sampler SS (Op.sandwich bun cheese op) false = .ok l) :
    ∃ lc, sampler SS cheese false = .ok lc ∧
      cov l = den S0 bun ADJOINT_TIMES * cov lc * (den S0 bun ADJOINT_TIMES)ᴴ ∧
      (den S0 bun ADJOINT_TIMES = (den S0 bun TIMES)ᴴ → cov l = (den S0 bun TIMES)ᴴ * cov lc * den S0 bun TIMES) := by
  rw [sampler] at h
  simp only [Bool.false_eq_true, if_false] at h
  split at h
  · cases h
  · rename_i lc hc
    split at h
    · cases h
    · injection h with h
      subst h
      refine ⟨lc, hc, ?_, ?_⟩
      · exact cov_map_mul _ lc
      · intro hadj
        refine (cov_map_mul (den S0 bun ADJOINT_TIMES) lc).trans ?_
        rw [hadj, Matrix.conjTranspose_conjTranspose]

/-- SandwichOperator, inverse draw (bun advertises INVERSE_TIMES): `A Aᴴ = B⁻¹ C⁻¹ B⁻ᴴ` -/
theorem sandwich_inv_cov (bun cheese op : Op K (X → K)) (l : List (Matrix X X K × Nat))
    (h : sampler SS (Op.sandwich bun cheese op) true = .ok l) :
    (cap bun &&& INVERSE_TIMES) ≠ 0 ∧ ∃ lc, sampler SS cheese true = .ok lc ∧
      cov l = den S0 bun INVERSE_TIMES * cov lc * (den S0 bun INVERSE_TIMES)ᴴ := by
  rw [sampler] at h
  simp only [if_true] at h
  split at h
  · rename_i hcap
    split at h
    · rename_i lc hc
      injection h with h
      subst h
      exact ⟨by simpa using hcap, lc, hc, cov_map_mul _ lc⟩
    · cases h
  · cases h

theorem seqAll_cov (rs : List (Except String (List (Matrix X X K × Nat)))) (l : List (Matrix X X K × Nat))
    (h : seqAll rs = .ok l) : cov l = (rs.map covE).sum := by
  induction rs generalizing l with
  | nil => simp only [seqAll] at h; injection h with h; subst h; simp [cov]
  | cons r rs ih =>
    cases r with
    | error e => simp [seqAll] at h
    | ok l1 =>
      simp only [seqAll] at h
      split at h
      · rename_i l2 h2
        injection h with h
        subst h
        rw [cov_append, ih l2 h2]
        simp [covE]
      · cases h

/-- SumOperator, forward draw: independent draws of the (non-null) summands, covariances add; a sum with a subtracted
    summand is refused (repaired code) -/
theorem sum_cov (ops : List (Op K (X → K))) (neg : List Bool) (l : List (Matrix X X K × Nat))
    (h : sampler SS (Op.sum ops neg) false = .ok l) :
    cov l = (ops.map fun o => if isNull o then 0 else covE (sampler SS o false)).sum ∧
    ((ops.zip neg).filter (fun p => !isNull p.1)).any (·.2) = false := by
  rw [sampler] at h
  simp only [Bool.false_eq_true, if_false] at h
  split at h
  · cases h
  · rename_i hneg
    refine ⟨?_, by simpa using hneg⟩
    rw [seqAll_cov _ _ h, List.map_map]
    congr 1
    apply List.map_congr_left
    intro o _
    simp only [Function.comp]
    split <;> simp [covE, cov]

/-- OperatorAdapter: an inverse adapter swaps forward and inverse draws, an adjoint adapter changes nothing -/
theorem adapter_sampler (o : Op K (X → K)) (t : Nat) (fi : Bool) (ht : t < 4) :
    sampler SS (Op.adapter o t) fi = sampler SS o (if t &&& 2 = 2 then !fi else fi) := by
  rw [sampler]
  have : ((t &&& INVERSE_BIT) != 0) = decide (t &&& 2 = 2) := by
    revert t; decide
  rw [this]
  by_cases h : t &&& 2 = 2 <;> simp [h]

/-- SamplingEnabler, inverse draw through the numerical inversion: `x = M⁻¹ (P s + n)` with `cov s = P⁻¹`, `cov n = L`
    has covariance `M⁻¹` for `M = P + L` (Hermitian, `Minv` its inverse) -/
theorem enabler_cov (lik prior op : Op K (X → K)) (l ls ln : List (Matrix X X K × Nat))
    (hop : sampler SS op true = .error "NotImplementedError")
    (hs : sampler SS prior true = .ok ls) (hn : sampler SS lik false = .ok ln)
    (h : samplerSE SS lik prior op false true = .ok l)
    (hcapP : checkMode (cap prior) TIMES = true) (hcapL : checkMode (cap lik) TIMES = true)
    (hcapO : checkMode (cap op) TIMES = true)
    (Pinv : Matrix X X K) (hcs : cov ls = Pinv) (hcn : cov ln = den S0 lik TIMES)
    (hP : den S0 prior TIMES * Pinv * (den S0 prior TIMES)ᴴ = den S0 prior TIMES)
    (hM : den S0 op TIMES = den S0 lik TIMES + den S0 prior TIMES)
    (hMinv : (den S0 op TIMES)⁻¹ * den S0 op TIMES = 1) (hMh : ((den S0 op TIMES)⁻¹)ᴴ = (den S0 op TIMES)⁻¹) :
    cov l = (den S0 op TIMES)⁻¹ := by
  simp only [samplerSE, hop, hs, hn, hcapP, hcapL, hcapO, Bool.not_true, Bool.false_eq_true, if_false, Bool.or_self] at h
  injection h with h
  subst h
  rw [cov_append]
  refine (congrArg₂ (· + ·) (cov_map_mul2 _ _ ls) (cov_map_mul _ ln)).trans ?_
  show (den S0 op TIMES)⁻¹ * (den S0 prior TIMES * cov ls * (den S0 prior TIMES)ᴴ) * ((den S0 op TIMES)⁻¹)ᴴ +
      (den S0 op TIMES)⁻¹ * cov ln * ((den S0 op TIMES)⁻¹)ᴴ = (den S0 op TIMES)⁻¹
  rw [hcs, hcn, hP, hMh, ← Matrix.add_mul, ← Matrix.mul_add, add_comm, ← hM, hMinv, Matrix.one_mul]
where
  cov_map_mul2 (M P : Matrix X X K) (l : List (Matrix X X K × Nat)) :
      cov (l.map fun p => (M * (P * p.1), p.2)) = M * (P * cov l * Pᴴ) * Mᴴ := by
    have := cov_map_mul M (l.map fun p => (P * p.1, p.2))
    rw [List.map_map, cov_map_mul] at this
    exact this

/-- refusal logic of ScalingOperator.draw_sample -/
theorem scaling_refuses_iff (d : Nat) (c : K) (dt : Nat) (fi : Bool) :
    (∃ e, sampler SS (Op.scaling d c dt) fi = .error e) ↔
      (dt = 0 ∨ isReal c = false ∨ kneg c = true ∨ (c = 0 ∧ fi = true)) := by
  cases hm : mkeys d <;> simp only [sampler, mssem, msem, hm] <;>
  (by_cases h1 : dt = 0
   · simp [h1]
   · by_cases h2 : isReal c = false
     · simp [h1, h2]
     · by_cases h3 : kneg c = true
       · simp [h1, h3]
       · by_cases h4 : c = 0 <;> cases fi <;> simp_all)

/-- refusal logic of DiagonalOperator.draw_sample / process_sample -/
theorem diag_refuses_iff (dm : Nat) (d : X → K) (t dt : Nat) (fi : Bool) :
    (∃ e, sampler SS (Op.diag dm d t dt) fi = .error e) ↔
      (dt = 0 ∨ dcomplex d = true ∨ dminneg d = true ∨ (dminzero d = true ∧ (fi != decide (t ≥ 2)) = true)) := by
  simp only [sampler, mssem, msem]
  by_cases h1 : dt = 0
  · simp [h1]
  · by_cases h2 : dcomplex d = true
    · simp [h1, h2]
    · by_cases h3 : dminneg d = true
      · simp [h1, h3]
      · by_cases h4 : dminzero d = true <;> by_cases h5 : (fi != decide (t ≥ 2)) = true <;> simp_all

/-- a sum never samples from its inverse -/
theorem sum_refuses_iff (ops : List (Op K (X → K))) (neg : List Bool) :
    sampler SS (Op.sum ops neg) true = .error "NotImplementedError" := by
  rw [sampler]; rfl


/-! ### block-diagonal operators, scalings on multi-domains, complex sampling dtypes -/

section blocks
variable (E : Nat → Nat → Matrix X X K)

/-- block-diagonal assembly through embeddings `E dm k` of the sub-domains of multi-domain `dm`: `Σ_k E_k A_k E_kᴴ` -/
def blocksE (dm : Nat) (l : List (Matrix X X K)) : Matrix X X K :=
  (((List.range l.length).zip l).map fun p => E dm p.1 * p.2 * (E dm p.1)ᴴ).sum

local notation "SB" => mssem isReal re (blocksE E) leaf sqrt kneg dcomplex dminneg dminzero (fun dm k A => E dm k * A) mkeys

theorem seqAll_map_cov (dm : Nat) (f : Nat × Except String (List (Matrix X X K × Nat)) → Except String (List (Matrix X X K × Nat)))
    (hf1 : ∀ k l, f (k, .ok l) = .ok (l.map fun q => (E dm k * q.1, q.2))) (hf2 : ∀ k e, f (k, .error e) = .error e)
    (rs : List (Except String (List (Matrix X X K × Nat)))) (off : Nat) (l : List (Matrix X X K × Nat))
    (h : seqAll (((List.range' off rs.length).zip rs).map f) = .ok l) :
    cov l = (((List.range' off rs.length).zip (rs.map covE)).map fun p => E dm p.1 * p.2 * (E dm p.1)ᴴ).sum := by
  induction rs generalizing off l with
  | nil => simp only [List.length_nil, List.range'_zero, List.zip_nil_left, List.map_nil, seqAll] at h
           injection h with h; subst h; simp [cov]
  | cons r rs ih =>
    simp only [List.length_cons, List.range'_succ, List.zip_cons_cons, List.map_cons] at h ⊢
    cases r with
    | error e => rw [hf2] at h; simp [seqAll] at h
    | ok l1 =>
      rw [hf1] at h
      simp only [seqAll] at h
      split at h
      · rename_i l2 h2
        injection h with h; subst h
        rw [cov_append, ih (off + 1) l2 h2, cov_map_mul]
        simp [covE]
      · cases h

/-- **BlockDiagonalOperator.draw_sample**: the entries are drawn independently in key order and placed into the multi-field;
    the covariance is the block-diagonal assembly of the entries' covariances (a missing entry refuses) -/
theorem blockdiag_cov (dm : Nat) (ents : List (Op K (X → K))) (fi : Bool) (l : List (Matrix X X K × Nat))
    (h : sampler SB (Op.blockdiag dm ents) fi = .ok l) :
    cov l = blocksE E dm (ents.map fun e => covE (sampler SB e fi)) := by
  rw [sampler] at h
  rw [List.range_eq_range'] at h
  have h' := seqAll_map_cov E dm _ (fun k l => rfl) (fun k e => rfl) (ents.map fun e => sampler SB e fi) 0 l h
  rw [h']
  simp only [blocksE, List.range_eq_range', List.map_map, List.length_map]
  rfl

/-- **ScalingOperator on a multi-domain**: one independent draw per key; when the embeddings resolve the identity
    (`Σ_k E_k E_kᴴ = 1`) the covariance is `c·1` (forward) -/
theorem scaling_multi_cov (hsqrt : ∀ c, Admissible isReal kneg c → sqrt c * sqrt c = c ∧ star (sqrt c) = sqrt c)
    (d : Nat) (c : K) (dt : Nat) (l : List (Matrix X X K × Nat)) (hmk : mkeys d ≠ [])
    (hE : (((List.range (mkeys d).length).zip (mkeys d)).map fun p => E d p.1 * (E d p.1)ᴴ).sum = 1)
    (h : sampler SB (Op.scaling d c dt) false = .ok l) : cov l = c • (1 : Matrix X X K) := by
  cases hm : mkeys d with
  | nil => exact absurd hm hmk
  | cons k0 ks =>
    rw [hm] at hE
    simp only [sampler, mssem, msem, hm] at h
    split at h
    · cases h
    · split at h
      · cases h
      · rename_i h2
        simp only [Bool.or_eq_true, Bool.not_eq_true', Bool.and_eq_true, not_or] at h2
        obtain ⟨⟨hr, hn⟩, _⟩ := h2
        obtain ⟨hs, hst⟩ := hsqrt c ⟨by simpa using hr, by simpa using hn⟩
        injection h with h; subst h
        have hterm : ∀ p : Nat × Nat, E d p.1 * (sqrt c • (1 : Matrix X X K)) * (E d p.1 * (sqrt c • (1 : Matrix X X K)))ᴴ =
            c • (E d p.1 * (E d p.1)ᴴ) := by
          intro p
          rw [Matrix.conjTranspose_mul, Matrix.conjTranspose_smul, Matrix.conjTranspose_one, hst]
          simp only [Matrix.mul_smul, Matrix.smul_mul, Matrix.mul_one, Matrix.one_mul, smul_smul, hs]
        have key : cov (List.map (fun x : Nat × Nat => (E d x.1 * (sqrt c • (1 : Matrix X X K)), dt))
            ((List.range (k0 :: ks).length).zip (k0 :: ks))) =
            c • (List.map (fun p : Nat × Nat => E d p.1 * (E d p.1)ᴴ) ((List.range (k0 :: ks).length).zip (k0 :: ks))).sum := by
          rw [List.smul_sum, List.map_map]
          unfold cov
          rw [List.map_map]
          congr 1
          apply List.map_congr_left
          intro p _
          exact hterm p
        simp only [Bool.false_eq_true, if_false] at key ⊢
        rw [hE] at key
        exact key

/-! #### complex sampling dtypes: `E[s sᴴ] = Σ_k κ_k A_k A_kᴴ` with `κ = 2` for a complex draw (unit variance per real and imaginary part),
and the pseudo-covariance `E[s sᵀ] = Σ_{real draws} A_k A_kᵀ` (a circular complex draw contributes 0) -/

def covC (l : List (Matrix X X K × Nat)) : Matrix X X K :=
  (l.map fun p => (if p.2 = 2 then (2 : K) else 1) • (p.1 * p.1ᴴ)).sum
def pcov (l : List (Matrix X X K × Nat)) : Matrix X X K :=
  (l.map fun p => if p.2 = 2 then 0 else p.1 * p.1ᵀ).sum

theorem covC_uniform (l : List (Matrix X X K × Nat)) (dt : Nat) (h : ∀ p ∈ l, p.2 = dt) :
    covC l = (if dt = 2 then (2 : K) else 1) • cov l ∧ (dt = 2 → pcov l = 0) := by
  induction l with
  | nil => simp [covC, pcov, cov]
  | cons p ps ih =>
    obtain ⟨i1, i2⟩ := ih (fun q hq => h q (by simp [hq]))
    have hp := h p (by simp)
    constructor
    · simp only [covC, cov, List.map_cons, List.sum_cons] at i1 ⊢
      rw [i1, hp, smul_add]
    · intro h2
      simp only [pcov, List.map_cons, List.sum_cons] at i2 ⊢
      rw [i2 h2, hp, h2]; simp


end blocks


/-! ### whole covariance scripts -/

section tree
variable (E : Nat → Nat → Matrix X X K)

local notation "SB" => mssem isReal re (blocksE E) leaf sqrt kneg dcomplex dminneg dminzero (fun dm k A => E dm k * A) mkeys
local notation "SD" => msem isReal re (blocksE E) leaf

/-- every member of an accepted sequence of draws was accepted -/
theorem seqAll_ok_mem {α : Type} : ∀ (rs : List (Except String (List α))) (l : List α), seqAll rs = .ok l →
    ∀ r ∈ rs, ∃ l', r = .ok l'
  | [], _, _, r, hr => by simp at hr
  | .error e :: _, _, h, _, _ => by simp [seqAll] at h
  | .ok l1 :: rest, l, h, r, hr => by
    simp only [seqAll] at h
    split at h
    · rename_i l2 h2
      simp only [List.mem_cons] at hr
      rcases hr with rfl | hr
      · exact ⟨l1, rfl⟩
      · exact seqAll_ok_mem rest l2 h2 r hr
    · cases h

theorem seqAll_zip_ok_mem {α : Type} (f : Nat × Except String (List α) → Except String (List α))
    (hf2 : ∀ k e, f (k, .error e) = .error e) :
    ∀ (rs : List (Except String (List α))) (off : Nat) (l : List α),
      seqAll (((List.range' off rs.length).zip rs).map f) = .ok l → ∀ r ∈ rs, ∃ l', r = .ok l'
  | [], _, _, _, r, hr => by simp at hr
  | .error e :: rest, off, l, h, _, _ => by
    simp only [List.length_cons, List.range'_succ, List.zip_cons_cons, List.map_cons, hf2, seqAll] at h
    cases h
  | .ok l1 :: rest, off, l, h, r, hr => by
    simp only [List.length_cons, List.range'_succ, List.zip_cons_cons, List.map_cons] at h
    have hmem := seqAll_ok_mem _ _ h
    simp only [List.mem_cons] at hr
    rcases hr with rfl | hr
    · exact ⟨l1, rfl⟩
    · cases hfx : f (off, .ok l1) with
      | error e => rw [hfx] at h; simp [seqAll] at h
      | ok l0 =>
        rw [hfx] at h
        simp only [seqAll] at h
        split at h
        · rename_i l2 h2
          exact seqAll_zip_ok_mem f hf2 rest (off + 1) l2 h2 r hr
        · cases h

theorem signedSum_zip_nulls {α : Type} (D : α → Matrix X X K) (isN : α → Bool) (hN : ∀ o, isN o = true → D o = 0) :
    ∀ (ops : List α) (neg : List Bool), neg.length = ops.length →
      (∀ p ∈ ops.zip neg, isN p.1 = false → p.2 = false) →
      signedSum ((ops.map D).zip neg) = (ops.map fun o => if isN o then 0 else D o).sum
  | [], _, _, _ => by simp [signedSum]
  | o :: os, [], h, _ => by simp at h
  | o :: os, n :: ns, h, hs => by
    have ih := signedSum_zip_nulls D isN hN os ns (by simpa using h) (fun p hp => hs p (by simp [hp]))
    simp only [signedSum, List.map_cons, List.zip_cons_cons, List.sum_cons] at ih ⊢
    rw [ih]
    congr 1
    by_cases hn : isN o = true
    · simp [hn, hN o hn]
    · have hn' : isN o = false := by simpa using hn
      have := hs (o, n) (by simp) hn'
      simp only at this
      simp [hn', this]

/-- what the whole-script theorem needs from the operators of a covariance script: plain-domain scalings, diagonal
    transformations in range, sandwiches whose stored simplified operator is `Bᴴ C B` (C01 `mkSandwich_sound`) with a bun whose
    adjoint action is the conjugate transpose, adapters around self-adjoint operands, sums with one sign per summand -/
def CovOK : Op K (X → K) → Prop
  | .scaling d _ _ => mkeys d = []
  | .diag _ _ t _ => t < 4
  | .sandwich bun cheese op =>
      CovOK cheese ∧
      den SD bun ADJOINT_TIMES = (den SD bun TIMES)ᴴ ∧
      den SD op TIMES = (den SD bun TIMES)ᴴ * den SD cheese TIMES * den SD bun TIMES ∧
      den SD op INVERSE_TIMES = den SD bun INVERSE_TIMES * den SD cheese INVERSE_TIMES * (den SD bun INVERSE_TIMES)ᴴ
  | .blockdiag _ ents => ∀ p ∈ ents.map CovOK, p
  | .sum ops neg => ops ≠ [] ∧ neg.length = ops.length ∧ ∀ p ∈ ops.map CovOK, p
  | .adapter o t => t < 4 ∧ CovOK o ∧
      (t &&& 1 = 1 → den SD o ADJOINT_TIMES = den SD o TIMES ∧ den SD o ADJOINT_INVERSE_TIMES = den SD o INVERSE_TIMES)
  | _ => False

theorem den_adapter' (o : Op K (X → K)) (t s : Nat) (ht : t < 4) (hs : s < 4) :
    den SD (Op.adapter o t) (1 <<< s) = den SD o (1 <<< (s ^^^ t)) := by
  rw [den, adapterApplyMode_eval t ht s hs]

theorem den_scaling' (d : Nat) (c : K) (dt : Nat) :
    den SD (Op.scaling d c dt) (1 <<< 0) = c • (1 : Matrix X X K) ∧
    (c ≠ 0 → den SD (Op.scaling d c dt) (1 <<< 2) = c⁻¹ • (1 : Matrix X X K)) := by
  have h0 := adjMask_eval 0 (by decide)
  have h1 := invMask_eval 0 (by decide)
  have h2 := adjMask_eval 2 (by decide)
  have h3 := invMask_eval 2 (by decide)
  constructor
  · unfold den scalingFactor
    rw [h0, h1]
    by_cases hc1 : c = 1
    · simp [msem, hc1]
    · by_cases hc0 : c = 0
      · simp [msem, hc0]
      · simp [msem, hc1, hc0]
  · intro hc0
    unfold den scalingFactor
    rw [h2, h3]
    by_cases hc1 : c = 1
    · simp [msem, hc1]
    · simp [msem, hc1, hc0]

/-- **C13 for whole covariance scripts**: whenever the (modelled) sampler of an operator built from scalings, diagonals (any
    pending transformation), sandwiches, block-diagonal operators, sums and adjoint / inverse adapters accepts, the covariance
    `Σ_k A_k A_kᴴ` of its draws is exactly the operator's own action — TIMES for a forward draw, INVERSE_TIMES for an inverse draw. -/
theorem sampler_sound
    (hsqrt : ∀ c, Admissible isReal kneg c → sqrt c * sqrt c = c ∧ star (sqrt c) = sqrt c)
    (hD : ∀ d : X → K, dcomplex d = false → dminneg d = false →
        ∀ x, sqrt (d x) * sqrt (d x) = d x ∧ star (sqrt (d x)) = sqrt (d x) ∧ star (d x) = d x) :
    ∀ (o : Op K (X → K)) (fi : Bool) (l : List (Matrix X X K × Nat)),
      sampler SB o fi = .ok l → CovOK isReal re leaf mkeys E o →
      cov l = den SD o (1 <<< (if fi then 2 else 0))
  | .scaling d c dt, fi, l, h, hok => by
    have hmk : mkeys d = [] := by rw [CovOK] at hok; exact hok
    cases fi with
    | false =>
      rw [scaling_cov isReal re (blocksE E) leaf sqrt kneg dcomplex dminneg dminzero _ mkeys hsqrt d c dt l hmk h]
      exact ((den_scaling' isReal re leaf E d c dt).1).symm
    | true =>
      obtain ⟨h1, h2⟩ := scaling_inv_cov isReal re (blocksE E) leaf sqrt kneg dcomplex dminneg dminzero _ mkeys hsqrt d c dt l hmk h
      rw [h1]
      exact ((den_scaling' isReal re leaf E d c dt).2 h2).symm
  | .diag dm d t dt, fi, l, h, hok => by
    have ht : t < 4 := by rw [CovOK] at hok; exact hok
    exact diag_cov isReal re (blocksE E) leaf sqrt kneg dcomplex dminneg dminzero _ mkeys hD dm d t dt fi ht l h
  | .sandwich bun cheese op, fi, l, h, hok => by
    rw [CovOK] at hok
    obtain ⟨hc, hadj, hT, hI⟩ := hok
    cases fi with
    | false =>
      obtain ⟨lc, hlc, _, h2⟩ := sandwich_cov isReal re (blocksE E) leaf sqrt kneg dcomplex dminneg dminzero _ mkeys bun cheese op l h
      have ih := sampler_sound hsqrt hD cheese false lc hlc hc
      rw [h2 hadj, ih, den]
      exact hT.symm
    | true =>
      obtain ⟨_, lc, hlc, h2⟩ := sandwich_inv_cov isReal re (blocksE E) leaf sqrt kneg dcomplex dminneg dminzero _ mkeys bun cheese op l h
      have ih := sampler_sound hsqrt hD cheese true lc hlc hc
      rw [h2, ih, den]
      exact hI.symm
  | .blockdiag dm ents, fi, l, h, hok => by
    rw [CovOK] at hok
    have hcov := blockdiag_cov isReal re leaf sqrt kneg dcomplex dminneg dminzero mkeys E dm ents fi l h
    have hall : ∀ e ∈ ents, ∃ le, sampler SB e fi = .ok le := by
      intro e he
      rw [sampler, List.range_eq_range'] at h
      have := seqAll_zip_ok_mem (α := Matrix X X K × Nat) _ (fun k e => rfl) (ents.map fun e => sampler SB e fi) 0 l h
        (sampler SB e fi) (List.mem_map.mpr ⟨e, he, rfl⟩)
      exact this
    rw [hcov, den]
    show blocksE E dm _ = blocksE E dm _
    congr 1
    apply List.map_congr_left
    intro e he
    obtain ⟨le, hle⟩ := hall e he
    rw [hle]
    exact sampler_sound hsqrt hD e fi le hle (hok _ (List.mem_map.mpr ⟨e, he, rfl⟩))
  | .sum ops neg, fi, l, h, hok => by
    rw [CovOK] at hok
    obtain ⟨hne, hlen, hok⟩ := hok
    cases fi with
    | true => rw [sampler] at h; simp at h
    | false =>
      obtain ⟨hc, hneg⟩ := sum_cov isReal re (blocksE E) leaf sqrt kneg dcomplex dminneg dminzero _ mkeys ops neg l h
      have hall : ∀ o ∈ ops, isNull o = false → ∃ lo, sampler SB o false = .ok lo := by
        intro o ho hn
        rw [sampler] at h
        simp only [Bool.false_eq_true, if_false] at h
        split at h
        · cases h
        · have := seqAll_ok_mem _ _ h (if isNull o then .ok [] else sampler SB o false) (List.mem_map.mpr ⟨o, ho, rfl⟩)
          simpa [hn] using this
      rw [hc, den]
      simp only [Bool.false_eq_true, if_false]
      have hz : (ops.map (den SD · (1 <<< 0))).zip neg ≠ [] := by
        cases ops with
        | nil => exact (hne rfl).elim
        | cons a as => cases neg with
          | nil => simp at hlen
          | cons n ns => simp
      rw [sumR_msem isReal re (blocksE E) leaf _ hz]
      rw [signedSum_zip_nulls (fun o => den SD o (1 <<< 0)) isNull
        (fun o ho => by cases o <;> simp [isNull] at ho; rw [den]; split <;> rfl) ops neg hlen
        (fun p hp hn => by
          have := List.any_eq_false.mp hneg p (List.mem_filter.mpr ⟨hp, by simp [hn]⟩)
          simpa using this)]
      congr 1
      apply List.map_congr_left
      intro o ho
      by_cases hn : isNull o = true
      · simp [hn]
      · have hn' : isNull o = false := by simpa using hn
        obtain ⟨lo, hlo⟩ := hall o ho hn'
        simp only [hn', Bool.false_eq_true, if_false, hlo, covE]
        exact sampler_sound hsqrt hD o false lo hlo (hok _ (List.mem_map.mpr ⟨o, ho, rfl⟩))
  | .adapter o t, fi, l, h, hok => by
    rw [CovOK] at hok
    obtain ⟨ht, hco, hherm⟩ := hok
    rw [adapter_sampler isReal re (blocksE E) leaf sqrt kneg dcomplex dminneg dminzero _ mkeys o t fi ht] at h
    have ih := sampler_sound hsqrt hD o _ l h hco
    rw [ih, den_adapter' isReal re leaf E o t _ ht (by cases fi <;> decide)]
    interval_cases t <;> cases fi <;> simp at hherm ⊢ <;>
      first
      | rfl
      | exact hherm.1.symm
      | exact hherm.2.symm
  | .idEntry _, _, _, _, hok => by simp [CovOK] at hok
  | .leaf _ _ _ _, _, _, _, hok => by simp [CovOK] at hok
  | .null _ _, _, _, _, hok => by simp [CovOK] at hok
  | .chain _, _, _, _, hok => by simp [CovOK] at hok
  | .invEnabler _, _, _, _, hok => by simp [CovOK] at hok
termination_by o => sizeOf o
decreasing_by
  all_goals simp_wf
  all_goals first
    | omega
    | (have := List.sizeOf_lt_of_mem ‹_ ∈ _›; omega)

/-- non-vacuity of `CovOK`: a sum of a diagonal and the inverse adapter of a scaling on plain domains is covered -/
example (d : X → K) (c : K) (h0 : mkeys 0 = []) :
    CovOK isReal re leaf mkeys E (Op.sum [Op.diag 0 d 1 1, Op.adapter (Op.scaling 0 c 1) 2] [false, false]) := by
  simp [CovOK, h0]

end tree

end NiftyVerif.C13
