/-
  Line protocol shared by all model drivers.
  One JSON object per input line, one JSON object per output line.
  Exact rationals travel as strings "p/q" (or plain integers).
  Imports core only (no Mathlib) so drivers start fast under `lean --run`.
-/
import Lean.Data.Json

open Lean

namespace NiftyVerif.Proto

/-- parse "p/q", "p", "-p/q" into a `Rat` -/
def parseRat? (s : String) : Option Rat :=
  match s.splitOn "/" with
  | [p] => p.toInt?.map (fun (i : Int) => (i : Rat))
  | [p, q] => do
      let pi ← p.toInt?
      let qi ← q.toNat?
      if qi == 0 then none else some (mkRat pi qi)
  | _ => none

def ratToString (r : Rat) : String :=
  if r.den == 1 then toString r.num else s!"{r.num}/{r.den}"

def jRat (r : Rat) : Json := Json.str (ratToString r)

def getRat? (j : Json) : Option Rat :=
  match j with
  | Json.str s => parseRat? s
  | Json.num n => if n.exponent == 0 then some (n.mantissa : Rat) else
      some (mkRat n.mantissa (10 ^ n.exponent))
  | _ => none

def getInt? (j : Json) : Option Int :=
  match j with
  | Json.num n => if n.exponent == 0 then some n.mantissa else none
  | Json.str s => s.toInt?
  | _ => none

def getNat? (j : Json) : Option Nat := (getInt? j).bind fun i => if i < 0 then none else some i.toNat

def getBool? (j : Json) : Option Bool :=
  match j with
  | Json.bool b => some b
  | _ => none

def getStr? (j : Json) : Option String :=
  match j with
  | Json.str s => some s
  | _ => none

def getArr? (j : Json) : Option (List Json) :=
  match j with
  | Json.arr a => some a.toList
  | _ => none

def field? (j : Json) (k : String) : Option Json := (j.getObjVal? k).toOption

def listOf? {α} (f : Json → Option α) (j : Json) : Option (List α) := do
  let a ← getArr? j
  a.mapM f

def natList? := listOf? getNat?
def intList? := listOf? getInt?
def ratList? := listOf? getRat?

def fNat? (j : Json) (k : String) : Option Nat := (field? j k).bind getNat?
def fInt? (j : Json) (k : String) : Option Int := (field? j k).bind getInt?
def fRat? (j : Json) (k : String) : Option Rat := (field? j k).bind getRat?
def fStr? (j : Json) (k : String) : Option String := (field? j k).bind getStr?
def fBool? (j : Json) (k : String) : Option Bool := (field? j k).bind getBool?
def fNatList? (j : Json) (k : String) : Option (List Nat) := (field? j k).bind natList?
def fIntList? (j : Json) (k : String) : Option (List Int) := (field? j k).bind intList?
def fRatList? (j : Json) (k : String) : Option (List Rat) := (field? j k).bind ratList?

def jNat (n : Nat) : Json := Json.num (JsonNumber.fromNat n)
def jInt (n : Int) : Json := Json.num (JsonNumber.fromInt n)
def jNats (l : List Nat) : Json := Json.arr (l.map jNat).toArray
def jInts (l : List Int) : Json := Json.arr (l.map jInt).toArray
def jRats (l : List Rat) : Json := Json.arr (l.map jRat).toArray
def jList {α} (f : α → Json) (l : List α) : Json := Json.arr (l.map f).toArray
def jObj (kvs : List (String × Json)) : Json := Json.mkObj kvs
def jErr (kind : String) : Json := jObj [("error", Json.str kind)]

/-- The driver loop: read a line, hand the JSON to `handle`, print compact JSON. -/
partial def loop (h : IO.FS.Stream) (handle : Json → Json) : IO Unit := do
  let line ← h.getLine
  if line.isEmpty then return ()
  let t := line.trimAscii.toString
  if t.isEmpty then loop h handle else
  match Json.parse t with
  | .error e => IO.println (jErr s!"parse:{e}").compress
  | .ok j => IO.println (handle j).compress
  loop h handle

def run (handle : Json → Json) : IO Unit := do
  loop (← IO.getStdin) handle

end NiftyVerif.Proto
