"""Python `ast` -> Lean 4 for the restricted subset used by NIFTy's table-like code.

Supported: integer/float literals, names, tuples, + - * // % ** & | ^ << >>, unary -, comparisons,
min/max/int/abs/bool, `a if c else b`, boolean and/or/not, straight-line assignments followed by `return`.
Anything else raises Untranslatable: the caller reports *correspondence broken*, never a crash.
"""
import ast
import os
import textwrap


class Untranslatable(Exception):
    pass


def find_function(path, name, cls=None):
    src = open(path).read()
    tree = ast.parse(src)
    scope = tree.body
    if cls is not None:
        for node in tree.body:
            if isinstance(node, ast.ClassDef) and node.name == cls:
                scope = node.body
                break
        else:
            raise Untranslatable(f"class {cls} not found in {path}")
    for node in scope:
        if isinstance(node, ast.FunctionDef) and node.name == name:
            return node
    raise Untranslatable(f"function {name} not found in {path}")


def find_assign(path, name, cls=None):
    """value node of a module-level or class-level assignment `name = ...`"""
    tree = ast.parse(open(path).read())
    scope = tree.body
    if cls is not None:
        for node in tree.body:
            if isinstance(node, ast.ClassDef) and node.name == cls:
                scope = node.body
                break
        else:
            raise Untranslatable(f"class {cls} not found in {path}")
    for node in scope:
        if isinstance(node, ast.Assign):
            for t in node.targets:
                if isinstance(t, ast.Name) and t.id == name:
                    return node.value
    raise Untranslatable(f"assignment {name} not found in {path}")


BINOPS = {ast.Add: "+", ast.Sub: "-", ast.Mult: "*", ast.FloorDiv: "/", ast.Mod: "%", ast.Pow: "^",
          ast.BitAnd: "&&&", ast.BitOr: "|||", ast.BitXor: "^^^", ast.LShift: "<<<", ast.RShift: ">>>"}
CMPOPS = {ast.Lt: "<", ast.LtE: "≤", ast.Gt: ">", ast.GtE: "≥", ast.Eq: "=", ast.NotEq: "≠"}


class ExprCompiler:
    """ty: the Lean number type of every integer-valued expression ('Nat' or 'Int')."""

    def __init__(self, ty="Nat", env=None):
        self.ty = ty
        self.env = env or {}

    def expr(self, e):
        if isinstance(e, ast.Constant):
            if isinstance(e.value, bool):
                return "true" if e.value else "false"
            if isinstance(e.value, int):
                return f"({e.value} : {self.ty})" if e.value >= 0 else f"(-{-e.value} : {self.ty})"
            raise Untranslatable(f"constant {e.value!r}")
        if isinstance(e, ast.Name):
            return self.env.get(e.id, e.id)
        if isinstance(e, ast.BinOp):
            op = BINOPS.get(type(e.op))
            if op is None:
                raise Untranslatable(ast.dump(e.op))
            return f"({self.expr(e.left)} {op} {self.expr(e.right)})"
        if isinstance(e, ast.UnaryOp):
            if isinstance(e.op, ast.USub):
                if self.ty == "Nat":
                    raise Untranslatable("negation over Nat")
                return f"(-{self.expr(e.operand)})"
            if isinstance(e.op, ast.Not):
                return f"(¬ {self.prop(e.operand)})"
            raise Untranslatable(ast.dump(e.op))
        if isinstance(e, ast.IfExp):
            return f"(if {self.prop(e.test)} then {self.expr(e.body)} else {self.expr(e.orelse)})"
        if isinstance(e, ast.Call) and isinstance(e.func, ast.Name):
            f = e.func.id
            args = e.args
            if f in ("min", "max") and len(args) == 2:
                return f"({f} {self.expr(args[0])} {self.expr(args[1])})"
            if f == "int" and len(args) == 1:
                a = args[0]
                if isinstance(a, (ast.Compare, ast.BoolOp)):
                    return f"(if {self.prop(a)} then (1 : {self.ty}) else (0 : {self.ty}))"
                return self.expr(a)
            if f == "abs" and len(args) == 1 and self.ty == "Int":
                return f"(Int.natAbs {self.expr(args[0])} : Int)"
            raise Untranslatable(f"call {f}")
        if isinstance(e, ast.Tuple):
            return "(" + ", ".join(self.expr(x) for x in e.elts) + ")"
        if isinstance(e, (ast.Compare, ast.BoolOp)):
            return f"(if {self.prop(e)} then (1 : {self.ty}) else (0 : {self.ty}))"
        raise Untranslatable(ast.dump(e)[:80])

    def prop(self, e):
        if isinstance(e, ast.Compare):
            parts = []
            left = e.left
            for op, right in zip(e.ops, e.comparators):
                o = CMPOPS.get(type(op))
                if o is None:
                    raise Untranslatable(ast.dump(op))
                parts.append(f"{self.expr(left)} {o} {self.expr(right)}")
                left = right
            return "(" + " ∧ ".join(parts) + ")"
        if isinstance(e, ast.BoolOp):
            o = " ∧ " if isinstance(e.op, ast.And) else " ∨ "
            return "(" + o.join(self.prop(v) for v in e.values) + ")"
        if isinstance(e, ast.UnaryOp) and isinstance(e.op, ast.Not):
            return f"(¬ {self.prop(e.operand)})"
        if isinstance(e, ast.Constant) and isinstance(e.value, bool):
            return "True" if e.value else "False"
        # integer used as a truth value
        return f"({self.expr(e)} ≠ 0)"


def straightline_function(fn, lean_name, ty="Nat", ret_type=None):
    """def f(a, b, ...): x = ...; y = ...; return expr   ->   Lean `def` with `let`s."""
    c = ExprCompiler(ty)
    args = [a.arg for a in fn.args.args]
    body = [s for s in fn.body if not (isinstance(s, ast.Expr) and isinstance(s.value, ast.Constant))]  # drop docstring
    lets = []
    ret = None
    for s in body:
        if isinstance(s, ast.Assign) and len(s.targets) == 1 and isinstance(s.targets[0], ast.Name):
            lets.append(f"  let {s.targets[0].id} := {c.expr(s.value)}")
        elif isinstance(s, ast.Return) and s is body[-1]:
            ret = c.expr(s.value)
        else:
            raise Untranslatable(f"statement {ast.dump(s)[:80]}")
    if ret is None:
        raise Untranslatable("no return")
    if ret_type is None:
        last = body[-1].value
        ret_type = " × ".join([ty] * len(last.elts)) if isinstance(last, ast.Tuple) else ty
    sig = " ".join(f"({a} : {ty})" for a in args)
    return f"def {lean_name} {sig} : {ret_type} :=\n" + "\n".join(lets) + ("\n" if lets else "") + f"  {ret}\n"


def write_if_changed(path, content):
    os.makedirs(os.path.dirname(path), exist_ok=True)
    if os.path.exists(path) and open(path).read() == content:
        return False
    with open(path, "w") as f:
        f.write(content)
    return True
