"""T1: the literal mode/capability tables and mode-remapping expressions of the nifty.cl linear-operator classes
->  lean/NiftyVerif/Gen/ModeTables.lean  (regenerated on every run; theorems in Props/C01.lean are re-proved).

Sources (all under nifty/cl/operators/):
  linear_operator.py       TIMES.., ADJOINT_BIT, INVERSE_BIT, _ilog, _validMode, _modeTable, _capTable, _addInverse,
                           _backwards, _all_ops, masks in _dom/_tgt, _check_mode
  sum_operator.py          SumOperator.__init__ capability mask
  simple_linear_operators  NullOperator.__init__ capability mask
  chain_operator.py        ChainOperator.__init__ start mask, apply order test, _flip_modes order per trafo
  operator_adapter.py      domain/target mode `1 << trafo`, capability `_capTable[trafo][cap]`, apply mode, _flip_modes xor
  diagonal_operator.py     apply: `_ilog[mode] ^ _trafo` and the four branches; _get_actual_diag branches; _flip_modes xor
  scaling_operator.py      apply: adjoint/inverse masks; _flip_modes bit tests
  inversion_enabler.py     capability `_addInverse[cap]`, delegation test, invmode
  sandwich_operator.py     capability taken from the inner op
A construct that no longer has the expected *shape* raises Untranslatable (reported as "translator broken").
"""
import ast
import os

from . import py2lean
from .py2lean import Untranslatable

VERIF = os.path.dirname(os.path.dirname(os.path.abspath(__file__)))
OUT = os.path.join(VERIF, "lean", "NiftyVerif", "Gen", "ModeTables.lean")

CONSTS = ["TIMES", "ADJOINT_TIMES", "INVERSE_TIMES", "ADJOINT_INVERSE_TIMES", "INVERSE_ADJOINT_TIMES",
          "ADJOINT_BIT", "INVERSE_BIT", "_backwards", "_all_ops"]
LEAN_NAME = {"_backwards": "backwards", "_all_ops": "allOps", "_ilog": "ilog", "_validMode": "validMode",
             "_modeTable": "modeTable", "_capTable": "capTable", "_addInverse": "addInverse"}


def lname(n):
    return LEAN_NAME.get(n, n)


class C(py2lean.ExprCompiler):
    """adds: self.CONST / self._table attribute access, table[...] subscripts (Nat-valued lookups)"""

    def expr(self, e):
        if isinstance(e, ast.Attribute) and isinstance(e.value, ast.Name) and e.value.id == "self":
            if e.attr in self.env:
                return self.env[e.attr]
            if e.attr in CONSTS:
                return lname(e.attr)
            raise Untranslatable(f"attribute self.{e.attr}")
        if isinstance(e, ast.Subscript):
            base, idx = e.value, e.slice
            if isinstance(base, ast.Attribute) and base.attr == "_ilog":
                return f"(ilogN {self.expr(idx)})"
            if isinstance(base, ast.Attribute) and base.attr == "_addInverse":
                return f"(addInverse.getD {self.expr(idx)} 0)"
            if isinstance(base, ast.Subscript) and isinstance(base.value, ast.Attribute) and \
                    base.value.attr in ("_modeTable", "_capTable"):
                t = lname(base.value.attr)
                return f"(({t}.getD {self.expr(base.slice)} []).getD {self.expr(idx)} 0)"
            raise Untranslatable("subscript " + ast.dump(e)[:80])
        return super().expr(e)


def lit(node):
    try:
        return ast.literal_eval(node)
    except Exception:
        raise Untranslatable("not a literal: " + ast.dump(node)[:80])


def lean_list(v, ty):
    if isinstance(v, tuple) and ty == "pair":
        return "(" + ", ".join(lean_list(x, None) for x in v) + ")"
    if isinstance(v, (tuple, list)):
        return "[" + ", ".join(lean_list(x, ty) for x in v) + "]"
    if isinstance(v, bool):
        return "true" if v else "false"
    if isinstance(v, int):
        return str(v) if v >= 0 else f"({v})"
    raise Untranslatable(f"literal {v!r}")


def fn_body(fn):
    return [s for s in fn.body if not (isinstance(s, ast.Expr) and isinstance(s.value, ast.Constant))]


def find_self_assign(fn, attr):
    """value of the (first) statement `self.<attr> = value` in fn (top level)"""
    for s in fn_body(fn):
        if isinstance(s, ast.Assign) and len(s.targets) == 1:
            t = s.targets[0]
            if isinstance(t, ast.Attribute) and isinstance(t.value, ast.Name) and t.value.id == "self" and t.attr == attr:
                return s.value
    raise Untranslatable(f"self.{attr} assignment not found in {fn.name}")


def find_local_assign(fn, name):
    for s in ast.walk(fn):
        if isinstance(s, ast.Assign) and len(s.targets) == 1 and isinstance(s.targets[0], ast.Name) \
                and s.targets[0].id == name:
            return s.value
    raise Untranslatable(f"{name} = ... not found in {fn.name}")


def is_self_attr(e, attr):
    return isinstance(e, ast.Attribute) and e.attr == attr and isinstance(e.value, ast.Name) and e.value.id == "self"


def dom_mask(fn):
    """`return self.domain if mode & MASK else self.target` -> MASK"""
    b = fn_body(fn)
    if len(b) != 1 or not isinstance(b[0], ast.Return) or not isinstance(b[0].value, ast.IfExp):
        raise Untranslatable(f"{fn.name}: shape")
    ife = b[0].value
    if not (is_self_attr(ife.body, "domain") and is_self_attr(ife.orelse, "target")):
        raise Untranslatable(f"{fn.name}: branches are not domain/target")
    t = ife.test
    if not (isinstance(t, ast.BinOp) and isinstance(t.op, ast.BitAnd) and isinstance(t.left, ast.Name)
            and t.left.id == "mode" and isinstance(t.right, ast.Constant) and isinstance(t.right.value, int)):
        raise Untranslatable(f"{fn.name}: test is not `mode & <int>`")
    return t.right.value


def classify_diag_expr(e, lhs):
    """x.val * self._ldiag | mul_conj2(..) if self._complex else x.val*self._ldiag | x.val / .. | div_conj2 .. -> (conj, div)"""
    def plain(b):
        if isinstance(b, ast.BinOp) and isinstance(b.op, (ast.Mult, ast.Div)) and ast.unparse(b.left) == lhs \
                and ast.unparse(b.right) == "self._ldiag":
            return isinstance(b.op, ast.Div)
        raise Untranslatable("diag branch: " + ast.unparse(b)[:80])
    if isinstance(e, ast.IfExp):
        if ast.unparse(e.test) != "self._complex":
            raise Untranslatable("diag branch test: " + ast.unparse(e.test))
        div = plain(e.orelse)
        c = e.body
        if not (isinstance(c, ast.Call) and isinstance(c.func, ast.Name) and c.func.id in ("mul_conj2", "div_conj2")
                and len(c.args) == 2 and ast.unparse(c.args[0]) == lhs and ast.unparse(c.args[1]) == "self._ldiag"):
            raise Untranslatable("diag branch conj call: " + ast.unparse(c)[:80])
        if (c.func.id == "div_conj2") != div:
            raise Untranslatable("diag branch: complex and real branch disagree on mul/div")
        return (True, div)
    return (False, plain(e))


def diag_apply_table(fn):
    """the if-chain of DiagonalOperator.apply over `trafo` -> list of (conj, div) for trafo = 0,1,2,3"""
    res = {}
    tail = None
    for s in fn_body(fn):
        if isinstance(s, ast.If):
            t = s.test
            if not (isinstance(t, ast.Compare) and isinstance(t.left, ast.Name) and t.left.id == "trafo"
                    and len(t.ops) == 1 and isinstance(t.ops[0], ast.Eq) and isinstance(t.comparators[0], ast.Constant)):
                raise Untranslatable("diag apply: if test " + ast.unparse(t))
            if len(s.body) != 1 or not isinstance(s.body[0], ast.Return) or s.orelse:
                raise Untranslatable("diag apply: if body")
            res[t.comparators[0].value] = s.body[0].value
        elif isinstance(s, ast.Return):
            tail = s.value
    if tail is None or sorted(res) != [0, 1, 2]:
        raise Untranslatable("diag apply: expected branches trafo==0,1,2 and a final return")
    res[3] = tail
    out = []
    for k in range(4):
        call = res[k]
        if not (isinstance(call, ast.Call) and ast.unparse(call.func) == "Field" and len(call.args) == 2
                and ast.unparse(call.args[0]) == "x.domain"):
            raise Untranslatable("diag apply: return is not Field(x.domain, ...)")
        out.append(classify_diag_expr(call.args[1], "x.val"))
    return out


def classify_actual_diag(e):
    """self._ldiag | np.conj(self._ldiag) if self._complex else self._ldiag | 1.0/self._ldiag | np.conj(1.0/..) if .. -> (conj, inv)"""
    def plain(b):
        s = ast.unparse(b)
        if s == "self._ldiag":
            return False
        if s == "1.0 / self._ldiag":
            return True
        raise Untranslatable("_get_actual_diag branch: " + s[:80])
    if isinstance(e, ast.IfExp):
        if ast.unparse(e.test) != "self._complex":
            raise Untranslatable("_get_actual_diag test")
        inv = plain(e.orelse)
        c = e.body
        if not (isinstance(c, ast.Call) and ast.unparse(c.func) == "np.conj" and len(c.args) == 1 and plain(c.args[0]) == inv):
            raise Untranslatable("_get_actual_diag conj branch: " + ast.unparse(c)[:80])
        return (True, inv)
    return (False, plain(e))


def actual_diag_table(fn):
    res = {}
    for s in fn_body(fn):
        if not isinstance(s, ast.If):
            raise Untranslatable("_get_actual_diag: statement")
        t = s.test
        if not (ast.unparse(t.left) == "self._trafo" and isinstance(t.ops[0], ast.Eq)
                and isinstance(t.comparators[0], ast.Constant) and len(s.body) == 1 and isinstance(s.body[0], ast.Return)):
            raise Untranslatable("_get_actual_diag: if shape")
        res[t.comparators[0].value] = classify_actual_diag(s.body[0].value)
    if sorted(res) != [0, 1, 2, 3]:
        raise Untranslatable("_get_actual_diag: branches")
    return [res[k] for k in range(4)]


def chain_flip_table(fn):
    """ChainOperator._flip_modes: for trafo in 1..3 whether the list is reversed (None: raises)"""
    names = {}
    out = {}
    for s in fn_body(fn):
        if isinstance(s, ast.Assign) and isinstance(s.targets[0], ast.Name) and is_self_attr(s.value, "ADJOINT_BIT"):
            names[s.targets[0].id] = 1
        elif isinstance(s, ast.Assign) and isinstance(s.targets[0], ast.Name) and is_self_attr(s.value, "INVERSE_BIT"):
            names[s.targets[0].id] = 2

    def val(e):
        if isinstance(e, ast.Name) and e.id in names:
            return names[e.id]
        if isinstance(e, ast.Constant) and isinstance(e.value, int):
            return e.value
        if isinstance(e, ast.BinOp) and isinstance(e.op, ast.BitOr):
            return val(e.left) | val(e.right)
        raise Untranslatable("chain flip: value " + ast.unparse(e))

    def tests(t):
        if isinstance(t, ast.BoolOp) and isinstance(t.op, ast.Or):
            return [x for v in t.values for x in tests(v)]
        if isinstance(t, ast.Compare) and isinstance(t.left, ast.Name) and t.left.id == "trafo" \
                and isinstance(t.ops[0], ast.Eq):
            return [val(t.comparators[0])]
        raise Untranslatable("chain flip: test " + ast.unparse(t))
    for s in fn_body(fn):
        if not isinstance(s, ast.If):
            continue
        ks = tests(s.test)
        r = s.body[0]
        if not isinstance(r, ast.Return):
            raise Untranslatable("chain flip: body")
        src = ast.unparse(r.value)
        if src == "self":
            kind = "self"
        elif src == "self.make([op._flip_modes(trafo) for op in reversed(self._ops)])":
            kind = True
        elif src == "self.make([op._flip_modes(trafo) for op in self._ops])":
            kind = False
        else:
            raise Untranslatable("chain flip: return " + src[:90])
        for k in ks:
            if k not in out:
                out[k] = kind
    if out.get(0) != "self" or sorted(out) != [0, 1, 2, 3]:
        raise Untranslatable("chain flip: cases " + repr(out))
    return [out[1], out[2], out[3]]


def translate(repo):
    opdir = os.path.join(repo, "nifty/cl/operators")
    lo = os.path.join(opdir, "linear_operator.py")
    c = C("Nat")
    L = []
    emit = L.append
    emit("-- GENERATED by translators/t1_modetables.py from nifty/cl/operators/*.py. Do not edit.")
    emit("-- Literal tables and mode-remapping expressions, transcribed from the Python AST.")
    emit("namespace NiftyVerif.Gen.ModeTables\n")
    for n in CONSTS:
        v = lit(py2lean.find_assign(lo, n, cls="LinearOperator"))
        if not isinstance(v, int) or isinstance(v, bool) or v < 0:
            raise Untranslatable(f"{n} is not a non-negative int")
        emit(f"def {lname(n)} : Nat := {v}")
    emit("")
    ilog = lit(py2lean.find_assign(lo, "_ilog", cls="LinearOperator"))
    emit(f"def ilog : List Int := {lean_list(ilog, 'Int')}")
    emit("/-- `_ilog[m]` as a natural number (the table's -1 entries and out-of-range map to 99: Python would index garbage/raise) -/")
    emit("def ilogN (m : Nat) : Nat := match ilog.getD m (-1) with | Int.ofNat n => n | _ => 99")
    emit(f"def validMode : List Bool := {lean_list(lit(py2lean.find_assign(lo, '_validMode', cls='LinearOperator')), 'Bool')}")
    emit(f"def modeTable : List (List Nat) := {lean_list(lit(py2lean.find_assign(lo, '_modeTable', cls='LinearOperator')), 'Nat')}")
    emit(f"def capTable : List (List Nat) := {lean_list(lit(py2lean.find_assign(lo, '_capTable', cls='LinearOperator')), 'Nat')}")
    emit(f"def addInverse : List Nat := {lean_list(lit(py2lean.find_assign(lo, '_addInverse', cls='LinearOperator')), 'Nat')}")
    emit("")
    emit("-- LinearOperator._dom / _tgt: `self.domain if mode & MASK else self.target`")
    emit(f"def domMask : Nat := {dom_mask(py2lean.find_function(lo, '_dom', cls='LinearOperator'))}")
    emit(f"def tgtMask : Nat := {dom_mask(py2lean.find_function(lo, '_tgt', cls='LinearOperator'))}")
    # _check_mode
    cm = py2lean.find_function(lo, "_check_mode", cls="LinearOperator")
    src = [ast.unparse(s) for s in fn_body(cm)]
    if len(src) != 2 or not src[0].startswith("if not self._validMode[mode]:\n    raise NotImplementedError") or \
            not src[1].startswith("if mode & self.capability == 0:\n    raise NotImplementedError"):
        raise Untranslatable("_check_mode shape")
    emit("-- LinearOperator._check_mode: valid mode and `mode & capability != 0`")
    emit("def checkMode (cap mode : Nat) : Bool := validMode.getD mode false && (mode &&& cap) != 0")
    emit("")
    # SumOperator / NullOperator / ChainOperator capability masks
    so = os.path.join(opdir, "sum_operator.py")
    emit("-- SumOperator.__init__: self._capability = <expr>; then `&= op.capability` for every op")
    emit(f"def sumCap : Nat := {c.expr(find_self_assign(py2lean.find_function(so, '__init__', cls='SumOperator'), '_capability'))}")
    sl = os.path.join(opdir, "simple_linear_operators.py")
    emit(f"def nullCap : Nat := {c.expr(find_self_assign(py2lean.find_function(sl, '__init__', cls='NullOperator'), '_capability'))}")
    co = os.path.join(opdir, "chain_operator.py")
    emit(f"def chainCap : Nat := {c.expr(find_self_assign(py2lean.find_function(co, '__init__', cls='ChainOperator'), '_capability'))}")
    # ChainOperator.apply
    t_ops = find_local_assign(py2lean.find_function(co, "apply", cls="ChainOperator"), "t_ops")
    if not (isinstance(t_ops, ast.IfExp) and ast.unparse(t_ops.body) == "self._ops"
            and ast.unparse(t_ops.orelse) == "reversed(self._ops)"):
        raise Untranslatable("ChainOperator.apply: t_ops shape")
    emit("-- ChainOperator.apply: `t_ops = self._ops if <test> else reversed(self._ops)` (ops applied in t_ops order)")
    emit(f"def chainAppliesListOrder (mode : Nat) : Bool := {c.expr(t_ops.test)} != 0")
    fl = chain_flip_table(py2lean.find_function(co, "_flip_modes", cls="ChainOperator"))
    emit("-- ChainOperator._flip_modes: is the op list reversed for trafo = 1, 2, 3")
    emit(f"def chainFlipReversed : List Bool := {lean_list(fl, 'Bool')}")
    emit("")
    # OperatorAdapter
    oa = os.path.join(opdir, "operator_adapter.py")
    init = py2lean.find_function(oa, "__init__", cls="OperatorAdapter")
    ca = C("Nat", env={"_trafo": "trafo"})
    d = find_self_assign(init, "_domain")
    t = find_self_assign(init, "_target")
    if not (isinstance(d, ast.Call) and ast.unparse(d.func) == "self._op._dom" and isinstance(t, ast.Call)
            and ast.unparse(t.func) == "self._op._tgt"):
        raise Untranslatable("OperatorAdapter.__init__ domain/target shape")
    emit("-- OperatorAdapter.__init__: domain = op._dom(<expr>), target = op._tgt(<expr>)")
    emit(f"def adapterDomMode (trafo : Nat) : Nat := {ca.expr(d.args[0])}")
    emit(f"def adapterTgtMode (trafo : Nat) : Nat := {ca.expr(t.args[0])}")
    cap = find_self_assign(init, "_capability")
    if not (isinstance(cap, ast.Subscript) and ast.unparse(cap.slice) == "self._op.capability"):
        raise Untranslatable("OperatorAdapter capability shape")
    cap2 = ast.Subscript(value=cap.value, slice=ast.Name(id="cap"))
    emit(f"def adapterCap (trafo cap : Nat) : Nat := {ca.expr(cap2)}")
    ap = py2lean.find_function(oa, "apply", cls="OperatorAdapter")
    b = fn_body(ap)
    if not (len(b) == 1 and isinstance(b[0], ast.Return) and isinstance(b[0].value, ast.Call)
            and ast.unparse(b[0].value.func) == "self._op.apply" and ast.unparse(b[0].value.args[0]) == "x"):
        raise Untranslatable("OperatorAdapter.apply shape")
    emit(f"def adapterApplyMode (trafo mode : Nat) : Nat := {ca.expr(b[0].value.args[1])}")
    nf = find_local_assign(py2lean.find_function(oa, "_flip_modes", cls="OperatorAdapter"), "newtrafo")
    emit(f"def adapterFlip (selftrafo trafo : Nat) : Nat := {C('Nat', env={'_trafo': 'selftrafo'}).expr(nf)}")
    rng = [ast.unparse(s) for s in fn_body(init)]
    if not any(s.startswith("if self._trafo < 1 or self._trafo > 3:\n    raise ValueError") for s in rng):
        raise Untranslatable("OperatorAdapter trafo range check")
    emit("")
    # DiagonalOperator
    do = os.path.join(opdir, "diagonal_operator.py")
    dap = py2lean.find_function(do, "apply", cls="DiagonalOperator")
    emit("-- DiagonalOperator.apply: trafo = <expr>; branch table (conj, divide) for trafo = 0..3")
    emit(f"def diagTrafo (selftrafo mode : Nat) : Nat := {C('Nat', env={'_trafo': 'selftrafo'}).expr(find_local_assign(dap, 'trafo'))}")
    emit("def diagApplyKind : List (Bool × Bool) := " + lean_list(diag_apply_table(dap), "pair"))
    emit("-- DiagonalOperator._get_actual_diag: (conj, reciprocal) for self._trafo = 0..3")
    emit("def diagActualKind : List (Bool × Bool) := " +
         lean_list(actual_diag_table(py2lean.find_function(do, "_get_actual_diag", cls="DiagonalOperator")), "pair"))
    dfl = py2lean.find_function(do, "_flip_modes", cls="DiagonalOperator")
    b = fn_body(dfl)
    if not (len(b) == 1 and isinstance(b[0], ast.Return) and isinstance(b[0].value, ast.Call)
            and ast.unparse(b[0].value.func) == "self._from_ldiag" and len(b[0].value.args) == 4
            and ast.unparse(b[0].value.args[1]) == "self._ldiag"):
        raise Untranslatable("DiagonalOperator._flip_modes shape")
    emit(f"def diagFlip (selftrafo trafo : Nat) : Nat := {C('Nat', env={'_trafo': 'selftrafo'}).expr(b[0].value.args[3])}")
    for nm in ("_scale", "_add", "_combine_prod", "_combine_sum"):
        f = py2lean.find_function(do, nm, cls="DiagonalOperator")
        r = fn_body(f)[-1]
        if not (isinstance(r, ast.Return) and isinstance(r.value, ast.Call) and len(r.value.args) == 4
                and ast.unparse(r.value.args[3]) == "0"):
            raise Untranslatable(f"DiagonalOperator.{nm}: result trafo is not the literal 0")
    emit("")
    # ScalingOperator
    sc = os.path.join(opdir, "scaling_operator.py")
    sap = py2lean.find_function(sc, "apply", cls="ScalingOperator")
    emit("-- ScalingOperator.apply: conj if mode & MODES_WITH_ADJOINT, reciprocal if mode & MODES_WITH_INVERSE")
    emit(f"def scalingAdjMask : Nat := {c.expr(find_local_assign(sap, 'MODES_WITH_ADJOINT'))}")
    emit(f"def scalingInvMask : Nat := {c.expr(find_local_assign(sap, 'MODES_WITH_INVERSE'))}")
    ifs = [s for s in fn_body(sap) if isinstance(s, ast.If)]
    srcs = [ast.unparse(s) for s in ifs]
    want = ["if fct == 1.0:\n    return x", "if fct == 0.0:\n    return full(x.domain, 0.0, x.device_id)",
            "if mode & MODES_WITH_ADJOINT != 0:\n    fct = np.conj(fct)",
            "if mode & MODES_WITH_INVERSE != 0:\n    fct = 1.0 / fct"]
    if srcs != want or ast.unparse(fn_body(sap)[-1]) != "return x * fct":
        raise Untranslatable("ScalingOperator.apply shape: " + repr(srcs)[:200])
    sfl = py2lean.find_function(sc, "_flip_modes", cls="ScalingOperator")
    srcs = [ast.unparse(s) for s in fn_body(sfl)]
    want = ["fct = self._factor", "if trafo & self.ADJOINT_BIT:\n    fct = np.conj(fct)",
            "if trafo & self.INVERSE_BIT:\n    fct = 1.0 / fct", "return ScalingOperator(self._domain, fct, self._dtype)"]
    if srcs != want:
        raise Untranslatable("ScalingOperator._flip_modes shape: " + repr(srcs)[:200])
    emit("-- ScalingOperator._flip_modes: conj if trafo & ADJOINT_BIT, reciprocal if trafo & INVERSE_BIT (shape checked)")
    emit("def scalingFlipConj (trafo : Nat) : Bool := (trafo &&& ADJOINT_BIT) != 0")
    emit("def scalingFlipInv (trafo : Nat) : Bool := (trafo &&& INVERSE_BIT) != 0")
    emit("")
    # InversionEnabler
    ie = os.path.join(opdir, "inversion_enabler.py")
    cap = find_self_assign(py2lean.find_function(ie, "__init__", cls="InversionEnabler"), "_capability")
    if not (isinstance(cap, ast.Subscript) and ast.unparse(cap.slice) == "self._op.capability"):
        raise Untranslatable("InversionEnabler capability shape")
    emit(f"def invEnablerCap (cap : Nat) : Nat := {c.expr(ast.Subscript(value=cap.value, slice=ast.Name(id='cap')))}")
    iap = py2lean.find_function(ie, "apply", cls="InversionEnabler")
    first_if = [s for s in fn_body(iap) if isinstance(s, ast.If)][0]
    if ast.unparse(first_if) != "if self._op.capability & mode:\n    return self._op.apply(x, mode)":
        raise Untranslatable("InversionEnabler.apply delegation shape")
    emit("def invEnablerDelegates (cap mode : Nat) : Bool := (cap &&& mode) != 0")
    emit(f"def invEnablerInvMode (mode : Nat) : Nat := {c.expr(find_local_assign(iap, 'invmode'))}")
    # SandwichOperator
    sw = os.path.join(opdir, "sandwich_operator.py")
    if ast.unparse(find_self_assign(py2lean.find_function(sw, "__init__", cls="SandwichOperator"), "_capability")) != "op._capability":
        raise Untranslatable("SandwichOperator capability shape")
    b = fn_body(py2lean.find_function(sw, "apply", cls="SandwichOperator"))
    if [ast.unparse(s) for s in b] != ["return self._op.apply(x, mode)"]:
        raise Untranslatable("SandwichOperator.apply shape")
    emit("\nend NiftyVerif.Gen.ModeTables")
    py2lean.write_if_changed(OUT, "\n".join(L) + "\n")
    return OUT


if __name__ == "__main__":
    import sys
    print(translate(sys.argv[1] if len(sys.argv) > 1 else os.environ.get("NIFTY_REPO", "/repo")))
